/-
Audit.lean — run as `lake env lean --run Audit.lean <module> <namespace>`.
Loads the compiled module, lists every theorem declared in `<namespace>` (skipping compiler
auxiliaries) and prints the axioms each one depends on.  One line per theorem:
  THEOREM <name> AXIOMS <a1,a2,...>
-/
import Lean
open Lean

def isAux (n : Name) : Bool :=
  n.isInternal || n.components.any fun c =>
    let s := c.toString
    s.startsWith "match_" || s.startsWith "proof_" || s.startsWith "eq_" || s.startsWith "_"

def main (args : List String) : IO UInt32 := do
  let some modS := args[0]? | do IO.eprintln "usage: Audit <module> <namespace>"; return 2
  let some nsS := args[1]? | do IO.eprintln "usage: Audit <module> <namespace>"; return 2
  initSearchPath (← findSysroot)
  let env ← importModules #[{ module := modS.toName }] {}
  let ns := nsS.toName
  let mut names : Array Name := #[]
  for (n, ci) in env.constants.toList do
    if ns.isPrefixOf n && !isAux n then
      match ci with
      | .thmInfo _ => names := names.push n
      | _ => pure ()
  let sorted := names.qsort (fun a b => a.toString < b.toString)
  for n in sorted do
    let (axs, _) ← (Lean.collectAxioms n : CoreM (Array Name)).toIO
      { fileName := "<audit>", fileMap := default } { env := env }
    let axsS := ",".intercalate ((axs.qsort (fun a b => a.toString < b.toString)).toList.map toString)
    let ty := match env.find? n with
      | some ci => (toString ci.type).replace "\n" " "
      | none => ""
    IO.println s!"THEOREM {n} AXIOMS {axsS}"
    IO.println s!"STATEMENT {n} :: {(ty.take 600)}"
  IO.println s!"AUDIT-DONE {sorted.size}"
  return 0
