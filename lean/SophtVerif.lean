import SophtVerif.Core.Grid
import SophtVerif.Core.Table
import SophtVerif.Core.Poly
import SophtVerif.Gen.Kernels

import SophtVerif.Gen.Calls
import SophtVerif.Core.Program
import SophtVerif.Core.RatTransc
import SophtVerif.Gen.Table
import SophtVerif.Props.C04
import SophtVerif.Props.C05
import SophtVerif.Props.C12
import SophtVerif.Model.Prog2D
import SophtVerif.Lemmas.Prog2D
import SophtVerif.Props.C13
import SophtVerif.Props.C20
import SophtVerif.Core.Order
import SophtVerif.Props.C15
