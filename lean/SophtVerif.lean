import SophtVerif.Core.Grid
import SophtVerif.Core.Table
import SophtVerif.Gen.Kernels
import SophtVerif.Gen.KernelsReal
import SophtVerif.Gen.KernelsFloat
import SophtVerif.Gen.Table
