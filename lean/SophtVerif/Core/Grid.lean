/-
Core/Grid.lean — grid fields as total functions on ℤᵈ, index boxes, kernel application.
SophT-independent.  (DESIGN §2.2, §5.1)
-/
import Mathlib.Algebra.Order.Field.Basic
import Mathlib.Algebra.Order.Ring.Abs
import Mathlib.Tactic.Ring
import Mathlib.Tactic.Linarith

namespace Sopht

/-- 2D grid field; first index = array axis 0 (y), last index = x -/
abbrev F2 (K : Type) := ℤ → ℤ → K
/-- 3D grid field; indices (z, y, x) -/
abbrev F3 (K : Type) := ℤ → ℤ → ℤ → K
/-- 4D array (component, z, y, x) as seen by the "vector" kernels -/
abbrev F4 (K : Type) := ℤ → ℤ → ℤ → ℤ → K

/-- half-open index rectangle -/
structure Rect2 where
  i0 : ℤ
  i1 : ℤ
  j0 : ℤ
  j1 : ℤ
deriving DecidableEq, Repr

abbrev Rect2.mem (r : Rect2) (i j : ℤ) : Prop := r.i0 ≤ i ∧ i < r.i1 ∧ r.j0 ≤ j ∧ j < r.j1

structure Rect3 where
  i0 : ℤ
  i1 : ℤ
  j0 : ℤ
  j1 : ℤ
  k0 : ℤ
  k1 : ℤ
deriving DecidableEq, Repr

abbrev Rect3.mem (r : Rect3) (i j k : ℤ) : Prop :=
  r.i0 ≤ i ∧ i < r.i1 ∧ r.j0 ≤ j ∧ j < r.j1 ∧ r.k0 ≤ k ∧ k < r.k1

/-- the box `[0,ny) × [0,nx)` -/
abbrev full2 (ny nx : ℤ) : Rect2 := ⟨0, ny, 0, nx⟩
/-- the box shrunk by `g` ghost cells on every side: iteration region of a stencil of reach `g` -/
abbrev interior2 (ny nx g : ℤ) : Rect2 := ⟨g, ny - g, g, nx - g⟩
abbrev full3 (nz ny nx : ℤ) : Rect3 := ⟨0, nz, 0, ny, 0, nx⟩
abbrev interior3 (nz ny nx g : ℤ) : Rect3 := ⟨g, nz - g, g, ny - g, g, nx - g⟩

variable {K : Type}

/-- simultaneous update of all cells of `r` from the right-hand side (evaluated on the pre-state) -/
def applyK2 (r : Rect2) (old rhs : F2 K) : F2 K :=
  fun i j => if r.mem i j then rhs i j else old i j

def applyK3 (r : Rect3) (old rhs : F3 K) : F3 K :=
  fun i j k => if r.mem i j k then rhs i j k else old i j k

@[simp] theorem applyK2_in {r : Rect2} {old rhs : F2 K} {i j : ℤ} (h : r.mem i j) :
    applyK2 r old rhs i j = rhs i j := by simp [applyK2, h]

@[simp] theorem applyK2_out {r : Rect2} {old rhs : F2 K} {i j : ℤ} (h : ¬ r.mem i j) :
    applyK2 r old rhs i j = old i j := by simp [applyK2, h]

@[simp] theorem applyK3_in {r : Rect3} {old rhs : F3 K} {i j k : ℤ} (h : r.mem i j k) :
    applyK3 r old rhs i j k = rhs i j k := by simp [applyK3, h]

@[simp] theorem applyK3_out {r : Rect3} {old rhs : F3 K} {i j k : ℤ} (h : ¬ r.mem i j k) :
    applyK3 r old rhs i j k = old i j k := by simp [applyK3, h]

end Sopht

namespace Sopht
/-- hooks for the transcendental atoms that occur in a few kernels (`sin`, `π`): instantiated with
`Real.sin`/`Real.pi` in theorems, with a float-backed rational approximation in the drivers -/
structure Transc (K : Type) where
  sin : K → K
  pi : K
  cos : K → K := fun _ => pi
  sqrt : K → K := fun x => x
end Sopht
