/-
Core/Order.lean — order independence of per-cell updates (DESIGN §5.4).
If the update of a cell reads the written array only at that cell (and otherwise only arrays that the
loop does not write), then executing the per-cell updates sequentially in ANY order — any permutation of
the cells, hence any distribution of the cells over threads and any interleaving of their iterations that
is equivalent to some serial order — gives the simultaneous update.
-/
import Mathlib.Data.List.Perm.Basic
import Mathlib.Logic.Function.Basic

namespace Sopht

theorem order_independent {C V : Type} [DecidableEq C] (upd : C → V → V) (cs : List C) (hnd : cs.Nodup)
    (a : C → V) :
    cs.foldl (fun (st : C → V) c => Function.update st c (upd c (st c))) a
      = fun c => if c ∈ cs then upd c (a c) else a c := by
  induction cs generalizing a with
  | nil => simp
  | cons c cs ih =>
    have hc : c ∉ cs := (List.nodup_cons.mp hnd).1
    have hnd' : cs.Nodup := (List.nodup_cons.mp hnd).2
    simp only [List.foldl_cons]
    rw [ih hnd']
    funext d
    by_cases hd : d = c
    · subst hd; simp [hc]
    · by_cases hd' : d ∈ cs
      · simp [hd, hd', Function.update_of_ne hd]
      · simp [hd, hd', Function.update_of_ne hd]

/-- any two orders (permutations of the cell list) agree -/
theorem perm_agree {C V : Type} [DecidableEq C] (upd : C → V → V) (cs cs' : List C) (hnd : cs.Nodup)
    (hp : cs.Perm cs') (a : C → V) :
    cs.foldl (fun (st : C → V) c => Function.update st c (upd c (st c))) a
      = cs'.foldl (fun (st : C → V) c => Function.update st c (upd c (st c))) a := by
  rw [order_independent upd cs hnd, order_independent upd cs' (hp.nodup_iff.mp hnd)]
  funext c; simp [hp.mem_iff]

end Sopht
