/-
Core/Poly.lean — polynomial test fields of degree ≤ 2 with symbolic coefficients, sampled at
cell centres x = (n + 1/2) h, x along the LAST array axis (DESIGN §5.3).
-/
import SophtVerif.Core.Grid
import Mathlib.Tactic.FieldSimp

namespace Sopht

variable {K : Type} [Field K]

/-- coordinate of the centre of cell `n` for spacing `h` -/
def xc (h : K) (n : ℤ) : K := ((n : K) + 1 / 2) * h

/-- quadratic polynomial in (x, y) -/
structure Quad2 (K : Type) where
  a0 : K
  ax : K
  ay : K
  axx : K
  axy : K
  ayy : K

namespace Quad2
def eval (p : Quad2 K) (x y : K) : K :=
  p.a0 + p.ax * x + p.ay * y + p.axx * x ^ 2 + p.axy * x * y + p.ayy * y ^ 2
def dx (p : Quad2 K) (x y : K) : K := p.ax + 2 * p.axx * x + p.axy * y
def dy (p : Quad2 K) (x y : K) : K := p.ay + p.axy * x + 2 * p.ayy * y
def lap (p : Quad2 K) : K := 2 * p.axx + 2 * p.ayy
/-- sampled on the grid: array index (i, j) = (y, x) -/
def field (p : Quad2 K) (h : K) : F2 K := fun i j => p.eval (xc h j) (xc h i)
end Quad2

/-- quadratic polynomial in (x, y, z) -/
structure Quad3 (K : Type) where
  a0 : K
  ax : K
  ay : K
  az : K
  axx : K
  ayy : K
  azz : K
  axy : K
  axz : K
  ayz : K

namespace Quad3
def eval (p : Quad3 K) (x y z : K) : K :=
  p.a0 + p.ax * x + p.ay * y + p.az * z + p.axx * x ^ 2 + p.ayy * y ^ 2 + p.azz * z ^ 2
    + p.axy * x * y + p.axz * x * z + p.ayz * y * z
def dx (p : Quad3 K) (x y z : K) : K := p.ax + 2 * p.axx * x + p.axy * y + p.axz * z
def dy (p : Quad3 K) (x y z : K) : K := p.ay + 2 * p.ayy * y + p.axy * x + p.ayz * z
def dz (p : Quad3 K) (x y z : K) : K := p.az + 2 * p.azz * z + p.axz * x + p.ayz * y
def lap (p : Quad3 K) : K := 2 * p.axx + 2 * p.ayy + 2 * p.azz
/-- sampled on the grid: array index (i, j, k) = (z, y, x) -/
def field (p : Quad3 K) (h : K) : F3 K := fun i j k => p.eval (xc h k) (xc h j) (xc h i)
end Quad3

/-- cubic in one variable (nodal flux along one axis) -/
structure Cubic1 (K : Type) where
  c0 : K
  c1 : K
  c2 : K
  c3 : K

namespace Cubic1
def eval (q : Cubic1 K) (x : K) : K := q.c0 + q.c1 * x + q.c2 * x ^ 2 + q.c3 * x ^ 3
def deriv (q : Cubic1 K) (x : K) : K := q.c1 + 2 * q.c2 * x + 3 * q.c3 * x ^ 2
end Cubic1

end Sopht
