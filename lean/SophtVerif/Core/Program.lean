/-
Core/Program.lean — straight-line programs of kernel calls over a store of named buffers
(DESIGN §2.2).  A call carries (a) what the tracer sees — kernel id, formal ↦ buffer bindings, scalar
arguments, iteration region — and (b) its semantics: for every written buffer the right-hand side as a
function of the PRE-state.  Calls are only built by the generated constructors in `Gen/Calls.lean`, which
derive (a) and (b) from the same arguments.
-/
import SophtVerif.Core.Grid

namespace Sopht

variable {B K : Type}

/-! ### 2D -/

abbrev Store2 (B K : Type) := B → F2 K

def Store2.set [DecidableEq B] (s : Store2 B K) (b : B) (f : F2 K) : Store2 B K :=
  fun b' => if b' = b then f else s b'

@[simp] theorem Store2.set_same [DecidableEq B] (s : Store2 B K) (b : B) (f : F2 K) : s.set b f b = f := by
  simp [Store2.set]

@[simp] theorem Store2.set_other [DecidableEq B] (s : Store2 B K) (b b' : B) (f : F2 K) (h : b' ≠ b) :
    s.set b f b' = s b' := by
  simp [Store2.set, h]

structure Call2 (B K : Type) where
  kid : String
  binds : List (String × B)
  scal : List (String × K)
  region : Rect2
  writes : List (B × (Store2 B K → F2 K))

/-- all right-hand sides are evaluated on the pre-state `s`; cells outside the region and buffers
that are not written keep their values -/
def Call2.exec [DecidableEq B] (c : Call2 B K) (s : Store2 B K) : Store2 B K :=
  c.writes.foldl (fun acc w => acc.set w.1 (applyK2 c.region (s w.1) (w.2 s))) s

def exec2 [DecidableEq B] (p : List (Call2 B K)) (s : Store2 B K) : Store2 B K :=
  p.foldl (fun s c => c.exec s) s

theorem exec2_append [DecidableEq B] (p q : List (Call2 B K)) (s : Store2 B K) :
    exec2 (p ++ q) s = exec2 q (exec2 p s) := by
  simp [exec2, List.foldl_append]

@[simp] theorem exec2_nil [DecidableEq B] (s : Store2 B K) : exec2 ([] : List (Call2 B K)) s = s := rfl

@[simp] theorem exec2_cons [DecidableEq B] (c : Call2 B K) (p : List (Call2 B K)) (s : Store2 B K) :
    exec2 (c :: p) s = exec2 p (c.exec s) := rfl

/-! ### 3D -/

abbrev Store3 (B K : Type) := B → F3 K

def Store3.set [DecidableEq B] (s : Store3 B K) (b : B) (f : F3 K) : Store3 B K :=
  fun b' => if b' = b then f else s b'

@[simp] theorem Store3.set_same [DecidableEq B] (s : Store3 B K) (b : B) (f : F3 K) : s.set b f b = f := by
  simp [Store3.set]

@[simp] theorem Store3.set_other [DecidableEq B] (s : Store3 B K) (b b' : B) (f : F3 K) (h : b' ≠ b) :
    s.set b f b' = s b' := by
  simp [Store3.set, h]

structure Call3 (B K : Type) where
  kid : String
  binds : List (String × B)
  scal : List (String × K)
  region : Rect3
  writes : List (B × (Store3 B K → F3 K))

def Call3.exec [DecidableEq B] (c : Call3 B K) (s : Store3 B K) : Store3 B K :=
  c.writes.foldl (fun acc w => acc.set w.1 (applyK3 c.region (s w.1) (w.2 s))) s

def exec3 [DecidableEq B] (p : List (Call3 B K)) (s : Store3 B K) : Store3 B K :=
  p.foldl (fun s c => c.exec s) s

theorem exec3_append [DecidableEq B] (p q : List (Call3 B K)) (s : Store3 B K) :
    exec3 (p ++ q) s = exec3 q (exec3 p s) := by
  simp [exec3, List.foldl_append]

@[simp] theorem exec3_nil [DecidableEq B] (s : Store3 B K) : exec3 ([] : List (Call3 B K)) s = s := rfl

@[simp] theorem exec3_cons [DecidableEq B] (c : Call3 B K) (p : List (Call3 B K)) (s : Store3 B K) :
    exec3 (c :: p) s = exec3 p (c.exec s) := rfl

/-- a vector buffer: component index ↦ buffer id -/
abbrev VecBuf (B : Type) := ℤ → B

/-- component list `[0, …, n-1]` used by the vector-kernel call constructors -/
def comps (n : ℕ) : List ℤ := (List.range n).map (fun c => Int.ofNat c)

end Sopht

/-! ### frame lemmas (DESIGN §5.1): buffers that no call writes, and cells outside every call's
region, are unchanged by a program -/

namespace Sopht
variable {B K : Type} [DecidableEq B]

def Call2.written (c : Call2 B K) : List B := c.writes.map (·.1)
def written2 (p : List (Call2 B K)) : List B := p.flatMap Call2.written

theorem Call2.exec_foldl_other (ws : List (B × (Store2 B K → F2 K))) (r : Rect2) (s acc : Store2 B K) (b : B)
    (h : b ∉ ws.map (·.1)) :
    (ws.foldl (fun acc w => acc.set w.1 (applyK2 r (s w.1) (w.2 s))) acc) b = acc b := by
  induction ws generalizing acc with
  | nil => rfl
  | cons w ws ih =>
    simp only [List.map_cons, List.mem_cons, not_or] at h
    simp only [List.foldl_cons]
    rw [ih _ h.2, Store2.set_other _ _ _ _ h.1]

theorem Call2.exec_other (c : Call2 B K) (s : Store2 B K) (b : B) (h : b ∉ c.written) :
    c.exec s b = s b := Call2.exec_foldl_other c.writes c.region s s b h

theorem exec2_other (p : List (Call2 B K)) (s : Store2 B K) (b : B) (h : b ∉ written2 p) :
    exec2 p s b = s b := by
  induction p generalizing s with
  | nil => rfl
  | cons c p ih =>
    simp only [written2, List.flatMap_cons, List.mem_append, not_or] at h
    rw [exec2_cons, ih _ h.2, Call2.exec_other c s b h.1]

theorem Call2.exec_foldl_outside (ws : List (B × (Store2 B K → F2 K))) (r : Rect2) (s acc : Store2 B K) (b : B)
    (i j : ℤ) (h : ¬ r.mem i j) (hacc : acc b i j = s b i j) :
    (ws.foldl (fun acc w => acc.set w.1 (applyK2 r (s w.1) (w.2 s))) acc) b i j = s b i j := by
  induction ws generalizing acc with
  | nil => exact hacc
  | cons w ws ih =>
    simp only [List.foldl_cons]
    apply ih
    by_cases hb : b = w.1
    · subst hb; simp [applyK2, h]
    · rw [Store2.set_other _ _ _ _ hb]; exact hacc

theorem Call2.exec_outside (c : Call2 B K) (s : Store2 B K) (b : B) (i j : ℤ) (h : ¬ c.region.mem i j) :
    c.exec s b i j = s b i j := Call2.exec_foldl_outside c.writes c.region s s b i j h rfl

/-- a cell outside the iteration region of every call keeps its value in every buffer -/
theorem exec2_outside (p : List (Call2 B K)) (s : Store2 B K) (b : B) (i j : ℤ)
    (h : ∀ c ∈ p, ¬ c.region.mem i j) : exec2 p s b i j = s b i j := by
  induction p generalizing s with
  | nil => rfl
  | cons c p ih =>
    rw [exec2_cons, ih _ (fun c' hc' => h c' (List.mem_cons_of_mem _ hc')),
      Call2.exec_outside c s b i j (h c (List.mem_cons_self ..))]

def Call3.written (c : Call3 B K) : List B := c.writes.map (·.1)
def written3 (p : List (Call3 B K)) : List B := p.flatMap Call3.written

theorem Call3.exec_foldl_other (ws : List (B × (Store3 B K → F3 K))) (r : Rect3) (s acc : Store3 B K) (b : B)
    (h : b ∉ ws.map (·.1)) :
    (ws.foldl (fun acc w => acc.set w.1 (applyK3 r (s w.1) (w.2 s))) acc) b = acc b := by
  induction ws generalizing acc with
  | nil => rfl
  | cons w ws ih =>
    simp only [List.map_cons, List.mem_cons, not_or] at h
    simp only [List.foldl_cons]
    rw [ih _ h.2, Store3.set_other _ _ _ _ h.1]

theorem Call3.exec_other (c : Call3 B K) (s : Store3 B K) (b : B) (h : b ∉ c.written) :
    c.exec s b = s b := Call3.exec_foldl_other c.writes c.region s s b h

theorem exec3_other (p : List (Call3 B K)) (s : Store3 B K) (b : B) (h : b ∉ written3 p) :
    exec3 p s b = s b := by
  induction p generalizing s with
  | nil => rfl
  | cons c p ih =>
    simp only [written3, List.flatMap_cons, List.mem_append, not_or] at h
    rw [exec3_cons, ih _ h.2, Call3.exec_other c s b h.1]

theorem Call3.exec_foldl_outside (ws : List (B × (Store3 B K → F3 K))) (r : Rect3) (s acc : Store3 B K) (b : B)
    (i j k : ℤ) (h : ¬ r.mem i j k) (hacc : acc b i j k = s b i j k) :
    (ws.foldl (fun acc w => acc.set w.1 (applyK3 r (s w.1) (w.2 s))) acc) b i j k = s b i j k := by
  induction ws generalizing acc with
  | nil => exact hacc
  | cons w ws ih =>
    simp only [List.foldl_cons]
    apply ih
    by_cases hb : b = w.1
    · subst hb; simp [applyK3, h]
    · rw [Store3.set_other _ _ _ _ hb]; exact hacc

theorem Call3.exec_outside (c : Call3 B K) (s : Store3 B K) (b : B) (i j k : ℤ) (h : ¬ c.region.mem i j k) :
    c.exec s b i j k = s b i j k := Call3.exec_foldl_outside c.writes c.region s s b i j k h rfl

theorem exec3_outside (p : List (Call3 B K)) (s : Store3 B K) (b : B) (i j k : ℤ)
    (h : ∀ c ∈ p, ¬ c.region.mem i j k) : exec3 p s b i j k = s b i j k := by
  induction p generalizing s with
  | nil => rfl
  | cons c p ih =>
    rw [exec3_cons, ih _ (fun c' hc' => h c' (List.mem_cons_of_mem _ hc')),
      Call3.exec_outside c s b i j k (h c (List.mem_cons_self ..))]

end Sopht
