/-
Core/RatTransc.lean — float-backed instantiation of the transcendental hooks over ℚ, used by the
drivers and the printer self-check only (never by theorems).
-/
import SophtVerif.Core.Grid
import Batteries.Data.Float.Rat
import Mathlib.Algebra.Order.Field.Rat

namespace Sopht

def ratTransc : Transc ℚ where
  sin := fun q => (Float.sin q.toFloat).toRat0
  pi := (3.141592653589793 : Float).toRat0
  cos := fun q => (Float.cos q.toFloat).toRat0
  sqrt := fun q => (Float.sqrt q.toFloat).toRat0

end Sopht
