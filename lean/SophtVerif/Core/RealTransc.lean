/- Core/RealTransc.lean — the real instantiation of the transcendental hooks (theorems are read here). -/
import SophtVerif.Core.Grid
import Mathlib.Analysis.SpecialFunctions.Trigonometric.Basic

namespace Sopht
noncomputable def realTransc : Transc ℝ := ⟨Real.sin, Real.pi⟩
@[simp] theorem realTransc_sin : realTransc.sin = Real.sin := rfl
@[simp] theorem realTransc_pi : realTransc.pi = Real.pi := rfl
end Sopht
