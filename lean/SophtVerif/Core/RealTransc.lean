/- Core/RealTransc.lean — the real instantiation of the transcendental hooks (theorems are read here). -/
import SophtVerif.Core.Grid
import Mathlib.Analysis.SpecialFunctions.Trigonometric.Basic
import Mathlib.Analysis.SpecialFunctions.Sqrt

namespace Sopht
noncomputable def realTransc : Transc ℝ := ⟨Real.sin, Real.pi, Real.cos, Real.sqrt⟩
@[simp] theorem realTransc_cos : realTransc.cos = Real.cos := rfl
@[simp] theorem realTransc_sqrt : realTransc.sqrt = Real.sqrt := rfl
@[simp] theorem realTransc_sin : realTransc.sin = Real.sin := rfl
@[simp] theorem realTransc_pi : realTransc.pi = Real.pi := rfl
end Sopht
