/-
Core/Table.lean — kernel table rows (data printed by the translator) and the decidable
independence condition of DESIGN §5.4 / C15.
-/
namespace Sopht

structure KernelRow where
  name : String
  ndim : Nat
  ghost : Nat
  /-- per field read: the list of offsets -/
  reads : List (String × List (List Int))
  writes : List String
  /-- iteration slice as (start?, stop?) per axis, python semantics (negative = from the end) -/
  slice : Option (List (Option Int × Option Int))
  /-- (num_threads passed to the generator, cpu_openmp received by CreateKernelConfig) as reprs -/
  threads : List (String × String)
deriving Repr

def isZeroOffset (o : List Int) : Bool := o.all (· == 0)

/-- every written field is written once and read at the centre only -/
def KernelRow.independent (r : KernelRow) : Bool :=
  r.writes.Nodup &&
  r.writes.all fun w =>
    r.reads.all fun (f, offs) => f != w || offs.all isZeroOffset

/-- ghost width equals the largest absolute offset read -/
def KernelRow.ghostOk (r : KernelRow) : Bool :=
  let m := r.reads.foldl (fun acc (_, offs) =>
    offs.foldl (fun a o => o.foldl (fun b x => max b x.natAbs) a) acc) 0
  m == r.ghost

/-- the kernel configuration receives the thread request unchanged or an explicit serial setting (the
O(N) boundary setters inside wrappers are deliberately serial), never a different count -/
def KernelRow.threadsForwarded (r : KernelRow) : Bool :=
  r.threads.all fun (a, b) => a == b || b == "False"

end Sopht
