/-
Driver/Domain.lean — evaluates Model.Domain at ℚ.  Input lines: `xrange nx n` (x_range as `p/q`, the x cell count, the cell
count of the axis asked for); output: `dx range c_0 … c_{n-1}` as `p/q`.
-/
import SophtVerif.Model.Domain
import Mathlib.Algebra.Order.Field.Rat

open Sopht.Model.Domain

def parseRat (t : String) : Option ℚ :=
  match t.splitOn "/" with
  | [a] => a.toInt?.map fun n => (n : ℚ)
  | [a, b] => do
      let n ← a.toInt?
      let d ← b.toNat?
      pure (mkRat n d)
  | _ => none

def showQ (v : ℚ) : String := s!"{v.num}/{v.den}"

partial def loop (h : IO.FS.Stream) : IO Unit := do
  let line ← h.getLine
  if line.isEmpty then return ()
  let toks := (line.trimAscii.toString.splitOn " ").filter (· ≠ "")
  match toks with
  | [xr, nx, n] =>
      match parseRat xr, nx.toNat?, n.toNat? with
      | some xr, some nx, some n =>
          let cs := (List.range n).map fun k => showQ (centre xr nx n k)
          IO.println (" ".intercalate ([showQ (dx xr nx), showQ (axisRange xr nx n)] ++ cs))
      | _, _, _ => IO.println "bad-input"
  | _ => IO.println "bad-input"
  loop h

def main : IO Unit := do loop (← IO.getStdin)
