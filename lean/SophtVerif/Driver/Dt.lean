/-
Driver/Dt.lean — evaluates Model.stableDtPrefac at ℚ.  Input lines: `cfl dx nu tol umax d prefac`
(rationals `p/q`), output: the model's value as `p/q`.
-/
import SophtVerif.Model.Dt
import Mathlib.Algebra.Order.Field.Rat

open Sopht.Model

def parseRat (t : String) : Option ℚ :=
  match t.splitOn "/" with
  | [a] => a.toInt?.map fun n => (n : ℚ)
  | [a, b] => do
      let n ← a.toInt?
      let d ← b.toNat?
      pure (mkRat n d)
  | _ => none

partial def loop (h : IO.FS.Stream) : IO Unit := do
  let line ← h.getLine
  if line.isEmpty then return ()
  let toks := (line.trimAscii.toString.splitOn " ").filter (· ≠ "")
  match toks.map parseRat with
  | [some cfl, some dx, some nu, some tol, some umax, some d, some p] =>
      let v := stableDtPrefac cfl dx nu tol umax d.num.toNat p
      IO.println s!"{v.num}/{v.den}"
  | _ => IO.println "bad-input"
  loop h

def main : IO Unit := do loop (← IO.getStdin)
