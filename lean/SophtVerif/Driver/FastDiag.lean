/-
Driver/FastDiag.lean — evaluates Model.fdSolve2 / fdSolve3 at ℚ.
Input: `dims <d> <nz> <ny> <nx>`; matrices `mat <name> <rows> <cols> <values…>` for Vz Wz Vy Wy Vx Wx (2D: no z);
`inv <values…>` (row-major nz·ny·nx); `f <values…>`; `run` → `u <values…>`.
-/
import SophtVerif.Model.FastDiag
import Mathlib.Algebra.Order.Field.Rat
import Std.Data.HashMap

open Sopht.Model

def parseRat (t : String) : Option ℚ :=
  match t.splitOn "/" with
  | [a] => a.toInt?.map fun n => (n : ℚ)
  | [a, b] => do
      let n ← a.toInt?
      let d ← b.toNat?
      pure (mkRat n d)
  | _ => none

def showRat (q : ℚ) : String := if q.den == 1 then toString q.num else s!"{q.num}/{q.den}"

structure Sess where
  d : ℕ := 2
  nz : ℕ := 1
  ny : ℕ := 1
  nx : ℕ := 1
  mats : Std.HashMap String (ℕ × Array ℚ) := {}
  inv : Array ℚ := #[]
  f : Array ℚ := #[]

def Sess.mat (s : Sess) (n : String) : ℕ → ℕ → ℚ :=
  let (cols, a) := s.mats.getD n (1, #[])
  fun i j => a.getD (i * cols + j) 0

def Sess.run (s : Sess) : IO Unit := do
  if s.d == 2 then
    let inv : ℕ → ℕ → ℚ := fun a b => s.inv.getD (a * s.nx + b) 0
    let f : ℕ → ℕ → ℚ := fun y x => s.f.getD (y * s.nx + x) 0
    let u := fdSolve2 s.ny s.nx (s.mat "Vy") (s.mat "Wy") (s.mat "Vx") (s.mat "Wx") inv f
    let vals := (List.range s.ny).flatMap fun y => (List.range s.nx).map fun x => showRat (u y x)
    IO.println s!"u {" ".intercalate vals}"
  else
    let inv : ℕ → ℕ → ℕ → ℚ := fun a b c => s.inv.getD ((a * s.ny + b) * s.nx + c) 0
    let f : ℕ → ℕ → ℕ → ℚ := fun z y x => s.f.getD ((z * s.ny + y) * s.nx + x) 0
    let u := fdSolve3 s.nz s.ny s.nx (s.mat "Vz") (s.mat "Wz") (s.mat "Vy") (s.mat "Wy") (s.mat "Vx") (s.mat "Wx") inv f
    let vals := (List.range s.nz).flatMap fun z => (List.range s.ny).flatMap fun y => (List.range s.nx).map fun x => showRat (u z y x)
    IO.println s!"u {" ".intercalate vals}"
  (← IO.getStdout).flush

partial def loop (h : IO.FS.Stream) (s : Sess) : IO Unit := do
  let line ← h.getLine
  if line.isEmpty then return ()
  let toks := (line.trimAscii.toString.splitOn " ").filter (· ≠ "")
  let rats (ts : List String) : Array ℚ := (ts.map fun t => (parseRat t).getD 0).toArray
  match toks with
  | ["dims", d, a, b, c] => loop h { s with d := d.toNat!, nz := a.toNat!, ny := b.toNat!, nx := c.toNat! }
  | "mat" :: n :: _ :: c :: vs => loop h { s with mats := s.mats.insert n (c.toNat!, rats vs) }
  | "inv" :: vs => loop h { s with inv := rats vs }
  | "f" :: vs => loop h { s with f := rats vs }
  | ["run"] => do s.run; loop h {}
  | _ => loop h s

def main : IO Unit := do loop (← IO.getStdin) {}
