/-
Driver/ForcingGrids.lean — evaluates Model/ForcingGrids at ℚ.  Line protocol (rationals `p/q`):
  section <Q 9 row-major> <X 3> <V 3> <W 3>
  fixed <rloc 3> <f 3>            marker with `bodyFixedArm Q rloc`
  lab <arm 3> <f 3>               marker with a lab-frame arm
  surface <radius> <ratio> <c> <s> <f 3>     marker with `surfaceArm Q radius ratio c s`
  edge <sign·r> <t 3> <f 3>       marker with arm `(sign·r) • (ẑ × t)`
  end <x0 3> <x1 3>
→ for each marker `m px py pz vx vy vz` (markerPos / markerVel), then `F ..` (netForce), `T ..` (bodyCouple),
  `H ..` (the half of the net force each end node receives, from RodElement.nodalContributions) and
  `C ..` (RodElement.centre).
-/
import SophtVerif.Model.ForcingGrids
import Mathlib.Algebra.Order.Field.Rat

open Sopht.Model Matrix

def parseRat (t : String) : Option ℚ :=
  match t.splitOn "/" with
  | [a] => a.toInt?.map fun n => (n : ℚ)
  | [a, b] => do
      let n ← a.toInt?
      let d ← b.toNat?
      pure (mkRat n d)
  | _ => none

def v3 (a b c : ℚ) : V3 ℚ := ![a, b, c]
def showQ (q : ℚ) : String := if q.den = 1 then s!"{q.num}" else s!"{q.num}/{q.den}"
def showV (v : V3 ℚ) : String := s!"{showQ (v 0)} {showQ (v 1)} {showQ (v 2)}"

structure Sec where
  Q : Matrix (Fin 3) (Fin 3) ℚ
  X : V3 ℚ
  V : V3 ℚ
  W : V3 ℚ
  ms : Array (Marker ℚ)

partial def loop (h : IO.FS.Stream) (s : Option Sec) : IO Unit := do
  let line ← h.getLine
  if line.isEmpty then return ()
  let toks := (line.trimAscii.toString.splitOn " ").filter (· ≠ "")
  match toks with
  | [] => loop h s
  | cmd :: rest =>
    match rest.mapM parseRat with
    | none => IO.println "bad-input"; loop h s
    | some xs =>
      match cmd, xs, s with
      | "section", [q00, q01, q02, q10, q11, q12, q20, q21, q22, x0, x1, x2, v0, v1, v2, w0, w1, w2], _ =>
          loop h (some ⟨!![q00, q01, q02; q10, q11, q12; q20, q21, q22], v3 x0 x1 x2, v3 v0 v1 v2, v3 w0 w1 w2, #[]⟩)
      | "fixed", [r0, r1, r2, f0, f1, f2], some sec =>
          loop h (some { sec with ms := sec.ms.push ⟨bodyFixedArm sec.Q (v3 r0 r1 r2), v3 f0 f1 f2⟩ })
      | "lab", [r0, r1, r2, f0, f1, f2], some sec =>
          loop h (some { sec with ms := sec.ms.push ⟨v3 r0 r1 r2, v3 f0 f1 f2⟩ })
      | "surface", [radius, ratio, c, sn, f0, f1, f2], some sec =>
          loop h (some { sec with ms := sec.ms.push ⟨surfaceArm sec.Q radius ratio c sn, v3 f0 f1 f2⟩ })
      | "edge", [r, t0, t1, t2, f0, f1, f2], some sec =>
          loop h (some { sec with ms := sec.ms.push ⟨r • (v3 0 0 1 ⨯₃ v3 t0 t1 t2), v3 f0 f1 f2⟩ })
      | "end", [a0, a1, a2, b0, b1, b2], some sec =>
          -- materialise each marker once (the model's vectors are closures)
          let ms := sec.ms.toList.map fun m =>
            let a := m.arm; let f := m.f
            (⟨v3 (a 0) (a 1) (a 2), v3 (f 0) (f 1) (f 2)⟩ : Marker ℚ)
          for m in ms do
            IO.println s!"m {showV (markerPos sec.X m)} {showV (markerVel sec.Q sec.V sec.W m)}"
          IO.println s!"F {showV (netForce ms)}"
          IO.println s!"T {showV (bodyCouple sec.Q ms)}"
          let e : RodElement ℚ := ⟨v3 a0 a1 a2, v3 b0 b1 b2, sec.Q, ms⟩
          match e.nodalContributions with
          | [(_, h0), (_, _)] => IO.println s!"H {showV h0}"
          | _ => IO.println "bad-model"
          IO.println s!"C {showV e.centre}"
          loop h none
      | _, _, _ => IO.println "bad-input"; loop h s

def main : IO Unit := do loop (← IO.getStdin) none
