/-
Driver/IO.lean — executes Model/IO.lean on registries whose array elements are integer tags (the model is
parametric in the element type, so tags stand for arbitrary bit patterns).
Request:
  reg <dim> <eulDefined 0|1> <len gridShape> <gridShape…>
  params <n> <origin… dx… gridSize…>                (3·n rationals)
  params-from-corner <n> <corner x y (z)> <dx> <gridSize…>   (registry parameters as EulerianFieldIO derives them)
  eul <name> <scalar|vector> <rank> <shape…> <tags…>
  grid <name> <rank> <shape…> <tags…>
  lag <gridname> <name> <scalar|vector> <rank> <shape…> <tags…>
  time <rational>
  save                     → prints `time`, `params`, one `ds <path> <rank> <shape…> <tags…>` per dataset, `done`
  file-ds <path> <rank> <shape…> <tags…>            (datasets of a file to load from; repeatable)
  file-params <n> <…> | file-noparams
  load                     → `ok time <t>` + `arr <kind> <name> <rank> <shape…> <tags…>` per field/grid, or `error <kind>`; `done`
-/
import SophtVerif.Model.IO
import Mathlib.Algebra.Order.Field.Rat

open Sopht.Model.IO

def parseRat (t : String) : Option ℚ :=
  match t.splitOn "/" with
  | [a] => a.toInt?.map fun n => (n : ℚ)
  | [a, b] => do
      let n ← a.toInt?
      let d ← b.toNat?
      pure (mkRat n d)
  | _ => none

def ravel : List ℕ → List ℕ → ℕ
  | _ :: ns, i :: is => i * ns.prod + ravel ns is
  | _, _ => 0

def arrOfList (shape : List ℕ) (data : Array ℕ) : Arr ℕ := ⟨shape, fun idx => data.getD (ravel shape idx) 0⟩

def allIdx : List ℕ → List (List ℕ)
  | [] => [[]]
  | n :: ns => (List.range n).flatMap fun i => (allIdx ns).map fun r => i :: r

def showArr (a : Arr ℕ) : String :=
  s!"{a.shape.length} {" ".intercalate (a.shape.map toString)} {" ".intercalate ((allIdx a.shape).map fun i => toString (a.get i))}"

def closeQ (a b : List ℚ) : Bool :=
  a.length == b.length && (a.zip b).all fun (x, y) => decide (|x - y| ≤ (1 / 100000000 : ℚ) + (1 / 100000 : ℚ) * |y|)

def parseArr (toks : List String) : Arr ℕ × List String :=
  match toks with
  | r :: rest =>
    let rank := r.toNat!
    let shape := (rest.take rank).map String.toNat!
    let n := shape.prod
    let data := ((rest.drop rank).take n).map String.toNat!
    (arrOfList shape data.toArray, (rest.drop rank).drop n)
  | [] => (⟨[], fun _ => 0⟩, [])

def kindOf (s : String) : Kind := if s == "vector" then .vector else .scalar

structure Sess where
  reg : Registry ℕ ℚ := { dim := 2, gridShape := [], eulDefined := false, params := ⟨[], [], []⟩, eul := [], lag := [] }
  time : ℚ := 0
  fds : List (String × Arr ℕ) := []
  fparams : Option (EulParams ℚ) := none

def parseParams (toks : List String) : EulParams ℚ :=
  match toks with
  | n :: rest =>
    let k := n.toNat!
    let v := rest.map fun t => (parseRat t).getD 0
    ⟨v.take k, (v.drop k).take k, (v.drop (2 * k)).take k⟩
  | [] => ⟨[], [], []⟩

def errName : LoadError → String
  | .missingField _ => "missing-field"
  | .missingGrid _ => "missing-grid"
  | .shapeMismatch _ => "shape-mismatch"
  | .gridNotDefined => "grid-not-defined"
  | .originMismatch => "origin-mismatch"
  | .dxMismatch => "dx-mismatch"
  | .gridSizeMismatch => "grid-size-mismatch"
  | .paramsMissing => "params-missing"

partial def loop (h : IO.FS.Stream) (s : Sess) : IO Unit := do
  let line ← h.getLine
  if line.isEmpty then return ()
  let toks := (line.trimAscii.toString.splitOn " ").filter (· ≠ "")
  match toks with
  | "reg" :: d :: e :: n :: rest =>
      loop h { s with reg := { s.reg with dim := d.toNat!, eulDefined := e == "1", gridShape := (rest.take n.toNat!).map String.toNat! } }
  | "params" :: rest => loop h { s with reg := { s.reg with params := parseParams rest } }
  | "params-from-corner" :: n :: rest =>
      -- registry described the way `EulerianFieldIO` is: lower corner in x-y-z order, dx, grid shape
      let k := n.toNat!
      let v := rest.map fun t => (parseRat t).getD 0
      loop h { s with reg := { s.reg with params := eulerianFieldIOParams (v.take k) ((v.drop k).headD 0) ((v.drop (k + 1)).take k) } }
  | "eul" :: name :: k :: rest =>
      let (a, _) := parseArr rest
      loop h { s with reg := { s.reg with eul := s.reg.eul ++ [⟨name, kindOf k, a⟩] } }
  | "grid" :: name :: rest =>
      let (a, _) := parseArr rest
      loop h { s with reg := { s.reg with lag := s.reg.lag ++ [⟨name, a, []⟩] } }
  | "lag" :: g :: name :: k :: rest =>
      let (a, _) := parseArr rest
      let lag := s.reg.lag.map fun gr => if gr.name == g then { gr with fields := gr.fields ++ [⟨name, kindOf k, a⟩] } else gr
      loop h { s with reg := { s.reg with lag := lag } }
  | ["time", t] => loop h { s with time := (parseRat t).getD 0 }
  | "file-ds" :: path :: rest =>
      let (a, _) := parseArr rest
      loop h { s with fds := s.fds ++ [(path, a)] }
  | "file-params" :: rest => loop h { s with fparams := some (parseParams rest) }
  | ["file-noparams"] => loop h { s with fparams := none }
  | ["save"] => do
      let f : File ℕ ℚ ℚ := save s.reg s.time
      IO.println s!"time {f.time}"
      IO.println (match f.params with | some _ => "params yes" | none => "params no")
      for (p, a) in f.datasets do
        IO.println s!"ds {p} {showArr a}"
      IO.println "done"
      (← IO.getStdout).flush
      loop h {}
  | ["load"] => do
      let f : File ℕ ℚ ℚ := { time := s.time, datasets := s.fds, params := s.fparams }
      match load closeQ s.reg f with
      | .error e => IO.println s!"error {errName e}"
      | .ok (r, t) =>
          IO.println s!"ok time {t}"
          for e in r.eul do IO.println s!"arr eul {e.name} {showArr e.arr}"
          for g in r.lag do
            IO.println s!"arr grid {g.name} {showArr g.grid}"
            for fl in g.fields do IO.println s!"arr lag {g.name}/{fl.name} {showArr fl.arr}"
      IO.println "done"
      (← IO.getStdout).flush
      loop h {}
  | _ => loop h s

def main : IO Unit := do loop (← IO.getStdin) {}
