/-
Driver/Interp.lean — executes Model/Interp.lean at ℚ (cos / sqrt through floats) for the numeric
correspondence with the numba communicators.  Protocol (one request):
  grid <dim> <nz> <ny> <nx> <dx> <shift> <cosine|peskin>      (nz = 1 for dim = 2)
  u <row-major values>          Eulerian scalar field to interpolate
  e0 <row-major values>         Eulerian target field before spreading
  marker <F> <X> <Y> [<Z>]      (repeated, in marker order)
  run
Response: `idx m ix iy iz`, `wmap m <dense weight map>` per marker, `interp <one value per marker>`,
`spread <dense field>`, `done`.
-/
import SophtVerif.Model.Interp
import SophtVerif.Core.RatTransc
import Mathlib.Data.Rat.Floor

open Sopht Sopht.Model

abbrev Cell := ℤ × ℤ × ℤ

def parseRat (t : String) : Option ℚ :=
  match t.splitOn "/" with
  | [a] => a.toInt?.map fun n => (n : ℚ)
  | [a, b] => do
      let n ← a.toInt?
      let d ← b.toNat?
      pure (mkRat n d)
  | _ => none

def showRat (q : ℚ) : String := if q.den == 1 then toString q.num else s!"{q.num}/{q.den}"

structure Req where
  dim : ℕ := 2
  nz : ℤ := 1
  ny : ℤ := 1
  nx : ℤ := 1
  dx : ℚ := 1
  shift : ℚ := 0
  peskin : Bool := false
  u : Array ℚ := #[]
  e0 : Array ℚ := #[]
  markers : Array (ℚ × ℚ × ℚ × ℚ) := #[]

def Req.phi (r : Req) : ℚ → ℚ := if r.peskin then phiPeskin ratTransc else phiCos ratTransc

def Req.lin (r : Req) (c : Cell) : Option Nat :=
  let (i, j, k) := c
  if 0 ≤ i ∧ i < r.nz ∧ 0 ≤ j ∧ j < r.ny ∧ 0 ≤ k ∧ k < r.nx then some ((i * r.ny + j) * r.nx + k).toNat else none

def Req.get (r : Req) (a : Array ℚ) (c : Cell) : ℚ := match r.lin c with
  | some n => a.getD n 0
  | none => 0

/-- the marker's window as a list of (cell, weight), built from the model's index and weights -/
def Req.stencil (r : Req) (m : ℚ × ℚ × ℚ × ℚ) : Stencil Cell ℚ :=
  let (_, X, Y, Z) := m
  let ix := nearestIdx X r.shift r.dx
  let iy := nearestIdx Y r.shift r.dx
  let iz := nearestIdx Z r.shift r.dx
  if r.dim == 2 then
    ⟨supportOffsets.flatMap fun ky => supportOffsets.map fun kx =>
      ((0, iy + ky, ix + kx), weight2 r.phi X Y r.shift r.dx ky kx)⟩
  else
    ⟨supportOffsets.flatMap fun kz => supportOffsets.flatMap fun ky => supportOffsets.map fun kx =>
      ((iz + kz, iy + ky, ix + kx), weight3 r.phi X Y Z r.shift r.dx kz ky kx)⟩

def Req.cells (r : Req) : List Cell :=
  (List.range r.nz.toNat).flatMap fun i => (List.range r.ny.toNat).flatMap fun j =>
    (List.range r.nx.toNat).map fun k => ((i : ℤ), (j : ℤ), (k : ℤ))

def Req.run (r : Req) : IO Unit := do
  let vol : ℚ := r.dx ^ r.dim
  let sts := r.markers.toList.map fun m => (m.1, r.stencil m)
  let mut n := 0
  for m in r.markers.toList do
    let (_, X, Y, Z) := m
    IO.println s!"idx {n} {nearestIdx X r.shift r.dx} {nearestIdx Y r.shift r.dx} {if r.dim == 2 then 0 else nearestIdx Z r.shift r.dx}"
    let st := r.stencil m
    IO.println s!"wmap {n} {" ".intercalate (r.cells.map fun c => showRat (weightOn st c))}"
    n := n + 1
  let ufun : Cell → ℚ := r.get r.u
  IO.println s!"interp {" ".intercalate (sts.map fun (_, st) => showRat (interp vol ufun st))}"
  let e0 : Cell → ℚ := r.get r.e0
  -- `spreadClosed` = `spread` by Lemmas/Interp.lean: spread_eq_closed
  IO.println s!"spread {" ".intercalate (r.cells.map fun c => showRat (spreadClosed e0 sts c))}"
  IO.println "done"
  (← IO.getStdout).flush

partial def loop (h : IO.FS.Stream) (r : Req) : IO Unit := do
  let line ← h.getLine
  if line.isEmpty then return ()
  let toks := (line.trimAscii.toString.splitOn " ").filter (· ≠ "")
  let rats (ts : List String) : Array ℚ := (ts.map fun t => (parseRat t).getD 0).toArray
  match toks with
  | ["grid", d, nz, ny, nx, dx, sh, k] =>
      loop h { dim := d.toNat!, nz := nz.toInt!, ny := ny.toInt!, nx := nx.toInt!, dx := (parseRat dx).getD 1,
               shift := (parseRat sh).getD 0, peskin := k == "peskin" }
  | "u" :: vs => loop h { r with u := rats vs }
  | "e0" :: vs => loop h { r with e0 := rats vs }
  | ["marker", f, x, y] => loop h { r with markers := r.markers.push ((parseRat f).getD 0, (parseRat x).getD 0, (parseRat y).getD 0, 0) }
  | ["marker", f, x, y, z] =>
      loop h { r with markers := r.markers.push ((parseRat f).getD 0, (parseRat x).getD 0, (parseRat y).getD 0, (parseRat z).getD 0) }
  | ["run"] => do r.run; loop h {}
  | _ => loop h r

def main : IO Unit := do loop (← IO.getStdin) {}
