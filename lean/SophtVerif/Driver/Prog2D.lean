/-
Driver/Prog2D.lean — line-protocol driver for the 2D program models.
  lake env lean --run SophtVerif/Driver/Prog2D.lean < requests
Request:
  prog <name> key=value ...
  buf <name> <ny> <nx> <v> ...        (row-major rationals `p/q` or integers)
  run
Response: one `call …` line per call of the program (the model's trace), then the store after executing
the program at ℚ (`buf <name> <ny> <nx> <v> …` for every buffer supplied), then `done`.
Execution materialises every written buffer into an array after each call, so evaluation cost is linear in
the number of calls; cells outside a buffer's box read as 0 (never read by a well-formed program).
-/
import SophtVerif.Model.Prog2D
import SophtVerif.Model.Prog3D
import SophtVerif.Core.RatTransc
import Std.Data.HashMap

open Sopht Sopht.Model

abbrev Arr := ℤ × ℤ × Array ℚ

def Arr.get (a : Arr) (i j : ℤ) : ℚ :=
  let (ny, nx, d) := a
  if 0 ≤ i ∧ i < ny ∧ 0 ≤ j ∧ j < nx then d.getD (i * nx + j).toNat 0 else 0

def storeOf (m : Std.HashMap String Arr) : Store2 String ℚ :=
  fun b i j => match m.get? b with
    | some a => a.get i j
    | none => 0

def materialise (ny nx : ℤ) (f : F2 ℚ) : Arr :=
  (ny, nx, Id.run do
    let mut d : Array ℚ := Array.mkEmpty (ny * nx).toNat
    for i in [0:ny.toNat] do
      for j in [0:nx.toNat] do
        d := d.push (f i j)
    return d)

def execM (p : List (Call2 String ℚ)) (m : Std.HashMap String Arr) : Std.HashMap String Arr :=
  p.foldl (fun m c =>
    let s := storeOf m
    let s' := c.exec s
    c.writes.foldl (fun m' w =>
      match m.get? w.1 with
      | some (ny, nx, _) => m'.insert w.1 (materialise ny nx (s' w.1))
      | none => m') m) m

def parseRat (t : String) : Option ℚ :=
  match t.splitOn "/" with
  | [a] => a.toInt?.map fun n => (n : ℚ)
  | [a, b] => do
      let n ← a.toInt?
      let d ← b.toNat?
      pure (mkRat n d)
  | _ => none

def showRat (q : ℚ) : String := if q.den == 1 then toString q.num else s!"{q.num}/{q.den}"

structure Args where
  m : Std.HashMap String String

def Args.int (a : Args) (k : String) : ℤ := ((a.m.get? k).bind String.toInt?).getD 0
def Args.nat (a : Args) (k : String) : ℕ := ((a.m.get? k).bind String.toNat?).getD 0
def Args.rat (a : Args) (k : String) : ℚ := ((a.m.get? k).bind parseRat).getD 0
def Args.bool (a : Args) (k : String) : Bool := a.m.get? k == some "1"
def Args.str (a : Args) (k : String) (d : String) : String := (a.m.get? k).getD d

def v2 (n : String) : Vec2 String := ⟨n ++ ".x", n ++ ".y"⟩

def poissonBufs : Poisson2Bufs String :=
  { dbl := "ps.dbl", fre := "ps.f.re", fim := "ps.f.im", gre := "ps.g.re", gim := "ps.g.im",
    cre := "ps.c.re", cim := "ps.c.im" }

def nsBufs : NS2Bufs String :=
  { vort := "vorticity", vel := v2 "velocity", bs := "buffer_scalar", psi := "stream_func",
    force := v2 "forcing", xg := "position.x", yg := "position.y", ps := poissonBufs }

def nsCfg (a : Args) : NS2Cfg ℚ :=
  { forcing := a.bool "forcing", freeStream := a.bool "free_stream", width := a.nat "width",
    ny := a.int "ny", nx := a.int "nx", dt := a.rat "dt", dx := a.rat "dx", nu := a.rat "nu", rho := a.rat "rho",
    ux := a.rat "ux", uy := a.rat "uy", x0 := a.rat "x0", x1 := a.rat "x1", y0 := a.rat "y0", y1 := a.rat "y1" }

/-- program name ↦ model program; buffer names are the implementation's keyword names -/
def dispatch (name : String) (a : Args) : Option (List (Call2 String ℚ)) :=
  let ny := a.int "ny"
  let nx := a.int "nx"
  let T := ratTransc
  match name with
  | "set_fixed_val_2d" => some (setFixedVal2D ny nx "field" (a.rat "fixed_val"))
  | "set_fixed_val_vec_2d" => some (setFixedValVec2D ny nx (v2 "vector_field") (a.rat "vx") (a.rat "vy"))
  | "set_boundary_2d" => some (setBoundary2D ny nx (a.int "width") "field" (a.rat "fixed_val"))
  | "set_boundary_vec_2d" => some (setBoundaryVec2D ny nx (a.int "width") (v2 "vector_field") (a.rat "vx") (a.rat "vy"))
  | "elementwise_sum_2d" => some (elementwiseSum2D ny nx (a.str "out" "sum_field") (a.str "a" "field_1") (a.str "b" "field_2"))
  | "elementwise_copy_2d" => some (elementwiseCopy2D (full2 ny nx) "field" "rhs_field")
  | "elementwise_saxpby_2d" => some (elementwiseSaxpby2D ny nx (a.str "out" "sum_field") (a.str "a" "field_1") (a.str "b" "field_2") (a.rat "pa") (a.rat "pb"))
  | "add_fixed_val_2d" => some (addFixedVal2D ny nx (a.str "out" "sum_field") "field" (a.rat "fixed_val"))
  | "add_fixed_val_vec_2d" => some (addFixedValVec2D ny nx (v2 (a.str "out" "sum_field")) (v2 "vector_field") (a.rat "vx") (a.rat "vy"))
  | "diffusion_flux_2d" => some (diffusionFlux2D (a.bool "reset") ny nx "diffusion_flux" "field" (a.rat "prefactor"))
  | "advection_flux_2d" => some (advectionFlux2D ny nx "advection_flux" "field" (v2 "velocity") (a.rat "inv_dx"))
  | "outplane_curl_2d" => some (outplaneCurl2D (a.bool "reset") ny nx (v2 "curl") "field" (a.rat "prefactor"))
  | "inplane_curl_2d" => some (inplaneCurl2D ny nx "curl" (v2 "field") (a.rat "prefactor"))
  | "update_vorticity_from_forcing_2d" =>
      some (updateVorticityFromForcing2D ny nx "vorticity_field" (v2 "velocity_forcing_field") (a.rat "prefactor"))
  | "update_vorticity_from_penalised_2d" =>
      some (updateVorticityFromPenalised2D ny nx "vorticity_field" (v2 "penalised_velocity_field") (v2 "velocity_field") (a.rat "prefactor"))
  | "brinkmann_2d" => some (brinkmann2D ny nx "penalised_field" "field" "penalty_field" "char_field" (a.rat "penalty_factor"))
  | "brinkmann_vec_2d" => some (brinkmannVec2D ny nx (v2 "penalised_vector_field") (v2 "vector_field") (v2 "penalty_vector_field") "char_field" (a.rat "penalty_factor"))
  | "brinkmann_fixed_2d" => some (brinkmannFixed2D ny nx "penalised_field" "field" "char_field" (a.rat "penalty_factor") (a.rat "penalty_val"))
  | "brinkmann_fixed_vec_2d" => some (brinkmannFixedVec2D ny nx (v2 "penalised_vector_field") (v2 "vector_field") "char_field" (a.rat "penalty_factor") (a.rat "vx") (a.rat "vy"))
  | "char_func_2d" => some (charFunc2D T ny nx "char_func_field" "level_set_field" (a.rat "blend_width"))
  | "diffusion_timestep_2d" => some (diffusionTimestep2D ny nx "field" "diffusion_flux" (a.rat "nu_dt_by_dx2"))
  | "advection_timestep_2d" => some (advectionTimestep2D ny nx "field" "advection_flux" (v2 "velocity") (a.rat "dt_by_dx"))
  | "penalise_boundary_2d" =>
      some (penaliseBoundary2D T (a.nat "width") ny nx (a.rat "dx") (a.rat "x0") (a.rat "x1") (a.rat "y0") (a.rat "y1")
        "field" "x_grid_field" "y_grid_field")
  | "poisson_pre_2d" => some (poissonPre2D ny nx poissonBufs "rhs_field")
  | "poisson_mid_2d" => some (poissonMid2D ny nx poissonBufs)
  | "poisson_post_2d" => some (poissonPost2D ny nx poissonBufs "solution_field")
  | "ns_step_2d_pre" => some (nsStep2DPre T (nsCfg a) nsBufs)
  | "ns_step_2d_post" => some (nsStep2DPost (nsCfg a) nsBufs)
  | "passive_step_2d" => some (passiveStep2D ny nx "primary" "buffer_scalar" (v2 "velocity") (a.rat "dt") (a.rat "dx") (a.rat "nu"))
  | _ => none

def showRect (r : Rect2) : String :=
  if r.i1 ≤ r.i0 ∨ r.j1 ≤ r.j0 then "empty" else s!"{r.i0}:{r.i1},{r.j0}:{r.j1}"

def showCall (c : Call2 String ℚ) : String :=
  let b := ",".intercalate (c.binds.map fun (f, n) => s!"{f}={n}")
  let s := ",".intercalate (c.scal.map fun (f, v) => s!"{f}={showRat v}")
  s!"call {c.kid} | {showRect c.region} | {b} | {s}"

partial def loop (h : IO.FS.Stream) (name : String) (args : Args) (bufs : Std.HashMap String Arr)
    (order : Array String) : IO Unit := do
  let line ← h.getLine
  if line.isEmpty then return ()
  let toks := (line.trimAscii.toString.splitOn " ").filter (· ≠ "")
  match toks with
  | "prog" :: n :: rest =>
      let m := rest.foldl (fun m t => match t.splitOn "=" with
        | [k, v] => m.insert k v
        | _ => m) ({} : Std.HashMap String String)
      loop h n ⟨m⟩ {} #[]
  | "buf" :: n :: nyS :: nxS :: vals =>
      let ny := (nyS.toInt?).getD 0
      let nx := (nxS.toInt?).getD 0
      let d := (vals.map fun t => (parseRat t).getD 0).toArray
      loop h name args (bufs.insert n (ny, nx, d)) (order.push n)
  | ["run"] =>
      match dispatch name args with
      | none => IO.println s!"error unknown-program {name}"
      | some p =>
          for c in p do
            IO.println (showCall c)
          if !(args.bool "trace_only") then
            let out := execM p bufs
            for n in order do
              match out.get? n with
              | some (ny, nx, d) =>
                  IO.println s!"buf {n} {ny} {nx} {" ".intercalate (d.toList.map showRat)}"
              | none => pure ()
      IO.println "done"
      (← IO.getStdout).flush
      loop h "" ⟨{}⟩ {} #[]
  | _ => loop h name args bufs order

def main : IO Unit := do
  loop (← IO.getStdin) "" ⟨{}⟩ {} #[]
