/-
Driver/Prog3D.lean — line-protocol driver for the 3D program models (protocol as Driver/Prog2D.lean,
buffers `buf <name> <nz> <ny> <nx> <v> …`).
-/
import SophtVerif.Model.Prog3D
import SophtVerif.Core.RatTransc
import Std.Data.HashMap

open Sopht Sopht.Model

abbrev Arr3 := ℤ × ℤ × ℤ × Array ℚ

def Arr3.get (a : Arr3) (i j k : ℤ) : ℚ :=
  let (nz, ny, nx, d) := a
  if 0 ≤ i ∧ i < nz ∧ 0 ≤ j ∧ j < ny ∧ 0 ≤ k ∧ k < nx then d.getD ((i * ny + j) * nx + k).toNat 0 else 0

def storeOf3 (m : Std.HashMap String Arr3) : Store3 String ℚ :=
  fun b i j k => match m.get? b with
    | some a => a.get i j k
    | none => 0

def materialise3 (nz ny nx : ℤ) (f : F3 ℚ) : Arr3 :=
  (nz, ny, nx, Id.run do
    let mut d : Array ℚ := Array.mkEmpty (nz * ny * nx).toNat
    for i in [0:nz.toNat] do
      for j in [0:ny.toNat] do
        for k in [0:nx.toNat] do
          d := d.push (f i j k)
    return d)

def execM3 (p : List (Call3 String ℚ)) (m : Std.HashMap String Arr3) : Std.HashMap String Arr3 :=
  p.foldl (fun m c =>
    let s := storeOf3 m
    let s' := c.exec s
    c.writes.foldl (fun m' w =>
      match m.get? w.1 with
      | some (nz, ny, nx, _) => m'.insert w.1 (materialise3 nz ny nx (s' w.1))
      | none => m') m) m

def parseRat (t : String) : Option ℚ :=
  match t.splitOn "/" with
  | [a] => a.toInt?.map fun n => (n : ℚ)
  | [a, b] => do
      let n ← a.toInt?
      let d ← b.toNat?
      pure (mkRat n d)
  | _ => none

def showRat (q : ℚ) : String := if q.den == 1 then toString q.num else s!"{q.num}/{q.den}"

structure Args where
  m : Std.HashMap String String

def Args.int (a : Args) (k : String) : ℤ := ((a.m.get? k).bind String.toInt?).getD 0
def Args.nat (a : Args) (k : String) : ℕ := ((a.m.get? k).bind String.toNat?).getD 0
def Args.rat (a : Args) (k : String) : ℚ := ((a.m.get? k).bind parseRat).getD 0
def Args.bool (a : Args) (k : String) : Bool := a.m.get? k == some "1"
def Args.str (a : Args) (k : String) (d : String) : String := (a.m.get? k).getD d

def v3 (n : String) : Vec3 String := ⟨n ++ ".x", n ++ ".y", n ++ ".z"⟩
def v2 (n : String) : Vec2 String := ⟨n ++ ".x", n ++ ".y"⟩

def poissonBufs3 : Poisson3Bufs String :=
  { dbl := "ps.dbl", fre := "ps.f.re", fim := "ps.f.im", gre := "ps.g.re", gim := "ps.g.im",
    cre := "ps.c.re", cim := "ps.c.im" }

def nsBufs3 : NS3Bufs String :=
  { vort := v3 "vorticity", vel := v3 "velocity", buf := v3 "buffer_vector", psi := v3 "stream_func",
    force := v3 "forcing", xg := "position.x", yg := "position.y", zg := "position.z" }

def corners (a : Args) : Corners3 ℚ :=
  { x0 := a.rat "x0", x1 := a.rat "x1", y0 := a.rat "y0", y1 := a.rat "y1", z0 := a.rat "z0", z1 := a.rat "z1" }

def nsCfg3 (a : Args) : NS3Cfg ℚ :=
  { forcing := a.bool "forcing", freeStream := a.bool "free_stream", filter := a.bool "filter",
    filterConv := a.bool "filter_conv", filterOrder := a.nat "filter_order", width := a.nat "width",
    nz := a.int "nz", ny := a.int "ny", nx := a.int "nx", dt := a.rat "dt", dx := a.rat "dx", nu := a.rat "nu",
    rho := a.rat "rho", ux := a.rat "ux", uy := a.rat "uy", uz := a.rat "uz", corners := corners a }

def dispatch (name : String) (a : Args) : Option (List (Call3 String ℚ)) :=
  let nz := a.int "nz"
  let ny := a.int "ny"
  let nx := a.int "nx"
  let T := ratTransc
  match name with
  | "set_fixed_val_3d" => some (setFixedVal3D nz ny nx "field" (a.rat "fixed_val"))
  | "set_fixed_val_vec_3d" => some (setFixedValVec3D nz ny nx (v3 "vector_field") (a.rat "vx") (a.rat "vy") (a.rat "vz"))
  | "set_boundary_3d" => some (setBoundary3D nz ny nx (a.int "width") "field" (a.rat "fixed_val"))
  | "set_boundary_vec_3d" => some (setBoundaryVec3D nz ny nx (a.int "width") (v3 "vector_field") (a.rat "vx") (a.rat "vy") (a.rat "vz"))
  | "elementwise_sum_3d" => some (elementwiseSum3D nz ny nx (a.str "out" "sum_field") "field_1" "field_2")
  | "elementwise_sum_vec_3d" => some (elementwiseSumVec3D nz ny nx (v3 (a.str "out" "sum_field")) (v3 "field_1") (v3 "field_2"))
  | "elementwise_copy_3d" => some (elementwiseCopy3D (full3 nz ny nx) "field" "rhs_field")
  | "elementwise_saxpby_3d" => some (elementwiseSaxpby3D nz ny nx (a.str "out" "sum_field") "field_1" "field_2" (a.rat "pa") (a.rat "pb"))
  | "elementwise_saxpby_vec_3d" => some (elementwiseSaxpbyVec3D nz ny nx (v3 (a.str "out" "sum_field")) (v3 "field_1") (v3 "field_2") (a.rat "pa") (a.rat "pb"))
  | "add_fixed_val_3d" => some (addFixedVal3D nz ny nx "sum_field" "field" (a.rat "fixed_val"))
  | "add_fixed_val_vec_3d" => some (addFixedValVec3D nz ny nx (v3 "sum_field") (v3 "vector_field") (a.rat "vx") (a.rat "vy") (a.rat "vz"))
  | "cross_product_3d" => some (crossProduct3D nz ny nx (v3 "result_field") (v3 "field_1") (v3 "field_2"))
  | "diffusion_flux_3d" => some (diffusionFlux3D (a.bool "reset") nz ny nx "diffusion_flux" "field" (a.rat "prefactor"))
  | "diffusion_flux_vec_3d" => some (diffusionFluxVec3D (a.bool "reset") nz ny nx (v3 "vector_field_diffusion_flux") (v3 "vector_field") (a.rat "prefactor"))
  | "advection_flux_3d" => some (advectionFlux3D nz ny nx "advection_flux" "field" (v3 "velocity") (a.rat "inv_dx"))
  | "curl_3d" => some (curl3D (a.bool "reset") nz ny nx (v3 "curl") (v3 "field") (a.rat "prefactor"))
  | "divergence_3d" => some (divergence3D (a.bool "reset") nz ny nx "divergence" (v3 "field") (a.rat "inv_dx"))
  | "update_vorticity_from_forcing_3d" =>
      some (updateVorticityFromForcing3D nz ny nx (v3 "vorticity_field") (v3 "velocity_forcing_field") (a.rat "prefactor"))
  | "update_vorticity_from_penalised_3d" =>
      some (updateVorticityFromPenalised3D nz ny nx (v3 "vorticity_field") (v3 "penalised_velocity_field") (v3 "velocity_field") (a.rat "prefactor"))
  | "stretching_flux_3d" => some (stretchingFlux3D nz ny nx (v3 "vorticity_stretching_flux_field") (v3 "vorticity_field") (v3 "velocity_field") (a.rat "prefactor"))
  | "brinkmann_3d" => some (brinkmann3D nz ny nx "penalised_field" "field" "penalty_field" "char_field" (a.rat "penalty_factor"))
  | "brinkmann_vec_3d" => some (brinkmannVec3D nz ny nx (v3 "penalised_vector_field") (v3 "vector_field") (v3 "penalty_vector_field") "char_field" (a.rat "penalty_factor"))
  | "char_func_3d" => some (charFunc3D T nz ny nx "char_func_field" "level_set_field" (a.rat "blend_width"))
  | "diffusion_timestep_3d" => some (diffusionTimestep3D nz ny nx "field" "diffusion_flux" (a.rat "nu_dt_by_dx2"))
  | "diffusion_timestep_vec_3d" => some (diffusionTimestepVec3D nz ny nx (v3 "vector_field") "diffusion_flux" (a.rat "nu_dt_by_dx2"))
  | "advection_timestep_3d" => some (advectionTimestep3D nz ny nx "field" "advection_flux" (v3 "velocity") (a.rat "dt_by_dx"))
  | "advection_timestep_vec_3d" => some (advectionTimestepVec3D nz ny nx (v3 "vector_field") "advection_flux" (v3 "velocity") (a.rat "dt_by_dx"))
  | "stretching_timestep_euler_3d" =>
      some (stretchingTimestepEuler3D nz ny nx (v3 "vorticity_field") (v3 "velocity_field") (v3 "vorticity_stretching_flux_field") (a.rat "dt_by_2_dx"))
  | "stretching_timestep_ssprk3_3d" =>
      some (stretchingTimestepSSPRK3 nz ny nx (v3 "vorticity_field") (v3 "velocity_field") (v3 "vorticity_stretching_flux_field")
        (v3 "midstep") (a.rat "dt_by_2_dx") (a.rat "dt_by_2_dx"))
  | "filter_3d" => some (filter3D (a.bool "conv") (a.nat "order") nz ny nx "scalar_field" "filter_flux_buffer" "field_buffer")
  | "filter_vec_3d" => some (filterVec3D (a.bool "conv") (a.nat "order") nz ny nx (v3 "vector_field") "filter_flux_buffer" "field_buffer")
  | "penalise_boundary_3d" =>
      some (penaliseBoundary3D T (a.nat "width") nz ny nx (a.rat "dx") (corners a) "field" "x_grid_field" "y_grid_field" "z_grid_field")
  | "penalise_boundary_vec_3d" =>
      some (penaliseBoundaryVec3D T (a.nat "width") nz ny nx (a.rat "dx") (corners a) (v3 "vector_field") "x_grid_field" "y_grid_field" "z_grid_field")
  | "poisson_pre_3d" => some (poissonPre3D nz ny nx poissonBufs3 (a.str "rhs" "rhs_field"))
  | "poisson_mid_3d" => some (poissonMid3D nz ny nx poissonBufs3)
  | "poisson_post_3d" => some (poissonPost3D nz ny nx poissonBufs3 (a.str "sol" "solution_field"))
  | "ns_step_3d_pre" => some (nsStep3DPre T (nsCfg3 a) nsBufs3)
  | "ns_step_3d_post" => some (nsStep3DPost (nsCfg3 a) nsBufs3)
  | "passive_step_3d" => some (passiveStep3D nz ny nx "primary" "buffer_scalar" (v3 "velocity") (a.rat "dt") (a.rat "dx") (a.rat "nu"))
  | "passive_step_vec_3d" => some (passiveStepVec3D nz ny nx (v3 "primary") "buffer_scalar" (v3 "velocity") (a.rat "dt") (a.rat "dx") (a.rat "nu"))
  | _ => none

def showRect3 (r : Rect3) : String :=
  if r.i1 ≤ r.i0 ∨ r.j1 ≤ r.j0 ∨ r.k1 ≤ r.k0 then "empty" else s!"{r.i0}:{r.i1},{r.j0}:{r.j1},{r.k0}:{r.k1}"

def showCall3 (c : Call3 String ℚ) : String :=
  let b := ",".intercalate (c.binds.map fun (f, n) => s!"{f}={n}")
  let s := ",".intercalate (c.scal.map fun (f, v) => s!"{f}={showRat v}")
  s!"call {c.kid} | {showRect3 c.region} | {b} | {s}"

partial def loop (h : IO.FS.Stream) (name : String) (args : Args) (bufs : Std.HashMap String Arr3)
    (order : Array String) : IO Unit := do
  let line ← h.getLine
  if line.isEmpty then return ()
  let toks := (line.trimAscii.toString.splitOn " ").filter (· ≠ "")
  match toks with
  | "prog" :: n :: rest =>
      let m := rest.foldl (fun m t => match t.splitOn "=" with
        | [k, v] => m.insert k v
        | _ => m) ({} : Std.HashMap String String)
      loop h n ⟨m⟩ {} #[]
  | "buf" :: n :: nzS :: nyS :: nxS :: vals =>
      let nz := (nzS.toInt?).getD 0
      let ny := (nyS.toInt?).getD 0
      let nx := (nxS.toInt?).getD 0
      let d := (vals.map fun t => (parseRat t).getD 0).toArray
      loop h name args (bufs.insert n (nz, ny, nx, d)) (order.push n)
  | ["run"] =>
      match dispatch name args with
      | none => IO.println s!"error unknown-program {name}"
      | some p =>
          for c in p do
            IO.println (showCall3 c)
          if !(args.bool "trace_only") then
            let out := execM3 p bufs
            for n in order do
              match out.get? n with
              | some (nz, ny, nx, d) =>
                  IO.println s!"buf {n} {nz} {ny} {nx} {" ".intercalate (d.toList.map showRat)}"
              | none => pure ()
      IO.println "done"
      (← IO.getStdout).flush
      loop h "" ⟨{}⟩ {} #[]
  | _ => loop h name args bufs order

def main : IO Unit := do
  loop (← IO.getStdin) "" ⟨{}⟩ {} #[]
