/-
Driver/Restart.lean — evaluates Model.restartSimulation.  Input: `indices <n…>`, `file <name> <time>` (repeat),
`body <time>`, `run` → prints `no-checkpoint` | `load-failed <file>` | `time-mismatch` | `ok <time>`.
Times are compared as strings of the exact rational (the code compares floats with `!=`).
-/
import SophtVerif.Model.Restart
import Std.Data.HashMap

open Sopht.Model

partial def loop (h : IO.FS.Stream) (idx : List ℕ) (files : Std.HashMap String String) (body : String) : IO Unit := do
  let line ← h.getLine
  if line.isEmpty then return ()
  let toks := (line.trimAscii.toString.splitOn " ").filter (· ≠ "")
  match toks with
  | "indices" :: rest => loop h (rest.map String.toNat!) files body
  | ["file", n, t] => loop h idx (files.insert n t) body
  | ["body", t] => loop h idx files t
  | ["run"] => do
      match restartSimulation idx (fun n => files.get? n) body with
      | .noCheckpoint => IO.println "no-checkpoint"
      | .loadFailed f => IO.println s!"load-failed {f}"
      | .timeMismatch => IO.println "time-mismatch"
      | .ok t => IO.println s!"ok {t}"
      (← IO.getStdout).flush
      loop h [] {} ""
  | _ => loop h idx files body

def main : IO Unit := do loop (← IO.getStdin) [] {} ""
