/-
Driver/VBF.lean — executes Model/VBF.lean (`VBFSys.step`) at ℚ over a history of operations.
Marker-space vectors: ℕ → ℚ indexed `marker*dim + comp`; Eulerian fields: ℕ → ℚ (flattened).
Input:
  sizes <nV> <nW>
  params <body> <k> <c> <reset 0|1>
  init <body> <t0>                      (start time of the interactor)
  e0 <nW values>
  op lag <body> <ui: nV values> <vb: nV values>
  op full <body> <ui: nV values> <vb: nV values> <nnz> (<cell> <j> <w>)*nnz       S F cell = Σ w·F j
  op step <body> <dt>
  run
Output after every op: `body <b> t <t> I <…> D <…> F <…>` for the op's body and `E <…>`; then `done`.
After each op the state is materialised into arrays (closures would otherwise nest with the history).
-/
import SophtVerif.Model.VBF
import Mathlib.Algebra.Order.Field.Rat
import Mathlib.Algebra.Module.Rat
import Std.Data.HashMap
import Mathlib.Tactic.Ring
import Mathlib.Tactic.NormNum

open Sopht.Model

/-- vectors with hand-rolled, shallow algebra instances: Mathlib's `Pi` module instances are correct but
far too slow under the interpreter (every `•`/`+` re-evaluates a deep instance chain) -/
structure Vec where
  f : ℕ → ℚ

instance : CoeFun Vec (fun _ => ℕ → ℚ) := ⟨Vec.f⟩

@[ext] theorem Vec.ext' {a b : Vec} (h : ∀ i, a.f i = b.f i) : a = b := by
  cases a; cases b; congr; funext i; exact h i

instance : AddCommGroup Vec where
  add a b := ⟨fun i => a.f i + b.f i⟩
  zero := ⟨fun _ => 0⟩
  neg a := ⟨fun i => -a.f i⟩
  sub a b := ⟨fun i => a.f i - b.f i⟩
  nsmul n a := ⟨fun i => (n : ℚ) * a.f i⟩
  zsmul n a := ⟨fun i => (n : ℚ) * a.f i⟩
  add_assoc a b c := by ext i; exact add_assoc _ _ _
  zero_add a := by ext i; exact zero_add _
  add_zero a := by ext i; exact add_zero _
  add_comm a b := by ext i; exact add_comm _ _
  neg_add_cancel a := by ext i; exact neg_add_cancel _
  sub_eq_add_neg a b := by ext i; exact sub_eq_add_neg _ _
  nsmul_zero a := by ext i; show ((0 : ℕ) : ℚ) * a.f i = 0; simp
  nsmul_succ n a := by ext i; show ((n + 1 : ℕ) : ℚ) * a.f i = (n : ℚ) * a.f i + a.f i; push_cast; ring
  zsmul_zero' a := by ext i; show ((0 : ℤ) : ℚ) * a.f i = 0; simp
  zsmul_succ' n a := by ext i; show (((n : ℕ) + 1 : ℤ) : ℚ) * a.f i = ((n : ℕ) : ℤ) * a.f i + a.f i; push_cast; ring
  zsmul_neg' n a := by ext i; show ((Int.negSucc n : ℤ) : ℚ) * a.f i = -((((n : ℕ) + 1 : ℤ) : ℚ) * a.f i); simp [Int.negSucc_eq]; ring

instance : Module ℚ Vec where
  smul c a := ⟨fun i => c * a.f i⟩
  one_smul a := by ext i; exact one_mul _
  mul_smul c d a := by ext i; exact mul_assoc _ _ _
  smul_zero c := by ext i; exact mul_zero _
  smul_add c a b := by ext i; exact mul_add _ _ _
  add_smul c d a := by ext i; exact add_mul _ _ _
  zero_smul a := by ext i; exact zero_mul _

def parseRat (t : String) : Option ℚ :=
  match t.splitOn "/" with
  | [a] => a.toInt?.map fun n => (n : ℚ)
  | [a, b] => do
      let n ← a.toInt?
      let d ← b.toNat?
      pure (mkRat n d)
  | _ => none

def showRat (q : ℚ) : String := if q.den == 1 then toString q.num else s!"{q.num}/{q.den}"

/-- evaluate a vector into an array (strict) -/
def toArr (n : ℕ) (f : Vec) : Array ℚ := Array.ofFn (n := n) fun i => f.f i

/-- array-backed vector; the array is an argument, so it is never rebuilt -/
def ofArr (a : Array ℚ) : Vec := ⟨fun i => a.getD i 0⟩

def showVec (n : ℕ) (f : Vec) : String := " ".intercalate ((List.range n).map fun i => showRat (f.f i))

def arrOf (ts : List String) : Array ℚ := (ts.map fun t => (parseRat t).getD 0).toArray

def vecOf (ts : List String) : Vec := ofArr (arrOf ts)

/-- sparse spreading map: triples (cell, j, w) grouped by cell -/
def groupTriples (tr : List (ℕ × ℕ × ℚ)) : Std.HashMap ℕ (List (ℕ × ℚ)) :=
  tr.foldl (fun m (c, j, w) => m.insert c ((j, w) :: (m.getD c []))) {}

def spreadOf (m : Std.HashMap ℕ (List (ℕ × ℚ))) : Vec → Vec :=
  fun F => ⟨fun cell => ((m.getD cell []).map fun (j, w) => w * F.f j).sum⟩

partial def triples : List String → List (ℕ × ℕ × ℚ)
  | c :: j :: w :: rest => (c.toNat!, j.toNat!, (parseRat w).getD 0) :: triples rest
  | _ => []

structure Sess where
  nV : ℕ := 0
  nW : ℕ := 0
  params : Std.HashMap ℕ (VBFParams ℚ) := {}
  sys : VBFSys ℚ Vec Vec := { body := fun _ => { I := 0, D := 0, F := 0, t := 0 }, E := 0 }
  ops : Array (ℕ × VBFOp ℚ Vec Vec) := #[]

def Sess.paramFn (s : Sess) : ℕ → VBFParams ℚ := fun b => s.params.getD b { k := 0, c := 0, reset := false }

def Sess.runAll (s : Sess) : IO Unit := do
  let mut sys := s.sys
  for (b, op) in s.ops.toList do
    let sys' := VBFSys.step s.paramFn sys op
    let st := sys'.body b
    let aI := toArr s.nV st.I
    let aD := toArr s.nV st.D
    let aF := toArr s.nV st.F
    let aE := toArr s.nW sys'.E
    let stM : VBFState ℚ Vec := { I := ofArr aI, D := ofArr aD, F := ofArr aF, t := st.t }
    let prev := sys.body
    sys := { body := fun b' => if b' = b then stM else prev b', E := ofArr aE }
    IO.println s!"body {b} t {showRat stM.t} I {showVec s.nV stM.I} D {showVec s.nV stM.D} F {showVec s.nV stM.F}"
    IO.println s!"E {showVec s.nW sys.E}"
  IO.println "done"
  (← IO.getStdout).flush

partial def loop (h : IO.FS.Stream) (s : Sess) : IO Unit := do
  let line ← h.getLine
  if line.isEmpty then return ()
  let toks := (line.trimAscii.toString.splitOn " ").filter (· ≠ "")
  match toks with
  | ["sizes", a, b] => loop h { s with nV := a.toNat!, nW := b.toNat! }
  | ["params", b, k, c, r] =>
      loop h { s with params := s.params.insert b.toNat! { k := (parseRat k).getD 0, c := (parseRat c).getD 0, reset := r == "1" } }
  | "e0" :: vs => loop h { s with sys := { s.sys with E := vecOf vs } }
  | ["init", b, t0] =>
      let prev := s.sys.body
      let bi := b.toNat!
      let st : VBFState ℚ Vec := { I := 0, D := 0, F := 0, t := (parseRat t0).getD 0 }
      loop h { s with sys := { s.sys with body := fun b' => if b' = bi then st else prev b' } }
  | "op" :: "lag" :: b :: rest =>
      let ui := vecOf (rest.take s.nV)
      let vb := vecOf ((rest.drop s.nV).take s.nV)
      loop h { s with ops := s.ops.push (b.toNat!, .evalLag b.toNat! ui vb) }
  | "op" :: "full" :: b :: rest =>
      let ui := vecOf (rest.take s.nV)
      let vb := vecOf ((rest.drop s.nV).take s.nV)
      let tr := groupTriples (triples ((rest.drop (2 * s.nV)).drop 1))
      loop h { s with ops := s.ops.push (b.toNat!, .evalFull b.toNat! ui vb (spreadOf tr)) }
  | ["op", "step", b, dt] => loop h { s with ops := s.ops.push (b.toNat!, .timeStep b.toNat! ((parseRat dt).getD 0)) }
  | ["run"] => do s.runAll; loop h {}
  | _ => loop h s

def main : IO Unit := do loop (← IO.getStdin) {}
