/-
Driver/VBF.lean — executes Model/VBF.lean (`VBFSys.step`) at ℚ over a history of operations.
Marker-space vectors: ℕ → ℚ indexed `marker*dim + comp`; Eulerian fields: ℕ → ℚ (flattened).
Input:
  sizes <nV> <nW>
  params <body> <k> <c> <reset 0|1>
  e0 <nW values>
  op lag <body> <ui: nV values> <vb: nV values>
  op full <body> <ui: nV values> <vb: nV values> <nnz> (<cell> <j> <w>)*nnz       S F cell = Σ w·F j
  op step <body> <dt>
  run
Output after every op: `body <b> t <t> I <…> D <…> F <…>` for the op's body and `E <…>`; then `done`.
After each op the state is materialised into arrays (closures would otherwise nest with the history).
-/
import SophtVerif.Model.VBF
import Mathlib.Algebra.Order.Field.Rat
import Mathlib.Algebra.Module.Rat
import Std.Data.HashMap

open Sopht.Model

abbrev Vec := ℕ → ℚ

def parseRat (t : String) : Option ℚ :=
  match t.splitOn "/" with
  | [a] => a.toInt?.map fun n => (n : ℚ)
  | [a, b] => do
      let n ← a.toInt?
      let d ← b.toNat?
      pure (mkRat n d)
  | _ => none

def showRat (q : ℚ) : String := if q.den == 1 then toString q.num else s!"{q.num}/{q.den}"

def materialise (n : ℕ) (f : Vec) : Vec :=
  let a : Array ℚ := Array.ofFn (n := n) fun i => f i
  fun i => a.getD i 0

def showVec (n : ℕ) (f : Vec) : String := " ".intercalate ((List.range n).map fun i => showRat (f i))

def vecOf (ts : List String) : Vec :=
  let a := (ts.map fun t => (parseRat t).getD 0).toArray
  fun i => a.getD i 0

/-- sparse spreading map: triples (cell, j, w) grouped by cell -/
def spreadMap (tr : List (ℕ × ℕ × ℚ)) : Vec → Vec :=
  let m : Std.HashMap ℕ (List (ℕ × ℚ)) := tr.foldl (fun m (c, j, w) => m.insert c ((j, w) :: (m.getD c []))) {}
  fun F cell => ((m.getD cell []).map fun (j, w) => w * F j).sum

partial def triples : List String → List (ℕ × ℕ × ℚ)
  | c :: j :: w :: rest => (c.toNat!, j.toNat!, (parseRat w).getD 0) :: triples rest
  | _ => []

structure Sess where
  nV : ℕ := 0
  nW : ℕ := 0
  params : Std.HashMap ℕ (VBFParams ℚ) := {}
  sys : VBFSys ℚ Vec Vec := { body := fun _ => { I := 0, D := 0, F := 0, t := 0 }, E := 0 }
  ops : Array (ℕ × VBFOp ℚ Vec Vec) := #[]

def Sess.paramFn (s : Sess) : ℕ → VBFParams ℚ := fun b => s.params.getD b { k := 0, c := 0, reset := false }

def Sess.runAll (s : Sess) : IO Unit := do
  let mut sys := s.sys
  for (b, op) in s.ops.toList do
    let sys' := VBFSys.step s.paramFn sys op
    let st := sys'.body b
    let stM : VBFState ℚ Vec := { I := materialise s.nV st.I, D := materialise s.nV st.D, F := materialise s.nV st.F, t := st.t }
    sys := { body := Function.update sys'.body b stM, E := materialise s.nW sys'.E }
    IO.println s!"body {b} t {showRat stM.t} I {showVec s.nV stM.I} D {showVec s.nV stM.D} F {showVec s.nV stM.F}"
    IO.println s!"E {showVec s.nW sys.E}"
  IO.println "done"
  (← IO.getStdout).flush

partial def loop (h : IO.FS.Stream) (s : Sess) : IO Unit := do
  let line ← h.getLine
  if line.isEmpty then return ()
  let toks := (line.trimAscii.toString.splitOn " ").filter (· ≠ "")
  match toks with
  | ["sizes", a, b] => loop h { s with nV := a.toNat!, nW := b.toNat! }
  | ["params", b, k, c, r] =>
      loop h { s with params := s.params.insert b.toNat! { k := (parseRat k).getD 0, c := (parseRat c).getD 0, reset := r == "1" } }
  | "e0" :: vs => loop h { s with sys := { s.sys with E := vecOf vs } }
  | "op" :: "lag" :: b :: rest =>
      let ui := vecOf (rest.take s.nV)
      let vb := vecOf ((rest.drop s.nV).take s.nV)
      loop h { s with ops := s.ops.push (b.toNat!, .evalLag b.toNat! ui vb) }
  | "op" :: "full" :: b :: rest =>
      let ui := vecOf (rest.take s.nV)
      let vb := vecOf ((rest.drop s.nV).take s.nV)
      let tr := triples ((rest.drop (2 * s.nV)).drop 1)
      loop h { s with ops := s.ops.push (b.toNat!, .evalFull b.toNat! ui vb (spreadMap tr)) }
  | ["op", "step", b, dt] => loop h { s with ops := s.ops.push (b.toNat!, .timeStep b.toNat! ((parseRat dt).getD 0)) }
  | ["run"] => do s.runAll; loop h {}
  | _ => loop h s

def main : IO Unit := do loop (← IO.getStdin) {}
