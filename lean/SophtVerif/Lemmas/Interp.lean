/-
Lemmas/Interp.lean — the executable closed form of spreading equals the serial fold of the model.
-/
import SophtVerif.Model.Interp
import Mathlib.Algebra.BigOperators.Ring.List
import Mathlib.Data.List.Induction
import Mathlib.Tactic.Ring

namespace Sopht.Model

variable {K : Type} [Field K] [LinearOrder K] [IsStrictOrderedRing K] [FloorRing K]
variable {C : Type} [DecidableEq C]

theorem spreadOne_eq_closed (E : C → K) (F : K) (st : Stencil C K) (c : C) :
    spreadOne E F st c = E c + F * weightOn st c := by
  unfold spreadOne weightOn
  obtain ⟨cells⟩ := st
  simp only
  induction cells using List.reverseRecOn with
  | nil => simp
  | append_singleton ps p ih =>
    simp only [List.foldl_append, List.foldl_cons, List.foldl_nil, List.filter_append, List.map_append,
      List.sum_append]
    by_cases h : c = p.1
    · subst h
      simp only [Function.update_self, decide_true, List.filter_cons_of_pos, List.filter_nil, List.map_cons,
        List.map_nil, List.sum_cons, List.sum_nil]
      rw [ih]; ring
    · have h' : ¬ p.1 = c := fun e => h e.symm
      simp only [Function.update_of_ne h, h', decide_false, Bool.false_eq_true, not_false_eq_true,
        List.filter_cons_of_neg, List.filter_nil, List.map_nil, List.sum_nil, add_zero]
      exact ih

theorem spread_eq_closed (E : C → K) (ms : List (K × Stencil C K)) (c : C) :
    spread E ms c = spreadClosed E ms c := by
  unfold spread spreadClosed
  induction ms using List.reverseRecOn with
  | nil => simp
  | append_singleton ms m ih =>
    simp only [List.foldl_append, List.foldl_cons, List.foldl_nil, List.map_append, List.map_cons, List.map_nil,
      List.sum_append, List.sum_cons, List.sum_nil, add_zero]
    rw [spreadOne_eq_closed, ih]; ring

end Sopht.Model
