/-
Lemmas/Prog2D.lean — region-wise specifications of the 2D wrapper programs (helper lemmas used by the
property theorems C13, C16, C18, C20, C01).  Each states the value of every cell of every buffer after
executing the wrapper's program, for all grid sizes from the minimal admissible one, all stores.
-/
import SophtVerif.Model.Prog2D
import Mathlib.Tactic.Ring
import Mathlib.Tactic.Linarith
import Mathlib.Tactic.SplitIfs

set_option linter.unusedVariables false
set_option linter.unusedSectionVars false
set_option linter.unusedSimpArgs false

namespace Sopht.Model
open Sopht Sopht.Gen

variable {B K : Type} [DecidableEq B] [Field K] [LinearOrder K] [IsStrictOrderedRing K]

/-- unfolds a program (given its definitions, call constructors and kernels) into nested `if`s over the
pre-state -/
syntax "prog_simp" "[" Lean.Parser.Tactic.simpLemma,* "]" : tactic
macro_rules
  | `(tactic| prog_simp [$ls,*]) =>
    `(tactic| simp only [exec2, List.foldl, List.map, List.flatMap, List.append, List.cons_append, List.nil_append,
      List.flatten, List.singleton_append,
      Call2.exec, Store2.set, applyK2, Rect2.mem, interior2, full2, headHi, tailLo,
      if_true, if_false, ite_true, ite_false, reduceCtorEq, Bool.false_eq_true, List.append_nil, $ls,*])

theorem diffusionTimestep2D_spec (ny nx : ℤ) (hny : 3 ≤ ny) (hnx : 3 ≤ nx) (f flux : B) (hne : flux ≠ f) (r : K)
    (s : Store2 B K) (i j : ℤ) (hi : 0 ≤ i ∧ i < ny) (hj : 0 ≤ j ∧ j < nx) :
    exec2 (diffusionTimestep2D ny nx f flux r) s f i j =
      if (1 ≤ i ∧ i < ny - 1 ∧ 1 ≤ j ∧ j < nx - 1) then
        s f i j + r * (s f (i+1) j + s f (i-1) j + s f i (j+1) + s f i (j-1) - 4 * s f i j)
      else s f i j := by
  obtain ⟨hi0, hi1⟩ := hi
  obtain ⟨hj0, hj1⟩ := hj
  have hne' : f ≠ flux := fun h => hne h.symm
  prog_simp [diffusionTimestep2D, diffusionFlux2D, setBoundary2D, boundaryStrips2D, elementwiseSum2D,
    call_diffusion_stencil_2d, call_set_fixed_val_stencil_2d, call_elementwise_sum_stencil_2d,
    diffusion_stencil_2d, set_fixed_val_stencil_2d, elementwise_sum_stencil_2d, hne, hne']
  split_ifs <;> first | rfl | ring1 | (exfalso; omega)

end Sopht.Model

namespace Sopht.Model
open Sopht Sopht.Gen

variable {B K : Type} [DecidableEq B] [Field K] [LinearOrder K] [IsStrictOrderedRing K]

/-! ### the ENO3 kernels accumulate: `kernel a = a + increment`, the increment not depending on `a` -/

def zero2 : F2 K := fun _ _ => 0

def xfIncr (c : K) (f v : F2 K) : F2 K := advection_flux_x_front_conservative_eno3_stencil_2d c zero2 f v
def xbIncr (c : K) (f v : F2 K) : F2 K := advection_flux_x_back_conservative_eno3_stencil_2d c zero2 f v
def yfIncr (c : K) (f v : F2 K) : F2 K := advection_flux_y_front_conservative_eno3_stencil_2d c zero2 f v
def ybIncr (c : K) (f v : F2 K) : F2 K := advection_flux_y_back_conservative_eno3_stencil_2d c zero2 f v

theorem xf_acc (c : K) (a f v : F2 K) (i j : ℤ) :
    advection_flux_x_front_conservative_eno3_stencil_2d c a f v i j = a i j + xfIncr c f v i j := by
  simp only [xfIncr, zero2, advection_flux_x_front_conservative_eno3_stencil_2d]; ring
theorem xb_acc (c : K) (a f v : F2 K) (i j : ℤ) :
    advection_flux_x_back_conservative_eno3_stencil_2d c a f v i j = a i j + xbIncr c f v i j := by
  simp only [xbIncr, zero2, advection_flux_x_back_conservative_eno3_stencil_2d]; ring
theorem yf_acc (c : K) (a f v : F2 K) (i j : ℤ) :
    advection_flux_y_front_conservative_eno3_stencil_2d c a f v i j = a i j + yfIncr c f v i j := by
  simp only [yfIncr, zero2, advection_flux_y_front_conservative_eno3_stencil_2d]; ring
theorem yb_acc (c : K) (a f v : F2 K) (i j : ℤ) :
    advection_flux_y_back_conservative_eno3_stencil_2d c a f v i j = a i j + ybIncr c f v i j := by
  simp only [ybIncr, zero2, advection_flux_y_back_conservative_eno3_stencil_2d]; ring

/-- total ENO3 flux divergence the four kernels add at a cell -/
def enoDiv (c : K) (f vx vy : F2 K) : F2 K :=
  fun i j => xfIncr c f vx i j + xbIncr c f vx i j + yfIncr c f vy i j + ybIncr c f vy i j

end Sopht.Model
