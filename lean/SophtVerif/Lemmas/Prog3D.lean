/-
Lemmas/Prog3D.lean — unfolding tactic for the 3D wrapper programs (counterpart of Lemmas/Prog2D.prog_simp).
-/
import SophtVerif.Model.Prog3D
import Mathlib.Tactic.Ring
import Mathlib.Tactic.Linarith
import Mathlib.Tactic.SplitIfs

set_option linter.unusedVariables false
set_option linter.unusedSectionVars false
set_option linter.unusedSimpArgs false

namespace Sopht.Model
open Sopht Sopht.Gen

/-- unfolds a 3D program (given its definitions, call constructors and kernels) into nested `if`s over the
pre-state -/
syntax "prog_simp3" "[" Lean.Parser.Tactic.simpLemma,* "]" : tactic
macro_rules
  | `(tactic| prog_simp3 [$ls,*]) =>
    `(tactic| simp only [exec3, List.foldl, List.map, List.flatMap, List.append, List.cons_append, List.nil_append,
      List.flatten, List.singleton_append,
      Call3.exec, Store3.set, applyK3, Rect3.mem, interior3, full3, headHi, tailLo, comps, List.range, List.range.loop,
      Vec3.fam, Int.ofNat_eq_natCast, Nat.cast_zero, Nat.cast_one, Nat.cast_ofNat, Int.reduceEq, one_ne_zero, zero_ne_one,
      if_true, if_false, ite_true, ite_false, reduceCtorEq, Bool.false_eq_true, List.append_nil, $ls,*])

variable {K : Type} [Field K] [LinearOrder K] [IsStrictOrderedRing K]

/-! ### the 3D ENO3 kernels accumulate: `kernel a = a + increment`, the increment not depending on `a` -/

def zero3 : F3 K := fun _ _ _ => 0

def xfIncr3 (c : K) (f v : F3 K) : F3 K := advection_flux_x_front_conservative_eno3_stencil_3d c zero3 f v
def xbIncr3 (c : K) (f v : F3 K) : F3 K := advection_flux_x_back_conservative_eno3_stencil_3d c zero3 f v
def yfIncr3 (c : K) (f v : F3 K) : F3 K := advection_flux_y_front_conservative_eno3_stencil_3d c zero3 f v
def ybIncr3 (c : K) (f v : F3 K) : F3 K := advection_flux_y_back_conservative_eno3_stencil_3d c zero3 f v
def zfIncr3 (c : K) (f v : F3 K) : F3 K := advection_flux_z_front_conservative_eno3_stencil_3d c zero3 f v
def zbIncr3 (c : K) (f v : F3 K) : F3 K := advection_flux_z_back_conservative_eno3_stencil_3d c zero3 f v

theorem xf_acc3 (c : K) (a f v : F3 K) (i j k : ℤ) :
    advection_flux_x_front_conservative_eno3_stencil_3d c a f v i j k = a i j k + xfIncr3 c f v i j k := by
  simp only [xfIncr3, zero3, advection_flux_x_front_conservative_eno3_stencil_3d]; ring
theorem xb_acc3 (c : K) (a f v : F3 K) (i j k : ℤ) :
    advection_flux_x_back_conservative_eno3_stencil_3d c a f v i j k = a i j k + xbIncr3 c f v i j k := by
  simp only [xbIncr3, zero3, advection_flux_x_back_conservative_eno3_stencil_3d]; ring
theorem yf_acc3 (c : K) (a f v : F3 K) (i j k : ℤ) :
    advection_flux_y_front_conservative_eno3_stencil_3d c a f v i j k = a i j k + yfIncr3 c f v i j k := by
  simp only [yfIncr3, zero3, advection_flux_y_front_conservative_eno3_stencil_3d]; ring
theorem yb_acc3 (c : K) (a f v : F3 K) (i j k : ℤ) :
    advection_flux_y_back_conservative_eno3_stencil_3d c a f v i j k = a i j k + ybIncr3 c f v i j k := by
  simp only [ybIncr3, zero3, advection_flux_y_back_conservative_eno3_stencil_3d]; ring
theorem zf_acc3 (c : K) (a f v : F3 K) (i j k : ℤ) :
    advection_flux_z_front_conservative_eno3_stencil_3d c a f v i j k = a i j k + zfIncr3 c f v i j k := by
  simp only [zfIncr3, zero3, advection_flux_z_front_conservative_eno3_stencil_3d]; ring
theorem zb_acc3 (c : K) (a f v : F3 K) (i j k : ℤ) :
    advection_flux_z_back_conservative_eno3_stencil_3d c a f v i j k = a i j k + zbIncr3 c f v i j k := by
  simp only [zbIncr3, zero3, advection_flux_z_back_conservative_eno3_stencil_3d]; ring

/-- total ENO3 flux divergence the six kernels add at a cell -/
def enoDiv3 (c : K) (f vx vy vz : F3 K) : F3 K :=
  fun i j k => xfIncr3 c f vx i j k + xbIncr3 c f vx i j k + yfIncr3 c f vy i j k + ybIncr3 c f vy i j k
    + zfIncr3 c f vz i j k + zbIncr3 c f vz i j k

end Sopht.Model
