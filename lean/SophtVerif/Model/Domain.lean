/-
Model/Domain.lean — `FlowSimulator._init_domain` (sopht/simulator/flow/flow_simulators.py): the spacing, the extents and
the cell-centre coordinates of the Eulerian grid, as the code forms them (np.linspace between the first and the last cell
centre).  Grid size is given in array order (…, ny, nx); x is the LAST axis; the spacing is x_range / nx on every axis.
-/
namespace Sopht.Model.Domain

variable {K : Type} [Add K] [Sub K] [Mul K] [Div K] [OfNat K 2] [NatCast K]

/-- `np.linspace(start, stop, n)[k]` (n ≥ 2 samples, end point included) -/
def linspace (start stop : K) (n k : Nat) : K := start + (Nat.cast k : K) * ((stop - start) / (Nat.cast (n - 1) : K))

/-- spacing -/
def dx (xRange : K) (nx : Nat) : K := xRange / (Nat.cast nx : K)

/-- extent of an axis with `n` cells on a grid whose x axis has `nx` cells: `x_range * n / nx` -/
def axisRange (xRange : K) (nx n : Nat) : K := xRange * (Nat.cast n : K) / (Nat.cast nx : K)

/-- the k-th cell-centre coordinate of an axis with `n` cells, as the code computes it -/
def centre (xRange : K) (nx n k : Nat) : K :=
  linspace (dx xRange nx / 2) (axisRange xRange nx n - dx xRange nx / 2) n k

end Sopht.Model.Domain
