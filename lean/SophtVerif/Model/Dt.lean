/-
Model/Dt.lean — model of `compute_advection_diffusion_stable_timestep`
(sopht/simulator/flow/passive_transport_flow_simulators.py), used by all three simulator classes:
  tol = 10·eps(real_t);  umax = amax Σ_a |u_a|;
  dt = min( cfl·dx/(umax + tol),  0.9·dx²/(2·dim)/ν );   returned value = dt · dt_prefac.
`ν = 0` is an explicit branch: IEEE division gives +inf and `min` returns the advective limit; Lean's
`x / 0 = 0` is never relied upon.
-/
import Mathlib.Algebra.Order.Field.Basic
import Mathlib.Tactic.Ring
import Mathlib.Tactic.Linarith
import Mathlib.Tactic.Positivity
import Mathlib.Tactic.FieldSimp

namespace Sopht.Model

variable {K : Type} [Field K] [LinearOrder K] [IsStrictOrderedRing K]

def advLimit (cfl dx tol umax : K) : K := cfl * dx / (umax + tol)
def diffLimit (dx nu : K) (d : ℕ) : K := (9 / 10 : K) * dx ^ 2 / (2 * (d : K)) / nu

def stableDt (cfl dx nu tol umax : K) (d : ℕ) : K :=
  if nu = 0 then advLimit cfl dx tol umax else min (advLimit cfl dx tol umax) (diffLimit dx nu d)

def stableDtPrefac (cfl dx nu tol umax : K) (d : ℕ) (prefac : K) : K := stableDt cfl dx nu tol umax d * prefac

end Sopht.Model
