/-
Model/FastDiag.lean — hand model of FastDiagPoissonSolver{2D,3D}.solve with the eigen-data as INPUTS
(contract of numpy.linalg.eigh / inv): per axis `V` (columns = eigenvectors), `W = V⁻¹`, and the table of
reciprocal eigenvalue sums `inv` (0 at the null mode, as `1/inf`).  Index form with explicit finite sums, in
the contraction order the code uses (`tensordot` sequence / `multi_dot`).
-/
import Mathlib.Algebra.Order.Field.Basic
import Mathlib.Algebra.BigOperators.Group.List.Basic

namespace Sopht.Model

variable {K : Type} [Field K]

def sumTo (n : ℕ) (f : ℕ → K) : K := ((List.range n).map f).sum

/-- 2D: `V_y · ((V_y⁻¹ · F · V_x⁻ᵀ) ∘ inv) · V_xᵀ` -/
def fdSolve2 (ny nx : ℕ) (Vy Wy Vx Wx : ℕ → ℕ → K) (inv : ℕ → ℕ → K) (f : ℕ → ℕ → K) : ℕ → ℕ → K :=
  let spec : ℕ → ℕ → K := fun a b => sumTo ny fun y => sumTo nx fun x => Wy a y * f y x * Wx b x
  let scaled : ℕ → ℕ → K := fun a b => spec a b * inv a b
  fun y x => sumTo ny fun a => sumTo nx fun b => Vy y a * scaled a b * Vx x b

/-- 3D: the six `tensordot` contractions around the element-wise product -/
def fdSolve3 (nz ny nx : ℕ) (Vz Wz Vy Wy Vx Wx : ℕ → ℕ → K) (inv : ℕ → ℕ → ℕ → K) (f : ℕ → ℕ → ℕ → K) :
    ℕ → ℕ → ℕ → K :=
  let s1 : ℕ → ℕ → ℕ → K := fun z y k => sumTo nx fun x => f z y x * Wx k x
  let s2 : ℕ → ℕ → ℕ → K := fun z j k => sumTo ny fun y => Wy j y * s1 z y k
  let s3 : ℕ → ℕ → ℕ → K := fun i j k => sumTo nz fun z => Wz i z * s2 z j k
  let sc : ℕ → ℕ → ℕ → K := fun i j k => s3 i j k * inv i j k
  let t1 : ℕ → ℕ → ℕ → K := fun i j x => sumTo nx fun k => sc i j k * Vx x k
  let t2 : ℕ → ℕ → ℕ → K := fun i y x => sumTo ny fun j => Vy y j * t1 i j x
  fun z y x => sumTo nz fun i => Vz z i * t2 i y x

/-- the 1D second-difference matrix with homogeneous Neumann conditions at the domain faces (mirror ghost
values), as built by `_construct_poisson_matrices` + `_apply_boundary_conds…`: rows of `[-1, 2, -1]/dx²` with
the two corner diagonal entries replaced by `1/dx²` (sizes n ≥ 2, as in the property) -/
def neumannRow (n : ℕ) (invdx2 : K) (v : ℕ → K) (i : ℕ) : K :=
  if i = 0 then invdx2 * (v 0 - v 1)
  else if i = n - 1 then invdx2 * (v (n - 1) - v (n - 2))
  else invdx2 * (2 * v i - v (i - 1) - v (i + 1))

end Sopht.Model
