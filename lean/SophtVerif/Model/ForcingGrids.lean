/-
Model/ForcingGrids.lean — hand model of the forcing grids
(sopht/simulator/immersed_body/{rigid_body/rigid_body_forcing_grids.py, cosserat_rod/cosserat_rod_forcing_grids.py}).

A marker is described by the lab-frame ARM from the centre of the part of the body that owns it (rigid-body
centre, or rod-element centre) and the Lagrangian force `f` acting on the FLUID there.
  rigid body      : arm = Qᵀ r_loc (body-fixed grids) or a lab-fixed offset (sphere);
                    F = −Σ f,   τ_body = −Q (Σ arm × f);   v_m = V + (Qᵀ Ω) × arm
  rod element e   : centre x_c = (x_e + x_{e+1})/2; element-centric markers: arm = 0; edge markers:
                    arm = ± r (ẑ × t); surface markers: arm = r·ratio·Q_eᵀ (cos θ, sin θ, 0);
                    each marker force goes half to each end node (`_elements_to_nodes_inplace` / the explicit
                    half-half splits), the element couple is τ_e = Q_e (Σ arm × (−f));
                    v_m = v_e + (Q_eᵀ ω_e) × arm
-/
import Mathlib.LinearAlgebra.CrossProduct
import Mathlib.LinearAlgebra.Matrix.DotProduct
import Mathlib.Data.Real.Basic

namespace Sopht.Model
open Matrix

abbrev V3 (R : Type) := Fin 3 → R

variable {R : Type} [Field R]

structure Marker (R : Type) where
  arm : V3 R
  f : V3 R

/-- net force transferred to the body -/
def netForce (ms : List (Marker R)) : V3 R := -(ms.map (·.f)).sum

/-- torque / element couple in the BODY (material) frame: `Q (Σ arm × (−f))` -/
def bodyCouple (Q : Matrix (Fin 3) (Fin 3) R) (ms : List (Marker R)) : V3 R :=
  Q *ᵥ (ms.map fun m => m.arm ⨯₃ (-m.f)).sum

/-- marker position and velocity of a rigid section with centre `X`, centre velocity `V`, body-frame angular
velocity `Ω` and director matrix `Q` (rows = body axes in the lab frame) -/
def markerPos (X : V3 R) (m : Marker R) : V3 R := X + m.arm
def markerVel (Q : Matrix (Fin 3) (Fin 3) R) (V Ω : V3 R) (m : Marker R) : V3 R := V + (Qᵀ *ᵥ Ω) ⨯₃ m.arm

/-- body-fixed arm from body-frame coordinates -/
def bodyFixedArm (Q : Matrix (Fin 3) (Fin 3) R) (rloc : V3 R) : V3 R := Qᵀ *ᵥ rloc

/-- a rod element with its two end nodes; forces on the element's markers are split half/half -/
structure RodElement (R : Type) where
  x0 : V3 R
  x1 : V3 R
  Q : Matrix (Fin 3) (Fin 3) R
  markers : List (Marker R)

/-- nodal force contributions (position, force) of one element -/
def RodElement.nodalContributions (e : RodElement R) : List (V3 R × V3 R) :=
  [(e.x0, (1 / 2 : R) • netForce e.markers), (e.x1, (1 / 2 : R) • netForce e.markers)]

def RodElement.centre (e : RodElement R) : V3 R := (1 / 2 : R) • (e.x0 + e.x1)

/-- surface marker arm: `radius · ratio · Qᵀ (cos θ, sin θ, 0)` with `(c, s)` on the unit circle -/
def surfaceArm (Q : Matrix (Fin 3) (Fin 3) R) (radius ratio c s : R) : V3 R :=
  (radius * ratio) • (Qᵀ *ᵥ ![c, s, 0])

end Sopht.Model
