/-
Model/IO.lean — hand model of sopht/utils/io.py (`IO.save` / `IO.load`): registries of Eulerian and
Lagrangian scalar / vector fields, the HDF5 file as a list of datasets (path, array) plus attributes, the
layout transformations (`reshape(1, *grid)`, per-component split, `transpose`, `moveaxis(0, -1)`), the key
checks and the three `allclose` parameter checks.

Arrays are a shape and a total function from index lists to an ABSTRACT element type `α`: the model never
inspects element values, so NaN payloads, infinities and denormals are covered by parametricity.  h5py is an
external store modelled as "what is written is what is read".  Equality of arrays is extensional on valid
indices (`Arr.Same`).
-/
import Mathlib.Data.List.Basic
import Mathlib.Order.Basic

namespace Sopht.Model.IO

/-- an array: shape and element at an index list -/
structure Arr (α : Type) where
  shape : List ℕ
  get : List ℕ → α

/-- `idx` is a valid index for `shape` -/
def validIdx : List ℕ → List ℕ → Prop
  | [], [] => True
  | n :: ns, i :: is => i < n ∧ validIdx ns is
  | _, _ => False

/-- same shape and same element at every valid index -/
def Arr.Same {α : Type} (a b : Arr α) : Prop := a.shape = b.shape ∧ ∀ idx, validIdx a.shape idx → a.get idx = b.get idx

variable {α : Type}

/-! ### numpy operations used by the IO layer -/

/-- `a.reshape(1, *a.shape)` -/
def Arr.addLeading (a : Arr α) : Arr α := ⟨1 :: a.shape, fun idx => a.get idx.tail⟩
/-- `a[0, ...]` -/
def Arr.dropLeading (a : Arr α) : Arr α := ⟨a.shape.tail, fun idx => a.get (0 :: idx)⟩
/-- `a[c, ...]` -/
def Arr.comp (a : Arr α) (c : ℕ) : Arr α := ⟨a.shape.tail, fun idx => a.get (c :: idx)⟩
/-- assemble `(dim, *grid)` from its components (`dst[c, ...] = comps c`) -/
def Arr.ofComps (dim : ℕ) (grid : List ℕ) (comps : ℕ → Arr α) : Arr α :=
  ⟨dim :: grid, fun idx => match idx with
    | c :: rest => (comps c).get rest
    | [] => (comps 0).get []⟩
/-- `np.moveaxis(a, 0, -1)` : new index `(rest…, c)` ↦ old `(c, rest…)` (for 2D arrays: the transpose) -/
def rotL : List ℕ → List ℕ
  | [] => []
  | a :: t => t ++ [a]
def rotR (l : List ℕ) : List ℕ := match l.getLast? with
  | none => []
  | some a => a :: l.dropLast
def Arr.moveFirstToLast (a : Arr α) : Arr α := ⟨rotL a.shape, fun idx => a.get (rotR idx)⟩
/-- `np.moveaxis(a, -1, 0)` -/
def Arr.moveLastToFirst (a : Arr α) : Arr α := ⟨rotR a.shape, fun idx => a.get (rotL idx)⟩

/-- numpy broadcasting assignment `dst[...] = src` for the two cases the IO layer can meet: equal shapes
(copy) or an error (`none`).  Broadcast-compatible but different shapes (a size-1 axis) do occur in numpy;
they are mapped to an error here and are exercised separately by the correspondence's malformed stream
(the subsequent `allclose` checks raise for Eulerian fields). -/
def assign (dst src : Arr α) : Option (Arr α) := if dst.shape = src.shape then some ⟨dst.shape, src.get⟩ else none

/-! ### registry and file -/

inductive Kind | scalar | vector
deriving DecidableEq, Repr

structure EulField (α : Type) where
  name : String
  kind : Kind
  arr : Arr α

structure LagField (α : Type) where
  name : String
  kind : Kind
  arr : Arr α

structure LagGrid (α : Type) where
  name : String
  grid : Arr α           -- (dim, N)
  fields : List (LagField α)

/-- Eulerian parameters as written into the attributes -/
structure EulParams (ρ : Type) where
  origin : List ρ
  dx : List ρ
  gridSize : List ρ

structure Registry (α ρ : Type) where
  dim : ℕ
  gridShape : List ℕ           -- eulerian_grid_size (z, y, x order)
  eulDefined : Bool
  params : EulParams ρ
  eul : List (EulField α)
  lag : List (LagGrid α)

/-- the HDF5 file: datasets by path, the time attribute, the Eulerian parameter attributes -/
structure File (α ρ τ : Type) where
  time : τ
  datasets : List (String × Arr α)
  params : Option (EulParams ρ)

def File.find? {ρ τ : Type} (f : File α ρ τ) (path : String) : Option (Arr α) :=
  (f.datasets.find? fun d => d.1 == path).map (·.2)

/-! ### type classification (`add_as_*_fields_for_io`) -/

/-- Eulerian: scalar if the shape is the grid, vector if `(dim, *grid)`, else rejected -/
def classifyEul (dim : ℕ) (grid shape : List ℕ) : Option Kind :=
  if shape = grid then some .scalar else if shape = dim :: grid then some .vector else none

/-- Lagrangian (after the repair `fix: 83ce32a`): vector if the shape equals the grid's `(dim, N)`, scalar if
the leading extent is `N` -/
def classifyLag (gridShape shape : List ℕ) : Option Kind :=
  if shape = gridShape then some .vector
  else if shape.head? = gridShape.getLast? ∧ gridShape.length = 2 then some .scalar else none

/-! ### save -/

def eulPath (k : Kind) (n : String) : String := match k with
  | .scalar => "Eulerian/Scalar/" ++ n
  | .vector => "Eulerian/Vector/" ++ n

def saveEul (dim : ℕ) (f : EulField α) : List (String × Arr α) :=
  match f.kind with
  | .scalar => [(eulPath .scalar f.name, f.arr.addLeading)]
  | .vector => (List.range dim).map fun c => (eulPath .vector (f.name ++ "_" ++ toString c), (f.arr.comp c).addLeading)

def lagFieldPath (g : String) (k : Kind) (n : String) : String := match k with
  | .scalar => "Lagrangian/" ++ g ++ "/Scalar/" ++ n
  | .vector => "Lagrangian/" ++ g ++ "/Vector/" ++ n

def saveLagField (g : String) (f : LagField α) : String × Arr α :=
  match f.kind with
  | .scalar => (lagFieldPath g .scalar f.name, f.arr)
  | .vector => (lagFieldPath g .vector f.name, f.arr.moveFirstToLast)

def saveLagGrid (g : LagGrid α) : List (String × Arr α) :=
  ("Lagrangian/" ++ g.name ++ "/Grid", g.grid.moveFirstToLast) :: g.fields.map (saveLagField g.name)

def save {ρ τ : Type} (r : Registry α ρ) (t : τ) : File α ρ τ :=
  { time := t,
    datasets := (if r.eulDefined then r.eul.flatMap (saveEul r.dim) else []) ++ r.lag.flatMap saveLagGrid,
    params := if r.eulDefined then some r.params else none }

/-- `EulerianFieldIO.__init__`: the grid parameters it derives from a position field whose components are ordered
x, y(, z) and whose lower corner (cell centre of the first cell) is `cornerXYZ`: origin in z-y-x (array-axis) order,
one spacing for every axis (taken from the x coordinates), the grid size = the array shape. -/
def eulerianFieldIOParams {ρ : Type} (cornerXYZ : List ρ) (dx : ρ) (gridShape : List ρ) : EulParams ρ :=
  { origin := cornerXYZ.reverse, dx := cornerXYZ.map fun _ => dx, gridSize := gridShape }

/-! ### load -/

inductive LoadError
  | missingField (path : String)
  | missingGrid (name : String)
  | shapeMismatch (path : String)
  | gridNotDefined
  | originMismatch | dxMismatch | gridSizeMismatch | paramsMissing
deriving DecidableEq, Repr

def loadEul {ρ τ : Type} (dim : ℕ) (file : File α ρ τ) (f : EulField α) : Except LoadError (EulField α) :=
  match f.kind with
  | .scalar =>
      match file.find? (eulPath .scalar f.name) with
      | none => .error (.missingField (eulPath .scalar f.name))
      | some d => match assign f.arr d.dropLeading with
        | none => .error (.shapeMismatch (eulPath .scalar f.name))
        | some a => .ok { f with arr := a }
  | .vector =>
      -- every component must be present; each is assigned into `dst[c, ...]`
      match (List.range dim).find? fun c => (file.find? (eulPath .vector (f.name ++ "_" ++ toString c))).isNone with
      | some c => .error (.missingField (eulPath .vector (f.name ++ "_" ++ toString c)))
      | none =>
        let comp := fun c => match file.find? (eulPath .vector (f.name ++ "_" ++ toString c)) with
          | some d => d.dropLeading
          | none => f.arr.comp c
        if (List.range dim).all fun c => (comp c).shape = f.arr.shape.tail then
          .ok { f with arr := Arr.ofComps dim f.arr.shape.tail comp }
        else .error (.shapeMismatch (eulPath .vector f.name))

def loadLagField {ρ τ : Type} (file : File α ρ τ) (g : String) (f : LagField α) : Except LoadError (LagField α) :=
  match file.find? (lagFieldPath g f.kind f.name) with
  | none => .error (.missingField (lagFieldPath g f.kind f.name))
  | some d =>
    let src := match f.kind with
      | .scalar => d
      | .vector => d.moveLastToFirst
    match assign f.arr src with
    | none => .error (.shapeMismatch (lagFieldPath g f.kind f.name))
    | some a => .ok { f with arr := a }

def loadLagGrid {ρ τ : Type} (file : File α ρ τ) (g : LagGrid α) : Except LoadError (LagGrid α) :=
  match file.find? ("Lagrangian/" ++ g.name ++ "/Grid") with
  | none => .error (.missingGrid g.name)
  | some d =>
    match assign g.grid d.moveLastToFirst with
    | none => .error (.shapeMismatch ("Lagrangian/" ++ g.name ++ "/Grid"))
    | some a => do
      let fs ← g.fields.mapM (loadLagField file g.name)
      pure { g with grid := a, fields := fs }

/-- Eulerian part of `load`; `close` is `np.allclose` on the attribute vectors (a relation supplied by the
caller: the model does not compute with reals).  Skipped entirely when no Eulerian field is registered. -/
def loadEulPart {ρ τ : Type} (close : List ρ → List ρ → Bool) (r : Registry α ρ) (file : File α ρ τ) :
    Except LoadError (List (EulField α)) :=
  if r.eul.isEmpty then .ok r.eul
  else if !r.eulDefined then .error .gridNotDefined
  else match r.eul.mapM (loadEul r.dim file) with
    | .error e => .error e
    | .ok fs => match file.params with
      | none => .error .paramsMissing
      | some p =>
        if !close r.params.origin p.origin then .error .originMismatch
        else if !close r.params.dx p.dx then .error .dxMismatch
        else if !close r.params.gridSize p.gridSize then .error .gridSizeMismatch
        else .ok fs

def load {ρ τ : Type} (close : List ρ → List ρ → Bool) (r : Registry α ρ) (file : File α ρ τ) :
    Except LoadError (Registry α ρ × τ) :=
  match loadEulPart close r file with
  | .error e => .error e
  | .ok eul => match r.lag.mapM (loadLagGrid file) with
    | .error e => .error e
    | .ok lag => .ok ({ r with eul := eul, lag := lag }, file.time)

end Sopht.Model.IO
