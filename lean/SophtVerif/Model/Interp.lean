/-
Model/Interp.lean — hand model of the Eulerian–Lagrangian grid communicators
(sopht/numeric/immersed_boundary_ops/EulerianLagrangianGridCommunicator{2D,3D}.py), kernel width 2:
nearest index by floor division, support distances recomputed from the index, cosine and Peskin delta
weights (written as in the source, including the `fabs` inside the square roots and the half-open
branch tests), interpolation (Eulerian → Lagrangian) and spreading (Lagrangian → Eulerian, accumulating,
serial in marker order).  Generic over an ordered field with floor; `T` supplies cos / sqrt / π.
Tied to the numba kernels by the numeric correspondence (tools/corr/interp.py).
-/
import SophtVerif.Core.Grid
import Mathlib.Algebra.Order.Floor.Ring
import Mathlib.Algebra.Order.Ring.Abs

namespace Sopht.Model

variable {K : Type} [Field K] [LinearOrder K] [IsStrictOrderedRing K] [FloorRing K]

/-- offsets of the support window for kernel width 2: `-w+1 .. w` -/
def supportOffsets : List ℤ := [-1, 0, 1, 2]

/-- `(X - shift) // dx` -/
def nearestIdx (X shift dx : K) : ℤ := ⌊(X - shift) / dx⌋

/-- `(idx + k)·dx + shift − X` : signed distance from the marker to the centre of window cell `k` -/
def supportDist (X shift dx : K) (k : ℤ) : K := ((nearestIdx X shift dx + k : ℤ) : K) * dx + shift - X

/-- one-dimensional cosine delta function on the scaled distance -/
def phiCos (T : Transc K) (r : K) : K := (1 / 4) * (1 + T.cos (T.pi / 2 * r))

/-- one-dimensional Peskin (2002, 6.27) delta function on the scaled distance, as in the source -/
def phiPeskin (T : Transc K) (r0 : K) : K :=
  let r := |r0|
  (1 / 8) * ((if r < 1 then 1 else 0) * (3 - 2 * r + T.sqrt |1 + 4 * r - 4 * r ^ 2|)
    + (if 1 ≤ r then 1 else 0) * (if r < 2 then 1 else 0) * (5 - 2 * r - T.sqrt |(-7) + 12 * r - 4 * r ^ 2|))

/-- 1D weight of window cell `k` (already divided by `dx`) -/
def weight1 (φ : K → K) (X shift dx : K) (k : ℤ) : K := φ (supportDist X shift dx k / dx) / dx

/-- 2D weight of window cell `(ky, kx)`; marker position `(X, Y)` -/
def weight2 (φ : K → K) (X Y shift dx : K) (ky kx : ℤ) : K := weight1 φ X shift dx kx * weight1 φ Y shift dx ky

def weight3 (φ : K → K) (X Y Z shift dx : K) (kz ky kx : ℤ) : K :=
  weight1 φ X shift dx kx * weight1 φ Y shift dx ky * weight1 φ Z shift dx kz

/-! ### interpolation and spreading with given windows and weights (any dimension: cells are abstract) -/

/-- a marker's window: the cells it touches with their weights -/
structure Stencil (C K : Type) where
  cells : List (C × K)

/-- `lag[m] = vol · Σ_k w[m,k] · u[cell(m,k)]` -/
def interp {C : Type} (vol : K) (u : C → K) (st : Stencil C K) : K :=
  vol * (st.cells.map fun p => p.2 * u p.1).sum

/-- one marker's contribution: `E[cell(m,k)] += F_m · w[m,k]` for each window cell in order -/
def spreadOne {C : Type} [DecidableEq C] (E : C → K) (F : K) (st : Stencil C K) : C → K :=
  st.cells.foldl (fun E p => Function.update E p.1 (E p.1 + F * p.2)) E

/-- markers are processed serially in index order, accumulating -/
def spread {C : Type} [DecidableEq C] (E : C → K) (ms : List (K × Stencil C K)) : C → K :=
  ms.foldl (fun E m => spreadOne E m.1 m.2) E

/-- closed form of `spread` (proved equal in Lemmas/Interp.lean: `spread_eq_closed`); this is what the
driver evaluates — the fold over function updates is not executable in reasonable time -/
def weightOn {C : Type} [DecidableEq C] (st : Stencil C K) (c : C) : K :=
  ((st.cells.filter fun p => p.1 = c).map fun p => p.2).sum

def spreadClosed {C : Type} [DecidableEq C] (E : C → K) (ms : List (K × Stencil C K)) (c : C) : K :=
  E c + (ms.map fun m => m.1 * weightOn m.2 c).sum

end Sopht.Model
