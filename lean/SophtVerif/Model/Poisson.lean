/-
Model/Poisson.lean — hand model of the unbounded Poisson solvers
(UnboundedPoissonSolverPYFFTW{2D,3D}): domain doubling (Hockney–Eastwood).
  * `extRefl n p = min p (2n − p)`  : even reflection of the separation used to build the doubled Green's
    function table (`min(x, 2L − x)` with `x = p·dx`);
  * `pad`    : the doubled buffer after the pre-FFT kernel calls (zero outside the `ny × nx` corner) — this is
    what `Model/Prog2D.poissonPre2D` is proved to leave (C18_poisson_buffer_determined_2d);
  * `circ`   : circular convolution on the doubled box — the CONTRACT assumed of the FFT pair
    `irfft(rfft a ⊙ rfft g)` (pyFFTW is external; validated numerically every run against a direct
    O(N²) circular convolution);
  * `solve`  : the model of `solve`: circular convolution of the padded right-hand side with the table
    `dx^d · G(ext p, ext q)`, read back on the corner.
`G : ℕ → ℕ → K` is the free-space Green's function sampled at cell separations (|Δi|, |Δj|); its VALUES
(−ln r / 2π with the documented self-cell term; 1/(4πr) in 3D) are tied numerically.
-/
import Mathlib.Algebra.BigOperators.Group.Finset.Basic
import Mathlib.Algebra.BigOperators.Ring.Finset
import Mathlib.Algebra.Order.Field.Basic

namespace Sopht.Model
open Finset

variable {K : Type} [Field K]

/-- even reflection on the doubled axis of length `2n` -/
def extRefl (n p : ℕ) : ℕ := min p (2 * n - p)

/-- zero-padded right-hand side on the doubled box -/
def pad2 (ny nx : ℕ) (f : ℕ → ℕ → K) : ℕ → ℕ → K := fun p q => if p < ny ∧ q < nx then f p q else 0

/-- circular convolution on a `my × mx` periodic box -/
def circ2 (my mx : ℕ) (a g : ℕ → ℕ → K) (i j : ℕ) : K :=
  ∑ p ∈ range my, ∑ q ∈ range mx, a p q * g ((i + my - p) % my) ((j + mx - q) % mx)

/-- the doubled Green's function table times the cell area -/
def gext2 (ny nx : ℕ) (vol : K) (G : ℕ → ℕ → K) : ℕ → ℕ → K := fun p q => vol * G (extRefl ny p) (extRefl nx q)

/-- model of `UnboundedPoissonSolverPYFFTW2D.solve` under the FFT contract -/
def solve2 (ny nx : ℕ) (vol : K) (G : ℕ → ℕ → K) (f : ℕ → ℕ → K) : ℕ → ℕ → K :=
  circ2 (2 * ny) (2 * nx) (pad2 ny nx f) (gext2 ny nx vol G)

/-- aperiodic (free-space) discrete convolution with the Green's function at cell separations -/
def freeConv2 (ny nx : ℕ) (vol : K) (G : ℕ → ℕ → K) (f : ℕ → ℕ → K) (i j : ℕ) : K :=
  vol * ∑ p ∈ range ny, ∑ q ∈ range nx, G (if p ≤ i then i - p else p - i) (if q ≤ j then j - q else q - j) * f p q

/-! 3D -/

def pad3 (nz ny nx : ℕ) (f : ℕ → ℕ → ℕ → K) : ℕ → ℕ → ℕ → K :=
  fun o p q => if o < nz ∧ p < ny ∧ q < nx then f o p q else 0

def circ3 (mz my mx : ℕ) (a g : ℕ → ℕ → ℕ → K) (h i j : ℕ) : K :=
  ∑ o ∈ range mz, ∑ p ∈ range my, ∑ q ∈ range mx,
    a o p q * g ((h + mz - o) % mz) ((i + my - p) % my) ((j + mx - q) % mx)

def gext3 (nz ny nx : ℕ) (vol : K) (G : ℕ → ℕ → ℕ → K) : ℕ → ℕ → ℕ → K :=
  fun o p q => vol * G (extRefl nz o) (extRefl ny p) (extRefl nx q)

def solve3 (nz ny nx : ℕ) (vol : K) (G : ℕ → ℕ → ℕ → K) (f : ℕ → ℕ → ℕ → K) : ℕ → ℕ → ℕ → K :=
  circ3 (2 * nz) (2 * ny) (2 * nx) (pad3 nz ny nx f) (gext3 nz ny nx vol G)

def adiff (a b : ℕ) : ℕ := if b ≤ a then a - b else b - a

def freeConv3 (nz ny nx : ℕ) (vol : K) (G : ℕ → ℕ → ℕ → K) (f : ℕ → ℕ → ℕ → K) (h i j : ℕ) : K :=
  vol * ∑ o ∈ range nz, ∑ p ∈ range ny, ∑ q ∈ range nx, G (adiff h o) (adiff i p) (adiff j q) * f o p q

end Sopht.Model
