/-
Model/Prog2D.lean — hand-written models of the 2D wrappers, time-step kernels, Poisson-solve glue and
the 2D Navier–Stokes step as straight-line programs of GENERATED kernel calls.
Tied to /repo by (a) the trace correspondence (same call list as the implementation issues) and
(b) the numeric correspondence (driver executes these programs at ℚ on the implementation's inputs).
Array views are modelled by their index rectangle inside the bound buffer, with numpy's clipping of
slice bounds (`min`/`max`).
-/
import SophtVerif.Gen.Calls

namespace Sopht.Model
open Sopht Sopht.Gen

variable {B K : Type} [DecidableEq B] [Field K] [LinearOrder K] [IsStrictOrderedRing K]

/-- a vector buffer given by its two component buffers (index 0 = x, 1 = y) -/
structure Vec2 (B : Type) where
  x : B
  y : B

/-! ### numpy slicing of a length-`n` axis -/

/-- `a[:w]` -/
abbrev headHi (n w : ℤ) : ℤ := min w n
/-- `a[-w:]` start -/
abbrev tailLo (n w : ℤ) : ℤ := max 0 (n - w)

/-! ### element-wise kernels and boundary setters -/

def setFixedVal2D (ny nx : ℤ) (f : B) (v : K) : List (Call2 B K) :=
  [call_set_fixed_val_stencil_2d (fixed_val := v) (field_ := f) (r := full2 ny nx)]

/-- `gen_set_fixed_val_pyst_kernel_2d(field_type="vector")` on a sub-view given by `r` -/
def setFixedValVecOn2D (r : Rect2) (f : Vec2 B) (vx vy : K) : List (Call2 B K) :=
  [call_set_fixed_val_stencil_2d (fixed_val := vx) (field_ := f.x) (r := r),
   call_set_fixed_val_stencil_2d (fixed_val := vy) (field_ := f.y) (r := r)]

def setFixedValVec2D (ny nx : ℤ) (f : Vec2 B) (vx vy : K) : List (Call2 B K) :=
  setFixedValVecOn2D (full2 ny nx) f vx vy

/-- the four boundary strips in the order the code visits them: `[:w,:]`, `[-w:,:]`, `[:,:w]`, `[:,-w:]` -/
def boundaryStrips2D (ny nx w : ℤ) : List Rect2 :=
  [⟨0, headHi ny w, 0, nx⟩, ⟨tailLo ny w, ny, 0, nx⟩, ⟨0, ny, 0, headHi nx w⟩, ⟨0, ny, tailLo nx w, nx⟩]

def setBoundary2D (ny nx w : ℤ) (f : B) (v : K) : List (Call2 B K) :=
  (boundaryStrips2D ny nx w).map fun r => call_set_fixed_val_stencil_2d (fixed_val := v) (field_ := f) (r := r)

def setBoundaryVec2D (ny nx w : ℤ) (f : Vec2 B) (vx vy : K) : List (Call2 B K) :=
  (boundaryStrips2D ny nx w).flatMap fun r => setFixedValVecOn2D r f vx vy

def elementwiseSum2D (ny nx : ℤ) (out a b : B) : List (Call2 B K) :=
  [call_elementwise_sum_stencil_2d (sum_field := out) (field_1 := a) (field_2 := b) (r := full2 ny nx)]

def elementwiseCopy2D (r : Rect2) (dst src : B) : List (Call2 B K) :=
  [call_elementwise_copy_stencil_2d (field_ := dst) (rhs_field := src) (r := r)]

def elementwiseSaxpby2D (ny nx : ℤ) (out a b : B) (pa pb : K) : List (Call2 B K) :=
  [call_elementwise_saxpby_stencil_2d (sum_field := out) (field_1 := a) (field_2 := b)
    (field_1_prefac := pa) (field_2_prefac := pb) (r := full2 ny nx)]

def addFixedVal2D (ny nx : ℤ) (out f : B) (v : K) : List (Call2 B K) :=
  [call_add_fixed_val_stencil_2d (sum_field := out) (field_ := f) (fixed_val := v) (r := full2 ny nx)]

def addFixedValVec2D (ny nx : ℤ) (out f : Vec2 B) (vx vy : K) : List (Call2 B K) :=
  [call_add_fixed_val_stencil_2d (sum_field := out.x) (field_ := f.x) (fixed_val := vx) (r := full2 ny nx),
   call_add_fixed_val_stencil_2d (sum_field := out.y) (field_ := f.y) (fixed_val := vy) (r := full2 ny nx)]

/-! ### differential wrappers -/

def diffusionFlux2D (reset : Bool) (ny nx : ℤ) (flux f : B) (p : K) : List (Call2 B K) :=
  [call_diffusion_stencil_2d (prefactor := p) (diffusion_flux := flux) (field_ := f) (r := interior2 ny nx 1)]
    ++ (if reset then setBoundary2D ny nx 1 flux 0 else [])

def advectionFlux2D (ny nx : ℤ) (flux f : B) (vel : Vec2 B) (inv_dx : K) : List (Call2 B K) :=
  [call_advection_flux_x_front_conservative_eno3_stencil_2d (inv_dx := inv_dx) (advection_flux := flux)
      (field_ := f) (velocity_x := vel.x) (r := interior2 ny nx 2),
   call_advection_flux_x_back_conservative_eno3_stencil_2d (inv_dx := inv_dx) (advection_flux := flux)
      (field_ := f) (velocity_x := vel.x) (r := interior2 ny nx 2),
   call_advection_flux_y_front_conservative_eno3_stencil_2d (inv_dx := inv_dx) (advection_flux := flux)
      (field_ := f) (velocity_y := vel.y) (r := interior2 ny nx 2),
   call_advection_flux_y_back_conservative_eno3_stencil_2d (inv_dx := inv_dx) (advection_flux := flux)
      (field_ := f) (velocity_y := vel.y) (r := interior2 ny nx 2)]

def outplaneCurl2D (reset : Bool) (ny nx : ℤ) (curl : Vec2 B) (f : B) (p : K) : List (Call2 B K) :=
  [call_outplane_field_curl_x_stencil_2d (prefactor := p) (curl_x := curl.x) (field_ := f) (r := interior2 ny nx 1),
   call_outplane_field_curl_y_stencil_2d (prefactor := p) (curl_y := curl.y) (field_ := f) (r := interior2 ny nx 1)]
    ++ (if reset then setBoundaryVec2D ny nx 1 curl 0 0 else [])

def inplaneCurl2D (ny nx : ℤ) (curl : B) (f : Vec2 B) (p : K) : List (Call2 B K) :=
  [call_inplane_field_curl_stencil_2d (prefactor := p) (curl := curl) (field_x := f.x) (field_y := f.y)
    (r := interior2 ny nx 1)]

def updateVorticityFromForcing2D (ny nx : ℤ) (w : B) (force : Vec2 B) (p : K) : List (Call2 B K) :=
  [call_update_vorticity_from_velocity_forcing_stencil_2d (prefactor := p) (vorticity_field := w)
    (velocity_forcing_field_x := force.x) (velocity_forcing_field_y := force.y) (r := interior2 ny nx 1)]

def updateVorticityFromPenalised2D (ny nx : ℤ) (w : B) (pen vel : Vec2 B) (p : K) : List (Call2 B K) :=
  [call_update_vorticity_from_penalised_velocity_stencil_2d (prefactor := p) (vorticity_field := w)
    (penalised_velocity_field_x := pen.x) (penalised_velocity_field_y := pen.y)
    (velocity_field_x := vel.x) (velocity_field_y := vel.y) (r := interior2 ny nx 1)]

def brinkmann2D (ny nx : ℤ) (out f pen chi : B) (lam : K) : List (Call2 B K) :=
  [call_brinkmann_penalise_stencil_2d (penalty_factor := lam) (char_field := chi) (field_ := f)
    (penalised_field := out) (penalty_field := pen) (r := full2 ny nx)]

def brinkmannVec2D (ny nx : ℤ) (out f pen : Vec2 B) (chi : B) (lam : K) : List (Call2 B K) :=
  brinkmann2D ny nx out.x f.x pen.x chi lam ++ brinkmann2D ny nx out.y f.y pen.y chi lam

def brinkmannFixed2D (ny nx : ℤ) (out f chi : B) (lam v : K) : List (Call2 B K) :=
  [call_brinkmann_penalise_vs_fixed_val_stencil_2d (penalty_factor := lam) (penalty_val := v) (char_field := chi)
    (field_ := f) (penalised_field := out) (r := full2 ny nx)]

def brinkmannFixedVec2D (ny nx : ℤ) (out f : Vec2 B) (chi : B) (lam vx vy : K) : List (Call2 B K) :=
  brinkmannFixed2D ny nx out.x f.x chi lam vx ++ brinkmannFixed2D ny nx out.y f.y chi lam vy

def charFunc2D (T : Transc K) (ny nx : ℤ) (out phi : B) (eps : K) : List (Call2 B K) :=
  [call_char_func_from_level_set_via_sine_heaviside_stencil_2d T (blend_width := eps) (char_func_field := out)
    (level_set_field := phi) (r := full2 ny nx)]

/-! ### time-step kernels -/

def diffusionTimestep2D (ny nx : ℤ) (f flux : B) (nu_dt_by_dx2 : K) : List (Call2 B K) :=
  diffusionFlux2D true ny nx flux f nu_dt_by_dx2 ++ elementwiseSum2D ny nx f f flux

def advectionTimestep2D (ny nx : ℤ) (f flux : B) (vel : Vec2 B) (dt_by_dx : K) : List (Call2 B K) :=
  setFixedVal2D ny nx flux 0 ++ advectionFlux2D ny nx flux f vel (-dt_by_dx) ++ elementwiseSum2D ny nx f f flux

/-! ### boundary-zone damping

The broadcasting numpy assignments are modelled as hand-written calls (kernel id prefixed `numpy:`,
invisible to the kernel tracer, covered by the numeric correspondence). -/

/-- `field[:, :w] = field[:, (w-1):w]` etc.: copy of the inner-edge column/row into the zone -/
def bcast2D (name : String) (f : B) (r : Rect2) (src : F2 K → F2 K) : Call2 B K :=
  { kid := "numpy:" ++ name, binds := [("field", f)], scal := [], region := r,
    writes := [(f, fun s => src (s f))] }

def penaliseKernelXFront (T : Transc K) (w : ℕ) (dx x0 : K) (f xg : B) (r : Rect2) : Call2 B K :=
  match w with
  | 1 => call_penalise_field_x_front_boundary_stencil_2d_w1 T (dx := dx) (x_grid_field_start := x0) (field_ := f) (x_grid_field := xg) (r := r)
  | 2 => call_penalise_field_x_front_boundary_stencil_2d_w2 T (dx := dx) (x_grid_field_start := x0) (field_ := f) (x_grid_field := xg) (r := r)
  | 3 => call_penalise_field_x_front_boundary_stencil_2d_w3 T (dx := dx) (x_grid_field_start := x0) (field_ := f) (x_grid_field := xg) (r := r)
  | 4 => call_penalise_field_x_front_boundary_stencil_2d_w4 T (dx := dx) (x_grid_field_start := x0) (field_ := f) (x_grid_field := xg) (r := r)
  | 5 => call_penalise_field_x_front_boundary_stencil_2d_w5 T (dx := dx) (x_grid_field_start := x0) (field_ := f) (x_grid_field := xg) (r := r)
  | _ => call_penalise_field_x_front_boundary_stencil_2d_w6 T (dx := dx) (x_grid_field_start := x0) (field_ := f) (x_grid_field := xg) (r := r)

def penaliseKernelXBack (T : Transc K) (w : ℕ) (dx x1 : K) (f xg : B) (r : Rect2) : Call2 B K :=
  match w with
  | 1 => call_penalise_field_x_back_boundary_stencil_2d_w1 T (dx := dx) (x_grid_field_end := x1) (field_ := f) (x_grid_field := xg) (r := r)
  | 2 => call_penalise_field_x_back_boundary_stencil_2d_w2 T (dx := dx) (x_grid_field_end := x1) (field_ := f) (x_grid_field := xg) (r := r)
  | 3 => call_penalise_field_x_back_boundary_stencil_2d_w3 T (dx := dx) (x_grid_field_end := x1) (field_ := f) (x_grid_field := xg) (r := r)
  | 4 => call_penalise_field_x_back_boundary_stencil_2d_w4 T (dx := dx) (x_grid_field_end := x1) (field_ := f) (x_grid_field := xg) (r := r)
  | 5 => call_penalise_field_x_back_boundary_stencil_2d_w5 T (dx := dx) (x_grid_field_end := x1) (field_ := f) (x_grid_field := xg) (r := r)
  | _ => call_penalise_field_x_back_boundary_stencil_2d_w6 T (dx := dx) (x_grid_field_end := x1) (field_ := f) (x_grid_field := xg) (r := r)

def penaliseKernelYFront (T : Transc K) (w : ℕ) (dx y0 : K) (f yg : B) (r : Rect2) : Call2 B K :=
  match w with
  | 1 => call_penalise_field_y_front_boundary_stencil_2d_w1 T (dx := dx) (y_grid_field_start := y0) (field_ := f) (y_grid_field := yg) (r := r)
  | 2 => call_penalise_field_y_front_boundary_stencil_2d_w2 T (dx := dx) (y_grid_field_start := y0) (field_ := f) (y_grid_field := yg) (r := r)
  | 3 => call_penalise_field_y_front_boundary_stencil_2d_w3 T (dx := dx) (y_grid_field_start := y0) (field_ := f) (y_grid_field := yg) (r := r)
  | 4 => call_penalise_field_y_front_boundary_stencil_2d_w4 T (dx := dx) (y_grid_field_start := y0) (field_ := f) (y_grid_field := yg) (r := r)
  | 5 => call_penalise_field_y_front_boundary_stencil_2d_w5 T (dx := dx) (y_grid_field_start := y0) (field_ := f) (y_grid_field := yg) (r := r)
  | _ => call_penalise_field_y_front_boundary_stencil_2d_w6 T (dx := dx) (y_grid_field_start := y0) (field_ := f) (y_grid_field := yg) (r := r)

def penaliseKernelYBack (T : Transc K) (w : ℕ) (dx y1 : K) (f yg : B) (r : Rect2) : Call2 B K :=
  match w with
  | 1 => call_penalise_field_y_back_boundary_stencil_2d_w1 T (dx := dx) (y_grid_field_end := y1) (field_ := f) (y_grid_field := yg) (r := r)
  | 2 => call_penalise_field_y_back_boundary_stencil_2d_w2 T (dx := dx) (y_grid_field_end := y1) (field_ := f) (y_grid_field := yg) (r := r)
  | 3 => call_penalise_field_y_back_boundary_stencil_2d_w3 T (dx := dx) (y_grid_field_end := y1) (field_ := f) (y_grid_field := yg) (r := r)
  | 4 => call_penalise_field_y_back_boundary_stencil_2d_w4 T (dx := dx) (y_grid_field_end := y1) (field_ := f) (y_grid_field := yg) (r := r)
  | 5 => call_penalise_field_y_back_boundary_stencil_2d_w5 T (dx := dx) (y_grid_field_end := y1) (field_ := f) (y_grid_field := yg) (r := r)
  | _ => call_penalise_field_y_back_boundary_stencil_2d_w6 T (dx := dx) (y_grid_field_end := y1) (field_ := f) (y_grid_field := yg) (r := r)

/-- `gen_penalise_field_boundary_pyst_kernel_2d(width = w)`; `w = 0` is the documented bypass.
`x0,x1,y0,y1` are the corner values of the coordinate arrays read by the generator. -/
def penaliseBoundary2D (T : Transc K) (w : ℕ) (ny nx : ℤ) (dx x0 x1 y0 y1 : K) (f xg yg : B) : List (Call2 B K) :=
  if w = 0 then [] else
  let W : ℤ := w
  [ bcast2D "x_front" f ⟨0, ny, 0, headHi nx W⟩ (fun a i _ => a i (W - 1)),
    bcast2D "x_back" f ⟨0, ny, tailLo nx W, nx⟩ (fun a i _ => a i (nx - W)),
    penaliseKernelXFront T w dx x0 f xg ⟨0, ny, 0, headHi nx W⟩,
    penaliseKernelXBack T w dx x1 f xg ⟨0, ny, tailLo nx W, nx⟩,
    bcast2D "y_front" f ⟨0, headHi ny W, 0, nx⟩ (fun a _ j => a (W - 1) j),
    bcast2D "y_back" f ⟨tailLo ny W, ny, 0, nx⟩ (fun a _ j => a (ny - W) j),
    penaliseKernelYFront T w dx y0 f yg ⟨0, headHi ny W, 0, nx⟩,
    penaliseKernelYBack T w dx y1 f yg ⟨tailLo ny W, ny, 0, nx⟩ ]

/-! ### unbounded Poisson solve: kernel glue around the two FFT plan calls -/

structure Poisson2Bufs (B : Type) where
  dbl : B       -- domain_doubled_buffer            (2ny × 2nx)
  fre : B       -- domain_doubled_fourier_buffer.real (2ny × (nx+1))
  fim : B
  gre : B       -- fourier_greens_function_times_dx_squared.real
  gim : B
  cre : B       -- convolution_buffer.real
  cim : B

/-- calls before `rfft` -/
def poissonPre2D (ny nx : ℤ) (pb : Poisson2Bufs B) (rhs : B) : List (Call2 B K) :=
  setFixedVal2D (2 * ny) (2 * nx) pb.dbl 0 ++ elementwiseCopy2D (full2 ny nx) pb.dbl rhs

/-- the Fourier-space product between `rfft` and `irfft` -/
def poissonMid2D (ny nx : ℤ) (pb : Poisson2Bufs B) : List (Call2 B K) :=
  [call_elementwise_complex_product_stencil_2d (product_field_real := pb.cre) (product_field_imag := pb.cim)
    (field_1_real := pb.fre) (field_1_imag := pb.fim) (field_2_real := pb.gre) (field_2_imag := pb.gim)
    (r := full2 (2 * ny) (nx + 1))]

/-- calls after `irfft` -/
def poissonPost2D (ny nx : ℤ) (pb : Poisson2Bufs B) (sol : B) : List (Call2 B K) :=
  elementwiseCopy2D (full2 ny nx) sol pb.dbl

/-! ### the 2D Navier–Stokes step -/

structure NS2Bufs (B : Type) where
  vort : B
  vel : Vec2 B
  bs : B          -- buffer_scalar_field
  psi : B         -- stream_func_field
  force : Vec2 B  -- eul_grid_forcing_field
  xg : B          -- position_field[x]
  yg : B
  ps : Poisson2Bufs B

structure NS2Cfg (K : Type) where
  forcing : Bool
  freeStream : Bool
  width : ℕ
  ny : ℤ
  nx : ℤ
  dt : K
  dx : K
  nu : K
  rho : K
  ux : K          -- free stream
  uy : K
  x0 : K
  x1 : K
  y0 : K
  y1 : K

/-- everything up to the Poisson solve: forcing, advection, diffusion, boundary damping, solve glue -/
def nsStep2DPre (T : Transc K) (c : NS2Cfg K) (b : NS2Bufs B) : List (Call2 B K) :=
  (if c.forcing then updateVorticityFromForcing2D c.ny c.nx b.vort b.force (c.dt / (2 * c.dx * c.rho)) else [])
  ++ advectionTimestep2D c.ny c.nx b.vort b.bs b.vel (c.dt / c.dx)
  ++ diffusionTimestep2D c.ny c.nx b.vort b.bs (c.nu * c.dt / c.dx / c.dx)
  ++ penaliseBoundary2D T c.width c.ny c.nx c.dx c.x0 c.x1 c.y0 c.y1 b.vort b.xg b.yg
  ++ poissonPre2D c.ny c.nx b.ps b.vort

/-- everything after `irfft`: copy-out, velocity recovery, free stream, forcing reset -/
def nsStep2DPost (c : NS2Cfg K) (b : NS2Bufs B) : List (Call2 B K) :=
  poissonPost2D c.ny c.nx b.ps b.psi
  ++ outplaneCurl2D true c.ny c.nx b.vel b.psi ((1 / 2 : K) / c.dx)
  ++ (if c.freeStream then addFixedValVec2D c.ny c.nx b.vel b.vel c.ux c.uy else [])
  ++ (if c.forcing then setFixedValVec2D c.ny c.nx b.force 0 0 else [])

end Sopht.Model
