/-
Model/Prog3D.lean — hand-written models of the 3D wrappers, time-step kernels, Laplacian filters,
Poisson-solve glue and the 3D Navier–Stokes / passive-transport steps as straight-line programs of
GENERATED kernel calls (see Model/Prog2D.lean for conventions).  Array index order (z, y, x); vector
components (x, y, z) = (0, 1, 2).
-/
import SophtVerif.Gen.Calls
import SophtVerif.Model.Prog2D

namespace Sopht.Model
open Sopht Sopht.Gen

variable {B K : Type} [DecidableEq B] [Field K] [LinearOrder K] [IsStrictOrderedRing K]

structure Vec3 (B : Type) where
  x : B
  y : B
  z : B

/-- the whole vector buffer as seen by a "4D" kernel: component index ↦ buffer -/
def Vec3.fam (v : Vec3 B) : VecBuf B := fun c => if c = 0 then v.x else if c = 1 then v.y else v.z

/-! ### element-wise kernels and boundary setters -/

def setFixedVal3D (nz ny nx : ℤ) (f : B) (v : K) : List (Call3 B K) :=
  [call_set_fixed_val_stencil_3d (fixed_val := v) (field_ := f) (r := full3 nz ny nx)]

def setFixedValVecOn3D (r : Rect3) (f : Vec3 B) (vx vy vz : K) : List (Call3 B K) :=
  [call_set_fixed_val_stencil_3d (fixed_val := vx) (field_ := f.x) (r := r),
   call_set_fixed_val_stencil_3d (fixed_val := vy) (field_ := f.y) (r := r),
   call_set_fixed_val_stencil_3d (fixed_val := vz) (field_ := f.z) (r := r)]

def setFixedValVec3D (nz ny nx : ℤ) (f : Vec3 B) (vx vy vz : K) : List (Call3 B K) :=
  setFixedValVecOn3D (full3 nz ny nx) f vx vy vz

/-- six boundary slabs in the code's order: z front/back, y front/back, x front/back -/
def boundarySlabs3D (nz ny nx w : ℤ) : List Rect3 :=
  [⟨0, headHi nz w, 0, ny, 0, nx⟩, ⟨tailLo nz w, nz, 0, ny, 0, nx⟩,
   ⟨0, nz, 0, headHi ny w, 0, nx⟩, ⟨0, nz, tailLo ny w, ny, 0, nx⟩,
   ⟨0, nz, 0, ny, 0, headHi nx w⟩, ⟨0, nz, 0, ny, tailLo nx w, nx⟩]

def setBoundary3D (nz ny nx w : ℤ) (f : B) (v : K) : List (Call3 B K) :=
  (boundarySlabs3D nz ny nx w).map fun r => call_set_fixed_val_stencil_3d (fixed_val := v) (field_ := f) (r := r)

def setBoundaryVec3D (nz ny nx w : ℤ) (f : Vec3 B) (vx vy vz : K) : List (Call3 B K) :=
  (boundarySlabs3D nz ny nx w).flatMap fun r => setFixedValVecOn3D r f vx vy vz

def elementwiseSum3D (nz ny nx : ℤ) (out a b : B) : List (Call3 B K) :=
  [call_elementwise_sum_stencil_3d (sum_field := out) (field_1 := a) (field_2 := b) (r := full3 nz ny nx)]

/-- `field_type="vector"`: one "4D" kernel call on whole (3, nz, ny, nx) arrays -/
def elementwiseSumVec3D (nz ny nx : ℤ) (out a b : Vec3 B) : List (Call3 B K) :=
  [vcall_elementwise_sum_stencil_3d_vec 3 (sum_field := out.fam) (field_1 := a.fam) (field_2 := b.fam) (r := full3 nz ny nx)]

def elementwiseCopy3D (r : Rect3) (dst src : B) : List (Call3 B K) :=
  [call_elementwise_copy_stencil_3d (field_ := dst) (rhs_field := src) (r := r)]

def elementwiseSaxpby3D (nz ny nx : ℤ) (out a b : B) (pa pb : K) : List (Call3 B K) :=
  [call_elementwise_saxpby_stencil_3d (sum_field := out) (field_1 := a) (field_2 := b)
    (field_1_prefac := pa) (field_2_prefac := pb) (r := full3 nz ny nx)]

def elementwiseSaxpbyVec3D (nz ny nx : ℤ) (out a b : Vec3 B) (pa pb : K) : List (Call3 B K) :=
  [vcall_elementwise_saxpby_stencil_3d_vec 3 (sum_field := out.fam) (field_1 := a.fam) (field_2 := b.fam)
    (field_1_prefac := pa) (field_2_prefac := pb) (r := full3 nz ny nx)]

def addFixedVal3D (nz ny nx : ℤ) (out f : B) (v : K) : List (Call3 B K) :=
  [call_add_fixed_val_stencil_3d (sum_field := out) (field_ := f) (fixed_val := v) (r := full3 nz ny nx)]

def addFixedValVec3D (nz ny nx : ℤ) (out f : Vec3 B) (vx vy vz : K) : List (Call3 B K) :=
  addFixedVal3D nz ny nx out.x f.x vx ++ addFixedVal3D nz ny nx out.y f.y vy ++ addFixedVal3D nz ny nx out.z f.z vz

/-- `result = field_1 × field_2`, component by component with the cyclic pairing (y,z), (z,x), (x,y) -/
def crossProduct3D (nz ny nx : ℤ) (out a b : Vec3 B) : List (Call3 B K) :=
  [call_elementwise_cross_product_single_axis_stencil_3d (result_field_i := out.x) (field_1_j := a.y) (field_1_k := a.z)
      (field_2_j := b.y) (field_2_k := b.z) (r := full3 nz ny nx),
   call_elementwise_cross_product_single_axis_stencil_3d (result_field_i := out.y) (field_1_j := a.z) (field_1_k := a.x)
      (field_2_j := b.z) (field_2_k := b.x) (r := full3 nz ny nx),
   call_elementwise_cross_product_single_axis_stencil_3d (result_field_i := out.z) (field_1_j := a.x) (field_1_k := a.y)
      (field_2_j := b.x) (field_2_k := b.y) (r := full3 nz ny nx)]

/-! ### differential wrappers -/

def diffusionFlux3D (reset : Bool) (nz ny nx : ℤ) (flux f : B) (p : K) : List (Call3 B K) :=
  [call_diffusion_stencil_3d (prefactor := p) (diffusion_flux := flux) (field_ := f) (r := interior3 nz ny nx 1)]
    ++ (if reset then setBoundary3D nz ny nx 1 flux 0 else [])

def diffusionFluxVec3D (reset : Bool) (nz ny nx : ℤ) (flux f : Vec3 B) (p : K) : List (Call3 B K) :=
  diffusionFlux3D reset nz ny nx flux.x f.x p ++ diffusionFlux3D reset nz ny nx flux.y f.y p
    ++ diffusionFlux3D reset nz ny nx flux.z f.z p

def advectionFlux3D (nz ny nx : ℤ) (flux f : B) (vel : Vec3 B) (inv_dx : K) : List (Call3 B K) :=
  let r := interior3 nz ny nx 2
  [call_advection_flux_x_front_conservative_eno3_stencil_3d (inv_dx := inv_dx) (advection_flux := flux) (field_ := f) (velocity_x := vel.x) (r := r),
   call_advection_flux_x_back_conservative_eno3_stencil_3d (inv_dx := inv_dx) (advection_flux := flux) (field_ := f) (velocity_x := vel.x) (r := r),
   call_advection_flux_y_front_conservative_eno3_stencil_3d (inv_dx := inv_dx) (advection_flux := flux) (field_ := f) (velocity_y := vel.y) (r := r),
   call_advection_flux_y_back_conservative_eno3_stencil_3d (inv_dx := inv_dx) (advection_flux := flux) (field_ := f) (velocity_y := vel.y) (r := r),
   call_advection_flux_z_front_conservative_eno3_stencil_3d (inv_dx := inv_dx) (advection_flux := flux) (field_ := f) (velocity_z := vel.z) (r := r),
   call_advection_flux_z_back_conservative_eno3_stencil_3d (inv_dx := inv_dx) (advection_flux := flux) (field_ := f) (velocity_z := vel.z) (r := r)]

def curl3D (reset : Bool) (nz ny nx : ℤ) (curl f : Vec3 B) (p : K) : List (Call3 B K) :=
  let r := interior3 nz ny nx 1
  [call_curl_x_comp_stencil_3d (prefactor := p) (curl_x := curl.x) (field_y := f.y) (field_z := f.z) (r := r),
   call_curl_y_comp_stencil_3d (prefactor := p) (curl_y := curl.y) (field_x := f.x) (field_z := f.z) (r := r),
   call_curl_z_comp_stencil_3d (prefactor := p) (curl_z := curl.z) (field_x := f.x) (field_y := f.y) (r := r)]
    ++ (if reset then setBoundaryVec3D nz ny nx 1 curl 0 0 0 else [])

def divergence3D (reset : Bool) (nz ny nx : ℤ) (div : B) (f : Vec3 B) (inv_dx : K) : List (Call3 B K) :=
  [call_divergence_stencil_3d (inv_dx := inv_dx) (divergence := div) (field_x := f.x) (field_y := f.y) (field_z := f.z)
    (r := interior3 nz ny nx 1)]
    ++ (if reset then setBoundary3D nz ny nx 1 div 0 else [])

def updateVorticityFromForcing3D (nz ny nx : ℤ) (w F : Vec3 B) (p : K) : List (Call3 B K) :=
  let r := interior3 nz ny nx 1
  [call_update_vorticity_from_velocity_forcing_x_comp_stencil_3d (prefactor := p) (vorticity_field_x := w.x)
      (velocity_forcing_field_y := F.y) (velocity_forcing_field_z := F.z) (r := r),
   call_update_vorticity_from_velocity_forcing_y_comp_stencil_3d (prefactor := p) (vorticity_field_y := w.y)
      (velocity_forcing_field_x := F.x) (velocity_forcing_field_z := F.z) (r := r),
   call_update_vorticity_from_velocity_forcing_z_comp_stencil_3d (prefactor := p) (vorticity_field_z := w.z)
      (velocity_forcing_field_x := F.x) (velocity_forcing_field_y := F.y) (r := r)]

def updateVorticityFromPenalised3D (nz ny nx : ℤ) (w pen vel : Vec3 B) (p : K) : List (Call3 B K) :=
  let r := interior3 nz ny nx 1
  [call_update_vorticity_from_penalised_velocity_x_comp_stencil_3d (prefactor := p) (vorticity_field_x := w.x)
      (penalised_velocity_field_y := pen.y) (penalised_velocity_field_z := pen.z)
      (velocity_field_y := vel.y) (velocity_field_z := vel.z) (r := r),
   call_update_vorticity_from_penalised_velocity_y_comp_stencil_3d (prefactor := p) (vorticity_field_y := w.y)
      (penalised_velocity_field_x := pen.x) (penalised_velocity_field_z := pen.z)
      (velocity_field_x := vel.x) (velocity_field_z := vel.z) (r := r),
   call_update_vorticity_from_penalised_velocity_z_comp_stencil_3d (prefactor := p) (vorticity_field_z := w.z)
      (penalised_velocity_field_x := pen.x) (penalised_velocity_field_y := pen.y)
      (velocity_field_x := vel.x) (velocity_field_y := vel.y) (r := r)]

def stretchingFlux3D (nz ny nx : ℤ) (flux w vel : Vec3 B) (p : K) : List (Call3 B K) :=
  let r := interior3 nz ny nx 1
  [call_vorticity_stretching_flux_single_comp_stencil_3d (prefactor := p) (vorticity_stretching_flux_field_comp := flux.x)
      (velocity_field_comp := vel.x) (vorticity_field_x := w.x) (vorticity_field_y := w.y) (vorticity_field_z := w.z) (r := r),
   call_vorticity_stretching_flux_single_comp_stencil_3d (prefactor := p) (vorticity_stretching_flux_field_comp := flux.y)
      (velocity_field_comp := vel.y) (vorticity_field_x := w.x) (vorticity_field_y := w.y) (vorticity_field_z := w.z) (r := r),
   call_vorticity_stretching_flux_single_comp_stencil_3d (prefactor := p) (vorticity_stretching_flux_field_comp := flux.z)
      (velocity_field_comp := vel.z) (vorticity_field_x := w.x) (vorticity_field_y := w.y) (vorticity_field_z := w.z) (r := r)]
    ++ setBoundaryVec3D nz ny nx 1 flux 0 0 0

def brinkmann3D (nz ny nx : ℤ) (out f pen chi : B) (lam : K) : List (Call3 B K) :=
  [call_brinkmann_penalise_stencil_3d (penalty_factor := lam) (char_field := chi) (field_ := f)
    (penalised_field := out) (penalty_field := pen) (r := full3 nz ny nx)]

def brinkmannVec3D (nz ny nx : ℤ) (out f pen : Vec3 B) (chi : B) (lam : K) : List (Call3 B K) :=
  brinkmann3D nz ny nx out.x f.x pen.x chi lam ++ brinkmann3D nz ny nx out.y f.y pen.y chi lam
    ++ brinkmann3D nz ny nx out.z f.z pen.z chi lam

def charFunc3D (T : Transc K) (nz ny nx : ℤ) (out phi : B) (eps : K) : List (Call3 B K) :=
  [call_char_func_from_level_set_via_sine_heaviside_stencil_3d T (blend_width := eps) (char_func_field := out)
    (level_set_field := phi) (r := full3 nz ny nx)]

/-! ### time-step kernels -/

def diffusionTimestep3D (nz ny nx : ℤ) (f flux : B) (r : K) : List (Call3 B K) :=
  diffusionFlux3D true nz ny nx flux f r ++ elementwiseSum3D nz ny nx f f flux

/-- vector variant: the SAME scalar flux buffer is reused for the three components -/
def diffusionTimestepVec3D (nz ny nx : ℤ) (f : Vec3 B) (flux : B) (r : K) : List (Call3 B K) :=
  diffusionTimestep3D nz ny nx f.x flux r ++ diffusionTimestep3D nz ny nx f.y flux r
    ++ diffusionTimestep3D nz ny nx f.z flux r

def advectionTimestep3D (nz ny nx : ℤ) (f flux : B) (vel : Vec3 B) (dt_by_dx : K) : List (Call3 B K) :=
  setFixedVal3D nz ny nx flux 0 ++ advectionFlux3D nz ny nx flux f vel (-dt_by_dx) ++ elementwiseSum3D nz ny nx f f flux

def advectionTimestepVec3D (nz ny nx : ℤ) (f : Vec3 B) (flux : B) (vel : Vec3 B) (dt_by_dx : K) : List (Call3 B K) :=
  advectionTimestep3D nz ny nx f.x flux vel dt_by_dx ++ advectionTimestep3D nz ny nx f.y flux vel dt_by_dx
    ++ advectionTimestep3D nz ny nx f.z flux vel dt_by_dx

def stretchingTimestepEuler3D (nz ny nx : ℤ) (w vel flux : Vec3 B) (p : K) : List (Call3 B K) :=
  stretchingFlux3D nz ny nx flux w vel p ++ elementwiseSumVec3D nz ny nx w w flux

/-- SSP-RK3; `mid` is the midstep buffer (both "post step" views alias it); `c3` is the third-stage
prefactor as the code forms it (`dt_by_2_dx` since the fix, `dt_by_2_dx · 0.5` before) -/
def stretchingTimestepSSPRK3 (nz ny nx : ℤ) (w vel flux mid : Vec3 B) (p c3 : K) : List (Call3 B K) :=
  stretchingFlux3D nz ny nx flux w vel p
  ++ elementwiseSumVec3D nz ny nx mid w flux
  ++ stretchingFlux3D nz ny nx flux mid vel p
  ++ elementwiseSumVec3D nz ny nx mid mid flux
  ++ elementwiseSaxpbyVec3D nz ny nx mid w mid (3 / 4) (1 / 4)
  ++ stretchingFlux3D nz ny nx flux mid vel c3
  ++ elementwiseSumVec3D nz ny nx mid mid flux
  ++ elementwiseSaxpbyVec3D nz ny nx w w mid (1 / 3) (2 / 3)

/-! ### Laplacian filters -/

def filterAxis (ax : ℕ) (flux buf : B) (r : Rect3) : Call3 B K :=
  match ax with
  | 0 => call_laplacian_filter_3d_x (filter_flux := flux) (field_ := buf) (r := r)
  | 1 => call_laplacian_filter_3d_y (filter_flux := flux) (field_ := buf) (r := r)
  | _ => call_laplacian_filter_3d_z (filter_flux := flux) (field_ := buf) (r := r)

def filterPass (nz ny nx : ℤ) (ax : ℕ) (flux buf : B) : List (Call3 B K) :=
  [filterAxis ax flux buf (interior3 nz ny nx 1)] ++ elementwiseCopy3D (full3 nz ny nx) buf flux

def repeatProg (n : ℕ) (p : List (Call3 B K)) : List (Call3 B K) := (List.replicate n p).flatten

def filterMultiplicative3D (order : ℕ) (nz ny nx : ℤ) (f flux buf : B) : List (Call3 B K) :=
  setBoundary3D nz ny nx 1 flux 0
  ++ elementwiseCopy3D (full3 nz ny nx) buf f
  ++ repeatProg order (filterPass nz ny nx 0 flux buf ++ filterPass nz ny nx 1 flux buf ++ filterPass nz ny nx 2 flux buf)
  ++ elementwiseSaxpby3D nz ny nx f f flux 1 (-1)

def filterConvolutionAxis (order : ℕ) (nz ny nx : ℤ) (ax : ℕ) (f flux buf : B) : List (Call3 B K) :=
  elementwiseCopy3D (full3 nz ny nx) buf f
  ++ repeatProg order (filterPass nz ny nx ax flux buf)
  ++ elementwiseSaxpby3D nz ny nx f f flux 1 (-1)

def filterConvolution3D (order : ℕ) (nz ny nx : ℤ) (f flux buf : B) : List (Call3 B K) :=
  setBoundary3D nz ny nx 1 flux 0
  ++ filterConvolutionAxis order nz ny nx 0 f flux buf
  ++ filterConvolutionAxis order nz ny nx 1 f flux buf
  ++ filterConvolutionAxis order nz ny nx 2 f flux buf

def filter3D (conv : Bool) (order : ℕ) (nz ny nx : ℤ) (f flux buf : B) : List (Call3 B K) :=
  if conv then filterConvolution3D order nz ny nx f flux buf else filterMultiplicative3D order nz ny nx f flux buf

def filterVec3D (conv : Bool) (order : ℕ) (nz ny nx : ℤ) (f : Vec3 B) (flux buf : B) : List (Call3 B K) :=
  filter3D conv order nz ny nx f.x flux buf ++ filter3D conv order nz ny nx f.y flux buf
    ++ filter3D conv order nz ny nx f.z flux buf

/-! ### boundary-zone damping -/

def bcast3D (name : String) (f : B) (r : Rect3) (src : F3 K → F3 K) : Call3 B K :=
  { kid := "numpy:" ++ name, binds := [("field", f)], scal := [], region := r,
    writes := [(f, fun s => src (s f))] }

structure Corners3 (K : Type) where
  x0 : K
  x1 : K
  y0 : K
  y1 : K
  z0 : K
  z1 : K

def penaliseBoundary3D (T : Transc K) (w : ℕ) (nz ny nx : ℤ) (dx : K) (c : Corners3 K) (f xg yg zg : B) :
    List (Call3 B K) :=
  if w = 0 then [] else
  let W : ℤ := w
  [ bcast3D "x_front" f ⟨0, nz, 0, ny, 0, headHi nx W⟩ (fun a i j _ => a i j (W - 1)),
    bcast3D "x_back" f ⟨0, nz, 0, ny, tailLo nx W, nx⟩ (fun a i j _ => a i j (nx - W)),
    call_penalise_field_x_front_boundary_stencil_3d_w T w (dx := dx) (x_grid_field_start := c.x0) (field_ := f) (x_grid_field := xg)
      (r := ⟨0, nz, 0, ny, 0, headHi nx W⟩),
    call_penalise_field_x_back_boundary_stencil_3d_w T w (dx := dx) (x_grid_field_end := c.x1) (field_ := f) (x_grid_field := xg)
      (r := ⟨0, nz, 0, ny, tailLo nx W, nx⟩),
    bcast3D "y_front" f ⟨0, nz, 0, headHi ny W, 0, nx⟩ (fun a i _ k => a i (W - 1) k),
    bcast3D "y_back" f ⟨0, nz, tailLo ny W, ny, 0, nx⟩ (fun a i _ k => a i (ny - W) k),
    call_penalise_field_y_front_boundary_stencil_3d_w T w (dx := dx) (y_grid_field_start := c.y0) (field_ := f) (y_grid_field := yg)
      (r := ⟨0, nz, 0, headHi ny W, 0, nx⟩),
    call_penalise_field_y_back_boundary_stencil_3d_w T w (dx := dx) (y_grid_field_end := c.y1) (field_ := f) (y_grid_field := yg)
      (r := ⟨0, nz, tailLo ny W, ny, 0, nx⟩),
    bcast3D "z_front" f ⟨0, headHi nz W, 0, ny, 0, nx⟩ (fun a _ j k => a (W - 1) j k),
    bcast3D "z_back" f ⟨tailLo nz W, nz, 0, ny, 0, nx⟩ (fun a _ j k => a (nz - W) j k),
    call_penalise_field_z_front_boundary_stencil_3d_w T w (dx := dx) (z_grid_field_start := c.z0) (field_ := f) (z_grid_field := zg)
      (r := ⟨0, headHi nz W, 0, ny, 0, nx⟩),
    call_penalise_field_z_back_boundary_stencil_3d_w T w (dx := dx) (z_grid_field_end := c.z1) (field_ := f) (z_grid_field := zg)
      (r := ⟨tailLo nz W, nz, 0, ny, 0, nx⟩) ]

def penaliseBoundaryVec3D (T : Transc K) (w : ℕ) (nz ny nx : ℤ) (dx : K) (c : Corners3 K) (f : Vec3 B) (xg yg zg : B) :
    List (Call3 B K) :=
  penaliseBoundary3D T w nz ny nx dx c f.x xg yg zg ++ penaliseBoundary3D T w nz ny nx dx c f.y xg yg zg
    ++ penaliseBoundary3D T w nz ny nx dx c f.z xg yg zg

/-! ### unbounded Poisson solve glue (one scalar solve) -/

structure Poisson3Bufs (B : Type) where
  dbl : B
  fre : B
  fim : B
  gre : B
  gim : B
  cre : B
  cim : B

def poissonPre3D (nz ny nx : ℤ) (pb : Poisson3Bufs B) (rhs : B) : List (Call3 B K) :=
  setFixedVal3D (2 * nz) (2 * ny) (2 * nx) pb.dbl 0 ++ elementwiseCopy3D (full3 nz ny nx) pb.dbl rhs

def poissonMid3D (nz ny nx : ℤ) (pb : Poisson3Bufs B) : List (Call3 B K) :=
  [call_elementwise_complex_product_stencil_3d (product_field_real := pb.cre) (product_field_imag := pb.cim)
    (field_1_real := pb.fre) (field_1_imag := pb.fim) (field_2_real := pb.gre) (field_2_imag := pb.gim)
    (r := full3 (2 * nz) (2 * ny) (nx + 1))]

def poissonPost3D (nz ny nx : ℤ) (pb : Poisson3Bufs B) (sol : B) : List (Call3 B K) :=
  elementwiseCopy3D (full3 nz ny nx) sol pb.dbl

/-! ### the 3D Navier–Stokes step (up to the Poisson solve, and after it) -/

structure NS3Bufs (B : Type) where
  vort : Vec3 B
  vel : Vec3 B
  buf : Vec3 B        -- buffer_vector_field; buffer_scalar_field = buf.x; filter buffers buf.x / buf.y
  psi : Vec3 B
  force : Vec3 B
  xg : B
  yg : B
  zg : B

structure NS3Cfg (K : Type) where
  forcing : Bool
  freeStream : Bool
  filter : Bool
  filterConv : Bool
  filterOrder : ℕ
  width : ℕ
  nz : ℤ
  ny : ℤ
  nx : ℤ
  dt : K
  dx : K
  nu : K
  rho : K
  ux : K
  uy : K
  uz : K
  corners : Corners3 K

/-- forcing, rotational-form transport, diffusion, filter, damping: everything before the Poisson solve -/
def nsStep3DPre (T : Transc K) (c : NS3Cfg K) (b : NS3Bufs B) : List (Call3 B K) :=
  (if c.forcing then updateVorticityFromForcing3D c.nz c.ny c.nx b.vort b.force (c.dt / (2 * c.dx * c.rho)) else [])
  ++ crossProduct3D c.nz c.ny c.nx b.buf b.vel b.vort
  ++ updateVorticityFromForcing3D c.nz c.ny c.nx b.vort b.buf (c.dt / (2 * c.dx))
  ++ diffusionTimestepVec3D c.nz c.ny c.nx b.vort b.buf.x (c.nu * c.dt / c.dx / c.dx)
  ++ (if c.filter then filterVec3D c.filterConv c.filterOrder c.nz c.ny c.nx b.vort b.buf.x b.buf.y else [])
  ++ penaliseBoundaryVec3D T c.width c.nz c.ny c.nx c.dx c.corners b.vort b.xg b.yg b.zg

/-- velocity recovery, free stream, forcing reset: everything after the Poisson solve -/
def nsStep3DPost (c : NS3Cfg K) (b : NS3Bufs B) : List (Call3 B K) :=
  curl3D true c.nz c.ny c.nx b.vel b.psi ((1 / 2 : K) / c.dx)
  ++ (if c.freeStream then addFixedValVec3D c.nz c.ny c.nx b.vel b.vel c.ux c.uy c.uz else [])
  ++ (if c.forcing then setFixedValVec3D c.nz c.ny c.nx b.force 0 0 0 else [])

/-! ### passive transport -/

def passiveStep2D (ny nx : ℤ) (f flux : B) (vel : Vec2 B) (dt dx nu : K) : List (Call2 B K) :=
  advectionTimestep2D ny nx f flux vel (dt / dx) ++ diffusionTimestep2D ny nx f flux (nu * dt / dx / dx)

def passiveStep3D (nz ny nx : ℤ) (f flux : B) (vel : Vec3 B) (dt dx nu : K) : List (Call3 B K) :=
  advectionTimestep3D nz ny nx f flux vel (dt / dx) ++ diffusionTimestep3D nz ny nx f flux (nu * dt / dx / dx)

def passiveStepVec3D (nz ny nx : ℤ) (f : Vec3 B) (flux : B) (vel : Vec3 B) (dt dx nu : K) : List (Call3 B K) :=
  advectionTimestepVec3D nz ny nx f flux vel (dt / dx) ++ diffusionTimestepVec3D nz ny nx f flux (nu * dt / dx / dx)

end Sopht.Model
