/-
Model/Restart.lean — hand model of `sopht.utils.restart_sim.restart_simulation` as a function of the
checkpoint files present in the working directory.
  indices  : the integers parsed from the stems of the files matching `sopht_*.h5`
  loadTime : file name ↦ the time stamp `IO.load` returns for it (`none`: the load raises — file absent,
             or rejected by the C17 checks)
  bodyTime : what `ea.load_state` returns (PyElastica's own state files are external)
-/
import Mathlib.Data.List.Basic
import Mathlib.Order.Basic

namespace Sopht.Model

/-- `f"{n:04d}"` -/
def pad4 (n : ℕ) : String :=
  let s := toString n
  String.ofList (List.replicate (4 - s.length) '0') ++ s

inductive RestartResult (τ : Type)
  | noCheckpoint                 -- FileNotFoundError: nothing to load
  | loadFailed (file : String)   -- one of the three `load` calls raised
  | timeMismatch                 -- ValueError: flow and body times differ
  | ok (time : τ)
deriving DecidableEq, Repr

def restartSimulation {τ : Type} [DecidableEq τ] (indices : List ℕ) (loadTime : String → Option τ) (bodyTime : τ) :
    RestartResult τ :=
  match indices.max? with
  | none => .noCheckpoint
  | some latest =>
    match loadTime ("sopht_" ++ pad4 latest ++ ".h5") with
    | none => .loadFailed ("sopht_" ++ pad4 latest ++ ".h5")
    | some t =>
      match loadTime ("rod_" ++ pad4 latest ++ ".h5") with
      | none => .loadFailed ("rod_" ++ pad4 latest ++ ".h5")
      | some _ =>
        match loadTime ("forcing_grid_" ++ pad4 latest ++ ".h5") with
        | none => .loadFailed ("forcing_grid_" ++ pad4 latest ++ ".h5")
        | some _ => if t = bodyTime then .ok t else .timeMismatch

end Sopht.Model
