/-
Model/VBF.lean — hand model of the virtual-boundary feedback
(sopht/numeric/immersed_boundary_ops/VirtualBoundaryForcing.py and
sopht/simulator/immersed_body/immersed_body_flow_interaction.py) as a state machine.

Marker-space quantities live in a `K`-module `V` (all markers × components), Eulerian forcing fields in a
`K`-module `W`.  The environment (flow field, body pose) enters each evaluation only through
  `ui` — the flow velocity interpolated at the current marker positions (C06/C07 model),
  `vb` — the body velocity at the markers (C09 model),
  `S`  — the spreading map for the current marker positions (C07 model);
the interactor itself stores `(I, D, F, t)`: position-mismatch integral, last velocity mismatch, last
marker force, clock.  Several interactors (indexed by `ℕ`) share one Eulerian forcing field `E`.
`k`, `c` are the ALREADY SCALED coefficients `k·Δs_max^(d−1)`, `c·Δs_max^(d−1)` (see `scaledCoeff`).
-/
import Mathlib.Algebra.Module.Basic
import Mathlib.Algebra.Module.Pi
import Mathlib.Algebra.Order.Field.Basic

namespace Sopht.Model

variable {K V W : Type} [Field K] [AddCommGroup V] [Module K V] [AddCommGroup W] [Module K W]

/-- `coeff · Δs_max^(d−1)` as formed in `ImmersedBodyFlowInteraction.__init__` -/
def scaledCoeff (coeff ds : K) (d : ℕ) : K := coeff * ds ^ (d - 1)

structure VBFState (K V : Type) where
  I : V      -- lag_grid_position_mismatch_field
  D : V      -- lag_grid_velocity_mismatch_field
  F : V      -- lag_grid_forcing_field
  t : K      -- time

structure VBFParams (K : Type) where
  k : K
  c : K
  reset : Bool

/-- operations on a system of interactors sharing one Eulerian forcing field -/
inductive VBFOp (K V W : Type)
  /-- `compute_interaction_on_lag_grid` / `compute_flow_forces_and_torques` of body `b` -/
  | evalLag (b : ℕ) (ui vb : V)
  /-- `__call__` of body `b` (also spreads onto the Eulerian forcing field) -/
  | evalFull (b : ℕ) (ui vb : V) (S : V → W)
  /-- `time_step(dt)` of body `b` -/
  | timeStep (b : ℕ) (dt : K)

structure VBFSys (K V W : Type) where
  body : ℕ → VBFState K V
  E : W

def evalState (p : VBFParams K) (s : VBFState K V) (ui vb : V) : VBFState K V :=
  let D := ui - vb
  { s with D := D, F := p.k • s.I + p.c • D }

def VBFSys.step (params : ℕ → VBFParams K) (s : VBFSys K V W) : VBFOp K V W → VBFSys K V W
  | .evalLag b ui vb =>
      { s with body := Function.update s.body b (evalState (params b) (s.body b) ui vb) }
  | .evalFull b ui vb S =>
      let st := evalState (params b) (s.body b) ui vb
      { body := Function.update s.body b st,
        E := (if (params b).reset then 0 else s.E) + S st.F }
  | .timeStep b dt =>
      let st := s.body b
      { s with body := Function.update s.body b { st with I := st.I + dt • st.D, t := st.t + dt } }

def VBFSys.run (params : ℕ → VBFParams K) (s : VBFSys K V W) (ops : List (VBFOp K V W)) : VBFSys K V W :=
  ops.foldl (VBFSys.step params) s

end Sopht.Model
