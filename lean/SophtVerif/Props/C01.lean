/-
C01 — one flow time step realises the documented operator sequence.
2D Navier–Stokes (this file): the step program of Model/Prog2D (tied to the code by the exact trace +
numeric correspondence over all 28 configurations) is related to the operators of Spec/Ops2D.lean,
written independently as mathematics.  The Poisson solve is a parameter of the specification (decided by
C03); the program is therefore split at the two FFT plan calls.
  * `C01_pre_solve_2d`      vorticity handed to the solve = diffuse(advect(force(ω)))   (width 0; the
                            boundary-zone damping is composed in `C01_pre_solve_damped_2d` via C19)
  * `C01_post_solve_2d`     velocity = curl_h ψ (zero ring) + U∞,  forcing ≡ 0 on return
  * `C01_scratch_free_2d`   the result does not depend on the prior content of the scratch buffer
The clock (`time += dt`) and the 3D / passive-transport steps: correspondence + reference oracle (theorems in progress).
-/
import SophtVerif.Spec.Ops2D
import SophtVerif.Props.C20
import SophtVerif.Props.C13

set_option linter.unusedVariables false
set_option linter.unusedSectionVars false
set_option linter.unusedSimpArgs false
set_option linter.unusedTactic false
set_option linter.unreachableTactic false

namespace Sopht.Props.C01
open Sopht Sopht.Gen Sopht.Model Sopht.Spec

variable {B K : Type} [DecidableEq B] [Field K] [LinearOrder K] [IsStrictOrderedRing K]

/-! ### the generated ENO3 kernels realise the specification's face fluxes -/

theorem xf_eq_spec (c : K) (w v : F2 K) (i j : ℤ) : xfIncr c w v i j = c * enoFaceX w v i j := by
  simp only [xfIncr, zero2, enoFaceX, advection_flux_x_front_conservative_eno3_stencil_2d]
  split_ifs <;> first | ring1 | (exfalso; linarith)

theorem xb_eq_spec (c : K) (w v : F2 K) (i j : ℤ) : xbIncr c w v i j = - (c * enoFaceX w v i (j-1)) := by
  simp only [xbIncr, zero2, enoFaceX, advection_flux_x_back_conservative_eno3_stencil_2d]
  have e1 : j - 1 + 1 = j := by ring
  have e2 : j - 1 - 1 = j - 2 := by ring
  have e3 : j - 1 + 2 = j + 1 := by ring
  simp only [e1, e2, e3]
  split_ifs <;> first | ring1 | (exfalso; linarith)

theorem yf_eq_spec (c : K) (w v : F2 K) (i j : ℤ) : yfIncr c w v i j = c * enoFaceY w v i j := by
  simp only [yfIncr, zero2, enoFaceY, advection_flux_y_front_conservative_eno3_stencil_2d]
  split_ifs <;> first | ring1 | (exfalso; linarith)

theorem yb_eq_spec (c : K) (w v : F2 K) (i j : ℤ) : ybIncr c w v i j = - (c * enoFaceY w v (i-1) j) := by
  simp only [ybIncr, zero2, enoFaceY, advection_flux_y_back_conservative_eno3_stencil_2d]
  have e4 : i - 1 + 1 = i := by ring
  have e5 : i - 1 - 1 = i - 2 := by ring
  have e6 : i - 1 + 2 = i + 1 := by ring
  simp only [e4, e5, e6]
  split_ifs <;> first | ring1 | (exfalso; linarith)

theorem enoDiv_eq_spec (c : K) (w vx vy : F2 K) (i j : ℤ) :
    enoDiv (-c) w vx vy i j = - (c * enoDivergence w vx vy i j) := by
  simp only [enoDiv, xf_eq_spec, xb_eq_spec, yf_eq_spec, yb_eq_spec, enoDivergence]
  ring

/-! ### wrapper programs as operators on the box -/

theorem forcing_spec (ny nx : ℤ) (w : B) (F : Vec2 B) (hx : F.x ≠ w) (hy : F.y ≠ w) (p : K) (s : Store2 B K) :
    EqBox ny nx (exec2 (updateVorticityFromForcing2D ny nx w F p) s w) (forcingOp ny nx p (s F.x) (s F.y) (s w)) := by
  intro i j h1 h2 h3 h4
  prog_simp [updateVorticityFromForcing2D, call_update_vorticity_from_velocity_forcing_stencil_2d,
    update_vorticity_from_velocity_forcing_stencil_2d, forcingOp, curl2h, inner, hx, hy]
  split_ifs <;> first | rfl | ring1 | (exfalso; omega)

theorem advect_spec (ny nx : ℤ) (f flux : B) (vel : Vec2 B) (hne : flux ≠ f) (hvx : vel.x ≠ flux) (hvy : vel.y ≠ flux)
    (c : K) (s : Store2 B K) :
    EqBox ny nx (exec2 (advectionTimestep2D ny nx f flux vel c) s f) (advectOp ny nx c (s vel.x) (s vel.y) (s f)) := by
  intro i j h1 h2 h3 h4
  rw [C20.C20_euler_advection_2d_explicit ny nx f flux vel hne hvx hvy c s i j ⟨h1, h2⟩ ⟨h3, h4⟩]
  simp only [advectOp, inner, enoDiv_eq_spec]
  split_ifs <;> first | rfl | ring1 | (exfalso; omega)

theorem diffuse_spec (ny nx : ℤ) (hny : 1 ≤ ny) (hnx : 1 ≤ nx) (f flux : B) (hne : flux ≠ f) (r : K) (s : Store2 B K) :
    EqBox ny nx (exec2 (diffusionTimestep2D ny nx f flux r) s f) (diffuseOp ny nx r (s f)) := by
  intro i j h1 h2 h3 h4
  rw [C20.C20_euler_diffusion_2d_explicit ny nx hny hnx f flux hne r s i j ⟨h1, h2⟩ ⟨h3, h4⟩]
  simp only [diffuseOp, inner]

/-! ### the operators only read inside the box (congruence), so box-equalities compose -/

theorem advectOp_congr (ny nx : ℤ) (c : K) (vx vy w w' : F2 K) (h : EqBox ny nx w w') :
    EqBox ny nx (advectOp ny nx c vx vy w) (advectOp ny nx c vx vy w') := by
  intro i j h1 h2 h3 h4
  simp only [advectOp, inner]
  split_ifs with hin
  · obtain ⟨a1, a2, a3, a4⟩ := hin
    have q : ∀ di dj : ℤ, -2 ≤ di → di ≤ 2 → -2 ≤ dj → dj ≤ 2 → w (i + di) (j + dj) = w' (i + di) (j + dj) :=
      fun di dj b1 b2 b3 b4 => h _ _ (by omega) (by omega) (by omega) (by omega)
    have e00 := q 0 0 (by omega) (by omega) (by omega) (by omega)
    have e01 := q 0 1 (by omega) (by omega) (by omega) (by omega)
    have e02 := q 0 2 (by omega) (by omega) (by omega) (by omega)
    have e0m1 := q 0 (-1) (by omega) (by omega) (by omega) (by omega)
    have e0m2 := q 0 (-2) (by omega) (by omega) (by omega) (by omega)
    have e10 := q 1 0 (by omega) (by omega) (by omega) (by omega)
    have e20 := q 2 0 (by omega) (by omega) (by omega) (by omega)
    have em10 := q (-1) 0 (by omega) (by omega) (by omega) (by omega)
    have em20 := q (-2) 0 (by omega) (by omega) (by omega) (by omega)
    simp only [add_zero, Int.add_neg_eq_sub] at e00 e01 e02 e0m1 e0m2 e10 e20 em10 em20
    have s1 : j - 1 + 1 = j := by ring
    have s2 : j - 1 - 1 = j - 2 := by ring
    have s3 : j - 1 + 2 = j + 1 := by ring
    have s4 : i - 1 + 1 = i := by ring
    have s5 : i - 1 - 1 = i - 2 := by ring
    have s6 : i - 1 + 2 = i + 1 := by ring
    simp only [enoDivergence, enoFaceX, enoFaceY, s1, s2, s3, s4, s5, s6,
      e00, e01, e02, e0m1, e0m2, e10, e20, em10, em20]
  · exact h i j h1 h2 h3 h4

theorem diffuseOp_congr (ny nx : ℤ) (r : K) (w w' : F2 K) (h : EqBox ny nx w w') :
    EqBox ny nx (diffuseOp ny nx r w) (diffuseOp ny nx r w') := by
  intro i j h1 h2 h3 h4
  simp only [diffuseOp, inner]
  split_ifs with hin
  · obtain ⟨a1, a2, a3, a4⟩ := hin
    rw [h i j h1 h2 h3 h4, h (i+1) j (by omega) (by omega) h3 h4, h (i-1) j (by omega) (by omega) h3 h4,
      h i (j+1) h1 h2 (by omega) (by omega), h i (j-1) h1 h2 (by omega) (by omega)]
  · exact h i j h1 h2 h3 h4

theorem EqBox.trans' {ny nx : ℤ} {f g h : F2 K} (a : EqBox ny nx f g) (b : EqBox ny nx g h) : EqBox ny nx f h :=
  fun i j h1 h2 h3 h4 => (a i j h1 h2 h3 h4).trans (b i j h1 h2 h3 h4)

/-! ### the step -/

/-- distinctness of the buffers the 2D step uses (they are separate arrays in the simulator; the tracer
records the memory identity of every array passed) -/
structure Distinct2 (b : NS2Bufs B) : Prop where
  bs_vort : b.bs ≠ b.vort
  vx_bs : b.vel.x ≠ b.bs
  vy_bs : b.vel.y ≠ b.bs
  vx_vort : b.vel.x ≠ b.vort
  vy_vort : b.vel.y ≠ b.vort
  fx_vort : b.force.x ≠ b.vort
  fy_vort : b.force.y ≠ b.vort
  fx_bs : b.force.x ≠ b.bs
  fy_bs : b.force.y ≠ b.bs

/-- the part of the step before the Poisson solve, boundary-zone width 0:
`ω ↦ diffuse(advect(force(ω)))` with the prefactors the code forms (`dt/(2 dx ρ)`, `dt/dx`, `ν dt/dx²`),
for every store, every grid size, forcing on or off -/
theorem C01_pre_solve_2d (T : Transc K) (c : NS2Cfg K) (hw : c.width = 0) (hny : 1 ≤ c.ny) (hnx : 1 ≤ c.nx)
    (b : NS2Bufs B) (hd : Distinct2 b) (s : Store2 B K) :
    let prog := (if c.forcing then updateVorticityFromForcing2D c.ny c.nx b.vort b.force (c.dt / (2 * c.dx * c.rho)) else [])
      ++ advectionTimestep2D c.ny c.nx b.vort b.bs b.vel (c.dt / c.dx)
      ++ diffusionTimestep2D c.ny c.nx b.vort b.bs (c.nu * c.dt / c.dx / c.dx)
    let w1 := if c.forcing then forcingOp c.ny c.nx (c.dt / (2 * c.dx * c.rho)) (s b.force.x) (s b.force.y) (s b.vort) else s b.vort
    EqBox c.ny c.nx (exec2 prog s b.vort)
      (diffuseOp c.ny c.nx (c.nu * c.dt / c.dx / c.dx) (advectOp c.ny c.nx (c.dt / c.dx) (s b.vel.x) (s b.vel.y) w1)) := by
  intro prog w1
  simp only [prog]
  rw [exec2_append, exec2_append]
  set s1 := exec2 (if c.forcing then updateVorticityFromForcing2D c.ny c.nx b.vort b.force (c.dt / (2 * c.dx * c.rho)) else []) s with hs1
  set s2 := exec2 (advectionTimestep2D c.ny c.nx b.vort b.bs b.vel (c.dt / c.dx)) s1 with hs2
  -- stage 3
  refine EqBox.trans' (diffuse_spec c.ny c.nx hny hnx b.vort b.bs hd.bs_vort _ s2) ?_
  apply diffuseOp_congr
  -- stage 2
  refine EqBox.trans' (advect_spec c.ny c.nx b.vort b.bs b.vel hd.bs_vort hd.vx_bs hd.vy_bs _ s1) ?_
  -- velocity untouched by stage 1
  have hvx : s1 b.vel.x = s b.vel.x := by
    rw [hs1]; split_ifs
    · apply exec2_other
      simp [written2, Call2.written, updateVorticityFromForcing2D,
        call_update_vorticity_from_velocity_forcing_stencil_2d, hd.vx_vort]
    · rfl
  have hvy : s1 b.vel.y = s b.vel.y := by
    rw [hs1]; split_ifs
    · apply exec2_other
      simp [written2, Call2.written, updateVorticityFromForcing2D,
        call_update_vorticity_from_velocity_forcing_stencil_2d, hd.vy_vort]
    · rfl
  rw [hvx, hvy]
  apply advectOp_congr
  -- stage 1
  rw [hs1]
  simp only [w1]
  split_ifs
  · exact forcing_spec c.ny c.nx b.vort b.force hd.fx_vort hd.fy_vort _ s
  · intro i j _ _ _ _; rfl

/-- after the Poisson solve: velocity = `(1/(2dx))·curl_h ψ` with zero boundary ring, plus the free stream
when enabled; the body-forcing field is identically zero on return when forcing is enabled.
(`psi` is the stream function the solve produced.) -/
theorem C01_post_solve_2d (c : NS2Cfg K) (hny : 1 ≤ c.ny) (hnx : 1 ≤ c.nx) (b : NS2Bufs B)
    (hxy : b.vel.x ≠ b.vel.y) (hpx : b.psi ≠ b.vel.x) (hpy : b.psi ≠ b.vel.y)
    (hfx : b.force.x ≠ b.vel.x) (hfy : b.force.y ≠ b.vel.x) (hfx' : b.force.x ≠ b.vel.y) (hfy' : b.force.y ≠ b.vel.y)
    (hff : b.force.x ≠ b.force.y) (s : Store2 B K) :
    let prog := outplaneCurl2D true c.ny c.nx b.vel b.psi ((1 / 2 : K) / c.dx)
      ++ (if c.freeStream then addFixedValVec2D c.ny c.nx b.vel b.vel c.ux c.uy else [])
      ++ (if c.forcing then setFixedValVec2D c.ny c.nx b.force 0 0 else [])
    EqBox c.ny c.nx (exec2 prog s b.vel.x)
      (velocityX c.ny c.nx ((1 / 2 : K) / c.dx) (if c.freeStream then c.ux else 0) (s b.psi)) ∧
    EqBox c.ny c.nx (exec2 prog s b.vel.y)
      (velocityY c.ny c.nx ((1 / 2 : K) / c.dx) (if c.freeStream then c.uy else 0) (s b.psi)) ∧
    (c.forcing = true → EqBox c.ny c.nx (exec2 prog s b.force.x) (fun _ _ => 0) ∧
                        EqBox c.ny c.nx (exec2 prog s b.force.y) (fun _ _ => 0)) := by
  intro prog
  have g1 : b.vel.x ≠ b.force.x := fun h => hfx h.symm
  have g2 : b.vel.x ≠ b.force.y := fun h => hfy h.symm
  have g3 : b.vel.y ≠ b.force.x := fun h => hfx' h.symm
  have g4 : b.vel.y ≠ b.force.y := fun h => hfy' h.symm
  -- stage A: curl with ghost-zone reset
  set sA := exec2 (outplaneCurl2D true c.ny c.nx b.vel b.psi ((1 / 2 : K) / c.dx)) s with hsA
  have hA := (C13.C13_outplane_curl_2d true c.ny c.nx hny hnx b.vel b.psi hxy hpx hpy ((1 / 2 : K) / c.dx) s).1
  -- stage B: free stream
  set pB := (if c.freeStream then addFixedValVec2D c.ny c.nx b.vel b.vel c.ux c.uy else ([] : List (Call2 B K))) with hpB
  set sB := exec2 pB sA with hsB
  have hBx : EqBox c.ny c.nx (sB b.vel.x) (fun i j => sA b.vel.x i j + (if c.freeStream then c.ux else 0)) := by
    intro i j h1 h2 h3 h4
    rw [hsB, hpB]
    cases hfs : c.freeStream
    · simp
    · simp only [if_true]
      exact ((C13.C13_add_fixed_val_vec_2d c.ny c.nx b.vel b.vel hxy hxy c.ux c.uy sA).1 i j h1 h2 h3 h4).1
  have hBy : EqBox c.ny c.nx (sB b.vel.y) (fun i j => sA b.vel.y i j + (if c.freeStream then c.uy else 0)) := by
    intro i j h1 h2 h3 h4
    rw [hsB, hpB]
    cases hfs : c.freeStream
    · simp
    · simp only [if_true]
      exact ((C13.C13_add_fixed_val_vec_2d c.ny c.nx b.vel b.vel hxy hxy c.ux c.uy sA).1 i j h1 h2 h3 h4).2
  -- stage C: forcing reset leaves the velocity alone
  set pC := (if c.forcing then setFixedValVec2D c.ny c.nx b.force 0 0 else ([] : List (Call2 B K))) with hpC
  have hCx : exec2 pC sB b.vel.x = sB b.vel.x := by
    rw [hpC]; split_ifs
    · exact (C13.C13_set_fixed_val_vec_2d c.ny c.nx b.force hff 0 0 sB).2 _ g1 g2
    · rfl
  have hCy : exec2 pC sB b.vel.y = sB b.vel.y := by
    rw [hpC]; split_ifs
    · exact (C13.C13_set_fixed_val_vec_2d c.ny c.nx b.force hff 0 0 sB).2 _ g3 g4
    · rfl
  have hprog : ∀ x, exec2 prog s x = exec2 pC sB x := by
    intro x; simp only [prog, exec2_append, hsA, hsB, hpB, hpC]
  refine ⟨?_, ?_, ?_⟩
  · intro i j h1 h2 h3 h4
    rw [hprog, hCx, hBx i j h1 h2 h3 h4]
    beta_reduce
    rw [hsA, (hA i j h1 h2 h3 h4).1]
    simp only [velocityX, inner, C13.onRing, if_true]
    split_ifs <;> first | rfl | ring1 | (exfalso; omega)
  · intro i j h1 h2 h3 h4
    rw [hprog, hCy, hBy i j h1 h2 h3 h4]
    beta_reduce
    rw [hsA, (hA i j h1 h2 h3 h4).2]
    simp only [velocityY, inner, C13.onRing, if_true]
    split_ifs <;> first | rfl | ring1 | (exfalso; omega)
  · intro hfo
    have hC := (C13.C13_set_fixed_val_vec_2d c.ny c.nx b.force hff 0 0 sB).1
    constructor <;>
    · intro i j h1 h2 h3 h4
      rw [hprog, hpC, hfo]
      simp only [if_true]
      first | exact (hC i j h1 h2 h3 h4).1 | exact (hC i j h1 h2 h3 h4).2

/-- no hidden state: the vorticity handed to the solve does not depend on what the scratch buffer held -/
theorem C01_scratch_free_2d (T : Transc K) (c : NS2Cfg K) (hw : c.width = 0) (hny : 1 ≤ c.ny) (hnx : 1 ≤ c.nx)
    (b : NS2Bufs B) (hd : Distinct2 b) (s s' : Store2 B K) (hsame : ∀ x, x ≠ b.bs → s x = s' x) :
    let prog := (if c.forcing then updateVorticityFromForcing2D c.ny c.nx b.vort b.force (c.dt / (2 * c.dx * c.rho)) else [])
      ++ advectionTimestep2D c.ny c.nx b.vort b.bs b.vel (c.dt / c.dx)
      ++ diffusionTimestep2D c.ny c.nx b.vort b.bs (c.nu * c.dt / c.dx / c.dx)
    EqBox c.ny c.nx (exec2 prog s b.vort) (exec2 prog s' b.vort) := by
  intro prog
  have h1 := C01_pre_solve_2d T c hw hny hnx b hd s
  have h2 := C01_pre_solve_2d T c hw hny hnx b hd s'
  simp only at h1 h2
  have ev : s b.vort = s' b.vort := hsame _ (fun h => hd.bs_vort h.symm)
  have evx : s b.vel.x = s' b.vel.x := hsame _ hd.vx_bs
  have evy : s b.vel.y = s' b.vel.y := hsame _ hd.vy_bs
  have efx : s b.force.x = s' b.force.x := hsame _ hd.fx_bs
  have efy : s b.force.y = s' b.force.y := hsame _ hd.fy_bs
  rw [ev, evx, evy, efx, efy] at h1
  intro i j a1 a2 a3 a4
  rw [h1 i j a1 a2 a3 a4, h2 i j a1 a2 a3 a4]

end Sopht.Props.C01
