/-
C01 (3D) — the 3D Navier–Stokes step PROGRAM (Model/Prog3D.nsStep3DPre/Post, tied to the simulator by the exact
trace + numeric correspondence over all 360 configurations) realises the documented operator sequence of
Spec/Ops3D.lean: forcing → rotational-form transport `ω += dt/(2h)·(2h curl (u × ω))` → diffusion, then after the
Poisson solve velocity = curl_h ψ/(2h) (zero ring) + free stream, forcing ≡ 0.  Filter off and boundary-zone width
0 in this theorem (the filter is C19_filter_*, the damping C19_damping_*).
-/
import SophtVerif.Spec.Ops3D
import SophtVerif.Props.C01
import SophtVerif.Props.C20_3D

set_option linter.unusedVariables false
set_option linter.unusedSectionVars false
set_option linter.unusedSimpArgs false
set_option linter.unusedTactic false
set_option linter.unreachableTactic false

namespace Sopht.Props.C01
open Sopht Sopht.Gen Sopht.Model Sopht.Spec Sopht.Props.C13

variable {B K : Type} [DecidableEq B] [Field K] [LinearOrder K] [IsStrictOrderedRing K]

/-- the three component fields of a vector buffer in a store -/
def vecOf (s : Store3 B K) (v : Vec3 B) : V3F K := ⟨s v.x, s v.y, s v.z⟩

/-- component-wise agreement on the box -/
def EqV (nz ny nx : ℤ) (a b : V3F K) : Prop := EqB nz ny nx a.x b.x ∧ EqB nz ny nx a.y b.y ∧ EqB nz ny nx a.z b.z

theorem EqV.trans' {nz ny nx : ℤ} {a b c : V3F K} (h1 : EqV nz ny nx a b) (h2 : EqV nz ny nx b c) : EqV nz ny nx a c :=
  ⟨fun i j k h => (h1.1 i j k h).trans (h2.1 i j k h), fun i j k h => (h1.2.1 i j k h).trans (h2.2.1 i j k h),
   fun i j k h => (h1.2.2 i j k h).trans (h2.2.2 i j k h)⟩

theorem EqV.refl' (nz ny nx : ℤ) (a : V3F K) : EqV nz ny nx a a := ⟨fun _ _ _ _ => rfl, fun _ _ _ _ => rfl, fun _ _ _ _ => rfl⟩

/-! ### locality (congruence) of the specification operators -/

theorem forcingOp3_congr (nz ny nx : ℤ) (p : K) (F F' w w' : V3F K) (hF : EqV nz ny nx F F') (hw : EqV nz ny nx w w') :
    EqV nz ny nx (forcingOp3 nz ny nx p F w) (forcingOp3 nz ny nx p F' w') := by
  obtain ⟨fx, fy, fz⟩ := hF
  obtain ⟨wx, wy, wz⟩ := hw
  refine ⟨?_, ?_, ?_⟩ <;> intro i j k hb <;> simp only [forcingOp3, addInner, curl3h, innerB, inB] at hb ⊢
  · rw [wx i j k hb]
    split_ifs with hin
    · rw [fz i (j+1) k (by simp only [inB]; omega), fz i (j-1) k (by simp only [inB]; omega),
        fy (i+1) j k (by simp only [inB]; omega), fy (i-1) j k (by simp only [inB]; omega)]
    · rfl
  · rw [wy i j k hb]
    split_ifs with hin
    · rw [fx (i+1) j k (by simp only [inB]; omega), fx (i-1) j k (by simp only [inB]; omega),
        fz i j (k+1) (by simp only [inB]; omega), fz i j (k-1) (by simp only [inB]; omega)]
    · rfl
  · rw [wz i j k hb]
    split_ifs with hin
    · rw [fy i j (k+1) (by simp only [inB]; omega), fy i j (k-1) (by simp only [inB]; omega),
        fx i (j+1) k (by simp only [inB]; omega), fx i (j-1) k (by simp only [inB]; omega)]
    · rfl

theorem cross3_congr (nz ny nx : ℤ) (a a' b b' : V3F K) (ha : EqV nz ny nx a a') (hb : EqV nz ny nx b b') :
    EqV nz ny nx (cross3 a b) (cross3 a' b') := by
  obtain ⟨ax, ay, az⟩ := ha
  obtain ⟨bx, byy, bz⟩ := hb
  refine ⟨?_, ?_, ?_⟩ <;> intro i j k h <;> simp only [cross3]
  · rw [ay i j k h, az i j k h, byy i j k h, bz i j k h]
  · rw [ax i j k h, az i j k h, bx i j k h, bz i j k h]
  · rw [ax i j k h, ay i j k h, bx i j k h, byy i j k h]

theorem diffuse1_congr (nz ny nx : ℤ) (r : K) (f f' : F3 K) (h : EqB nz ny nx f f') :
    EqB nz ny nx (diffuse1 nz ny nx r f) (diffuse1 nz ny nx r f') := by
  intro i j k hb
  simp only [diffuse1, innerB, inB] at hb ⊢
  rw [h i j k hb]
  split_ifs with hin
  · rw [h (i+1) j k (by simp only [inB]; omega), h (i-1) j k (by simp only [inB]; omega), h i (j+1) k (by simp only [inB]; omega),
      h i (j-1) k (by simp only [inB]; omega), h i j (k+1) (by simp only [inB]; omega), h i j (k-1) (by simp only [inB]; omega)]
  · rfl

theorem diffuseOp3_congr (nz ny nx : ℤ) (r : K) (w w' : V3F K) (h : EqV nz ny nx w w') :
    EqV nz ny nx (diffuseOp3 nz ny nx r w) (diffuseOp3 nz ny nx r w') :=
  ⟨diffuse1_congr nz ny nx r _ _ h.1, diffuse1_congr nz ny nx r _ _ h.2.1, diffuse1_congr nz ny nx r _ _ h.2.2⟩

/-! ### the wrapper programs realise the specification operators -/

theorem forcing_spec3 (nz ny nx : ℤ) (w F : Vec3 B) (hd : Distinct33 w F) (p : K) (s : Store3 B K) :
    EqV nz ny nx (vecOf (exec3 (updateVorticityFromForcing3D nz ny nx w F p) s) w)
      (forcingOp3 nz ny nx p (vecOf s F) (vecOf s w)) := by
  obtain ⟨h, _⟩ := C13_update_vorticity_from_forcing_3d nz ny nx w F hd p s
  refine ⟨?_, ?_, ?_⟩ <;> intro i j k hb
  · exact (h i j k hb).1
  · exact (h i j k hb).2.1
  · exact (h i j k hb).2.2

theorem cross_spec3 (nz ny nx : ℤ) (o a b : Vec3 B) (hoa : Distinct33 o a) (hob : Distinct33 o b) (s : Store3 B K) :
    EqV nz ny nx (vecOf (exec3 (crossProduct3D nz ny nx o a b) s) o) (cross3 (vecOf s a) (vecOf s b)) := by
  obtain ⟨h, _⟩ := C13_cross_product_3d nz ny nx o a b hoa hob s
  refine ⟨?_, ?_, ?_⟩ <;> intro i j k hb
  · exact (h i j k hb).1
  · exact (h i j k hb).2.1
  · exact (h i j k hb).2.2

theorem diffusionTimestep3D_frame (nz ny nx : ℤ) (f flux : B) (r : K) (s : Store3 B K) (b : B) (h1 : b ≠ f) (h2 : b ≠ flux) :
    exec3 (diffusionTimestep3D nz ny nx f flux r) s b = s b := by
  apply exec3_other
  simp [written3, Call3.written, diffusionTimestep3D, diffusionFlux3D, setBoundary3D, boundarySlabs3D, elementwiseSum3D,
    call_diffusion_stencil_3d, call_set_fixed_val_stencil_3d, call_elementwise_sum_stencil_3d, h1, h2]

theorem diffuse1_spec3 (nz ny nx : ℤ) (hnz : 1 ≤ nz) (hny : 1 ≤ ny) (hnx : 1 ≤ nx) (f flux : B) (hne : flux ≠ f) (r : K) (s : Store3 B K) :
    EqB nz ny nx (exec3 (diffusionTimestep3D nz ny nx f flux r) s f) (diffuse1 nz ny nx r (s f)) := by
  intro i j k hb
  rw [C20.C20_euler_diffusion_3d nz ny nx hnz hny hnx f flux hne r s i j k hb]
  rfl

/-- vector diffusion step with ONE shared scalar flux buffer: each component is diffused, the others are not disturbed -/
theorem diffuse_spec3 (nz ny nx : ℤ) (hnz : 1 ≤ nz) (hny : 1 ≤ ny) (hnx : 1 ≤ nx) (f : Vec3 B) (flux : B)
    (hxy : f.x ≠ f.y) (hxz : f.x ≠ f.z) (hyz : f.y ≠ f.z) (hfx : flux ≠ f.x) (hfy : flux ≠ f.y) (hfz : flux ≠ f.z)
    (r : K) (s : Store3 B K) :
    EqV nz ny nx (vecOf (exec3 (diffusionTimestepVec3D nz ny nx f flux r) s) f) (diffuseOp3 nz ny nx r (vecOf s f)) := by
  have hsplit : diffusionTimestepVec3D nz ny nx f flux r
      = diffusionTimestep3D nz ny nx f.x flux r ++ diffusionTimestep3D nz ny nx f.y flux r ++ diffusionTimestep3D nz ny nx f.z flux r := rfl
  rw [hsplit]
  simp only [exec3_append, vecOf]
  set s1 := exec3 (diffusionTimestep3D nz ny nx f.x flux r) s with hs1
  set s2 := exec3 (diffusionTimestep3D nz ny nx f.y flux r) s1 with hs2
  have fr1 := fun b h1 h2 => diffusionTimestep3D_frame nz ny nx f.x flux r s b h1 h2
  have fr2 := fun b h1 h2 => diffusionTimestep3D_frame nz ny nx f.y flux r s1 b h1 h2
  have fr3 := fun b h1 h2 => diffusionTimestep3D_frame nz ny nx f.z flux r s2 b h1 h2
  refine ⟨?_, ?_, ?_⟩
  · -- x: written in stage 1, kept by stages 2, 3
    intro i j k hb
    show exec3 (diffusionTimestep3D nz ny nx f.z flux r) s2 f.x i j k = diffuse1 nz ny nx r (s f.x) i j k
    rw [fr3 f.x hxz hfx.symm, hs2, fr2 f.x hxy hfx.symm]
    exact diffuse1_spec3 nz ny nx hnz hny hnx f.x flux hfx r s i j k hb
  · intro i j k hb
    show exec3 (diffusionTimestep3D nz ny nx f.z flux r) s2 f.y i j k = diffuse1 nz ny nx r (s f.y) i j k
    rw [fr3 f.y hyz hfy.symm]
    have := diffuse1_spec3 nz ny nx hnz hny hnx f.y flux hfy r s1 i j k hb
    rw [← hs2] at this
    rw [this, hs1, fr1 f.y hxy.symm hfy.symm]
  · intro i j k hb
    show exec3 (diffusionTimestep3D nz ny nx f.z flux r) s2 f.z i j k = diffuse1 nz ny nx r (s f.z) i j k
    have := diffuse1_spec3 nz ny nx hnz hny hnx f.z flux hfz r s2 i j k hb
    rw [this, hs2, fr2 f.z hyz.symm hfz.symm, hs1, fr1 f.z hxz.symm hfz.symm]

/-! ### the step -/

/-- distinctness of the buffers the 3D step uses (separate arrays in the simulator; recorded by the tracer) -/
structure Distinct3 (b : NS3Bufs B) : Prop where
  wF : Distinct33 b.vort b.force
  wb : Distinct33 b.vort b.buf
  bw : Distinct33 b.buf b.vort
  bv : Distinct33 b.buf b.vel
  wv : Distinct33 b.vort b.vel

theorem vecOf_frame (s t : Store3 B K) (v : Vec3 B) (hx : t v.x = s v.x) (hy : t v.y = s v.y) (hz : t v.z = s v.z) :
    vecOf t v = vecOf s v := by simp [vecOf, hx, hy, hz]

/-- forcing, rotational-form transport and diffusion: the part of the pre-solve program before filter and damping -/
def core3 (c : NS3Cfg K) (b : NS3Bufs B) : List (Call3 B K) :=
  (if c.forcing then updateVorticityFromForcing3D c.nz c.ny c.nx b.vort b.force (c.dt / (2 * c.dx * c.rho)) else [])
    ++ crossProduct3D c.nz c.ny c.nx b.buf b.vel b.vort
    ++ updateVorticityFromForcing3D c.nz c.ny c.nx b.vort b.buf (c.dt / (2 * c.dx))
    ++ diffusionTimestepVec3D c.nz c.ny c.nx b.vort b.buf.x (c.nu * c.dt / c.dx / c.dx)

/-- specification of the vorticity after `core3` -/
def coreSpec3 (c : NS3Cfg K) (F u w : V3F K) : V3F K :=
  diffuseOp3 c.nz c.ny c.nx (c.nu * c.dt / c.dx / c.dx) (rotationalOp3 c.nz c.ny c.nx (c.dt / (2 * c.dx)) u
    (if c.forcing then forcingOp3 c.nz c.ny c.nx (c.dt / (2 * c.dx * c.rho)) F w else w))

theorem core3_spec (c : NS3Cfg K) (hnz : 1 ≤ c.nz) (hny : 1 ≤ c.ny) (hnx : 1 ≤ c.nx) (b : NS3Bufs B) (hd : Distinct3 b) (s : Store3 B K) :
    EqV c.nz c.ny c.nx (vecOf (exec3 (core3 c b) s) b.vort) (coreSpec3 c (vecOf s b.force) (vecOf s b.vel) (vecOf s b.vort)) := by
  obtain ⟨wF, wb, bw, bv, wv⟩ := hd
  unfold core3 coreSpec3
  simp only [exec3_append]
  set w1 := (if c.forcing then forcingOp3 c.nz c.ny c.nx (c.dt / (2 * c.dx * c.rho)) (vecOf s b.force) (vecOf s b.vort) else vecOf s b.vort) with hw1
  set s1 := exec3 (if c.forcing then updateVorticityFromForcing3D c.nz c.ny c.nx b.vort b.force (c.dt / (2 * c.dx * c.rho)) else []) s with hs1
  set s2 := exec3 (crossProduct3D c.nz c.ny c.nx b.buf b.vel b.vort) s1 with hs2
  set s3 := exec3 (updateVorticityFromForcing3D c.nz c.ny c.nx b.vort b.buf (c.dt / (2 * c.dx))) s2 with hs3
  -- stage 1
  have h1 : EqV c.nz c.ny c.nx (vecOf s1 b.vort) w1 := by
    rw [hs1, hw1]
    cases c.forcing
    · simp only [Bool.false_eq_true, if_false, exec3_nil]; exact EqV.refl' _ _ _ _
    · simp only [if_true]; exact forcing_spec3 c.nz c.ny c.nx b.vort b.force wF _ s
  have h1vel : vecOf s1 b.vel = vecOf s b.vel := by
    rw [hs1]
    cases c.forcing
    · simp
    · simp only [if_true]
      have fr := (C13_update_vorticity_from_forcing_3d c.nz c.ny c.nx b.vort b.force wF (c.dt / (2 * c.dx * c.rho)) s).2
      exact vecOf_frame _ _ _ (fr _ wv.xx.symm wv.yx.symm wv.zx.symm) (fr _ wv.xy.symm wv.yy.symm wv.zy.symm) (fr _ wv.xz.symm wv.yz.symm wv.zz.symm)
  -- stage 2
  have h2 : EqV c.nz c.ny c.nx (vecOf s2 b.buf) (cross3 (vecOf s1 b.vel) (vecOf s1 b.vort)) :=
    cross_spec3 c.nz c.ny c.nx b.buf b.vel b.vort bv bw s1
  have h2vort : vecOf s2 b.vort = vecOf s1 b.vort := by
    have fr := (C13_cross_product_3d c.nz c.ny c.nx b.buf b.vel b.vort bv bw s1).2
    exact vecOf_frame _ _ _ (fr _ wb.xx wb.xy wb.xz) (fr _ wb.yx wb.yy wb.yz) (fr _ wb.zx wb.zy wb.zz)
  -- stage 3
  have h3 : EqV c.nz c.ny c.nx (vecOf s3 b.vort) (forcingOp3 c.nz c.ny c.nx (c.dt / (2 * c.dx)) (vecOf s2 b.buf) (vecOf s2 b.vort)) :=
    forcing_spec3 c.nz c.ny c.nx b.vort b.buf wb _ s2
  -- stage 4
  have h4 := diffuse_spec3 c.nz c.ny c.nx hnz hny hnx b.vort b.buf.x wv.axy wv.axz wv.ayz wb.xx.symm wb.yx.symm wb.zx.symm
    (c.nu * c.dt / c.dx / c.dx) s3
  refine h4.trans' (diffuseOp3_congr _ _ _ _ _ _ (h3.trans' ?_))
  unfold rotationalOp3
  rw [h2vort]
  refine forcingOp3_congr _ _ _ _ _ _ _ _ (h2.trans' (cross3_congr _ _ _ _ _ _ _ ?_ h1)) h1
  rw [h1vel]; exact EqV.refl' _ _ _ _

/-- the pre-solve part of the 3D Navier–Stokes step (filter off, boundary-zone width 0):
`ω ↦ diffuse(rotational(force(ω)))` with the prefactors the code forms (`dt/(2 dx ρ)`, `dt/(2 dx)`, `ν dt/dx²`), for every
store, every grid size ≥ 1, forcing on or off -/
theorem C01_pre_solve_3d (T : Transc K) (c : NS3Cfg K) (hw : c.width = 0) (hf : c.filter = false)
    (hnz : 1 ≤ c.nz) (hny : 1 ≤ c.ny) (hnx : 1 ≤ c.nx) (b : NS3Bufs B) (hd : Distinct3 b) (s : Store3 B K) :
    EqV c.nz c.ny c.nx (vecOf (exec3 (nsStep3DPre T c b) s) b.vort)
      (coreSpec3 c (vecOf s b.force) (vecOf s b.vel) (vecOf s b.vort)) := by
  have hprog : nsStep3DPre T c b = core3 c b := by
    simp [nsStep3DPre, core3, hf, hw, penaliseBoundaryVec3D, penaliseBoundary3D]
  rw [hprog]
  exact core3_spec c hnz hny hnx b hd s

/-- after the Poisson solve (3D): velocity = `(1/(2dx))·curl_h ψ` with zero boundary ring, plus the free stream when
enabled; the body-forcing field is identically zero on return when forcing is enabled -/
theorem C01_post_solve_3d (c : NS3Cfg K) (hnz : 1 ≤ c.nz) (hny : 1 ≤ c.ny) (hnx : 1 ≤ c.nx) (b : NS3Bufs B)
    (hvp : Distinct33 b.vel b.psi) (hFv : Distinct33 b.force b.vel) (s : Store3 B K) :
    EqV c.nz c.ny c.nx (vecOf (exec3 (nsStep3DPost c b) s) b.vel)
      (velocity3 c.nz c.ny c.nx ((1 / 2 : K) / c.dx) (if c.freeStream then c.ux else 0) (if c.freeStream then c.uy else 0)
        (if c.freeStream then c.uz else 0) (vecOf s b.psi)) ∧
    (c.forcing = true → ∀ i j k, inBox3 c.nz c.ny c.nx i j k →
      exec3 (nsStep3DPost c b) s b.force.x i j k = 0 ∧ exec3 (nsStep3DPost c b) s b.force.y i j k = 0 ∧
      exec3 (nsStep3DPost c b) s b.force.z i j k = 0) := by
  unfold nsStep3DPost
  simp only [exec3_append]
  set sA := exec3 (curl3D true c.nz c.ny c.nx b.vel b.psi ((1 / 2 : K) / c.dx)) s with hsA
  set pB := (if c.freeStream then addFixedValVec3D c.nz c.ny c.nx b.vel b.vel c.ux c.uy c.uz else ([] : List (Call3 B K))) with hpB
  set sB := exec3 pB sA with hsB
  set pC := (if c.forcing then setFixedValVec3D c.nz c.ny c.nx b.force 0 0 0 else ([] : List (Call3 B K))) with hpC
  obtain ⟨hA, _⟩ := C13_curl_3d true c.nz c.ny c.nx hnz hny hnx b.vel b.psi hvp ((1 / 2 : K) / c.dx) s
  -- stage B on the velocity
  have hB : ∀ i j k, inBox3 c.nz c.ny c.nx i j k →
      sB b.vel.x i j k = sA b.vel.x i j k + (if c.freeStream then c.ux else 0) ∧
      sB b.vel.y i j k = sA b.vel.y i j k + (if c.freeStream then c.uy else 0) ∧
      sB b.vel.z i j k = sA b.vel.z i j k + (if c.freeStream then c.uz else 0) := by
    intro i j k hb
    rw [hsB, hpB]
    cases c.freeStream
    · simp
    · simp only [if_true]
      exact (C13_add_fixed_val_vec_inplace_3d c.nz c.ny c.nx b.vel hvp.axy hvp.axz hvp.ayz c.ux c.uy c.uz sA).1 i j k hb
  -- stage C keeps the velocity
  have hC : ∀ x, x ≠ b.force.x → x ≠ b.force.y → x ≠ b.force.z → exec3 pC sB x = sB x := by
    intro x h1 h2 h3
    rw [hpC]
    cases c.forcing
    · simp
    · simp only [if_true]
      exact (C13_set_fixed_val_vec_3d c.nz c.ny c.nx b.force hFv.axy hFv.axz hFv.ayz 0 0 0 sB).2 x h1 h2 h3
  refine ⟨⟨?_, ?_, ?_⟩, ?_⟩
  · intro i j k hb
    show exec3 pC sB b.vel.x i j k = _
    rw [hC _ hFv.xx.symm hFv.yx.symm hFv.zx.symm, (hB i j k hb).1, hsA, (hA i j k hb).1]
    simp only [velocity3, curl3h, vecOf, inner3, innerB, if_true]
  · intro i j k hb
    show exec3 pC sB b.vel.y i j k = _
    rw [hC _ hFv.xy.symm hFv.yy.symm hFv.zy.symm, (hB i j k hb).2.1, hsA, (hA i j k hb).2.1]
    simp only [velocity3, curl3h, vecOf, inner3, innerB, if_true]
  · intro i j k hb
    show exec3 pC sB b.vel.z i j k = _
    rw [hC _ hFv.xz.symm hFv.yz.symm hFv.zz.symm, (hB i j k hb).2.2, hsA, (hA i j k hb).2.2]
    simp only [velocity3, curl3h, vecOf, inner3, innerB, if_true]
  · intro hfo i j k hb
    rw [hpC, hfo]
    simp only [if_true]
    exact (C13_set_fixed_val_vec_3d c.nz c.ny c.nx b.force hFv.axy hFv.axz hFv.ayz 0 0 0 sB).1 i j k hb

/-! ### passive transport (3D scalar) -/

/-- Euler-forward ENO3 advection of a scalar as an operator: on the interior of reach 2 the six face increments for
`−c` (`c = dt/dx`) are added (the increments are the generated kernels' own, proved conservative / consistent in C04 / C05) -/
def advect3 (nz ny nx : ℤ) (c : K) (ux uy uz f : F3 K) : F3 K :=
  fun i j k => if innerB nz ny nx 2 i j k then f i j k + enoDiv3 (-c) f ux uy uz i j k else f i j k

/-- one passive-transport step (3D scalar): advection then diffusion of the primary field, independent of the
scratch buffer -/
theorem C01_passive_step_3d (nz ny nx : ℤ) (hnz : 1 ≤ nz) (hny : 1 ≤ ny) (hnx : 1 ≤ nx) (f flux : B) (vel : Vec3 B)
    (hne : flux ≠ f) (hvx : vel.x ≠ flux) (hvy : vel.y ≠ flux) (hvz : vel.z ≠ flux) (dt dx nu : K) (s : Store3 B K) :
    EqB nz ny nx (exec3 (passiveStep3D nz ny nx f flux vel dt dx nu) s f)
      (diffuse1 nz ny nx (nu * dt / dx / dx) (advect3 nz ny nx (dt / dx) (s vel.x) (s vel.y) (s vel.z) (s f))) := by
  unfold passiveStep3D
  simp only [exec3_append]
  set s1 := exec3 (advectionTimestep3D nz ny nx f flux vel (dt / dx)) s with hs1
  have h1 : EqB nz ny nx (s1 f) (advect3 nz ny nx (dt / dx) (s vel.x) (s vel.y) (s vel.z) (s f)) := by
    intro i j k hb
    rw [hs1, C20.C20_euler_advection_3d_explicit nz ny nx f flux vel hne hvx hvy hvz (dt / dx) s i j k hb]
    rfl
  intro i j k hb
  rw [diffuse1_spec3 nz ny nx hnz hny hnx f flux hne _ s1 i j k hb]
  exact diffuse1_congr nz ny nx _ _ _ h1 i j k hb

/-! ### passive transport (2D) -/

/-- one passive-transport step (2D): `diffuse(advect(f))` with the 2D specification operators of Spec/Ops2D,
independent of the scratch buffer (and the same consistency / conservation theorems apply: C02, C04) -/
theorem C01_passive_step_2d (ny nx : ℤ) (hny : 1 ≤ ny) (hnx : 1 ≤ nx) (f flux : B) (vel : Vec2 B)
    (hne : flux ≠ f) (hvx : vel.x ≠ flux) (hvy : vel.y ≠ flux) (dt dx nu : K) (s : Store2 B K) :
    EqBox ny nx (exec2 (passiveStep2D ny nx f flux vel dt dx nu) s f)
      (diffuseOp ny nx (nu * dt / dx / dx) (advectOp ny nx (dt / dx) (s vel.x) (s vel.y) (s f))) := by
  unfold passiveStep2D
  rw [exec2_append]
  exact EqBox.trans' (diffuse_spec ny nx hny hnx f flux hne _ _)
    (diffuseOp_congr ny nx _ _ _ (advect_spec ny nx f flux vel hne hvx hvy _ s))

/-! ### passive transport (3D vector field: component-wise, ONE shared flux buffer) -/

theorem advectionTimestep3D_frame (nz ny nx : ℤ) (f flux : B) (vel : Vec3 B) (c : K) (s : Store3 B K) (b : B) (h1 : b ≠ f) (h2 : b ≠ flux) :
    exec3 (advectionTimestep3D nz ny nx f flux vel c) s b = s b := by
  apply exec3_other
  simp [written3, Call3.written, advectionTimestep3D, advectionFlux3D, setFixedVal3D, elementwiseSum3D,
    call_advection_flux_x_front_conservative_eno3_stencil_3d, call_advection_flux_x_back_conservative_eno3_stencil_3d,
    call_advection_flux_y_front_conservative_eno3_stencil_3d, call_advection_flux_y_back_conservative_eno3_stencil_3d,
    call_advection_flux_z_front_conservative_eno3_stencil_3d, call_advection_flux_z_back_conservative_eno3_stencil_3d,
    call_set_fixed_val_stencil_3d, call_elementwise_sum_stencil_3d, h1, h2]

theorem advect1_spec3 (nz ny nx : ℤ) (f flux : B) (vel : Vec3 B) (hne : flux ≠ f) (hvx : vel.x ≠ flux) (hvy : vel.y ≠ flux)
    (hvz : vel.z ≠ flux) (c : K) (s : Store3 B K) :
    EqB nz ny nx (exec3 (advectionTimestep3D nz ny nx f flux vel c) s f) (advect3 nz ny nx c (s vel.x) (s vel.y) (s vel.z) (s f)) := by
  intro i j k hb
  rw [C20.C20_euler_advection_3d_explicit nz ny nx f flux vel hne hvx hvy hvz c s i j k hb]
  rfl

/-- the advected vector field: each component advected by the same velocity -/
def advectV3 (nz ny nx : ℤ) (c : K) (u w : V3F K) : V3F K :=
  ⟨advect3 nz ny nx c u.x u.y u.z w.x, advect3 nz ny nx c u.x u.y u.z w.y, advect3 nz ny nx c u.x u.y u.z w.z⟩

theorem advect_spec3 (nz ny nx : ℤ) (f : Vec3 B) (flux : B) (vel : Vec3 B) (hfv : Distinct33 f vel)
    (hfx : flux ≠ f.x) (hfy : flux ≠ f.y) (hfz : flux ≠ f.z) (hvx : vel.x ≠ flux) (hvy : vel.y ≠ flux) (hvz : vel.z ≠ flux)
    (c : K) (s : Store3 B K) :
    EqV nz ny nx (vecOf (exec3 (advectionTimestepVec3D nz ny nx f flux vel c) s) f) (advectV3 nz ny nx c (vecOf s vel) (vecOf s f)) ∧
    vecOf (exec3 (advectionTimestepVec3D nz ny nx f flux vel c) s) vel = vecOf s vel := by
  have hsplit : advectionTimestepVec3D nz ny nx f flux vel c
      = advectionTimestep3D nz ny nx f.x flux vel c ++ advectionTimestep3D nz ny nx f.y flux vel c ++ advectionTimestep3D nz ny nx f.z flux vel c := rfl
  rw [hsplit]
  simp only [exec3_append]
  set s1 := exec3 (advectionTimestep3D nz ny nx f.x flux vel c) s with hs1
  set s2 := exec3 (advectionTimestep3D nz ny nx f.y flux vel c) s1 with hs2
  have fr1 := fun b h1 h2 => advectionTimestep3D_frame nz ny nx f.x flux vel c s b h1 h2
  have fr2 := fun b h1 h2 => advectionTimestep3D_frame nz ny nx f.y flux vel c s1 b h1 h2
  have fr3 := fun b h1 h2 => advectionTimestep3D_frame nz ny nx f.z flux vel c s2 b h1 h2
  -- the velocity is never written
  have v1 : vecOf s1 vel = vecOf s vel :=
    vecOf_frame _ _ _ (fr1 _ hfv.xx.symm hvx) (fr1 _ hfv.xy.symm hvy) (fr1 _ hfv.xz.symm hvz)
  have v2 : vecOf s2 vel = vecOf s vel :=
    (vecOf_frame _ _ _ (fr2 _ hfv.yx.symm hvx) (fr2 _ hfv.yy.symm hvy) (fr2 _ hfv.yz.symm hvz)).trans v1
  have v3 : vecOf (exec3 (advectionTimestep3D nz ny nx f.z flux vel c) s2) vel = vecOf s vel :=
    (vecOf_frame _ _ _ (fr3 _ hfv.zx.symm hvx) (fr3 _ hfv.zy.symm hvy) (fr3 _ hfv.zz.symm hvz)).trans v2
  have u1 : s1 vel.x = s vel.x ∧ s1 vel.y = s vel.y ∧ s1 vel.z = s vel.z := by
    have := v1; simp only [vecOf, V3F.mk.injEq] at this; exact this
  have u2 : s2 vel.x = s vel.x ∧ s2 vel.y = s vel.y ∧ s2 vel.z = s vel.z := by
    have := v2; simp only [vecOf, V3F.mk.injEq] at this; exact this
  refine ⟨⟨?_, ?_, ?_⟩, v3⟩
  · intro i j k hb
    show exec3 (advectionTimestep3D nz ny nx f.z flux vel c) s2 f.x i j k = _
    rw [fr3 f.x hfv.axz hfx.symm, hs2, fr2 f.x hfv.axy hfx.symm]
    exact advect1_spec3 nz ny nx f.x flux vel hfx hvx hvy hvz c s i j k hb
  · intro i j k hb
    show exec3 (advectionTimestep3D nz ny nx f.z flux vel c) s2 f.y i j k = _
    rw [fr3 f.y hfv.ayz hfy.symm]
    have := advect1_spec3 nz ny nx f.y flux vel hfy hvx hvy hvz c s1 i j k hb
    rw [← hs2] at this
    rw [this, u1.1, u1.2.1, u1.2.2, hs1, fr1 f.y hfv.axy.symm hfy.symm]
    rfl
  · intro i j k hb
    show exec3 (advectionTimestep3D nz ny nx f.z flux vel c) s2 f.z i j k = _
    have := advect1_spec3 nz ny nx f.z flux vel hfz hvx hvy hvz c s2 i j k hb
    rw [this, u2.1, u2.2.1, u2.2.2, hs2, fr2 f.z hfv.ayz.symm hfz.symm, hs1, fr1 f.z hfv.axz.symm hfz.symm]
    rfl

theorem advect3_congr (nz ny nx : ℤ) (c : K) (ux uy uz f f' : F3 K) (h : EqB nz ny nx f f') :
    EqB nz ny nx (advect3 nz ny nx c ux uy uz f) (advect3 nz ny nx c ux uy uz f') := by
  intro i j k hb
  simp only [advect3, innerB, inB] at hb ⊢
  rw [h i j k hb]
  split_ifs with hin
  · congr 1
    simp only [enoDiv3, xfIncr3, xbIncr3, yfIncr3, ybIncr3, zfIncr3, zbIncr3, zero3,
      advection_flux_x_front_conservative_eno3_stencil_3d, advection_flux_x_back_conservative_eno3_stencil_3d,
      advection_flux_y_front_conservative_eno3_stencil_3d, advection_flux_y_back_conservative_eno3_stencil_3d,
      advection_flux_z_front_conservative_eno3_stencil_3d, advection_flux_z_back_conservative_eno3_stencil_3d]
    rw [h i j k hb, h i j (k+1) (by simp only [inB]; omega), h i j (k-1) (by simp only [inB]; omega), h i j (k+2) (by simp only [inB]; omega),
      h i j (k-2) (by simp only [inB]; omega), h i (j+1) k (by simp only [inB]; omega), h i (j-1) k (by simp only [inB]; omega),
      h i (j+2) k (by simp only [inB]; omega), h i (j-2) k (by simp only [inB]; omega), h (i+1) j k (by simp only [inB]; omega),
      h (i-1) j k (by simp only [inB]; omega), h (i+2) j k (by simp only [inB]; omega), h (i-2) j k (by simp only [inB]; omega)]
  · rfl

/-- one passive-transport step of a VECTOR field (3D): every component is `diffuse(advect(component))`, independent of the
shared scratch buffer and of the other components -/
theorem C01_passive_step_vec_3d (nz ny nx : ℤ) (hnz : 1 ≤ nz) (hny : 1 ≤ ny) (hnx : 1 ≤ nx) (f : Vec3 B) (flux : B) (vel : Vec3 B)
    (hfv : Distinct33 f vel) (hfx : flux ≠ f.x) (hfy : flux ≠ f.y) (hfz : flux ≠ f.z)
    (hvx : vel.x ≠ flux) (hvy : vel.y ≠ flux) (hvz : vel.z ≠ flux) (dt dx nu : K) (s : Store3 B K) :
    EqV nz ny nx (vecOf (exec3 (passiveStepVec3D nz ny nx f flux vel dt dx nu) s) f)
      (diffuseOp3 nz ny nx (nu * dt / dx / dx) (advectV3 nz ny nx (dt / dx) (vecOf s vel) (vecOf s f))) := by
  unfold passiveStepVec3D
  rw [exec3_append]
  obtain ⟨ha, _⟩ := advect_spec3 nz ny nx f flux vel hfv hfx hfy hfz hvx hvy hvz (dt / dx) s
  exact (diffuse_spec3 nz ny nx hnz hny hnx f flux hfv.axy hfv.axz hfv.ayz hfx hfy hfz _ _).trans'
    (diffuseOp3_congr _ _ _ _ _ _ ha)

end Sopht.Props.C01
