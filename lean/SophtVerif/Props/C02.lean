/-
C02 — convergence to analytic solutions — PARTIAL.

What is proved (all sizes, all steps, exact arithmetic):
  * `C02_error_recursion`       Lax-type error bound for any one-step scheme: Lipschitz stability `(1 + L)` per step
                                and local truncation `τ` give `‖uⁿ − vⁿ‖ ≤ (1+L)ⁿ‖u⁰ − v⁰‖ + τ·Σ_{i<n}(1+L)^i`
  * `C02_error_bound_exp`       … `≤ e^{nL}(‖e⁰‖ + n τ)`; with `L = K dt`, `n dt ≤ T`, `τ ≤ dt·C·δ`:
                                `≤ e^{K T}(‖e⁰‖ + T C δ)` — first order in the resolution parameter δ
  * `C02_first_order`           halving δ halves the bound (exact initial data)
  * `C02_consistency_2d`        one composed advection–diffusion step of the SPECIFICATION operators (which the 2D step
                                programs are proved to realise: C01 / C14.pre_eq_spec) reproduces
                                `φ + dt(νΔφ − u·∇φ)` EXACTLY for every quadratic φ sampled at cell centres and every
                                constant velocity of either sign on every axis (all four upwind branch combinations)
  * `C02_diffusion_contraction` the diffusion part is a sup-norm contraction for `0 ≤ r ≤ 1/4` (stability of that part)
What is NOT proved and enters `C02_convergence_partial` as hypotheses: Lipschitz stability of Euler-forward + ENO3
advection and of the nonlinear velocity–vorticity coupling (`hStable`), the size of the truncation error for
the analytic (non-polynomial) solutions (`hTrunc`), and the calibrated error bounds at the tested resolutions
(measurements of floating-point runs).  The refinement study on the implementation (tools/oracles/c02.py) is
the failing-input search.
-/
import SophtVerif.Spec.Ops2D
import SophtVerif.Props.C14
import Mathlib.Analysis.SpecialFunctions.Exp
import Mathlib.Analysis.Normed.Group.Basic
import Mathlib.Algebra.BigOperators.Group.Finset.Basic
import Mathlib.Algebra.Order.BigOperators.Group.Finset
import Mathlib.Tactic.Ring
import Mathlib.Tactic.Linarith
import Mathlib.Tactic.FieldSimp
import Mathlib.Tactic.Positivity

set_option linter.unusedVariables false
set_option linter.unusedSectionVars false

namespace Sopht.Props.C02
open Sopht Sopht.Spec Finset

/-! ### abstract convergence (Lax): stability + consistency ⇒ error bound -/

section Lax
variable {E : Type} [SeminormedAddCommGroup E]

/-- error recursion for a (possibly step-dependent, possibly nonlinear) one-step scheme `u (k+1) = S k (u k)`
against a reference sequence `v` (the analytic solution sampled on the grid at the step times) -/
theorem C02_error_recursion (S : ℕ → E → E) (u v : ℕ → E) (L τ : ℝ) (hL : 0 ≤ L)
    (hu : ∀ k, u (k + 1) = S k (u k))
    (hStable : ∀ k a b, ‖S k a - S k b‖ ≤ (1 + L) * ‖a - b‖)
    (hTrunc : ∀ k, ‖S k (v k) - v (k + 1)‖ ≤ τ) (n : ℕ) :
    ‖u n - v n‖ ≤ (1 + L) ^ n * ‖u 0 - v 0‖ + τ * ∑ i ∈ range n, (1 + L) ^ i := by
  induction n with
  | zero => simp
  | succ n ih =>
    have h1 : ‖u (n + 1) - v (n + 1)‖ ≤ ‖S n (u n) - S n (v n)‖ + ‖S n (v n) - v (n + 1)‖ := by
      rw [hu n]
      have : S n (u n) - v (n + 1) = (S n (u n) - S n (v n)) + (S n (v n) - v (n + 1)) := by abel
      rw [this]; exact norm_add_le _ _
    have h2 := hStable n (u n) (v n)
    have h3 := hTrunc n
    have hpos : 0 ≤ 1 + L := by linarith
    have h4 : (1 + L) * ‖u n - v n‖ ≤ (1 + L) * ((1 + L) ^ n * ‖u 0 - v 0‖ + τ * ∑ i ∈ range n, (1 + L) ^ i) :=
      mul_le_mul_of_nonneg_left ih hpos
    rw [Finset.sum_range_succ']
    have h5 : ∑ i ∈ range n, (1 + L) ^ (i + 1) = (1 + L) * ∑ i ∈ range n, (1 + L) ^ i := by
      rw [Finset.mul_sum]; apply Finset.sum_congr rfl; intro i _; ring
    rw [h5]
    calc ‖u (n + 1) - v (n + 1)‖ ≤ (1 + L) * ‖u n - v n‖ + τ := by linarith
      _ ≤ (1 + L) * ((1 + L) ^ n * ‖u 0 - v 0‖ + τ * ∑ i ∈ range n, (1 + L) ^ i) + τ := by linarith
      _ = (1 + L) ^ (n + 1) * ‖u 0 - v 0‖ + τ * ((1 + L) * ∑ i ∈ range n, (1 + L) ^ i + (1 + L) ^ 0) := by ring

/-- exponential form of the bound -/
theorem C02_error_bound_exp (S : ℕ → E → E) (u v : ℕ → E) (L τ : ℝ) (hL : 0 ≤ L) (hτ : 0 ≤ τ)
    (hu : ∀ k, u (k + 1) = S k (u k))
    (hStable : ∀ k a b, ‖S k a - S k b‖ ≤ (1 + L) * ‖a - b‖)
    (hTrunc : ∀ k, ‖S k (v k) - v (k + 1)‖ ≤ τ) (n : ℕ) :
    ‖u n - v n‖ ≤ Real.exp (n * L) * (‖u 0 - v 0‖ + n * τ) := by
  have h := C02_error_recursion S u v L τ hL hu hStable hTrunc n
  have hpow : ∀ i, i ≤ n → (1 + L) ^ i ≤ Real.exp (n * L) := by
    intro i hi
    have h1 : (1 + L) ^ i ≤ (Real.exp L) ^ i := by
      apply pow_le_pow_left₀ (by linarith)
      linarith [Real.add_one_le_exp L]
    have h2 : (Real.exp L) ^ i = Real.exp (i * L) := by rw [← Real.exp_nat_mul]
    rw [h2] at h1
    refine h1.trans (Real.exp_le_exp.mpr ?_)
    exact mul_le_mul_of_nonneg_right (by exact_mod_cast hi) hL
  have hsum : ∑ i ∈ range n, (1 + L) ^ i ≤ n * Real.exp (n * L) := by
    calc ∑ i ∈ range n, (1 + L) ^ i ≤ ∑ i ∈ range n, Real.exp (n * L) :=
          Finset.sum_le_sum (fun i hi => hpow i (le_of_lt (Finset.mem_range.mp hi)))
      _ = n * Real.exp (n * L) := by simp
  have h0 : 0 ≤ ‖u 0 - v 0‖ := norm_nonneg _
  calc ‖u n - v n‖ ≤ (1 + L) ^ n * ‖u 0 - v 0‖ + τ * ∑ i ∈ range n, (1 + L) ^ i := h
    _ ≤ Real.exp (n * L) * ‖u 0 - v 0‖ + τ * (n * Real.exp (n * L)) := by
        apply add_le_add
        · exact mul_le_mul_of_nonneg_right (hpow n le_rfl) h0
        · exact mul_le_mul_of_nonneg_left hsum hτ
    _ = Real.exp (n * L) * (‖u 0 - v 0‖ + n * τ) := by ring

/-- C02 (partial): conditional convergence.  With per-step stability constant `1 + K dt` (HYPOTHESIS for the
advective / nonlinear parts), local truncation error at most `dt · C · δ` (HYPOTHESIS for the analytic solutions;
`δ` is the resolution parameter, e.g. `dt + h²`), final time `n dt ≤ T`: the error is at most
`e^{K T}(‖e⁰‖ + T C δ)`. -/
theorem C02_convergence_partial (S : ℕ → E → E) (u v : ℕ → E) (K C dt δ T : ℝ) (hK : 0 ≤ K) (hC : 0 ≤ C) (hdt : 0 ≤ dt)
    (hδ : 0 ≤ δ) (hu : ∀ k, u (k + 1) = S k (u k))
    (hStable : ∀ k a b, ‖S k a - S k b‖ ≤ (1 + K * dt) * ‖a - b‖)
    (hTrunc : ∀ k, ‖S k (v k) - v (k + 1)‖ ≤ dt * C * δ) (n : ℕ) (hT : n * dt ≤ T) :
    ‖u n - v n‖ ≤ Real.exp (K * T) * (‖u 0 - v 0‖ + T * C * δ) := by
  have h := C02_error_bound_exp S u v (K * dt) (dt * C * δ) (by positivity) (by positivity) hu hStable hTrunc n
  have h0 : 0 ≤ ‖u 0 - v 0‖ := norm_nonneg _
  have e1 : Real.exp (n * (K * dt)) ≤ Real.exp (K * T) := by
    apply Real.exp_le_exp.mpr
    calc (n : ℝ) * (K * dt) = K * (n * dt) := by ring
      _ ≤ K * T := mul_le_mul_of_nonneg_left hT hK
  have e2 : (n : ℝ) * (dt * C * δ) ≤ T * C * δ := by
    calc (n : ℝ) * (dt * C * δ) = (n * dt) * (C * δ) := by ring
      _ ≤ T * (C * δ) := mul_le_mul_of_nonneg_right hT (by positivity)
      _ = T * C * δ := by ring
  have hn : 0 ≤ (n : ℝ) * (dt * C * δ) := by positivity
  calc ‖u n - v n‖ ≤ Real.exp (n * (K * dt)) * (‖u 0 - v 0‖ + n * (dt * C * δ)) := h
    _ ≤ Real.exp (K * T) * (‖u 0 - v 0‖ + T * C * δ) := by
        apply mul_le_mul e1 (by linarith) (by linarith) (Real.exp_pos _).le

/-- first order: with exact initial data the bound is linear in the resolution parameter — halving it halves the bound -/
theorem C02_first_order (K C T δ : ℝ) :
    Real.exp (K * T) * (0 + T * C * (δ / 2)) = (Real.exp (K * T) * (0 + T * C * δ)) / 2 := by ring

end Lax

/-! ### consistency of the composed 2D step on quadratics -/

section Consistency
variable {K : Type} [Field K] [LinearOrder K] [IsStrictOrderedRing K]

/-- a quadratic sampled at cell centres `x = (j + ½)h`, `y = (i + ½)h` -/
def quad (h c0 c1 c2 c3 c4 c5 : K) : F2 K := fun i j =>
  c0 + c1 * (((j : K) + 1/2) * h) + c2 * (((i : K) + 1/2) * h) + c3 * (((j : K) + 1/2) * h) ^ 2
    + c4 * (((j : K) + 1/2) * h) * (((i : K) + 1/2) * h) + c5 * (((i : K) + 1/2) * h) ^ 2

theorem advect_quad (ny nx : ℤ) (h dt a b c0 c1 c2 c3 c4 c5 : K) (hh : h ≠ 0) (i j : ℤ) (hin : inner ny nx 2 i j) :
    advectOp ny nx (dt / h) (fun _ _ => a) (fun _ _ => b) (quad h c0 c1 c2 c3 c4 c5) i j
      = quad h c0 c1 c2 c3 c4 c5 i j
        - dt * (a * (c1 + 2 * c3 * (((j : K) + 1/2) * h) + c4 * (((i : K) + 1/2) * h))
              + b * (c2 + c4 * (((j : K) + 1/2) * h) + 2 * c5 * (((i : K) + 1/2) * h))) := by
  simp only [advectOp, if_pos hin, enoDivergence, enoFaceX, enoFaceY, quad]
  push_cast
  by_cases ha : 0 < a + a <;> by_cases hb : 0 < b + b <;> simp only [ha, hb, if_true, if_false] <;> field_simp <;> ring

/-- C02 (consistency): for every quadratic, every constant velocity (either sign on either axis), every spacing,
time step and viscosity, one advection-then-diffusion step of the specification operators equals
`φ + dt(νΔφ − u·∇φ)` exactly at every cell at least 3 cells inside the grid -/
theorem C02_consistency_2d (ny nx : ℤ) (h dt nu a b c0 c1 c2 c3 c4 c5 : K) (hh : h ≠ 0) (i j : ℤ) (hin : inner ny nx 3 i j) :
    diffuseOp ny nx (nu * dt / h / h)
        (advectOp ny nx (dt / h) (fun _ _ => a) (fun _ _ => b) (quad h c0 c1 c2 c3 c4 c5)) i j
      = quad h c0 c1 c2 c3 c4 c5 i j
        + dt * (nu * (2 * c3 + 2 * c5)
              - a * (c1 + 2 * c3 * (((j : K) + 1/2) * h) + c4 * (((i : K) + 1/2) * h))
              - b * (c2 + c4 * (((j : K) + 1/2) * h) + 2 * c5 * (((i : K) + 1/2) * h))) := by
  have hin1 : inner ny nx 1 i j := by simp only [inner] at *; omega
  have g : ∀ di dj : ℤ, -1 ≤ di → di ≤ 1 → -1 ≤ dj → dj ≤ 1 → inner ny nx 2 (i + di) (j + dj) := by
    intro di dj _ _ _ _; simp only [inner] at *; omega
  simp only [diffuseOp, if_pos hin1]
  have e1 : i - 1 = i + (-1) := by ring
  have e2 : j - 1 = j + (-1) := by ring
  have e0i : i = i + 0 := by ring
  have e0j : j = j + 0 := by ring
  rw [show advectOp ny nx (dt / h) (fun _ _ => a) (fun _ _ => b) (quad h c0 c1 c2 c3 c4 c5) (i + 1) j = _ from
        advect_quad ny nx h dt a b c0 c1 c2 c3 c4 c5 hh (i + 1) j (by have := g 1 0 (by omega) (by omega) (by omega) (by omega); simpa using this),
      show advectOp ny nx (dt / h) (fun _ _ => a) (fun _ _ => b) (quad h c0 c1 c2 c3 c4 c5) (i - 1) j = _ from
        advect_quad ny nx h dt a b c0 c1 c2 c3 c4 c5 hh (i - 1) j (by have := g (-1) 0 (by omega) (by omega) (by omega) (by omega); simpa [← e1] using this),
      show advectOp ny nx (dt / h) (fun _ _ => a) (fun _ _ => b) (quad h c0 c1 c2 c3 c4 c5) i (j + 1) = _ from
        advect_quad ny nx h dt a b c0 c1 c2 c3 c4 c5 hh i (j + 1) (by have := g 0 1 (by omega) (by omega) (by omega) (by omega); simpa using this),
      show advectOp ny nx (dt / h) (fun _ _ => a) (fun _ _ => b) (quad h c0 c1 c2 c3 c4 c5) i (j - 1) = _ from
        advect_quad ny nx h dt a b c0 c1 c2 c3 c4 c5 hh i (j - 1) (by have := g 0 (-1) (by omega) (by omega) (by omega) (by omega); simpa [← e2] using this),
      show advectOp ny nx (dt / h) (fun _ _ => a) (fun _ _ => b) (quad h c0 c1 c2 c3 c4 c5) i j = _ from
        advect_quad ny nx h dt a b c0 c1 c2 c3 c4 c5 hh i j (by have := g 0 0 (by omega) (by omega) (by omega) (by omega); simpa using this)]
  simp only [quad]
  push_cast
  field_simp
  ring

/-- stability of the diffusion part: sup-norm contraction for `0 ≤ r ≤ 1/4` (linear ⇒ Lipschitz constant 1) -/
theorem C02_diffusion_contraction (ny nx : ℤ) (r M : K) (hr0 : 0 ≤ r) (hr : r ≤ 1 / 4) (w : F2 K)
    (hM : ∀ i j, |w i j| ≤ M) (i j : ℤ) : |diffuseOp ny nx r w i j| ≤ M := by
  simp only [diffuseOp]
  split_ifs
  · have h0 := abs_le.mp (hM i j)
    have h1 := abs_le.mp (hM (i + 1) j)
    have h2 := abs_le.mp (hM (i - 1) j)
    have h3 := abs_le.mp (hM i (j + 1))
    have h4 := abs_le.mp (hM i (j - 1))
    have hc : 0 ≤ 1 - 4 * r := by linarith
    have e : w i j + r * (w (i + 1) j + w (i - 1) j + w i (j + 1) + w i (j - 1) - 4 * w i j)
        = (1 - 4 * r) * w i j + r * w (i + 1) j + r * w (i - 1) j + r * w i (j + 1) + r * w i (j - 1) := by ring
    rw [e, abs_le]
    constructor
    · nlinarith [mul_le_mul_of_nonneg_left h0.1 hc, mul_le_mul_of_nonneg_left h1.1 hr0, mul_le_mul_of_nonneg_left h2.1 hr0,
        mul_le_mul_of_nonneg_left h3.1 hr0, mul_le_mul_of_nonneg_left h4.1 hr0]
    · nlinarith [mul_le_mul_of_nonneg_left h0.2 hc, mul_le_mul_of_nonneg_left h1.2 hr0, mul_le_mul_of_nonneg_left h2.2 hr0,
        mul_le_mul_of_nonneg_left h3.2 hr0, mul_le_mul_of_nonneg_left h4.2 hr0]
  · exact hM i j

end Consistency

/-! ### … and of the step PROGRAM (generated kernels + wrapper programs), through C01 -/

section Program
variable {K : Type} [Field K] [LinearOrder K] [IsStrictOrderedRing K] {B : Type} [DecidableEq B]
open Sopht.Model Sopht.Props.C01

/-- the pre-solve 2D step program (forcing off, boundary-zone width 0) started from a quadratic vorticity and a
constant velocity produces `φ + dt(νΔφ − u·∇φ)` exactly at every cell at least 3 cells inside the grid -/
theorem C02_consistency_program_2d (T : Transc K) (c : NS2Cfg K) (hw : c.width = 0) (hf : c.forcing = false)
    (hny : 1 ≤ c.ny) (hnx : 1 ≤ c.nx) (hdx : c.dx ≠ 0) (b : NS2Bufs B) (hd : Distinct2 b) (s : Store2 B K)
    (a bb c0 c1 c2 c3 c4 c5 : K)
    (hvx : s b.vel.x = fun _ _ => a) (hvy : s b.vel.y = fun _ _ => bb) (hω : s b.vort = quad c.dx c0 c1 c2 c3 c4 c5)
    (i j : ℤ) (hin : inner c.ny c.nx 3 i j) :
    exec2 (C14.pre c b) s b.vort i j
      = quad c.dx c0 c1 c2 c3 c4 c5 i j
        + c.dt * (c.nu * (2 * c3 + 2 * c5)
              - a * (c1 + 2 * c3 * (((j : K) + 1/2) * c.dx) + c4 * (((i : K) + 1/2) * c.dx))
              - bb * (c2 + c4 * (((j : K) + 1/2) * c.dx) + 2 * c5 * (((i : K) + 1/2) * c.dx))) := by
  have h := C14.pre_eq_spec T c hw hny hnx b hd s
  have hbox : 0 ≤ i ∧ i < c.ny ∧ 0 ≤ j ∧ j < c.nx := by simp only [inner] at hin; omega
  rw [h i j hbox.1 hbox.2.1 hbox.2.2.1 hbox.2.2.2]
  unfold C14.preSpec
  rw [hvx, hvy, hω]
  simp only [hf, Bool.false_eq_true, if_false]
  exact C02_consistency_2d c.ny c.nx c.dx c.dt c.nu a bb c0 c1 c2 c3 c4 c5 hdx i j hin

/-- the hypotheses are satisfiable: a cell 3 inside an 8 × 9 grid -/
example : inner 8 9 3 4 4 := by decide

end Program

end Sopht.Props.C02
