/-
C02 (3D consistency) — one 3D passive-transport step PROGRAM (ENO3 advection, Euler forward, then diffusion; generated
kernels + wrapper programs) started from any quadratic sampled at cell centres and any constant velocity of either sign
on every axis (all eight upwind branch combinations) returns `φ + dt(νΔφ − u·∇φ)` exactly at every cell at least 3 cells
inside the grid — for all spacings, time steps, viscosities, grid sizes.
-/
import SophtVerif.Props.C01_3D
import Mathlib.Tactic.FieldSimp

set_option linter.unusedVariables false
set_option linter.unusedSectionVars false
set_option maxHeartbeats 1000000

namespace Sopht.Props.C02
open Sopht Sopht.Gen Sopht.Model Sopht.Spec Sopht.Props.C01 Sopht.Props.C13

variable {K : Type} [Field K] [LinearOrder K] [IsStrictOrderedRing K]

/-- coefficients of a 3D quadratic -/
structure Q3 (K : Type) where
  c0 : K
  cx : K
  cy : K
  cz : K
  cxx : K
  cyy : K
  czz : K
  cxy : K
  cxz : K
  cyz : K

/-- the quadratic sampled at cell centres `x = (k+½)h`, `y = (j+½)h`, `z = (i+½)h` -/
def quad3 (h : K) (q : Q3 K) : F3 K := fun i j k =>
  let x := ((k : K) + 1/2) * h; let y := ((j : K) + 1/2) * h; let z := ((i : K) + 1/2) * h
  q.c0 + q.cx * x + q.cy * y + q.cz * z + q.cxx * x ^ 2 + q.cyy * y ^ 2 + q.czz * z ^ 2 + q.cxy * x * y + q.cxz * x * z + q.cyz * y * z

def gradU (h a b c : K) (q : Q3 K) (i j k : ℤ) : K :=
  let x := ((k : K) + 1/2) * h; let y := ((j : K) + 1/2) * h; let z := ((i : K) + 1/2) * h
  a * (q.cx + 2 * q.cxx * x + q.cxy * y + q.cxz * z) + b * (q.cy + 2 * q.cyy * y + q.cxy * x + q.cyz * z)
    + c * (q.cz + 2 * q.czz * z + q.cxz * x + q.cyz * y)

theorem advect3_quad (nz ny nx : ℤ) (h dt a b c : K) (q : Q3 K) (hh : h ≠ 0) (i j k : ℤ) (hin : innerB nz ny nx 2 i j k) :
    advect3 nz ny nx (dt / h) (fun _ _ _ => a) (fun _ _ _ => b) (fun _ _ _ => c) (quad3 h q) i j k
      = quad3 h q i j k - dt * gradU h a b c q i j k := by
  simp only [advect3, if_pos hin, enoDiv3, xfIncr3, xbIncr3, yfIncr3, ybIncr3, zfIncr3, zbIncr3, zero3,
    advection_flux_x_front_conservative_eno3_stencil_3d, advection_flux_x_back_conservative_eno3_stencil_3d,
    advection_flux_y_front_conservative_eno3_stencil_3d, advection_flux_y_back_conservative_eno3_stencil_3d,
    advection_flux_z_front_conservative_eno3_stencil_3d, advection_flux_z_back_conservative_eno3_stencil_3d,
    quad3, gradU]
  push_cast
  by_cases ha : -a < a <;> by_cases hb : -b < b <;> by_cases hc : -c < c <;>
    simp only [ha, hb, hc, if_true, if_false] <;> field_simp <;> ring

/-- C02 (3D consistency of the composed specification step) -/
theorem C02_consistency_3d (nz ny nx : ℤ) (h dt nu a b c : K) (q : Q3 K) (hh : h ≠ 0) (i j k : ℤ) (hin : innerB nz ny nx 3 i j k) :
    diffuse1 nz ny nx (nu * dt / h / h)
        (advect3 nz ny nx (dt / h) (fun _ _ _ => a) (fun _ _ _ => b) (fun _ _ _ => c) (quad3 h q)) i j k
      = quad3 h q i j k + dt * (nu * (2 * q.cxx + 2 * q.cyy + 2 * q.czz) - gradU h a b c q i j k) := by
  have hin1 : innerB nz ny nx 1 i j k := by simp only [innerB] at *; omega
  have g : ∀ di dj dk : ℤ, -1 ≤ di → di ≤ 1 → -1 ≤ dj → dj ≤ 1 → -1 ≤ dk → dk ≤ 1 → innerB nz ny nx 2 (i + di) (j + dj) (k + dk) := by
    intro di dj dk _ _ _ _ _ _; simp only [innerB] at *; omega
  have A := fun di dj dk h1 h2 h3 h4 h5 h6 =>
    advect3_quad nz ny nx h dt a b c q hh (i + di) (j + dj) (k + dk) (g di dj dk h1 h2 h3 h4 h5 h6)
  have a0 := A 0 0 0 (by omega) (by omega) (by omega) (by omega) (by omega) (by omega)
  have a1 := A 1 0 0 (by omega) (by omega) (by omega) (by omega) (by omega) (by omega)
  have a2 := A (-1) 0 0 (by omega) (by omega) (by omega) (by omega) (by omega) (by omega)
  have a3 := A 0 1 0 (by omega) (by omega) (by omega) (by omega) (by omega) (by omega)
  have a4 := A 0 (-1) 0 (by omega) (by omega) (by omega) (by omega) (by omega) (by omega)
  have a5 := A 0 0 1 (by omega) (by omega) (by omega) (by omega) (by omega) (by omega)
  have a6 := A 0 0 (-1) (by omega) (by omega) (by omega) (by omega) (by omega) (by omega)
  simp only [add_zero] at a0 a1 a2 a3 a4 a5 a6
  have e1 : i + -1 = i - 1 := by ring
  have e2 : j + -1 = j - 1 := by ring
  have e3 : k + -1 = k - 1 := by ring
  rw [e1] at a2; rw [e2] at a4; rw [e3] at a6
  simp only [diffuse1, if_pos hin1]
  rw [a0, a1, a2, a3, a4, a5, a6]
  simp only [quad3, gradU]
  push_cast
  field_simp
  ring

section Program
variable {B : Type} [DecidableEq B]

/-- C02 (3D consistency of the step PROGRAM): the 3D passive-transport step of a scalar -/
theorem C02_consistency_program_3d (nz ny nx : ℤ) (hnz : 1 ≤ nz) (hny : 1 ≤ ny) (hnx : 1 ≤ nx) (f flux : B) (vel : Vec3 B)
    (hne : flux ≠ f) (hvx : vel.x ≠ flux) (hvy : vel.y ≠ flux) (hvz : vel.z ≠ flux) (dt dx nu a b c : K) (q : Q3 K) (hdx : dx ≠ 0)
    (s : Store3 B K) (hux : s vel.x = fun _ _ _ => a) (huy : s vel.y = fun _ _ _ => b) (huz : s vel.z = fun _ _ _ => c)
    (hφ : s f = quad3 dx q) (i j k : ℤ) (hin : innerB nz ny nx 3 i j k) :
    exec3 (passiveStep3D nz ny nx f flux vel dt dx nu) s f i j k
      = quad3 dx q i j k + dt * (nu * (2 * q.cxx + 2 * q.cyy + 2 * q.czz) - gradU dx a b c q i j k) := by
  have hbox : inB nz ny nx i j k := by simp only [innerB, inB] at hin ⊢; omega
  rw [C01_passive_step_3d nz ny nx hnz hny hnx f flux vel hne hvx hvy hvz dt dx nu s i j k hbox, hux, huy, huz, hφ]
  exact C02_consistency_3d nz ny nx dx dt nu a b c q hdx i j k hin

end Program

end Sopht.Props.C02
