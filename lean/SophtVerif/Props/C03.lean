/-
C03 — the unbounded Poisson solve equals the free-space Green's-function convolution.
Model: Model/Poisson.lean (`solve2`, `solve3`: circular convolution on the doubled box of the zero-padded
right-hand side with the even-reflected table — the FFT pair enters through this contract).  The padded
buffer is what the solver's kernel calls are proved to produce whatever earlier solves left
(C18_poisson_buffer_determined_2d), and the Fourier-space kernel is complex multiplication (below, on the
generated kernel).  Partial: the DFT convolution theorem itself is assumed (contract), not proved.
-/
import SophtVerif.Model.Poisson
import SophtVerif.Gen.Kernels
import Mathlib.Tactic.Ring
import Mathlib.Tactic.Linarith

set_option linter.unusedVariables false
set_option linter.unusedSectionVars false

namespace Sopht.Props.C03
open Sopht Sopht.Model Sopht.Gen Finset

variable {K : Type} [Field K]

/-- wrap-around index lemma: for targets and sources inside the original box the circular separation on the
doubled axis, even-reflected, is the true separation `|i − p|` — for every `n` (odd or even) -/
theorem ext_wrap (n i p : ℕ) (hi : i < n) (hp : p < n) : extRefl n ((i + 2 * n - p) % (2 * n)) = adiff i p := by
  unfold extRefl adiff
  by_cases h : p ≤ i
  · have e : i + 2 * n - p = (i - p) + 2 * n := by omega
    rw [e, Nat.add_mod_right, Nat.mod_eq_of_lt (by omega), if_pos h]
    omega
  · have e : (i + 2 * n - p) % (2 * n) = i + 2 * n - p := Nat.mod_eq_of_lt (by omega)
    rw [e, if_neg h]
    omega

theorem sum_range_double (n : ℕ) (h : ℕ → K) (hz : ∀ p, n ≤ p → h p = 0) :
    ∑ p ∈ range (2 * n), h p = ∑ p ∈ range n, h p := by
  symm
  apply Finset.sum_subset
  · intro x hx; simp only [mem_range] at hx ⊢; omega
  · intro x _ hx; simp only [mem_range, not_lt] at hx; exact hz x hx

/-- C03 (2D): for every right-hand side, every grid shape and every target cell of the box, the solve equals
`vol · Σ_source G(|Δi|, |Δj|) · f(source)` — the aperiodic convolution, free of periodic images -/
theorem C03_solve_eq_free_convolution_2d (ny nx : ℕ) (vol : K) (G : ℕ → ℕ → K) (f : ℕ → ℕ → K) (i j : ℕ)
    (hi : i < ny) (hj : j < nx) :
    solve2 ny nx vol G f i j = freeConv2 ny nx vol G f i j := by
  unfold solve2 circ2 freeConv2
  rw [sum_range_double ny _ (fun p hp => by
    apply Finset.sum_eq_zero; intro q _; simp [pad2, Nat.not_lt.mpr hp])]
  rw [Finset.mul_sum]
  apply Finset.sum_congr rfl
  intro p hp
  simp only [mem_range] at hp
  rw [sum_range_double nx _ (fun q hq => by simp [pad2, Nat.not_lt.mpr hq])]
  rw [Finset.mul_sum]
  apply Finset.sum_congr rfl
  intro q hq
  simp only [mem_range] at hq
  have e1 := ext_wrap ny i p hi hp
  have e2 := ext_wrap nx j q hj hq
  simp only [adiff] at e1 e2
  simp only [pad2, hp, hq, and_self, if_true, gext2, e1, e2]
  ring

theorem sum_range_double3 (n : ℕ) (h : ℕ → K) (hz : ∀ p, n ≤ p → h p = 0) :
    ∑ p ∈ range (2 * n), h p = ∑ p ∈ range n, h p := sum_range_double n h hz

/-- C03 (3D) -/
theorem C03_solve_eq_free_convolution_3d (nz ny nx : ℕ) (vol : K) (G : ℕ → ℕ → ℕ → K) (f : ℕ → ℕ → ℕ → K)
    (h i j : ℕ) (hh : h < nz) (hi : i < ny) (hj : j < nx) :
    solve3 nz ny nx vol G f h i j = freeConv3 nz ny nx vol G f h i j := by
  unfold solve3 circ3 freeConv3
  rw [sum_range_double nz _ (fun o ho => by
    apply Finset.sum_eq_zero; intro p _; apply Finset.sum_eq_zero; intro q _; simp [pad3, Nat.not_lt.mpr ho])]
  rw [Finset.mul_sum]
  apply Finset.sum_congr rfl
  intro o ho
  simp only [mem_range] at ho
  rw [sum_range_double ny _ (fun p hp => by
    apply Finset.sum_eq_zero; intro q _; simp [pad3, Nat.not_lt.mpr hp])]
  rw [Finset.mul_sum]
  apply Finset.sum_congr rfl
  intro p hp
  simp only [mem_range] at hp
  rw [sum_range_double nx _ (fun q hq => by simp [pad3, Nat.not_lt.mpr hq])]
  rw [Finset.mul_sum]
  apply Finset.sum_congr rfl
  intro q hq
  simp only [mem_range] at hq
  simp only [pad3, ho, hp, hq, and_self, if_true, gext3, ext_wrap nz h o hh ho, ext_wrap ny i p hi hp,
    ext_wrap nx j q hj hq]
  ring

/-! ### consequences -/

/-- linear in the right-hand side -/
theorem C03_linear_2d (ny nx : ℕ) (vol : K) (G : ℕ → ℕ → K) (f g : ℕ → ℕ → K) (a b : K) (i j : ℕ) (hi : i < ny)
    (hj : j < nx) :
    solve2 ny nx vol G (fun p q => a * f p q + b * g p q) i j
      = a * solve2 ny nx vol G f i j + b * solve2 ny nx vol G g i j := by
  rw [C03_solve_eq_free_convolution_2d _ _ _ _ _ _ _ hi hj, C03_solve_eq_free_convolution_2d _ _ _ _ _ _ _ hi hj,
    C03_solve_eq_free_convolution_2d _ _ _ _ _ _ _ hi hj]
  unfold freeConv2
  simp only [mul_add, Finset.sum_add_distrib, Finset.mul_sum]
  congr 1 <;> (apply Finset.sum_congr rfl; intro p _; apply Finset.sum_congr rfl; intro q _; ring)

/-- a unit source at cell `(p0, q0)` contributes `vol · G(|Δ|)` at the target and nothing else: no periodic
images `G(|Δ ± L|)` -/
theorem C03_no_images_2d (ny nx : ℕ) (vol : K) (G : ℕ → ℕ → K) (p0 q0 i j : ℕ) (hp0 : p0 < ny) (hq0 : q0 < nx)
    (hi : i < ny) (hj : j < nx) :
    solve2 ny nx vol G (fun p q => if p = p0 ∧ q = q0 then 1 else 0) i j = vol * G (adiff i p0) (adiff j q0) := by
  rw [C03_solve_eq_free_convolution_2d _ _ _ _ _ _ _ hi hj]
  unfold freeConv2
  congr 1
  rw [Finset.sum_eq_single p0]
  · rw [Finset.sum_eq_single q0]
    · simp [adiff]
    · intro q _ hq; simp [hq]
    · intro h; exact absurd (mem_range.mpr hq0) h
  · intro p _ hp
    apply Finset.sum_eq_zero; intro q _; simp [hp]
  · intro h; exact absurd (mem_range.mpr hp0) h

theorem adiff_comm (a b : ℕ) : adiff a b = adiff b a := by
  unfold adiff; split_ifs <;> omega

/-- symmetric under exchange of source and target cell -/
theorem C03_symmetric_2d (ny nx : ℕ) (vol : K) (G : ℕ → ℕ → K) (a1 a2 b1 b2 : ℕ) (h1 : a1 < ny) (h2 : a2 < nx)
    (h3 : b1 < ny) (h4 : b2 < nx) :
    solve2 ny nx vol G (fun p q => if p = b1 ∧ q = b2 then 1 else 0) a1 a2
      = solve2 ny nx vol G (fun p q => if p = a1 ∧ q = a2 then 1 else 0) b1 b2 := by
  rw [C03_no_images_2d _ _ _ _ _ _ _ _ h3 h4 h1 h2, C03_no_images_2d _ _ _ _ _ _ _ _ h1 h2 h3 h4,
    adiff_comm a1 b1, adiff_comm a2 b2]

/-- the solve is a function of the right-hand side alone (no dependence on any earlier solve): the model has
no state; that the implementation's buffers carry none is C18_poisson_buffer_determined_2d -/
theorem C03_history_independent_2d (ny nx : ℕ) (vol : K) (G : ℕ → ℕ → K) (f f' : ℕ → ℕ → K)
    (h : ∀ p q, p < ny → q < nx → f p q = f' p q) (i j : ℕ) :
    solve2 ny nx vol G f i j = solve2 ny nx vol G f' i j := by
  unfold solve2 circ2
  apply Finset.sum_congr rfl; intro p _; apply Finset.sum_congr rfl; intro q _
  unfold pad2
  split_ifs with hc
  · rw [h p q hc.1 hc.2]
  · rfl

/-- the Fourier-space kernel is complex multiplication (generated kernel, 2D and 3D) -/
theorem C03_complex_product {K : Type} [Field K] [LinearOrder K] [IsStrictOrderedRing K]
    (ar ai br bi : F2 K) (i j : ℤ) :
    elementwise_complex_product_stencil_2d__product_field_real ai ar bi br i j = ar i j * br i j - ai i j * bi i j ∧
    elementwise_complex_product_stencil_2d__product_field_imag ai ar bi br i j = ar i j * bi i j + ai i j * br i j := by
  simp only [elementwise_complex_product_stencil_2d__product_field_real,
    elementwise_complex_product_stencil_2d__product_field_imag]
  constructor <;> ring

theorem C03_complex_product_3d {K : Type} [Field K] [LinearOrder K] [IsStrictOrderedRing K]
    (ar ai br bi : F3 K) (i j k : ℤ) :
    elementwise_complex_product_stencil_3d__product_field_real ai ar bi br i j k = ar i j k * br i j k - ai i j k * bi i j k ∧
    elementwise_complex_product_stencil_3d__product_field_imag ai ar bi br i j k = ar i j k * bi i j k + ai i j k * br i j k := by
  simp only [elementwise_complex_product_stencil_3d__product_field_real,
    elementwise_complex_product_stencil_3d__product_field_imag]
  constructor <;> ring

/-- non-vacuity: on a 2×3 box a source in the far corner is seen at separation (1,2), not at the periodic
image separation -/
example : adiff 0 1 = 1 ∧ extRefl 2 ((0 + 2 * 2 - 1) % (2 * 2)) = 1 ∧ extRefl 3 ((0 + 2 * 3 - 2) % (2 * 3)) = 2 := by decide

end Sopht.Props.C03
