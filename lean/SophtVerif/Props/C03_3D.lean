/-
C03 (3D consequences) — linearity, absence of periodic images, source/target symmetry and history independence of the
3D unbounded solve, from C03_solve_eq_free_convolution_3d.
-/
import SophtVerif.Props.C03

set_option linter.unusedVariables false
set_option linter.unusedSectionVars false

namespace Sopht.Props.C03
open Sopht Sopht.Model Finset

variable {K : Type} [Field K]

theorem C03_linear_3d (nz ny nx : ℕ) (vol : K) (G : ℕ → ℕ → ℕ → K) (f g : ℕ → ℕ → ℕ → K) (a b : K) (h i j : ℕ)
    (hh : h < nz) (hi : i < ny) (hj : j < nx) :
    solve3 nz ny nx vol G (fun o p q => a * f o p q + b * g o p q) h i j
      = a * solve3 nz ny nx vol G f h i j + b * solve3 nz ny nx vol G g h i j := by
  rw [C03_solve_eq_free_convolution_3d _ _ _ _ _ _ _ _ _ hh hi hj, C03_solve_eq_free_convolution_3d _ _ _ _ _ _ _ _ _ hh hi hj,
    C03_solve_eq_free_convolution_3d _ _ _ _ _ _ _ _ _ hh hi hj]
  unfold freeConv3
  simp only [mul_add, Finset.sum_add_distrib, Finset.mul_sum]
  congr 1 <;> (apply Finset.sum_congr rfl; intro o _; apply Finset.sum_congr rfl; intro p _; apply Finset.sum_congr rfl; intro q _; ring)

theorem C03_no_images_3d (nz ny nx : ℕ) (vol : K) (G : ℕ → ℕ → ℕ → K) (o0 p0 q0 h i j : ℕ) (ho0 : o0 < nz) (hp0 : p0 < ny) (hq0 : q0 < nx)
    (hh : h < nz) (hi : i < ny) (hj : j < nx) :
    solve3 nz ny nx vol G (fun o p q => if o = o0 ∧ p = p0 ∧ q = q0 then 1 else 0) h i j
      = vol * G (adiff h o0) (adiff i p0) (adiff j q0) := by
  rw [C03_solve_eq_free_convolution_3d _ _ _ _ _ _ _ _ _ hh hi hj]
  unfold freeConv3
  congr 1
  rw [Finset.sum_eq_single o0]
  · rw [Finset.sum_eq_single p0]
    · rw [Finset.sum_eq_single q0]
      · simp
      · intro q _ hq; simp [hq]
      · intro hn; exact absurd (mem_range.mpr hq0) hn
    · intro p _ hp
      apply Finset.sum_eq_zero; intro q _; simp [hp]
    · intro hn; exact absurd (mem_range.mpr hp0) hn
  · intro o _ ho
    apply Finset.sum_eq_zero; intro p _; apply Finset.sum_eq_zero; intro q _; simp [ho]
  · intro hn; exact absurd (mem_range.mpr ho0) hn

theorem C03_symmetric_3d (nz ny nx : ℕ) (vol : K) (G : ℕ → ℕ → ℕ → K) (a1 a2 a3 b1 b2 b3 : ℕ) (h1 : a1 < nz) (h2 : a2 < ny) (h3 : a3 < nx)
    (h4 : b1 < nz) (h5 : b2 < ny) (h6 : b3 < nx) :
    solve3 nz ny nx vol G (fun o p q => if o = b1 ∧ p = b2 ∧ q = b3 then 1 else 0) a1 a2 a3
      = solve3 nz ny nx vol G (fun o p q => if o = a1 ∧ p = a2 ∧ q = a3 then 1 else 0) b1 b2 b3 := by
  rw [C03_no_images_3d _ _ _ _ _ _ _ _ _ _ _ h4 h5 h6 h1 h2 h3, C03_no_images_3d _ _ _ _ _ _ _ _ _ _ _ h1 h2 h3 h4 h5 h6,
    adiff_comm a1 b1, adiff_comm a2 b2, adiff_comm a3 b3]

theorem C03_history_independent_3d (nz ny nx : ℕ) (vol : K) (G : ℕ → ℕ → ℕ → K) (f f' : ℕ → ℕ → ℕ → K)
    (h : ∀ o p q, o < nz → p < ny → q < nx → f o p q = f' o p q) (a i j : ℕ) :
    solve3 nz ny nx vol G f a i j = solve3 nz ny nx vol G f' a i j := by
  unfold solve3 circ3
  apply Finset.sum_congr rfl; intro o _; apply Finset.sum_congr rfl; intro p _; apply Finset.sum_congr rfl; intro q _
  unfold pad3
  split_ifs with hc
  · rw [h o p q hc.1 hc.2.1 hc.2.2]
  · rfl

end Sopht.Props.C03
