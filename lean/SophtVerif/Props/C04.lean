/-
C04 — conservation form.  Property theorems only (helper lemmas live in Core/).
Part 1: cell-level face-flux matching, proved on the GENERATED ENO3 kernels, every axis, 2D/3D,
every pattern of the upwind switch.
-/
import SophtVerif.Gen.Kernels
import Mathlib.Tactic.Ring
import Mathlib.Tactic.Linarith
import Mathlib.Tactic.SplitIfs

namespace Sopht.Props.C04
open Sopht Sopht.Gen

variable {K : Type} [Field K] [LinearOrder K] [IsStrictOrderedRing K]

/-- The increment the x-front kernel adds at cell (i,j) (flux leaving through the +x face) plus the
increment the x-back kernel adds at (i,j+1) (the same face seen from the neighbour) vanish, for all
field and velocity values, i.e. in each of the upwind branches and for every combination of them. -/
theorem C04_face_match_x_2d (inv_dx : K) (a field vx : F2 K) (i j : ℤ) :
    (advection_flux_x_front_conservative_eno3_stencil_2d inv_dx a field vx i j - a i j)
      + (advection_flux_x_back_conservative_eno3_stencil_2d inv_dx a field vx i (j+1) - a i (j+1)) = 0 := by
  unfold advection_flux_x_front_conservative_eno3_stencil_2d advection_flux_x_back_conservative_eno3_stencil_2d
  have e1 : j + 1 - 1 = j := by ring
  have e2 : j + 1 - 2 = j - 1 := by ring
  have e3 : j + 1 + 1 = j + 2 := by ring
  simp only [e1, e2, e3]
  split_ifs with h1 h2 h2 <;> first | ring1 | (exfalso; linarith)

theorem C04_face_match_y_2d (inv_dx : K) (a field vy : F2 K) (i j : ℤ) :
    (advection_flux_y_front_conservative_eno3_stencil_2d inv_dx a field vy i j - a i j)
      + (advection_flux_y_back_conservative_eno3_stencil_2d inv_dx a field vy (i+1) j - a (i+1) j) = 0 := by
  unfold advection_flux_y_front_conservative_eno3_stencil_2d advection_flux_y_back_conservative_eno3_stencil_2d
  have e1 : i + 1 - 1 = i := by ring
  have e2 : i + 1 - 2 = i - 1 := by ring
  have e3 : i + 1 + 1 = i + 2 := by ring
  simp only [e1, e2, e3]
  split_ifs with h1 h2 h2 <;> first | ring1 | (exfalso; linarith)

theorem C04_face_match_x_3d (inv_dx : K) (a field vx : F3 K) (i j k : ℤ) :
    (advection_flux_x_front_conservative_eno3_stencil_3d inv_dx a field vx i j k - a i j k)
      + (advection_flux_x_back_conservative_eno3_stencil_3d inv_dx a field vx i j (k+1) - a i j (k+1)) = 0 := by
  unfold advection_flux_x_front_conservative_eno3_stencil_3d advection_flux_x_back_conservative_eno3_stencil_3d
  have e1 : k + 1 - 1 = k := by ring
  have e2 : k + 1 - 2 = k - 1 := by ring
  have e3 : k + 1 + 1 = k + 2 := by ring
  simp only [e1, e2, e3]
  split_ifs with h1 h2 h2 <;> first | ring1 | (exfalso; linarith)

theorem C04_face_match_y_3d (inv_dx : K) (a field vy : F3 K) (i j k : ℤ) :
    (advection_flux_y_front_conservative_eno3_stencil_3d inv_dx a field vy i j k - a i j k)
      + (advection_flux_y_back_conservative_eno3_stencil_3d inv_dx a field vy i (j+1) k - a i (j+1) k) = 0 := by
  unfold advection_flux_y_front_conservative_eno3_stencil_3d advection_flux_y_back_conservative_eno3_stencil_3d
  have e1 : j + 1 - 1 = j := by ring
  have e2 : j + 1 - 2 = j - 1 := by ring
  have e3 : j + 1 + 1 = j + 2 := by ring
  simp only [e1, e2, e3]
  split_ifs with h1 h2 h2 <;> first | ring1 | (exfalso; linarith)

theorem C04_face_match_z_3d (inv_dx : K) (a field vz : F3 K) (i j k : ℤ) :
    (advection_flux_z_front_conservative_eno3_stencil_3d inv_dx a field vz i j k - a i j k)
      + (advection_flux_z_back_conservative_eno3_stencil_3d inv_dx a field vz (i+1) j k - a (i+1) j k) = 0 := by
  unfold advection_flux_z_front_conservative_eno3_stencil_3d advection_flux_z_back_conservative_eno3_stencil_3d
  have e1 : i + 1 - 1 = i := by ring
  have e2 : i + 1 - 2 = i - 1 := by ring
  have e3 : i + 1 + 1 = i + 2 := by ring
  simp only [e1, e2, e3]
  split_ifs with h1 h2 h2 <;> first | ring1 | (exfalso; linarith)

/-- non-vacuity / branch coverage: with velocities of opposite sign the two cells take different
branches of their own switches, and the identity is evaluated on concrete numbers -/
example :
    let a : F2 ℚ := fun _ _ => 0
    let f : F2 ℚ := fun i j => (i + 2 * j + 1 : ℤ)
    let v : F2 ℚ := fun _ j => if j % 2 = 0 then 3 else -5
    (advection_flux_x_front_conservative_eno3_stencil_2d (7 : ℚ) a f v 0 0 - a 0 0) ≠ 0 ∧
    (advection_flux_x_front_conservative_eno3_stencil_2d (7 : ℚ) a f v 0 0 - a 0 0)
      + (advection_flux_x_back_conservative_eno3_stencil_2d (7 : ℚ) a f v 0 1 - a 0 1) = 0 := by
  constructor
  · simp [advection_flux_x_front_conservative_eno3_stencil_2d]; norm_num
  · exact C04_face_match_x_2d _ _ _ _ _ _

end Sopht.Props.C04
