/-
C04 (grid sum, step PROGRAM) — the 2D pre-solve step program (generated kernels + wrapper programs, tied to the
simulator by the exact trace) conserves the grid sum of vorticity: C04_step_conserves_sum transported through
C01 (`C14.pre_eq_spec`).
-/
import SophtVerif.Props.C04Sum
import SophtVerif.Props.C14
import SophtVerif.Props.C01_3D

set_option linter.unusedVariables false
set_option linter.unusedSectionVars false

namespace Sopht.Props.C04
open Sopht Sopht.Model Sopht.Spec Finset

variable {B K : Type} [DecidableEq B] [Field K] [LinearOrder K] [IsStrictOrderedRing K]

theorem gsum_congr (ny nx : ℕ) (f g : F2 K) (h : EqBox (ny : ℤ) (nx : ℤ) f g) : gsum ny nx f = gsum ny nx g := by
  unfold gsum
  apply Finset.sum_congr rfl; intro i hi
  apply Finset.sum_congr rfl; intro j hj
  simp only [mem_range] at hi hj
  exact h i j (by omega) (by omega) (by omega) (by omega)

/-- C04 (grid sum, 2D step program): for every store whose vorticity vanishes within 4 cells and whose forcing within
5 cells of the boundary, for ANY velocity field, viscosity, density, dt, forcing on or off, grid size, the vorticity
handed to the Poisson solve has the same sum over the grid as the incoming vorticity -/
theorem C04_program_conserves_sum (T : Transc K) (c : NS2Cfg K) (ny nx : ℕ) (hcy : c.ny = ny) (hcx : c.nx = nx) (hw : c.width = 0)
    (hny : 1 ≤ ny) (hnx : 1 ≤ nx) (b : NS2Bufs B) (hd : C01.Distinct2 b) (s : Store2 B K)
    (hω : Margin ny nx 4 (s b.vort)) (hFx : Margin ny nx 5 (s b.force.x)) (hFy : Margin ny nx 5 (s b.force.y)) :
    gsum ny nx (exec2 (C14.pre c b) s b.vort) = gsum ny nx (s b.vort) := by
  have h := C14.pre_eq_spec T c hw (by rw [hcy]; exact_mod_cast hny) (by rw [hcx]; exact_mod_cast hnx) b hd s
  rw [hcy, hcx] at h
  rw [gsum_congr ny nx _ _ h]
  unfold C14.preSpec
  rw [hcy, hcx]
  exact C04_step_conserves_sum ny nx _ _ _ c.forcing _ _ _ _ _ hω hFx hFy

/-- C04 (grid sum, 2D passive-transport step PROGRAM): unchanged for any velocity field, viscosity, dt when the transported
field vanishes within 4 cells of the boundary -/
theorem C04_passive_program_conserves_sum_2d (ny nx : ℕ) (hny : 1 ≤ ny) (hnx : 1 ≤ nx) (f flux : B) (vel : Vec2 B)
    (hne : flux ≠ f) (hvx : vel.x ≠ flux) (hvy : vel.y ≠ flux) (dt dx nu : K) (s : Store2 B K)
    (hm : Margin ny nx 4 (s f)) :
    gsum ny nx (exec2 (passiveStep2D ny nx f flux vel dt dx nu) s f) = gsum ny nx (s f) := by
  have h := C01.C01_passive_step_2d (ny : ℤ) (nx : ℤ) (by exact_mod_cast hny) (by exact_mod_cast hnx) f flux vel hne hvx hvy dt dx nu s
  rw [gsum_congr ny nx _ _ h, C04_diffuse_conserves_sum ny nx _ _ (advect_margin ny nx _ _ _ _ hm),
    C04_advect_conserves_sum ny nx _ _ _ _ hm]

end Sopht.Props.C04
