/-
C04 (grid sum) — one step conserves the sum of vorticity over the grid when vorticity and forcing vanish within
the reach of the step from the boundary, for ANY velocity field (non-compact), viscosity, density, dt.
Stated for the specification operators of Spec/Ops2D (which the 2D step programs are proved to realise: C01);
the program-level corollary is in Props/C04.lean.  Telescoping of the conservative fluxes.
-/
import SophtVerif.Spec.Ops2D
import Mathlib.Algebra.BigOperators.Group.Finset.Basic
import Mathlib.Algebra.BigOperators.Ring.Finset
import Mathlib.Algebra.BigOperators.Intervals
import Mathlib.Tactic.Ring
import Mathlib.Tactic.Linarith

set_option linter.unusedVariables false
set_option linter.unusedSectionVars false

namespace Sopht.Props.C04
open Sopht Sopht.Spec Finset

variable {K : Type} [Field K] [LinearOrder K] [IsStrictOrderedRing K]

/-- sum over the `ny × nx` grid -/
def gsum (ny nx : ℕ) (f : F2 K) : K := ∑ i ∈ range ny, ∑ j ∈ range nx, f (i : ℤ) (j : ℤ)

/-- `f` vanishes at every cell closer than `m` cells to a side of the grid (and outside the grid) -/
def Margin (ny nx : ℕ) (m : ℤ) (f : F2 K) : Prop :=
  ∀ i j : ℤ, ¬(m ≤ i ∧ i < (ny : ℤ) - m ∧ m ≤ j ∧ j < (nx : ℤ) - m) → f i j = 0

/-- telescoping along x: `Σ_j (g j − g (j−1)) = g (nx−1) − g (−1)` -/
theorem tele_x (nx : ℕ) (g : ℤ → K) : ∑ j ∈ range nx, (g (j : ℤ) - g ((j : ℤ) - 1)) = g ((nx : ℤ) - 1) - g (-1) := by
  have h := Finset.sum_range_sub (fun j : ℕ => g ((j : ℤ) - 1)) nx
  simp only [Nat.cast_zero, zero_sub] at h
  rw [← h]
  apply Finset.sum_congr rfl
  intro j _
  congr 2
  push_cast; ring

/-- telescoping of a centred difference: `Σ_j (g (j+1) − g (j−1)) = g nx + g (nx−1) − g 0 − g (−1)` -/
theorem tele_c (nx : ℕ) (g : ℤ → K) :
    ∑ j ∈ range nx, (g ((j : ℤ) + 1) - g ((j : ℤ) - 1)) = g (nx : ℤ) + g ((nx : ℤ) - 1) - g 0 - g (-1) := by
  have h1 := tele_x nx g
  have h2 := tele_x nx (fun j => g (j + 1))
  beta_reduce at h2
  have e : ∀ j : ℤ, j - 1 + 1 = j := fun j => by ring
  simp only [e] at h2
  have : ∑ j ∈ range nx, (g ((j : ℤ) + 1) - g ((j : ℤ) - 1))
      = ∑ j ∈ range nx, (g ((j : ℤ) + 1) - g (j : ℤ)) + ∑ j ∈ range nx, (g (j : ℤ) - g ((j : ℤ) - 1)) := by
    rw [← Finset.sum_add_distrib]; apply Finset.sum_congr rfl; intro j _; ring
  rw [this, h1, h2]
  have e2 : (-1 : ℤ) + 1 = 0 := by ring
  rw [e2]; ring

/-! ### advection -/

theorem enoFaceX_zero (w v : F2 K) (i j : ℤ) (h : ∀ d : ℤ, -1 ≤ d → d ≤ 2 → w i (j + d) = 0) : enoFaceX w v i j = 0 := by
  have a := h (-1) (by omega) (by omega); have b := h 0 (by omega) (by omega)
  have c := h 1 (by omega) (by omega); have d := h 2 (by omega) (by omega)
  have e1 : j + -1 = j - 1 := by ring
  have e0 : j + 0 = j := by ring
  rw [e1] at a; rw [e0] at b
  simp only [enoFaceX, a, b, c, d]
  split_ifs <;> ring

theorem enoFaceY_zero (w v : F2 K) (i j : ℤ) (h : ∀ d : ℤ, -1 ≤ d → d ≤ 2 → w (i + d) j = 0) : enoFaceY w v i j = 0 := by
  have a := h (-1) (by omega) (by omega); have b := h 0 (by omega) (by omega)
  have c := h 1 (by omega) (by omega); have d := h 2 (by omega) (by omega)
  have e1 : i + -1 = i - 1 := by ring
  have e0 : i + 0 = i := by ring
  rw [e1] at a; rw [e0] at b
  simp only [enoFaceY, a, b, c, d]
  split_ifs <;> ring

/-- with margin 4 the flux divergence vanishes wherever the operator does not act, so the operator is
`w − c·D` on the whole grid -/
theorem advectOp_eq (ny nx : ℕ) (c : K) (vx vy w : F2 K) (hm : Margin ny nx 4 w) (i j : ℤ) :
    advectOp ny nx c vx vy w i j = w i j - c * enoDivergence w vx vy i j := by
  simp only [advectOp]
  split_ifs with hin
  · rfl
  · have hz : enoDivergence w vx vy i j = 0 := by
      simp only [inner] at hin
      simp only [enoDivergence]
      rw [enoFaceX_zero w vx i j (fun d _ _ => hm _ _ (by omega)),
          enoFaceX_zero w vx i (j - 1) (fun d _ _ => hm _ _ (by omega)),
          enoFaceY_zero w vy i j (fun d _ _ => hm _ _ (by omega)),
          enoFaceY_zero w vy (i - 1) j (fun d _ _ => hm _ _ (by omega))]
      ring
    rw [hz]; ring

/-- C04 (advection, grid sum): for any velocity field the conservative ENO3 update leaves the grid sum unchanged -/
theorem C04_advect_conserves_sum (ny nx : ℕ) (c : K) (vx vy w : F2 K) (hm : Margin ny nx 4 w) :
    gsum ny nx (advectOp ny nx c vx vy w) = gsum ny nx w := by
  have hX : ∀ i : ℤ, ∑ j ∈ range nx, (enoFaceX w vx i (j : ℤ) - enoFaceX w vx i ((j : ℤ) - 1)) = 0 := by
    intro i
    rw [tele_x nx (fun j => enoFaceX w vx i j)]
    rw [enoFaceX_zero w vx i _ (fun d _ _ => hm _ _ (by omega)), enoFaceX_zero w vx i _ (fun d _ _ => hm _ _ (by omega))]
    ring
  have hY : ∀ j : ℤ, ∑ i ∈ range ny, (enoFaceY w vy (i : ℤ) j - enoFaceY w vy ((i : ℤ) - 1) j) = 0 := by
    intro j
    rw [tele_x ny (fun i => enoFaceY w vy i j)]
    rw [enoFaceY_zero w vy _ j (fun d _ _ => hm _ _ (by omega)), enoFaceY_zero w vy _ j (fun d _ _ => hm _ _ (by omega))]
    ring
  unfold gsum
  simp only [advectOp_eq ny nx c vx vy w hm, enoDivergence]
  have : ∀ i ∈ range ny, ∑ j ∈ range nx, (w (i : ℤ) (j : ℤ) - c * ((enoFaceX w vx i j - enoFaceX w vx i ((j : ℤ) - 1)) + (enoFaceY w vy i j - enoFaceY w vy ((i : ℤ) - 1) j)))
      = ∑ j ∈ range nx, w (i : ℤ) (j : ℤ) - c * ∑ j ∈ range nx, (enoFaceY w vy i j - enoFaceY w vy ((i : ℤ) - 1) j) := by
    intro i _
    rw [Finset.sum_sub_distrib, ← Finset.mul_sum, Finset.sum_add_distrib, hX i, zero_add]
  have hz : ∑ i ∈ range ny, ∑ j ∈ range nx, (enoFaceY w vy (i : ℤ) (j : ℤ) - enoFaceY w vy ((i : ℤ) - 1) (j : ℤ)) = 0 := by
    rw [Finset.sum_comm]; exact Finset.sum_eq_zero (fun j _ => hY j)
  rw [Finset.sum_congr rfl this, Finset.sum_sub_distrib, ← Finset.mul_sum, hz]
  ring

/-- support after advection: margin 4 shrinks to margin 2 -/
theorem advect_margin (ny nx : ℕ) (c : K) (vx vy w : F2 K) (hm : Margin ny nx 4 w) :
    Margin ny nx 2 (advectOp ny nx c vx vy w) := by
  intro i j hout
  rw [advectOp_eq ny nx c vx vy w hm]
  have hw : w i j = 0 := hm i j (by omega)
  simp only [enoDivergence]
  rw [hw, enoFaceX_zero w vx i j (fun d _ _ => hm _ _ (by omega)),
      enoFaceX_zero w vx i (j - 1) (fun d _ _ => hm _ _ (by omega)),
      enoFaceY_zero w vy i j (fun d _ _ => hm _ _ (by omega)),
      enoFaceY_zero w vy (i - 1) j (fun d _ _ => hm _ _ (by omega))]
  ring

/-! ### diffusion -/

theorem diffuseOp_eq (ny nx : ℕ) (r : K) (w : F2 K) (hm : Margin ny nx 2 w) (i j : ℤ) :
    diffuseOp ny nx r w i j = w i j + r * ((w (i + 1) j - w i j) - (w i j - w (i - 1) j) + ((w i (j + 1) - w i j) - (w i j - w i (j - 1)))) := by
  simp only [diffuseOp]
  split_ifs with hin
  · ring
  · simp only [inner] at hin
    rw [hm i j (by omega), hm (i + 1) j (by omega), hm (i - 1) j (by omega), hm i (j + 1) (by omega), hm i (j - 1) (by omega)]
    ring

/-- C04 (diffusion, grid sum) -/
theorem C04_diffuse_conserves_sum (ny nx : ℕ) (r : K) (w : F2 K) (hm : Margin ny nx 2 w) :
    gsum ny nx (diffuseOp ny nx r w) = gsum ny nx w := by
  have hX : ∀ i : ℤ, ∑ j ∈ range nx, ((w i ((j : ℤ) + 1) - w i j) - (w i j - w i ((j : ℤ) - 1))) = 0 := by
    intro i
    have := tele_x nx (fun j => w i (j + 1) - w i j)
    beta_reduce at this
    have e : ∀ j : ℤ, j - 1 + 1 = j := fun j => by ring
    simp only [e] at this
    rw [this, hm i _ (by omega), hm i _ (by omega), hm i _ (by omega), hm i _ (by omega)]
    ring
  have hY : ∀ j : ℤ, ∑ i ∈ range ny, ((w ((i : ℤ) + 1) j - w i j) - (w i j - w ((i : ℤ) - 1) j)) = 0 := by
    intro j
    have := tele_x ny (fun i => w (i + 1) j - w i j)
    beta_reduce at this
    have e : ∀ i : ℤ, i - 1 + 1 = i := fun i => by ring
    simp only [e] at this
    rw [this, hm _ j (by omega), hm _ j (by omega), hm _ j (by omega), hm _ j (by omega)]
    ring
  unfold gsum
  simp only [diffuseOp_eq ny nx r w hm]
  have : ∀ i ∈ range ny, ∑ j ∈ range nx, (w (i : ℤ) (j : ℤ) + r * ((w ((i : ℤ) + 1) j - w i j) - (w i j - w ((i : ℤ) - 1) j) + ((w i ((j : ℤ) + 1) - w i j) - (w i j - w i ((j : ℤ) - 1)))))
      = ∑ j ∈ range nx, w (i : ℤ) (j : ℤ) + r * ∑ j ∈ range nx, ((w ((i : ℤ) + 1) j - w i j) - (w i j - w ((i : ℤ) - 1) j)) := by
    intro i _
    rw [Finset.sum_add_distrib, ← Finset.mul_sum, Finset.sum_add_distrib, hX i, add_zero]
  have hz : ∑ i ∈ range ny, ∑ j ∈ range nx, ((w ((i : ℤ) + 1) (j : ℤ) - w i j) - (w i j - w ((i : ℤ) - 1) (j : ℤ))) = 0 := by
    rw [Finset.sum_comm]; exact Finset.sum_eq_zero (fun j _ => hY j)
  rw [Finset.sum_congr rfl this, Finset.sum_add_distrib, ← Finset.mul_sum, hz]
  ring

/-! ### forcing -/

theorem forcingOp_eq (ny nx : ℕ) (p : K) (Fx Fy w : F2 K) (hx : Margin ny nx 2 Fx) (hy : Margin ny nx 2 Fy) (i j : ℤ) :
    forcingOp ny nx p Fx Fy w i j = w i j + p * curl2h Fx Fy i j := by
  simp only [forcingOp]
  split_ifs with hin
  · rfl
  · simp only [inner] at hin
    simp only [curl2h]
    rw [hy i (j + 1) (by omega), hy i (j - 1) (by omega), hx (i + 1) j (by omega), hx (i - 1) j (by omega)]
    ring

/-- C04 (forcing, grid sum): the curl of a compactly supported forcing adds nothing to the grid sum -/
theorem C04_forcing_conserves_sum (ny nx : ℕ) (p : K) (Fx Fy w : F2 K) (hx : Margin ny nx 2 Fx) (hy : Margin ny nx 2 Fy) :
    gsum ny nx (forcingOp ny nx p Fx Fy w) = gsum ny nx w := by
  have hX : ∀ i : ℤ, ∑ j ∈ range nx, (Fy i ((j : ℤ) + 1) - Fy i ((j : ℤ) - 1)) = 0 := by
    intro i
    rw [tele_c nx (fun j => Fy i j), hy i _ (by omega), hy i _ (by omega), hy i _ (by omega), hy i _ (by omega)]
    ring
  have hY : ∀ j : ℤ, ∑ i ∈ range ny, (Fx ((i : ℤ) + 1) j - Fx ((i : ℤ) - 1) j) = 0 := by
    intro j
    rw [tele_c ny (fun i => Fx i j), hx _ j (by omega), hx _ j (by omega), hx _ j (by omega), hx _ j (by omega)]
    ring
  unfold gsum
  simp only [forcingOp_eq ny nx p Fx Fy w hx hy, curl2h]
  have : ∀ i ∈ range ny, ∑ j ∈ range nx, (w (i : ℤ) (j : ℤ) + p * (Fy i ((j : ℤ) + 1) - Fy i ((j : ℤ) - 1) - Fx ((i : ℤ) + 1) j + Fx ((i : ℤ) - 1) j))
      = ∑ j ∈ range nx, w (i : ℤ) (j : ℤ) - p * ∑ j ∈ range nx, (Fx ((i : ℤ) + 1) j - Fx ((i : ℤ) - 1) j) := by
    intro i _
    have e : ∀ j : ℕ, w (i : ℤ) (j : ℤ) + p * (Fy i ((j : ℤ) + 1) - Fy i ((j : ℤ) - 1) - Fx ((i : ℤ) + 1) j + Fx ((i : ℤ) - 1) j)
        = w (i : ℤ) (j : ℤ) + p * (Fy i ((j : ℤ) + 1) - Fy i ((j : ℤ) - 1)) - p * (Fx ((i : ℤ) + 1) j - Fx ((i : ℤ) - 1) j) := fun j => by ring
    simp only [e]
    rw [Finset.sum_sub_distrib, Finset.sum_add_distrib, ← Finset.mul_sum, ← Finset.mul_sum, hX i, mul_zero, add_zero]
  have hz : ∑ i ∈ range ny, ∑ j ∈ range nx, (Fx ((i : ℤ) + 1) (j : ℤ) - Fx ((i : ℤ) - 1) (j : ℤ)) = 0 := by
    rw [Finset.sum_comm]; exact Finset.sum_eq_zero (fun j _ => hY j)
  rw [Finset.sum_congr rfl this, Finset.sum_sub_distrib, ← Finset.mul_sum, hz]
  ring

/-- support after forcing: with `w` of margin 4 and `F` of margin 5 the forced vorticity has margin 4 -/
theorem forcing_margin (ny nx : ℕ) (p : K) (Fx Fy w : F2 K) (hw : Margin ny nx 4 w) (hx : Margin ny nx 5 Fx) (hy : Margin ny nx 5 Fy) :
    Margin ny nx 4 (forcingOp ny nx p Fx Fy w) := by
  intro i j hout
  have hx2 : Margin ny nx 2 Fx := fun i j h => hx i j (by omega)
  have hy2 : Margin ny nx 2 Fy := fun i j h => hy i j (by omega)
  rw [forcingOp_eq ny nx p Fx Fy w hx2 hy2, hw i j hout]
  simp only [curl2h]
  rw [hy i (j + 1) (by omega), hy i (j - 1) (by omega), hx (i + 1) j (by omega), hx (i - 1) j (by omega)]
  ring

/-- C04 (grid sum, composed 2D step of the specification): forcing (optional), ENO3 advection with ANY velocity
field, diffusion — the sum of vorticity over the grid is unchanged when vorticity vanishes within 4 cells and the
forcing within 5 cells of the boundary -/
theorem C04_step_conserves_sum (ny nx : ℕ) (p c r : K) (forcing : Bool) (Fx Fy vx vy w : F2 K)
    (hw : Margin ny nx 4 w) (hx : Margin ny nx 5 Fx) (hy : Margin ny nx 5 Fy) :
    gsum ny nx (diffuseOp ny nx r (advectOp ny nx c vx vy (if forcing then forcingOp ny nx p Fx Fy w else w)))
      = gsum ny nx w := by
  have hx2 : Margin ny nx 2 Fx := fun i j h => hx i j (by omega)
  have hy2 : Margin ny nx 2 Fy := fun i j h => hy i j (by omega)
  cases forcing
  · simp only [Bool.false_eq_true, if_false]
    rw [C04_diffuse_conserves_sum ny nx r _ (advect_margin ny nx c vx vy w hw), C04_advect_conserves_sum ny nx c vx vy w hw]
  · simp only [if_true]
    have hm := forcing_margin ny nx p Fx Fy w hw hx hy
    rw [C04_diffuse_conserves_sum ny nx r _ (advect_margin ny nx c vx vy _ hm), C04_advect_conserves_sum ny nx c vx vy _ hm,
      C04_forcing_conserves_sum ny nx p Fx Fy w hx2 hy2]

end Sopht.Props.C04
