/-
C04 (grid sum, 3D Navier–Stokes) — the 3D pre-solve step (forcing → rotational-form transport → diffusion) leaves the
sum over the grid of EACH vorticity component unchanged when vorticity vanishes within 4 cells and the forcing within
5 cells of the boundary, for ANY velocity field, viscosity, density, dt, grid size.  Specification level
(Spec/Ops3D.coreSpec3), transported to the step PROGRAM through C01.core3_spec.
-/
import SophtVerif.Props.C04Sum
import SophtVerif.Props.C01_3D
import SophtVerif.Props.C04

set_option linter.unusedVariables false
set_option linter.unusedSectionVars false

namespace Sopht.Props.C04
open Sopht Sopht.Spec Finset Sopht.Props.C01

variable {K : Type} [Field K] [LinearOrder K] [IsStrictOrderedRing K]

def gsum3 (nz ny nx : ℕ) (f : F3 K) : K := ∑ i ∈ range nz, ∑ j ∈ range ny, ∑ k ∈ range nx, f (i : ℤ) (j : ℤ) (k : ℤ)

def Margin3 (nz ny nx : ℕ) (m : ℤ) (f : F3 K) : Prop :=
  ∀ i j k : ℤ, ¬(m ≤ i ∧ i < (nz : ℤ) - m ∧ m ≤ j ∧ j < (ny : ℤ) - m ∧ m ≤ k ∧ k < (nx : ℤ) - m) → f i j k = 0

def MarginV (nz ny nx : ℕ) (m : ℤ) (F : V3F K) : Prop := Margin3 nz ny nx m F.x ∧ Margin3 nz ny nx m F.y ∧ Margin3 nz ny nx m F.z

theorem Margin3.mono {nz ny nx : ℕ} {m m' : ℤ} {f : F3 K} (h : Margin3 nz ny nx m f) (hm : m' ≤ m) : Margin3 nz ny nx m' f :=
  fun i j k hn => h i j k (by omega)

theorem gsum3_add (nz ny nx : ℕ) (f g : F3 K) (p : K) :
    gsum3 nz ny nx (fun i j k => f i j k + p * g i j k) = gsum3 nz ny nx f + p * gsum3 nz ny nx g := by
  simp only [gsum3, Finset.sum_add_distrib, Finset.mul_sum]

/-- centred differences of a field that vanishes within 2 cells of the boundary sum to zero, in each direction -/
theorem sum_dx_zero (nz ny nx : ℕ) (g : F3 K) (hg : Margin3 nz ny nx 2 g) :
    gsum3 nz ny nx (fun i j k => g i j (k + 1) - g i j (k - 1)) = 0 := by
  unfold gsum3
  apply Finset.sum_eq_zero; intro i _; apply Finset.sum_eq_zero; intro j _
  rw [tele_c nx (fun k => g i j k), hg _ _ _ (by omega), hg _ _ _ (by omega), hg _ _ _ (by omega), hg _ _ _ (by omega)]
  ring

theorem sum_dy_zero (nz ny nx : ℕ) (g : F3 K) (hg : Margin3 nz ny nx 2 g) :
    gsum3 nz ny nx (fun i j k => g i (j + 1) k - g i (j - 1) k) = 0 := by
  unfold gsum3
  apply Finset.sum_eq_zero; intro i _
  rw [Finset.sum_comm]
  apply Finset.sum_eq_zero; intro k _
  rw [tele_c ny (fun j => g i j k), hg _ _ _ (by omega), hg _ _ _ (by omega), hg _ _ _ (by omega), hg _ _ _ (by omega)]
  ring

theorem sum_dz_zero (nz ny nx : ℕ) (g : F3 K) (hg : Margin3 nz ny nx 2 g) :
    gsum3 nz ny nx (fun i j k => g (i + 1) j k - g (i - 1) j k) = 0 := by
  unfold gsum3
  rw [Finset.sum_comm]
  apply Finset.sum_eq_zero; intro j _
  rw [Finset.sum_comm]
  apply Finset.sum_eq_zero; intro k _
  rw [tele_c nz (fun i => g i j k), hg _ _ _ (by omega), hg _ _ _ (by omega), hg _ _ _ (by omega), hg _ _ _ (by omega)]
  ring

theorem gsum3_sub (nz ny nx : ℕ) (f g : F3 K) :
    gsum3 nz ny nx (fun i j k => f i j k - g i j k) = gsum3 nz ny nx f - gsum3 nz ny nx g := by
  simp only [gsum3, Finset.sum_sub_distrib]

/-- the grid sum of every component of `2h curl F` vanishes for a field with margin 2 -/
theorem sum_curl_zero (nz ny nx : ℕ) (F : V3F K) (hF : MarginV nz ny nx 2 F) :
    gsum3 nz ny nx (curl3h F).x = 0 ∧ gsum3 nz ny nx (curl3h F).y = 0 ∧ gsum3 nz ny nx (curl3h F).z = 0 := by
  obtain ⟨hx, hy, hz⟩ := hF
  refine ⟨?_, ?_, ?_⟩
  · have := gsum3_sub nz ny nx (fun i j k => F.z i (j+1) k - F.z i (j-1) k) (fun i j k => F.y (i+1) j k - F.y (i-1) j k)
    simp only [curl3h]; rw [this, sum_dy_zero nz ny nx F.z hz, sum_dz_zero nz ny nx F.y hy]; ring
  · have := gsum3_sub nz ny nx (fun i j k => F.x (i+1) j k - F.x (i-1) j k) (fun i j k => F.z i j (k+1) - F.z i j (k-1))
    simp only [curl3h]; rw [this, sum_dz_zero nz ny nx F.x hx, sum_dx_zero nz ny nx F.z hz]; ring
  · have := gsum3_sub nz ny nx (fun i j k => F.y i j (k+1) - F.y i j (k-1)) (fun i j k => F.x i (j+1) k - F.x i (j-1) k)
    simp only [curl3h]; rw [this, sum_dx_zero nz ny nx F.y hy, sum_dy_zero nz ny nx F.x hx]; ring

/-- the curl of a margin-`m+1` field has margin `m` -/
theorem curl_margin (nz ny nx : ℕ) (m : ℤ) (F : V3F K) (hF : MarginV nz ny nx (m + 1) F) : MarginV nz ny nx m (curl3h F) := by
  obtain ⟨hx, hy, hz⟩ := hF
  refine ⟨?_, ?_, ?_⟩ <;> intro i j k hn <;> simp only [curl3h]
  · rw [hz _ _ _ (by omega), hz _ _ _ (by omega), hy _ _ _ (by omega), hy _ _ _ (by omega)]; ring
  · rw [hx _ _ _ (by omega), hx _ _ _ (by omega), hz _ _ _ (by omega), hz _ _ _ (by omega)]; ring
  · rw [hy _ _ _ (by omega), hy _ _ _ (by omega), hx _ _ _ (by omega), hx _ _ _ (by omega)]; ring

theorem addInner_eq (nz ny nx : ℕ) (p : K) (w g : F3 K) (hg : Margin3 nz ny nx 1 g) (i j k : ℤ) :
    addInner nz ny nx p w g i j k = w i j k + p * g i j k := by
  simp only [addInner]
  split_ifs with hin
  · rfl
  · rw [hg i j k (by simp only [innerB] at hin; omega)]; ring

/-- forcing-type update: sums and margins -/
theorem forcingOp3_sum (nz ny nx : ℕ) (p : K) (F w : V3F K) (hF : MarginV nz ny nx 2 F) :
    gsum3 nz ny nx (forcingOp3 nz ny nx p F w).x = gsum3 nz ny nx w.x ∧ gsum3 nz ny nx (forcingOp3 nz ny nx p F w).y = gsum3 nz ny nx w.y ∧
    gsum3 nz ny nx (forcingOp3 nz ny nx p F w).z = gsum3 nz ny nx w.z := by
  have hc := curl_margin nz ny nx 1 F hF
  obtain ⟨sx, sy, sz⟩ := sum_curl_zero nz ny nx F hF
  have e : ∀ (w g : F3 K), Margin3 nz ny nx 1 g → addInner nz ny nx p w g = fun i j k => w i j k + p * g i j k :=
    fun w g hg => by funext i j k; exact addInner_eq nz ny nx p w g hg i j k
  refine ⟨?_, ?_, ?_⟩ <;> simp only [forcingOp3]
  · rw [e _ _ hc.1, gsum3_add, sx]; ring
  · rw [e _ _ hc.2.1, gsum3_add, sy]; ring
  · rw [e _ _ hc.2.2, gsum3_add, sz]; ring

theorem forcingOp3_margin (nz ny nx : ℕ) (m : ℤ) (hm : 1 ≤ m) (p : K) (F w : V3F K) (hF : MarginV nz ny nx (m + 1) F) (hw : MarginV nz ny nx m w) :
    MarginV nz ny nx m (forcingOp3 nz ny nx p F w) := by
  have hc := curl_margin nz ny nx m F hF
  obtain ⟨wx, wy, wz⟩ := hw
  refine ⟨?_, ?_, ?_⟩ <;> intro i j k hn <;> simp only [forcingOp3, addInner]
  · rw [wx i j k hn, hc.1 i j k hn]; split_ifs <;> ring
  · rw [wy i j k hn, hc.2.1 i j k hn]; split_ifs <;> ring
  · rw [wz i j k hn, hc.2.2 i j k hn]; split_ifs <;> ring

theorem cross3_margin (nz ny nx : ℕ) (m : ℤ) (u w : V3F K) (hw : MarginV nz ny nx m w) : MarginV nz ny nx m (cross3 u w) := by
  obtain ⟨wx, wy, wz⟩ := hw
  refine ⟨?_, ?_, ?_⟩ <;> intro i j k hn <;> simp only [cross3]
  · rw [wy i j k hn, wz i j k hn]; ring
  · rw [wx i j k hn, wz i j k hn]; ring
  · rw [wx i j k hn, wy i j k hn]; ring

/-- diffusion of one component -/
theorem diffuse1_sum (nz ny nx : ℕ) (r : K) (f : F3 K) (hf : Margin3 nz ny nx 2 f) :
    gsum3 nz ny nx (diffuse1 nz ny nx r f) = gsum3 nz ny nx f := by
  have e : diffuse1 nz ny nx r f = fun i j k => f i j k + r *
      (((f (i+1) j k - f i j k) - (f i j k - f (i-1) j k)) + ((f i (j+1) k - f i j k) - (f i j k - f i (j-1) k))
        + ((f i j (k+1) - f i j k) - (f i j k - f i j (k-1)))) := by
    funext i j k
    simp only [diffuse1]
    split_ifs with hin
    · ring
    · simp only [innerB] at hin
      rw [hf i j k (by omega), hf (i+1) j k (by omega), hf (i-1) j k (by omega), hf i (j+1) k (by omega), hf i (j-1) k (by omega),
        hf i j (k+1) (by omega), hf i j (k-1) (by omega)]
      ring
  rw [e, gsum3_add]
  -- the three second differences sum to zero
  have hz : gsum3 nz ny nx (fun i j k => ((f (i+1) j k - f i j k) - (f i j k - f (i-1) j k))) = 0 := by
    unfold gsum3
    rw [Finset.sum_comm]; apply Finset.sum_eq_zero; intro j _
    rw [Finset.sum_comm]; apply Finset.sum_eq_zero; intro k _
    have := tele_x nz (fun i => f (i + 1) j k - f i j k)
    beta_reduce at this
    have e : ∀ i : ℤ, i - 1 + 1 = i := fun i => by ring
    simp only [e] at this
    rw [this, hf _ _ _ (by omega), hf _ _ _ (by omega), hf _ _ _ (by omega), hf _ _ _ (by omega)]; ring
  have hy : gsum3 nz ny nx (fun i j k => ((f i (j+1) k - f i j k) - (f i j k - f i (j-1) k))) = 0 := by
    unfold gsum3
    apply Finset.sum_eq_zero; intro i _
    rw [Finset.sum_comm]; apply Finset.sum_eq_zero; intro k _
    have := tele_x ny (fun j => f i (j + 1) k - f i j k)
    beta_reduce at this
    have e : ∀ i : ℤ, i - 1 + 1 = i := fun i => by ring
    simp only [e] at this
    rw [this, hf _ _ _ (by omega), hf _ _ _ (by omega), hf _ _ _ (by omega), hf _ _ _ (by omega)]; ring
  have hx : gsum3 nz ny nx (fun i j k => ((f i j (k+1) - f i j k) - (f i j k - f i j (k-1)))) = 0 := by
    unfold gsum3
    apply Finset.sum_eq_zero; intro i _; apply Finset.sum_eq_zero; intro j _
    have := tele_x nx (fun k => f i j (k + 1) - f i j k)
    beta_reduce at this
    have e : ∀ i : ℤ, i - 1 + 1 = i := fun i => by ring
    simp only [e] at this
    rw [this, hf _ _ _ (by omega), hf _ _ _ (by omega), hf _ _ _ (by omega), hf _ _ _ (by omega)]; ring
  have hsplit : gsum3 nz ny nx (fun i j k => ((f (i+1) j k - f i j k) - (f i j k - f (i-1) j k)) + ((f i (j+1) k - f i j k) - (f i j k - f i (j-1) k))
        + ((f i j (k+1) - f i j k) - (f i j k - f i j (k-1)))) = 0 := by
    have : ∀ a b c : F3 K, gsum3 nz ny nx (fun i j k => a i j k + b i j k + c i j k) = gsum3 nz ny nx a + gsum3 nz ny nx b + gsum3 nz ny nx c := by
      intro a b c; simp only [gsum3, Finset.sum_add_distrib]
    rw [this (fun i j k => ((f (i+1) j k - f i j k) - (f i j k - f (i-1) j k))) (fun i j k => ((f i (j+1) k - f i j k) - (f i j k - f i (j-1) k)))
      (fun i j k => ((f i j (k+1) - f i j k) - (f i j k - f i j (k-1)))), hz, hy, hx]
    ring
  rw [hsplit]; ring

/-- C04 (3D Navier–Stokes, specification of the pre-solve step): every vorticity component keeps its grid sum -/
theorem C04_core3_conserves_sum (c : Model.NS3Cfg K) (nz ny nx : ℕ) (hz : c.nz = nz) (hy : c.ny = ny) (hx : c.nx = nx) (F u w : V3F K)
    (hw : MarginV nz ny nx 4 w) (hF : MarginV nz ny nx 5 F) :
    gsum3 nz ny nx (coreSpec3 c F u w).x = gsum3 nz ny nx w.x ∧ gsum3 nz ny nx (coreSpec3 c F u w).y = gsum3 nz ny nx w.y ∧
    gsum3 nz ny nx (coreSpec3 c F u w).z = gsum3 nz ny nx w.z := by
  unfold coreSpec3
  rw [hz, hy, hx]
  set w1 := (if c.forcing then forcingOp3 nz ny nx (c.dt / (2 * c.dx * c.rho)) F w else w) with hw1
  have hF2 : MarginV nz ny nx 2 F := ⟨hF.1.mono (by omega), hF.2.1.mono (by omega), hF.2.2.mono (by omega)⟩
  have m1 : MarginV nz ny nx 4 w1 := by
    rw [hw1]; cases c.forcing
    · exact hw
    · exact forcingOp3_margin nz ny nx 4 (by omega) _ F w hF hw
  have s1 : gsum3 nz ny nx w1.x = gsum3 nz ny nx w.x ∧ gsum3 nz ny nx w1.y = gsum3 nz ny nx w.y ∧ gsum3 nz ny nx w1.z = gsum3 nz ny nx w.z := by
    rw [hw1]; cases c.forcing
    · exact ⟨rfl, rfl, rfl⟩
    · exact forcingOp3_sum nz ny nx _ F w hF2
  have mc : MarginV nz ny nx 4 (cross3 u w1) := cross3_margin nz ny nx 4 u w1 m1
  have mc2 : MarginV nz ny nx 2 (cross3 u w1) := ⟨mc.1.mono (by omega), mc.2.1.mono (by omega), mc.2.2.mono (by omega)⟩
  have s2 := forcingOp3_sum nz ny nx (c.dt / (2 * c.dx)) (cross3 u w1) w1 mc2
  have m2 : MarginV nz ny nx 3 (rotationalOp3 nz ny nx (c.dt / (2 * c.dx)) u w1) :=
    forcingOp3_margin nz ny nx 3 (by omega) _ _ w1 mc ⟨m1.1.mono (by omega), m1.2.1.mono (by omega), m1.2.2.mono (by omega)⟩
  simp only [diffuseOp3]
  refine ⟨?_, ?_, ?_⟩
  · rw [diffuse1_sum nz ny nx _ _ (m2.1.mono (by omega))]; exact s2.1.trans s1.1
  · rw [diffuse1_sum nz ny nx _ _ (m2.2.1.mono (by omega))]; exact s2.2.1.trans s1.2.1
  · rw [diffuse1_sum nz ny nx _ _ (m2.2.2.mono (by omega))]; exact s2.2.2.trans s1.2.2

section Program
variable {B : Type} [DecidableEq B]
open Sopht.Model

theorem gsum3_congr (nz ny nx : ℕ) (f g : F3 K) (h : EqB (nz : ℤ) (ny : ℤ) (nx : ℤ) f g) : gsum3 nz ny nx f = gsum3 nz ny nx g := by
  unfold gsum3
  apply Finset.sum_congr rfl; intro i hi
  apply Finset.sum_congr rfl; intro j hj
  apply Finset.sum_congr rfl; intro k hk
  simp only [mem_range] at hi hj hk
  exact h i j k (by simp only [inB]; omega)

/-- C04 (grid sum, 3D step PROGRAM): forcing, rotational-form transport and diffusion of the 3D Navier–Stokes step leave
the grid sum of each vorticity component unchanged (vorticity zero within 4, forcing within 5 cells of the boundary; any
velocity field, viscosity, density, dt, forcing on/off, non-cubic sizes) -/
theorem C04_program_conserves_sum_3d (c : NS3Cfg K) (nz ny nx : ℕ) (hz : c.nz = nz) (hy : c.ny = ny) (hx : c.nx = nx)
    (hnz : 1 ≤ nz) (hny : 1 ≤ ny) (hnx : 1 ≤ nx) (b : NS3Bufs B) (hd : Distinct3 b) (s : Store3 B K)
    (hω : MarginV nz ny nx 4 (vecOf s b.vort)) (hF : MarginV nz ny nx 5 (vecOf s b.force)) :
    gsum3 nz ny nx (exec3 (core3 c b) s b.vort.x) = gsum3 nz ny nx (s b.vort.x) ∧
    gsum3 nz ny nx (exec3 (core3 c b) s b.vort.y) = gsum3 nz ny nx (s b.vort.y) ∧
    gsum3 nz ny nx (exec3 (core3 c b) s b.vort.z) = gsum3 nz ny nx (s b.vort.z) := by
  have h := core3_spec c (by rw [hz]; exact_mod_cast hnz) (by rw [hy]; exact_mod_cast hny) (by rw [hx]; exact_mod_cast hnx) b hd s
  rw [hz, hy, hx] at h
  obtain ⟨sx, sy, sz⟩ := C04_core3_conserves_sum c nz ny nx hz hy hx (vecOf s b.force) (vecOf s b.vel) (vecOf s b.vort) hω hF
  exact ⟨(gsum3_congr nz ny nx _ _ h.1).trans sx, (gsum3_congr nz ny nx _ _ h.2.1).trans sy, (gsum3_congr nz ny nx _ _ h.2.2).trans sz⟩

end Program

/-! ### 3D passive transport of a scalar: ENO3 advection + diffusion -/

section Passive
open Sopht.Gen Sopht.Model

theorem xb_eq_neg_xf (c : K) (f v : F3 K) (i j k : ℤ) : xbIncr3 c f v i j k = -xfIncr3 c f v i j (k - 1) := by
  have h := C04_face_match_x_3d c zero3 f v i j (k - 1)
  have e : k - 1 + 1 = k := by ring
  rw [e] at h
  simp only [xbIncr3, xfIncr3]
  simp only [zero3, sub_zero] at h
  linarith [h]

theorem yb_eq_neg_yf (c : K) (f v : F3 K) (i j k : ℤ) : ybIncr3 c f v i j k = -yfIncr3 c f v i (j - 1) k := by
  have h := C04_face_match_y_3d c zero3 f v i (j - 1) k
  have e : j - 1 + 1 = j := by ring
  rw [e] at h
  simp only [ybIncr3, yfIncr3]
  simp only [zero3, sub_zero] at h
  linarith [h]

theorem zb_eq_neg_zf (c : K) (f v : F3 K) (i j k : ℤ) : zbIncr3 c f v i j k = -zfIncr3 c f v (i - 1) j k := by
  have h := C04_face_match_z_3d c zero3 f v (i - 1) j k
  have e : i - 1 + 1 = i := by ring
  rw [e] at h
  simp only [zbIncr3, zfIncr3]
  simp only [zero3, sub_zero] at h
  linarith [h]

theorem xf_zero (c : K) (f v : F3 K) (i j k : ℤ) (h : ∀ d : ℤ, -1 ≤ d → d ≤ 2 → f i j (k + d) = 0) : xfIncr3 c f v i j k = 0 := by
  have a := h (-1) (by omega) (by omega); have b := h 0 (by omega) (by omega)
  have c' := h 1 (by omega) (by omega); have d := h 2 (by omega) (by omega)
  have e1 : k + -1 = k - 1 := by ring
  have e0 : k + 0 = k := by ring
  rw [e1] at a; rw [e0] at b
  simp only [xfIncr3, zero3, advection_flux_x_front_conservative_eno3_stencil_3d, a, b, c', d]
  split_ifs <;> ring

theorem yf_zero (c : K) (f v : F3 K) (i j k : ℤ) (h : ∀ d : ℤ, -1 ≤ d → d ≤ 2 → f i (j + d) k = 0) : yfIncr3 c f v i j k = 0 := by
  have a := h (-1) (by omega) (by omega); have b := h 0 (by omega) (by omega)
  have c' := h 1 (by omega) (by omega); have d := h 2 (by omega) (by omega)
  have e1 : j + -1 = j - 1 := by ring
  have e0 : j + 0 = j := by ring
  rw [e1] at a; rw [e0] at b
  simp only [yfIncr3, zero3, advection_flux_y_front_conservative_eno3_stencil_3d, a, b, c', d]
  split_ifs <;> ring

theorem zf_zero (c : K) (f v : F3 K) (i j k : ℤ) (h : ∀ d : ℤ, -1 ≤ d → d ≤ 2 → f (i + d) j k = 0) : zfIncr3 c f v i j k = 0 := by
  have a := h (-1) (by omega) (by omega); have b := h 0 (by omega) (by omega)
  have c' := h 1 (by omega) (by omega); have d := h 2 (by omega) (by omega)
  have e1 : i + -1 = i - 1 := by ring
  have e0 : i + 0 = i := by ring
  rw [e1] at a; rw [e0] at b
  simp only [zfIncr3, zero3, advection_flux_z_front_conservative_eno3_stencil_3d, a, b, c', d]
  split_ifs <;> ring

/-- conservative form of the 3D ENO3 divergence: differences of face fluxes -/
theorem enoDiv3_faces (c : K) (f vx vy vz : F3 K) (i j k : ℤ) :
    enoDiv3 c f vx vy vz i j k = (xfIncr3 c f vx i j k - xfIncr3 c f vx i j (k - 1)) + (yfIncr3 c f vy i j k - yfIncr3 c f vy i (j - 1) k)
      + (zfIncr3 c f vz i j k - zfIncr3 c f vz (i - 1) j k) := by
  simp only [enoDiv3, xb_eq_neg_xf, yb_eq_neg_yf, zb_eq_neg_zf]; ring

theorem advect3_eq (nz ny nx : ℕ) (c : K) (vx vy vz f : F3 K) (hm : Margin3 nz ny nx 4 f) (i j k : ℤ) :
    advect3 nz ny nx c vx vy vz f i j k = f i j k + enoDiv3 (-c) f vx vy vz i j k := by
  simp only [advect3]
  split_ifs with hin
  · rfl
  · simp only [innerB] at hin
    rw [enoDiv3_faces, xf_zero _ f vx i j k (fun d _ _ => hm _ _ _ (by omega)), xf_zero _ f vx i j (k - 1) (fun d _ _ => hm _ _ _ (by omega)),
      yf_zero _ f vy i j k (fun d _ _ => hm _ _ _ (by omega)), yf_zero _ f vy i (j - 1) k (fun d _ _ => hm _ _ _ (by omega)),
      zf_zero _ f vz i j k (fun d _ _ => hm _ _ _ (by omega)), zf_zero _ f vz (i - 1) j k (fun d _ _ => hm _ _ _ (by omega))]
    ring

/-- C04 (3D ENO3 advection, grid sum): for ANY velocity field the conservative update leaves the grid sum unchanged -/
theorem C04_advect3_conserves_sum (nz ny nx : ℕ) (c : K) (vx vy vz f : F3 K) (hm : Margin3 nz ny nx 4 f) :
    gsum3 nz ny nx (advect3 nz ny nx c vx vy vz f) = gsum3 nz ny nx f := by
  have e : advect3 nz ny nx c vx vy vz f = fun i j k => f i j k + 1 * enoDiv3 (-c) f vx vy vz i j k := by
    funext i j k; rw [advect3_eq nz ny nx c vx vy vz f hm]; ring
  rw [e, gsum3_add]
  have hX : gsum3 nz ny nx (fun i j k => xfIncr3 (-c) f vx i j k - xfIncr3 (-c) f vx i j (k - 1)) = 0 := by
    unfold gsum3
    apply Finset.sum_eq_zero; intro i _; apply Finset.sum_eq_zero; intro j _
    rw [tele_x nx (fun k => xfIncr3 (-c) f vx i j k), xf_zero _ f vx _ _ _ (fun d _ _ => hm _ _ _ (by omega)),
      xf_zero _ f vx _ _ _ (fun d _ _ => hm _ _ _ (by omega))]
    ring
  have hY : gsum3 nz ny nx (fun i j k => yfIncr3 (-c) f vy i j k - yfIncr3 (-c) f vy i (j - 1) k) = 0 := by
    unfold gsum3
    apply Finset.sum_eq_zero; intro i _
    rw [Finset.sum_comm]; apply Finset.sum_eq_zero; intro k _
    rw [tele_x ny (fun j => yfIncr3 (-c) f vy i j k), yf_zero _ f vy _ _ _ (fun d _ _ => hm _ _ _ (by omega)),
      yf_zero _ f vy _ _ _ (fun d _ _ => hm _ _ _ (by omega))]
    ring
  have hZ : gsum3 nz ny nx (fun i j k => zfIncr3 (-c) f vz i j k - zfIncr3 (-c) f vz (i - 1) j k) = 0 := by
    unfold gsum3
    rw [Finset.sum_comm]; apply Finset.sum_eq_zero; intro j _
    rw [Finset.sum_comm]; apply Finset.sum_eq_zero; intro k _
    rw [tele_x nz (fun i => zfIncr3 (-c) f vz i j k), zf_zero _ f vz _ _ _ (fun d _ _ => hm _ _ _ (by omega)),
      zf_zero _ f vz _ _ _ (fun d _ _ => hm _ _ _ (by omega))]
    ring
  have hsplit : gsum3 nz ny nx (enoDiv3 (-c) f vx vy vz) = 0 := by
    have e2 : enoDiv3 (-c) f vx vy vz = fun i j k => (xfIncr3 (-c) f vx i j k - xfIncr3 (-c) f vx i j (k - 1))
        + (yfIncr3 (-c) f vy i j k - yfIncr3 (-c) f vy i (j - 1) k) + (zfIncr3 (-c) f vz i j k - zfIncr3 (-c) f vz (i - 1) j k) := by
      funext i j k; exact enoDiv3_faces _ _ _ _ _ i j k
    have h3 : ∀ a b c' : F3 K, gsum3 nz ny nx (fun i j k => a i j k + b i j k + c' i j k) = gsum3 nz ny nx a + gsum3 nz ny nx b + gsum3 nz ny nx c' := by
      intro a b c'; simp only [gsum3, Finset.sum_add_distrib]
    rw [e2, h3 (fun i j k => xfIncr3 (-c) f vx i j k - xfIncr3 (-c) f vx i j (k - 1)) (fun i j k => yfIncr3 (-c) f vy i j k - yfIncr3 (-c) f vy i (j - 1) k)
      (fun i j k => zfIncr3 (-c) f vz i j k - zfIncr3 (-c) f vz (i - 1) j k), hX, hY, hZ]
    ring
  rw [hsplit]; ring

theorem advect3_margin (nz ny nx : ℕ) (c : K) (vx vy vz f : F3 K) (hm : Margin3 nz ny nx 4 f) :
    Margin3 nz ny nx 2 (advect3 nz ny nx c vx vy vz f) := by
  intro i j k hout
  rw [advect3_eq nz ny nx c vx vy vz f hm, enoDiv3_faces, hm i j k (by omega),
    xf_zero _ f vx i j k (fun d _ _ => hm _ _ _ (by omega)), xf_zero _ f vx i j (k - 1) (fun d _ _ => hm _ _ _ (by omega)),
    yf_zero _ f vy i j k (fun d _ _ => hm _ _ _ (by omega)), yf_zero _ f vy i (j - 1) k (fun d _ _ => hm _ _ _ (by omega)),
    zf_zero _ f vz i j k (fun d _ _ => hm _ _ _ (by omega)), zf_zero _ f vz (i - 1) j k (fun d _ _ => hm _ _ _ (by omega))]
  ring

variable {B : Type} [DecidableEq B]

/-- C04 (grid sum, 3D passive-transport step PROGRAM of a scalar): unchanged for any velocity field, viscosity, dt when
the field vanishes within 4 cells of the boundary -/
theorem C04_passive_program_conserves_sum_3d (nz ny nx : ℕ) (hnz : 1 ≤ nz) (hny : 1 ≤ ny) (hnx : 1 ≤ nx) (f flux : B) (vel : Vec3 B)
    (hne : flux ≠ f) (hvx : vel.x ≠ flux) (hvy : vel.y ≠ flux) (hvz : vel.z ≠ flux) (dt dx nu : K) (s : Store3 B K)
    (hm : Margin3 nz ny nx 4 (s f)) :
    gsum3 nz ny nx (exec3 (passiveStep3D nz ny nx f flux vel dt dx nu) s f) = gsum3 nz ny nx (s f) := by
  have h := C01_passive_step_3d (nz : ℤ) (ny : ℤ) (nx : ℤ) (by exact_mod_cast hnz) (by exact_mod_cast hny) (by exact_mod_cast hnx)
    f flux vel hne hvx hvy hvz dt dx nu s
  rw [gsum3_congr nz ny nx _ _ h, diffuse1_sum nz ny nx _ _ (advect3_margin nz ny nx _ _ _ _ _ hm),
    C04_advect3_conserves_sum nz ny nx _ _ _ _ _ hm]

/-- C04 (grid sum, 3D passive-transport step PROGRAM of a VECTOR field): the grid sum of EVERY component is unchanged, for
any velocity field, viscosity and dt, when the component vanishes within 4 cells of the boundary (one shared flux buffer) -/
theorem C04_passive_vec_program_conserves_sum_3d (nz ny nx : ℕ) (hnz : 1 ≤ nz) (hny : 1 ≤ ny) (hnx : 1 ≤ nx) (f : Vec3 B) (flux : B)
    (vel : Vec3 B) (hfv : C13.Distinct33 f vel) (hfx : flux ≠ f.x) (hfy : flux ≠ f.y) (hfz : flux ≠ f.z)
    (hvx : vel.x ≠ flux) (hvy : vel.y ≠ flux) (hvz : vel.z ≠ flux) (dt dx nu : K) (s : Store3 B K)
    (hmx : Margin3 nz ny nx 4 (s f.x)) (hmy : Margin3 nz ny nx 4 (s f.y)) (hmz : Margin3 nz ny nx 4 (s f.z)) :
    gsum3 nz ny nx (exec3 (passiveStepVec3D nz ny nx f flux vel dt dx nu) s f.x) = gsum3 nz ny nx (s f.x) ∧
    gsum3 nz ny nx (exec3 (passiveStepVec3D nz ny nx f flux vel dt dx nu) s f.y) = gsum3 nz ny nx (s f.y) ∧
    gsum3 nz ny nx (exec3 (passiveStepVec3D nz ny nx f flux vel dt dx nu) s f.z) = gsum3 nz ny nx (s f.z) := by
  obtain ⟨hx, hy, hz⟩ := C01_passive_step_vec_3d (nz : ℤ) (ny : ℤ) (nx : ℤ) (by exact_mod_cast hnz) (by exact_mod_cast hny)
    (by exact_mod_cast hnx) f flux vel hfv hfx hfy hfz hvx hvy hvz dt dx nu s
  simp only [vecOf, diffuseOp3, advectV3] at hx hy hz
  refine ⟨?_, ?_, ?_⟩
  · rw [gsum3_congr nz ny nx _ _ hx, diffuse1_sum nz ny nx _ _ (advect3_margin nz ny nx _ _ _ _ _ hmx),
      C04_advect3_conserves_sum nz ny nx _ _ _ _ _ hmx]
  · rw [gsum3_congr nz ny nx _ _ hy, diffuse1_sum nz ny nx _ _ (advect3_margin nz ny nx _ _ _ _ _ hmy),
      C04_advect3_conserves_sum nz ny nx _ _ _ _ _ hmy]
  · rw [gsum3_congr nz ny nx _ _ hz, diffuse1_sum nz ny nx _ _ (advect3_margin nz ny nx _ _ _ _ _ hmz),
      C04_advect3_conserves_sum nz ny nx _ _ _ _ _ hmz]

end Passive

end Sopht.Props.C04
