/-
C05 — every finite-difference operator reproduces its continuous counterpart exactly on
polynomials of degree ≤ 2 (ENO3: cubics in the same-direction branches), with the documented sign,
axis orientation (x along the last array axis) and prefactor convention.  All statements are about
the GENERATED kernels; `h ≠ 0` arbitrary, cell (i,j[,k]) arbitrary, coefficients symbolic.
-/
import SophtVerif.Gen.Kernels
import SophtVerif.Core.Poly
import Mathlib.Tactic.Ring
import Mathlib.Tactic.Linarith
import Mathlib.Tactic.FieldSimp
import Mathlib.Tactic.SplitIfs

set_option linter.unusedTactic false
set_option linter.unreachableTactic false
set_option linter.unusedVariables false

namespace Sopht.Props.C05
open Sopht Sopht.Gen

variable {K : Type} [Field K] [LinearOrder K] [IsStrictOrderedRing K]

/-- closes `stencil(poly) = continuous operator(poly)` goals -/
macro "poly_exact" : tactic =>
  `(tactic| (simp only [Quad2.field, Quad2.eval, Quad2.dx, Quad2.dy, Quad2.lap, Quad3.field, Quad3.eval,
      Quad3.dx, Quad3.dy, Quad3.dz, Quad3.lap, xc]; push_cast; field_simp; ring))

/-! ### diffusion flux = ν dt Δ  (prefactor convention `ν dt / h²`) -/

theorem C05_diffusion_2d (h c : K) (hh : h ≠ 0) (p : Quad2 K) (i j : ℤ) :
    diffusion_stencil_2d (c / h ^ 2) (p.field h) i j = c * p.lap := by
  unfold diffusion_stencil_2d; poly_exact

theorem C05_diffusion_3d (h c : K) (hh : h ≠ 0) (p : Quad3 K) (i j k : ℤ) :
    diffusion_stencil_3d (c / h ^ 2) (p.field h) i j k = c * p.lap := by
  unfold diffusion_stencil_3d; poly_exact

/-! ### 2D curls (prefactor convention `1 / (2h)`) -/

/-- out-of-plane curl of a stream function: `u_x = ∂ψ/∂y` -/
theorem C05_outplane_curl_x_2d (h : K) (hh : h ≠ 0) (p : Quad2 K) (i j : ℤ) :
    outplane_field_curl_x_stencil_2d (1 / (2 * h)) (p.field h) i j = p.dy (xc h j) (xc h i) := by
  unfold outplane_field_curl_x_stencil_2d; poly_exact

/-- out-of-plane curl of a stream function: `u_y = -∂ψ/∂x` -/
theorem C05_outplane_curl_y_2d (h : K) (hh : h ≠ 0) (p : Quad2 K) (i j : ℤ) :
    outplane_field_curl_y_stencil_2d (1 / (2 * h)) (p.field h) i j = - p.dx (xc h j) (xc h i) := by
  unfold outplane_field_curl_y_stencil_2d; poly_exact

/-- in-plane curl: `∂F_y/∂x − ∂F_x/∂y` -/
theorem C05_inplane_curl_2d (h : K) (hh : h ≠ 0) (px py : Quad2 K) (i j : ℤ) :
    inplane_field_curl_stencil_2d (1 / (2 * h)) (px.field h) (py.field h) i j
      = py.dx (xc h j) (xc h i) - px.dy (xc h j) (xc h i) := by
  unfold inplane_field_curl_stencil_2d; poly_exact

/-- vorticity update from a velocity forcing: `ω + c (∂F_y/∂x − ∂F_x/∂y)` for `prefactor = c/(2h)` -/
theorem C05_update_vorticity_from_forcing_2d (h c : K) (hh : h ≠ 0) (px py : Quad2 K) (w : F2 K) (i j : ℤ) :
    update_vorticity_from_velocity_forcing_stencil_2d (c / (2 * h)) (px.field h) (py.field h) w i j
      = w i j + c * (py.dx (xc h j) (xc h i) - px.dy (xc h j) (xc h i)) := by
  unfold update_vorticity_from_velocity_forcing_stencil_2d; poly_exact

/-- vorticity update from a penalised velocity: `ω + c curl(u − u_pen)` -/
theorem C05_update_vorticity_from_penalised_2d (h c : K) (hh : h ≠ 0) (ppx ppy pvx pvy : Quad2 K) (w : F2 K)
    (i j : ℤ) :
    update_vorticity_from_penalised_velocity_stencil_2d (c / (2 * h)) (ppx.field h) (ppy.field h)
        (pvx.field h) (pvy.field h) w i j
      = w i j + c * ((ppy.dx (xc h j) (xc h i) - pvy.dx (xc h j) (xc h i))
                      - (ppx.dy (xc h j) (xc h i) - pvx.dy (xc h j) (xc h i))) := by
  unfold update_vorticity_from_penalised_velocity_stencil_2d; poly_exact

/-! ### 3D curl, divergence -/

/-- `(curl F)_x = ∂F_z/∂y − ∂F_y/∂z` -/
theorem C05_curl_x_3d (h : K) (hh : h ≠ 0) (py pz : Quad3 K) (i j k : ℤ) :
    curl_x_comp_stencil_3d (1 / (2 * h)) (py.field h) (pz.field h) i j k
      = pz.dy (xc h k) (xc h j) (xc h i) - py.dz (xc h k) (xc h j) (xc h i) := by
  unfold curl_x_comp_stencil_3d; poly_exact

/-- `(curl F)_y = ∂F_x/∂z − ∂F_z/∂x` -/
theorem C05_curl_y_3d (h : K) (hh : h ≠ 0) (px pz : Quad3 K) (i j k : ℤ) :
    curl_y_comp_stencil_3d (1 / (2 * h)) (px.field h) (pz.field h) i j k
      = px.dz (xc h k) (xc h j) (xc h i) - pz.dx (xc h k) (xc h j) (xc h i) := by
  unfold curl_y_comp_stencil_3d; poly_exact

/-- `(curl F)_z = ∂F_y/∂x − ∂F_x/∂y` -/
theorem C05_curl_z_3d (h : K) (hh : h ≠ 0) (px py : Quad3 K) (i j k : ℤ) :
    curl_z_comp_stencil_3d (1 / (2 * h)) (px.field h) (py.field h) i j k
      = py.dx (xc h k) (xc h j) (xc h i) - px.dy (xc h k) (xc h j) (xc h i) := by
  unfold curl_z_comp_stencil_3d; poly_exact

/-- divergence with `inv_dx = 1/h` (the kernel carries the factor 1/2 itself) -/
theorem C05_divergence_3d (h : K) (hh : h ≠ 0) (px py pz : Quad3 K) (i j k : ℤ) :
    divergence_stencil_3d (1 / h) (px.field h) (py.field h) (pz.field h) i j k
      = px.dx (xc h k) (xc h j) (xc h i) + py.dy (xc h k) (xc h j) (xc h i)
        + pz.dz (xc h k) (xc h j) (xc h i) := by
  unfold divergence_stencil_3d; poly_exact

theorem C05_update_vorticity_from_forcing_x_3d (h c : K) (hh : h ≠ 0) (py pz : Quad3 K) (w : F3 K) (i j k : ℤ) :
    update_vorticity_from_velocity_forcing_x_comp_stencil_3d (c / (2 * h)) (py.field h) (pz.field h) w i j k
      = w i j k + c * (pz.dy (xc h k) (xc h j) (xc h i) - py.dz (xc h k) (xc h j) (xc h i)) := by
  unfold update_vorticity_from_velocity_forcing_x_comp_stencil_3d; poly_exact

theorem C05_update_vorticity_from_forcing_y_3d (h c : K) (hh : h ≠ 0) (px pz : Quad3 K) (w : F3 K) (i j k : ℤ) :
    update_vorticity_from_velocity_forcing_y_comp_stencil_3d (c / (2 * h)) (px.field h) (pz.field h) w i j k
      = w i j k + c * (px.dz (xc h k) (xc h j) (xc h i) - pz.dx (xc h k) (xc h j) (xc h i)) := by
  unfold update_vorticity_from_velocity_forcing_y_comp_stencil_3d; poly_exact

theorem C05_update_vorticity_from_forcing_z_3d (h c : K) (hh : h ≠ 0) (px py : Quad3 K) (w : F3 K) (i j k : ℤ) :
    update_vorticity_from_velocity_forcing_z_comp_stencil_3d (c / (2 * h)) (px.field h) (py.field h) w i j k
      = w i j k + c * (py.dx (xc h k) (xc h j) (xc h i) - px.dy (xc h k) (xc h j) (xc h i)) := by
  unfold update_vorticity_from_velocity_forcing_z_comp_stencil_3d; poly_exact

theorem C05_update_vorticity_from_penalised_x_3d (h c : K) (hh : h ≠ 0) (ppy ppz pvy pvz : Quad3 K) (w : F3 K)
    (i j k : ℤ) :
    update_vorticity_from_penalised_velocity_x_comp_stencil_3d (c / (2 * h)) (ppy.field h) (ppz.field h)
        (pvy.field h) (pvz.field h) w i j k
      = w i j k + c * ((ppz.dy (xc h k) (xc h j) (xc h i) - pvz.dy (xc h k) (xc h j) (xc h i))
                      - (ppy.dz (xc h k) (xc h j) (xc h i) - pvy.dz (xc h k) (xc h j) (xc h i))) := by
  unfold update_vorticity_from_penalised_velocity_x_comp_stencil_3d; poly_exact

theorem C05_update_vorticity_from_penalised_y_3d (h c : K) (hh : h ≠ 0) (ppx ppz pvx pvz : Quad3 K) (w : F3 K)
    (i j k : ℤ) :
    update_vorticity_from_penalised_velocity_y_comp_stencil_3d (c / (2 * h)) (ppx.field h) (ppz.field h)
        (pvx.field h) (pvz.field h) w i j k
      = w i j k + c * ((ppx.dz (xc h k) (xc h j) (xc h i) - pvx.dz (xc h k) (xc h j) (xc h i))
                      - (ppz.dx (xc h k) (xc h j) (xc h i) - pvz.dx (xc h k) (xc h j) (xc h i))) := by
  unfold update_vorticity_from_penalised_velocity_y_comp_stencil_3d; poly_exact

theorem C05_update_vorticity_from_penalised_z_3d (h c : K) (hh : h ≠ 0) (ppx ppy pvx pvy : Quad3 K) (w : F3 K)
    (i j k : ℤ) :
    update_vorticity_from_penalised_velocity_z_comp_stencil_3d (c / (2 * h)) (ppx.field h) (ppy.field h)
        (pvx.field h) (pvy.field h) w i j k
      = w i j k + c * ((ppy.dx (xc h k) (xc h j) (xc h i) - pvy.dx (xc h k) (xc h j) (xc h i))
                      - (ppx.dy (xc h k) (xc h j) (xc h i) - pvx.dy (xc h k) (xc h j) (xc h i))) := by
  unfold update_vorticity_from_penalised_velocity_z_comp_stencil_3d; poly_exact

/-- vortex stretching flux `(ω·∇) u_c` for `prefactor = c/(2h)`; vorticity values arbitrary -/
theorem C05_stretching_flux_3d (h c : K) (hh : h ≠ 0) (pu : Quad3 K) (wx wy wz : F3 K) (i j k : ℤ) :
    vorticity_stretching_flux_single_comp_stencil_3d (c / (2 * h)) (pu.field h) wx wy wz i j k
      = c * (wx i j k * pu.dx (xc h k) (xc h j) (xc h i) + wy i j k * pu.dy (xc h k) (xc h j) (xc h i)
              + wz i j k * pu.dz (xc h k) (xc h j) (xc h i)) := by
  unfold vorticity_stretching_flux_single_comp_stencil_3d; poly_exact

/-! ### one-dimensional filter Laplacians: `−(h²/4) ∂²/∂a²` -/

theorem C05_filter_x (h : K) (p : Quad3 K) (i j k : ℤ) :
    laplacian_filter_3d_x (p.field h) i j k = -(h ^ 2 / 4) * (2 * p.axx) := by
  unfold laplacian_filter_3d_x
  simp only [Quad3.field, Quad3.eval, xc]; push_cast; ring

theorem C05_filter_y (h : K) (p : Quad3 K) (i j k : ℤ) :
    laplacian_filter_3d_y (p.field h) i j k = -(h ^ 2 / 4) * (2 * p.ayy) := by
  unfold laplacian_filter_3d_y
  simp only [Quad3.field, Quad3.eval, xc]; push_cast; ring

theorem C05_filter_z (h : K) (p : Quad3 K) (i j k : ℤ) :
    laplacian_filter_3d_z (p.field h) i j k = -(h ^ 2 / 4) * (2 * p.azz) := by
  unfold laplacian_filter_3d_z
  simp only [Quad3.field, Quad3.eval, xc]; push_cast; ring

/-! ### conservative ENO3 flux difference

`q` is the nodal flux (field × velocity at cell centres) along the axis of the kernel pair.  The
total increment of the flux buffer by the front and back kernels is `inv_dx · (F₊ − F₋)`.
Same-direction branches: exact `h q'` for cubics.  All four branch combinations: exact for quadratics. -/

section eno
variable (inv_dx h : K) (q : Cubic1 K)

theorem C05_eno3_x_2d_cubic_same_dir (a f v : F2 K) (i j : ℤ)
    (hq : ∀ n, f i n * v i n = q.eval (xc h n))
    (hdir : (-(v i (j+1)) < v i j ∧ -(v i (j-1)) < v i j) ∨ (¬ -(v i (j+1)) < v i j ∧ ¬ -(v i (j-1)) < v i j)) :
    (advection_flux_x_front_conservative_eno3_stencil_2d inv_dx a f v i j - a i j)
      + (advection_flux_x_back_conservative_eno3_stencil_2d inv_dx a f v i j - a i j)
      = inv_dx * (h * q.deriv (xc h j)) := by
  have key : ∀ (c : K) n, c * f i n * v i n = c * q.eval (xc h n) := by intro c n; rw [mul_assoc, hq]
  unfold advection_flux_x_front_conservative_eno3_stencil_2d advection_flux_x_back_conservative_eno3_stencil_2d
  simp only [key]
  rcases hdir with ⟨h1, h2⟩ | ⟨h1, h2⟩ <;> simp only [h1, h2, if_true, if_false] <;>
    (simp only [Cubic1.eval, Cubic1.deriv, xc]; push_cast; ring)

theorem C05_eno3_y_2d_cubic_same_dir (a f v : F2 K) (i j : ℤ)
    (hq : ∀ n, f n j * v n j = q.eval (xc h n))
    (hdir : (-(v (i+1) j) < v i j ∧ -(v (i-1) j) < v i j) ∨ (¬ -(v (i+1) j) < v i j ∧ ¬ -(v (i-1) j) < v i j)) :
    (advection_flux_y_front_conservative_eno3_stencil_2d inv_dx a f v i j - a i j)
      + (advection_flux_y_back_conservative_eno3_stencil_2d inv_dx a f v i j - a i j)
      = inv_dx * (h * q.deriv (xc h i)) := by
  have key : ∀ (c : K) n, c * f n j * v n j = c * q.eval (xc h n) := by intro c n; rw [mul_assoc, hq]
  unfold advection_flux_y_front_conservative_eno3_stencil_2d advection_flux_y_back_conservative_eno3_stencil_2d
  simp only [key]
  rcases hdir with ⟨h1, h2⟩ | ⟨h1, h2⟩ <;> simp only [h1, h2, if_true, if_false] <;>
    (simp only [Cubic1.eval, Cubic1.deriv, xc]; push_cast; ring)

/-- quadratics: exact in every one of the four branch combinations -/
theorem C05_eno3_x_2d_quadratic_any_dir (a f v : F2 K) (i j : ℤ) (hq3 : q.c3 = 0)
    (hq : ∀ n, f i n * v i n = q.eval (xc h n)) :
    (advection_flux_x_front_conservative_eno3_stencil_2d inv_dx a f v i j - a i j)
      + (advection_flux_x_back_conservative_eno3_stencil_2d inv_dx a f v i j - a i j)
      = inv_dx * (h * q.deriv (xc h j)) := by
  have key : ∀ (c : K) n, c * f i n * v i n = c * q.eval (xc h n) := by intro c n; rw [mul_assoc, hq]
  unfold advection_flux_x_front_conservative_eno3_stencil_2d advection_flux_x_back_conservative_eno3_stencil_2d
  simp only [key]
  split_ifs <;> (simp only [Cubic1.eval, Cubic1.deriv, xc, hq3]; push_cast; ring)

theorem C05_eno3_y_2d_quadratic_any_dir (a f v : F2 K) (i j : ℤ) (hq3 : q.c3 = 0)
    (hq : ∀ n, f n j * v n j = q.eval (xc h n)) :
    (advection_flux_y_front_conservative_eno3_stencil_2d inv_dx a f v i j - a i j)
      + (advection_flux_y_back_conservative_eno3_stencil_2d inv_dx a f v i j - a i j)
      = inv_dx * (h * q.deriv (xc h i)) := by
  have key : ∀ (c : K) n, c * f n j * v n j = c * q.eval (xc h n) := by intro c n; rw [mul_assoc, hq]
  unfold advection_flux_y_front_conservative_eno3_stencil_2d advection_flux_y_back_conservative_eno3_stencil_2d
  simp only [key]
  split_ifs <;> (simp only [Cubic1.eval, Cubic1.deriv, xc, hq3]; push_cast; ring)

/-! 3D: the nodal flux varies along the axis of the kernel pair; the other two indices are fixed -/

theorem C05_eno3_x_3d_cubic_same_dir (a f v : F3 K) (i j k : ℤ)
    (hq : ∀ n, f i j n * v i j n = q.eval (xc h n))
    (hdir : (-(v i j (k+1)) < v i j k ∧ -(v i j k) < v i j (k-1)) ∨ (¬ -(v i j (k+1)) < v i j k ∧ ¬ -(v i j k) < v i j (k-1))) :
    (advection_flux_x_front_conservative_eno3_stencil_3d inv_dx a f v i j k - a i j k)
      + (advection_flux_x_back_conservative_eno3_stencil_3d inv_dx a f v i j k - a i j k)
      = inv_dx * (h * q.deriv (xc h k)) := by
  have key : ∀ (c : K) n, c * f i j n * v i j n = c * q.eval (xc h n) := by intro c n; rw [mul_assoc, hq]
  unfold advection_flux_x_front_conservative_eno3_stencil_3d advection_flux_x_back_conservative_eno3_stencil_3d
  simp only [key]
  rcases hdir with ⟨h1, h2⟩ | ⟨h1, h2⟩ <;> simp only [h1, h2, if_true, if_false] <;>
    (simp only [Cubic1.eval, Cubic1.deriv, xc]; push_cast; ring)

theorem C05_eno3_y_3d_cubic_same_dir (a f v : F3 K) (i j k : ℤ)
    (hq : ∀ n, f i n k * v i n k = q.eval (xc h n))
    (hdir : (-(v i (j+1) k) < v i j k ∧ -(v i (j-1) k) < v i j k) ∨ (¬ -(v i (j+1) k) < v i j k ∧ ¬ -(v i (j-1) k) < v i j k)) :
    (advection_flux_y_front_conservative_eno3_stencil_3d inv_dx a f v i j k - a i j k)
      + (advection_flux_y_back_conservative_eno3_stencil_3d inv_dx a f v i j k - a i j k)
      = inv_dx * (h * q.deriv (xc h j)) := by
  have key : ∀ (c : K) n, c * f i n k * v i n k = c * q.eval (xc h n) := by intro c n; rw [mul_assoc, hq]
  unfold advection_flux_y_front_conservative_eno3_stencil_3d advection_flux_y_back_conservative_eno3_stencil_3d
  simp only [key]
  rcases hdir with ⟨h1, h2⟩ | ⟨h1, h2⟩ <;> simp only [h1, h2, if_true, if_false] <;>
    (simp only [Cubic1.eval, Cubic1.deriv, xc]; push_cast; ring)

theorem C05_eno3_z_3d_cubic_same_dir (a f v : F3 K) (i j k : ℤ)
    (hq : ∀ n, f n j k * v n j k = q.eval (xc h n))
    (hdir : (-(v (i+1) j k) < v i j k ∧ -(v (i-1) j k) < v i j k) ∨ (¬ -(v (i+1) j k) < v i j k ∧ ¬ -(v (i-1) j k) < v i j k)) :
    (advection_flux_z_front_conservative_eno3_stencil_3d inv_dx a f v i j k - a i j k)
      + (advection_flux_z_back_conservative_eno3_stencil_3d inv_dx a f v i j k - a i j k)
      = inv_dx * (h * q.deriv (xc h i)) := by
  have key : ∀ (c : K) n, c * f n j k * v n j k = c * q.eval (xc h n) := by intro c n; rw [mul_assoc, hq]
  unfold advection_flux_z_front_conservative_eno3_stencil_3d advection_flux_z_back_conservative_eno3_stencil_3d
  simp only [key]
  rcases hdir with ⟨h1, h2⟩ | ⟨h1, h2⟩ <;> simp only [h1, h2, if_true, if_false] <;>
    (simp only [Cubic1.eval, Cubic1.deriv, xc]; push_cast; ring)

theorem C05_eno3_x_3d_quadratic_any_dir (a f v : F3 K) (i j k : ℤ) (hq3 : q.c3 = 0)
    (hq : ∀ n, f i j n * v i j n = q.eval (xc h n)) :
    (advection_flux_x_front_conservative_eno3_stencil_3d inv_dx a f v i j k - a i j k)
      + (advection_flux_x_back_conservative_eno3_stencil_3d inv_dx a f v i j k - a i j k)
      = inv_dx * (h * q.deriv (xc h k)) := by
  have key : ∀ (c : K) n, c * f i j n * v i j n = c * q.eval (xc h n) := by intro c n; rw [mul_assoc, hq]
  unfold advection_flux_x_front_conservative_eno3_stencil_3d advection_flux_x_back_conservative_eno3_stencil_3d
  simp only [key]
  split_ifs <;> (simp only [Cubic1.eval, Cubic1.deriv, xc, hq3]; push_cast; ring)

theorem C05_eno3_y_3d_quadratic_any_dir (a f v : F3 K) (i j k : ℤ) (hq3 : q.c3 = 0)
    (hq : ∀ n, f i n k * v i n k = q.eval (xc h n)) :
    (advection_flux_y_front_conservative_eno3_stencil_3d inv_dx a f v i j k - a i j k)
      + (advection_flux_y_back_conservative_eno3_stencil_3d inv_dx a f v i j k - a i j k)
      = inv_dx * (h * q.deriv (xc h j)) := by
  have key : ∀ (c : K) n, c * f i n k * v i n k = c * q.eval (xc h n) := by intro c n; rw [mul_assoc, hq]
  unfold advection_flux_y_front_conservative_eno3_stencil_3d advection_flux_y_back_conservative_eno3_stencil_3d
  simp only [key]
  split_ifs <;> (simp only [Cubic1.eval, Cubic1.deriv, xc, hq3]; push_cast; ring)

theorem C05_eno3_z_3d_quadratic_any_dir (a f v : F3 K) (i j k : ℤ) (hq3 : q.c3 = 0)
    (hq : ∀ n, f n j k * v n j k = q.eval (xc h n)) :
    (advection_flux_z_front_conservative_eno3_stencil_3d inv_dx a f v i j k - a i j k)
      + (advection_flux_z_back_conservative_eno3_stencil_3d inv_dx a f v i j k - a i j k)
      = inv_dx * (h * q.deriv (xc h i)) := by
  have key : ∀ (c : K) n, c * f n j k * v n j k = c * q.eval (xc h n) := by intro c n; rw [mul_assoc, hq]
  unfold advection_flux_z_front_conservative_eno3_stencil_3d advection_flux_z_back_conservative_eno3_stencil_3d
  simp only [key]
  split_ifs <;> (simp only [Cubic1.eval, Cubic1.deriv, xc, hq3]; push_cast; ring)

end eno

end Sopht.Props.C05
