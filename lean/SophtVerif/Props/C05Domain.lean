/-
C05 / C02 / C01 (the grid the package sets up) — the coordinates `_init_domain` computes are the documented uniform grid:
cell centre k of every axis is (k + 1/2)·dx with the ONE spacing dx = x_range / nx, consecutive centres are dx apart, and the
axis extent is (number of cells)·dx.  The finite-difference operators (C05) difference with this dx on every axis, the
analytic fields of C02 are written on these coordinates.  Tied to the code by `corr.domain` (position_field, dx, y_range,
z_range of all three simulator classes against this model at ℚ, non-square / non-cubic grids, any x_range).
-/
import SophtVerif.Model.Domain
import Mathlib.Tactic.FieldSimp
import Mathlib.Tactic.Ring
import Mathlib.Tactic.Linarith
import Mathlib.Algebra.Order.Field.Basic

namespace Sopht.Props.C05
open Sopht.Model.Domain

variable {K : Type} [Field K] [LinearOrder K] [IsStrictOrderedRing K]

/-- the code's `linspace` between first and last cell centre IS the uniform grid of cell centres -/
theorem C05_domain_centres (xRange : K) (nx n k : ℕ) (hnx : 0 < nx) (hn : 2 ≤ n) :
    centre xRange nx n k = ((k : K) + 1 / 2) * dx xRange nx := by
  unfold centre linspace axisRange dx
  have hx : (nx : K) ≠ 0 := by exact_mod_cast hnx.ne'
  have hn1 : (((n - 1 : ℕ)) : K) ≠ 0 := by
    have : 0 < n - 1 := by omega
    exact_mod_cast this.ne'
  have hcast : (((n - 1 : ℕ)) : K) = (n : K) - 1 := by
    rw [Nat.cast_sub (by omega)]; simp
  rw [hcast] at hn1 ⊢
  field_simp
  ring

/-- consecutive cell centres are one spacing apart, on every axis -/
theorem C05_domain_spacing (xRange : K) (nx n k : ℕ) (hnx : 0 < nx) (hn : 2 ≤ n) :
    centre xRange nx n (k + 1) - centre xRange nx n k = dx xRange nx := by
  rw [C05_domain_centres _ _ _ _ hnx hn, C05_domain_centres _ _ _ _ hnx hn]
  push_cast; ring

/-- the axis extent is (number of cells)·dx: the last centre is half a spacing inside, the first half a spacing from 0 -/
theorem C05_domain_extent (xRange : K) (nx n : ℕ) (hnx : 0 < nx) (hn : 2 ≤ n) :
    axisRange xRange nx n = (n : K) * dx xRange nx ∧
    centre xRange nx n 0 = dx xRange nx / 2 ∧
    centre xRange nx n (n - 1) = axisRange xRange nx n - dx xRange nx / 2 := by
  have hx : (nx : K) ≠ 0 := by exact_mod_cast hnx.ne'
  refine ⟨?_, ?_, ?_⟩
  · unfold axisRange dx; field_simp
  · rw [C05_domain_centres _ _ _ _ hnx hn]; push_cast; ring
  · rw [C05_domain_centres _ _ _ _ hnx hn]
    have hcast : (((n - 1 : ℕ)) : K) = (n : K) - 1 := by rw [Nat.cast_sub (by omega)]; simp
    rw [hcast]; unfold axisRange dx; field_simp; ring

/-- the x axis: its extent is x_range itself -/
theorem C05_domain_x_extent (xRange : K) (nx : ℕ) (hnx : 0 < nx) : axisRange xRange nx nx = xRange := by
  have hx : (nx : K) ≠ 0 := by exact_mod_cast hnx.ne'
  unfold axisRange; field_simp

/-- non-vacuity: a 6 × 8 × 12 grid with x_range 3/2 -/
example : centre (3 / 2 : ℚ) 12 6 5 = (5 + 1 / 2) * (1 / 8) ∧ axisRange (3 / 2 : ℚ) 12 6 = 3 / 4 := by
  constructor <;> norm_num [centre, linspace, axisRange, dx]

end Sopht.Props.C05
