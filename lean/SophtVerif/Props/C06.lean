/-
C06 — interpolation kernels: partition of unity and moments (exact real arithmetic).
`s = (X − shift)/dx − ⌊(X − shift)/dx⌋ ∈ [0,1)`; the scaled support distances are `k − s`, k = −1,0,1,2.
Floor robustness: the cosine zeroth moment holds for EVERY real `s` and the Peskin kernel is non-negative
on all of ℝ, so an index that is off by one through rounding cannot break non-negativity or (cosine) the sum.
-/
import SophtVerif.Model.Interp
import SophtVerif.Core.RealTransc
import Mathlib.Analysis.SpecialFunctions.Trigonometric.Basic
import Mathlib.Analysis.SpecialFunctions.Sqrt
import Mathlib.Tactic.Ring
import Mathlib.Tactic.Linarith
import Mathlib.Tactic.FieldSimp
import Mathlib.Tactic.Positivity
import Mathlib.Tactic.NormNum

set_option linter.unusedVariables false
set_option linter.unusedSimpArgs false

namespace Sopht.Props.C06
open Sopht Sopht.Model Real

noncomputable def phiC : ℝ → ℝ := phiCos realTransc
noncomputable def phiP : ℝ → ℝ := phiPeskin realTransc

theorem phiC_eq (r : ℝ) : phiC r = (1 / 4) * (1 + cos (π / 2 * r)) := rfl

/-! ### geometry of the window -/

/-- fractional position of the marker inside its cell -/
noncomputable def frac (X shift dx : ℝ) : ℝ := (X - shift) / dx - (nearestIdx X shift dx : ℝ)

theorem frac_range (X shift dx : ℝ) : 0 ≤ frac X shift dx ∧ frac X shift dx < 1 := by
  unfold frac nearestIdx
  constructor
  · linarith [Int.floor_le ((X - shift) / dx)]
  · linarith [Int.lt_floor_add_one ((X - shift) / dx)]

/-- scaled support distance of window cell `k` is `k − s` -/
theorem scaled_dist (X shift dx : ℝ) (hdx : dx ≠ 0) (k : ℤ) :
    supportDist X shift dx k / dx = (k : ℝ) - frac X shift dx := by
  unfold supportDist frac
  push_cast
  field_simp
  ring

/-- the cell centre of window cell `k` is the marker position plus the support distance (affine fields) -/
theorem cell_centre (X shift dx : ℝ) (k : ℤ) :
    ((nearestIdx X shift dx + k : ℤ) : ℝ) * dx + shift = X + supportDist X shift dx k := by
  unfold supportDist; ring

/-! ### cosine kernel -/

theorem C06_cos_nonneg (r : ℝ) : 0 ≤ phiC r := by
  rw [phiC_eq]
  have := neg_one_le_cos (π / 2 * r)
  nlinarith

/-- zeroth moment for EVERY real `s` (floor robustness) -/
theorem C06_cos_sum_any_s (s : ℝ) : phiC (-1 - s) + phiC (0 - s) + phiC (1 - s) + phiC (2 - s) = 1 := by
  simp only [phiC_eq]
  have e1 : π / 2 * (-1 - s) = -(π / 2 * s) - π / 2 := by ring
  have e2 : π / 2 * (0 - s) = -(π / 2 * s) := by ring
  have e3 : π / 2 * (1 - s) = π / 2 - π / 2 * s := by ring
  have e4 : π / 2 * (2 - s) = π - π / 2 * s := by ring
  rw [e1, e2, e3, e4, cos_sub_pi_div_two, cos_neg, cos_pi_div_two_sub, cos_pi_sub, sin_neg]
  ring

/-- the weight at the far edge of the window vanishes when the marker sits on a cell centre (`r = 2`) -/
theorem C06_cos_edge : phiC 2 = 0 := by
  rw [phiC_eq]
  have : π / 2 * 2 = π := by ring
  rw [this, cos_pi]; ring

/-! ### Peskin kernel -/

theorem phiP_eq (r0 : ℝ) : phiP r0 =
    (1 / 8) * ((if |r0| < 1 then 1 else 0) * (3 - 2 * |r0| + sqrt |1 + 4 * |r0| - 4 * |r0| ^ 2|)
      + (if 1 ≤ |r0| then 1 else 0) * (if |r0| < 2 then 1 else 0)
        * (5 - 2 * |r0| - sqrt |(-7) + 12 * |r0| - 4 * |r0| ^ 2|)) := rfl

/-- non-negative on all of ℝ -/
theorem C06_peskin_nonneg (r0 : ℝ) : 0 ≤ phiP r0 := by
  rw [phiP_eq]
  set r := |r0| with hr
  have hr0 : 0 ≤ r := abs_nonneg _
  by_cases h1 : r < 1
  · have h1' : ¬ (1 ≤ r) := not_le.mpr h1
    simp only [h1, h1', if_true, if_false, one_mul, zero_mul, add_zero]
    have : 0 ≤ sqrt |1 + 4 * r - 4 * r ^ 2| := sqrt_nonneg _
    nlinarith
  · have h1' : 1 ≤ r := not_lt.mp h1
    by_cases h2 : r < 2
    · simp only [h1, h1', h2, if_true, if_false, one_mul, zero_mul, zero_add]
      -- (5 - 2r)² − (−7 + 12 r − 4 r²) = 8 (r − 2)² ≥ 0 and 5 − 2r > 0
      have hpos : 0 < 5 - 2 * r := by linarith
      have hin : 0 ≤ (-7) + 12 * r - 4 * r ^ 2 := by nlinarith
      rw [abs_of_nonneg hin]
      have hle : sqrt ((-7) + 12 * r - 4 * r ^ 2) ≤ 5 - 2 * r := by
        rw [show (5 - 2 * r) = sqrt ((5 - 2 * r) ^ 2) from (sqrt_sq hpos.le).symm]
        apply sqrt_le_sqrt
        nlinarith [sq_nonneg (r - 2)]
      nlinarith
    · simp only [h1, h2, if_false, zero_mul, mul_zero, add_zero, le_refl]

/-- zeroth and first moments on `s ∈ [0,1)` -/
theorem peskin_moments (s : ℝ) (h0 : 0 ≤ s) (h1 : s < 1) :
    phiP (-1 - s) + phiP (0 - s) + phiP (1 - s) + phiP (2 - s) = 1 ∧
    (-1 - s) * phiP (-1 - s) + (0 - s) * phiP (0 - s) + (1 - s) * phiP (1 - s) + (2 - s) * phiP (2 - s) = 0 := by
  have a1 : |(-1 - s)| = 1 + s := by rw [abs_of_nonpos (by linarith)]; ring
  have a2 : |(0 - s)| = s := by rw [abs_of_nonpos (by linarith)]; ring
  have a3 : |(1 - s)| = 1 - s := abs_of_nonneg (by linarith)
  have a4 : |(2 - s)| = 2 - s := abs_of_nonneg (by linarith)
  simp only [phiP_eq, a1, a2, a3, a4]
  have d1 : (-7 : ℝ) + 12 * (1 + s) - 4 * (1 + s) ^ 2 = 1 + 4 * s - 4 * s ^ 2 := by ring
  have d3 : (1 : ℝ) + 4 * (1 - s) - 4 * (1 - s) ^ 2 = 1 + 4 * s - 4 * s ^ 2 := by ring
  have d4 : (-7 : ℝ) + 12 * (2 - s) - 4 * (2 - s) ^ 2 = 1 + 4 * s - 4 * s ^ 2 := by ring
  rw [d1, d4]
  rcases eq_or_lt_of_le h0 with hs | hs
  · subst hs; norm_num
  · have c1 : ¬ (1 + s < 1) := by linarith
    have c1' : 1 ≤ 1 + s := by linarith
    have c1'' : 1 + s < 2 := by linarith
    have c3 : 1 - s < 1 := by linarith
    have c3' : ¬ (1 ≤ 1 - s) := by linarith
    have c4 : ¬ (2 - s < 1) := by linarith
    have c4' : 1 ≤ 2 - s := by linarith
    have c4'' : 2 - s < 2 := by linarith
    have c2' : ¬ (1 ≤ s) := by linarith
    simp only [c1, c1', c1'', c3, c3', c4, c4', c4'', h1, c2', if_true, if_false, d3]
    constructor <;> ring

theorem C06_peskin_sum (s : ℝ) (h0 : 0 ≤ s) (h1 : s < 1) :
    phiP (-1 - s) + phiP (0 - s) + phiP (1 - s) + phiP (2 - s) = 1 := (peskin_moments s h0 h1).1

theorem C06_peskin_first_moment (s : ℝ) (h0 : 0 ≤ s) (h1 : s < 1) :
    (-1 - s) * phiP (-1 - s) + (0 - s) * phiP (0 - s) + (1 - s) * phiP (1 - s) + (2 - s) * phiP (2 - s) = 0 :=
  (peskin_moments s h0 h1).2

/-- outside `|r| < 2` the Peskin kernel vanishes: only the four nearest cells per direction can carry weight -/
theorem C06_peskin_support (r : ℝ) (h : 2 ≤ |r|) : phiP r = 0 := by
  rw [phiP_eq]
  have h1 : ¬ |r| < 1 := by linarith
  have h2 : ¬ |r| < 2 := by linarith
  simp [h1, h2]

/-! ### window sums of the weights (1D), for a marker position `X` and spacing `dx > 0` -/

section window
variable (X shift dx : ℝ) (hdx : 0 < dx)
include hdx

/-- 1D weights times `dx` sum to one — cosine -/
theorem C06_cos_partition_1d :
    (supportOffsets.map fun k => weight1 phiC X shift dx k * dx).sum = 1 := by
  have hne : dx ≠ 0 := hdx.ne'
  simp only [supportOffsets, List.map, List.sum_cons, List.sum_nil, weight1, scaled_dist X shift dx hne]
  have := C06_cos_sum_any_s (frac X shift dx)
  push_cast
  field_simp
  linarith

/-- 1D weights times `dx` sum to one — Peskin -/
theorem C06_peskin_partition_1d :
    (supportOffsets.map fun k => weight1 phiP X shift dx k * dx).sum = 1 := by
  have hne : dx ≠ 0 := hdx.ne'
  obtain ⟨h0, h1⟩ := frac_range X shift dx
  simp only [supportOffsets, List.map, List.sum_cons, List.sum_nil, weight1, scaled_dist X shift dx hne]
  have := C06_peskin_sum (frac X shift dx) h0 h1
  push_cast
  field_simp
  linarith

/-- Peskin: first moment of the 1D weights about the marker vanishes -/
theorem C06_peskin_first_moment_1d :
    (supportOffsets.map fun k => weight1 phiP X shift dx k * dx * supportDist X shift dx k).sum = 0 := by
  have hne : dx ≠ 0 := hdx.ne'
  obtain ⟨h0, h1⟩ := frac_range X shift dx
  have hd : ∀ k : ℤ, supportDist X shift dx k = ((k : ℝ) - frac X shift dx) * dx := by
    intro k; rw [← scaled_dist X shift dx hne k]; field_simp
  simp only [supportOffsets, List.map, List.sum_cons, List.sum_nil, weight1, scaled_dist X shift dx hne, hd]
  have := C06_peskin_first_moment (frac X shift dx) h0 h1
  push_cast
  field_simp
  nlinarith [this]

/-- hence a 1D affine field `a + b·x` sampled at the cell centres is interpolated exactly (Peskin) -/
theorem C06_peskin_affine_exact_1d (a b : ℝ) :
    (supportOffsets.map fun k =>
      weight1 phiP X shift dx k * dx * (a + b * (((nearestIdx X shift dx + k : ℤ) : ℝ) * dx + shift))).sum
      = a + b * X := by
  have e : ∀ k : ℤ, weight1 phiP X shift dx k * dx * (a + b * (((nearestIdx X shift dx + k : ℤ) : ℝ) * dx + shift))
      = (a + b * X) * (weight1 phiP X shift dx k * dx) + b * (weight1 phiP X shift dx k * dx * supportDist X shift dx k) := by
    intro k; rw [cell_centre]; ring
  have hp := C06_peskin_partition_1d X shift dx hdx
  have hm := C06_peskin_first_moment_1d X shift dx hdx
  simp only [supportOffsets, List.map, List.sum_cons, List.sum_nil] at hp hm ⊢
  simp only [e]
  linear_combination (a + b * X) * hp + b * hm

end window

/-! ### 2D / 3D: the weights are products, so the sums factor -/

/-- sum over the 4×4 window of the 2D weights times the cell area -/
noncomputable def windowSum2 (φ : ℝ → ℝ) (X Y shift dx : ℝ) (g : ℤ → ℤ → ℝ) : ℝ :=
  (supportOffsets.map fun ky => (supportOffsets.map fun kx => weight2 φ X Y shift dx ky kx * dx ^ 2 * g ky kx).sum).sum

theorem windowSum2_factor (φ : ℝ → ℝ) (X Y shift dx : ℝ) (gx gy : ℤ → ℝ) :
    windowSum2 φ X Y shift dx (fun ky kx => gx kx * gy ky)
      = (supportOffsets.map fun kx => weight1 φ X shift dx kx * dx * gx kx).sum
        * (supportOffsets.map fun ky => weight1 φ Y shift dx ky * dx * gy ky).sum := by
  simp only [windowSum2, supportOffsets, List.map, List.sum_cons, List.sum_nil, weight2]
  ring

/-- C06 (2D): weights × cell area sum to one, both kernels; constants are interpolated exactly -/
theorem C06_partition_of_unity_2d (X Y shift dx : ℝ) (hdx : 0 < dx) :
    windowSum2 phiC X Y shift dx (fun _ _ => 1) = 1 ∧ windowSum2 phiP X Y shift dx (fun _ _ => 1) = 1 := by
  have h := windowSum2_factor
  constructor
  · have := h phiC X Y shift dx (fun _ => 1) (fun _ => 1)
    simp only [mul_one] at this
    rw [this]
    have a := C06_cos_partition_1d X shift dx hdx
    have b := C06_cos_partition_1d Y shift dx hdx
    rw [a, b]; ring
  · have := h phiP X Y shift dx (fun _ => 1) (fun _ => 1)
    simp only [mul_one] at this
    rw [this]
    have a := C06_peskin_partition_1d X shift dx hdx
    have b := C06_peskin_partition_1d Y shift dx hdx
    rw [a, b]; ring

/-- C06 (2D, Peskin): the cell-centre coordinate fields `x` and `y` are interpolated exactly -/
theorem C06_peskin_position_exact_2d (X Y shift dx : ℝ) (hdx : 0 < dx) :
    windowSum2 phiP X Y shift dx (fun _ kx => ((nearestIdx X shift dx + kx : ℤ) : ℝ) * dx + shift) = X ∧
    windowSum2 phiP X Y shift dx (fun ky _ => ((nearestIdx Y shift dx + ky : ℤ) : ℝ) * dx + shift) = Y := by
  constructor
  · have := windowSum2_factor phiP X Y shift dx (fun kx => ((nearestIdx X shift dx + kx : ℤ) : ℝ) * dx + shift) (fun _ => 1)
    simp only [mul_one] at this
    rw [this]
    have a := C06_peskin_affine_exact_1d X shift dx hdx 0 1
    have b := C06_peskin_partition_1d Y shift dx hdx
    simp only [zero_add, one_mul] at a
    rw [a, b]; ring
  · have := windowSum2_factor phiP X Y shift dx (fun _ => 1) (fun ky => ((nearestIdx Y shift dx + ky : ℤ) : ℝ) * dx + shift)
    simp only [one_mul, mul_one] at this
    rw [this]
    have a := C06_peskin_affine_exact_1d Y shift dx hdx 0 1
    have b := C06_peskin_partition_1d X shift dx hdx
    simp only [zero_add, one_mul] at a
    rw [a, b]; ring

/-- non-negativity of every 2D/3D weight (products of non-negative 1D factors) -/
theorem C06_weights_nonneg (X Y Z shift dx : ℝ) (hdx : 0 < dx) (kz ky kx : ℤ) :
    0 ≤ weight2 phiC X Y shift dx ky kx ∧ 0 ≤ weight2 phiP X Y shift dx ky kx ∧
    0 ≤ weight3 phiC X Y Z shift dx kz ky kx ∧ 0 ≤ weight3 phiP X Y Z shift dx kz ky kx := by
  have hc : ∀ A k, 0 ≤ weight1 phiC A shift dx k := fun A k => div_nonneg (C06_cos_nonneg _) hdx.le
  have hp : ∀ A k, 0 ≤ weight1 phiP A shift dx k := fun A k => div_nonneg (C06_peskin_nonneg _) hdx.le
  refine ⟨mul_nonneg (hc _ _) (hc _ _), mul_nonneg (hp _ _) (hp _ _),
    mul_nonneg (mul_nonneg (hc _ _) (hc _ _)) (hc _ _), mul_nonneg (mul_nonneg (hp _ _) (hp _ _)) (hp _ _)⟩

/-- 3D window sum -/
noncomputable def windowSum3 (φ : ℝ → ℝ) (X Y Z shift dx : ℝ) (g : ℤ → ℤ → ℤ → ℝ) : ℝ :=
  (supportOffsets.map fun kz => (supportOffsets.map fun ky => (supportOffsets.map fun kx =>
    weight3 φ X Y Z shift dx kz ky kx * dx ^ 3 * g kz ky kx).sum).sum).sum

theorem windowSum3_factor (φ : ℝ → ℝ) (X Y Z shift dx : ℝ) (gx gy gz : ℤ → ℝ) :
    windowSum3 φ X Y Z shift dx (fun kz ky kx => gx kx * gy ky * gz kz)
      = (supportOffsets.map fun kx => weight1 φ X shift dx kx * dx * gx kx).sum
        * (supportOffsets.map fun ky => weight1 φ Y shift dx ky * dx * gy ky).sum
        * (supportOffsets.map fun kz => weight1 φ Z shift dx kz * dx * gz kz).sum := by
  simp only [windowSum3, supportOffsets, List.map, List.sum_cons, List.sum_nil, weight3]
  ring

theorem C06_partition_of_unity_3d (X Y Z shift dx : ℝ) (hdx : 0 < dx) :
    windowSum3 phiC X Y Z shift dx (fun _ _ _ => 1) = 1 ∧ windowSum3 phiP X Y Z shift dx (fun _ _ _ => 1) = 1 := by
  constructor
  · have := windowSum3_factor phiC X Y Z shift dx (fun _ => 1) (fun _ => 1) (fun _ => 1)
    simp only [mul_one] at this
    rw [this, C06_cos_partition_1d X shift dx hdx, C06_cos_partition_1d Y shift dx hdx,
      C06_cos_partition_1d Z shift dx hdx]; ring
  · have := windowSum3_factor phiP X Y Z shift dx (fun _ => 1) (fun _ => 1) (fun _ => 1)
    simp only [mul_one] at this
    rw [this, C06_peskin_partition_1d X shift dx hdx, C06_peskin_partition_1d Y shift dx hdx,
      C06_peskin_partition_1d Z shift dx hdx]; ring

/-- non-vacuity: a concrete marker (`X = 0.7`, `shift = 0.05`, `dx = 0.1`) has index 6 and `s = 1/2` -/
example : nearestIdx (7/10 : ℝ) (1/20) (1/10) = 6 := by
  unfold nearestIdx
  rw [Int.floor_eq_iff]; norm_num

end Sopht.Props.C06
