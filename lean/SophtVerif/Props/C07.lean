/-
C07 — spreading is the adjoint of interpolation and conserves force (and, with the Peskin kernel, torque).
Model: Model/Interp.lean (`interp`, `spreadOne`, `spread`: serial fold over markers in index order, each
marker adding `F_m · w[m,k]` to its window cells).  Stencils are arbitrary: overlapping, identical
(duplicated markers), with repeated cells.  `cs` is any duplicate-free enumeration of grid cells containing
every touched cell (the grid), so `Σ_{c ∈ cs}` is the grid sum.
-/
import SophtVerif.Model.Interp
import Mathlib.Algebra.BigOperators.Group.List.Basic
import Mathlib.Algebra.BigOperators.Ring.List
import Mathlib.Data.List.Induction
import Mathlib.Tactic.Ring
import Mathlib.Tactic.Linarith
import Mathlib.Tactic.LinearCombination
import Mathlib.Tactic.NormNum

set_option linter.unusedVariables false
set_option linter.unusedSectionVars false

namespace Sopht.Props.C07
open Sopht Sopht.Model

variable {K : Type} [Field K] [LinearOrder K] [IsStrictOrderedRing K] [FloorRing K]
variable {C : Type} [DecidableEq C]

/-- grid sum of `E · g` over the enumerated cells -/
def gridSum (cs : List C) (E g : C → K) : K := (cs.map fun c => E c * g c).sum

theorem gridSum_update (cs : List C) (hnd : cs.Nodup) (E g : C → K) (c : C) (hc : c ∈ cs) (v : K) :
    gridSum cs (Function.update E c v) g = gridSum cs E g + (v - E c) * g c := by
  induction cs with
  | nil => simp at hc
  | cons d cs ih =>
    have hd : d ∉ cs := (List.nodup_cons.mp hnd).1
    have hnd' : cs.Nodup := (List.nodup_cons.mp hnd).2
    simp only [gridSum, List.map_cons, List.sum_cons] at ih ⊢
    by_cases hcd : c = d
    · subst hcd
      have hrest : (cs.map fun x => Function.update E c v x * g x) = cs.map fun x => E x * g x := by
        apply List.map_congr_left
        intro x hx
        have : x ≠ c := fun h => hd (h ▸ hx)
        rw [Function.update_of_ne this]
      rw [hrest, Function.update_self]; ring
    · have hc' : c ∈ cs := by
        rcases List.mem_cons.mp hc with h | h
        · exact absurd h hcd
        · exact h
      have hdc : d ≠ c := fun h => hcd h.symm
      rw [Function.update_of_ne hdc, ih hnd' hc']; ring

/-- one marker: the grid sum changes by `F · Σ_k w_k g(cell_k)` -/
theorem gridSum_spreadOne (cs : List C) (hnd : cs.Nodup) (E g : C → K) (F : K) (st : Stencil C K)
    (hin : ∀ p ∈ st.cells, p.1 ∈ cs) :
    gridSum cs (spreadOne E F st) g = gridSum cs E g + F * (st.cells.map fun p => p.2 * g p.1).sum := by
  unfold spreadOne
  obtain ⟨cells⟩ := st
  simp only at hin ⊢
  induction cells generalizing E with
  | nil => simp
  | cons p ps ih =>
    simp only [List.foldl_cons, List.map_cons, List.sum_cons]
    rw [ih _ (fun q hq => hin q (List.mem_cons_of_mem _ hq)),
      gridSum_update cs hnd E g p.1 (hin p (List.mem_cons_self ..))]
    ring

/-- C07 adjointness: `Σ_m F_m (interp u)_m = vol · Σ_x (spread F)_x u_x` (spreading into a zero field) -/
theorem C07_adjoint (cs : List C) (hnd : cs.Nodup) (vol : K) (u : C → K) (ms : List (K × Stencil C K))
    (hin : ∀ m ∈ ms, ∀ p ∈ m.2.cells, p.1 ∈ cs) (E0 : C → K) :
    vol * (gridSum cs (spread E0 ms) u - gridSum cs E0 u) = (ms.map fun m => m.1 * interp vol u m.2).sum := by
  unfold spread
  induction ms generalizing E0 with
  | nil => simp
  | cons m ms ih =>
    simp only [List.foldl_cons, List.map_cons, List.sum_cons]
    have h1 := ih (fun m' hm' => hin m' (List.mem_cons_of_mem _ hm')) (spreadOne E0 m.1 m.2)
    have h2 := gridSum_spreadOne cs hnd E0 u m.1 m.2 (hin m (List.mem_cons_self ..))
    have hi : interp vol u m.2 = vol * (m.2.cells.map fun p => p.2 * u p.1).sum := rfl
    linear_combination h1 + vol * h2 - m.1 * hi

/-- spreading accumulates: successive calls add up (the second call starts from the first call's field) -/
theorem C07_successive_calls (E0 : C → K) (ms1 ms2 : List (K × Stencil C K)) :
    spread (spread E0 ms1) ms2 = spread E0 (ms1 ++ ms2) := by
  simp [spread, List.foldl_append]

/-- … and the contribution does not depend on what the target field held: `spread E0 = E0 + spread 0` -/
theorem spreadOne_add (E : C → K) (F : K) (st : Stencil C K) (c : C) :
    spreadOne E F st c = E c + spreadOne (fun _ => 0) F st c := by
  unfold spreadOne
  obtain ⟨cells⟩ := st
  simp only
  induction cells using List.reverseRecOn with
  | nil => simp
  | append_singleton ps p ih =>
    simp only [List.foldl_append, List.foldl_cons, List.foldl_nil]
    by_cases h : c = p.1
    · subst h; simp only [Function.update_self]; rw [ih]; ring
    · simp only [Function.update_of_ne h]; exact ih

theorem C07_accumulates (E0 : C → K) (ms : List (K × Stencil C K)) (c : C) :
    spread E0 ms c = E0 c + spread (fun _ => 0) ms c := by
  unfold spread
  induction ms using List.reverseRecOn with
  | nil => simp
  | append_singleton ms m ih =>
    simp only [List.foldl_append, List.foldl_cons, List.foldl_nil]
    rw [spreadOne_add, ih, spreadOne_add (List.foldl _ _ ms)]
    ring

/-- total force: if every marker's weights times the cell volume sum to one (C06), the grid integral of the
spread force equals the total marker force -/
theorem C07_total_force (cs : List C) (hnd : cs.Nodup) (vol : K) (ms : List (K × Stencil C K))
    (hin : ∀ m ∈ ms, ∀ p ∈ m.2.cells, p.1 ∈ cs)
    (hunit : ∀ m ∈ ms, vol * (m.2.cells.map fun p => p.2).sum = 1) :
    vol * gridSum cs (spread (fun _ => 0) ms) (fun _ => 1) = (ms.map fun m => m.1).sum := by
  have h := C07_adjoint cs hnd vol (fun _ => (1 : K)) ms hin (fun _ => 0)
  have z : gridSum cs (fun _ => (0 : K)) (fun _ => (1 : K)) = 0 := by simp [gridSum]
  rw [z, sub_zero] at h
  rw [h]
  apply congrArg
  apply List.map_congr_left
  intro m hm
  have := hunit m hm
  unfold interp
  simp only [mul_one]
  rw [this, mul_one]

/-- first moment (torque about any point `O`, one coordinate `x : C → K`): if the weights also have
vanishing first moment about the marker position `X_m` (Peskin, C06), the first moment of the spread force
equals the first moment of the marker forces -/
theorem C07_first_moment (cs : List C) (hnd : cs.Nodup) (vol : K) (x : C → K) (O : K)
    (ms : List ((K × K) × Stencil C K))   -- ((F_m, X_m), stencil)
    (hin : ∀ m ∈ ms, ∀ p ∈ m.2.cells, p.1 ∈ cs)
    (hunit : ∀ m ∈ ms, vol * (m.2.cells.map fun p => p.2).sum = 1)
    (hmom : ∀ m ∈ ms, vol * (m.2.cells.map fun p => p.2 * (x p.1 - m.1.2)).sum = 0) :
    vol * gridSum cs (spread (fun _ => 0) (ms.map fun m => (m.1.1, m.2))) (fun c => x c - O)
      = (ms.map fun m => m.1.1 * (m.1.2 - O)).sum := by
  have hin' : ∀ m ∈ ms.map (fun m => (m.1.1, m.2)), ∀ p ∈ m.2.cells, p.1 ∈ cs := by
    intro m hm p hp
    obtain ⟨m0, hm0, rfl⟩ := List.mem_map.mp hm
    exact hin m0 hm0 p hp
  have h := C07_adjoint cs hnd vol (fun c => x c - O) _ hin' (fun _ => 0)
  have z : gridSum cs (fun _ => (0 : K)) (fun c => x c - O) = 0 := by simp [gridSum]
  rw [z, sub_zero] at h
  rw [h, List.map_map]
  apply congrArg
  apply List.map_congr_left
  intro m hm
  simp only [Function.comp, interp]
  have e : (m.2.cells.map fun p => p.2 * (x p.1 - O))
      = m.2.cells.map fun p => p.2 * (x p.1 - m.1.2) + (m.1.2 - O) * p.2 := by
    apply List.map_congr_left; intro y _; ring
  rw [e, List.sum_map_add, List.sum_map_mul_left]
  have a := hunit m hm
  have b := hmom m hm
  linear_combination m.1.1 * b + m.1.1 * (m.1.2 - O) * a

/-- non-vacuity: two markers with the SAME window (duplicated marker) on a three-cell grid -/
example :
    let st : Stencil (Fin 3) ℚ := ⟨[(0, 1/4), (1, 1/2), (2, 1/4)]⟩
    spread (fun _ => 0) [((2 : ℚ), st), (3, st)] 1 = 5 / 2 := by
  simp [spread, spreadOne, Function.update]
  norm_num

end Sopht.Props.C07
