/-
C08 — action equals reaction between every immersed body and the fluid.
Model: Model/ForcingGrids.lean.  All statements for arbitrary marker lists (any number, any arms: any taper,
surface density, cap layout), arbitrary forces, arbitrary reference point `O`, arbitrary ORTHOGONAL director
matrices `Q` (`Qᵀ Q = 1`), arbitrary poses and velocities.  Together with C07_total_force the fluid receives
`+Σ f` and the body `−Σ f`.
-/
import SophtVerif.Model.ForcingGrids
import SophtVerif.Props.C07
import Mathlib.Tactic.Ring
import Mathlib.Tactic.FieldSimp
import Mathlib.Tactic.LinearCombination
import Mathlib.Tactic.NormNum
import Mathlib.Tactic.FinCases
import Mathlib.Data.Rat.Defs
import Mathlib.Algebra.BigOperators.Group.List.Basic

set_option linter.unusedVariables false
set_option linter.unusedSectionVars false

namespace Sopht.Props.C08
open Sopht.Model Matrix

variable {R : Type} [Field R]

/-! ### vector identities (single marker) -/

/-- one marker: force `−f` at the centre plus the couple `arm × (−f)` has the moment of `−f` applied at the marker -/
theorem arm_moment (xc arm O f : V3 R) :
    (xc - O) ⨯₃ (-f) + arm ⨯₃ (-f) = -((xc + arm - O) ⨯₃ f) := by
  ext i; fin_cases i <;> simp [crossProduct] <;> ring

/-- half/half split to the two end nodes has the moment of the whole force at the element centre -/
theorem half_split_moment (h2 : (2 : R) ≠ 0) (x0 x1 O g : V3 R) :
    (x0 - O) ⨯₃ ((1 / 2 : R) • g) + (x1 - O) ⨯₃ ((1 / 2 : R) • g) = ((1 / 2 : R) • (x0 + x1) - O) ⨯₃ g := by
  ext i; fin_cases i <;> simp [crossProduct] <;> field_simp <;> ring

/-- rotating to the body frame and back is the identity for orthogonal `Q` -/
theorem back_to_lab (Q : Matrix (Fin 3) (Fin 3) R) (hQ : Qᵀ * Q = 1) (v : V3 R) : Qᵀ *ᵥ (Q *ᵥ v) = v := by
  rw [mulVec_mulVec, hQ, one_mulVec]

/-! ### sums over markers -/

theorem sum_cross_left (c : V3 R) (l : List (V3 R)) : c ⨯₃ l.sum = (l.map fun v => c ⨯₃ v).sum := by
  induction l with
  | nil => simp
  | cons a t ih => simp [List.sum_cons, ih, map_add]

/-- C08 (net force): the force transferred to the body is minus the sum of the marker forces — by
definition of the model for rigid bodies, and for rods after summing the two half contributions -/
theorem C08_force_rigid (ms : List (Marker R)) : netForce ms = -(ms.map (·.f)).sum := rfl

theorem C08_force_rod_element (h2 : (2 : R) ≠ 0) (e : RodElement R) :
    (e.nodalContributions.map (·.2)).sum = -(e.markers.map (·.f)).sum := by
  simp only [RodElement.nodalContributions, List.map_cons, List.map_nil, List.sum_cons, List.sum_nil, add_zero, netForce]
  ext i
  simp only [Pi.add_apply, Pi.smul_apply, Pi.neg_apply, smul_eq_mul]
  field_simp
  ring

/-- moment of the marker forces about `O`, markers located at `centre + arm` -/
def markerMoment (centre O : V3 R) (ms : List (Marker R)) : V3 R :=
  (ms.map fun m => (centre + m.arm - O) ⨯₃ m.f).sum

/-- C08 (moment, rigid body or one rod element seen from its centre): force `−Σf` applied at the centre plus
the couple rotated back to the lab frame equals minus the moment of the marker forces, about ANY point -/
theorem C08_moment_about_centre (Q : Matrix (Fin 3) (Fin 3) R) (hQ : Qᵀ * Q = 1) (centre O : V3 R) (ms : List (Marker R)) :
    (centre - O) ⨯₃ netForce ms + Qᵀ *ᵥ bodyCouple Q ms = -markerMoment centre O ms := by
  unfold bodyCouple markerMoment netForce
  rw [back_to_lab Q hQ]
  induction ms with
  | nil => simp
  | cons m t ih =>
    simp only [List.map_cons, List.sum_cons, neg_add, map_add]
    have := arm_moment centre m.arm O m.f
    have ih' := ih
    calc (centre - O) ⨯₃ (-m.f) + (centre - O) ⨯₃ (-(t.map (·.f)).sum)
          + (m.arm ⨯₃ (-m.f) + (t.map fun m => m.arm ⨯₃ (-m.f)).sum)
        = ((centre - O) ⨯₃ (-m.f) + m.arm ⨯₃ (-m.f))
          + ((centre - O) ⨯₃ (-(t.map (·.f)).sum) + (t.map fun m => m.arm ⨯₃ (-m.f)).sum) := by abel
      _ = -((centre + m.arm - O) ⨯₃ m.f) + -(t.map fun m => (centre + m.arm - O) ⨯₃ m.f).sum := by rw [this, ih']
      _ = _ := by abel

/-- C08 (moment, rod element with nodal forces): the two half-forces at the end nodes plus the element couple
(rotated to the lab frame) balance the marker forces about any point -/
theorem C08_moment_rod_element (h2 : (2 : R) ≠ 0) (e : RodElement R) (hQ : e.Qᵀ * e.Q = 1) (O : V3 R) :
    (e.nodalContributions.map fun c => (c.1 - O) ⨯₃ c.2).sum + e.Qᵀ *ᵥ bodyCouple e.Q e.markers
      = -markerMoment e.centre O e.markers := by
  have h := C08_moment_about_centre e.Q hQ e.centre O e.markers
  simp only [RodElement.nodalContributions, List.map_cons, List.map_nil, List.sum_cons, List.sum_nil, add_zero]
  rw [half_split_moment h2]
  exact h

/-- … and for a whole rod: summing over its elements (any element count) -/
theorem C08_moment_rod (h2 : (2 : R) ≠ 0) (es : List (RodElement R)) (hQ : ∀ e ∈ es, e.Qᵀ * e.Q = 1) (O : V3 R) :
    (es.map fun e => (e.nodalContributions.map fun c => (c.1 - O) ⨯₃ c.2).sum + e.Qᵀ *ᵥ bodyCouple e.Q e.markers).sum
      = -(es.map fun e => markerMoment e.centre O e.markers).sum := by
  induction es with
  | nil => simp
  | cons e t ih =>
    simp only [List.map_cons, List.sum_cons, neg_add]
    rw [C08_moment_rod_element h2 e (hQ e (List.mem_cons_self ..)) O,
      ih (fun e' he' => hQ e' (List.mem_cons_of_mem _ he'))]

/-- C08 (power, rigid body): the power of the transferred wrench at the body's velocity `(V, Ω)` equals minus
the power of the marker forces at the marker velocities `V + (Qᵀ Ω) × arm` -/
theorem C08_power_rigid (Q : Matrix (Fin 3) (Fin 3) R) (hQ : Qᵀ * Q = 1) (V Ω : V3 R) (ms : List (Marker R)) :
    netForce ms ⬝ᵥ V + (Qᵀ *ᵥ bodyCouple Q ms) ⬝ᵥ (Qᵀ *ᵥ Ω)
      = -(ms.map fun m => m.f ⬝ᵥ markerVel Q V Ω m).sum := by
  unfold bodyCouple netForce markerVel
  rw [back_to_lab Q hQ]
  induction ms with
  | nil => simp
  | cons m t ih =>
    simp only [List.map_cons, List.sum_cons, neg_add, add_dotProduct, neg_dotProduct]
    have key : (m.arm ⨯₃ (-m.f)) ⬝ᵥ (Qᵀ *ᵥ Ω) = -(m.f ⬝ᵥ ((Qᵀ *ᵥ Ω) ⨯₃ m.arm)) := by
      simp [crossProduct, dotProduct, Fin.sum_univ_three]; ring
    simp only [neg_dotProduct] at ih
    rw [key, dotProduct_add]
    linear_combination ih

/-- C08 together with C07: for markers carrying both a forcing-grid description and an interpolation stencil
with unit zeroth moment (C06), the grid integral of every component of the force density spread to the fluid
plus the same component of the net force handed to the body vanishes -/
theorem C08_fluid_plus_body_zero {K : Type} [Field K] [LinearOrder K] [IsStrictOrderedRing K] [FloorRing K]
    {C : Type} [DecidableEq C] (cs : List C) (hnd : cs.Nodup) (vol : K) (ms : List (Marker K × Stencil C K))
    (hin : ∀ m ∈ ms, ∀ p ∈ m.2.cells, p.1 ∈ cs)
    (hunit : ∀ m ∈ ms, vol * (m.2.cells.map fun p => p.2).sum = 1) (i : Fin 3) :
    vol * C07.gridSum cs (spread (fun _ => 0) (ms.map fun m => (m.1.f i, m.2))) (fun _ => 1)
      + netForce (ms.map (·.1)) i = 0 := by
  rw [C07.C07_total_force cs hnd vol _ (by
        intro m hm; obtain ⟨m', hm', rfl⟩ := List.mem_map.mp hm; exact hin m' hm')
      (by intro m hm; obtain ⟨m', hm', rfl⟩ := List.mem_map.mp hm; exact hunit m' hm')]
  unfold netForce
  simp only [List.map_map, Pi.neg_apply]
  have : ∀ l : List (Marker K × Stencil C K), ((l.map ((fun m : Marker K => m.f) ∘ fun m => m.1)).sum) i
      = (l.map ((fun m : K × Stencil C K => m.1) ∘ fun m => (m.1.f i, m.2))).sum := by
    intro l
    induction l with
    | nil => simp
    | cons a t ih => simp only [List.map_cons, List.sum_cons, Pi.add_apply, Function.comp_apply] at ih ⊢; rw [ih]
  rw [this]; ring

/-! ### non-vacuity -/

/-- the moment theorem applies to a concrete orthogonal director (quarter turn about z) with two markers carrying
non-parallel forces: both sides evaluate to the same non-zero vector -/
example :
    let Q : Matrix (Fin 3) (Fin 3) ℚ := !![0, 1, 0; -1, 0, 0; 0, 0, 1]
    let ms : List (Marker ℚ) := [⟨![1, 0, 0], ![0, 2, 0]⟩, ⟨![0, 1, 1], ![3, 0, -1]⟩]
    Qᵀ * Q = 1 ∧ markerMoment ![1, 1, 1] ![0, 0, 0] ms ≠ 0 := by
  intro Q ms
  constructor
  · ext i j; fin_cases i <;> fin_cases j <;> simp [Q, Matrix.mul_apply, Fin.sum_univ_three]
  · intro h
    have := congrFun h 0
    simp [markerMoment, ms, markerPos, crossProduct] at this
    norm_num at this

end Sopht.Props.C08
