/-
C09 — marker kinematics are the rigid-section kinematics of the body.
Model: Model/ForcingGrids.lean (`markerPos`, `markerVel`, `bodyFixedArm`, `surfaceArm`).
-/
import SophtVerif.Model.ForcingGrids
import Mathlib.Tactic.Ring
import Mathlib.Tactic.LinearCombination
import Mathlib.Tactic.NormNum
import Mathlib.Tactic.FinCases
import Mathlib.Data.Rat.Defs

set_option linter.unusedVariables false
set_option linter.unusedSectionVars false

namespace Sopht.Props.C09
open Sopht.Model Matrix

variable {R : Type} [Field R]

/-- rigid bodies and rod cross-sections: `v_m = V + Ω_lab × (x_m − X)` with `Ω_lab = Qᵀ Ω` the lab-frame
angular velocity -/
theorem C09_velocity_is_rigid_section (Q : Matrix (Fin 3) (Fin 3) R) (X V Ω : V3 R) (m : Marker R) :
    markerVel Q V Ω m = V + (Qᵀ *ᵥ Ω) ⨯₃ (markerPos X m - X) := by
  simp [markerVel, markerPos]

/-- the skew matrix of a vector acts as the cross product -/
def skew (w : V3 R) : Matrix (Fin 3) (Fin 3) R := !![0, -w 2, w 1; w 2, 0, -w 0; -w 1, w 0, 0]

theorem skew_mulVec (w v : V3 R) : skew w *ᵥ v = w ⨯₃ v := by
  ext i; fin_cases i <;> simp [skew, crossProduct, mulVec, dotProduct, Fin.sum_univ_three] <;> ring

/-- body-fixed grids (2D/3D cylinder, plane): along any pose path with `Ẋ = V` and `d(Qᵀ)/dt = [Ω_lab]× Qᵀ`
the time derivative of the marker position `X + Qᵀ r_loc` is the marker velocity — i.e. advancing the pose by a
small time along `(V, Ω)` moves the marker by velocity × time to second order (stated on the derivative
values) -/
theorem C09_body_fixed_marker_moves_with_its_velocity (Q : Matrix (Fin 3) (Fin 3) R) (V Ω rloc : V3 R)
    (Xdot : V3 R) (Qtdot : Matrix (Fin 3) (Fin 3) R) (hX : Xdot = V) (hQ : Qtdot = skew (Qᵀ *ᵥ Ω) * Qᵀ) :
    Xdot + Qtdot *ᵥ rloc = markerVel Q V Ω ⟨bodyFixedArm Q rloc, 0⟩ := by
  subst hX; subst hQ
  simp only [markerVel, bodyFixedArm]
  rw [← mulVec_mulVec, skew_mulVec]

/-- the sphere's markers keep lab-fixed offsets: their positions translate with the centre (position derivative
`= V`), while their velocities still contain the `Ω × r` term -/
theorem C09_sphere (Q : Matrix (Fin 3) (Fin 3) R) (X X' V Ω : V3 R) (m : Marker R) :
    markerPos X' m - markerPos X m = X' - X ∧ markerVel Q V Ω m = V + (Qᵀ *ᵥ Ω) ⨯₃ m.arm := by
  constructor
  · simp [markerPos]
  · rfl

/-- orthogonal matrices preserve the squared norm -/
theorem orth_norm (Q : Matrix (Fin 3) (Fin 3) R) (hQ : Q * Qᵀ = 1) (v : V3 R) : (Qᵀ *ᵥ v) ⬝ᵥ (Qᵀ *ᵥ v) = v ⬝ᵥ v := by
  rw [dotProduct_mulVec, vecMul_mulVec, transpose_transpose, hQ, vecMul_one]

/-- rod surface markers sit at `radius · ratio` from the element centre (squared distance), for any orthogonal
director frame and any angle on the unit circle; centre markers (`ratio = 0`, or the single marker of a thin
element) sit on it -/
theorem C09_surface_marker_distance (Q : Matrix (Fin 3) (Fin 3) R) (hQ : Q * Qᵀ = 1) (radius ratio c s : R)
    (hcs : c ^ 2 + s ^ 2 = 1) :
    surfaceArm Q radius ratio c s ⬝ᵥ surfaceArm Q radius ratio c s = (radius * ratio) ^ 2 := by
  unfold surfaceArm
  rw [smul_dotProduct, dotProduct_smul, orth_norm Q hQ]
  simp only [dotProduct, Fin.sum_univ_three, cons_val_zero, cons_val_one, cons_val_two, smul_eq_mul]
  simp
  linear_combination (radius * ratio) ^ 2 * hcs

theorem C09_centre_marker_on_centre (X : V3 R) : markerPos X ⟨0, 0⟩ = X := by simp [markerPos]

/-- edge grid (2D rods): markers at `x_c ± r (ẑ × t)` move with `v_e + Ω_lab × (± r ẑ × t)` -/
theorem C09_edge_markers (Q : Matrix (Fin 3) (Fin 3) R) (xc ve Ω t : V3 R) (r : R) :
    let arm := r • (![0, 0, 1] ⨯₃ t)
    markerPos xc ⟨arm, 0⟩ = xc + arm ∧ markerPos xc ⟨-arm, 0⟩ = xc - arm ∧
    markerVel Q ve Ω ⟨arm, 0⟩ = ve + (Qᵀ *ᵥ Ω) ⨯₃ arm ∧ markerVel Q ve Ω ⟨-arm, 0⟩ = ve + (Qᵀ *ᵥ Ω) ⨯₃ (-arm) := by
  intro arm
  refine ⟨rfl, by simp [markerPos, sub_eq_add_neg], rfl, rfl⟩

/-- 2D cylinder: the scalar form used by the code, `v = V + ω_z (−r_y, r_x)` with `ω_z = Q₂₂ Ω_z`, is the planar
case of the general formula when the body rotates about z -/
theorem C09_cylinder_2d (Q : Matrix (Fin 3) (Fin 3) R) (V Ω r : V3 R)
    (hΩ : Ω 0 = 0 ∧ Ω 1 = 0) (hr : r 2 = 0) (hQ : Q 2 0 = 0 ∧ Q 2 1 = 0) :
    (markerVel Q V Ω ⟨r, 0⟩) 0 = V 0 - (Q 2 2 * Ω 2) * r 1 ∧ (markerVel Q V Ω ⟨r, 0⟩) 1 = V 1 + (Q 2 2 * Ω 2) * r 0 := by
  obtain ⟨h0, h1⟩ := hΩ
  obtain ⟨q0, q1⟩ := hQ
  constructor <;>
    simp [markerVel, crossProduct, mulVec, dotProduct, Fin.sum_univ_three, h0, h1, hr, q0, q1] <;> try ring

/-! ### non-vacuity: the hypotheses are met by concrete non-trivial data (over ℚ) -/

/-- a proper rotation (quarter turn about z) is orthogonal, and (3/5, 4/5) lies on the unit circle: the distance
theorem applies to it and gives the squared distance (2·(1/2))² = 1 -/
example :
    let Q : Matrix (Fin 3) (Fin 3) ℚ := !![0, 1, 0; -1, 0, 0; 0, 0, 1]
    Q * Qᵀ = 1 ∧ ((3 / 5 : ℚ)) ^ 2 + (4 / 5) ^ 2 = 1 ∧
      surfaceArm Q 2 (1 / 2) (3 / 5) (4 / 5) ⬝ᵥ surfaceArm Q 2 (1 / 2) (3 / 5) (4 / 5) = 1 := by
  intro Q
  have hQ : Q * Qᵀ = 1 := by
    ext i j; fin_cases i <;> fin_cases j <;> simp [Q, Matrix.mul_apply, Fin.sum_univ_three]
  have hcs : ((3 / 5 : ℚ)) ^ 2 + (4 / 5) ^ 2 = 1 := by norm_num
  refine ⟨hQ, hcs, ?_⟩
  rw [C09_surface_marker_distance Q hQ 2 (1 / 2) (3 / 5) (4 / 5) hcs]
  norm_num

end Sopht.Props.C09
