/-
C10 — the virtual-boundary feedback is the documented PI law over ANY call history.
All theorems are about `VBFSys.run` of Model/VBF.lean for arbitrary finite op lists (induction over the
history), arbitrary `dt_i` (including 0 and negative), one or several bodies sharing the forcing field.
-/
import SophtVerif.Model.VBF
import Mathlib.Algebra.BigOperators.Group.List.Basic
import Mathlib.Data.List.Induction
import Mathlib.Tactic.Ring
import Mathlib.Tactic.Abel
import Mathlib.Tactic.Module

set_option linter.unusedVariables false
set_option linter.unusedSectionVars false

namespace Sopht.Props.C10
open Sopht Sopht.Model

variable {K V W : Type} [Field K] [AddCommGroup V] [Module K V] [AddCommGroup W] [Module K W]

/-! ### declarative description of a history, per body -/

/-- the velocity mismatch produced by the LAST evaluation of body `b` in the history (`D0` if none) -/
def lastMismatch (b : ℕ) (D0 : V) (ops : List (VBFOp K V W)) : V :=
  ops.foldl (fun D op => match op with
    | .evalLag b' ui vb => if b' = b then ui - vb else D
    | .evalFull b' ui vb _ => if b' = b then ui - vb else D
    | .timeStep _ _ => D) D0

/-- contribution of the `i`-th op to the integral of body `b`: `dt_i · (mismatch of the last evaluation
before it)` if it is a time step of `b`, else 0 -/
def integralTerm (b : ℕ) (D0 : V) (ops : List (VBFOp K V W)) (i : ℕ) : V :=
  match ops[i]? with
  | some (.timeStep b' dt) => if b' = b then dt • lastMismatch b D0 (ops.take i) else 0
  | _ => 0

def clockTerm (b : ℕ) (ops : List (VBFOp K V W)) (i : ℕ) : K :=
  match ops[i]? with
  | some (.timeStep b' dt) => if b' = b then dt else 0
  | _ => 0

variable (params : ℕ → VBFParams K)

theorem run_append (s : VBFSys K V W) (ops : List (VBFOp K V W)) (op : VBFOp K V W) :
    VBFSys.run params s (ops ++ [op]) = VBFSys.step params (VBFSys.run params s ops) op := by
  simp [VBFSys.run, List.foldl_append]

/-- the stored mismatch is the one of the last evaluation -/
theorem run_D (s : VBFSys K V W) (ops : List (VBFOp K V W)) (b : ℕ) :
    ((VBFSys.run params s ops).body b).D = lastMismatch b (s.body b).D ops := by
  induction ops using List.reverseRecOn with
  | nil => rfl
  | append_singleton ops op ih =>
    rw [run_append]
    simp only [lastMismatch, List.foldl_append, List.foldl_cons, List.foldl_nil]
    cases op with
    | evalLag b' ui vb =>
      simp only [VBFSys.step]
      by_cases h : b' = b
      · subst h; simp [evalState]
      · have h' : b ≠ b' := fun e => h e.symm
        simp only [Function.update_of_ne h', h, if_false]; exact ih
    | evalFull b' ui vb S =>
      simp only [VBFSys.step]
      by_cases h : b' = b
      · subst h; simp [evalState]
      · have h' : b ≠ b' := fun e => h e.symm
        simp only [Function.update_of_ne h', h, if_false]; exact ih
    | timeStep b' dt =>
      simp only [VBFSys.step]
      by_cases h : b' = b
      · subst h; simp only [Function.update_self]; exact ih
      · have h' : b ≠ b' := fun e => h e.symm
        simp only [Function.update_of_ne h']; exact ih

theorem sum_range_succ_terms {M : Type} [AddCommMonoid M] (f g : ℕ → M) (n : ℕ) (h : ∀ i < n, f i = g i) :
    ((List.range (n + 1)).map f).sum = ((List.range n).map g).sum + f n := by
  rw [List.range_succ, List.map_append, List.sum_append]
  simp only [List.map_cons, List.map_nil, List.sum_cons, List.sum_nil, add_zero]
  congr 1
  apply congrArg
  apply List.map_congr_left
  intro i hi
  exact h i (List.mem_range.mp hi)

theorem integralTerm_append_lt (b : ℕ) (D0 : V) (ops : List (VBFOp K V W)) (op : VBFOp K V W) (i : ℕ)
    (hi : i < ops.length) : integralTerm b D0 (ops ++ [op]) i = integralTerm b D0 ops i := by
  unfold integralTerm
  rw [List.getElem?_append_left hi, List.take_append_of_le_length (Nat.le_of_lt hi)]

theorem clockTerm_append_lt (b : ℕ) (ops : List (VBFOp K V W)) (op : VBFOp K V W) (i : ℕ)
    (hi : i < ops.length) : clockTerm b (ops ++ [op]) i = clockTerm b ops i := by
  unfold clockTerm
  rw [List.getElem?_append_left hi]

/-- C10 (integral): after ANY history the accumulated integral of body `b` equals its initial value plus
the Euler-forward sum, over exactly the `time_step(dt_i)` calls of `b`, of `dt_i` times the mismatch produced
by the last evaluation before that call -/
theorem C10_integral (s : VBFSys K V W) (ops : List (VBFOp K V W)) (b : ℕ) :
    ((VBFSys.run params s ops).body b).I
      = (s.body b).I + ((List.range ops.length).map (integralTerm b (s.body b).D ops)).sum := by
  induction ops using List.reverseRecOn with
  | nil => simp [VBFSys.run]
  | append_singleton ops op ih =>
    rw [run_append, List.length_append, List.length_singleton,
      sum_range_succ_terms _ (integralTerm b (s.body b).D ops) _
        (fun i hi => integralTerm_append_lt b _ ops op i hi)]
    have hlast : integralTerm b (s.body b).D (ops ++ [op]) ops.length
        = match op with
          | .timeStep b' dt => if b' = b then dt • lastMismatch b (s.body b).D ops else 0
          | _ => 0 := by
      unfold integralTerm
      rw [List.getElem?_append_right (le_refl _), Nat.sub_self, List.take_left']
      · cases op <;> simp
      · rfl
    rw [hlast]
    cases op with
    | evalLag b' ui vb =>
      simp only [VBFSys.step, add_zero]
      by_cases h : b' = b
      · subst h; simp only [Function.update_self, evalState]; exact ih
      · have h' : b ≠ b' := fun e => h e.symm
        simp only [Function.update_of_ne h']; exact ih
    | evalFull b' ui vb S =>
      simp only [VBFSys.step, add_zero]
      by_cases h : b' = b
      · subst h; simp only [Function.update_self, evalState]; exact ih
      · have h' : b ≠ b' := fun e => h e.symm
        simp only [Function.update_of_ne h']; exact ih
    | timeStep b' dt =>
      simp only [VBFSys.step]
      by_cases h : b' = b
      · subst h
        simp only [Function.update_self, if_true]
        rw [ih, run_D]; abel
      · have h' : b ≠ b' := fun e => h e.symm
        simp only [Function.update_of_ne h', h, if_false, add_zero]; exact ih

/-- C10 (clock): the interactor's time is the initial time plus the sum of exactly the `dt` values passed -/
theorem C10_clock (s : VBFSys K V W) (ops : List (VBFOp K V W)) (b : ℕ) :
    ((VBFSys.run params s ops).body b).t = (s.body b).t + ((List.range ops.length).map (clockTerm b ops)).sum := by
  induction ops using List.reverseRecOn with
  | nil => simp [VBFSys.run]
  | append_singleton ops op ih =>
    rw [run_append, List.length_append, List.length_singleton,
      sum_range_succ_terms _ (clockTerm b ops) _ (fun i hi => clockTerm_append_lt b ops op i hi)]
    have hlast : clockTerm b (ops ++ [op]) ops.length
        = match op with
          | .timeStep b' dt => if b' = b then dt else 0
          | _ => 0 := by
      unfold clockTerm
      rw [List.getElem?_append_right (le_refl _), Nat.sub_self]
      cases op <;> simp
    rw [hlast]
    cases op with
    | evalLag b' ui vb =>
      simp only [VBFSys.step, add_zero]
      by_cases h : b' = b
      · subst h; simp only [Function.update_self, evalState]; exact ih
      · have h' : b ≠ b' := fun e => h e.symm
        simp only [Function.update_of_ne h']; exact ih
    | evalFull b' ui vb S =>
      simp only [VBFSys.step, add_zero]
      by_cases h : b' = b
      · subst h; simp only [Function.update_self, evalState]; exact ih
      · have h' : b ≠ b' := fun e => h e.symm
        simp only [Function.update_of_ne h']; exact ih
    | timeStep b' dt =>
      simp only [VBFSys.step]
      by_cases h : b' = b
      · subst h
        simp only [Function.update_self, if_true]
        rw [ih]; ring
      · have h' : b ≠ b' := fun e => h e.symm
        simp only [Function.update_of_ne h', h, if_false, add_zero]; exact ih

/-- C10 (force): immediately after an evaluation of body `b` its marker force is
`k'·I + c'·(interpolated flow velocity − body velocity)` with `I` the integral accumulated so far -/
theorem C10_force (s : VBFSys K V W) (ops : List (VBFOp K V W)) (b : ℕ) (ui vb : V) :
    ((VBFSys.run params s (ops ++ [.evalLag b ui vb])).body b).F
      = (params b).k • ((VBFSys.run params s ops).body b).I + (params b).c • (ui - vb) ∧
    ∀ S : V → W, ((VBFSys.run params s (ops ++ [.evalFull b ui vb S])).body b).F
      = (params b).k • ((VBFSys.run params s ops).body b).I + (params b).c • (ui - vb) := by
  constructor
  · rw [run_append]; simp [VBFSys.step, evalState]
  · intro S; rw [run_append]; simp [VBFSys.step, evalState]

/-- C10: evaluations never change the integral (repeated evaluations without a time step are idempotent
on `I`), nor the clock -/
theorem C10_eval_keeps_integral (s : VBFSys K V W) (b b' : ℕ) (ui vb : V) (S : V → W) :
    ((VBFSys.step params s (.evalLag b' ui vb)).body b).I = (s.body b).I ∧
    ((VBFSys.step params s (.evalFull b' ui vb S)).body b).I = (s.body b).I ∧
    ((VBFSys.step params s (.evalLag b' ui vb)).body b).t = (s.body b).t ∧
    ((VBFSys.step params s (.evalFull b' ui vb S)).body b).t = (s.body b).t := by
  by_cases h : b = b'
  · subst h; simp [VBFSys.step, evalState]
  · simp [VBFSys.step, evalState, Function.update_of_ne h]

/-- contribution of op `i` to the shared Eulerian forcing field, given the system state before it -/
def spreadTerm (sBefore : VBFSys K V W) : VBFOp K V W → W
  | .evalFull b ui vb S => S ((evalState (params b) (sBefore.body b) ui vb).F)
  | _ => 0

/-- C10 (superposition): with reset mode off for every body, the Eulerian forcing field after any history is
its prior content plus the sum of the spread forces of ALL full evaluations, of all bodies, in the history -/
theorem C10_superpose (hreset : ∀ b, (params b).reset = false) (s : VBFSys K V W) (ops : List (VBFOp K V W)) :
    (VBFSys.run params s ops).E
      = s.E + ((List.range ops.length).map fun i =>
          match ops[i]? with
          | some op => spreadTerm params (VBFSys.run params s (ops.take i)) op
          | none => 0).sum := by
  induction ops using List.reverseRecOn with
  | nil => simp [VBFSys.run]
  | append_singleton ops op ih =>
    rw [run_append, List.length_append, List.length_singleton]
    rw [sum_range_succ_terms _ (fun i => match ops[i]? with
          | some op => spreadTerm params (VBFSys.run params s (ops.take i)) op
          | none => 0)]
    · rw [List.getElem?_append_right (le_refl _), Nat.sub_self]
      simp only [List.getElem?_cons_zero, List.take_left']
      rw [← add_assoc, ← ih]
      cases op with
      | evalLag b ui vb => simp [VBFSys.step, spreadTerm]
      | evalFull b ui vb S => simp [VBFSys.step, spreadTerm, hreset b]
      | timeStep b dt => simp [VBFSys.step, spreadTerm]
    · intro i hi
      rw [List.getElem?_append_left hi, List.take_append_of_le_length (Nat.le_of_lt hi)]

/-- C10 (reset mode): a full evaluation of a body in reset mode overwrites the forcing field with its own
spread force, whatever the field held -/
theorem C10_reset_overwrites (s : VBFSys K V W) (b : ℕ) (hb : (params b).reset = true) (ui vb : V) (S : V → W)
    (hS0 : True) :
    (VBFSys.step params s (.evalFull b ui vb S)).E = S ((evalState (params b) (s.body b) ui vb).F) := by
  simp [VBFSys.step, hb]

/-- other bodies are untouched by an operation on body `b'` -/
theorem C10_other_bodies_untouched (s : VBFSys K V W) (b b' : ℕ) (h : b ≠ b') (ui vb : V) (S : V → W) (dt : K) :
    (VBFSys.step params s (.evalLag b' ui vb)).body b = s.body b ∧
    (VBFSys.step params s (.evalFull b' ui vb S)).body b = s.body b ∧
    (VBFSys.step params s (.timeStep b' dt)).body b = s.body b := by
  simp [VBFSys.step, Function.update_of_ne h]

/-- the scaled coefficients: `k' = k · Δs_max^(d−1)` -/
theorem C10_coefficient_scaling (k ds : K) : scaledCoeff k ds 2 = k * ds ∧ scaledCoeff k ds 3 = k * ds ^ 2 := by
  simp [scaledCoeff]

end Sopht.Props.C10
