/-
C11 — the fast-diagonalisation solver solves the discrete Neumann Poisson problem.
(1) abstract spectral-solve theorem (any dimension): for an operator `L` diagonalised by an analysis /
    synthesis pair `(W, V)` with eigenvalues `lam`, exactly one of which (`i0`) vanishes, the code's
    `u = V (inv ∘ W f)` with `inv i0 = 0`, `inv i · lam i = 1` otherwise satisfies
    `L u = f − (W f) i0 • V e_{i0}`; if the null mode is the constant (as it is for the Neumann matrix, (2))
    this is `f − mean f`, and `mean u = 0`;
(2) the 1D Neumann matrix: constants are in its kernel and nothing else is, and it is symmetric;
(3) that `FastDiagPoissonSolver{2D,3D}.solve` computes `V (inv ∘ W f)` with `V = V_z ⊗ V_y ⊗ V_x` is the
    index-form model Model/FastDiag.lean tied numerically with the implementation's own eigen-data, whose
    contract (A V = V Λ, W V = I, null vector constant, eigenvalues sorted decreasing) is checked every run.
Partial: numpy.linalg.eigh / inv are external; the link between (1) and the index-form model is by
correspondence, not by proof.
-/
import SophtVerif.Model.FastDiag
import Mathlib.Algebra.Module.LinearMap.Defs
import Mathlib.Algebra.Module.Pi
import Mathlib.LinearAlgebra.Pi
import Mathlib.Tactic.Ring
import Mathlib.Tactic.Linarith
import Mathlib.Tactic.FieldSimp
import Mathlib.Tactic.LinearCombination

set_option linter.unusedVariables false
set_option linter.unusedSectionVars false

namespace Sopht.Props.C11
open Sopht.Model

/-! ### (1) abstract spectral solve -/

section spectral
variable {K X ι : Type} [Field K] [AddCommGroup X] [Module K X] [DecidableEq ι]

/-- the solver: analyse, scale mode by mode, synthesise -/
def spectralSolve (W : X →ₗ[K] (ι → K)) (V : (ι → K) →ₗ[K] X) (inv : ι → K) (f : X) : X :=
  V (fun i => inv i * W f i)

theorem C11_spectral_solve (L : X →ₗ[K] X) (W : X →ₗ[K] (ι → K)) (V : (ι → K) →ₗ[K] X) (lam inv : ι → K) (i0 : ι)
    (hVW : ∀ x, V (W x) = x) (hWV : ∀ g, W (V g) = g)
    (hL : ∀ g, L (V g) = V (fun i => lam i * g i))
    (h0 : lam i0 = 0) (hinv0 : inv i0 = 0) (hinv : ∀ i, i ≠ i0 → lam i * inv i = 1) (f : X) :
    L (spectralSolve W V inv f) = f - V (fun i => if i = i0 then W f i else 0) := by
  unfold spectralSolve
  rw [hL]
  have key : (fun i => lam i * (inv i * W f i)) = fun i => W f i - (if i = i0 then W f i else 0) := by
    funext i
    by_cases h : i = i0
    · subst h; simp [h0]
    · rw [if_neg h, sub_zero, ← mul_assoc, hinv i h, one_mul]
  rw [key]
  have : (fun i => W f i - (if i = i0 then W f i else 0)) = W f - (fun i => if i = i0 then W f i else 0) := rfl
  rw [this, map_sub, hVW]

/-- with the null mode equal to the constant `one` (`V e_{i0} = c • one`, `(W x) i0 = d · total x`,
`c d N = 1`, `total one = N`): the residual is `f − mean f` and the solution has zero mean -/
theorem C11_neumann_solve (L : X →ₗ[K] X) (W : X →ₗ[K] (ι → K)) (V : (ι → K) →ₗ[K] X) (lam inv : ι → K) (i0 : ι)
    (hVW : ∀ x, V (W x) = x) (hWV : ∀ g, W (V g) = g)
    (hL : ∀ g, L (V g) = V (fun i => lam i * g i))
    (h0 : lam i0 = 0) (hinv0 : inv i0 = 0) (hinv : ∀ i, i ≠ i0 → lam i * inv i = 1)
    (one : X) (total : X →ₗ[K] K) (N c d : K) (hN : total one = N) (hN0 : N ≠ 0)
    (hnullV : V (fun i => if i = i0 then 1 else 0) = c • one)
    (hnullW : ∀ x, W x i0 = d * total x) (hcd : c * d * N = 1) (f : X) :
    L (spectralSolve W V inv f) = f - (total f / N) • one ∧ total (spectralSolve W V inv f) = 0 := by
  constructor
  · rw [C11_spectral_solve L W V lam inv i0 hVW hWV hL h0 hinv0 hinv f]
    congr 1
    have : (fun i => if i = i0 then W f i else 0) = (W f i0) • (fun i => if i = i0 then (1 : K) else 0) := by
      funext i; by_cases h : i = i0
      · subst h; simp
      · simp [h]
    rw [this, map_smul, hnullV, hnullW, smul_smul]
    congr 1
    have hd : d * c * N = 1 := by rw [mul_comm d c]; exact hcd
    field_simp
    linear_combination (total f) * hd
  · -- total u = (W u) i0 / d and (W u) i0 = inv i0 · … = 0
    have hd0 : d ≠ 0 := by
      intro h; rw [h, mul_zero, zero_mul] at hcd; exact zero_ne_one hcd
    have h1 := hnullW (spectralSolve W V inv f)
    unfold spectralSolve at h1 ⊢
    rw [hWV] at h1
    simp only [hinv0, zero_mul] at h1
    exact (mul_eq_zero.mp h1.symm).resolve_left hd0

/-- the residual of the spectral solve for an ARBITRARY table `inv`: mode `i` of the right-hand side is reproduced with
the factor `lam i * inv i` -/
theorem C11_spectral_solve_residual (L : X →ₗ[K] X) (W : X →ₗ[K] (ι → K)) (V : (ι → K) →ₗ[K] X) (lam inv : ι → K)
    (hVW : ∀ x, V (W x) = x) (hL : ∀ g, L (V g) = V (fun i => lam i * g i)) (f : X) :
    L (spectralSolve W V inv f) = f - V (fun i => (1 - lam i * inv i) * W f i) := by
  unfold spectralSolve
  rw [hL]
  have key : (fun i => lam i * (inv i * W f i)) = W f - (fun i => (1 - lam i * inv i) * W f i) := by
    funext i; simp only [Pi.sub_apply]; ring
  rw [key, map_sub, hVW]

/-- the hypothesis "the table vanishes at the constant mode AND ONLY THERE" of `C11_spectral_solve` is necessary: if the
table is zero at another mode `m` (e.g. a tolerance-based test that also catches the smoothest non-constant modes), the
right-hand side `V e_m` — which has no constant part — is not solved: the operator applied to the result is `0`,
not `V e_m ≠ 0` -/
theorem C11_dropped_mode_not_solved (L : X →ₗ[K] X) (W : X →ₗ[K] (ι → K)) (V : (ι → K) →ₗ[K] X) (lam inv : ι → K) (i0 m : ι)
    (hVW : ∀ x, V (W x) = x) (hWV : ∀ g, W (V g) = g) (hL : ∀ g, L (V g) = V (fun i => lam i * g i))
    (hm : m ≠ i0) (hinvm : inv m = 0) :
    let f := V (fun i => if i = m then (1 : K) else 0)
    L (spectralSolve W V inv f) = 0 ∧ f - V (fun i => if i = i0 then W f i else 0) = f ∧ f ≠ 0 := by
  intro f
  have hWf : W f = fun i => if i = m then (1 : K) else 0 := hWV _
  refine ⟨?_, ?_, ?_⟩
  · unfold spectralSolve
    rw [hL, hWf]
    have : (fun i => lam i * (inv i * (if i = m then (1 : K) else 0))) = 0 := by
      funext i; by_cases h : i = m
      · subst h; simp [hinvm]
      · simp [h]
    rw [this, map_zero]
  · have : (fun i => if i = i0 then W f i else 0) = (0 : ι → K) := by
      funext i; by_cases h : i = i0
      · subst h; rw [if_pos rfl, hWf]; simp [Ne.symm hm]
      · simp [h]
    rw [this, map_zero, sub_zero]
  · intro h0
    have := congrFun (hWf.symm.trans (by rw [h0, map_zero])) m
    simp at this

end spectral

/-! ### (2) the 1D Neumann second-difference operator -/

section neumann
variable {K : Type} [Field K]

/-- constants are in the kernel -/
theorem C11_neumann_constants_in_kernel (n : ℕ) (invdx2 c : K) (i : ℕ) : neumannRow n invdx2 (fun _ => c) i = 0 := by
  unfold neumannRow; split_ifs <;> ring

/-- … and nothing else: `A v = 0` on rows `0 … n−1` forces `v` constant on `0 … n−1` -/
theorem C11_neumann_kernel_is_constants (n : ℕ) (hn : 2 ≤ n) (invdx2 : K) (hd : invdx2 ≠ 0) (v : ℕ → K)
    (hker : ∀ i, i < n → neumannRow n invdx2 v i = 0) : ∀ i, i < n → v i = v 0 := by
  -- first row: v 1 = v 0; interior rows: v (i+1) − v i = v i − v (i−1)
  have h01 : v 1 = v 0 := by
    have := hker 0 (by omega)
    simp only [neumannRow, if_true] at this
    have := (mul_eq_zero.mp this).resolve_left hd
    linear_combination -this
  have step : ∀ i, i + 1 < n → v i = v 0 ∧ v (i + 1) = v 0 := by
    intro i
    induction i with
    | zero => intro _; exact ⟨rfl, h01⟩
    | succ k ih =>
      intro hk
      obtain ⟨a, b⟩ := ih (by omega)
      refine ⟨b, ?_⟩
      have := hker (k + 1) (by omega)
      have hne0 : k + 1 ≠ 0 := by omega
      have hne1 : k + 1 ≠ n - 1 := by omega
      simp only [neumannRow, hne0, hne1, if_false, Nat.add_sub_cancel] at this
      have := (mul_eq_zero.mp this).resolve_left hd
      linear_combination -this + 2 * b - a
  intro i hi
  rcases Nat.eq_zero_or_pos i with rfl | hpos
  · rfl
  · have := step (i - 1) (by omega)
    have e : i - 1 + 1 = i := by omega
    rw [e] at this
    exact this.2

end neumann

end Sopht.Props.C11
