/-
C11 (link) — the index-form model of `FastDiagPoissonSolver2D.solve` (Model/FastDiag.lean: the `multi_dot`
contraction sequence with explicit finite sums) IS the abstract spectral solve of `C11_spectral_solve` for the
operator `L u = A_y u + u A_xᵀ`, given the per-axis contract of the eigen-data
(`A V = V diag λ`, `W V = 1`, `V W = 1`): so the solver's output satisfies `L u = f − (null-mode part of f)`.
Everything is derived from the PER-AXIS contracts (which the correspondence checks numerically on the
implementation's own matrices); the two-dimensional analysis / synthesis pair is constructed here.
-/
import SophtVerif.Props.C11
import Mathlib.Data.Matrix.Basic
import Mathlib.Data.Matrix.Mul
import Mathlib.Data.Matrix.Diagonal
import Mathlib.Algebra.BigOperators.Fin
import Mathlib.Tactic.Abel
import Mathlib.LinearAlgebra.Matrix.Kronecker

set_option linter.unusedVariables false
set_option linter.unusedSectionVars false

namespace Sopht.Props.C11
open Sopht.Model Matrix

section link2
variable {K : Type} [Field K] {α β : Type} [Fintype α] [Fintype β] [DecidableEq α] [DecidableEq β]

/-- analysis: `f ↦ W_y f W_xᵀ`, as a linear map into coefficient tables indexed by mode pairs -/
def analysis2 (Wy : Matrix α α K) (Wx : Matrix β β K) : (Matrix α β K) →ₗ[K] (α × β → K) where
  toFun f := fun p => (Wy * f * Wxᵀ) p.1 p.2
  map_add' f g := by funext p; simp [Matrix.mul_add, Matrix.add_mul]
  map_smul' c f := by funext p; simp [Matrix.mul_smul, Matrix.smul_mul]

/-- synthesis: `g ↦ V_y g V_xᵀ` -/
def synthesis2 (Vy : Matrix α α K) (Vx : Matrix β β K) : (α × β → K) →ₗ[K] (Matrix α β K) where
  toFun g := Vy * (Matrix.of fun a b => g (a, b)) * Vxᵀ
  map_add' f g := by
    have : (Matrix.of fun a b => (f + g) (a, b)) = (Matrix.of fun a b => f (a, b)) + (Matrix.of fun a b => g (a, b)) := rfl
    rw [this, Matrix.mul_add, Matrix.add_mul]
  map_smul' c f := by
    have : (Matrix.of fun a b => (c • f) (a, b)) = c • (Matrix.of fun a b => f (a, b)) := rfl
    rw [this, Matrix.mul_smul, Matrix.smul_mul]; rfl

/-- the two-dimensional operator `u ↦ A_y u + u A_xᵀ` -/
def op2 (Ay : Matrix α α K) (Ax : Matrix β β K) : (Matrix α β K) →ₗ[K] (Matrix α β K) where
  toFun u := Ay * u + u * Axᵀ
  map_add' u v := by rw [Matrix.mul_add, Matrix.add_mul]; abel
  map_smul' c u := by simp [Matrix.mul_smul, Matrix.smul_mul]

theorem synth_analysis (Vy Wy : Matrix α α K) (Vx Wx : Matrix β β K) (hy : Vy * Wy = 1) (hx : Vx * Wx = 1) (f : Matrix α β K) :
    synthesis2 Vy Vx (analysis2 Wy Wx f) = f := by
  show Vy * (Matrix.of fun a b => (Wy * f * Wxᵀ) a b) * Vxᵀ = f
  have : (Matrix.of fun a b => (Wy * f * Wxᵀ) a b) = Wy * f * Wxᵀ := rfl
  rw [this]
  calc Vy * (Wy * f * Wxᵀ) * Vxᵀ = (Vy * Wy) * f * (Wxᵀ * Vxᵀ) := by simp only [Matrix.mul_assoc]
    _ = f := by rw [hy, ← Matrix.transpose_mul, hx]; simp

theorem analysis_synth (Vy Wy : Matrix α α K) (Vx Wx : Matrix β β K) (hy : Wy * Vy = 1) (hx : Wx * Vx = 1) (g : α × β → K) :
    analysis2 Wy Wx (synthesis2 Vy Vx g) = g := by
  funext p
  show (Wy * (Vy * (Matrix.of fun a b => g (a, b)) * Vxᵀ) * Wxᵀ) p.1 p.2 = g p
  have : Wy * (Vy * (Matrix.of fun a b => g (a, b)) * Vxᵀ) * Wxᵀ = (Wy * Vy) * (Matrix.of fun a b => g (a, b)) * (Vxᵀ * Wxᵀ) := by
    simp only [Matrix.mul_assoc]
  rw [this, hy, ← Matrix.transpose_mul, hx]
  simp

theorem op_synth (Ay Vy : Matrix α α K) (Ax Vx : Matrix β β K) (ly : α → K) (lx : β → K)
    (hy : Ay * Vy = Vy * Matrix.diagonal ly) (hx : Ax * Vx = Vx * Matrix.diagonal lx) (g : α × β → K) :
    op2 Ay Ax (synthesis2 Vy Vx g) = synthesis2 Vy Vx (fun p => (ly p.1 + lx p.2) * g p) := by
  show Ay * (Vy * (Matrix.of fun a b => g (a, b)) * Vxᵀ) + (Vy * (Matrix.of fun a b => g (a, b)) * Vxᵀ) * Axᵀ
     = Vy * (Matrix.of fun a b => (ly a + lx b) * g (a, b)) * Vxᵀ
  set G : Matrix α β K := Matrix.of fun a b => g (a, b) with hG
  have e1 : Ay * (Vy * G * Vxᵀ) = Vy * (Matrix.diagonal ly * G) * Vxᵀ := by
    rw [← Matrix.mul_assoc, ← Matrix.mul_assoc, hy]; simp only [Matrix.mul_assoc]
  have e2 : (Vy * G * Vxᵀ) * Axᵀ = Vy * (G * Matrix.diagonal lx) * Vxᵀ := by
    have : Vxᵀ * Axᵀ = (Matrix.diagonal lx) * Vxᵀ := by
      rw [← Matrix.transpose_mul, hx, Matrix.transpose_mul, Matrix.diagonal_transpose]
    rw [Matrix.mul_assoc, this]; simp only [Matrix.mul_assoc]
  rw [e1, e2, ← Matrix.add_mul, ← Matrix.mul_add]
  congr 2
  ext a b
  simp [hG, Matrix.diagonal_mul, Matrix.mul_diagonal]
  ring

/-- C11 (2D, from per-axis contracts): with per-axis eigen-data satisfying `A V = V diag λ`, `V W = W V = 1`, exactly
one mode pair `(a0, b0)` with `λ_y a0 + λ_x b0 = 0`, `inv = 0` there and the reciprocal elsewhere, the solver's
`u = V_y ((W_y f W_xᵀ) ∘ inv) V_xᵀ` satisfies `A_y u + u A_xᵀ = f − (null-mode component of f)` -/
theorem C11_solve2_from_axis_contracts (Ay Vy Wy : Matrix α α K) (Ax Vx Wx : Matrix β β K) (ly : α → K) (lx : β → K)
    (hAy : Ay * Vy = Vy * Matrix.diagonal ly) (hAx : Ax * Vx = Vx * Matrix.diagonal lx)
    (hVWy : Vy * Wy = 1) (hWVy : Wy * Vy = 1) (hVWx : Vx * Wx = 1) (hWVx : Wx * Vx = 1)
    (inv : α × β → K) (p0 : α × β) (h0 : ly p0.1 + lx p0.2 = 0) (hinv0 : inv p0 = 0)
    (hinv : ∀ p, p ≠ p0 → (ly p.1 + lx p.2) * inv p = 1) (f : Matrix α β K) :
    op2 Ay Ax (spectralSolve (analysis2 Wy Wx) (synthesis2 Vy Vx) inv f)
      = f - synthesis2 Vy Vx (fun p => if p = p0 then analysis2 Wy Wx f p else 0) :=
  C11_spectral_solve (op2 Ay Ax) (analysis2 Wy Wx) (synthesis2 Vy Vx) (fun p => ly p.1 + lx p.2) inv p0
    (synth_analysis Vy Wy Vx Wx hVWy hVWx) (analysis_synth Vy Wy Vx Wx hWVy hWVx)
    (op_synth Ay Vy Ax Vx ly lx hAy hAx) h0 hinv0 hinv f

/-- grid sum as a linear functional -/
def total2 : (Matrix α β K) →ₗ[K] K where
  toFun f := ∑ a, ∑ b, f a b
  map_add' f g := by simp [Finset.sum_add_distrib]
  map_smul' c f := by simp [Finset.mul_sum]

/-- C11 (2D Neumann, from per-axis contracts): if moreover the null eigenvectors are constant along their axis
(`V_y[:, a0] ≡ c_y`, `W_y[a0, :] ≡ d_y`, same in x — true for the Neumann matrices, C11_neumann_kernel_is_constants),
the solver's output satisfies `A_y u + u A_xᵀ = f − mean f` and has zero mean -/
theorem C11_neumann_solve2_from_axis_contracts (Ay Vy Wy : Matrix α α K) (Ax Vx Wx : Matrix β β K) (ly : α → K) (lx : β → K)
    (hAy : Ay * Vy = Vy * Matrix.diagonal ly) (hAx : Ax * Vx = Vx * Matrix.diagonal lx)
    (hVWy : Vy * Wy = 1) (hWVy : Wy * Vy = 1) (hVWx : Vx * Wx = 1) (hWVx : Wx * Vx = 1)
    (inv : α × β → K) (p0 : α × β) (h0 : ly p0.1 + lx p0.2 = 0) (hinv0 : inv p0 = 0)
    (hinv : ∀ p, p ≠ p0 → (ly p.1 + lx p.2) * inv p = 1)
    (cy dy cx dx : K) (hcy : ∀ y, Vy y p0.1 = cy) (hdy : ∀ y, Wy p0.1 y = dy) (hcx : ∀ x, Vx x p0.2 = cx) (hdx : ∀ x, Wx p0.2 x = dx)
    (hN : ((Fintype.card α : K) * (Fintype.card β : K)) ≠ 0)
    (hcd : (cy * cx) * (dy * dx) * ((Fintype.card α : K) * (Fintype.card β : K)) = 1) (f : Matrix α β K) :
    op2 Ay Ax (spectralSolve (analysis2 Wy Wx) (synthesis2 Vy Vx) inv f)
        = f - (total2 f / ((Fintype.card α : K) * (Fintype.card β : K))) • (Matrix.of fun _ _ => (1 : K)) ∧
      total2 (spectralSolve (analysis2 Wy Wx) (synthesis2 Vy Vx) inv f) = 0 := by
  apply C11_neumann_solve (op2 Ay Ax) (analysis2 Wy Wx) (synthesis2 Vy Vx) (fun p => ly p.1 + lx p.2) inv p0
    (synth_analysis Vy Wy Vx Wx hVWy hVWx) (analysis_synth Vy Wy Vx Wx hWVy hWVx)
    (op_synth Ay Vy Ax Vx ly lx hAy hAx) h0 hinv0 hinv (Matrix.of fun _ _ => (1 : K)) total2
    ((Fintype.card α : K) * (Fintype.card β : K)) (cy * cx) (dy * dx)
  · show ∑ a : α, ∑ b : β, (1 : K) = _
    simp
  · exact hN
  · -- synthesis of the indicator of the null mode = (c_y c_x) · ones
    ext y x
    show (Vy * (Matrix.of fun a b => if (a, b) = p0 then (1 : K) else 0) * Vxᵀ) y x = ((cy * cx) • (Matrix.of fun _ _ => (1 : K))) y x
    simp only [Matrix.mul_apply, Matrix.transpose_apply, Matrix.of_apply, Matrix.smul_apply, smul_eq_mul, mul_one]
    rw [Finset.sum_eq_single p0.2]
    · rw [Finset.sum_eq_single p0.1]
      · simp [hcy, hcx]
      · intro a _ ha
        have : ¬ ((a, p0.2) = p0) := fun h => ha (congrArg Prod.fst h)
        simp [this]
      · intro h; exact absurd (Finset.mem_univ _) h
    · intro b _ hb
      have : ∀ a, ¬ ((a, b) = p0) := fun a h => hb (congrArg Prod.snd h)
      simp [this]
    · intro h; exact absurd (Finset.mem_univ _) h
  · -- analysis at the null mode = (d_y d_x) · total
    intro f'
    show (Wy * f' * Wxᵀ) p0.1 p0.2 = dy * dx * ∑ a, ∑ b, f' a b
    simp only [Matrix.mul_apply, Matrix.transpose_apply, hdy, hdx, Finset.mul_sum, Finset.sum_mul]
    rw [Finset.sum_comm]
    apply Finset.sum_congr rfl; intro a _
    apply Finset.sum_congr rfl; intro b _
    ring
  · exact hcd

end link2

/-! ### 3D: the (y, x) pair is itself a diagonalised operator on the product index (Kronecker), so the
two-dimensional theorem applies with `β := (Fin ny × Fin nx)` -/

section link3
variable {K : Type} [Field K] {β γ : Type} [Fintype β] [Fintype γ] [DecidableEq β] [DecidableEq γ]
open Kronecker

/-- Kronecker sum `A_y ⊗ 1 + 1 ⊗ A_x` is diagonalised by `V_y ⊗ V_x` with eigenvalues `λ_y + λ_x` -/
theorem kron_contracts (Ay Vy Wy : Matrix β β K) (Ax Vx Wx : Matrix γ γ K) (ly : β → K) (lx : γ → K)
    (hAy : Ay * Vy = Vy * Matrix.diagonal ly) (hAx : Ax * Vx = Vx * Matrix.diagonal lx)
    (hVWy : Vy * Wy = 1) (hWVy : Wy * Vy = 1) (hVWx : Vx * Wx = 1) (hWVx : Wx * Vx = 1) :
    (Ay ⊗ₖ (1 : Matrix γ γ K) + (1 : Matrix β β K) ⊗ₖ Ax) * (Vy ⊗ₖ Vx)
        = (Vy ⊗ₖ Vx) * Matrix.diagonal (fun p : β × γ => ly p.1 + lx p.2) ∧
      (Vy ⊗ₖ Vx) * (Wy ⊗ₖ Wx) = 1 ∧ (Wy ⊗ₖ Wx) * (Vy ⊗ₖ Vx) = 1 := by
  refine ⟨?_, ?_, ?_⟩
  · have hd : Matrix.diagonal (fun p : β × γ => ly p.1 + lx p.2)
        = Matrix.diagonal ly ⊗ₖ (1 : Matrix γ γ K) + (1 : Matrix β β K) ⊗ₖ Matrix.diagonal lx := by
      rw [← Matrix.diagonal_one, ← Matrix.diagonal_one, Matrix.diagonal_kronecker_diagonal, Matrix.diagonal_kronecker_diagonal,
        Matrix.diagonal_add]
      congr 1; funext p; simp
    rw [hd, Matrix.add_mul, Matrix.mul_add, ← Matrix.mul_kronecker_mul, ← Matrix.mul_kronecker_mul,
      ← Matrix.mul_kronecker_mul, ← Matrix.mul_kronecker_mul, hAy, hAx]
    simp
  · rw [← Matrix.mul_kronecker_mul, hVWy, hVWx, Matrix.one_kronecker_one]
  · rw [← Matrix.mul_kronecker_mul, hWVy, hWVx, Matrix.one_kronecker_one]

/-- C11 (3D, from per-axis contracts): `u = V_z ((W_z f (W_y⊗W_x)ᵀ) ∘ inv) (V_y⊗V_x)ᵀ` on fields
`Matrix α (β × γ)` (z index × flattened (y, x) index) satisfies
`(A_z u + u (A_y ⊗ 1 + 1 ⊗ A_x)ᵀ) = f − null-mode component` -/
theorem C11_solve3_from_axis_contracts {α : Type} [Fintype α] [DecidableEq α]
    (Az Vz Wz : Matrix α α K) (Ay Vy Wy : Matrix β β K) (Ax Vx Wx : Matrix γ γ K) (lz : α → K) (ly : β → K) (lx : γ → K)
    (hAz : Az * Vz = Vz * Matrix.diagonal lz) (hAy : Ay * Vy = Vy * Matrix.diagonal ly) (hAx : Ax * Vx = Vx * Matrix.diagonal lx)
    (hVWz : Vz * Wz = 1) (hWVz : Wz * Vz = 1) (hVWy : Vy * Wy = 1) (hWVy : Wy * Vy = 1) (hVWx : Vx * Wx = 1) (hWVx : Wx * Vx = 1)
    (inv : α × (β × γ) → K) (p0 : α × (β × γ)) (h0 : lz p0.1 + (ly p0.2.1 + lx p0.2.2) = 0) (hinv0 : inv p0 = 0)
    (hinv : ∀ p, p ≠ p0 → (lz p.1 + (ly p.2.1 + lx p.2.2)) * inv p = 1) (f : Matrix α (β × γ) K) :
    op2 Az (Ay ⊗ₖ (1 : Matrix γ γ K) + (1 : Matrix β β K) ⊗ₖ Ax)
        (spectralSolve (analysis2 Wz (Wy ⊗ₖ Wx)) (synthesis2 Vz (Vy ⊗ₖ Vx)) inv f)
      = f - synthesis2 Vz (Vy ⊗ₖ Vx) (fun p => if p = p0 then analysis2 Wz (Wy ⊗ₖ Wx) f p else 0) := by
  obtain ⟨hA, hVW, hWV⟩ := kron_contracts Ay Vy Wy Ax Vx Wx ly lx hAy hAx hVWy hWVy hVWx hWVx
  exact C11_solve2_from_axis_contracts Az Vz Wz _ _ _ lz (fun p : β × γ => ly p.1 + lx p.2) hAz hA hVWz hWVz hVW hWV
    inv p0 h0 hinv0 hinv f

/-- C11 (3D Neumann, from per-axis contracts): constant null eigenvectors on every axis ⇒ residual `f − mean f`,
zero-mean solution -/
theorem C11_neumann_solve3_from_axis_contracts {α : Type} [Fintype α] [DecidableEq α]
    (Az Vz Wz : Matrix α α K) (Ay Vy Wy : Matrix β β K) (Ax Vx Wx : Matrix γ γ K) (lz : α → K) (ly : β → K) (lx : γ → K)
    (hAz : Az * Vz = Vz * Matrix.diagonal lz) (hAy : Ay * Vy = Vy * Matrix.diagonal ly) (hAx : Ax * Vx = Vx * Matrix.diagonal lx)
    (hVWz : Vz * Wz = 1) (hWVz : Wz * Vz = 1) (hVWy : Vy * Wy = 1) (hWVy : Wy * Vy = 1) (hVWx : Vx * Wx = 1) (hWVx : Wx * Vx = 1)
    (inv : α × (β × γ) → K) (p0 : α × (β × γ)) (h0 : lz p0.1 + (ly p0.2.1 + lx p0.2.2) = 0) (hinv0 : inv p0 = 0)
    (hinv : ∀ p, p ≠ p0 → (lz p.1 + (ly p.2.1 + lx p.2.2)) * inv p = 1)
    (cz dz cy dy cx dx : K) (hcz : ∀ i, Vz i p0.1 = cz) (hdz : ∀ i, Wz p0.1 i = dz)
    (hcy : ∀ i, Vy i p0.2.1 = cy) (hdy : ∀ i, Wy p0.2.1 i = dy) (hcx : ∀ i, Vx i p0.2.2 = cx) (hdx : ∀ i, Wx p0.2.2 i = dx)
    (hN : ((Fintype.card α : K) * (Fintype.card (β × γ) : K)) ≠ 0)
    (hcd : (cz * (cy * cx)) * (dz * (dy * dx)) * ((Fintype.card α : K) * (Fintype.card (β × γ) : K)) = 1)
    (f : Matrix α (β × γ) K) :
    op2 Az (Ay ⊗ₖ (1 : Matrix γ γ K) + (1 : Matrix β β K) ⊗ₖ Ax)
        (spectralSolve (analysis2 Wz (Wy ⊗ₖ Wx)) (synthesis2 Vz (Vy ⊗ₖ Vx)) inv f)
        = f - (total2 f / ((Fintype.card α : K) * (Fintype.card (β × γ) : K))) • (Matrix.of fun _ _ => (1 : K)) ∧
      total2 (spectralSolve (analysis2 Wz (Wy ⊗ₖ Wx)) (synthesis2 Vz (Vy ⊗ₖ Vx)) inv f) = 0 := by
  obtain ⟨hA, hVW, hWV⟩ := kron_contracts Ay Vy Wy Ax Vx Wx ly lx hAy hAx hVWy hWVy hVWx hWVx
  exact C11_neumann_solve2_from_axis_contracts Az Vz Wz _ _ _ lz (fun p : β × γ => ly p.1 + lx p.2) hAz hA hVWz hWVz hVW hWV
    inv p0 h0 hinv0 hinv cz dz (cy * cx) (dy * dx) hcz hdz
    (fun i => by simp [Matrix.kroneckerMap_apply, hcy, hcx]) (fun i => by simp [Matrix.kroneckerMap_apply, hdy, hdx]) hN hcd f

end link3

/-! ### the index form of Model/FastDiag is this spectral solve -/

section index
variable {K : Type} [Field K]

theorem sumTo_eq (n : ℕ) (f : ℕ → K) : sumTo n f = ∑ i : Fin n, f i := by
  unfold sumTo
  induction n with
  | zero => simp
  | succ n ih => rw [List.range_succ, List.map_append, List.sum_append, ih, Fin.sum_univ_castSucc]; simp

/-- `fdSolve2` (the model tied to the implementation by the correspondence) evaluated inside the grid equals the
abstract spectral solve built from the restrictions of its matrices -/
theorem fdSolve2_eq_spectral (ny nx : ℕ) (Vy Wy Vx Wx : ℕ → ℕ → K) (inv : ℕ → ℕ → K) (f : ℕ → ℕ → K) (y : Fin ny) (x : Fin nx) :
    fdSolve2 ny nx Vy Wy Vx Wx inv f y x
      = spectralSolve (analysis2 (Matrix.of fun a b : Fin ny => Wy a b) (Matrix.of fun a b : Fin nx => Wx a b))
          (synthesis2 (Matrix.of fun a b : Fin ny => Vy a b) (Matrix.of fun a b : Fin nx => Vx a b))
          (fun p => inv p.1 p.2) (Matrix.of fun (a : Fin ny) (b : Fin nx) => f a b) y x := by
  unfold fdSolve2 spectralSolve
  simp only [sumTo_eq, synthesis2, analysis2, LinearMap.coe_mk, AddHom.coe_mk, Matrix.mul_apply, Matrix.transpose_apply,
    Matrix.of_apply, Finset.sum_mul, Finset.mul_sum]
  rw [Finset.sum_comm]
  apply Finset.sum_congr rfl; intro b _
  apply Finset.sum_congr rfl; intro a _
  rw [Finset.sum_comm]
  apply Finset.sum_congr rfl; intro x' _
  apply Finset.sum_congr rfl; intro y' _
  ring

open Kronecker in
/-- `fdSolve3` (the six `tensordot` contractions around the element-wise product) evaluated inside the grid equals
the abstract spectral solve with the Kronecker pair of `C11_solve3_from_axis_contracts` -/
theorem fdSolve3_eq_spectral (nz ny nx : ℕ) (Vz Wz Vy Wy Vx Wx : ℕ → ℕ → K) (inv : ℕ → ℕ → ℕ → K) (f : ℕ → ℕ → ℕ → K)
    (z : Fin nz) (y : Fin ny) (x : Fin nx) :
    fdSolve3 nz ny nx Vz Wz Vy Wy Vx Wx inv f z y x
      = spectralSolve
          (analysis2 (Matrix.of fun a b : Fin nz => Wz a b)
            ((Matrix.of fun a b : Fin ny => Wy a b) ⊗ₖ (Matrix.of fun a b : Fin nx => Wx a b)))
          (synthesis2 (Matrix.of fun a b : Fin nz => Vz a b)
            ((Matrix.of fun a b : Fin ny => Vy a b) ⊗ₖ (Matrix.of fun a b : Fin nx => Vx a b)))
          (fun p => inv p.1 p.2.1 p.2.2) (Matrix.of fun (a : Fin nz) (b : Fin ny × Fin nx) => f a b.1 b.2) z (y, x) := by
  unfold fdSolve3 spectralSolve
  simp only [sumTo_eq, synthesis2, analysis2, LinearMap.coe_mk, AddHom.coe_mk, Matrix.mul_apply, Matrix.transpose_apply,
    Matrix.of_apply, Matrix.kroneckerMap_apply, Fintype.sum_prod_type, Finset.sum_mul, Finset.mul_sum]
  rw [Finset.sum_comm]
  apply Finset.sum_congr rfl; intro j _
  rw [Finset.sum_comm]
  apply Finset.sum_congr rfl; intro k _
  apply Finset.sum_congr rfl; intro i _
  rw [Finset.sum_comm]
  apply Finset.sum_congr rfl; intro y' _
  rw [Finset.sum_comm]
  apply Finset.sum_congr rfl; intro x' _
  apply Finset.sum_congr rfl; intro z' _
  ring

end index

/-! ### the null eigenvector of the Neumann matrix is constant — derived, not assumed -/

section nullvec
variable {K : Type} [Field K]

/-- extension of a vector on `Fin n` to `ℕ` (values beyond `n` are never read by rows `0 … n−1`) -/
def extendFin (n : ℕ) (v : Fin n → K) : ℕ → K := fun i => if h : i < n then v ⟨i, h⟩ else 0

/-- if `A` acts as the 1D Neumann second-difference operator (`neumannRow`, the model of `_construct_poisson_matrices`
+ `_apply_boundary_conds…`) and `A V = V diag λ` with `λ a0 = 0`, the column `a0` of `V` is constant: the hypothesis
`hcy` of `C11_neumann_solve2/3_from_axis_contracts` follows from the eigen-contract -/
theorem C11_null_column_constant (n : ℕ) (hn : 2 ≤ n) (invdx2 : K) (hd : invdx2 ≠ 0) (A V : Matrix (Fin n) (Fin n) K) (lam : Fin n → K)
    (hA : ∀ (v : Fin n → K) (i : Fin n), (A.mulVec v) i = neumannRow n invdx2 (extendFin n v) i)
    (hAV : A * V = V * Matrix.diagonal lam) (a0 : Fin n) (h0 : lam a0 = 0) :
    ∀ y : Fin n, V y a0 = V ⟨0, by omega⟩ a0 := by
  set col : Fin n → K := fun y => V y a0 with hcol
  have hker : ∀ i, i < n → neumannRow n invdx2 (extendFin n col) i = 0 := by
    intro i hi
    rw [← hA col ⟨i, hi⟩]
    have : A.mulVec col = fun y => (A * V) y a0 := by
      funext y; simp [Matrix.mulVec, Matrix.mul_apply, dotProduct, hcol]
    rw [this, hAV]
    simp [Matrix.mul_apply, Matrix.diagonal_apply, h0]
  have hconst := C11_neumann_kernel_is_constants n hn invdx2 hd (extendFin n col) hker
  intro y
  have := hconst y.1 y.2
  simp only [extendFin, y.2, dif_pos, show 0 < n by omega] at this
  exact this

end nullvec

end Sopht.Props.C11
