/-
C12 — discrete vector-calculus identities, exact, on the GENERATED kernels, for all field values
(symbolic cell values) at any cell (the boundary-ring proviso is that the cell's stencils lie inside
the grid: the identities below are about the stencil formulas, which is what is evaluated there).
-/
import SophtVerif.Gen.Kernels
import Mathlib.Tactic.Ring
import Mathlib.Tactic.FieldSimp

set_option linter.unusedSectionVars false

namespace Sopht.Props.C12
open Sopht Sopht.Gen

variable {K : Type} [Field K] [LinearOrder K] [IsStrictOrderedRing K]

/-- discrete divergence of the discrete 3D curl vanishes identically -/
theorem C12_div_curl_zero_3d (p q : K) (fx fy fz : F3 K) (i j k : ℤ) :
    divergence_stencil_3d q
      (curl_x_comp_stencil_3d p fy fz) (curl_y_comp_stencil_3d p fx fz) (curl_z_comp_stencil_3d p fx fy)
      i j k = 0 := by
  simp only [divergence_stencil_3d, curl_x_comp_stencil_3d, curl_y_comp_stencil_3d, curl_z_comp_stencil_3d]
  ring

/-- the vorticity update from a velocity forcing adds `prefactor ×` the library's own curl -/
theorem C12_update_eq_curl_3d (p : K) (fx fy fz wx wy wz : F3 K) (i j k : ℤ) :
    update_vorticity_from_velocity_forcing_x_comp_stencil_3d p fy fz wx i j k
        = wx i j k + curl_x_comp_stencil_3d p fy fz i j k ∧
    update_vorticity_from_velocity_forcing_y_comp_stencil_3d p fx fz wy i j k
        = wy i j k + curl_y_comp_stencil_3d p fx fz i j k ∧
    update_vorticity_from_velocity_forcing_z_comp_stencil_3d p fx fy wz i j k
        = wz i j k + curl_z_comp_stencil_3d p fx fy i j k := by
  simp only [update_vorticity_from_velocity_forcing_x_comp_stencil_3d,
    update_vorticity_from_velocity_forcing_y_comp_stencil_3d,
    update_vorticity_from_velocity_forcing_z_comp_stencil_3d,
    curl_x_comp_stencil_3d, curl_y_comp_stencil_3d, curl_z_comp_stencil_3d]
  refine ⟨?_, ?_, ?_⟩ <;> ring

/-- curl-type updates (body forcing; rotational-form transport `F = u × ω`) never create divergence
of vorticity: the divergence of the updated field equals the divergence of the old one -/
theorem C12_forcing_update_divfree_3d (p q : K) (fx fy fz wx wy wz : F3 K) (i j k : ℤ) :
    divergence_stencil_3d q
      (update_vorticity_from_velocity_forcing_x_comp_stencil_3d p fy fz wx)
      (update_vorticity_from_velocity_forcing_y_comp_stencil_3d p fx fz wy)
      (update_vorticity_from_velocity_forcing_z_comp_stencil_3d p fx fy wz) i j k
      = divergence_stencil_3d q wx wy wz i j k := by
  simp only [divergence_stencil_3d, update_vorticity_from_velocity_forcing_x_comp_stencil_3d,
    update_vorticity_from_velocity_forcing_y_comp_stencil_3d,
    update_vorticity_from_velocity_forcing_z_comp_stencil_3d]
  ring

/-- same with the forcing being the cross product the 3D step forms (`u × ω`, library kernel) -/
theorem C12_rotational_update_divfree_3d (p q : K) (ux uy uz wx wy wz : F3 K) (i j k : ℤ) :
    let cx := elementwise_cross_product_single_axis_stencil_3d uy uz wy wz
    let cy := elementwise_cross_product_single_axis_stencil_3d uz ux wz wx
    let cz := elementwise_cross_product_single_axis_stencil_3d ux uy wx wy
    divergence_stencil_3d q
      (update_vorticity_from_velocity_forcing_x_comp_stencil_3d p cy cz wx)
      (update_vorticity_from_velocity_forcing_y_comp_stencil_3d p cx cz wy)
      (update_vorticity_from_velocity_forcing_z_comp_stencil_3d p cx cy wz) i j k
      = divergence_stencil_3d q wx wy wz i j k := by
  intro cx cy cz
  exact C12_forcing_update_divfree_3d p q cx cy cz wx wy wz i j k

/-- penalised-velocity update = forcing update applied to the velocity difference (3D, per component) -/
theorem C12_penalised_eq_update_of_difference_3d (p : K) (ppx ppy ppz vx vy vz wx wy wz : F3 K) (i j k : ℤ) :
    update_vorticity_from_penalised_velocity_x_comp_stencil_3d p ppy ppz vy vz wx i j k
      = update_vorticity_from_velocity_forcing_x_comp_stencil_3d p
          (fun a b c => ppy a b c - vy a b c) (fun a b c => ppz a b c - vz a b c) wx i j k ∧
    update_vorticity_from_penalised_velocity_y_comp_stencil_3d p ppx ppz vx vz wy i j k
      = update_vorticity_from_velocity_forcing_y_comp_stencil_3d p
          (fun a b c => ppx a b c - vx a b c) (fun a b c => ppz a b c - vz a b c) wy i j k ∧
    update_vorticity_from_penalised_velocity_z_comp_stencil_3d p ppx ppy vx vy wz i j k
      = update_vorticity_from_velocity_forcing_z_comp_stencil_3d p
          (fun a b c => ppx a b c - vx a b c) (fun a b c => ppy a b c - vy a b c) wz i j k := by
  simp only [update_vorticity_from_penalised_velocity_x_comp_stencil_3d,
    update_vorticity_from_penalised_velocity_y_comp_stencil_3d,
    update_vorticity_from_penalised_velocity_z_comp_stencil_3d,
    update_vorticity_from_velocity_forcing_x_comp_stencil_3d,
    update_vorticity_from_velocity_forcing_y_comp_stencil_3d,
    update_vorticity_from_velocity_forcing_z_comp_stencil_3d]
  refine ⟨?_, ?_, ?_⟩ <;> ring

/-! ### 2D -/

/-- the 2D velocity recovered as the curl of a stream function is discretely divergence-free
(central differences): `(u_x(j+1) − u_x(j−1)) + (u_y(i+1) − u_y(i−1)) = 0` -/
theorem C12_2d_velocity_divfree (p : K) (psi : F2 K) (i j : ℤ) :
    (outplane_field_curl_x_stencil_2d p psi i (j+1) - outplane_field_curl_x_stencil_2d p psi i (j-1))
      + (outplane_field_curl_y_stencil_2d p psi (i+1) j - outplane_field_curl_y_stencil_2d p psi (i-1) j) = 0 := by
  simp only [outplane_field_curl_x_stencil_2d, outplane_field_curl_y_stencil_2d]
  ring

/-- in-plane curl of the out-of-plane curl is the wide (2h) five-point negative Laplacian -/
theorem C12_2d_curl_curl (p q : K) (psi : F2 K) (i j : ℤ) :
    inplane_field_curl_stencil_2d q (outplane_field_curl_x_stencil_2d p psi) (outplane_field_curl_y_stencil_2d p psi) i j
      = q * p * (4 * psi i j - psi (i+2) j - psi (i-2) j - psi i (j+2) - psi i (j-2)) := by
  simp only [inplane_field_curl_stencil_2d, outplane_field_curl_x_stencil_2d, outplane_field_curl_y_stencil_2d]
  have e1 : i + 1 + 1 = i + 2 := by ring
  have e2 : i - 1 - 1 = i - 2 := by ring
  have e3 : j + 1 + 1 = j + 2 := by ring
  have e4 : j - 1 - 1 = j - 2 := by ring
  have e5 : i + 1 - 1 = i := by ring
  have e6 : i - 1 + 1 = i := by ring
  have e7 : j + 1 - 1 = j := by ring
  have e8 : j - 1 + 1 = j := by ring
  simp only [e1, e2, e3, e4, e5, e6, e7, e8]
  ring

/-- with `p = q = 1/(2h)` this is `−Δ_{2h} ψ = (4ψ₀ − Σ ψ(±2e)) / (4h²)` -/
theorem C12_2d_curl_curl_wide_laplacian (h : K) (hh : h ≠ 0) (psi : F2 K) (i j : ℤ) :
    inplane_field_curl_stencil_2d (1 / (2 * h)) (outplane_field_curl_x_stencil_2d (1 / (2 * h)) psi)
        (outplane_field_curl_y_stencil_2d (1 / (2 * h)) psi) i j
      = (4 * psi i j - psi (i+2) j - psi (i-2) j - psi i (j+2) - psi i (j-2)) / (4 * h ^ 2) := by
  rw [C12_2d_curl_curl]
  field_simp
  ring

theorem C12_update_eq_curl_2d (p : K) (fx fy w : F2 K) (i j : ℤ) :
    update_vorticity_from_velocity_forcing_stencil_2d p fx fy w i j
      = w i j + inplane_field_curl_stencil_2d p fx fy i j := by
  simp only [update_vorticity_from_velocity_forcing_stencil_2d, inplane_field_curl_stencil_2d]
  ring

theorem C12_penalised_eq_update_of_difference_2d (p : K) (ppx ppy vx vy w : F2 K) (i j : ℤ) :
    update_vorticity_from_penalised_velocity_stencil_2d p ppx ppy vx vy w i j
      = update_vorticity_from_velocity_forcing_stencil_2d p
          (fun a b => ppx a b - vx a b) (fun a b => ppy a b - vy a b) w i j := by
  simp only [update_vorticity_from_penalised_velocity_stencil_2d,
    update_vorticity_from_velocity_forcing_stencil_2d]
  ring

/-- non-vacuity: the curl itself is not identically zero (so `div ∘ curl = 0` is not trivial) -/
example : curl_x_comp_stencil_3d (1 : ℚ) (fun i _ _ => (i : ℚ)) (fun _ _ _ => 0) 0 0 0 = -2 := by
  simp [curl_x_comp_stencil_3d]; norm_num

end Sopht.Props.C12
