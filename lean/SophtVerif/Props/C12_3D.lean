/-
C12 (3D, program level) — the curl-type vorticity updates of the 3D step PROGRAM (forcing and rotational-form
transport) create no discrete divergence: at every cell at least 2 cells inside the grid the centred divergence of the
vorticity is the same before and after, for every store (any forcing, any velocity, any prefactor).
-/
import SophtVerif.Props.C01_3D
import SophtVerif.Props.C12

set_option linter.unusedVariables false
set_option linter.unusedSectionVars false

namespace Sopht.Props.C12
open Sopht Sopht.Gen Sopht.Model Sopht.Spec Sopht.Props.C01 Sopht.Props.C13

variable {K : Type} [Field K] [LinearOrder K] [IsStrictOrderedRing K]

/-- `2h · div w` by centred differences -/
def div3h (w : V3F K) (i j k : ℤ) : K :=
  (w.x i j (k+1) - w.x i j (k-1)) + (w.y i (j+1) k - w.y i (j-1) k) + (w.z (i+1) j k - w.z (i-1) j k)

/-- specification level: `ω + p·(2h curl F)` has the divergence of `ω` (div curl = 0 for centred differences) -/
theorem forcingOp3_divfree (nz ny nx : ℤ) (p : K) (F w : V3F K) (i j k : ℤ) (hin : innerB nz ny nx 2 i j k) :
    div3h (forcingOp3 nz ny nx p F w) i j k = div3h w i j k := by
  have h : ∀ di dj dk : ℤ, -1 ≤ di → di ≤ 1 → -1 ≤ dj → dj ≤ 1 → -1 ≤ dk → dk ≤ 1 → innerB nz ny nx 1 (i + di) (j + dj) (k + dk) := by
    intro di dj dk _ _ _ _ _ _; simp only [innerB] at *; omega
  have e1 : ∀ x : ℤ, x - 1 = x + -1 := fun x => by ring
  simp only [div3h, forcingOp3, addInner, e1]
  rw [if_pos (by have := h 0 0 1 (by omega) (by omega) (by omega) (by omega) (by omega) (by omega); simpa using this),
    if_pos (by have := h 0 0 (-1) (by omega) (by omega) (by omega) (by omega) (by omega) (by omega); simpa using this),
    if_pos (by have := h 0 1 0 (by omega) (by omega) (by omega) (by omega) (by omega) (by omega); simpa using this),
    if_pos (by have := h 0 (-1) 0 (by omega) (by omega) (by omega) (by omega) (by omega) (by omega); simpa using this),
    if_pos (by have := h 1 0 0 (by omega) (by omega) (by omega) (by omega) (by omega) (by omega); simpa using this),
    if_pos (by have := h (-1) 0 0 (by omega) (by omega) (by omega) (by omega) (by omega) (by omega); simpa using this)]
  simp only [curl3h]
  have a1 : ∀ x : ℤ, x + 1 + -1 = x := fun x => by ring
  have a2 : ∀ x : ℤ, x + -1 + 1 = x := fun x => by ring
  try simp only [a1, a2, add_zero]
  ring_nf

theorem rotationalOp3_divfree (nz ny nx : ℤ) (p : K) (u w : V3F K) (i j k : ℤ) (hin : innerB nz ny nx 2 i j k) :
    div3h (rotationalOp3 nz ny nx p u w) i j k = div3h w i j k := forcingOp3_divfree nz ny nx p _ w i j k hin

section Program
variable {B : Type} [DecidableEq B]

theorem div3h_congr (nz ny nx : ℤ) (a b : V3F K) (h : EqV nz ny nx a b) (i j k : ℤ) (hin : innerB nz ny nx 1 i j k) :
    div3h a i j k = div3h b i j k := by
  simp only [div3h]
  simp only [innerB] at hin
  rw [h.1 i j (k+1) (by simp only [inB]; omega), h.1 i j (k-1) (by simp only [inB]; omega),
    h.2.1 i (j+1) k (by simp only [inB]; omega), h.2.1 i (j-1) k (by simp only [inB]; omega),
    h.2.2 (i+1) j k (by simp only [inB]; omega), h.2.2 (i-1) j k (by simp only [inB]; omega)]

/-- C12 (3D step program, forcing update): no divergence is created -/
theorem C12_forcing_program_divfree_3d (nz ny nx : ℤ) (w F : Vec3 B) (hd : Distinct33 w F) (p : K) (s : Store3 B K)
    (i j k : ℤ) (hin : innerB nz ny nx 2 i j k) :
    div3h (vecOf (exec3 (updateVorticityFromForcing3D nz ny nx w F p) s) w) i j k = div3h (vecOf s w) i j k := by
  rw [div3h_congr nz ny nx _ _ (forcing_spec3 nz ny nx w F hd p s) i j k (by simp only [innerB] at *; omega)]
  exact forcingOp3_divfree nz ny nx p _ _ i j k hin

end Program

end Sopht.Props.C12
