/-
C13 — every public grid kernel writes exactly its documented closed form into its documented region and
leaves every other cell of the output and every other buffer unchanged.
Statements are about the wrapper PROGRAMS of Model/Prog2D (tied to the code by the trace + numeric
correspondence) built from the GENERATED kernels, for all stores, all scalar arguments, all grid sizes
from the minimal admissible one (stated per theorem), with output/input buffers only assumed distinct
where the documentation requires it.  Part (a): values on the array box; (b): all other buffers
unchanged (frame); cells outside the array box are never touched (c, generic: `exec2_outside`).
-/
import SophtVerif.Lemmas.Prog2D

set_option linter.unusedVariables false
set_option linter.unusedSectionVars false
set_option linter.unusedSimpArgs false
set_option linter.unusedTactic false
set_option linter.unreachableTactic false

namespace Sopht.Props.C13
open Sopht Sopht.Gen Sopht.Model

variable {B K : Type} [DecidableEq B] [Field K] [LinearOrder K] [IsStrictOrderedRing K]

/-- cell lies on the outer ring of width `w` of the `ny × nx` box -/
abbrev onRing (ny nx w i j : ℤ) : Prop := i < w ∨ ny - w ≤ i ∨ j < w ∨ nx - w ≤ j

/-! ### generic frame statements (hold for every program) -/

/-- buffers that no call of a program writes are bit-identical afterwards -/
theorem C13_frame_buffers (p : List (Call2 B K)) (s : Store2 B K) (b : B) (h : b ∉ written2 p) :
    exec2 p s b = s b := exec2_other p s b h

/-- cells outside every call's iteration region are bit-identical afterwards, in every buffer -/
theorem C13_frame_cells (p : List (Call2 B K)) (s : Store2 B K) (b : B) (i j : ℤ)
    (h : ∀ c ∈ p, ¬ c.region.mem i j) : exec2 p s b i j = s b i j := exec2_outside p s b i j h

/-! ### element-wise kernels -/

theorem C13_set_fixed_val_2d (ny nx : ℤ) (f : B) (v : K) (s : Store2 B K) :
    (∀ i j, 0 ≤ i → i < ny → 0 ≤ j → j < nx → exec2 (setFixedVal2D ny nx f v) s f i j = v) ∧
    (∀ i j, ¬ (0 ≤ i ∧ i < ny ∧ 0 ≤ j ∧ j < nx) → exec2 (setFixedVal2D ny nx f v) s f i j = s f i j) ∧
    (∀ b, b ≠ f → exec2 (setFixedVal2D ny nx f v) s b = s b) := by
  refine ⟨?_, ?_, ?_⟩
  · intro i j h1 h2 h3 h4
    prog_simp [setFixedVal2D, call_set_fixed_val_stencil_2d, set_fixed_val_stencil_2d]
    split_ifs <;> first | rfl | (exfalso; omega)
  · intro i j h
    prog_simp [setFixedVal2D, call_set_fixed_val_stencil_2d, set_fixed_val_stencil_2d]
    split_ifs <;> first | rfl | (exfalso; omega)
  · intro b hb
    apply exec2_other
    simp [written2, Call2.written, setFixedVal2D, call_set_fixed_val_stencil_2d, hb]

theorem C13_set_fixed_val_vec_2d (ny nx : ℤ) (f : Vec2 B) (hxy : f.x ≠ f.y) (vx vy : K) (s : Store2 B K) :
    (∀ i j, 0 ≤ i → i < ny → 0 ≤ j → j < nx →
      exec2 (setFixedValVec2D ny nx f vx vy) s f.x i j = vx ∧ exec2 (setFixedValVec2D ny nx f vx vy) s f.y i j = vy) ∧
    (∀ b, b ≠ f.x → b ≠ f.y → exec2 (setFixedValVec2D ny nx f vx vy) s b = s b) := by
  have hyx : f.y ≠ f.x := fun h => hxy h.symm
  refine ⟨?_, ?_⟩
  · intro i j h1 h2 h3 h4
    constructor <;>
    · prog_simp [setFixedValVec2D, setFixedValVecOn2D, call_set_fixed_val_stencil_2d, set_fixed_val_stencil_2d, hxy, hyx]
      split_ifs <;> first | rfl | (exfalso; omega)
  · intro b hbx hby
    apply exec2_other
    simp [written2, Call2.written, setFixedValVec2D, setFixedValVecOn2D, call_set_fixed_val_stencil_2d, hbx, hby]

/-- boundary setter: zone of width `w` (any `w ≥ 1`, also wider than half the grid) set to `v`,
everything else untouched -/
theorem C13_set_boundary_2d (ny nx w : ℤ) (hw : 1 ≤ w) (hny : 1 ≤ ny) (hnx : 1 ≤ nx) (f : B) (v : K) (s : Store2 B K) :
    (∀ i j, 0 ≤ i → i < ny → 0 ≤ j → j < nx →
      exec2 (setBoundary2D ny nx w f v) s f i j = if onRing ny nx w i j then v else s f i j) ∧
    (∀ b, b ≠ f → exec2 (setBoundary2D ny nx w f v) s b = s b) := by
  refine ⟨?_, ?_⟩
  · intro i j h1 h2 h3 h4
    prog_simp [setBoundary2D, boundaryStrips2D, call_set_fixed_val_stencil_2d, set_fixed_val_stencil_2d, onRing]
    split_ifs <;> first | rfl | (exfalso; omega)
  · intro b hb
    apply exec2_other
    simp [written2, Call2.written, setBoundary2D, boundaryStrips2D, call_set_fixed_val_stencil_2d, hb]

theorem C13_elementwise_sum_2d (ny nx : ℤ) (o a b : B) (s : Store2 B K) :
    (∀ i j, 0 ≤ i → i < ny → 0 ≤ j → j < nx →
      exec2 (elementwiseSum2D ny nx o a b) s o i j = s a i j + s b i j) ∧
    (∀ c, c ≠ o → exec2 (elementwiseSum2D ny nx o a b) s c = s c) := by
  refine ⟨?_, ?_⟩
  · intro i j h1 h2 h3 h4
    prog_simp [elementwiseSum2D, call_elementwise_sum_stencil_2d, elementwise_sum_stencil_2d]
    split_ifs <;> first | rfl | (exfalso; omega)
  · intro c hc
    apply exec2_other
    simp [written2, Call2.written, elementwiseSum2D, call_elementwise_sum_stencil_2d, hc]

theorem C13_elementwise_copy_2d (ny nx : ℤ) (dst src : B) (s : Store2 B K) :
    (∀ i j, 0 ≤ i → i < ny → 0 ≤ j → j < nx →
      exec2 (elementwiseCopy2D (full2 ny nx) dst src) s dst i j = s src i j) ∧
    (∀ c, c ≠ dst → exec2 (elementwiseCopy2D (full2 ny nx) dst src) s c = s c) := by
  refine ⟨?_, ?_⟩
  · intro i j h1 h2 h3 h4
    prog_simp [elementwiseCopy2D, call_elementwise_copy_stencil_2d, elementwise_copy_stencil_2d]
    split_ifs <;> first | rfl | (exfalso; omega)
  · intro c hc
    apply exec2_other
    simp [written2, Call2.written, elementwiseCopy2D, call_elementwise_copy_stencil_2d, hc]

theorem C13_elementwise_saxpby_2d (ny nx : ℤ) (o a b : B) (pa pb : K) (s : Store2 B K) :
    (∀ i j, 0 ≤ i → i < ny → 0 ≤ j → j < nx →
      exec2 (elementwiseSaxpby2D ny nx o a b pa pb) s o i j = pa * s a i j + pb * s b i j) ∧
    (∀ c, c ≠ o → exec2 (elementwiseSaxpby2D ny nx o a b pa pb) s c = s c) := by
  refine ⟨?_, ?_⟩
  · intro i j h1 h2 h3 h4
    prog_simp [elementwiseSaxpby2D, call_elementwise_saxpby_stencil_2d, elementwise_saxpby_stencil_2d]
    split_ifs <;> first | rfl | ring1 | (exfalso; omega)
  · intro c hc
    apply exec2_other
    simp [written2, Call2.written, elementwiseSaxpby2D, call_elementwise_saxpby_stencil_2d, hc]

theorem C13_add_fixed_val_vec_2d (ny nx : ℤ) (o f : Vec2 B) (hxy : o.x ≠ o.y) (hfy : o.x ≠ f.y) (vx vy : K)
    (s : Store2 B K) :
    (∀ i j, 0 ≤ i → i < ny → 0 ≤ j → j < nx →
      exec2 (addFixedValVec2D ny nx o f vx vy) s o.x i j = s f.x i j + vx ∧
      exec2 (addFixedValVec2D ny nx o f vx vy) s o.y i j = s f.y i j + vy) ∧
    (∀ c, c ≠ o.x → c ≠ o.y → exec2 (addFixedValVec2D ny nx o f vx vy) s c = s c) := by
  have hyx : o.y ≠ o.x := fun h => hxy h.symm
  have hfy' : f.y ≠ o.x := fun h => hfy h.symm
  refine ⟨?_, ?_⟩
  · intro i j h1 h2 h3 h4
    constructor <;>
    · prog_simp [addFixedValVec2D, call_add_fixed_val_stencil_2d, add_fixed_val_stencil_2d, hxy, hyx, hfy, hfy']
      split_ifs <;> first | rfl | ring1 | (exfalso; omega)
  · intro c hcx hcy
    apply exec2_other
    simp [written2, Call2.written, addFixedValVec2D, call_add_fixed_val_stencil_2d, hcx, hcy]

/-! ### differential stencils with and without ghost-zone reset -/

theorem C13_diffusion_flux_2d (reset : Bool) (ny nx : ℤ) (hny : 1 ≤ ny) (hnx : 1 ≤ nx) (flux f : B) (hne : flux ≠ f)
    (p : K) (s : Store2 B K) :
    (∀ i j, 0 ≤ i → i < ny → 0 ≤ j → j < nx →
      exec2 (diffusionFlux2D reset ny nx flux f p) s flux i j =
        if onRing ny nx 1 i j then (if reset then 0 else s flux i j)
        else p * (s f (i+1) j + s f (i-1) j + s f i (j+1) + s f i (j-1) - 4 * s f i j)) ∧
    (∀ b, b ≠ flux → exec2 (diffusionFlux2D reset ny nx flux f p) s b = s b) := by
  have hne' : f ≠ flux := fun h => hne h.symm
  refine ⟨?_, ?_⟩
  · intro i j h1 h2 h3 h4
    cases reset <;>
    · prog_simp [diffusionFlux2D, setBoundary2D, boundaryStrips2D, call_diffusion_stencil_2d,
        call_set_fixed_val_stencil_2d, diffusion_stencil_2d, set_fixed_val_stencil_2d, onRing, hne, hne']
      split_ifs <;> first | rfl | ring1 | (exfalso; omega)
  · intro b hb
    apply exec2_other
    cases reset <;>
      simp [written2, Call2.written, diffusionFlux2D, setBoundary2D, boundaryStrips2D, call_diffusion_stencil_2d,
        call_set_fixed_val_stencil_2d, hb]

/-- out-of-plane curl (`ψ ↦ velocity`): component pairing `curl.x = p(ψ(i+1) − ψ(i−1))` (∂/∂y),
`curl.y = p(ψ(j−1) − ψ(j+1))` (−∂/∂x); zero ring when the reset is on -/
theorem C13_outplane_curl_2d (reset : Bool) (ny nx : ℤ) (hny : 1 ≤ ny) (hnx : 1 ≤ nx) (curl : Vec2 B) (f : B)
    (hxy : curl.x ≠ curl.y) (hfx : f ≠ curl.x) (hfy : f ≠ curl.y) (p : K) (s : Store2 B K) :
    (∀ i j, 0 ≤ i → i < ny → 0 ≤ j → j < nx →
      exec2 (outplaneCurl2D reset ny nx curl f p) s curl.x i j =
        (if onRing ny nx 1 i j then (if reset then 0 else s curl.x i j) else p * (s f (i+1) j - s f (i-1) j)) ∧
      exec2 (outplaneCurl2D reset ny nx curl f p) s curl.y i j =
        (if onRing ny nx 1 i j then (if reset then 0 else s curl.y i j) else p * (s f i (j-1) - s f i (j+1)))) ∧
    (∀ b, b ≠ curl.x → b ≠ curl.y → exec2 (outplaneCurl2D reset ny nx curl f p) s b = s b) := by
  have hyx : curl.y ≠ curl.x := fun h => hxy h.symm
  refine ⟨?_, ?_⟩
  · intro i j h1 h2 h3 h4
    cases reset <;> constructor <;>
    · prog_simp [outplaneCurl2D, setBoundaryVec2D, setFixedValVecOn2D, boundaryStrips2D,
        call_outplane_field_curl_x_stencil_2d, call_outplane_field_curl_y_stencil_2d,
        call_set_fixed_val_stencil_2d, outplane_field_curl_x_stencil_2d, outplane_field_curl_y_stencil_2d,
        set_fixed_val_stencil_2d, onRing, hxy, hyx, hfx, hfy]
      split_ifs <;> first | rfl | ring1 | (exfalso; omega)
  · intro b hbx hby
    apply exec2_other
    cases reset <;>
      simp [written2, Call2.written, outplaneCurl2D, setBoundaryVec2D, setFixedValVecOn2D, boundaryStrips2D,
        call_outplane_field_curl_x_stencil_2d, call_outplane_field_curl_y_stencil_2d,
        call_set_fixed_val_stencil_2d, hbx, hby]

theorem C13_inplane_curl_2d (ny nx : ℤ) (curl : B) (f : Vec2 B) (hx : f.x ≠ curl) (hy : f.y ≠ curl) (p : K)
    (s : Store2 B K) :
    (∀ i j, 0 ≤ i → i < ny → 0 ≤ j → j < nx →
      exec2 (inplaneCurl2D ny nx curl f p) s curl i j =
        if onRing ny nx 1 i j then s curl i j
        else p * (s f.y i (j+1) - s f.y i (j-1) - s f.x (i+1) j + s f.x (i-1) j)) ∧
    (∀ b, b ≠ curl → exec2 (inplaneCurl2D ny nx curl f p) s b = s b) := by
  refine ⟨?_, ?_⟩
  · intro i j h1 h2 h3 h4
    prog_simp [inplaneCurl2D, call_inplane_field_curl_stencil_2d, inplane_field_curl_stencil_2d, onRing, hx, hy]
    split_ifs <;> first | rfl | ring1 | (exfalso; omega)
  · intro b hb
    apply exec2_other
    simp [written2, Call2.written, inplaneCurl2D, call_inplane_field_curl_stencil_2d, hb]

/-- in-place vorticity update from a velocity forcing -/
theorem C13_update_vorticity_from_forcing_2d (ny nx : ℤ) (w : B) (F : Vec2 B) (hx : F.x ≠ w) (hy : F.y ≠ w) (p : K)
    (s : Store2 B K) :
    (∀ i j, 0 ≤ i → i < ny → 0 ≤ j → j < nx →
      exec2 (updateVorticityFromForcing2D ny nx w F p) s w i j =
        if onRing ny nx 1 i j then s w i j
        else s w i j + p * (s F.y i (j+1) - s F.y i (j-1) - s F.x (i+1) j + s F.x (i-1) j)) ∧
    (∀ b, b ≠ w → exec2 (updateVorticityFromForcing2D ny nx w F p) s b = s b) := by
  refine ⟨?_, ?_⟩
  · intro i j h1 h2 h3 h4
    prog_simp [updateVorticityFromForcing2D, call_update_vorticity_from_velocity_forcing_stencil_2d,
      update_vorticity_from_velocity_forcing_stencil_2d, onRing, hx, hy]
    split_ifs <;> first | rfl | ring1 | (exfalso; omega)
  · intro b hb
    apply exec2_other
    simp [written2, Call2.written, updateVorticityFromForcing2D,
      call_update_vorticity_from_velocity_forcing_stencil_2d, hb]

/-- Brinkmann penalisation (scalar): closed form on the whole array -/
theorem C13_brinkmann_2d (ny nx : ℤ) (o f pen chi : B) (lam : K) (s : Store2 B K) :
    (∀ i j, 0 ≤ i → i < ny → 0 ≤ j → j < nx →
      exec2 (brinkmann2D ny nx o f pen chi lam) s o i j =
        (s f i j + lam * s chi i j * s pen i j) / (1 + lam * s chi i j)) ∧
    (∀ b, b ≠ o → exec2 (brinkmann2D ny nx o f pen chi lam) s b = s b) := by
  refine ⟨?_, ?_⟩
  · intro i j h1 h2 h3 h4
    prog_simp [brinkmann2D, call_brinkmann_penalise_stencil_2d, brinkmann_penalise_stencil_2d]
    split_ifs <;> first | (rw [div_eq_inv_mul]; ring1) | (exfalso; omega)
  · intro b hb
    apply exec2_other
    simp [written2, Call2.written, brinkmann2D, call_brinkmann_penalise_stencil_2d, hb]

/-- vector Brinkmann penalisation acts component by component with x↔x, y↔y pairing -/
theorem C13_brinkmann_vec_2d (ny nx : ℤ) (o f pen : Vec2 B) (chi : B) (lam : K) (s : Store2 B K)
    (hxy : o.x ≠ o.y) (h1 : f.y ≠ o.x) (h2 : pen.y ≠ o.x) (h3 : chi ≠ o.x) :
    ∀ i j, 0 ≤ i → i < ny → 0 ≤ j → j < nx →
      exec2 (brinkmannVec2D ny nx o f pen chi lam) s o.x i j =
        (s f.x i j + lam * s chi i j * s pen.x i j) / (1 + lam * s chi i j) ∧
      exec2 (brinkmannVec2D ny nx o f pen chi lam) s o.y i j =
        (s f.y i j + lam * s chi i j * s pen.y i j) / (1 + lam * s chi i j) := by
  have hyx : o.y ≠ o.x := fun h => hxy h.symm
  intro i j a1 a2 a3 a4
  constructor <;>
  · prog_simp [brinkmannVec2D, brinkmann2D, call_brinkmann_penalise_stencil_2d, brinkmann_penalise_stencil_2d,
      hxy, hyx, h1, h2, h3]
    split_ifs <;> first | (rw [div_eq_inv_mul]; ring1) | (exfalso; omega)

end Sopht.Props.C13
