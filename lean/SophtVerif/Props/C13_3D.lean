/-
C13 (3D) — the 3D public kernels: closed form on the documented region, everything else untouched.
Statements about the wrapper PROGRAMS of Model/Prog3D (tied to the code by the trace + numeric correspondence)
built from the GENERATED kernels; same shape as Props/C13 (2D).
-/
import SophtVerif.Lemmas.Prog3D

set_option linter.unusedVariables false
set_option linter.unusedSectionVars false
set_option linter.unusedSimpArgs false
set_option linter.unusedTactic false
set_option linter.unreachableTactic false

namespace Sopht.Props.C13
open Sopht Sopht.Gen Sopht.Model

variable {B K : Type} [DecidableEq B] [Field K] [LinearOrder K] [IsStrictOrderedRing K]

abbrev inBox3 (nz ny nx i j k : ℤ) : Prop := 0 ≤ i ∧ i < nz ∧ 0 ≤ j ∧ j < ny ∧ 0 ≤ k ∧ k < nx
abbrev inner3 (nz ny nx g i j k : ℤ) : Prop := g ≤ i ∧ i < nz - g ∧ g ≤ j ∧ j < ny - g ∧ g ≤ k ∧ k < nx - g
abbrev onRing3 (nz ny nx w i j k : ℤ) : Prop := i < w ∨ nz - w ≤ i ∨ j < w ∨ ny - w ≤ j ∨ k < w ∨ nx - w ≤ k

theorem C13_frame_buffers_3d (p : List (Call3 B K)) (s : Store3 B K) (b : B) (h : b ∉ written3 p) :
    exec3 p s b = s b := exec3_other p s b h

theorem C13_frame_cells_3d (p : List (Call3 B K)) (s : Store3 B K) (b : B) (i j k : ℤ)
    (h : ∀ c ∈ p, ¬ c.region.mem i j k) : exec3 p s b i j k = s b i j k := exec3_outside p s b i j k h

theorem C13_set_fixed_val_3d (nz ny nx : ℤ) (f : B) (v : K) (s : Store3 B K) :
    (∀ i j k, inBox3 nz ny nx i j k → exec3 (setFixedVal3D nz ny nx f v) s f i j k = v) ∧
    (∀ i j k, ¬ inBox3 nz ny nx i j k → exec3 (setFixedVal3D nz ny nx f v) s f i j k = s f i j k) ∧
    (∀ b, b ≠ f → exec3 (setFixedVal3D nz ny nx f v) s b = s b) := by
  refine ⟨?_, ?_, ?_⟩
  · intro i j k h
    prog_simp3 [setFixedVal3D, call_set_fixed_val_stencil_3d, set_fixed_val_stencil_3d]
    split_ifs <;> first | rfl | (exfalso; omega)
  · intro i j k h
    prog_simp3 [setFixedVal3D, call_set_fixed_val_stencil_3d, set_fixed_val_stencil_3d]
    split_ifs <;> first | rfl | (exfalso; omega)
  · intro b hb
    apply exec3_other
    simp [written3, Call3.written, setFixedVal3D, call_set_fixed_val_stencil_3d, hb]

/-- boundary setter: zone of width `w ≥ 1` (also wider than half the grid) set to `v`, everything else untouched -/
theorem C13_set_boundary_3d (nz ny nx w : ℤ) (hw : 1 ≤ w) (hnz : 1 ≤ nz) (hny : 1 ≤ ny) (hnx : 1 ≤ nx) (f : B) (v : K) (s : Store3 B K) :
    (∀ i j k, inBox3 nz ny nx i j k →
      exec3 (setBoundary3D nz ny nx w f v) s f i j k = if onRing3 nz ny nx w i j k then v else s f i j k) ∧
    (∀ b, b ≠ f → exec3 (setBoundary3D nz ny nx w f v) s b = s b) := by
  refine ⟨?_, ?_⟩
  · intro i j k h
    prog_simp3 [setBoundary3D, boundarySlabs3D, call_set_fixed_val_stencil_3d, set_fixed_val_stencil_3d, onRing3]
    split_ifs <;> first | rfl | (exfalso; omega)
  · intro b hb
    apply exec3_other
    simp [written3, Call3.written, setBoundary3D, boundarySlabs3D, call_set_fixed_val_stencil_3d, hb]

theorem C13_elementwise_sum_3d (nz ny nx : ℤ) (o a b : B) (s : Store3 B K) :
    (∀ i j k, inBox3 nz ny nx i j k → exec3 (elementwiseSum3D nz ny nx o a b) s o i j k = s a i j k + s b i j k) ∧
    (∀ c, c ≠ o → exec3 (elementwiseSum3D nz ny nx o a b) s c = s c) := by
  refine ⟨?_, ?_⟩
  · intro i j k h
    prog_simp3 [elementwiseSum3D, call_elementwise_sum_stencil_3d, elementwise_sum_stencil_3d]
    split_ifs <;> first | rfl | (exfalso; omega)
  · intro c hc
    apply exec3_other
    simp [written3, Call3.written, elementwiseSum3D, call_elementwise_sum_stencil_3d, hc]

theorem C13_elementwise_copy_3d (nz ny nx : ℤ) (dst src : B) (s : Store3 B K) :
    (∀ i j k, inBox3 nz ny nx i j k → exec3 (elementwiseCopy3D (full3 nz ny nx) dst src) s dst i j k = s src i j k) ∧
    (∀ c, c ≠ dst → exec3 (elementwiseCopy3D (full3 nz ny nx) dst src) s c = s c) := by
  refine ⟨?_, ?_⟩
  · intro i j k h
    prog_simp3 [elementwiseCopy3D, call_elementwise_copy_stencil_3d, elementwise_copy_stencil_3d]
    split_ifs <;> first | rfl | (exfalso; omega)
  · intro c hc
    apply exec3_other
    simp [written3, Call3.written, elementwiseCopy3D, call_elementwise_copy_stencil_3d, hc]

theorem C13_elementwise_saxpby_3d (nz ny nx : ℤ) (o a b : B) (pa pb : K) (s : Store3 B K) :
    (∀ i j k, inBox3 nz ny nx i j k →
      exec3 (elementwiseSaxpby3D nz ny nx o a b pa pb) s o i j k = pa * s a i j k + pb * s b i j k) ∧
    (∀ c, c ≠ o → exec3 (elementwiseSaxpby3D nz ny nx o a b pa pb) s c = s c) := by
  refine ⟨?_, ?_⟩
  · intro i j k h
    prog_simp3 [elementwiseSaxpby3D, call_elementwise_saxpby_stencil_3d, elementwise_saxpby_stencil_3d]
    split_ifs <;> first | rfl | ring1 | (exfalso; omega)
  · intro c hc
    apply exec3_other
    simp [written3, Call3.written, elementwiseSaxpby3D, call_elementwise_saxpby_stencil_3d, hc]

/-- diffusion flux: `p·(Σ six neighbours − 6 f)` on the interior of reach 1; the ring is zeroed when
`reset_ghost_zone`, else keeps its content; all sizes ≥ 1 -/
theorem C13_diffusion_flux_3d (reset : Bool) (nz ny nx : ℤ) (hnz : 1 ≤ nz) (hny : 1 ≤ ny) (hnx : 1 ≤ nx) (flux f : B)
    (hne : flux ≠ f) (p : K) (s : Store3 B K) :
    (∀ i j k, inBox3 nz ny nx i j k →
      exec3 (diffusionFlux3D reset nz ny nx flux f p) s flux i j k =
        if inner3 nz ny nx 1 i j k then
          p * (s f (i+1) j k + s f (i-1) j k + s f i (j+1) k + s f i (j-1) k + s f i j (k+1) + s f i j (k-1) - 6 * s f i j k)
        else if reset then 0 else s flux i j k) ∧
    (∀ c, c ≠ flux → exec3 (diffusionFlux3D reset nz ny nx flux f p) s c = s c) := by
  have hne' : f ≠ flux := fun h => hne h.symm
  refine ⟨?_, ?_⟩
  · intro i j k h
    cases reset <;>
    · prog_simp3 [diffusionFlux3D, setBoundary3D, boundarySlabs3D, call_diffusion_stencil_3d, call_set_fixed_val_stencil_3d,
        diffusion_stencil_3d, set_fixed_val_stencil_3d, inner3, hne, hne']
      split_ifs <;> first | rfl | ring1 | (exfalso; omega)
  · intro c hc
    apply exec3_other
    cases reset <;>
      simp [written3, Call3.written, diffusionFlux3D, setBoundary3D, boundarySlabs3D, call_diffusion_stencil_3d,
        call_set_fixed_val_stencil_3d, hc]

/-- divergence: `(1/2)·inv_dx·(centred differences)` on the interior, ring as for the diffusion flux -/
theorem C13_divergence_3d (reset : Bool) (nz ny nx : ℤ) (hnz : 1 ≤ nz) (hny : 1 ≤ ny) (hnx : 1 ≤ nx) (d : B) (f : Vec3 B)
    (hx : d ≠ f.x) (hy : d ≠ f.y) (hz : d ≠ f.z) (p : K) (s : Store3 B K) :
    (∀ i j k, inBox3 nz ny nx i j k →
      exec3 (divergence3D reset nz ny nx d f p) s d i j k =
        if inner3 nz ny nx 1 i j k then
          (1 / 2 : K) * p * ((s f.x i j (k+1) - s f.x i j (k-1)) + (s f.y i (j+1) k - s f.y i (j-1) k) + (s f.z (i+1) j k - s f.z (i-1) j k))
        else if reset then 0 else s d i j k) ∧
    (∀ c, c ≠ d → exec3 (divergence3D reset nz ny nx d f p) s c = s c) := by
  have hx' : f.x ≠ d := fun h => hx h.symm
  have hy' : f.y ≠ d := fun h => hy h.symm
  have hz' : f.z ≠ d := fun h => hz h.symm
  refine ⟨?_, ?_⟩
  · intro i j k h
    cases reset <;>
    · prog_simp3 [divergence3D, setBoundary3D, boundarySlabs3D, call_divergence_stencil_3d, call_set_fixed_val_stencil_3d,
        divergence_stencil_3d, set_fixed_val_stencil_3d, inner3, hx, hy, hz, hx', hy', hz']
      split_ifs <;> first | rfl | ring1 | (exfalso; omega)
  · intro c hc
    apply exec3_other
    cases reset <;>
      simp [written3, Call3.written, divergence3D, setBoundary3D, boundarySlabs3D, call_divergence_stencil_3d,
        call_set_fixed_val_stencil_3d, hc]

/-- pairwise distinctness of the six buffers of two vector fields -/
structure Distinct33 (a b : Vec3 B) : Prop where
  axy : a.x ≠ a.y
  axz : a.x ≠ a.z
  ayz : a.y ≠ a.z
  xx : a.x ≠ b.x
  xy : a.x ≠ b.y
  xz : a.x ≠ b.z
  yx : a.y ≠ b.x
  yy : a.y ≠ b.y
  yz : a.y ≠ b.z
  zx : a.z ≠ b.x
  zy : a.z ≠ b.y
  zz : a.z ≠ b.z

/-- vector boundary setter -/
theorem C13_set_boundary_vec_3d (nz ny nx w : ℤ) (hw : 1 ≤ w) (hnz : 1 ≤ nz) (hny : 1 ≤ ny) (hnx : 1 ≤ nx) (f : Vec3 B)
    (hxy : f.x ≠ f.y) (hxz : f.x ≠ f.z) (hyz : f.y ≠ f.z) (vx vy vz : K) (s : Store3 B K) :
    (∀ i j k, inBox3 nz ny nx i j k →
      exec3 (setBoundaryVec3D nz ny nx w f vx vy vz) s f.x i j k = (if onRing3 nz ny nx w i j k then vx else s f.x i j k) ∧
      exec3 (setBoundaryVec3D nz ny nx w f vx vy vz) s f.y i j k = (if onRing3 nz ny nx w i j k then vy else s f.y i j k) ∧
      exec3 (setBoundaryVec3D nz ny nx w f vx vy vz) s f.z i j k = (if onRing3 nz ny nx w i j k then vz else s f.z i j k)) ∧
    (∀ b, b ≠ f.x → b ≠ f.y → b ≠ f.z → exec3 (setBoundaryVec3D nz ny nx w f vx vy vz) s b = s b) := by
  have hyx := hxy.symm; have hzx := hxz.symm; have hzy := hyz.symm
  refine ⟨?_, ?_⟩
  · intro i j k h
    refine ⟨?_, ?_, ?_⟩ <;>
    · prog_simp3 [setBoundaryVec3D, setFixedValVecOn3D, boundarySlabs3D, call_set_fixed_val_stencil_3d, set_fixed_val_stencil_3d,
        onRing3, hxy, hxz, hyz, hyx, hzx, hzy]
      split_ifs <;> first | rfl | (exfalso; omega)
  · intro b hbx hby hbz
    apply exec3_other
    simp [written3, Call3.written, setBoundaryVec3D, setFixedValVecOn3D, boundarySlabs3D, call_set_fixed_val_stencil_3d, hbx, hby, hbz]

/-- the three curl kernel calls (no ghost-zone reset) -/
def curlCore3D (nz ny nx : ℤ) (c f : Vec3 B) (p : K) : List (Call3 B K) := curl3D false nz ny nx c f p

theorem curl_core_3d (nz ny nx : ℤ) (c f : Vec3 B) (hd : Distinct33 c f) (p : K) (s : Store3 B K) :
    (∀ i j k, inBox3 nz ny nx i j k →
      exec3 (curl3D false nz ny nx c f p) s c.x i j k =
        (if inner3 nz ny nx 1 i j k then p * ((s f.z i (j+1) k - s f.z i (j-1) k) - (s f.y (i+1) j k - s f.y (i-1) j k))
         else s c.x i j k) ∧
      exec3 (curl3D false nz ny nx c f p) s c.y i j k =
        (if inner3 nz ny nx 1 i j k then p * ((s f.x (i+1) j k - s f.x (i-1) j k) - (s f.z i j (k+1) - s f.z i j (k-1)))
         else s c.y i j k) ∧
      exec3 (curl3D false nz ny nx c f p) s c.z i j k =
        (if inner3 nz ny nx 1 i j k then p * ((s f.y i j (k+1) - s f.y i j (k-1)) - (s f.x i (j+1) k - s f.x i (j-1) k))
         else s c.z i j k)) ∧
    (∀ b, b ≠ c.x → b ≠ c.y → b ≠ c.z → exec3 (curl3D false nz ny nx c f p) s b = s b) := by
  obtain ⟨axy, axz, ayz, xx, xy, xz, yx, yy, yz, zx, zy, zz⟩ := hd
  have ayx := axy.symm; have azx := axz.symm; have azy := ayz.symm
  have xx' := xx.symm; have xy' := xy.symm; have xz' := xz.symm
  have yx' := yx.symm; have yy' := yy.symm; have yz' := yz.symm
  have zx' := zx.symm; have zy' := zy.symm; have zz' := zz.symm
  refine ⟨?_, ?_⟩
  · intro i j k h
    refine ⟨?_, ?_, ?_⟩ <;>
    · prog_simp3 [curl3D, call_curl_x_comp_stencil_3d, call_curl_y_comp_stencil_3d,
        call_curl_z_comp_stencil_3d, curl_x_comp_stencil_3d, curl_y_comp_stencil_3d,
        curl_z_comp_stencil_3d, inner3,
        axy, axz, ayz, ayx, azx, azy, xx, xy, xz, yx, yy, yz, zx, zy, zz, xx', xy', xz', yx', yy', yz', zx', zy', zz']
      split_ifs <;> first | rfl | ring1 | (exfalso; omega)
  · intro b hbx hby hbz
    apply exec3_other
    simp [written3, Call3.written, curl3D, call_curl_x_comp_stencil_3d,
      call_curl_y_comp_stencil_3d, call_curl_z_comp_stencil_3d, hbx, hby, hbz]

/-- curl: each component is `p·(centred differences)` of the other two input components on the interior of
reach 1 (documented sign / axis convention, array index (z, y, x)); ring zeroed when `reset_ghost_zone` -/
theorem C13_curl_3d (reset : Bool) (nz ny nx : ℤ) (hnz : 1 ≤ nz) (hny : 1 ≤ ny) (hnx : 1 ≤ nx) (c f : Vec3 B)
    (hd : Distinct33 c f) (p : K) (s : Store3 B K) :
    (∀ i j k, inBox3 nz ny nx i j k →
      exec3 (curl3D reset nz ny nx c f p) s c.x i j k =
        (if inner3 nz ny nx 1 i j k then p * ((s f.z i (j+1) k - s f.z i (j-1) k) - (s f.y (i+1) j k - s f.y (i-1) j k))
         else if reset then 0 else s c.x i j k) ∧
      exec3 (curl3D reset nz ny nx c f p) s c.y i j k =
        (if inner3 nz ny nx 1 i j k then p * ((s f.x (i+1) j k - s f.x (i-1) j k) - (s f.z i j (k+1) - s f.z i j (k-1)))
         else if reset then 0 else s c.y i j k) ∧
      exec3 (curl3D reset nz ny nx c f p) s c.z i j k =
        (if inner3 nz ny nx 1 i j k then p * ((s f.y i j (k+1) - s f.y i j (k-1)) - (s f.x i (j+1) k - s f.x i (j-1) k))
         else if reset then 0 else s c.z i j k)) ∧
    (∀ b, b ≠ c.x → b ≠ c.y → b ≠ c.z → exec3 (curl3D reset nz ny nx c f p) s b = s b) := by
  cases reset
  · simpa using curl_core_3d nz ny nx c f hd p s
  · have hsplit : curl3D true nz ny nx c f p = curl3D false nz ny nx c f p ++ setBoundaryVec3D nz ny nx 1 c 0 0 0 := by
      simp [curl3D]
    obtain ⟨hcore, hcoreF⟩ := curl_core_3d nz ny nx c f hd p s
    obtain ⟨hbd, hbdF⟩ := C13_set_boundary_vec_3d nz ny nx 1 le_rfl hnz hny hnx c hd.axy hd.axz hd.ayz 0 0 0
      (exec3 (curl3D false nz ny nx c f p) s)
    refine ⟨?_, ?_⟩
    · intro i j k h
      rw [hsplit, exec3_append]
      obtain ⟨b1, b2, b3⟩ := hbd i j k h
      obtain ⟨c1, c2, c3⟩ := hcore i j k h
      rw [b1, b2, b3, c1, c2, c3]
      simp only [onRing3, inner3, if_true]
      refine ⟨?_, ?_, ?_⟩ <;> split_ifs <;> first | rfl | (exfalso; omega)
    · intro b hbx hby hbz
      rw [hsplit, exec3_append, hbdF b hbx hby hbz, hcoreF b hbx hby hbz]

/-- vorticity update from the forcing: `ω += p·(2h curl F)` component-wise on the interior of reach 1, nothing else -/
theorem C13_update_vorticity_from_forcing_3d (nz ny nx : ℤ) (w F : Vec3 B) (hd : Distinct33 w F) (p : K) (s : Store3 B K) :
    (∀ i j k, inBox3 nz ny nx i j k →
      exec3 (updateVorticityFromForcing3D nz ny nx w F p) s w.x i j k =
        (if inner3 nz ny nx 1 i j k then s w.x i j k + p * ((s F.z i (j+1) k - s F.z i (j-1) k) - (s F.y (i+1) j k - s F.y (i-1) j k))
         else s w.x i j k) ∧
      exec3 (updateVorticityFromForcing3D nz ny nx w F p) s w.y i j k =
        (if inner3 nz ny nx 1 i j k then s w.y i j k + p * ((s F.x (i+1) j k - s F.x (i-1) j k) - (s F.z i j (k+1) - s F.z i j (k-1)))
         else s w.y i j k) ∧
      exec3 (updateVorticityFromForcing3D nz ny nx w F p) s w.z i j k =
        (if inner3 nz ny nx 1 i j k then s w.z i j k + p * ((s F.y i j (k+1) - s F.y i j (k-1)) - (s F.x i (j+1) k - s F.x i (j-1) k))
         else s w.z i j k)) ∧
    (∀ b, b ≠ w.x → b ≠ w.y → b ≠ w.z → exec3 (updateVorticityFromForcing3D nz ny nx w F p) s b = s b) := by
  obtain ⟨axy, axz, ayz, xx, xy, xz, yx, yy, yz, zx, zy, zz⟩ := hd
  have ayx := axy.symm; have azx := axz.symm; have azy := ayz.symm
  have xx' := xx.symm; have xy' := xy.symm; have xz' := xz.symm
  have yx' := yx.symm; have yy' := yy.symm; have yz' := yz.symm
  have zx' := zx.symm; have zy' := zy.symm; have zz' := zz.symm
  refine ⟨?_, ?_⟩
  · intro i j k h
    refine ⟨?_, ?_, ?_⟩ <;>
    · prog_simp3 [updateVorticityFromForcing3D, call_update_vorticity_from_velocity_forcing_x_comp_stencil_3d,
        call_update_vorticity_from_velocity_forcing_y_comp_stencil_3d, call_update_vorticity_from_velocity_forcing_z_comp_stencil_3d,
        update_vorticity_from_velocity_forcing_x_comp_stencil_3d, update_vorticity_from_velocity_forcing_y_comp_stencil_3d,
        update_vorticity_from_velocity_forcing_z_comp_stencil_3d, inner3,
        axy, axz, ayz, ayx, azx, azy, xx, xy, xz, yx, yy, yz, zx, zy, zz, xx', xy', xz', yx', yy', yz', zx', zy', zz']
      split_ifs <;> first | rfl | ring1 | (exfalso; omega)
  · intro b hbx hby hbz
    apply exec3_other
    simp [written3, Call3.written, updateVorticityFromForcing3D, call_update_vorticity_from_velocity_forcing_x_comp_stencil_3d,
      call_update_vorticity_from_velocity_forcing_y_comp_stencil_3d, call_update_vorticity_from_velocity_forcing_z_comp_stencil_3d,
      hbx, hby, hbz]

/-- Brinkmann penalisation (3D scalar): `(f + λ χ f_pen)/(1 + λ χ)` on the whole box, nothing else -/
theorem C13_brinkmann_3d (nz ny nx : ℤ) (o f pen chi : B) (ho1 : o ≠ f) (ho2 : o ≠ pen) (ho3 : o ≠ chi) (lam : K) (s : Store3 B K) :
    (∀ i j k, inBox3 nz ny nx i j k →
      exec3 (brinkmann3D nz ny nx o f pen chi lam) s o i j k
        = brinkmann_penalise_stencil_3d lam (s chi) (s f) (s pen) i j k) ∧
    (∀ b, b ≠ o → exec3 (brinkmann3D nz ny nx o f pen chi lam) s b = s b) := by
  refine ⟨?_, ?_⟩
  · intro i j k h
    prog_simp3 [brinkmann3D, call_brinkmann_penalise_stencil_3d]
    split_ifs <;> first | rfl | (exfalso; omega)
  · intro b hb
    apply exec3_other
    simp [written3, Call3.written, brinkmann3D, call_brinkmann_penalise_stencil_3d, hb]

/-- cross product: `out = a × b` cell by cell on the whole box (inputs distinct from outputs) -/
theorem C13_cross_product_3d (nz ny nx : ℤ) (o a b : Vec3 B) (hoa : Distinct33 o a) (hob : Distinct33 o b) (s : Store3 B K) :
    (∀ i j k, inBox3 nz ny nx i j k →
      exec3 (crossProduct3D nz ny nx o a b) s o.x i j k = s a.y i j k * s b.z i j k - s a.z i j k * s b.y i j k ∧
      exec3 (crossProduct3D nz ny nx o a b) s o.y i j k = s a.z i j k * s b.x i j k - s a.x i j k * s b.z i j k ∧
      exec3 (crossProduct3D nz ny nx o a b) s o.z i j k = s a.x i j k * s b.y i j k - s a.y i j k * s b.x i j k) ∧
    (∀ c, c ≠ o.x → c ≠ o.y → c ≠ o.z → exec3 (crossProduct3D nz ny nx o a b) s c = s c) := by
  obtain ⟨axy, axz, ayz, xx, xy, xz, yx, yy, yz, zx, zy, zz⟩ := hoa
  obtain ⟨_, _, _, bxx, bxy, bxz, byx, byy, byz, bzx, bzy, bzz⟩ := hob
  have ayx := axy.symm; have azx := axz.symm; have azy := ayz.symm
  have xx' := xx.symm; have xy' := xy.symm; have xz' := xz.symm
  have yx' := yx.symm; have yy' := yy.symm; have yz' := yz.symm
  have zx' := zx.symm; have zy' := zy.symm; have zz' := zz.symm
  have bxx' := bxx.symm; have bxy' := bxy.symm; have bxz' := bxz.symm
  have byx' := byx.symm; have byy' := byy.symm; have byz' := byz.symm
  have bzx' := bzx.symm; have bzy' := bzy.symm; have bzz' := bzz.symm
  refine ⟨?_, ?_⟩
  · intro i j k h
    refine ⟨?_, ?_, ?_⟩ <;>
    · prog_simp3 [crossProduct3D, call_elementwise_cross_product_single_axis_stencil_3d, elementwise_cross_product_single_axis_stencil_3d,
        axy, axz, ayz, ayx, azx, azy, xx, xy, xz, yx, yy, yz, zx, zy, zz, xx', xy', xz', yx', yy', yz', zx', zy', zz',
        bxx, bxy, bxz, byx, byy, byz, bzx, bzy, bzz, bxx', bxy', bxz', byx', byy', byz', bzx', bzy', bzz']
      split_ifs <;> first | rfl | ring1 | (exfalso; omega)
  · intro c hx hy hz
    apply exec3_other
    simp [written3, Call3.written, crossProduct3D, call_elementwise_cross_product_single_axis_stencil_3d, hx, hy, hz]

/-- vector element-wise sum (one "4D" kernel call on whole (3, nz, ny, nx) arrays); `out` may alias `a` (in-place),
the kernel reads at the centre only -/
theorem C13_elementwise_sum_vec_3d (nz ny nx : ℤ) (o a b : Vec3 B) (hxy : o.x ≠ o.y) (hxz : o.x ≠ o.z) (hyz : o.y ≠ o.z)
    (s : Store3 B K) :
    (∀ i j k, inBox3 nz ny nx i j k →
      exec3 (elementwiseSumVec3D nz ny nx o a b) s o.x i j k = s a.x i j k + s b.x i j k ∧
      exec3 (elementwiseSumVec3D nz ny nx o a b) s o.y i j k = s a.y i j k + s b.y i j k ∧
      exec3 (elementwiseSumVec3D nz ny nx o a b) s o.z i j k = s a.z i j k + s b.z i j k) ∧
    (∀ c, c ≠ o.x → c ≠ o.y → c ≠ o.z → exec3 (elementwiseSumVec3D nz ny nx o a b) s c = s c) := by
  have hyx := hxy.symm; have hzx := hxz.symm; have hzy := hyz.symm
  refine ⟨?_, ?_⟩
  · intro i j k h
    refine ⟨?_, ?_, ?_⟩ <;>
    · prog_simp3 [elementwiseSumVec3D, vcall_elementwise_sum_stencil_3d_vec, elementwise_sum_stencil_3d_vec, hxy, hxz, hyz, hyx, hzx, hzy]
      split_ifs <;> first | rfl | (exfalso; omega)
  · intro c hx hy hz
    apply exec3_other
    simp [written3, Call3.written, elementwiseSumVec3D, vcall_elementwise_sum_stencil_3d_vec, comps, Vec3.fam, hx, hy, hz]
    intro x hx3
    split_ifs <;> first | exact fun h => hx h.symm | exact fun h => hy h.symm | exact fun h => hz h.symm

theorem C13_elementwise_saxpby_vec_3d (nz ny nx : ℤ) (o a b : Vec3 B) (hxy : o.x ≠ o.y) (hxz : o.x ≠ o.z) (hyz : o.y ≠ o.z)
    (pa pb : K) (s : Store3 B K) :
    (∀ i j k, inBox3 nz ny nx i j k →
      exec3 (elementwiseSaxpbyVec3D nz ny nx o a b pa pb) s o.x i j k = pa * s a.x i j k + pb * s b.x i j k ∧
      exec3 (elementwiseSaxpbyVec3D nz ny nx o a b pa pb) s o.y i j k = pa * s a.y i j k + pb * s b.y i j k ∧
      exec3 (elementwiseSaxpbyVec3D nz ny nx o a b pa pb) s o.z i j k = pa * s a.z i j k + pb * s b.z i j k) ∧
    (∀ c, c ≠ o.x → c ≠ o.y → c ≠ o.z → exec3 (elementwiseSaxpbyVec3D nz ny nx o a b pa pb) s c = s c) := by
  have hyx := hxy.symm; have hzx := hxz.symm; have hzy := hyz.symm
  refine ⟨?_, ?_⟩
  · intro i j k h
    refine ⟨?_, ?_, ?_⟩ <;>
    · prog_simp3 [elementwiseSaxpbyVec3D, vcall_elementwise_saxpby_stencil_3d_vec, elementwise_saxpby_stencil_3d_vec, hxy, hxz, hyz, hyx, hzx, hzy]
      split_ifs <;> first | rfl | (exfalso; omega)
  · intro c hx hy hz
    apply exec3_other
    simp [written3, Call3.written, elementwiseSaxpbyVec3D, vcall_elementwise_saxpby_stencil_3d_vec, comps, Vec3.fam, hx, hy, hz]
    intro x hx3
    split_ifs <;> first | exact fun h => hx h.symm | exact fun h => hy h.symm | exact fun h => hz h.symm

/-- the stretching flux of one component at a cell: `p·(ω·∇_h) u_c` by centred differences (no `1/2h`: in `p`) -/
def stretch (p : K) (u wx wy wz : F3 K) (i j k : ℤ) : K :=
  p * ((u i j (k+1) - u i j (k-1)) * wx i j k + (u i (j+1) k - u i (j-1) k) * wy i j k + (u (i+1) j k - u (i-1) j k) * wz i j k)

/-- the three stretching-flux kernel calls without the ring reset -/
def stretchCore3D (nz ny nx : ℤ) (flux w vel : Vec3 B) (p : K) : List (Call3 B K) :=
  (stretchingFlux3D nz ny nx flux w vel p).take 3

theorem stretchingFlux3D_split (nz ny nx : ℤ) (flux w vel : Vec3 B) (p : K) :
    stretchingFlux3D nz ny nx flux w vel p = stretchCore3D nz ny nx flux w vel p ++ setBoundaryVec3D nz ny nx 1 flux 0 0 0 := by
  simp [stretchingFlux3D, stretchCore3D]

theorem stretch_core_3d (nz ny nx : ℤ) (flux w vel : Vec3 B) (hfw : Distinct33 flux w) (hfv : Distinct33 flux vel) (p : K) (s : Store3 B K) :
    (∀ i j k, inBox3 nz ny nx i j k →
      exec3 (stretchCore3D nz ny nx flux w vel p) s flux.x i j k =
        (if inner3 nz ny nx 1 i j k then stretch p (s vel.x) (s w.x) (s w.y) (s w.z) i j k else s flux.x i j k) ∧
      exec3 (stretchCore3D nz ny nx flux w vel p) s flux.y i j k =
        (if inner3 nz ny nx 1 i j k then stretch p (s vel.y) (s w.x) (s w.y) (s w.z) i j k else s flux.y i j k) ∧
      exec3 (stretchCore3D nz ny nx flux w vel p) s flux.z i j k =
        (if inner3 nz ny nx 1 i j k then stretch p (s vel.z) (s w.x) (s w.y) (s w.z) i j k else s flux.z i j k)) ∧
    (∀ b, b ≠ flux.x → b ≠ flux.y → b ≠ flux.z → exec3 (stretchCore3D nz ny nx flux w vel p) s b = s b) := by
  obtain ⟨axy, axz, ayz, xx, xy, xz, yx, yy, yz, zx, zy, zz⟩ := hfw
  obtain ⟨_, _, _, bxx, bxy, bxz, byx, byy, byz, bzx, bzy, bzz⟩ := hfv
  have ayx := axy.symm; have azx := axz.symm; have azy := ayz.symm
  have xx' := xx.symm; have xy' := xy.symm; have xz' := xz.symm
  have yx' := yx.symm; have yy' := yy.symm; have yz' := yz.symm
  have zx' := zx.symm; have zy' := zy.symm; have zz' := zz.symm
  have bxx' := bxx.symm; have bxy' := bxy.symm; have bxz' := bxz.symm
  have byx' := byx.symm; have byy' := byy.symm; have byz' := byz.symm
  have bzx' := bzx.symm; have bzy' := bzy.symm; have bzz' := bzz.symm
  refine ⟨?_, ?_⟩
  · intro i j k h
    refine ⟨?_, ?_, ?_⟩ <;>
    · prog_simp3 [stretchCore3D, stretchingFlux3D, List.take, call_vorticity_stretching_flux_single_comp_stencil_3d,
        vorticity_stretching_flux_single_comp_stencil_3d, stretch, inner3,
        axy, axz, ayz, ayx, azx, azy, xx, xy, xz, yx, yy, yz, zx, zy, zz, xx', xy', xz', yx', yy', yz', zx', zy', zz',
        bxx, bxy, bxz, byx, byy, byz, bzx, bzy, bzz, bxx', bxy', bxz', byx', byy', byz', bzx', bzy', bzz']
      split_ifs <;> first | rfl | ring1 | (exfalso; omega)
  · intro b hx hy hz
    apply exec3_other
    simp [written3, Call3.written, stretchCore3D, stretchingFlux3D, List.take, call_vorticity_stretching_flux_single_comp_stencil_3d, hx, hy, hz]

/-- the ring-zeroed stretching flux `S_p(u, ω)` as a field -/
def stretchZ (nz ny nx : ℤ) (p : K) (u wx wy wz : F3 K) (i j k : ℤ) : K :=
  if inner3 nz ny nx 1 i j k then stretch p u wx wy wz i j k else 0

/-- stretching-flux wrapper: each flux component is `S_p` of its velocity component (ring zeroed) on the whole box -/
theorem C13_stretching_flux_3d (nz ny nx : ℤ) (hnz : 1 ≤ nz) (hny : 1 ≤ ny) (hnx : 1 ≤ nx) (flux w vel : Vec3 B)
    (hfw : Distinct33 flux w) (hfv : Distinct33 flux vel) (p : K) (s : Store3 B K) :
    (∀ i j k, inBox3 nz ny nx i j k →
      exec3 (stretchingFlux3D nz ny nx flux w vel p) s flux.x i j k = stretchZ nz ny nx p (s vel.x) (s w.x) (s w.y) (s w.z) i j k ∧
      exec3 (stretchingFlux3D nz ny nx flux w vel p) s flux.y i j k = stretchZ nz ny nx p (s vel.y) (s w.x) (s w.y) (s w.z) i j k ∧
      exec3 (stretchingFlux3D nz ny nx flux w vel p) s flux.z i j k = stretchZ nz ny nx p (s vel.z) (s w.x) (s w.y) (s w.z) i j k) ∧
    (∀ b, b ≠ flux.x → b ≠ flux.y → b ≠ flux.z → exec3 (stretchingFlux3D nz ny nx flux w vel p) s b = s b) := by
  obtain ⟨hcore, hcoreF⟩ := stretch_core_3d nz ny nx flux w vel hfw hfv p s
  obtain ⟨hbd, hbdF⟩ := C13_set_boundary_vec_3d nz ny nx 1 le_rfl hnz hny hnx flux hfw.axy hfw.axz hfw.ayz 0 0 0
    (exec3 (stretchCore3D nz ny nx flux w vel p) s)
  refine ⟨?_, ?_⟩
  · intro i j k h
    rw [stretchingFlux3D_split, exec3_append]
    obtain ⟨b1, b2, b3⟩ := hbd i j k h
    obtain ⟨c1, c2, c3⟩ := hcore i j k h
    rw [b1, b2, b3, c1, c2, c3]
    simp only [onRing3, inner3, stretchZ]
    refine ⟨?_, ?_, ?_⟩ <;> split_ifs <;> first | rfl | (exfalso; omega)
  · intro b hx hy hz
    rw [stretchingFlux3D_split, exec3_append, hbdF b hx hy hz, hcoreF b hx hy hz]

theorem C13_add_fixed_val_3d (nz ny nx : ℤ) (o f : B) (v : K) (s : Store3 B K) :
    (∀ i j k, inBox3 nz ny nx i j k → exec3 (addFixedVal3D nz ny nx o f v) s o i j k = s f i j k + v) ∧
    (∀ c, c ≠ o → exec3 (addFixedVal3D nz ny nx o f v) s c = s c) := by
  refine ⟨?_, ?_⟩
  · intro i j k h
    prog_simp3 [addFixedVal3D, call_add_fixed_val_stencil_3d, add_fixed_val_stencil_3d]
    split_ifs <;> first | rfl | ring1 | (exfalso; omega)
  · intro c hc
    apply exec3_other
    simp [written3, Call3.written, addFixedVal3D, call_add_fixed_val_stencil_3d, hc]

/-- vector add-constant, in place (`out = f`): each component gets its constant, nothing else changes -/
theorem C13_add_fixed_val_vec_inplace_3d (nz ny nx : ℤ) (f : Vec3 B) (hxy : f.x ≠ f.y) (hxz : f.x ≠ f.z) (hyz : f.y ≠ f.z)
    (vx vy vz : K) (s : Store3 B K) :
    (∀ i j k, inBox3 nz ny nx i j k →
      exec3 (addFixedValVec3D nz ny nx f f vx vy vz) s f.x i j k = s f.x i j k + vx ∧
      exec3 (addFixedValVec3D nz ny nx f f vx vy vz) s f.y i j k = s f.y i j k + vy ∧
      exec3 (addFixedValVec3D nz ny nx f f vx vy vz) s f.z i j k = s f.z i j k + vz) ∧
    (∀ c, c ≠ f.x → c ≠ f.y → c ≠ f.z → exec3 (addFixedValVec3D nz ny nx f f vx vy vz) s c = s c) := by
  have hyx := hxy.symm; have hzx := hxz.symm; have hzy := hyz.symm
  refine ⟨?_, ?_⟩
  · intro i j k h
    refine ⟨?_, ?_, ?_⟩ <;>
    · prog_simp3 [addFixedValVec3D, addFixedVal3D, call_add_fixed_val_stencil_3d, add_fixed_val_stencil_3d, hxy, hxz, hyz, hyx, hzx, hzy]
      split_ifs <;> first | rfl | ring1 | (exfalso; omega)
  · intro c hx hy hz
    apply exec3_other
    simp [written3, Call3.written, addFixedValVec3D, addFixedVal3D, call_add_fixed_val_stencil_3d, hx, hy, hz]

theorem C13_set_fixed_val_vec_3d (nz ny nx : ℤ) (f : Vec3 B) (hxy : f.x ≠ f.y) (hxz : f.x ≠ f.z) (hyz : f.y ≠ f.z)
    (vx vy vz : K) (s : Store3 B K) :
    (∀ i j k, inBox3 nz ny nx i j k →
      exec3 (setFixedValVec3D nz ny nx f vx vy vz) s f.x i j k = vx ∧
      exec3 (setFixedValVec3D nz ny nx f vx vy vz) s f.y i j k = vy ∧
      exec3 (setFixedValVec3D nz ny nx f vx vy vz) s f.z i j k = vz) ∧
    (∀ c, c ≠ f.x → c ≠ f.y → c ≠ f.z → exec3 (setFixedValVec3D nz ny nx f vx vy vz) s c = s c) := by
  have hyx := hxy.symm; have hzx := hxz.symm; have hzy := hyz.symm
  refine ⟨?_, ?_⟩
  · intro i j k h
    refine ⟨?_, ?_, ?_⟩ <;>
    · prog_simp3 [setFixedValVec3D, setFixedValVecOn3D, call_set_fixed_val_stencil_3d, set_fixed_val_stencil_3d, hxy, hxz, hyz, hyx, hzx, hzy]
      split_ifs <;> first | rfl | (exfalso; omega)
  · intro c hx hy hz
    apply exec3_other
    simp [written3, Call3.written, setFixedValVec3D, setFixedValVecOn3D, call_set_fixed_val_stencil_3d, hx, hy, hz]

/-- vorticity update from the penalised velocity: `ω += p·(2h curl (u_pen − u))` component-wise on the interior of reach 1
(the update of the difference field, cf. C12_penalised_eq_update_of_difference_3d), nothing else -/
theorem C13_update_vorticity_from_penalised_3d (nz ny nx : ℤ) (w pen vel : Vec3 B) (hwp : Distinct33 w pen) (hwv : Distinct33 w vel)
    (p : K) (s : Store3 B K) :
    (∀ i j k, inBox3 nz ny nx i j k →
      exec3 (updateVorticityFromPenalised3D nz ny nx w pen vel p) s w.x i j k =
        (if inner3 nz ny nx 1 i j k then s w.x i j k + p *
            (((s pen.z i (j+1) k - s vel.z i (j+1) k) - (s pen.z i (j-1) k - s vel.z i (j-1) k))
             - ((s pen.y (i+1) j k - s vel.y (i+1) j k) - (s pen.y (i-1) j k - s vel.y (i-1) j k)))
         else s w.x i j k) ∧
      exec3 (updateVorticityFromPenalised3D nz ny nx w pen vel p) s w.y i j k =
        (if inner3 nz ny nx 1 i j k then s w.y i j k + p *
            (((s pen.x (i+1) j k - s vel.x (i+1) j k) - (s pen.x (i-1) j k - s vel.x (i-1) j k))
             - ((s pen.z i j (k+1) - s vel.z i j (k+1)) - (s pen.z i j (k-1) - s vel.z i j (k-1))))
         else s w.y i j k) ∧
      exec3 (updateVorticityFromPenalised3D nz ny nx w pen vel p) s w.z i j k =
        (if inner3 nz ny nx 1 i j k then s w.z i j k + p *
            (((s pen.y i j (k+1) - s vel.y i j (k+1)) - (s pen.y i j (k-1) - s vel.y i j (k-1)))
             - ((s pen.x i (j+1) k - s vel.x i (j+1) k) - (s pen.x i (j-1) k - s vel.x i (j-1) k)))
         else s w.z i j k)) ∧
    (∀ b, b ≠ w.x → b ≠ w.y → b ≠ w.z → exec3 (updateVorticityFromPenalised3D nz ny nx w pen vel p) s b = s b) := by
  obtain ⟨axy, axz, ayz, xx, xy, xz, yx, yy, yz, zx, zy, zz⟩ := hwp
  obtain ⟨_, _, _, bxx, bxy, bxz, byx, byy, byz, bzx, bzy, bzz⟩ := hwv
  have ayx := axy.symm; have azx := axz.symm; have azy := ayz.symm
  have xx' := xx.symm; have xy' := xy.symm; have xz' := xz.symm
  have yx' := yx.symm; have yy' := yy.symm; have yz' := yz.symm
  have zx' := zx.symm; have zy' := zy.symm; have zz' := zz.symm
  have bxx' := bxx.symm; have bxy' := bxy.symm; have bxz' := bxz.symm
  have byx' := byx.symm; have byy' := byy.symm; have byz' := byz.symm
  have bzx' := bzx.symm; have bzy' := bzy.symm; have bzz' := bzz.symm
  refine ⟨?_, ?_⟩
  · intro i j k h
    refine ⟨?_, ?_, ?_⟩ <;>
    · prog_simp3 [updateVorticityFromPenalised3D, call_update_vorticity_from_penalised_velocity_x_comp_stencil_3d,
        call_update_vorticity_from_penalised_velocity_y_comp_stencil_3d, call_update_vorticity_from_penalised_velocity_z_comp_stencil_3d,
        update_vorticity_from_penalised_velocity_x_comp_stencil_3d, update_vorticity_from_penalised_velocity_y_comp_stencil_3d,
        update_vorticity_from_penalised_velocity_z_comp_stencil_3d, inner3,
        axy, axz, ayz, ayx, azx, azy, xx, xy, xz, yx, yy, yz, zx, zy, zz, xx', xy', xz', yx', yy', yz', zx', zy', zz',
        bxx, bxy, bxz, byx, byy, byz, bzx, bzy, bzz, bxx', bxy', bxz', byx', byy', byz', bzx', bzy', bzz']
      split_ifs <;> first | rfl | ring1 | (exfalso; omega)
  · intro b hbx hby hbz
    apply exec3_other
    simp [written3, Call3.written, updateVorticityFromPenalised3D, call_update_vorticity_from_penalised_velocity_x_comp_stencil_3d,
      call_update_vorticity_from_penalised_velocity_y_comp_stencil_3d, call_update_vorticity_from_penalised_velocity_z_comp_stencil_3d,
      hbx, hby, hbz]

/-- characteristic function from a level set (3D wrapper): the generated smooth Heaviside of the level-set value cell by
cell on the whole box (its range / monotonicity / symmetry are C19_heaviside), nothing else -/
theorem C13_char_func_3d (T : Transc K) (nz ny nx : ℤ) (o phi : B) (hne : o ≠ phi) (eps : K) (s : Store3 B K) :
    (∀ i j k, inBox3 nz ny nx i j k →
      exec3 (charFunc3D T nz ny nx o phi eps) s o i j k
        = char_func_from_level_set_via_sine_heaviside_stencil_3d T eps (s phi) i j k) ∧
    (∀ b, b ≠ o → exec3 (charFunc3D T nz ny nx o phi eps) s b = s b) := by
  refine ⟨?_, ?_⟩
  · intro i j k h
    prog_simp3 [charFunc3D, call_char_func_from_level_set_via_sine_heaviside_stencil_3d]
    split_ifs <;> first | rfl | (exfalso; omega)
  · intro b hb
    apply exec3_other
    simp [written3, Call3.written, charFunc3D, call_char_func_from_level_set_via_sine_heaviside_stencil_3d, hb]

end Sopht.Props.C13
