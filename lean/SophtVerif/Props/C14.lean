/-
C14 — the flow step has no preferred direction.

2D (complete for the modelled step, boundary-zone width 0): the specification operators of Spec/Ops2D commute
with transposition and with the mirrors, with vorticity / stream function as pseudo-scalars and velocity,
forcing, free stream as vectors; through C01_pre_solve_2d / C01_post_solve_2d the statement transfers to the
step PROGRAMS (generated kernels + hand-written wrapper programs).  Mirrors need the property's proviso that no
face-velocity sum is exactly zero (the upwind test `0 < v + v'` is not symmetric at 0).
Poisson solve: the free-space convolution (C03) commutes with transposition / mirrors when the Green's table is
isotropic (`G' a b = G b a`) — a hypothesis on table VALUES, validated numerically on the implementation.
3D: kernel-level relabelling theorems (each y / z kernel is the x kernel with axes relabelled; curl components
permute cyclically), section `K3`.
-/
import SophtVerif.Props.C01
import SophtVerif.Props.C03
import Mathlib.Tactic.Ring
import Mathlib.Tactic.Linarith
import Mathlib.Algebra.BigOperators.Intervals

set_option linter.unusedVariables false
set_option linter.unusedSectionVars false
set_option linter.unusedTactic false
set_option linter.unreachableTactic false

namespace Sopht.Props.C14
open Sopht Sopht.Model Sopht.Spec Sopht.Gen

variable {K : Type} [Field K] [LinearOrder K] [IsStrictOrderedRing K]

/-! ### transformations of 2D fields (array index (i, j) = (y, x)) -/

/-- transpose: the field on the `nx × ny` grid with the roles of x and y exchanged -/
def tr (f : F2 K) : F2 K := fun i j => f j i
/-- mirror x ↦ L − x on a grid with `nx` columns -/
def mx (nx : ℤ) (f : F2 K) : F2 K := fun i j => f i (nx - 1 - j)
/-- mirror y -/
def my (ny : ℤ) (f : F2 K) : F2 K := fun i j => f (ny - 1 - i) j
def ng (f : F2 K) : F2 K := fun i j => -f i j

/-! ### transposition (x ↔ y): ω ↦ −ωᵀ, (u_x, u_y) ↦ (u_yᵀ, u_xᵀ) -/

theorem forcing_transpose (ny nx : ℤ) (p : K) (Fx Fy w : F2 K) (i j : ℤ) :
    forcingOp nx ny p (tr Fy) (tr Fx) (ng (tr w)) i j = -(forcingOp ny nx p Fx Fy w j i) := by
  simp only [forcingOp, inner, curl2h, tr, ng]
  split_ifs <;> first | ring1 | (exfalso; omega)

theorem enoFaceX_transpose (w v : F2 K) (i j : ℤ) : enoFaceX (ng (tr w)) (tr v) i j = -(enoFaceY w v j i) := by
  simp only [enoFaceX, enoFaceY, tr, ng]
  by_cases h : 0 < v j i + v (j + 1) i <;> simp only [h, if_true, if_false] <;> ring1

theorem enoFaceY_transpose (w v : F2 K) (i j : ℤ) : enoFaceY (ng (tr w)) (tr v) i j = -(enoFaceX w v j i) := by
  simp only [enoFaceX, enoFaceY, tr, ng]
  by_cases h : 0 < v j i + v j (i + 1) <;> simp only [h, if_true, if_false] <;> ring1

theorem advect_transpose (ny nx : ℤ) (c : K) (vx vy w : F2 K) (i j : ℤ) :
    advectOp nx ny c (tr vy) (tr vx) (ng (tr w)) i j = -(advectOp ny nx c vx vy w j i) := by
  simp only [advectOp, inner, enoDivergence, enoFaceX_transpose, enoFaceY_transpose]
  simp only [tr, ng]
  split_ifs <;> first | ring1 | (exfalso; omega)

theorem diffuse_transpose (ny nx : ℤ) (r : K) (w : F2 K) (i j : ℤ) :
    diffuseOp nx ny r (ng (tr w)) i j = -(diffuseOp ny nx r w j i) := by
  simp only [diffuseOp, inner, tr, ng]
  split_ifs <;> first | ring1 | (exfalso; omega)

theorem velocity_transpose (ny nx : ℤ) (p Ux Uy : K) (psi : F2 K) (i j : ℤ) :
    velocityX nx ny p Uy (ng (tr psi)) i j = velocityY ny nx p Uy psi j i ∧
    velocityY nx ny p Ux (ng (tr psi)) i j = velocityX ny nx p Ux psi j i := by
  simp only [velocityX, velocityY, inner, tr, ng]
  constructor <;> split_ifs <;> first | ring1 | (exfalso; omega)

/-! ### mirror in x: ω ↦ −ω∘m, u_x ↦ −u_x∘m, u_y ↦ u_y∘m -/

theorem forcing_mirror_x (ny nx : ℤ) (p : K) (Fx Fy w : F2 K) (i j : ℤ) :
    forcingOp ny nx p (ng (mx nx Fx)) (mx nx Fy) (ng (mx nx w)) i j = -(forcingOp ny nx p Fx Fy w i (nx - 1 - j)) := by
  simp only [forcingOp, inner, curl2h, mx, ng]
  have e1 : nx - 1 - (j + 1) = nx - 1 - j - 1 := by ring
  have e2 : nx - 1 - (j - 1) = nx - 1 - j + 1 := by ring
  rw [e1, e2]
  split_ifs <;> first | ring1 | (exfalso; omega)

/-- the +x face of cell `j` of the mirrored state is the −x face of cell `nx−1−j` of the original; the nodal
flux `ω u_x` is even under the mirror; needs a non-zero face velocity sum -/
theorem enoFaceX_mirror_x (nx : ℤ) (w v : F2 K) (i j : ℤ) (hne : v i (nx - 1 - j - 1) + v i (nx - 1 - j) ≠ 0) :
    enoFaceX (ng (mx nx w)) (ng (mx nx v)) i j = enoFaceX w v i (nx - 1 - j - 1) := by
  simp only [enoFaceX, mx, ng]
  have e1 : nx - 1 - (j + 1) = nx - 1 - j - 1 := by ring
  have e2 : nx - 1 - (j - 1) = nx - 1 - j + 1 := by ring
  have e3 : nx - 1 - (j + 2) = nx - 1 - j - 1 - 1 := by ring
  have e4 : nx - 1 - j - 1 + 1 = nx - 1 - j := by ring
  have e5 : nx - 1 - j - 1 + 2 = nx - 1 - j + 1 := by ring
  simp only [e1, e2, e3, e4, e5]
  rcases lt_or_gt_of_ne hne with h | h
  · rw [if_pos (by linarith), if_neg (by linarith)]; ring
  · rw [if_neg (by linarith), if_pos (by linarith)]; ring

theorem enoFaceY_mirror_x (nx : ℤ) (w v : F2 K) (i j : ℤ) :
    enoFaceY (ng (mx nx w)) (mx nx v) i j = -(enoFaceY w v i (nx - 1 - j)) := by
  simp only [enoFaceY, mx, ng]
  by_cases h : 0 < v i (nx - 1 - j) + v (i + 1) (nx - 1 - j) <;> simp only [h, if_true, if_false] <;> ring1

theorem advect_mirror_x (ny nx : ℤ) (c : K) (vx vy w : F2 K) (i j : ℤ)
    (hne : ∀ i j, 0 ≤ i → i < ny → 0 ≤ j → j + 1 < nx → vx i j + vx i (j + 1) ≠ 0) :
    advectOp ny nx c (ng (mx nx vx)) (mx nx vy) (ng (mx nx w)) i j = -(advectOp ny nx c vx vy w i (nx - 1 - j)) := by
  by_cases hin : inner ny nx 2 i j
  · have hin' : inner ny nx 2 i (nx - 1 - j) := by simp only [inner] at *; omega
    simp only [advectOp, if_pos hin, if_pos hin', enoDivergence]
    simp only [inner] at hin
    have h1 := hne i (nx - 1 - j - 1) (by omega) (by omega) (by omega) (by omega)
    have h2 := hne i (nx - 1 - (j - 1) - 1) (by omega) (by omega) (by omega) (by omega)
    have e4 : nx - 1 - j - 1 + 1 = nx - 1 - j := by ring
    have e6 : nx - 1 - (j - 1) - 1 + 1 = nx - 1 - (j - 1) := by ring
    rw [e4] at h1; rw [e6] at h2
    rw [enoFaceX_mirror_x nx w vx i j h1, enoFaceX_mirror_x nx w vx i (j - 1) h2, enoFaceY_mirror_x, enoFaceY_mirror_x]
    have e7 : nx - 1 - (j - 1) - 1 = nx - 1 - j := by ring
    rw [e7]
    simp only [mx, ng]
    ring
  · have hin' : ¬ inner ny nx 2 i (nx - 1 - j) := by simp only [inner] at *; omega
    simp only [advectOp, if_neg hin, if_neg hin', mx, ng]

theorem diffuse_mirror_x (ny nx : ℤ) (r : K) (w : F2 K) (i j : ℤ) :
    diffuseOp ny nx r (ng (mx nx w)) i j = -(diffuseOp ny nx r w i (nx - 1 - j)) := by
  simp only [diffuseOp, inner, mx, ng]
  have e1 : nx - 1 - (j + 1) = nx - 1 - j - 1 := by ring
  have e2 : nx - 1 - (j - 1) = nx - 1 - j + 1 := by ring
  rw [e1, e2]
  split_ifs <;> first | ring1 | (exfalso; omega)

theorem velocity_mirror_x (ny nx : ℤ) (p Ux Uy : K) (psi : F2 K) (i j : ℤ) :
    velocityX ny nx p (-Ux) (ng (mx nx psi)) i j = -(velocityX ny nx p Ux psi i (nx - 1 - j)) ∧
    velocityY ny nx p Uy (ng (mx nx psi)) i j = velocityY ny nx p Uy psi i (nx - 1 - j) := by
  simp only [velocityX, velocityY, inner, mx, ng]
  have e1 : nx - 1 - (j + 1) = nx - 1 - j - 1 := by ring
  have e2 : nx - 1 - (j - 1) = nx - 1 - j + 1 := by ring
  rw [e1, e2]
  constructor <;> split_ifs <;> first | ring1 | (exfalso; omega)

/-! ### mirror in y: ω ↦ −ω∘m, u_x ↦ u_x∘m, u_y ↦ −u_y∘m -/

theorem forcing_mirror_y (ny nx : ℤ) (p : K) (Fx Fy w : F2 K) (i j : ℤ) :
    forcingOp ny nx p (my ny Fx) (ng (my ny Fy)) (ng (my ny w)) i j = -(forcingOp ny nx p Fx Fy w (ny - 1 - i) j) := by
  simp only [forcingOp, inner, curl2h, my, ng]
  have e1 : ny - 1 - (i + 1) = ny - 1 - i - 1 := by ring
  have e2 : ny - 1 - (i - 1) = ny - 1 - i + 1 := by ring
  rw [e1, e2]
  split_ifs <;> first | ring1 | (exfalso; omega)

theorem enoFaceY_mirror_y (ny : ℤ) (w v : F2 K) (i j : ℤ) (hne : v (ny - 1 - i - 1) j + v (ny - 1 - i) j ≠ 0) :
    enoFaceY (ng (my ny w)) (ng (my ny v)) i j = enoFaceY w v (ny - 1 - i - 1) j := by
  simp only [enoFaceY, my, ng]
  have e1 : ny - 1 - (i + 1) = ny - 1 - i - 1 := by ring
  have e2 : ny - 1 - (i - 1) = ny - 1 - i + 1 := by ring
  have e3 : ny - 1 - (i + 2) = ny - 1 - i - 1 - 1 := by ring
  have e4 : ny - 1 - i - 1 + 1 = ny - 1 - i := by ring
  have e5 : ny - 1 - i - 1 + 2 = ny - 1 - i + 1 := by ring
  simp only [e1, e2, e3, e4, e5]
  rcases lt_or_gt_of_ne hne with h | h
  · rw [if_pos (by linarith), if_neg (by linarith)]; ring
  · rw [if_neg (by linarith), if_pos (by linarith)]; ring

theorem enoFaceX_mirror_y (ny : ℤ) (w v : F2 K) (i j : ℤ) :
    enoFaceX (ng (my ny w)) (my ny v) i j = -(enoFaceX w v (ny - 1 - i) j) := by
  simp only [enoFaceX, my, ng]
  by_cases h : 0 < v (ny - 1 - i) j + v (ny - 1 - i) (j + 1) <;> simp only [h, if_true, if_false] <;> ring1

theorem advect_mirror_y (ny nx : ℤ) (c : K) (vx vy w : F2 K) (i j : ℤ)
    (hne : ∀ i j, 0 ≤ i → i + 1 < ny → 0 ≤ j → j < nx → vy i j + vy (i + 1) j ≠ 0) :
    advectOp ny nx c (my ny vx) (ng (my ny vy)) (ng (my ny w)) i j = -(advectOp ny nx c vx vy w (ny - 1 - i) j) := by
  by_cases hin : inner ny nx 2 i j
  · have hin' : inner ny nx 2 (ny - 1 - i) j := by simp only [inner] at *; omega
    simp only [advectOp, if_pos hin, if_pos hin', enoDivergence]
    simp only [inner] at hin
    have h1 := hne (ny - 1 - i - 1) j (by omega) (by omega) (by omega) (by omega)
    have h2 := hne (ny - 1 - (i - 1) - 1) j (by omega) (by omega) (by omega) (by omega)
    have e4 : ny - 1 - i - 1 + 1 = ny - 1 - i := by ring
    have e6 : ny - 1 - (i - 1) - 1 + 1 = ny - 1 - (i - 1) := by ring
    rw [e4] at h1; rw [e6] at h2
    rw [enoFaceY_mirror_y ny w vy i j h1, enoFaceY_mirror_y ny w vy (i - 1) j h2, enoFaceX_mirror_y, enoFaceX_mirror_y]
    have e7 : ny - 1 - (i - 1) - 1 = ny - 1 - i := by ring
    rw [e7]
    simp only [my, ng]
    ring
  · have hin' : ¬ inner ny nx 2 (ny - 1 - i) j := by simp only [inner] at *; omega
    simp only [advectOp, if_neg hin, if_neg hin', my, ng]

theorem diffuse_mirror_y (ny nx : ℤ) (r : K) (w : F2 K) (i j : ℤ) :
    diffuseOp ny nx r (ng (my ny w)) i j = -(diffuseOp ny nx r w (ny - 1 - i) j) := by
  simp only [diffuseOp, inner, my, ng]
  have e1 : ny - 1 - (i + 1) = ny - 1 - i - 1 := by ring
  have e2 : ny - 1 - (i - 1) = ny - 1 - i + 1 := by ring
  rw [e1, e2]
  split_ifs <;> first | ring1 | (exfalso; omega)

theorem velocity_mirror_y (ny nx : ℤ) (p Ux Uy : K) (psi : F2 K) (i j : ℤ) :
    velocityX ny nx p Ux (ng (my ny psi)) i j = velocityX ny nx p Ux psi (ny - 1 - i) j ∧
    velocityY ny nx p (-Uy) (ng (my ny psi)) i j = -(velocityY ny nx p Uy psi (ny - 1 - i) j) := by
  simp only [velocityX, velocityY, inner, my, ng]
  have e1 : ny - 1 - (i + 1) = ny - 1 - i - 1 := by ring
  have e2 : ny - 1 - (i - 1) = ny - 1 - i + 1 := by ring
  rw [e1, e2]
  constructor <;> split_ifs <;> first | ring1 | (exfalso; omega)

/-! ### the step programs (generated kernels + wrapper programs), through C01 -/

section Programs
variable {B : Type} [DecidableEq B]
open Sopht.Props.C01

/-- the pre-solve part of the 2D Navier–Stokes step program (boundary-zone width 0) -/
def pre (c : NS2Cfg K) (b : NS2Bufs B) : List (Call2 B K) :=
  (if c.forcing then updateVorticityFromForcing2D c.ny c.nx b.vort b.force (c.dt / (2 * c.dx * c.rho)) else [])
    ++ advectionTimestep2D c.ny c.nx b.vort b.bs b.vel (c.dt / c.dx)
    ++ diffusionTimestep2D c.ny c.nx b.vort b.bs (c.nu * c.dt / c.dx / c.dx)

/-- the post-solve part -/
def post (c : NS2Cfg K) (b : NS2Bufs B) : List (Call2 B K) :=
  outplaneCurl2D true c.ny c.nx b.vel b.psi ((1 / 2 : K) / c.dx)
    ++ (if c.freeStream then addFixedValVec2D c.ny c.nx b.vel b.vel c.ux c.uy else [])
    ++ (if c.forcing then setFixedValVec2D c.ny c.nx b.force 0 0 else [])

/-- specification of the pre-solve vorticity -/
def preSpec (c : NS2Cfg K) (Fx Fy vx vy w : F2 K) : F2 K :=
  diffuseOp c.ny c.nx (c.nu * c.dt / c.dx / c.dx) (advectOp c.ny c.nx (c.dt / c.dx) vx vy
    (if c.forcing then forcingOp c.ny c.nx (c.dt / (2 * c.dx * c.rho)) Fx Fy w else w))

theorem pre_eq_spec (T : Transc K) (c : NS2Cfg K) (hw : c.width = 0) (hny : 1 ≤ c.ny) (hnx : 1 ≤ c.nx)
    (b : NS2Bufs B) (hd : Distinct2 b) (s : Store2 B K) :
    EqBox c.ny c.nx (exec2 (pre c b) s b.vort)
      (preSpec c (s b.force.x) (s b.force.y) (s b.vel.x) (s b.vel.y) (s b.vort)) := by
  have h := C01_pre_solve_2d T c hw hny hnx b hd s
  simp only at h
  unfold pre preSpec
  cases hf : c.forcing <;> simpa [hf] using h

/-- the transposed configuration: grid `nx × ny`, free stream components exchanged -/
def cfgT (c : NS2Cfg K) : NS2Cfg K := { c with ny := c.nx, nx := c.ny, ux := c.uy, uy := c.ux }
/-- mirrored in x: free stream x-component negated -/
def cfgMx (c : NS2Cfg K) : NS2Cfg K := { c with ux := -c.ux }
def cfgMy (c : NS2Cfg K) : NS2Cfg K := { c with uy := -c.uy }

theorem preSpec_transpose (c : NS2Cfg K) (Fx Fy vx vy w : F2 K) :
    preSpec (cfgT c) (tr Fy) (tr Fx) (tr vy) (tr vx) (ng (tr w)) = ng (tr (preSpec c Fx Fy vx vy w)) := by
  unfold preSpec cfgT
  simp only
  have hF : (if c.forcing then forcingOp c.nx c.ny (c.dt / (2 * c.dx * c.rho)) (tr Fy) (tr Fx) (ng (tr w)) else ng (tr w))
      = ng (tr (if c.forcing then forcingOp c.ny c.nx (c.dt / (2 * c.dx * c.rho)) Fx Fy w else w)) := by
    cases c.forcing
    · rfl
    · funext i j; simp only [if_true]; exact forcing_transpose ..
  rw [hF]
  have hA : ∀ W : F2 K, advectOp c.nx c.ny (c.dt / c.dx) (tr vy) (tr vx) (ng (tr W))
      = ng (tr (advectOp c.ny c.nx (c.dt / c.dx) vx vy W)) := by
    intro W; funext i j; exact advect_transpose ..
  rw [hA]
  funext i j; exact diffuse_transpose ..

theorem preSpec_mirror_x (c : NS2Cfg K) (Fx Fy vx vy w : F2 K)
    (hne : ∀ i j, 0 ≤ i → i < c.ny → 0 ≤ j → j + 1 < c.nx → vx i j + vx i (j + 1) ≠ 0) :
    preSpec (cfgMx c) (ng (mx c.nx Fx)) (mx c.nx Fy) (ng (mx c.nx vx)) (mx c.nx vy) (ng (mx c.nx w))
      = ng (mx c.nx (preSpec c Fx Fy vx vy w)) := by
  unfold preSpec cfgMx
  simp only
  have hF : (if c.forcing then forcingOp c.ny c.nx (c.dt / (2 * c.dx * c.rho)) (ng (mx c.nx Fx)) (mx c.nx Fy) (ng (mx c.nx w)) else ng (mx c.nx w))
      = ng (mx c.nx (if c.forcing then forcingOp c.ny c.nx (c.dt / (2 * c.dx * c.rho)) Fx Fy w else w)) := by
    cases c.forcing
    · rfl
    · funext i j; simp only [if_true]; exact forcing_mirror_x ..
  rw [hF]
  have hA : ∀ W : F2 K, advectOp c.ny c.nx (c.dt / c.dx) (ng (mx c.nx vx)) (mx c.nx vy) (ng (mx c.nx W))
      = ng (mx c.nx (advectOp c.ny c.nx (c.dt / c.dx) vx vy W)) := by
    intro W; funext i j; exact advect_mirror_x c.ny c.nx _ vx vy W i j hne
  rw [hA]
  funext i j; exact diffuse_mirror_x ..

theorem preSpec_mirror_y (c : NS2Cfg K) (Fx Fy vx vy w : F2 K)
    (hne : ∀ i j, 0 ≤ i → i + 1 < c.ny → 0 ≤ j → j < c.nx → vy i j + vy (i + 1) j ≠ 0) :
    preSpec (cfgMy c) (my c.ny Fx) (ng (my c.ny Fy)) (my c.ny vx) (ng (my c.ny vy)) (ng (my c.ny w))
      = ng (my c.ny (preSpec c Fx Fy vx vy w)) := by
  unfold preSpec cfgMy
  simp only
  have hF : (if c.forcing then forcingOp c.ny c.nx (c.dt / (2 * c.dx * c.rho)) (my c.ny Fx) (ng (my c.ny Fy)) (ng (my c.ny w)) else ng (my c.ny w))
      = ng (my c.ny (if c.forcing then forcingOp c.ny c.nx (c.dt / (2 * c.dx * c.rho)) Fx Fy w else w)) := by
    cases c.forcing
    · rfl
    · funext i j; simp only [if_true]; exact forcing_mirror_y ..
  rw [hF]
  have hA : ∀ W : F2 K, advectOp c.ny c.nx (c.dt / c.dx) (my c.ny vx) (ng (my c.ny vy)) (ng (my c.ny W))
      = ng (my c.ny (advectOp c.ny c.nx (c.dt / c.dx) vx vy W)) := by
    intro W; funext i j; exact advect_mirror_y c.ny c.nx _ vx vy W i j hne
  rw [hA]
  funext i j; exact diffuse_mirror_y ..

/-- C14 (2D, transposition, pre-solve): running the step program on the transposed state (grid `nx × ny`,
vorticity `−ωᵀ`, velocity and forcing components exchanged and transposed) gives, on the whole grid, minus the
transpose of what the program gives on the original state — for every store, grid size (non-square included),
time step, viscosity, forcing on/off -/
theorem C14_pre_solve_transpose_2d (T : Transc K) (c : NS2Cfg K) (hw : c.width = 0) (hny : 1 ≤ c.ny) (hnx : 1 ≤ c.nx)
    (b : NS2Bufs B) (hd : Distinct2 b) (s s' : Store2 B K)
    (hω : s' b.vort = ng (tr (s b.vort)))
    (hux : s' b.vel.x = tr (s b.vel.y)) (huy : s' b.vel.y = tr (s b.vel.x))
    (hfx : s' b.force.x = tr (s b.force.y)) (hfy : s' b.force.y = tr (s b.force.x)) :
    EqBox c.nx c.ny (exec2 (pre (cfgT c) b) s' b.vort) (ng (tr (exec2 (pre c b) s b.vort))) := by
  have h1 := pre_eq_spec T (cfgT c) hw hnx hny b hd s'
  have h2 := pre_eq_spec T c hw hny hnx b hd s
  rw [hω, hux, huy, hfx, hfy, preSpec_transpose] at h1
  intro i j a1 a2 a3 a4
  rw [h1 i j a1 a2 a3 a4]
  simp only [ng, tr]
  rw [h2 j i a3 a4 a1 a2]

/-- C14 (2D, mirror in x, pre-solve), under the property's proviso on the face velocity sums -/
theorem C14_pre_solve_mirror_x_2d (T : Transc K) (c : NS2Cfg K) (hw : c.width = 0) (hny : 1 ≤ c.ny) (hnx : 1 ≤ c.nx)
    (b : NS2Bufs B) (hd : Distinct2 b) (s s' : Store2 B K)
    (hne : ∀ i j, 0 ≤ i → i < c.ny → 0 ≤ j → j + 1 < c.nx → s b.vel.x i j + s b.vel.x i (j + 1) ≠ 0)
    (hω : s' b.vort = ng (mx c.nx (s b.vort)))
    (hux : s' b.vel.x = ng (mx c.nx (s b.vel.x))) (huy : s' b.vel.y = mx c.nx (s b.vel.y))
    (hfx : s' b.force.x = ng (mx c.nx (s b.force.x))) (hfy : s' b.force.y = mx c.nx (s b.force.y)) :
    EqBox c.ny c.nx (exec2 (pre (cfgMx c) b) s' b.vort) (ng (mx c.nx (exec2 (pre c b) s b.vort))) := by
  have h1 := pre_eq_spec T (cfgMx c) hw hny hnx b hd s'
  have h2 := pre_eq_spec T c hw hny hnx b hd s
  rw [hω, hux, huy, hfx, hfy] at h1
  have e : (cfgMx c).nx = c.nx := rfl
  rw [preSpec_mirror_x c _ _ _ _ _ hne] at h1
  intro i j a1 a2 a3 a4
  have := h1 i j a1 a2 a3 a4
  rw [this]
  simp only [ng, mx]
  rw [h2 i (c.nx - 1 - j) a1 a2 (by omega) (by omega)]

theorem C14_pre_solve_mirror_y_2d (T : Transc K) (c : NS2Cfg K) (hw : c.width = 0) (hny : 1 ≤ c.ny) (hnx : 1 ≤ c.nx)
    (b : NS2Bufs B) (hd : Distinct2 b) (s s' : Store2 B K)
    (hne : ∀ i j, 0 ≤ i → i + 1 < c.ny → 0 ≤ j → j < c.nx → s b.vel.y i j + s b.vel.y (i + 1) j ≠ 0)
    (hω : s' b.vort = ng (my c.ny (s b.vort)))
    (hux : s' b.vel.x = my c.ny (s b.vel.x)) (huy : s' b.vel.y = ng (my c.ny (s b.vel.y)))
    (hfx : s' b.force.x = my c.ny (s b.force.x)) (hfy : s' b.force.y = ng (my c.ny (s b.force.y))) :
    EqBox c.ny c.nx (exec2 (pre (cfgMy c) b) s' b.vort) (ng (my c.ny (exec2 (pre c b) s b.vort))) := by
  have h1 := pre_eq_spec T (cfgMy c) hw hny hnx b hd s'
  have h2 := pre_eq_spec T c hw hny hnx b hd s
  rw [hω, hux, huy, hfx, hfy] at h1
  rw [preSpec_mirror_y c _ _ _ _ _ hne] at h1
  intro i j a1 a2 a3 a4
  have := h1 i j a1 a2 a3 a4
  rw [this]
  simp only [ng, my]
  rw [h2 (c.ny - 1 - i) j (by omega) (by omega) a3 a4]

/-- distinctness needed by the post-solve part -/
structure DistinctPost (b : NS2Bufs B) : Prop where
  hxy : b.vel.x ≠ b.vel.y
  hpx : b.psi ≠ b.vel.x
  hpy : b.psi ≠ b.vel.y
  hfx : b.force.x ≠ b.vel.x
  hfy : b.force.y ≠ b.vel.x
  hfx' : b.force.x ≠ b.vel.y
  hfy' : b.force.y ≠ b.vel.y
  hff : b.force.x ≠ b.force.y

theorem post_eq_spec (c : NS2Cfg K) (hny : 1 ≤ c.ny) (hnx : 1 ≤ c.nx) (b : NS2Bufs B) (hd : DistinctPost b) (s : Store2 B K) :
    EqBox c.ny c.nx (exec2 (post c b) s b.vel.x)
      (velocityX c.ny c.nx ((1 / 2 : K) / c.dx) (if c.freeStream then c.ux else 0) (s b.psi)) ∧
    EqBox c.ny c.nx (exec2 (post c b) s b.vel.y)
      (velocityY c.ny c.nx ((1 / 2 : K) / c.dx) (if c.freeStream then c.uy else 0) (s b.psi)) := by
  have h := C01_post_solve_2d c hny hnx b hd.hxy hd.hpx hd.hpy hd.hfx hd.hfy hd.hfx' hd.hfy' hd.hff s
  exact ⟨h.1, h.2.1⟩

/-- C14 (2D, transposition, post-solve): with the stream function transformed as a pseudo-scalar the recovered
velocity components are exchanged and transposed (free stream included) -/
theorem C14_post_solve_transpose_2d (c : NS2Cfg K) (hny : 1 ≤ c.ny) (hnx : 1 ≤ c.nx) (b : NS2Bufs B) (hd : DistinctPost b)
    (s s' : Store2 B K) (hψ : s' b.psi = ng (tr (s b.psi))) :
    EqBox c.nx c.ny (exec2 (post (cfgT c) b) s' b.vel.x) (tr (exec2 (post c b) s b.vel.y)) ∧
    EqBox c.nx c.ny (exec2 (post (cfgT c) b) s' b.vel.y) (tr (exec2 (post c b) s b.vel.x)) := by
  have h1 := post_eq_spec (cfgT c) hnx hny b hd s'
  have h2 := post_eq_spec c hny hnx b hd s
  rw [hψ] at h1
  constructor
  · intro i j a1 a2 a3 a4
    rw [h1.1 i j a1 a2 a3 a4]
    simp only [tr]
    rw [h2.2 j i a3 a4 a1 a2]
    exact (velocity_transpose c.ny c.nx _ 0 _ (s b.psi) i j).1
  · intro i j a1 a2 a3 a4
    rw [h1.2 i j a1 a2 a3 a4]
    simp only [tr]
    rw [h2.1 j i a3 a4 a1 a2]
    exact (velocity_transpose c.ny c.nx _ _ 0 (s b.psi) i j).2

theorem C14_post_solve_mirror_x_2d (c : NS2Cfg K) (hny : 1 ≤ c.ny) (hnx : 1 ≤ c.nx) (b : NS2Bufs B) (hd : DistinctPost b)
    (s s' : Store2 B K) (hψ : s' b.psi = ng (mx c.nx (s b.psi))) :
    EqBox c.ny c.nx (exec2 (post (cfgMx c) b) s' b.vel.x) (ng (mx c.nx (exec2 (post c b) s b.vel.x))) ∧
    EqBox c.ny c.nx (exec2 (post (cfgMx c) b) s' b.vel.y) (mx c.nx (exec2 (post c b) s b.vel.y)) := by
  have h1 := post_eq_spec (cfgMx c) hny hnx b hd s'
  have h2 := post_eq_spec c hny hnx b hd s
  rw [hψ] at h1
  constructor
  · intro i j a1 a2 a3 a4
    rw [h1.1 i j a1 a2 a3 a4]
    simp only [ng, mx]
    rw [h2.1 i (c.nx - 1 - j) a1 a2 (by omega) (by omega)]
    have hU : (if (cfgMx c).freeStream then (cfgMx c).ux else 0) = -(if c.freeStream then c.ux else 0) := by
      show (if c.freeStream then -c.ux else 0) = _
      split_ifs <;> simp
    rw [hU]
    exact (velocity_mirror_x c.ny c.nx ((1 / 2 : K) / c.dx) (if c.freeStream then c.ux else 0) 0 (s b.psi) i j).1
  · intro i j a1 a2 a3 a4
    rw [h1.2 i j a1 a2 a3 a4]
    simp only [mx]
    rw [h2.2 i (c.nx - 1 - j) a1 a2 (by omega) (by omega)]
    exact (velocity_mirror_x c.ny c.nx _ 0 _ (s b.psi) i j).2

theorem C14_post_solve_mirror_y_2d (c : NS2Cfg K) (hny : 1 ≤ c.ny) (hnx : 1 ≤ c.nx) (b : NS2Bufs B) (hd : DistinctPost b)
    (s s' : Store2 B K) (hψ : s' b.psi = ng (my c.ny (s b.psi))) :
    EqBox c.ny c.nx (exec2 (post (cfgMy c) b) s' b.vel.x) (my c.ny (exec2 (post c b) s b.vel.x)) ∧
    EqBox c.ny c.nx (exec2 (post (cfgMy c) b) s' b.vel.y) (ng (my c.ny (exec2 (post c b) s b.vel.y))) := by
  have h1 := post_eq_spec (cfgMy c) hny hnx b hd s'
  have h2 := post_eq_spec c hny hnx b hd s
  rw [hψ] at h1
  constructor
  · intro i j a1 a2 a3 a4
    rw [h1.1 i j a1 a2 a3 a4]
    simp only [my]
    rw [h2.1 (c.ny - 1 - i) j (by omega) (by omega) a3 a4]
    exact (velocity_mirror_y c.ny c.nx _ _ 0 (s b.psi) i j).1
  · intro i j a1 a2 a3 a4
    rw [h1.2 i j a1 a2 a3 a4]
    simp only [ng, my]
    rw [h2.2 (c.ny - 1 - i) j (by omega) (by omega) a3 a4]
    have hU : (if (cfgMy c).freeStream then (cfgMy c).uy else 0) = -(if c.freeStream then c.uy else 0) := by
      show (if c.freeStream then -c.uy else 0) = _
      split_ifs <;> simp
    rw [hU]
    exact (velocity_mirror_y c.ny c.nx ((1 / 2 : K) / c.dx) 0 (if c.freeStream then c.uy else 0) (s b.psi) i j).2

end Programs

/-! ### the Poisson solve (free-space convolution, C03) -/

section Poisson
open Finset Sopht.Props.C03
variable {F : Type} [Field F]

theorem adiff_reflect (n j q : ℕ) (hj : j < n) (hq : q < n) :
    (if n - 1 - q ≤ n - 1 - j then n - 1 - j - (n - 1 - q) else n - 1 - q - (n - 1 - j)) = (if q ≤ j then j - q else q - j) := by
  split_ifs <;> omega

/-- transposition: with an isotropic table (`G' a b = G b a`: the table of the transposed grid is the transposed
table) the solve on the `nx × ny` grid of the transposed right-hand side is the transpose of the solve -/
theorem C14_poisson_transpose_2d (ny nx : ℕ) (vol : F) (G G' : ℕ → ℕ → F) (hG : ∀ a b, G' a b = G b a)
    (f : ℕ → ℕ → F) (i j : ℕ) (hi : i < nx) (hj : j < ny) :
    solve2 nx ny vol G' (fun p q => f q p) i j = solve2 ny nx vol G f j i := by
  rw [C03_solve_eq_free_convolution_2d _ _ _ _ _ _ _ hi hj, C03_solve_eq_free_convolution_2d _ _ _ _ _ _ _ hj hi]
  unfold freeConv2
  rw [Finset.sum_comm]
  simp only [hG]

/-- mirror in x -/
theorem C14_poisson_mirror_x_2d (ny nx : ℕ) (vol : F) (G : ℕ → ℕ → F)
    (f : ℕ → ℕ → F) (i j : ℕ) (hi : i < ny) (hj : j < nx) :
    solve2 ny nx vol G (fun p q => f p (nx - 1 - q)) i j = solve2 ny nx vol G f i (nx - 1 - j) := by
  rw [C03_solve_eq_free_convolution_2d _ _ _ _ _ _ _ hi hj, C03_solve_eq_free_convolution_2d _ _ _ _ _ _ _ hi (by omega)]
  unfold freeConv2
  congr 1
  apply Finset.sum_congr rfl
  intro p _
  rw [← Finset.sum_range_reflect (fun q => G (if p ≤ i then i - p else p - i)
        (if q ≤ nx - 1 - j then nx - 1 - j - q else q - (nx - 1 - j)) * f p q) nx]
  apply Finset.sum_congr rfl
  intro q hq
  simp only [mem_range] at hq
  rw [adiff_reflect nx j q hj hq]

/-- mirror in y -/
theorem C14_poisson_mirror_y_2d (ny nx : ℕ) (vol : F) (G : ℕ → ℕ → F)
    (f : ℕ → ℕ → F) (i j : ℕ) (hi : i < ny) (hj : j < nx) :
    solve2 ny nx vol G (fun p q => f (ny - 1 - p) q) i j = solve2 ny nx vol G f (ny - 1 - i) j := by
  rw [C03_solve_eq_free_convolution_2d _ _ _ _ _ _ _ hi hj, C03_solve_eq_free_convolution_2d _ _ _ _ _ _ _ (by omega) hj]
  unfold freeConv2
  congr 1
  rw [← Finset.sum_range_reflect (fun p => ∑ q ∈ range nx, G (if p ≤ ny - 1 - i then ny - 1 - i - p else p - (ny - 1 - i))
        (if q ≤ j then j - q else q - j) * f p q) ny]
  apply Finset.sum_congr rfl
  intro p hp
  simp only [mem_range] at hp
  rw [adiff_reflect ny i p hi hp]

/-- the solve is odd: pseudo-scalar sign changes pass through -/
theorem C14_poisson_neg_2d (ny nx : ℕ) (vol : F) (G : ℕ → ℕ → F) (f : ℕ → ℕ → F) (i j : ℕ) (hi : i < ny) (hj : j < nx) :
    solve2 ny nx vol G (fun p q => -f p q) i j = -solve2 ny nx vol G f i j := by
  rw [C03_solve_eq_free_convolution_2d _ _ _ _ _ _ _ hi hj, C03_solve_eq_free_convolution_2d _ _ _ _ _ _ _ hi hj]
  unfold freeConv2
  simp only [mul_neg, Finset.sum_neg_distrib]

theorem adiff_reflect' (n j q : ℕ) (hj : j < n) (hq : q < n) : adiff (n - 1 - j) (n - 1 - q) = adiff j q := by
  unfold adiff; split_ifs <;> omega

/-- 3D, exchanging the last two axes (x ↔ y); `G'` is the table of the relabelled grid -/
theorem C14_poisson_swap_xy_3d (nz ny nx : ℕ) (vol : F) (G G' : ℕ → ℕ → ℕ → F) (hG : ∀ a b c, G' a b c = G a c b)
    (f : ℕ → ℕ → ℕ → F) (h i j : ℕ) (hh : h < nz) (hi : i < nx) (hj : j < ny) :
    solve3 nz nx ny vol G' (fun o p q => f o q p) h i j = solve3 nz ny nx vol G f h j i := by
  rw [C03_solve_eq_free_convolution_3d _ _ _ _ _ _ _ _ _ hh hi hj, C03_solve_eq_free_convolution_3d _ _ _ _ _ _ _ _ _ hh hj hi]
  unfold freeConv3
  congr 1
  apply Finset.sum_congr rfl
  intro o _
  rw [Finset.sum_comm]
  simp only [hG]

/-- 3D, exchanging the first two axes (y ↔ z) -/
theorem C14_poisson_swap_yz_3d (nz ny nx : ℕ) (vol : F) (G G' : ℕ → ℕ → ℕ → F) (hG : ∀ a b c, G' a b c = G b a c)
    (f : ℕ → ℕ → ℕ → F) (h i j : ℕ) (hh : h < ny) (hi : i < nz) (hj : j < nx) :
    solve3 ny nz nx vol G' (fun o p q => f p o q) h i j = solve3 nz ny nx vol G f i h j := by
  rw [C03_solve_eq_free_convolution_3d _ _ _ _ _ _ _ _ _ hh hi hj, C03_solve_eq_free_convolution_3d _ _ _ _ _ _ _ _ _ hi hh hj]
  unfold freeConv3
  congr 1
  rw [Finset.sum_comm]
  simp only [hG]

/-- 3D mirrors -/
theorem C14_poisson_mirror_x_3d (nz ny nx : ℕ) (vol : F) (G : ℕ → ℕ → ℕ → F)
    (f : ℕ → ℕ → ℕ → F) (h i j : ℕ) (hh : h < nz) (hi : i < ny) (hj : j < nx) :
    solve3 nz ny nx vol G (fun o p q => f o p (nx - 1 - q)) h i j = solve3 nz ny nx vol G f h i (nx - 1 - j) := by
  rw [C03_solve_eq_free_convolution_3d _ _ _ _ _ _ _ _ _ hh hi hj, C03_solve_eq_free_convolution_3d _ _ _ _ _ _ _ _ _ hh hi (by omega)]
  unfold freeConv3
  congr 1
  apply Finset.sum_congr rfl; intro o _
  apply Finset.sum_congr rfl; intro p _
  rw [← Finset.sum_range_reflect (fun q => G (adiff h o) (adiff i p) (adiff (nx - 1 - j) q) * f o p q) nx]
  apply Finset.sum_congr rfl
  intro q hq
  simp only [mem_range] at hq
  rw [adiff_reflect' nx j q hj hq]

theorem C14_poisson_mirror_y_3d (nz ny nx : ℕ) (vol : F) (G : ℕ → ℕ → ℕ → F)
    (f : ℕ → ℕ → ℕ → F) (h i j : ℕ) (hh : h < nz) (hi : i < ny) (hj : j < nx) :
    solve3 nz ny nx vol G (fun o p q => f o (ny - 1 - p) q) h i j = solve3 nz ny nx vol G f h (ny - 1 - i) j := by
  rw [C03_solve_eq_free_convolution_3d _ _ _ _ _ _ _ _ _ hh hi hj, C03_solve_eq_free_convolution_3d _ _ _ _ _ _ _ _ _ hh (by omega) hj]
  unfold freeConv3
  congr 1
  apply Finset.sum_congr rfl; intro o _
  rw [← Finset.sum_range_reflect (fun p => ∑ q ∈ range nx, G (adiff h o) (adiff (ny - 1 - i) p) (adiff j q) * f o p q) ny]
  apply Finset.sum_congr rfl
  intro p hp
  simp only [mem_range] at hp
  rw [adiff_reflect' ny i p hi hp]

theorem C14_poisson_mirror_z_3d (nz ny nx : ℕ) (vol : F) (G : ℕ → ℕ → ℕ → F)
    (f : ℕ → ℕ → ℕ → F) (h i j : ℕ) (hh : h < nz) (hi : i < ny) (hj : j < nx) :
    solve3 nz ny nx vol G (fun o p q => f (nz - 1 - o) p q) h i j = solve3 nz ny nx vol G f (nz - 1 - h) i j := by
  rw [C03_solve_eq_free_convolution_3d _ _ _ _ _ _ _ _ _ hh hi hj, C03_solve_eq_free_convolution_3d _ _ _ _ _ _ _ _ _ (by omega) hi hj]
  unfold freeConv3
  congr 1
  rw [← Finset.sum_range_reflect (fun o => ∑ p ∈ range ny, ∑ q ∈ range nx, G (adiff (nz - 1 - h) o) (adiff i p) (adiff j q) * f o p q) nz]
  apply Finset.sum_congr rfl
  intro o ho
  simp only [mem_range] at ho
  rw [adiff_reflect' nz h o hh ho]

end Poisson

/-! ### 3D: the generated per-axis kernels are relabellings of each other

Array index (i, j, k) = (z, y, x).  `cyc` relabels the axes cyclically (x' = y, y' = z, z' = x): a scalar field
becomes `cyc f`, a vector `(v_x, v_y, v_z)` becomes `(cyc v_y, cyc v_z, cyc v_x)` (a rotation: pseudo-vectors
transform the same way).  Together with the mirror this generates the grid symmetry group. -/

section K3

def cyc (f : F3 K) : F3 K := fun i j k => f j k i
def m3 (nx : ℤ) (f : F3 K) : F3 K := fun i j k => f i j (nx - 1 - k)
def ng3 (f : F3 K) : F3 K := fun i j k => -f i j k
theorem cyc_apply (f : F3 K) (i j k : ℤ) : cyc f i j k = f j k i := rfl

theorem C14_advection_front_cyc (p : K) (fl f vx vy vz : F3 K) :
    advection_flux_x_front_conservative_eno3_stencil_3d p (cyc fl) (cyc f) (cyc vy)
      = cyc (advection_flux_y_front_conservative_eno3_stencil_3d p fl f vy) ∧
    advection_flux_y_front_conservative_eno3_stencil_3d p (cyc fl) (cyc f) (cyc vz)
      = cyc (advection_flux_z_front_conservative_eno3_stencil_3d p fl f vz) ∧
    advection_flux_z_front_conservative_eno3_stencil_3d p (cyc fl) (cyc f) (cyc vx)
      = cyc (advection_flux_x_front_conservative_eno3_stencil_3d p fl f vx) := by
  refine ⟨?_, ?_, ?_⟩ <;> first | rfl | (
    funext i j k
    conv_rhs => rw [cyc_apply]
    simp only [advection_flux_x_front_conservative_eno3_stencil_3d, advection_flux_y_front_conservative_eno3_stencil_3d,
      advection_flux_z_front_conservative_eno3_stencil_3d]
    split_ifs <;> simp only [cyc_apply] at * <;> first | rfl | ring1 | (exfalso; linarith))

theorem C14_advection_back_cyc (p : K) (fl f vx vy vz : F3 K) :
    advection_flux_x_back_conservative_eno3_stencil_3d p (cyc fl) (cyc f) (cyc vy)
      = cyc (advection_flux_y_back_conservative_eno3_stencil_3d p fl f vy) ∧
    advection_flux_y_back_conservative_eno3_stencil_3d p (cyc fl) (cyc f) (cyc vz)
      = cyc (advection_flux_z_back_conservative_eno3_stencil_3d p fl f vz) ∧
    advection_flux_z_back_conservative_eno3_stencil_3d p (cyc fl) (cyc f) (cyc vx)
      = cyc (advection_flux_x_back_conservative_eno3_stencil_3d p fl f vx) := by
  refine ⟨?_, ?_, ?_⟩ <;> first | rfl | (
    funext i j k
    conv_rhs => rw [cyc_apply]
    simp only [advection_flux_x_back_conservative_eno3_stencil_3d, advection_flux_y_back_conservative_eno3_stencil_3d,
      advection_flux_z_back_conservative_eno3_stencil_3d]
    split_ifs <;> simp only [cyc_apply] at * <;> first | rfl | ring1 | (exfalso; linarith))

theorem C14_curl_cyc (p : K) (vx vy vz : F3 K) :
    curl_x_comp_stencil_3d p (cyc vz) (cyc vx) = cyc (curl_y_comp_stencil_3d p vx vz) ∧
    curl_y_comp_stencil_3d p (cyc vy) (cyc vx) = cyc (curl_z_comp_stencil_3d p vx vy) ∧
    curl_z_comp_stencil_3d p (cyc vy) (cyc vz) = cyc (curl_x_comp_stencil_3d p vy vz) := by
  refine ⟨?_, ?_, ?_⟩ <;>
  · funext i j k
    simp only [curl_x_comp_stencil_3d, curl_y_comp_stencil_3d, curl_z_comp_stencil_3d, cyc]
    try ring

theorem C14_forcing_update_cyc (p : K) (Fx Fy Fz wx wy wz : F3 K) :
    update_vorticity_from_velocity_forcing_x_comp_stencil_3d p (cyc Fz) (cyc Fx) (cyc wy)
      = cyc (update_vorticity_from_velocity_forcing_y_comp_stencil_3d p Fx Fz wy) ∧
    update_vorticity_from_velocity_forcing_y_comp_stencil_3d p (cyc Fy) (cyc Fx) (cyc wz)
      = cyc (update_vorticity_from_velocity_forcing_z_comp_stencil_3d p Fx Fy wz) ∧
    update_vorticity_from_velocity_forcing_z_comp_stencil_3d p (cyc Fy) (cyc Fz) (cyc wx)
      = cyc (update_vorticity_from_velocity_forcing_x_comp_stencil_3d p Fy Fz wx) := by
  refine ⟨?_, ?_, ?_⟩ <;>
  · funext i j k
    simp only [update_vorticity_from_velocity_forcing_x_comp_stencil_3d, update_vorticity_from_velocity_forcing_y_comp_stencil_3d,
      update_vorticity_from_velocity_forcing_z_comp_stencil_3d, cyc]
    try ring

theorem C14_penalised_update_cyc (p : K) (Px Py Pz vx vy vz wx wy wz : F3 K) :
    update_vorticity_from_penalised_velocity_x_comp_stencil_3d p (cyc Pz) (cyc Px) (cyc vz) (cyc vx) (cyc wy)
      = cyc (update_vorticity_from_penalised_velocity_y_comp_stencil_3d p Px Pz vx vz wy) ∧
    update_vorticity_from_penalised_velocity_y_comp_stencil_3d p (cyc Py) (cyc Px) (cyc vy) (cyc vx) (cyc wz)
      = cyc (update_vorticity_from_penalised_velocity_z_comp_stencil_3d p Px Py vx vy wz) ∧
    update_vorticity_from_penalised_velocity_z_comp_stencil_3d p (cyc Py) (cyc Pz) (cyc vy) (cyc vz) (cyc wx)
      = cyc (update_vorticity_from_penalised_velocity_x_comp_stencil_3d p Py Pz vy vz wx) := by
  refine ⟨?_, ?_, ?_⟩ <;>
  · funext i j k
    simp only [update_vorticity_from_penalised_velocity_x_comp_stencil_3d, update_vorticity_from_penalised_velocity_y_comp_stencil_3d,
      update_vorticity_from_penalised_velocity_z_comp_stencil_3d, cyc]
    try ring

theorem C14_filter_cyc (f : F3 K) :
    laplacian_filter_3d_x (cyc f) = cyc (laplacian_filter_3d_y f) ∧
    laplacian_filter_3d_y (cyc f) = cyc (laplacian_filter_3d_z f) ∧
    laplacian_filter_3d_z (cyc f) = cyc (laplacian_filter_3d_x f) := by
  refine ⟨?_, ?_, ?_⟩ <;>
  · funext i j k
    simp only [laplacian_filter_3d_x, laplacian_filter_3d_y, laplacian_filter_3d_z, cyc]
    try ring

theorem C14_isotropic_kernels_cyc (p : K) (f u vx vy vz wx wy wz : F3 K) :
    diffusion_stencil_3d p (cyc f) = cyc (diffusion_stencil_3d p f) ∧
    divergence_stencil_3d p (cyc vy) (cyc vz) (cyc vx) = cyc (divergence_stencil_3d p vx vy vz) ∧
    vorticity_stretching_flux_single_comp_stencil_3d p (cyc u) (cyc wy) (cyc wz) (cyc wx)
      = cyc (vorticity_stretching_flux_single_comp_stencil_3d p u wx wy wz) := by
  refine ⟨?_, ?_, ?_⟩ <;>
  · funext i j k
    simp only [diffusion_stencil_3d, divergence_stencil_3d, vorticity_stretching_flux_single_comp_stencil_3d, cyc]
    try ring

/-- mirror in x: the +x-face kernel of the mirrored state is the −x-face kernel of the original (the advected
component `f` may be even or odd — the kernels are linear in it — here even), needs a non-zero face sum -/
theorem C14_advection_x_mirror (nx : ℤ) (p : K) (fl f v : F3 K) (i j k : ℤ)
    (hne : v i j (nx - 1 - k - 1) + v i j (nx - 1 - k) ≠ 0) :
    advection_flux_x_front_conservative_eno3_stencil_3d p (m3 nx fl) (m3 nx f) (ng3 (m3 nx v)) i j k
      = advection_flux_x_back_conservative_eno3_stencil_3d p fl f v i j (nx - 1 - k) := by
  simp only [advection_flux_x_front_conservative_eno3_stencil_3d, advection_flux_x_back_conservative_eno3_stencil_3d, m3, ng3]
  have e1 : nx - 1 - (k + 1) = nx - 1 - k - 1 := by ring
  have e2 : nx - 1 - (k - 1) = nx - 1 - k + 1 := by ring
  have e3 : nx - 1 - (k + 2) = nx - 1 - k - 2 := by ring
  simp only [e1, e2, e3]
  rcases lt_or_gt_of_ne hne with h | h
  · rw [if_pos (by linarith), if_neg (by linarith)]; ring
  · rw [if_neg (by linarith), if_pos (by linarith)]; ring

theorem C14_advection_yz_mirror (nx : ℤ) (p : K) (fl f v : F3 K) :
    advection_flux_y_front_conservative_eno3_stencil_3d p (m3 nx fl) (m3 nx f) (m3 nx v)
      = m3 nx (advection_flux_y_front_conservative_eno3_stencil_3d p fl f v) ∧
    advection_flux_y_back_conservative_eno3_stencil_3d p (m3 nx fl) (m3 nx f) (m3 nx v)
      = m3 nx (advection_flux_y_back_conservative_eno3_stencil_3d p fl f v) ∧
    advection_flux_z_front_conservative_eno3_stencil_3d p (m3 nx fl) (m3 nx f) (m3 nx v)
      = m3 nx (advection_flux_z_front_conservative_eno3_stencil_3d p fl f v) ∧
    advection_flux_z_back_conservative_eno3_stencil_3d p (m3 nx fl) (m3 nx f) (m3 nx v)
      = m3 nx (advection_flux_z_back_conservative_eno3_stencil_3d p fl f v) := by
  refine ⟨?_, ?_, ?_, ?_⟩ <;> rfl

/-- mirror in x: the curl of a vector `(−M v_x, M v_y, M v_z)` is the pseudo-vector `(M c_x, −M c_y, −M c_z)` -/
theorem C14_curl_mirror (nx : ℤ) (p : K) (vx vy vz : F3 K) :
    curl_x_comp_stencil_3d p (m3 nx vy) (m3 nx vz) = m3 nx (curl_x_comp_stencil_3d p vy vz) ∧
    curl_y_comp_stencil_3d p (ng3 (m3 nx vx)) (m3 nx vz) = ng3 (m3 nx (curl_y_comp_stencil_3d p vx vz)) ∧
    curl_z_comp_stencil_3d p (ng3 (m3 nx vx)) (m3 nx vy) = ng3 (m3 nx (curl_z_comp_stencil_3d p vx vy)) := by
  have e1 : ∀ k, nx - 1 - (k + 1) = nx - 1 - k - 1 := fun k => by ring
  have e2 : ∀ k, nx - 1 - (k - 1) = nx - 1 - k + 1 := fun k => by ring
  refine ⟨?_, ?_, ?_⟩ <;>
  · funext i j k
    simp only [curl_x_comp_stencil_3d, curl_y_comp_stencil_3d, curl_z_comp_stencil_3d, m3, ng3, e1, e2]
    try ring

end K3

end Sopht.Props.C14
