/-
C14 (3D, vorticity filter) — under the property's proviso (the field vanishes within the reach of the filter from the
boundary: `3·order + 1` cells), the multiplicative Laplacian filter operator `f ↦ f − (P_z P_y P_x)^order f` commutes with
the cyclic relabelling of the axes.  On such fields the ring-zeroed passes are the pure 1D stencils, which commute with
each other, so the order in which the relabelled program visits the axes does not matter.
-/
import SophtVerif.Props.C19Filter
import SophtVerif.Props.C14_3D
import SophtVerif.Props.C04Sum3D

set_option linter.unusedVariables false
set_option linter.unusedSectionVars false

namespace Sopht.Props.C14
open Sopht Sopht.Gen Sopht.Model Sopht.Spec Sopht.Props.C13 Sopht.Props.C19 Sopht.Props.C04

variable {K : Type} [Field K] [LinearOrder K] [IsStrictOrderedRing K]

/-- on a field that vanishes within 2 cells of the boundary (and outside the grid) a ring-zeroed pass is the pure stencil -/
theorem passOp_eq_filt (nz ny nx : ℕ) (ax : ℕ) (b : F3 K) (hb : Margin3 nz ny nx 2 b) : passOp nz ny nx ax b = filt ax b := by
  funext i j k
  simp only [passOp]
  split_ifs with hin
  · rfl
  · simp only [inner3] at hin
    rcases ax with _ | _ | ax <;>
      simp only [filt, laplacian_filter_3d_x, laplacian_filter_3d_y, laplacian_filter_3d_z]
    · rw [hb i j k (by omega), hb i j (k - 1) (by omega), hb i j (k + 1) (by omega)]; ring
    · rw [hb i j k (by omega), hb i (j - 1) k (by omega), hb i (j + 1) k (by omega)]; ring
    · rw [hb i j k (by omega), hb (i - 1) j k (by omega), hb (i + 1) j k (by omega)]; ring

theorem filt_margin (nz ny nx : ℕ) (m : ℤ) (ax : ℕ) (b : F3 K) (hb : Margin3 nz ny nx (m + 1) b) : Margin3 nz ny nx m (filt ax b) := by
  intro i j k hout
  rcases ax with _ | _ | ax <;>
    simp only [filt, laplacian_filter_3d_x, laplacian_filter_3d_y, laplacian_filter_3d_z]
  · rw [hb i j k (by omega), hb i j (k - 1) (by omega), hb i j (k + 1) (by omega)]; ring
  · rw [hb i j k (by omega), hb i (j - 1) k (by omega), hb i (j + 1) k (by omega)]; ring
  · rw [hb i j k (by omega), hb (i - 1) j k (by omega), hb (i + 1) j k (by omega)]; ring

/-- the pure stencils of different axes commute -/
theorem filt_comm (a a' : ℕ) (b : F3 K) : filt a (filt a' b) = filt a' (filt a b) := by
  funext i j k
  rcases a with _ | _ | a <;> rcases a' with _ | _ | a' <;>
    simp only [filt, laplacian_filter_3d_x, laplacian_filter_3d_y, laplacian_filter_3d_z] <;> ring

/-- one round (x, y, z) of ring-zeroed passes on a field with margin ≥ 4 is the product of the three pure stencils -/
theorem round_eq (nz ny nx : ℕ) (m : ℤ) (hm : 1 ≤ m) (b : F3 K) (hb : Margin3 nz ny nx (m + 3) b) :
    opOf nz ny nx [0, 1, 2] b = filt 2 (filt 1 (filt 0 b)) ∧ Margin3 nz ny nx m (opOf nz ny nx [0, 1, 2] b) := by
  have m0 : Margin3 nz ny nx 2 b := hb.mono (by omega)
  have h1 : Margin3 nz ny nx (m + 2) (filt 0 b) := filt_margin nz ny nx (m + 2) 0 b (by have := hb; simpa [add_assoc] using this)
  have h2 : Margin3 nz ny nx (m + 1) (filt 1 (filt 0 b)) := filt_margin nz ny nx (m + 1) 1 _ (by simpa [add_assoc] using h1)
  have h3 : Margin3 nz ny nx m (filt 2 (filt 1 (filt 0 b))) := filt_margin nz ny nx m 2 _ h2
  have e : opOf nz ny nx [0, 1, 2] b = filt 2 (filt 1 (filt 0 b)) := by
    simp only [opOf, List.foldl]
    rw [passOp_eq_filt nz ny nx 0 b m0, passOp_eq_filt nz ny nx 1 _ (h1.mono (by omega)), passOp_eq_filt nz ny nx 2 _ (h2.mono (by omega))]
  exact ⟨e, e ▸ h3⟩

/-- the same round visited in the order (y, z, x) — the order in which the cyclically relabelled program visits the
old axes — gives the same field -/
theorem round_eq_rot (nz ny nx : ℕ) (m : ℤ) (hm : 1 ≤ m) (b : F3 K) (hb : Margin3 nz ny nx (m + 3) b) :
    opOf nz ny nx [1, 2, 0] b = opOf nz ny nx [0, 1, 2] b := by
  have m0 : Margin3 nz ny nx 2 b := hb.mono (by omega)
  have h1 : Margin3 nz ny nx (m + 2) (filt 1 b) := filt_margin nz ny nx (m + 2) 1 b (by have := hb; simpa [add_assoc] using this)
  have h2 : Margin3 nz ny nx (m + 1) (filt 2 (filt 1 b)) := filt_margin nz ny nx (m + 1) 2 _ (by simpa [add_assoc] using h1)
  rw [(round_eq nz ny nx m hm b hb).1]
  simp only [opOf, List.foldl]
  rw [passOp_eq_filt nz ny nx 1 b m0, passOp_eq_filt nz ny nx 2 _ (h1.mono (by omega)), passOp_eq_filt nz ny nx 0 _ (h2.mono (by omega))]
  rw [filt_comm 0 2, filt_comm 0 1 b]

theorem opOf_append (nz ny nx : ℤ) (l1 l2 : List ℕ) (b : F3 K) : opOf nz ny nx (l1 ++ l2) b = opOf nz ny nx l2 (opOf nz ny nx l1 b) := by
  simp [opOf, List.foldl_append]

/-- the axes visited by `n` rounds in the rotated order (y, z, x) -/
def rotAxes (n : ℕ) : List ℕ := (List.replicate n [1, 2, 0]).flatten

/-- `n` rounds: on a field that vanishes within `3n + 1` cells of the boundary the visiting order does not matter -/
theorem rounds_order_free (nz ny nx : ℕ) (n : ℕ) (b : F3 K) (hb : Margin3 nz ny nx (3 * (n : ℤ) + 1) b) :
    opOf nz ny nx (rotAxes n) b = opOf nz ny nx (mulAxes n) b := by
  induction n generalizing b with
  | zero => rfl
  | succ n ih =>
    have hb' : Margin3 nz ny nx ((3 * (n : ℤ) + 1) + 3) b := by
      have : (3 * ((n + 1 : ℕ) : ℤ) + 1) = (3 * (n : ℤ) + 1) + 3 := by push_cast; ring
      rw [this] at hb; exact hb
    have e1 : rotAxes (n + 1) = [1, 2, 0] ++ rotAxes n := by simp [rotAxes, List.replicate_succ]
    have e2 : mulAxes (n + 1) = [0, 1, 2] ++ mulAxes n := by simp [mulAxes, List.replicate_succ]
    rw [e1, e2, opOf_append, opOf_append, round_eq_rot nz ny nx (3 * (n : ℤ) + 1) (by omega) b hb']
    exact ih _ (round_eq nz ny nx (3 * (n : ℤ) + 1) (by omega) b hb').2

/-! ### relabelling -/

/-- axis visited in the old labels when the relabelled program visits axis `ax` (x' = y, y' = z, z' = x) -/
def oldAxis (ax : ℕ) : ℕ := match ax with | 0 => 1 | 1 => 2 | _ => 0

theorem passOp_cyc (nz ny nx : ℤ) (ax : ℕ) (b : F3 K) :
    passOp nx nz ny ax (cyc b) = cyc (passOp nz ny nx (oldAxis ax) b) := by
  funext i j k
  simp only [passOp, cyc, inner3]
  rcases ax with _ | _ | ax <;>
    simp only [oldAxis, filt, laplacian_filter_3d_x, laplacian_filter_3d_y, laplacian_filter_3d_z, cyc] <;>
    split_ifs <;> first | rfl | ring1 | (exfalso; omega)

theorem opOf_cyc (nz ny nx : ℤ) (l : List ℕ) (b : F3 K) :
    opOf nx nz ny l (cyc b) = cyc (opOf nz ny nx (l.map oldAxis) b) := by
  induction l generalizing b with
  | nil => rfl
  | cons a t ih =>
    simp only [opOf, List.foldl, List.map] at ih ⊢
    rw [passOp_cyc, ih]

theorem mulAxes_map (n : ℕ) : (mulAxes n).map oldAxis = rotAxes n := by
  induction n with
  | zero => rfl
  | succ n ih =>
    have e1 : rotAxes (n + 1) = [1, 2, 0] ++ rotAxes n := by simp [rotAxes, List.replicate_succ]
    have e2 : mulAxes (n + 1) = [0, 1, 2] ++ mulAxes n := by simp [mulAxes, List.replicate_succ]
    rw [e1, e2, List.map_append, ih]
    rfl

/-- C14 (3D multiplicative Laplacian filter, every order): on fields that vanish within `3·order + 1` cells of the
boundary the filter operator commutes with the cyclic relabelling of the axes (non-cubic grids: extents `(nx, nz, ny)`) -/
theorem C14_filter_cyclic (nz ny nx : ℕ) (order : ℕ) (f : F3 K) (hf : Margin3 nz ny nx (3 * (order : ℤ) + 1) f) :
    filterOp false order nx nz ny (cyc f) = cyc (filterOp false order nz ny nx f) := by
  funext i j k
  simp only [filterOp, Bool.false_eq_true, if_false]
  rw [opOf_cyc, mulAxes_map, rounds_order_free nz ny nx order f hf]
  rfl

end Sopht.Props.C14
