/-
C14 (3D, whole step at program level) — pre-solve program, Poisson solve of each vorticity component, post-solve
program (velocity recovery + free stream): the composition commutes with the cyclic relabelling of the axes.

* `velocity3_congr`, `C14_post_solve_cyclic_3d`, `C14_post_solve_mirror_x_3d`: the post-solve PROGRAM
  (`Model.nsStep3DPost`) on the relabelled stream function gives the relabelled velocity (free stream relabelled too).
* `solveZ`: the free-space solve of `Model/Poisson` (C03) applied to a ℤ-indexed field of the program layer;
  `solveZ_congr` (it reads its right-hand side inside the box only), `C14_poisson_cyclic_3d` (isotropic table).
* `step3`, `C14_step_cyclic_3d`: the whole step.  Filter off, boundary-zone width 0 (as `C01_pre_solve_3d`); any grid
  size (non-cubic), dt, viscosity, density, forcing on/off, free stream on/off, any store.
-/
import SophtVerif.Props.C14_3D
import SophtVerif.Props.C03

set_option linter.unusedVariables false
set_option linter.unusedSectionVars false

namespace Sopht.Props.C14
open Sopht Sopht.Gen Sopht.Model Sopht.Spec Sopht.Props.C13 Sopht.Props.C01 Sopht.Props.C03 Finset

variable {K : Type} [Field K] [LinearOrder K] [IsStrictOrderedRing K]

/-! ### velocity recovery -/

theorem velocity3_congr (nz ny nx : ℤ) (p Ux Uy Uz : K) (psi psi' : V3F K) (h : EqV nz ny nx psi psi') :
    EqV nz ny nx (velocity3 nz ny nx p Ux Uy Uz psi) (velocity3 nz ny nx p Ux Uy Uz psi') := by
  obtain ⟨fx, fy, fz⟩ := h
  refine ⟨?_, ?_, ?_⟩ <;> intro i j k hb <;> simp only [velocity3, curl3h, innerB, inB] at hb ⊢
  · split_ifs with hin
    · rw [fz i (j+1) k (by simp only [inB]; omega), fz i (j-1) k (by simp only [inB]; omega),
        fy (i+1) j k (by simp only [inB]; omega), fy (i-1) j k (by simp only [inB]; omega)]
    · rfl
  · split_ifs with hin
    · rw [fx (i+1) j k (by simp only [inB]; omega), fx (i-1) j k (by simp only [inB]; omega),
        fz i j (k+1) (by simp only [inB]; omega), fz i j (k-1) (by simp only [inB]; omega)]
    · rfl
  · split_ifs with hin
    · rw [fy i j (k+1) (by simp only [inB]; omega), fy i j (k-1) (by simp only [inB]; omega),
        fx i (j+1) k (by simp only [inB]; omega), fx i (j-1) k (by simp only [inB]; omega)]
    · rfl

theorem EqV_cycV {nz ny nx : ℤ} {a b : V3F K} (h : EqV nz ny nx a b) : EqV nx nz ny (cycV a) (cycV b) := by
  obtain ⟨hx, hy, hz⟩ := h
  refine ⟨?_, ?_, ?_⟩ <;> intro i j k hb <;> simp only [cycV, cyc, inB] at hb ⊢
  · exact hy j k i (by simp only [inB]; omega)
  · exact hz j k i (by simp only [inB]; omega)
  · exact hx j k i (by simp only [inB]; omega)

/-- the relabelled configuration: extents and free stream both relabelled (x' = y, y' = z, z' = x) -/
def cfgCycU (c : NS3Cfg K) : NS3Cfg K := { cfgCyc c with ux := c.uy, uy := c.uz, uz := c.ux }

section Program
variable {B : Type} [DecidableEq B]

/-- C14 (3D, cyclic relabelling, post-solve PROGRAM): velocity recovery and free stream on the relabelled stream
function give the relabelled velocity on the whole (relabelled) grid -/
theorem C14_post_solve_cyclic_3d (c : NS3Cfg K) (hnz : 1 ≤ c.nz) (hny : 1 ≤ c.ny) (hnx : 1 ≤ c.nx) (b : NS3Bufs B)
    (hvp : Distinct33 b.vel b.psi) (hFv : Distinct33 b.force b.vel) (s s' : Store3 B K)
    (hψ : EqV c.nx c.nz c.ny (vecOf s' b.psi) (cycV (vecOf s b.psi))) :
    EqV c.nx c.nz c.ny (vecOf (exec3 (nsStep3DPost (cfgCycU c) b) s') b.vel)
      (cycV (vecOf (exec3 (nsStep3DPost c b) s) b.vel)) := by
  have h1 := (C01_post_solve_3d (cfgCycU c) hnx hnz hny b hvp hFv s').1
  have h2 := (C01_post_solve_3d c hnz hny hnx b hvp hFv s).1
  refine h1.trans' ?_
  have e : velocity3 (cfgCycU c).nz (cfgCycU c).ny (cfgCycU c).nx ((1 / 2 : K) / (cfgCycU c).dx)
      (if (cfgCycU c).freeStream then (cfgCycU c).ux else 0) (if (cfgCycU c).freeStream then (cfgCycU c).uy else 0)
      (if (cfgCycU c).freeStream then (cfgCycU c).uz else 0) (cycV (vecOf s b.psi))
      = cycV (velocity3 c.nz c.ny c.nx ((1 / 2 : K) / c.dx) (if c.freeStream then c.ux else 0)
          (if c.freeStream then c.uy else 0) (if c.freeStream then c.uz else 0) (vecOf s b.psi)) :=
    velocity3_cyc c.nz c.ny c.nx ((1 / 2 : K) / c.dx) _ _ _ _
  refine (velocity3_congr _ _ _ _ _ _ _ _ _ hψ).trans' ?_
  have key := EqV_cycV (K := K) (⟨fun i j k hb => (h2.1 i j k hb).symm, fun i j k hb => (h2.2.1 i j k hb).symm,
    fun i j k hb => (h2.2.2 i j k hb).symm⟩ : EqV c.nz c.ny c.nx _ (vecOf (exec3 (nsStep3DPost c b) s) b.vel))
  rw [← e] at key
  exact key

theorem EqV_mirV {nz ny nx : ℤ} {a b : V3F K} (h : EqV nz ny nx a b) : EqV nz ny nx (mirV nx a) (mirV nx b) := by
  obtain ⟨hx, hy, hz⟩ := h
  refine ⟨?_, ?_, ?_⟩ <;> intro i j k hb <;> simp only [mirV, m3, ng3, inB] at hb ⊢
  · rw [hx i j (nx - 1 - k) (by simp only [inB]; omega)]
  · exact hy i j (nx - 1 - k) (by simp only [inB]; omega)
  · exact hz i j (nx - 1 - k) (by simp only [inB]; omega)

/-- the x-mirrored configuration: the x component of the free stream changes sign -/
def cfgMirU (c : NS3Cfg K) : NS3Cfg K := { c with ux := -c.ux }

/-- C14 (3D, mirror in x, post-solve PROGRAM): the stream function is a pseudo-vector, the recovered velocity a vector -/
theorem C14_post_solve_mirror_x_3d (c : NS3Cfg K) (hnz : 1 ≤ c.nz) (hny : 1 ≤ c.ny) (hnx : 1 ≤ c.nx) (b : NS3Bufs B)
    (hvp : Distinct33 b.vel b.psi) (hFv : Distinct33 b.force b.vel) (s s' : Store3 B K)
    (hψ : EqV c.nz c.ny c.nx (vecOf s' b.psi) (mirP c.nx (vecOf s b.psi))) :
    EqV c.nz c.ny c.nx (vecOf (exec3 (nsStep3DPost (cfgMirU c) b) s') b.vel)
      (mirV c.nx (vecOf (exec3 (nsStep3DPost c b) s) b.vel)) := by
  have h1 := (C01_post_solve_3d (cfgMirU c) hnz hny hnx b hvp hFv s').1
  have h2 := (C01_post_solve_3d c hnz hny hnx b hvp hFv s).1
  refine h1.trans' ?_
  have hU : (if (cfgMirU c).freeStream then (cfgMirU c).ux else 0) = -(if c.freeStream then c.ux else 0) := by
    show (if c.freeStream then -c.ux else 0) = _
    split_ifs <;> simp
  have e := velocity3_mir c.nz c.ny c.nx ((1 / 2 : K) / c.dx) (if c.freeStream then c.ux else 0)
    (if c.freeStream then c.uy else 0) (if c.freeStream then c.uz else 0) (vecOf s b.psi)
  refine (velocity3_congr _ _ _ _ _ _ _ _ _ hψ).trans' ?_
  have key := EqV_mirV (K := K) (⟨fun i j k hb => (h2.1 i j k hb).symm, fun i j k hb => (h2.2.1 i j k hb).symm,
    fun i j k hb => (h2.2.2 i j k hb).symm⟩ : EqV c.nz c.ny c.nx _ (vecOf (exec3 (nsStep3DPost c b) s) b.vel))
  rw [← e, ← hU] at key
  exact key

theorem curl3h_swP (F : V3F K) : curl3h (swP F) = swV (curl3h F) := by
  apply V3F.ext' <;> funext i j k <;> simp only [curl3h, swV, swP, sw, ng3] <;> ring

/-- velocity recovery under the x ↔ y exchange (a reflection: the stream function changes sign as a pseudo-vector) -/
theorem velocity3_sw (nz ny nx : ℤ) (p Ux Uy Uz : K) (psi : V3F K) :
    velocity3 nz nx ny p Uy Ux Uz (swP psi) = swV (velocity3 nz ny nx p Ux Uy Uz psi) := by
  have h := curl3h_swP psi
  have hx := congrArg V3F.x h; have hy := congrArg V3F.y h; have hz := congrArg V3F.z h
  apply V3F.ext' <;> funext i j k
  · simp only [velocity3, swV, sw, innerB]
    rw [hx]
    simp only [swV, sw]
    split_ifs <;> first | rfl | (exfalso; omega)
  · simp only [velocity3, swV, sw, innerB]
    rw [hy]
    simp only [swV, sw]
    split_ifs <;> first | rfl | (exfalso; omega)
  · simp only [velocity3, swV, sw, innerB]
    rw [hz]
    simp only [swV, sw]
    split_ifs <;> first | rfl | (exfalso; omega)

theorem EqV_swV {nz ny nx : ℤ} {a b : V3F K} (h : EqV nz ny nx a b) : EqV nz nx ny (swV a) (swV b) := by
  obtain ⟨hx, hy, hz⟩ := h
  refine ⟨?_, ?_, ?_⟩ <;> intro i j k hb <;> simp only [swV, sw, inB] at hb ⊢
  · exact hy i k j (by simp only [inB]; omega)
  · exact hx i k j (by simp only [inB]; omega)
  · exact hz i k j (by simp only [inB]; omega)

/-- the x ↔ y exchanged configuration: extents and free-stream components exchanged -/
def cfgSwU (c : NS3Cfg K) : NS3Cfg K := { cfgSw c with ux := c.uy, uy := c.ux }

/-- C14 (3D, x ↔ y exchange, post-solve PROGRAM) -/
theorem C14_post_solve_swap_xy_3d (c : NS3Cfg K) (hnz : 1 ≤ c.nz) (hny : 1 ≤ c.ny) (hnx : 1 ≤ c.nx) (b : NS3Bufs B)
    (hvp : Distinct33 b.vel b.psi) (hFv : Distinct33 b.force b.vel) (s s' : Store3 B K)
    (hψ : EqV c.nz c.nx c.ny (vecOf s' b.psi) (swP (vecOf s b.psi))) :
    EqV c.nz c.nx c.ny (vecOf (exec3 (nsStep3DPost (cfgSwU c) b) s') b.vel)
      (swV (vecOf (exec3 (nsStep3DPost c b) s) b.vel)) := by
  have h1 := (C01_post_solve_3d (cfgSwU c) hnz hnx hny b hvp hFv s').1
  have h2 := (C01_post_solve_3d c hnz hny hnx b hvp hFv s).1
  refine h1.trans' ?_
  have e : velocity3 (cfgSwU c).nz (cfgSwU c).ny (cfgSwU c).nx ((1 / 2 : K) / (cfgSwU c).dx)
      (if (cfgSwU c).freeStream then (cfgSwU c).ux else 0) (if (cfgSwU c).freeStream then (cfgSwU c).uy else 0)
      (if (cfgSwU c).freeStream then (cfgSwU c).uz else 0) (swP (vecOf s b.psi))
      = swV (velocity3 c.nz c.ny c.nx ((1 / 2 : K) / c.dx) (if c.freeStream then c.ux else 0)
          (if c.freeStream then c.uy else 0) (if c.freeStream then c.uz else 0) (vecOf s b.psi)) :=
    velocity3_sw c.nz c.ny c.nx ((1 / 2 : K) / c.dx) _ _ _ _
  refine (velocity3_congr _ _ _ _ _ _ _ _ _ hψ).trans' ?_
  have key := EqV_swV (K := K) (⟨fun i j k hb => (h2.1 i j k hb).symm, fun i j k hb => (h2.2.1 i j k hb).symm,
    fun i j k hb => (h2.2.2 i j k hb).symm⟩ : EqV c.nz c.ny c.nx _ (vecOf (exec3 (nsStep3DPost c b) s) b.vel))
  rw [← e] at key
  exact key

end Program

/-! ### the Poisson solve on fields of the program layer -/

/-- the C03 free-space solve (doubled-domain circular convolution with the evenly reflected table) of the box part of a
ℤ-indexed field -/
def solveZ (nz ny nx : ℕ) (vol : K) (G : ℕ → ℕ → ℕ → K) (f : F3 K) : F3 K :=
  fun i j k => solve3 nz ny nx vol G (fun a b c => f a b c) i.toNat j.toNat k.toNat

theorem solveZ_eq (nz ny nx : ℕ) (vol : K) (G : ℕ → ℕ → ℕ → K) (f : F3 K) (i j k : ℤ) (hb : inB nz ny nx i j k) :
    solveZ nz ny nx vol G f i j k =
      vol * ∑ o ∈ range nz, ∑ p ∈ range ny, ∑ q ∈ range nx,
        G (adiff i.toNat o) (adiff j.toNat p) (adiff k.toNat q) * f o p q := by
  simp only [inB] at hb
  unfold solveZ
  rw [C03_solve_eq_free_convolution_3d _ _ _ _ _ _ _ _ _ (by omega) (by omega) (by omega)]
  rfl

/-- the solve reads its right-hand side inside the box only -/
theorem solveZ_congr (nz ny nx : ℕ) (vol : K) (G : ℕ → ℕ → ℕ → K) (f g : F3 K) (h : EqB nz ny nx f g) :
    EqB nz ny nx (solveZ nz ny nx vol G f) (solveZ nz ny nx vol G g) := by
  intro i j k hb
  rw [solveZ_eq _ _ _ _ _ _ _ _ _ hb, solveZ_eq _ _ _ _ _ _ _ _ _ hb]
  congr 1
  apply sum_congr rfl; intro o ho
  apply sum_congr rfl; intro p hp
  apply sum_congr rfl; intro q hq
  simp only [mem_range] at ho hp hq
  rw [h o p q (by simp only [inB]; omega)]

/-- C14 (Poisson solve, cyclic relabelling): with the table of the relabelled grid (`G' a b c = G b c a`, i.e. an
isotropic Green's function sampled on the relabelled axes) the solve of the relabelled right-hand side is the relabelled
solve, at every cell of the relabelled `nx × nz × ny` grid -/
theorem C14_poisson_cyclic_3d (nz ny nx : ℕ) (vol : K) (G G' : ℕ → ℕ → ℕ → K) (hG : ∀ a b c, G' a b c = G b c a)
    (f : F3 K) : EqB nx nz ny (solveZ nx nz ny vol G' (cyc f)) (cyc (solveZ nz ny nx vol G f)) := by
  intro i j k hb
  have hb' : inB nz ny nx j k i := by simp only [inB] at hb ⊢; omega
  rw [solveZ_eq _ _ _ _ _ _ _ _ _ hb, cyc_apply, solveZ_eq _ _ _ _ _ _ _ _ _ hb']
  congr 1
  simp only [hG, cyc_apply]
  -- ∑ a<nx ∑ b<nz ∑ c<ny  →  ∑ b<nz ∑ c<ny ∑ a<nx
  rw [sum_comm]
  apply sum_congr rfl; intro o _
  rw [sum_comm]

/-- C14 (Poisson solve, mirror in x): the solve of the mirrored right-hand side is the mirrored solve -/
theorem C14_poisson_mirror_x_Z (nz ny nx : ℕ) (vol : K) (G : ℕ → ℕ → ℕ → K) (f : F3 K) :
    EqB nz ny nx (solveZ nz ny nx vol G (m3 nx f)) (m3 nx (solveZ nz ny nx vol G f)) := by
  intro i j k hb
  have hb' : inB nz ny nx i j ((nx : ℤ) - 1 - k) := by simp only [inB] at hb ⊢; omega
  rw [solveZ_eq _ _ _ _ _ _ _ _ _ hb]
  show _ = solveZ nz ny nx vol G f i j ((nx : ℤ) - 1 - k)
  rw [solveZ_eq _ _ _ _ _ _ _ _ _ hb']
  congr 1
  apply sum_congr rfl; intro o _
  apply sum_congr rfl; intro p _
  rw [← sum_range_reflect (fun q => G (adiff i.toNat o) (adiff j.toNat p) (adiff ((nx : ℤ) - 1 - k).toNat q) * f o p q) nx]
  apply sum_congr rfl
  intro q hq
  simp only [mem_range] at hq
  simp only [inB] at hb
  have e1 : ((nx : ℤ) - 1 - k).toNat = nx - 1 - k.toNat := by omega
  have e2 : (((nx - 1 - q : ℕ) : ℤ)) = (nx : ℤ) - 1 - q := by omega
  rw [e1, adiff_reflect' nx k.toNat q (by omega) hq, e2]
  rfl

/-- the solve is linear: a sign change passes through -/
theorem C14_poisson_neg_Z (nz ny nx : ℕ) (vol : K) (G : ℕ → ℕ → ℕ → K) (f : F3 K) :
    EqB nz ny nx (solveZ nz ny nx vol G (ng3 f)) (ng3 (solveZ nz ny nx vol G f)) := by
  intro i j k hb
  rw [solveZ_eq _ _ _ _ _ _ _ _ _ hb]
  show _ = -solveZ nz ny nx vol G f i j k
  rw [solveZ_eq _ _ _ _ _ _ _ _ _ hb]
  simp only [ng3, mul_neg, sum_neg_distrib]

/-- C14 (Poisson solve, x ↔ y exchange): `G' a b c = G a c b` is the table of the relabelled grid -/
theorem C14_poisson_swap_xy_Z (nz ny nx : ℕ) (vol : K) (G G' : ℕ → ℕ → ℕ → K) (hG : ∀ a b c, G' a b c = G a c b) (f : F3 K) :
    EqB nz nx ny (solveZ nz nx ny vol G' (sw f)) (sw (solveZ nz ny nx vol G f)) := by
  intro i j k hb
  have hb' : inB nz ny nx i k j := by simp only [inB] at hb ⊢; omega
  rw [solveZ_eq _ _ _ _ _ _ _ _ _ hb]
  show _ = solveZ nz ny nx vol G f i k j
  rw [solveZ_eq _ _ _ _ _ _ _ _ _ hb']
  congr 1
  simp only [hG, sw]
  apply sum_congr rfl; intro o _
  rw [sum_comm]

section Step
variable {B : Type} [DecidableEq B]

/-- the Poisson stage of the step: every component of the stream function := solve of that vorticity component -/
def solveStage (P : F3 K → F3 K) (b : NS3Bufs B) (s : Store3 B K) : Store3 B K :=
  fun β => if β = b.psi.x then P (s b.vort.x) else if β = b.psi.y then P (s b.vort.y) else if β = b.psi.z then P (s b.vort.z) else s β

/-- one 3D Navier–Stokes step: pre-solve program, Poisson stage, post-solve program -/
def step3 (P : F3 K → F3 K) (c : NS3Cfg K) (b : NS3Bufs B) (s : Store3 B K) : Store3 B K :=
  exec3 (nsStep3DPost c b) (solveStage P b (exec3 (core3 c b) s))

structure DistinctStep (b : NS3Bufs B) : Prop where
  pre : Distinct3 b
  vp : Distinct33 b.vel b.psi
  Fv : Distinct33 b.force b.vel
  pw : Distinct33 b.psi b.vort

theorem solveStage_psi (P : F3 K → F3 K) (b : NS3Bufs B) (hd : Distinct33 b.psi b.vort) (s : Store3 B K) :
    vecOf (solveStage P b s) b.psi = ⟨P (s b.vort.x), P (s b.vort.y), P (s b.vort.z)⟩ := by
  simp only [vecOf, solveStage, if_true, hd.axy.symm, hd.axz.symm, hd.ayz.symm, if_false]

theorem solveStage_vort (P : F3 K → F3 K) (b : NS3Bufs B) (hd : Distinct33 b.psi b.vort) (s : Store3 B K) :
    vecOf (solveStage P b s) b.vort = vecOf s b.vort := by
  simp only [vecOf, solveStage, hd.xx.symm, hd.yx.symm, hd.zx.symm, hd.xy.symm, hd.yy.symm, hd.zy.symm,
    hd.xz.symm, hd.yz.symm, hd.zz.symm, if_false]

theorem post_frame_vort (c : NS3Cfg K) (b : NS3Bufs B) (hwv : Distinct33 b.vort b.vel) (hwF : Distinct33 b.vort b.force)
    (s : Store3 B K) : vecOf (exec3 (nsStep3DPost c b) s) b.vort = vecOf s b.vort := by
  have hw : ∀ β, β = b.vort.x ∨ β = b.vort.y ∨ β = b.vort.z → β ∉ written3 (nsStep3DPost c b) := by
    intro β hβ
    rcases hβ with rfl | rfl | rfl <;> by_cases hfs : c.freeStream = true <;> by_cases hfo : c.forcing = true <;>
      simp [hfs, hfo, written3, Call3.written, nsStep3DPost, curl3D, call_curl_x_comp_stencil_3d, call_curl_y_comp_stencil_3d,
        call_curl_z_comp_stencil_3d, setBoundaryVec3D, setFixedValVecOn3D, boundarySlabs3D, call_set_fixed_val_stencil_3d,
        addFixedValVec3D, addFixedVal3D, call_add_fixed_val_stencil_3d, setFixedValVec3D,
        hwv.xx, hwv.xy, hwv.xz, hwv.yx, hwv.yy, hwv.yz, hwv.zx, hwv.zy, hwv.zz,
        hwF.xx, hwF.xy, hwF.xz, hwF.yx, hwF.yy, hwF.yz, hwF.zx, hwF.zy, hwF.zz]
  exact vecOf_frame _ _ _ (exec3_other _ _ _ (hw _ (Or.inl rfl))) (exec3_other _ _ _ (hw _ (Or.inr (Or.inl rfl))))
    (exec3_other _ _ _ (hw _ (Or.inr (Or.inr rfl))))

/-- C14 (3D, whole step, cyclic relabelling): if the public state (vorticity, velocity, body forcing) of `s'` is the
relabelled public state of `s`, then after one full step — pre-solve program, Poisson solve of each component with the
table of the respective grid, post-solve program with the relabelled free stream — vorticity and velocity of `s'` are the
relabelled vorticity and velocity of `s` on the whole grid.  Nothing is assumed about scratch buffers or the stream
function of either store. -/
theorem C14_step_cyclic_3d (c : NS3Cfg K) (nz ny nx : ℕ) (hz : c.nz = nz) (hy : c.ny = ny) (hx : c.nx = nx)
    (hnz : 1 ≤ nz) (hny : 1 ≤ ny) (hnx : 1 ≤ nx) (vol : K) (G G' : ℕ → ℕ → ℕ → K) (hG : ∀ a b c, G' a b c = G b c a)
    (b : NS3Bufs B) (hd : DistinctStep b) (s s' : Store3 B K)
    (hω : vecOf s' b.vort = cycV (vecOf s b.vort)) (hu : vecOf s' b.vel = cycV (vecOf s b.vel))
    (hF : vecOf s' b.force = cycV (vecOf s b.force)) :
    EqV c.nx c.nz c.ny (vecOf (step3 (solveZ nx nz ny vol G') (cfgCycU c) b s') b.vort)
        (cycV (vecOf (step3 (solveZ nz ny nx vol G) c b s) b.vort)) ∧
    EqV c.nx c.nz c.ny (vecOf (step3 (solveZ nx nz ny vol G') (cfgCycU c) b s') b.vel)
        (cycV (vecOf (step3 (solveZ nz ny nx vol G) c b s) b.vel)) := by
  have hcz : (1 : ℤ) ≤ c.nz := by rw [hz]; exact_mod_cast hnz
  have hcy : (1 : ℤ) ≤ c.ny := by rw [hy]; exact_mod_cast hny
  have hcx : (1 : ℤ) ≤ c.nx := by rw [hx]; exact_mod_cast hnx
  have hcore : core3 (cfgCycU c) b = core3 (cfgCyc c) b := rfl
  -- vorticity after the pre-solve programs
  have hpre := C14_pre_solve_cyclic_3d c hcz hcy hcx b hd.pre s s' hω hu hF
  set t := exec3 (core3 c b) s with ht
  set t' := exec3 (core3 (cfgCyc c) b) s' with ht'
  constructor
  · unfold step3
    rw [post_frame_vort _ _ hd.pre.wv hd.pre.wF, post_frame_vort _ _ hd.pre.wv hd.pre.wF, solveStage_vort _ _ hd.pw,
      solveStage_vort _ _ hd.pw, hcore]
    exact hpre
  · unfold step3
    rw [hcore]
    apply C14_post_solve_cyclic_3d c hcz hcy hcx b hd.vp hd.Fv
    rw [solveStage_psi _ _ hd.pw, solveStage_psi _ _ hd.pw]
    obtain ⟨px, py, pz⟩ := hpre
    simp only [vecOf, cycV] at px py pz ⊢
    rw [hx, hz, hy] at px py pz ⊢
    refine ⟨?_, ?_, ?_⟩
    · exact fun i j k hb => ((solveZ_congr nx nz ny vol G' _ _ px) i j k hb).trans (C14_poisson_cyclic_3d nz ny nx vol G G' hG _ i j k hb)
    · exact fun i j k hb => ((solveZ_congr nx nz ny vol G' _ _ py) i j k hb).trans (C14_poisson_cyclic_3d nz ny nx vol G G' hG _ i j k hb)
    · exact fun i j k hb => ((solveZ_congr nx nz ny vol G' _ _ pz) i j k hb).trans (C14_poisson_cyclic_3d nz ny nx vol G G' hG _ i j k hb)

/-- C14 (3D, whole step, mirror in x): vorticity and stream function are pseudo-vectors, velocity, forcing and free stream
vectors; the whole step (pre-solve program, Poisson solve of each component, post-solve program) commutes with the mirror -/
theorem C14_step_mirror_x_3d (c : NS3Cfg K) (nz ny nx : ℕ) (hz : c.nz = nz) (hy : c.ny = ny) (hx : c.nx = nx)
    (hnz : 1 ≤ nz) (hny : 1 ≤ ny) (hnx : 1 ≤ nx) (vol : K) (G : ℕ → ℕ → ℕ → K)
    (b : NS3Bufs B) (hd : DistinctStep b) (s s' : Store3 B K)
    (hω : vecOf s' b.vort = mirP c.nx (vecOf s b.vort)) (hu : vecOf s' b.vel = mirV c.nx (vecOf s b.vel))
    (hF : vecOf s' b.force = mirV c.nx (vecOf s b.force)) :
    EqV c.nz c.ny c.nx (vecOf (step3 (solveZ nz ny nx vol G) (cfgMirU c) b s') b.vort)
        (mirP c.nx (vecOf (step3 (solveZ nz ny nx vol G) c b s) b.vort)) ∧
    EqV c.nz c.ny c.nx (vecOf (step3 (solveZ nz ny nx vol G) (cfgMirU c) b s') b.vel)
        (mirV c.nx (vecOf (step3 (solveZ nz ny nx vol G) c b s) b.vel)) := by
  have hcz : (1 : ℤ) ≤ c.nz := by rw [hz]; exact_mod_cast hnz
  have hcy : (1 : ℤ) ≤ c.ny := by rw [hy]; exact_mod_cast hny
  have hcx : (1 : ℤ) ≤ c.nx := by rw [hx]; exact_mod_cast hnx
  have hcore : core3 (cfgMirU c) b = core3 c b := rfl
  have hpre := C14_pre_solve_mirror_x_3d c hcz hcy hcx b hd.pre s s' hω hu hF
  constructor
  · unfold step3
    rw [post_frame_vort _ _ hd.pre.wv hd.pre.wF, post_frame_vort _ _ hd.pre.wv hd.pre.wF, solveStage_vort _ _ hd.pw,
      solveStage_vort _ _ hd.pw, hcore]
    exact hpre
  · unfold step3
    rw [hcore]
    apply C14_post_solve_mirror_x_3d c hcz hcy hcx b hd.vp hd.Fv
    rw [solveStage_psi _ _ hd.pw, solveStage_psi _ _ hd.pw]
    obtain ⟨px, py, pz⟩ := hpre
    simp only [vecOf, mirP] at px py pz ⊢
    rw [hx, hz, hy] at px py pz ⊢
    refine ⟨?_, ?_, ?_⟩
    · exact fun i j k hb => ((solveZ_congr nz ny nx vol G _ _ px) i j k hb).trans (C14_poisson_mirror_x_Z nz ny nx vol G _ i j k hb)
    · exact fun i j k hb => ((solveZ_congr nz ny nx vol G _ _ py) i j k hb).trans
        (((C14_poisson_neg_Z nz ny nx vol G _) i j k hb).trans (congrArg Neg.neg (C14_poisson_mirror_x_Z nz ny nx vol G _ i j k hb)))
    · exact fun i j k hb => ((solveZ_congr nz ny nx vol G _ _ pz) i j k hb).trans
        (((C14_poisson_neg_Z nz ny nx vol G _) i j k hb).trans (congrArg Neg.neg (C14_poisson_mirror_x_Z nz ny nx vol G _ i j k hb)))

/-- C14 (3D, whole step, x ↔ y exchange): with the cyclic relabelling and the x-mirror this generates the whole symmetry
group of the grid (order 48) -/
theorem C14_step_swap_xy_3d (c : NS3Cfg K) (nz ny nx : ℕ) (hz : c.nz = nz) (hy : c.ny = ny) (hx : c.nx = nx)
    (hnz : 1 ≤ nz) (hny : 1 ≤ ny) (hnx : 1 ≤ nx) (vol : K) (G G' : ℕ → ℕ → ℕ → K) (hG : ∀ a b c, G' a b c = G a c b)
    (b : NS3Bufs B) (hd : DistinctStep b) (s s' : Store3 B K)
    (hω : vecOf s' b.vort = swP (vecOf s b.vort)) (hu : vecOf s' b.vel = swV (vecOf s b.vel))
    (hF : vecOf s' b.force = swV (vecOf s b.force)) :
    EqV c.nz c.nx c.ny (vecOf (step3 (solveZ nz nx ny vol G') (cfgSwU c) b s') b.vort)
        (swP (vecOf (step3 (solveZ nz ny nx vol G) c b s) b.vort)) ∧
    EqV c.nz c.nx c.ny (vecOf (step3 (solveZ nz nx ny vol G') (cfgSwU c) b s') b.vel)
        (swV (vecOf (step3 (solveZ nz ny nx vol G) c b s) b.vel)) := by
  have hcz : (1 : ℤ) ≤ c.nz := by rw [hz]; exact_mod_cast hnz
  have hcy : (1 : ℤ) ≤ c.ny := by rw [hy]; exact_mod_cast hny
  have hcx : (1 : ℤ) ≤ c.nx := by rw [hx]; exact_mod_cast hnx
  have hcore : core3 (cfgSwU c) b = core3 (cfgSw c) b := rfl
  have hpre := C14_pre_solve_swap_xy_3d c hcz hcy hcx b hd.pre s s' hω hu hF
  constructor
  · unfold step3
    rw [post_frame_vort _ _ hd.pre.wv hd.pre.wF, post_frame_vort _ _ hd.pre.wv hd.pre.wF, solveStage_vort _ _ hd.pw,
      solveStage_vort _ _ hd.pw, hcore]
    exact hpre
  · unfold step3
    rw [hcore]
    apply C14_post_solve_swap_xy_3d c hcz hcy hcx b hd.vp hd.Fv
    rw [solveStage_psi _ _ hd.pw, solveStage_psi _ _ hd.pw]
    obtain ⟨px, py, pz⟩ := hpre
    simp only [vecOf, swP] at px py pz ⊢
    rw [hx, hz, hy] at px py pz ⊢
    refine ⟨?_, ?_, ?_⟩
    · exact fun i j k hb => ((solveZ_congr nz nx ny vol G' _ _ px) i j k hb).trans
        (((C14_poisson_neg_Z nz nx ny vol G' _) i j k hb).trans (congrArg Neg.neg (C14_poisson_swap_xy_Z nz ny nx vol G G' hG _ i j k hb)))
    · exact fun i j k hb => ((solveZ_congr nz nx ny vol G' _ _ py) i j k hb).trans
        (((C14_poisson_neg_Z nz nx ny vol G' _) i j k hb).trans (congrArg Neg.neg (C14_poisson_swap_xy_Z nz ny nx vol G G' hG _ i j k hb)))
    · exact fun i j k hb => ((solveZ_congr nz nx ny vol G' _ _ pz) i j k hb).trans
        (((C14_poisson_neg_Z nz nx ny vol G' _) i j k hb).trans (congrArg Neg.neg (C14_poisson_swap_xy_Z nz ny nx vol G G' hG _ i j k hb)))

/-- non-vacuity: eighteen pairwise different buffers satisfy the distinctness hypotheses of the step theorem -/
example : DistinctStep (B := ℕ) ⟨⟨0, 1, 2⟩, ⟨3, 4, 5⟩, ⟨6, 7, 8⟩, ⟨9, 10, 11⟩, ⟨12, 13, 14⟩, 15, 16, 17⟩ := by
  refine ⟨⟨?_, ?_, ?_, ?_, ?_⟩, ?_, ?_, ?_⟩ <;> constructor <;> decide

end Step

end Sopht.Props.C14
