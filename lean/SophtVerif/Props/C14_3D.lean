/-
C14 (3D, program level) — the 3D Navier–Stokes pre-solve step (forcing → rotational-form transport → diffusion; filter
off, width 0) commutes with the cyclic relabelling of the axes (x' = y, y' = z, z' = x; grid `nx × nz × ny` in array
order) and with the mirror in x (vorticity as pseudo-vector, velocity / forcing as vectors).  Specification-level
symmetry lemmas (Spec/Ops3D) transferred to the step PROGRAM through `C01.core3_spec`.  The 3D step has no upwinding
(rotational form), so the mirror needs no proviso.  Together the two generate, with C14_…_swap, the grid symmetry group.
-/
import SophtVerif.Props.C01_3D
import SophtVerif.Props.C14

set_option linter.unusedVariables false
set_option linter.unusedSectionVars false

namespace Sopht.Props.C14
open Sopht Sopht.Gen Sopht.Model Sopht.Spec Sopht.Props.C13 Sopht.Props.C01

variable {K : Type} [Field K] [LinearOrder K] [IsStrictOrderedRing K]

/-! ### cyclic relabelling -/

/-- vectors and pseudo-vectors under the cyclic relabelling (a rotation) -/
def cycV (F : V3F K) : V3F K := ⟨cyc F.y, cyc F.z, cyc F.x⟩

theorem curl3h_cyc (F : V3F K) : curl3h (cycV F) = cycV (curl3h F) := rfl

theorem cross3_cyc (a b : V3F K) : cross3 (cycV a) (cycV b) = cycV (cross3 a b) := rfl

theorem addInner_cyc (nz ny nx : ℤ) (p : K) (w g : F3 K) :
    addInner nx nz ny p (cyc w) (cyc g) = cyc (addInner nz ny nx p w g) := by
  funext i j k
  simp only [addInner, cyc, innerB]
  split_ifs <;> first | rfl | (exfalso; omega)

theorem forcingOp3_cyc (nz ny nx : ℤ) (p : K) (F w : V3F K) :
    forcingOp3 nx nz ny p (cycV F) (cycV w) = cycV (forcingOp3 nz ny nx p F w) := by
  simp only [forcingOp3, curl3h_cyc]
  simp only [cycV, addInner_cyc]

theorem rotationalOp3_cyc (nz ny nx : ℤ) (p : K) (u w : V3F K) :
    rotationalOp3 nx nz ny p (cycV u) (cycV w) = cycV (rotationalOp3 nz ny nx p u w) := by
  simp only [rotationalOp3, cross3_cyc, forcingOp3_cyc]

theorem diffuse1_cyc (nz ny nx : ℤ) (r : K) (f : F3 K) : diffuse1 nx nz ny r (cyc f) = cyc (diffuse1 nz ny nx r f) := by
  funext i j k
  simp only [diffuse1, cyc, innerB]
  split_ifs <;> first | ring1 | (exfalso; omega)

theorem diffuseOp3_cyc (nz ny nx : ℤ) (r : K) (w : V3F K) : diffuseOp3 nx nz ny r (cycV w) = cycV (diffuseOp3 nz ny nx r w) := by
  simp only [diffuseOp3, cycV, diffuse1_cyc]

/-- the relabelled configuration: array extents `(nx, nz, ny)` -/
def cfgCyc (c : NS3Cfg K) : NS3Cfg K := { c with nz := c.nx, ny := c.nz, nx := c.ny }

theorem coreSpec3_cyc (c : NS3Cfg K) (F u w : V3F K) :
    coreSpec3 (cfgCyc c) (cycV F) (cycV u) (cycV w) = cycV (coreSpec3 c F u w) := by
  unfold coreSpec3 cfgCyc
  simp only
  have hF : (if c.forcing then forcingOp3 c.nx c.nz c.ny (c.dt / (2 * c.dx * c.rho)) (cycV F) (cycV w) else cycV w)
      = cycV (if c.forcing then forcingOp3 c.nz c.ny c.nx (c.dt / (2 * c.dx * c.rho)) F w else w) := by
    cases c.forcing
    · rfl
    · simp only [if_true]; exact forcingOp3_cyc ..
  rw [hF, rotationalOp3_cyc, diffuseOp3_cyc]

section Program
variable {B : Type} [DecidableEq B]

/-- C14 (3D, cyclic relabelling, step PROGRAM): running the program on the relabelled state gives the relabelled
result on the whole (relabelled) grid — every store, grid size (non-cubic), dt, viscosity, density, forcing on/off -/
theorem C14_pre_solve_cyclic_3d (c : NS3Cfg K) (hnz : 1 ≤ c.nz) (hny : 1 ≤ c.ny) (hnx : 1 ≤ c.nx) (b : NS3Bufs B) (hd : Distinct3 b)
    (s s' : Store3 B K)
    (hω : vecOf s' b.vort = cycV (vecOf s b.vort)) (hu : vecOf s' b.vel = cycV (vecOf s b.vel))
    (hF : vecOf s' b.force = cycV (vecOf s b.force)) :
    EqV c.nx c.nz c.ny (vecOf (exec3 (core3 (cfgCyc c) b) s') b.vort) (cycV (vecOf (exec3 (core3 c b) s) b.vort)) := by
  have h1 := core3_spec (cfgCyc c) hnx hnz hny b hd s'
  have h2 := core3_spec c hnz hny hnx b hd s
  rw [hω, hu, hF, coreSpec3_cyc] at h1
  refine h1.trans' ⟨?_, ?_, ?_⟩
  · intro i j k hb
    have hb' : inB c.nx c.nz c.ny i j k := hb
    simp only [cycV, cyc]
    exact (h2.2.1 j k i (by simp only [inB] at hb' ⊢; omega)).symm
  · intro i j k hb
    have hb' : inB c.nx c.nz c.ny i j k := hb
    simp only [cycV, cyc]
    exact (h2.2.2 j k i (by simp only [inB] at hb' ⊢; omega)).symm
  · intro i j k hb
    have hb' : inB c.nx c.nz c.ny i j k := hb
    simp only [cycV, cyc]
    exact (h2.1 j k i (by simp only [inB] at hb' ⊢; omega)).symm

end Program

/-! ### mirror in x -/

/-- a vector field under the x-mirror: x component odd, y, z even -/
def mirV (nx : ℤ) (F : V3F K) : V3F K := ⟨ng3 (m3 nx F.x), m3 nx F.y, m3 nx F.z⟩
/-- a pseudo-vector field under the x-mirror: x component even, y, z odd -/
def mirP (nx : ℤ) (F : V3F K) : V3F K := ⟨m3 nx F.x, ng3 (m3 nx F.y), ng3 (m3 nx F.z)⟩

theorem V3F.ext' {a b : V3F K} (hx : a.x = b.x) (hy : a.y = b.y) (hz : a.z = b.z) : a = b := by
  cases a; cases b; simp_all

theorem curl3h_mir (nx : ℤ) (F : V3F K) : curl3h (mirV nx F) = mirP nx (curl3h F) := by
  have e1 : ∀ k, nx - 1 - (k + 1) = nx - 1 - k - 1 := fun k => by ring
  have e2 : ∀ k, nx - 1 - (k - 1) = nx - 1 - k + 1 := fun k => by ring
  apply V3F.ext' <;> funext i j k <;> simp only [curl3h, mirV, mirP, m3, ng3, e1, e2] <;> ring

/-- (vector) × (pseudo-vector) is a vector -/
theorem cross3_mir (nx : ℤ) (u w : V3F K) : cross3 (mirV nx u) (mirP nx w) = mirV nx (cross3 u w) := by
  apply V3F.ext' <;> funext i j k <;> simp only [cross3, mirV, mirP, m3, ng3] <;> ring

theorem addInner_m3 (nz ny nx : ℤ) (p : K) (w g : F3 K) :
    addInner nz ny nx p (m3 nx w) (m3 nx g) = m3 nx (addInner nz ny nx p w g) := by
  funext i j k
  simp only [addInner, m3, innerB]
  split_ifs <;> first | rfl | (exfalso; omega)

theorem addInner_ng (nz ny nx : ℤ) (p : K) (w g : F3 K) :
    addInner nz ny nx p (ng3 w) (ng3 g) = ng3 (addInner nz ny nx p w g) := by
  funext i j k
  simp only [addInner, ng3]
  split_ifs <;> ring

/-- forcing: vector forcing, pseudo-vector vorticity -/
theorem forcingOp3_mir (nz ny nx : ℤ) (p : K) (F w : V3F K) :
    forcingOp3 nz ny nx p (mirV nx F) (mirP nx w) = mirP nx (forcingOp3 nz ny nx p F w) := by
  simp only [forcingOp3, curl3h_mir]
  simp only [mirP, addInner_m3, addInner_ng]

theorem rotationalOp3_mir (nz ny nx : ℤ) (p : K) (u w : V3F K) :
    rotationalOp3 nz ny nx p (mirV nx u) (mirP nx w) = mirP nx (rotationalOp3 nz ny nx p u w) := by
  simp only [rotationalOp3, cross3_mir, forcingOp3_mir]

theorem diffuse1_m3 (nz ny nx : ℤ) (r : K) (f : F3 K) : diffuse1 nz ny nx r (m3 nx f) = m3 nx (diffuse1 nz ny nx r f) := by
  have e1 : ∀ k, nx - 1 - (k + 1) = nx - 1 - k - 1 := fun k => by ring
  have e2 : ∀ k, nx - 1 - (k - 1) = nx - 1 - k + 1 := fun k => by ring
  funext i j k
  simp only [diffuse1, m3, innerB, e1, e2]
  split_ifs <;> first | ring1 | (exfalso; omega)

theorem diffuse1_ng (nz ny nx : ℤ) (r : K) (f : F3 K) : diffuse1 nz ny nx r (ng3 f) = ng3 (diffuse1 nz ny nx r f) := by
  funext i j k
  simp only [diffuse1, ng3]
  split_ifs <;> ring

theorem diffuseOp3_mir (nz ny nx : ℤ) (r : K) (w : V3F K) : diffuseOp3 nz ny nx r (mirP nx w) = mirP nx (diffuseOp3 nz ny nx r w) := by
  simp only [diffuseOp3, mirP, diffuse1_m3, diffuse1_ng]

theorem coreSpec3_mir (c : NS3Cfg K) (F u w : V3F K) :
    coreSpec3 c (mirV c.nx F) (mirV c.nx u) (mirP c.nx w) = mirP c.nx (coreSpec3 c F u w) := by
  unfold coreSpec3
  have hF : (if c.forcing then forcingOp3 c.nz c.ny c.nx (c.dt / (2 * c.dx * c.rho)) (mirV c.nx F) (mirP c.nx w) else mirP c.nx w)
      = mirP c.nx (if c.forcing then forcingOp3 c.nz c.ny c.nx (c.dt / (2 * c.dx * c.rho)) F w else w) := by
    cases c.forcing
    · rfl
    · simp only [if_true]; exact forcingOp3_mir ..
  rw [hF, rotationalOp3_mir, diffuseOp3_mir]

section Program2
variable {B : Type} [DecidableEq B]

/-- C14 (3D, mirror in x, step PROGRAM): no proviso is needed (the 3D step has no upwinding) -/
theorem C14_pre_solve_mirror_x_3d (c : NS3Cfg K) (hnz : 1 ≤ c.nz) (hny : 1 ≤ c.ny) (hnx : 1 ≤ c.nx) (b : NS3Bufs B) (hd : Distinct3 b)
    (s s' : Store3 B K)
    (hω : vecOf s' b.vort = mirP c.nx (vecOf s b.vort)) (hu : vecOf s' b.vel = mirV c.nx (vecOf s b.vel))
    (hF : vecOf s' b.force = mirV c.nx (vecOf s b.force)) :
    EqV c.nz c.ny c.nx (vecOf (exec3 (core3 c b) s') b.vort) (mirP c.nx (vecOf (exec3 (core3 c b) s) b.vort)) := by
  have h1 := core3_spec c hnz hny hnx b hd s'
  have h2 := core3_spec c hnz hny hnx b hd s
  rw [hω, hu, hF, coreSpec3_mir] at h1
  refine h1.trans' ⟨?_, ?_, ?_⟩
  · intro i j k hb
    simp only [mirP, m3]
    exact (h2.1 i j (c.nx - 1 - k) (by simp only [inB] at hb ⊢; omega)).symm
  · intro i j k hb
    simp only [mirP, m3, ng3]
    rw [h2.2.1 i j (c.nx - 1 - k) (by simp only [inB] at hb ⊢; omega)]
  · intro i j k hb
    simp only [mirP, m3, ng3]
    rw [h2.2.2 i j (c.nx - 1 - k) (by simp only [inB] at hb ⊢; omega)]

end Program2

/-! ### exchange of x and y (a reflection: pseudo-vectors change sign) -/

def sw (f : F3 K) : F3 K := fun i j k => f i k j
def swV (F : V3F K) : V3F K := ⟨sw F.y, sw F.x, sw F.z⟩
def swP (F : V3F K) : V3F K := ⟨ng3 (sw F.y), ng3 (sw F.x), ng3 (sw F.z)⟩

theorem curl3h_sw (F : V3F K) : curl3h (swV F) = swP (curl3h F) := by
  apply V3F.ext' <;> funext i j k <;> simp only [curl3h, swV, swP, sw, ng3] <;> ring

theorem cross3_sw (u w : V3F K) : cross3 (swV u) (swP w) = swV (cross3 u w) := by
  apply V3F.ext' <;> funext i j k <;> simp only [cross3, swV, swP, sw, ng3] <;> ring

theorem addInner_sw (nz ny nx : ℤ) (p : K) (w g : F3 K) :
    addInner nz nx ny p (sw w) (sw g) = sw (addInner nz ny nx p w g) := by
  funext i j k
  simp only [addInner, sw, innerB]
  split_ifs <;> first | rfl | (exfalso; omega)

theorem forcingOp3_sw (nz ny nx : ℤ) (p : K) (F w : V3F K) :
    forcingOp3 nz nx ny p (swV F) (swP w) = swP (forcingOp3 nz ny nx p F w) := by
  simp only [forcingOp3, curl3h_sw]
  simp only [swP, addInner_sw, addInner_ng]

theorem rotationalOp3_sw (nz ny nx : ℤ) (p : K) (u w : V3F K) :
    rotationalOp3 nz nx ny p (swV u) (swP w) = swP (rotationalOp3 nz ny nx p u w) := by
  simp only [rotationalOp3, cross3_sw, forcingOp3_sw]

theorem diffuse1_sw (nz ny nx : ℤ) (r : K) (f : F3 K) : diffuse1 nz nx ny r (sw f) = sw (diffuse1 nz ny nx r f) := by
  funext i j k
  simp only [diffuse1, sw, innerB]
  split_ifs <;> first | ring1 | (exfalso; omega)

theorem diffuseOp3_sw (nz ny nx : ℤ) (r : K) (w : V3F K) : diffuseOp3 nz nx ny r (swP w) = swP (diffuseOp3 nz ny nx r w) := by
  simp only [diffuseOp3, swP, diffuse1_sw, diffuse1_ng]

def cfgSw (c : NS3Cfg K) : NS3Cfg K := { c with ny := c.nx, nx := c.ny }

theorem coreSpec3_sw (c : NS3Cfg K) (F u w : V3F K) :
    coreSpec3 (cfgSw c) (swV F) (swV u) (swP w) = swP (coreSpec3 c F u w) := by
  unfold coreSpec3 cfgSw
  simp only
  have hF : (if c.forcing then forcingOp3 c.nz c.nx c.ny (c.dt / (2 * c.dx * c.rho)) (swV F) (swP w) else swP w)
      = swP (if c.forcing then forcingOp3 c.nz c.ny c.nx (c.dt / (2 * c.dx * c.rho)) F w else w) := by
    cases c.forcing
    · rfl
    · simp only [if_true]; exact forcingOp3_sw ..
  rw [hF, rotationalOp3_sw, diffuseOp3_sw]

section Program3
variable {B : Type} [DecidableEq B]

/-- C14 (3D, x ↔ y exchange, step PROGRAM) -/
theorem C14_pre_solve_swap_xy_3d (c : NS3Cfg K) (hnz : 1 ≤ c.nz) (hny : 1 ≤ c.ny) (hnx : 1 ≤ c.nx) (b : NS3Bufs B) (hd : Distinct3 b)
    (s s' : Store3 B K)
    (hω : vecOf s' b.vort = swP (vecOf s b.vort)) (hu : vecOf s' b.vel = swV (vecOf s b.vel))
    (hF : vecOf s' b.force = swV (vecOf s b.force)) :
    EqV c.nz c.nx c.ny (vecOf (exec3 (core3 (cfgSw c) b) s') b.vort) (swP (vecOf (exec3 (core3 c b) s) b.vort)) := by
  have h1 := core3_spec (cfgSw c) hnz hnx hny b hd s'
  have h2 := core3_spec c hnz hny hnx b hd s
  rw [hω, hu, hF, coreSpec3_sw] at h1
  refine h1.trans' ⟨?_, ?_, ?_⟩
  · intro i j k hb
    have hb' : inB c.nz c.nx c.ny i j k := hb
    simp only [swP, sw, ng3]
    rw [h2.2.1 i k j (by simp only [inB] at hb' ⊢; omega)]
  · intro i j k hb
    have hb' : inB c.nz c.nx c.ny i j k := hb
    simp only [swP, sw, ng3]
    rw [h2.1 i k j (by simp only [inB] at hb' ⊢; omega)]
  · intro i j k hb
    have hb' : inB c.nz c.nx c.ny i j k := hb
    simp only [swP, sw, ng3]
    rw [h2.2.2 i k j (by simp only [inB] at hb' ⊢; omega)]

end Program3

/-! ### velocity recovery after the solve -/

theorem velocity3_cyc (nz ny nx : ℤ) (p Ux Uy Uz : K) (psi : V3F K) :
    velocity3 nx nz ny p Uy Uz Ux (cycV psi) = cycV (velocity3 nz ny nx p Ux Uy Uz psi) := by
  apply V3F.ext' <;> funext i j k <;> simp only [velocity3, cycV, cyc, curl3h, innerB] <;>
    split_ifs <;> first | rfl | (exfalso; omega)

theorem curl3h_mirP (nx : ℤ) (F : V3F K) : curl3h (mirP nx F) = mirV nx (curl3h F) := by
  have e1 : ∀ k, nx - 1 - (k + 1) = nx - 1 - k - 1 := fun k => by ring
  have e2 : ∀ k, nx - 1 - (k - 1) = nx - 1 - k + 1 := fun k => by ring
  apply V3F.ext' <;> funext i j k <;> simp only [curl3h, mirV, mirP, m3, ng3, e1, e2] <;> ring

/-- the stream function is a pseudo-vector; its curl, the velocity, is a vector (free stream: x component negated) -/
theorem velocity3_mir (nz ny nx : ℤ) (p Ux Uy Uz : K) (psi : V3F K) :
    velocity3 nz ny nx p (-Ux) Uy Uz (mirP nx psi) = mirV nx (velocity3 nz ny nx p Ux Uy Uz psi) := by
  have h := curl3h_mirP nx psi
  have hx := congrArg V3F.x h; have hy := congrArg V3F.y h; have hz := congrArg V3F.z h
  apply V3F.ext' <;> funext i j k
  · simp only [velocity3, mirV, m3, ng3, innerB]
    rw [hx]
    simp only [mirV, m3, ng3]
    split_ifs <;> first | ring1 | (exfalso; omega)
  · simp only [velocity3, mirV, m3, innerB]
    rw [hy]
    simp only [mirV, m3]
    split_ifs <;> first | rfl | (exfalso; omega)
  · simp only [velocity3, mirV, m3, innerB]
    rw [hz]
    simp only [mirV, m3]
    split_ifs <;> first | rfl | (exfalso; omega)

end Sopht.Props.C14
