/-
C15 — results do not depend on thread count or iteration order (exact arithmetic / stored values).
(1) every generated kernel satisfies the independence condition: `decide` over the REGENERATED table;
(2) no call of the step programs binds the memory of a written formal to another formal that is read
    off-centre (checked on the model by `decide` for every configuration; tied to the implementation by the
    tracer's `np.shares_memory` record of the arrays actually passed);
(3) under (1)+(2) any serial order of the per-cell updates gives the simultaneous update (`applyK`):
    Core.order_independent / perm_agree.
Not reachable here: real OpenMP execution, FFTW's thread-dependent plans, LLVM fastmath (DESIGN §6 C15).
-/
import SophtVerif.Gen.Table
import SophtVerif.Core.Order
import SophtVerif.Model.Prog2D
import Mathlib.Algebra.Order.Field.Rat

namespace Sopht.Props.C15
open Sopht Sopht.Gen Sopht.Model

/-- every generated kernel writes each of its outputs once and reads written fields at the centre only -/
theorem C15_kernel_independent : kernelTable.all KernelRow.independent = true := by decide +kernel

/-- the ghost width used for the iteration region is the largest offset read -/
theorem C15_ghost_is_max_offset : kernelTable.all KernelRow.ghostOk = true := by decide +kernel

/-- the thread request of every generator reaches the kernel configuration unchanged, or is replaced by
an explicit serial setting (the deliberately serial boundary setters) -/
theorem C15_threads_forwarded : kernelTable.all KernelRow.threadsForwarded = true := by decide +kernel

/-- sequential in-place execution of the cell updates in any order equals the simultaneous update -/
theorem C15_schedule_free {C V : Type} [DecidableEq C] (upd : C → V → V) (cs cs' : List C) (hnd : cs.Nodup)
    (hp : cs.Perm cs') (a : C → V) :
    cs.foldl (fun (st : C → V) c => Function.update st c (upd c (st c))) a
      = cs'.foldl (fun (st : C → V) c => Function.update st c (upd c (st c))) a :=
  perm_agree upd cs cs' hnd hp a

theorem C15_schedule_free_eq_simultaneous {C V : Type} [DecidableEq C] (upd : C → V → V) (cs : List C)
    (hnd : cs.Nodup) (a : C → V) :
    cs.foldl (fun (st : C → V) c => Function.update st c (upd c (st c))) a
      = fun c => if c ∈ cs then upd c (a c) else a c :=
  order_independent upd cs hnd a

/-! ### call sites -/

def rowOf (kid : String) : Option KernelRow := kernelTable.find? (·.name == kid)

/-- a call is alias-safe if every formal other than a written one that is bound to the same buffer as a
written formal is read at the centre only (kernels not in the table — the `numpy:` statements — are
whole-array numpy assignments with value semantics and are skipped) -/
def callSafe {B K : Type} [DecidableEq B] (c : Call2 B K) : Bool :=
  match rowOf c.kid with
  | none => c.kid.startsWith "numpy:"
  | some row =>
    row.writes.all fun fw =>
      match c.binds.find? (·.1 == fw) with
      | none => false
      | some (_, bw) =>
        c.binds.all fun (f, b) =>
          f == fw || b != bw ||
            (match row.reads.find? (·.1 == f) with
             | none => true
             | some (_, offs) => offs.all isZeroOffset)

inductive NSBuf
  | vort | velx | vely | bs | psi | fx | fy | xg | yg | dbl | fre | fim | gre | gim | cre | cim
deriving DecidableEq, Repr

def nsBufs : NS2Bufs NSBuf :=
  { vort := .vort, vel := ⟨.velx, .vely⟩, bs := .bs, psi := .psi, force := ⟨.fx, .fy⟩, xg := .xg, yg := .yg,
    ps := { dbl := .dbl, fre := .fre, fim := .fim, gre := .gre, gim := .gim, cre := .cre, cim := .cim } }

def cfgOf (forcing fs : Bool) (w : ℕ) : NS2Cfg ℚ :=
  { forcing := forcing, freeStream := fs, width := w, ny := 9, nx := 11, dt := 1, dx := 1, nu := 1, rho := 1,
    ux := 0, uy := 0, x0 := 0, x1 := 1, y0 := 0, y1 := 1 }

def trivT : Transc ℚ := { sin := fun x => x, pi := 3 }

def allCfgs : List (Bool × Bool × ℕ) :=
  [false, true].flatMap fun a => [false, true].flatMap fun b => (List.range 7).map fun w => (a, b, w)

/-- every kernel call of the 2D Navier–Stokes step, in all 28 configurations (forcing × free stream ×
width 0..6), is alias-safe.  (Call structure does not depend on sizes or scalar values.) -/
theorem C15_callsite_noalias_ns2d :
    allCfgs.all (fun (a, b, w) =>
      ((nsStep2DPre trivT (cfgOf a b w) nsBufs) ++ poissonMid2D 9 11 nsBufs.ps ++ nsStep2DPost (cfgOf a b w) nsBufs).all
        callSafe) = true := by
  decide +kernel

end Sopht.Props.C15
