/-
C15 (3D call sites) — no call of the 3D Navier–Stokes step program binds the memory of a written formal to another
formal that the kernel reads off-centre: forcing on/off × free stream on/off × vorticity filter off or either type with
order 1..4 × boundary-zone width 0..6 (252 configurations), plus the Poisson-solve glue of one component.  The step
program is the concatenation of four parts that depend on independent options, so the statement is decided part by
part (`decide` on the model program) and assembled; tied to the implementation by the tracer's `np.shares_memory`
record of the arrays actually passed.
-/
import SophtVerif.Props.C15
import SophtVerif.Model.Prog3D

namespace Sopht.Props.C15
open Sopht Sopht.Gen Sopht.Model

def callSafe3 {B K : Type} [DecidableEq B] (c : Call3 B K) : Bool :=
  match rowOf c.kid with
  | none => c.kid.startsWith "numpy:"
  | some row =>
    (row.writes.all fun fw => c.binds.any (·.1 == fw)) &&
    c.binds.all fun (fw, bw) =>
      !(row.writes.contains fw) ||
        c.binds.all fun (f, b) =>
          f == fw || b != bw ||
            (match row.reads.find? (·.1 == f) with
             | none => true
             | some (_, offs) => offs.all isZeroOffset)

inductive NSBuf3
  | wx | wy | wz | ux | uy | uz | bx | by' | bz | px | py | pz | fx | fy | fz | xg | yg | zg
  | dbl | fre | fim | gre | gim | cre | cim
deriving DecidableEq, Repr

def nsBufs3 : NS3Bufs NSBuf3 :=
  { vort := ⟨.wx, .wy, .wz⟩, vel := ⟨.ux, .uy, .uz⟩, buf := ⟨.bx, .by', .bz⟩, psi := ⟨.px, .py, .pz⟩, force := ⟨.fx, .fy, .fz⟩,
    xg := .xg, yg := .yg, zg := .zg }

def psBufs3 : Poisson3Bufs NSBuf3 := { dbl := .dbl, fre := .fre, fim := .fim, gre := .gre, gim := .gim, cre := .cre, cim := .cim }

/-- filter option code: 0 = off, 1..4 = multiplicative of that order, 5..8 = convolution of order 1..4 -/
def cfgOf3 (forcing fs : Bool) (filt : ℕ) (w : ℕ) : NS3Cfg ℚ :=
  { forcing := forcing, freeStream := fs, filter := filt != 0, filterConv := filt ≥ 5, filterOrder := if filt ≥ 5 then filt - 4 else filt,
    width := w, nz := 9, ny := 10, nx := 11, dt := 1, dx := 1, nu := 1, rho := 1, ux := 0, uy := 0, uz := 0,
    corners := ⟨0, 1, 0, 1, 0, 1⟩ }

variable {B K : Type} [DecidableEq B] [Field K] [LinearOrder K] [IsStrictOrderedRing K]

def partForcing (c : NS3Cfg K) (b : NS3Bufs B) : List (Call3 B K) :=
  if c.forcing then updateVorticityFromForcing3D c.nz c.ny c.nx b.vort b.force (c.dt / (2 * c.dx * c.rho)) else []
def partCore (c : NS3Cfg K) (b : NS3Bufs B) : List (Call3 B K) :=
  crossProduct3D c.nz c.ny c.nx b.buf b.vel b.vort ++ updateVorticityFromForcing3D c.nz c.ny c.nx b.vort b.buf (c.dt / (2 * c.dx))
    ++ diffusionTimestepVec3D c.nz c.ny c.nx b.vort b.buf.x (c.nu * c.dt / c.dx / c.dx)
def partFilter (c : NS3Cfg K) (b : NS3Bufs B) : List (Call3 B K) :=
  if c.filter then filterVec3D c.filterConv c.filterOrder c.nz c.ny c.nx b.vort b.buf.x b.buf.y else []
def partDamp (T : Transc K) (c : NS3Cfg K) (b : NS3Bufs B) : List (Call3 B K) :=
  penaliseBoundaryVec3D T c.width c.nz c.ny c.nx c.dx c.corners b.vort b.xg b.yg b.zg

/-- the pre-solve program is the concatenation of the four parts -/
theorem nsStep3DPre_parts (T : Transc K) (c : NS3Cfg K) (b : NS3Bufs B) :
    nsStep3DPre T c b = partForcing c b ++ partCore c b ++ partFilter c b ++ partDamp T c b := by
  simp [nsStep3DPre, partForcing, partCore, partFilter, partDamp, List.append_assoc]

theorem safe_forcing : [false, true].all (fun a => (partForcing (cfgOf3 a false 0 0) nsBufs3).all callSafe3) = true := by
  decide +kernel
theorem safe_core : (partCore (cfgOf3 false false 0 0) nsBufs3).all callSafe3 = true := by decide +kernel
theorem safe_filter : (List.range 9).all (fun f => (partFilter (cfgOf3 false false f 0) nsBufs3).all callSafe3) = true := by
  decide +kernel
theorem safe_damp : (List.range 7).all (fun w => (partDamp trivT (cfgOf3 false false 0 w) nsBufs3).all callSafe3) = true := by
  decide +kernel
theorem safe_poisson :
    (poissonPre3D 9 10 11 psBufs3 nsBufs3.vort.x ++ poissonMid3D 9 10 11 psBufs3 ++ poissonPost3D 9 10 11 psBufs3 nsBufs3.psi.x
      : List (Call3 NSBuf3 ℚ)).all callSafe3 = true := by decide +kernel
theorem safe_post : [false, true].all (fun a => [false, true].all fun b => (nsStep3DPost (cfgOf3 a b 0 0) nsBufs3).all callSafe3) = true := by
  decide +kernel

/-- every kernel call of the 3D Navier–Stokes step, in all 252 configurations, is alias-safe -/
theorem C15_callsite_noalias_ns3d (a b : Bool) (f w : ℕ) (hf : f < 9) (hw : w < 7) :
    ((nsStep3DPre trivT (cfgOf3 a b f w) nsBufs3) ++ nsStep3DPost (cfgOf3 a b f w) nsBufs3).all callSafe3 = true := by
  rw [nsStep3DPre_parts]
  simp only [List.all_append, Bool.and_eq_true]
  have e1 : partForcing (cfgOf3 a b f w) nsBufs3 = partForcing (cfgOf3 a false 0 0) nsBufs3 := rfl
  have e2 : partCore (cfgOf3 a b f w) nsBufs3 = partCore (cfgOf3 false false 0 0) nsBufs3 := rfl
  have e3 : partFilter (cfgOf3 a b f w) nsBufs3 = partFilter (cfgOf3 false false f 0) nsBufs3 := rfl
  have e4 : partDamp trivT (cfgOf3 a b f w) nsBufs3 = partDamp trivT (cfgOf3 false false 0 w) nsBufs3 := rfl
  have e5 : nsStep3DPost (cfgOf3 a b f w) nsBufs3 = nsStep3DPost (cfgOf3 a b 0 0) nsBufs3 := rfl
  rw [e1, e2, e3, e4, e5]
  refine ⟨⟨⟨⟨?_, safe_core⟩, ?_⟩, ?_⟩, ?_⟩
  · exact List.all_eq_true.mp safe_forcing a (by cases a <;> simp)
  · exact List.all_eq_true.mp safe_filter f (List.mem_range.mpr hf)
  · exact List.all_eq_true.mp safe_damp w (List.mem_range.mpr hw)
  · exact List.all_eq_true.mp (List.all_eq_true.mp safe_post a (by cases a <;> simp)) b (by cases b <;> simp)

end Sopht.Props.C15
