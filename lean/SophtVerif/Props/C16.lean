/-
C16 — the recommended time step is finite, positive, linear in the prefactor, satisfies the CFL and the
diffusion limit; with any dt meeting the diffusion limit the explicit diffusion step is a convex averaging
(no new extrema) and leaves the boundary ring unchanged.
-/
import SophtVerif.Model.Dt
import SophtVerif.Props.C20
import SophtVerif.Gen.Kernels

set_option linter.unusedVariables false
set_option linter.unusedSectionVars false

namespace Sopht.Props.C16
open Sopht Sopht.Gen Sopht.Model

variable {K : Type} [Field K] [LinearOrder K] [IsStrictOrderedRing K]

section dt
variable (cfl dx nu tol umax : K) (d : ℕ)
variable (hcfl : 0 < cfl) (hdx : 0 < dx) (hnu : 0 ≤ nu) (htol : 0 < tol) (hu : 0 ≤ umax) (hd : 0 < d)
include hcfl hdx hnu htol hu hd

/-- positive (and, being a value of the field, finite) for every velocity field, including `u ≡ 0`
(`umax = 0`: the advective limit is finite because of `+tol`) and including `ν = 0` -/
theorem C16_dt_pos : 0 < stableDt cfl dx nu tol umax d := by
  have hd' : (0 : K) < d := by exact_mod_cast hd
  unfold stableDt advLimit diffLimit
  split_ifs with h
  · positivity
  · have hnu' : 0 < nu := lt_of_le_of_ne hnu (Ne.symm h)
    apply lt_min <;> positivity

/-- the returned value scales linearly with the user prefactor -/
theorem C16_prefac_linear (a p : K) :
    stableDtPrefac cfl dx nu tol umax d (a * p) = a * stableDtPrefac cfl dx nu tol umax d p := by
  unfold stableDtPrefac; ring

/-- CFL limit: `dt · umax / dx ≤ cfl`, hence for every cell `dt · Σ_a|u_a| / dx ≤ cfl` -/
theorem C16_cfl : stableDt cfl dx nu tol umax d * umax / dx ≤ cfl := by
  have hd' : (0 : K) < d := by exact_mod_cast hd
  have hadv : advLimit cfl dx tol umax * umax / dx ≤ cfl := by
    unfold advLimit
    have h1 : 0 < umax + tol := by linarith
    rw [div_mul_eq_mul_div, div_div, div_le_iff₀ (by positivity)]
    nlinarith [mul_pos hcfl hdx, mul_pos (mul_pos hcfl hdx) htol]
  have hle : stableDt cfl dx nu tol umax d ≤ advLimit cfl dx tol umax := by
    unfold stableDt; split_ifs
    · exact le_rfl
    · exact min_le_left _ _
  calc stableDt cfl dx nu tol umax d * umax / dx
      ≤ advLimit cfl dx tol umax * umax / dx := by
        apply div_le_div_of_nonneg_right _ hdx.le
        exact mul_le_mul_of_nonneg_right hle hu
    _ ≤ cfl := hadv

theorem C16_cfl_every_cell (usum : K) (hcell : 0 ≤ usum ∧ usum ≤ umax) :
    stableDt cfl dx nu tol umax d * usum / dx ≤ cfl := by
  have hpos := C16_dt_pos cfl dx nu tol umax d hcfl hdx hnu htol hu hd
  calc stableDt cfl dx nu tol umax d * usum / dx
      ≤ stableDt cfl dx nu tol umax d * umax / dx := by
        apply div_le_div_of_nonneg_right _ hdx.le
        exact mul_le_mul_of_nonneg_left hcell.2 hpos.le
    _ ≤ cfl := C16_cfl cfl dx nu tol umax d hcfl hdx hnu htol hu hd

/-- diffusion limit, exactly: `ν dt / dx² ≤ 0.9 / (2·dim)` -/
theorem C16_diffusion_limit (hnu' : 0 < nu) :
    nu * stableDt cfl dx nu tol umax d / dx ^ 2 ≤ (9 / 10 : K) / (2 * (d : K)) := by
  have hd' : (0 : K) < d := by exact_mod_cast hd
  have hle : stableDt cfl dx nu tol umax d ≤ diffLimit dx nu d := by
    unfold stableDt; rw [if_neg hnu'.ne']; exact min_le_right _ _
  have : nu * diffLimit dx nu d / dx ^ 2 = (9 / 10 : K) / (2 * (d : K)) := by
    unfold diffLimit; field_simp
  rw [← this]
  apply div_le_div_of_nonneg_right _ (by positivity)
  exact mul_le_mul_of_nonneg_left hle hnu'.le

/-- `ν = 0`: the result is the advective limit (no division by zero is relied upon) -/
theorem C16_dt_inviscid : stableDt cfl dx 0 tol umax d = advLimit cfl dx tol umax := by
  simp [stableDt]

end dt

/-! ### maximum principle of the explicit diffusion step -/

/-- kernel level, 2D: for `0 ≤ r ≤ 1/4` the updated value `u + flux` is a convex combination of the five
stencil values: it lies between any lower and upper bound of them -/
theorem C16_max_principle_kernel_2d (r : K) (hr0 : 0 ≤ r) (hr : r ≤ 1 / 4) (u : F2 K) (i j : ℤ) (m M : K)
    (hm : m ≤ u i j ∧ m ≤ u (i+1) j ∧ m ≤ u (i-1) j ∧ m ≤ u i (j+1) ∧ m ≤ u i (j-1))
    (hM : u i j ≤ M ∧ u (i+1) j ≤ M ∧ u (i-1) j ≤ M ∧ u i (j+1) ≤ M ∧ u i (j-1) ≤ M) :
    m ≤ u i j + diffusion_stencil_2d r u i j ∧ u i j + diffusion_stencil_2d r u i j ≤ M := by
  unfold diffusion_stencil_2d
  obtain ⟨h0, h1, h2, h3, h4⟩ := hm
  obtain ⟨g0, g1, g2, g3, g4⟩ := hM
  have e : u i j + r * ((-4 : K) * u i j + u (i + 1) j + u i (j + 1) + u i (j - 1) + u (i - 1) j)
      = (1 - 4 * r) * u i j + r * u (i+1) j + r * u (i-1) j + r * u i (j+1) + r * u i (j-1) := by ring
  have h14 : 0 ≤ 1 - 4 * r := by linarith
  rw [e]
  constructor
  · have : m = (1 - 4 * r) * m + r * m + r * m + r * m + r * m := by ring
    rw [this]
    have a0 := mul_le_mul_of_nonneg_left h0 h14
    have a1 := mul_le_mul_of_nonneg_left h1 hr0
    have a2 := mul_le_mul_of_nonneg_left h2 hr0
    have a3 := mul_le_mul_of_nonneg_left h3 hr0
    have a4 := mul_le_mul_of_nonneg_left h4 hr0
    linarith
  · have : M = (1 - 4 * r) * M + r * M + r * M + r * M + r * M := by ring
    rw [this]
    have a0 := mul_le_mul_of_nonneg_left g0 h14
    have a1 := mul_le_mul_of_nonneg_left g1 hr0
    have a2 := mul_le_mul_of_nonneg_left g2 hr0
    have a3 := mul_le_mul_of_nonneg_left g3 hr0
    have a4 := mul_le_mul_of_nonneg_left g4 hr0
    linarith

/-- kernel level, 3D: `0 ≤ r ≤ 1/6` -/
theorem C16_max_principle_kernel_3d (r : K) (hr0 : 0 ≤ r) (hr : r ≤ 1 / 6) (u : F3 K) (i j k : ℤ) (m M : K)
    (hm : m ≤ u i j k ∧ m ≤ u (i+1) j k ∧ m ≤ u (i-1) j k ∧ m ≤ u i (j+1) k ∧ m ≤ u i (j-1) k
          ∧ m ≤ u i j (k+1) ∧ m ≤ u i j (k-1))
    (hM : u i j k ≤ M ∧ u (i+1) j k ≤ M ∧ u (i-1) j k ≤ M ∧ u i (j+1) k ≤ M ∧ u i (j-1) k ≤ M
          ∧ u i j (k+1) ≤ M ∧ u i j (k-1) ≤ M) :
    m ≤ u i j k + diffusion_stencil_3d r u i j k ∧ u i j k + diffusion_stencil_3d r u i j k ≤ M := by
  unfold diffusion_stencil_3d
  obtain ⟨h0, h1, h2, h3, h4, h5, h6⟩ := hm
  obtain ⟨g0, g1, g2, g3, g4, g5, g6⟩ := hM
  have e : u i j k + r * ((-6 : K) * u i j k + u i j (k - 1) + u (i + 1) j k + u i (j + 1) k + u i (j - 1) k
        + u i j (k + 1) + u (i - 1) j k)
      = (1 - 6 * r) * u i j k + r * u (i+1) j k + r * u (i-1) j k + r * u i (j+1) k + r * u i (j-1) k
        + r * u i j (k+1) + r * u i j (k-1) := by ring
  have h16 : 0 ≤ 1 - 6 * r := by linarith
  rw [e]
  constructor
  · have : m = (1 - 6 * r) * m + r * m + r * m + r * m + r * m + r * m + r * m := by ring
    rw [this]
    have a0 := mul_le_mul_of_nonneg_left h0 h16
    have a1 := mul_le_mul_of_nonneg_left h1 hr0
    have a2 := mul_le_mul_of_nonneg_left h2 hr0
    have a3 := mul_le_mul_of_nonneg_left h3 hr0
    have a4 := mul_le_mul_of_nonneg_left h4 hr0
    have a5 := mul_le_mul_of_nonneg_left h5 hr0
    have a6 := mul_le_mul_of_nonneg_left h6 hr0
    linarith
  · have : M = (1 - 6 * r) * M + r * M + r * M + r * M + r * M + r * M + r * M := by ring
    rw [this]
    have a0 := mul_le_mul_of_nonneg_left g0 h16
    have a1 := mul_le_mul_of_nonneg_left g1 hr0
    have a2 := mul_le_mul_of_nonneg_left g2 hr0
    have a3 := mul_le_mul_of_nonneg_left g3 hr0
    have a4 := mul_le_mul_of_nonneg_left g4 hr0
    have a5 := mul_le_mul_of_nonneg_left g5 hr0
    have a6 := mul_le_mul_of_nonneg_left g6 hr0
    linarith

/-- program level, 2D: after the diffusion time step every cell of the array is either unchanged (boundary
ring) or lies between the bounds of its own five-point neighbourhood before the step -/
theorem C16_max_principle_step_2d {B : Type} [DecidableEq B] (ny nx : ℤ) (hny : 1 ≤ ny) (hnx : 1 ≤ nx) (f flux : B)
    (hne : flux ≠ f) (r : K) (hr0 : 0 ≤ r) (hr : r ≤ 1 / 4) (s : Store2 B K) (i j : ℤ)
    (hi : 0 ≤ i ∧ i < ny) (hj : 0 ≤ j ∧ j < nx) (m M : K)
    (hm : m ≤ s f i j ∧ m ≤ s f (i+1) j ∧ m ≤ s f (i-1) j ∧ m ≤ s f i (j+1) ∧ m ≤ s f i (j-1))
    (hM : s f i j ≤ M ∧ s f (i+1) j ≤ M ∧ s f (i-1) j ≤ M ∧ s f i (j+1) ≤ M ∧ s f i (j-1) ≤ M) :
    (¬ (1 ≤ i ∧ i < ny - 1 ∧ 1 ≤ j ∧ j < nx - 1) → exec2 (diffusionTimestep2D ny nx f flux r) s f i j = s f i j) ∧
    m ≤ exec2 (diffusionTimestep2D ny nx f flux r) s f i j ∧
    exec2 (diffusionTimestep2D ny nx f flux r) s f i j ≤ M := by
  rw [C20.C20_euler_diffusion_2d_explicit ny nx hny hnx f flux hne r s i j hi hj]
  have key := C16_max_principle_kernel_2d r hr0 hr (s f) i j m M hm hM
  unfold diffusion_stencil_2d at key
  split_ifs with h
  · refine ⟨fun hn => absurd h hn, ?_, ?_⟩
    · have := key.1; linarith [this]
    · have := key.2; linarith [this]
  · exact ⟨fun _ => rfl, hm.1, hM.1⟩

/-- the recommended dt always meets the hypothesis of the maximum principle: `ν dt/dx² ≤ 0.9/(2d) ≤ 1/(2d)` -/
theorem C16_recommended_dt_is_monotone (cfl dx nu tol umax : K) (d : ℕ) (hcfl : 0 < cfl) (hdx : 0 < dx)
    (hnu : 0 < nu) (htol : 0 < tol) (hu : 0 ≤ umax) (hd : 0 < d) :
    nu * stableDt cfl dx nu tol umax d / dx ^ 2 ≤ 1 / (2 * (d : K)) := by
  have hd' : (0 : K) < d := by exact_mod_cast hd
  refine le_trans (C16_diffusion_limit cfl dx nu tol umax d hcfl hdx hnu.le htol hu hd hnu) ?_
  apply div_le_div_of_nonneg_right _ (by positivity)
  norm_num

/-- non-vacuity: concrete admissible parameters -/
example : 0 < stableDt (1/10 : ℚ) (1/32) (1/100) (1/1000000) 0 2 :=
  C16_dt_pos _ _ _ _ _ _ (by norm_num) (by norm_num) (by norm_num) (by norm_num) (by norm_num) (by norm_num)

end Sopht.Props.C16
