/-
C16 (3D, program level) — after the 3D diffusion time-step PROGRAM every cell is either unchanged (boundary ring) or
lies between the bounds of its own seven-point neighbourhood before the step, for `0 ≤ r ≤ 1/6`.
-/
import SophtVerif.Props.C16
import SophtVerif.Props.C20_3D

set_option linter.unusedVariables false
set_option linter.unusedSectionVars false

namespace Sopht.Props.C16
open Sopht Sopht.Gen Sopht.Model Sopht.Props.C13

variable {K : Type} [Field K] [LinearOrder K] [IsStrictOrderedRing K]

theorem C16_max_principle_step_3d {B : Type} [DecidableEq B] (nz ny nx : ℤ) (hnz : 1 ≤ nz) (hny : 1 ≤ ny) (hnx : 1 ≤ nx) (f flux : B)
    (hne : flux ≠ f) (r : K) (hr0 : 0 ≤ r) (hr : r ≤ 1 / 6) (s : Store3 B K) (i j k : ℤ) (hb : inBox3 nz ny nx i j k) (m M : K)
    (hm : m ≤ s f i j k ∧ m ≤ s f (i+1) j k ∧ m ≤ s f (i-1) j k ∧ m ≤ s f i (j+1) k ∧ m ≤ s f i (j-1) k
          ∧ m ≤ s f i j (k+1) ∧ m ≤ s f i j (k-1))
    (hM : s f i j k ≤ M ∧ s f (i+1) j k ≤ M ∧ s f (i-1) j k ≤ M ∧ s f i (j+1) k ≤ M ∧ s f i (j-1) k ≤ M
          ∧ s f i j (k+1) ≤ M ∧ s f i j (k-1) ≤ M) :
    (¬ inner3 nz ny nx 1 i j k → exec3 (diffusionTimestep3D nz ny nx f flux r) s f i j k = s f i j k) ∧
    m ≤ exec3 (diffusionTimestep3D nz ny nx f flux r) s f i j k ∧
    exec3 (diffusionTimestep3D nz ny nx f flux r) s f i j k ≤ M := by
  rw [C20.C20_euler_diffusion_3d nz ny nx hnz hny hnx f flux hne r s i j k hb]
  have key := C16_max_principle_kernel_3d r hr0 hr (s f) i j k m M hm hM
  unfold diffusion_stencil_3d at key
  split_ifs with h
  · refine ⟨fun hn => absurd h hn, ?_, ?_⟩
    · have := key.1; linarith [this]
    · have := key.2; linarith [this]
  · exact ⟨fun _ => rfl, hm.1, hM.1⟩

end Sopht.Props.C16
