/-
C17 — saved fields reload exactly; layout on disk; mismatching files are rejected.
Statements about Model/IO.lean (tied to sopht/utils/io.py by the correspondence: real `save`, canonical
dump of the HDF5 file, real `load`, malformed files).  Element type `α` is abstract, so every statement
holds for arbitrary contents (NaN payloads, infinities, denormals).
-/
import SophtVerif.Model.IO
import Mathlib.Tactic.Ring
import Mathlib.Tactic.Linarith

set_option linter.unusedVariables false
set_option linter.unusedSectionVars false

namespace Sopht.Props.C17
open Sopht.Model.IO

variable {α ρ τ : Type}

/-! ### index bookkeeping -/

theorem rotR_rotL (l : List ℕ) : rotR (rotL l) = l := by
  cases l with
  | nil => rfl
  | cons a t => simp [rotL, rotR]

theorem rotL_rotR (l : List ℕ) : rotL (rotR l) = l := by
  unfold rotR
  rcases h : l.getLast? with _ | a
  · have : l = [] := List.getLast?_eq_none_iff.mp h
    subst this; rfl
  · simp only [rotL]
    have hne : l ≠ [] := by
      intro e; subst e; simp at h
    have := List.dropLast_append_getLast hne
    rw [List.getLast?_eq_some_getLast hne] at h
    injection h with h
    rw [← h]; exact this

/-! ### layout on disk (shapes of what `save` writes) -/

/-- Eulerian scalar: one dataset `Eulerian/Scalar/<name>` of shape `(1, *grid)` -/
theorem C17_layout_eulerian_scalar (dim : ℕ) (f : EulField α) (h : f.kind = .scalar) :
    saveEul dim f = [("Eulerian/Scalar/" ++ f.name, f.arr.addLeading)] ∧ f.arr.addLeading.shape = 1 :: f.arr.shape := by
  simp [saveEul, h, eulPath, Arr.addLeading]

/-- Eulerian vector: one dataset per component `Eulerian/Vector/<name>_<c>`, each of shape `(1, *grid)` -/
theorem C17_layout_eulerian_vector (dim : ℕ) (f : EulField α) (h : f.kind = .vector) :
    saveEul dim f = (List.range dim).map (fun c => ("Eulerian/Vector/" ++ (f.name ++ "_" ++ toString c), (f.arr.comp c).addLeading)) ∧
    ∀ c, ((f.arr.comp c).addLeading).shape = 1 :: f.arr.shape.tail := by
  simp [saveEul, h, eulPath, Arr.addLeading, Arr.comp]

/-- Lagrangian grid and vector fields are stored marker-major `(N, dim)` whatever `N` (also `N = dim`) -/
theorem C17_layout_lagrangian (g : LagGrid α) (dim N : ℕ) (hg : g.grid.shape = [dim, N]) :
    (saveLagGrid g).head? = some ("Lagrangian/" ++ g.name ++ "/Grid", g.grid.moveFirstToLast) ∧
    g.grid.moveFirstToLast.shape = [N, dim] ∧
    ∀ f ∈ g.fields, f.kind = .vector → f.arr.shape = [dim, N] →
      saveLagField g.name f = ("Lagrangian/" ++ g.name ++ "/Vector/" ++ f.name, f.arr.moveFirstToLast) ∧
      f.arr.moveFirstToLast.shape = [N, dim] := by
  refine ⟨by simp [saveLagGrid], by simp [Arr.moveFirstToLast, hg, rotL], ?_⟩
  intro f _ hk hs
  simp [saveLagField, hk, lagFieldPath, Arr.moveFirstToLast, hs, rotL]

/-- the vector shape is tested first: a `(dim, N)` field on a grid with `N = dim` markers is a Vector -/
theorem C17_classify_vector_when_N_eq_dim (dim : ℕ) : classifyLag [dim, dim] [dim, dim] = some .vector := by
  simp [classifyLag]

theorem C17_classify_scalar (dim N : ℕ) (rest : List ℕ) (h : N :: rest ≠ [dim, N]) :
    classifyLag [dim, N] (N :: rest) = some .scalar := by
  simp [classifyLag, h]

/-! ### round trips, per kind of field -/

theorem C17_roundtrip_eulerian_scalar (a : Arr α) : (a.addLeading).dropLeading.Same a := by
  constructor
  · simp [Arr.addLeading, Arr.dropLeading]
  · intro idx _; simp [Arr.addLeading, Arr.dropLeading]

theorem C17_roundtrip_eulerian_vector (dim : ℕ) (grid : List ℕ) (a : Arr α) (hs : a.shape = dim :: grid) :
    (Arr.ofComps dim grid fun c => ((a.comp c).addLeading).dropLeading).Same a := by
  constructor
  · simp [Arr.ofComps, hs]
  · intro idx hv
    simp only [Arr.ofComps] at hv ⊢
    cases idx with
    | nil => simp [validIdx] at hv
    | cons c rest => simp [Arr.addLeading, Arr.dropLeading, Arr.comp]

theorem C17_roundtrip_lagrangian_vector (a : Arr α) : (a.moveFirstToLast).moveLastToFirst.Same a := by
  constructor
  · simp [Arr.moveFirstToLast, Arr.moveLastToFirst, rotR_rotL]
  · intro idx _
    simp [Arr.moveFirstToLast, Arr.moveLastToFirst, rotR_rotL]

/-- field-level load of what field-level save wrote: a fresh array of the same shape receives exactly the
saved contents (Lagrangian vector field; `find?` is given as the dataset that save produced) -/
theorem C17_load_lag_field_of_saved (file : File α ρ τ) (g : String) (f f0 : LagField α)
    (hname : f0.name = f.name) (hkind : f0.kind = f.kind) (hshape : f0.arr.shape = f.arr.shape)
    (hfind : file.find? (lagFieldPath g f.kind f.name) = some (saveLagField g f).2) :
    ∃ f', loadLagField file g f0 = .ok f' ∧ f'.arr.Same f.arr ∧ f'.name = f.name := by
  unfold loadLagField
  rw [hname, hkind, hfind]
  cases hk : f.kind with
  | scalar =>
    simp only [saveLagField, hk, assign, hshape, if_true]
    exact ⟨_, rfl, ⟨rfl, fun _ _ => rfl⟩, rfl⟩
  | vector =>
    have hsh : f0.arr.shape = (f.arr.moveFirstToLast).moveLastToFirst.shape := by
      simp [Arr.moveFirstToLast, Arr.moveLastToFirst, rotR_rotL, hshape]
    simp only [saveLagField, hk, assign, hsh, if_true]
    refine ⟨_, rfl, ⟨?_, fun idx _ => ?_⟩, rfl⟩
    · simp [Arr.moveFirstToLast, Arr.moveLastToFirst, rotR_rotL]
    · simp [Arr.moveFirstToLast, Arr.moveLastToFirst, rotR_rotL]

/-! ### rejection -/

/-- a registered Lagrangian field absent from the file ⇒ error -/
theorem C17_reject_missing_lag_field (file : File α ρ τ) (g : String) (f : LagField α)
    (h : file.find? (lagFieldPath g f.kind f.name) = none) :
    loadLagField file g f = .error (.missingField (lagFieldPath g f.kind f.name)) := by
  simp [loadLagField, h]

/-- a registered Lagrangian grid absent from the file ⇒ error (also when the grid has no fields) -/
theorem C17_reject_missing_grid (file : File α ρ τ) (g : LagGrid α)
    (h : file.find? ("Lagrangian/" ++ g.name ++ "/Grid") = none) :
    loadLagGrid file g = .error (.missingGrid g.name) := by
  simp [loadLagGrid, h]

theorem C17_reject_missing_eul_scalar (dim : ℕ) (file : File α ρ τ) (f : EulField α) (hk : f.kind = .scalar)
    (h : file.find? (eulPath .scalar f.name) = none) :
    loadEul dim file f = .error (.missingField (eulPath .scalar f.name)) := by
  simp [loadEul, hk, h]

theorem C17_reject_missing_eul_component (dim : ℕ) (file : File α ρ τ) (f : EulField α) (hk : f.kind = .vector)
    (c : ℕ) (hc : c < dim) (h : file.find? (eulPath .vector (f.name ++ "_" ++ toString c)) = none) :
    ∃ e, loadEul dim file f = .error e := by
  unfold loadEul
  rw [hk]
  simp only
  rcases hf : (List.range dim).find? fun c => (file.find? (eulPath .vector (f.name ++ "_" ++ toString c))).isNone with _ | c'
  · exfalso
    have := List.find?_eq_none.mp hf c (List.mem_range.mpr hc)
    rw [h] at this
    simp at this
  · exact ⟨_, rfl⟩

/-- whole-registry statement: if any registered Lagrangian grid is missing in the file, `load` does not
return normally -/
theorem C17_load_fails_on_missing_grid (close : List ρ → List ρ → Bool) (r : Registry α ρ) (file : File α ρ τ)
    (g : LagGrid α) (hg : g ∈ r.lag) (h : file.find? ("Lagrangian/" ++ g.name ++ "/Grid") = none) :
    ∀ res, load close r file ≠ .ok res := by
  intro res hres
  unfold load at hres
  -- the Lagrangian mapM fails at `g`
  have hfail : ∀ (l : List (LagGrid α)), g ∈ l → ∀ out, l.mapM (loadLagGrid file) ≠ Except.ok out := by
    intro l
    induction l with
    | nil => intro hmem; simp at hmem
    | cons a t ih =>
      intro hmem out hout
      simp only [List.mapM_cons] at hout
      rcases List.mem_cons.mp hmem with rfl | ht
      · rw [C17_reject_missing_grid file g h] at hout
        cases hout
      · cases hq : loadLagGrid file a with
        | error e => rw [hq] at hout; cases hout
        | ok a' =>
          rw [hq] at hout
          cases ht' : t.mapM (loadLagGrid file) with
          | error e => rw [ht'] at hout; cases hout
          | ok t' => exact ih ht t' ht'
  cases hA : loadEulPart close r file with
  | error e => rw [hA] at hres; cases hres
  | ok eul =>
    rw [hA] at hres
    cases hl : r.lag.mapM (loadLagGrid file) with
    | error e => rw [hl] at hres; cases hres
    | ok out => exact hfail r.lag hg out hl

/-- Eulerian parameters outside the `allclose` tolerance ⇒ error, never a normal return (origin shown;
`dx` and grid size are the next two checks of the same chain) -/
theorem C17_reject_origin (close : List ρ → List ρ → Bool) (r : Registry α ρ) (file : File α ρ τ) (p : EulParams ρ)
    (hne : r.eul.isEmpty = false) (hp : file.params = some p) (hbad : close r.params.origin p.origin = false) :
    ∀ res, load close r file ≠ .ok res := by
  intro res hres
  unfold load at hres
  have hA : ∃ e, loadEulPart close r file = .error e := by
    unfold loadEulPart
    simp only [hne, Bool.false_eq_true, if_false]
    cases hd : r.eulDefined
    · exact ⟨.gridNotDefined, by simp⟩
    · simp only [Bool.not_true, Bool.false_eq_true, if_false]
      cases hm : r.eul.mapM (loadEul r.dim file) with
      | error e => exact ⟨e, rfl⟩
      | ok fs => simp only [hp, hbad, Bool.not_false, if_true]; exact ⟨_, rfl⟩
  obtain ⟨e, he⟩ := hA
  rw [he] at hres
  cases hres

/-- non-vacuity: a concrete 2D registry with a 2-marker grid (N = dim) and a vector field round-trips at
the dataset level with shape (N, dim) -/
example : (saveLagField "g" (⟨"v", .vector, ⟨[2, 2], fun idx => idx⟩⟩ : LagField (List ℕ))).2.get [1, 0] = [0, 1] := by
  simp [saveLagField, Arr.moveFirstToLast, rotR]

end Sopht.Props.C17
