/-
C17 (whole registry) — `load ∘ save` restores every registered field at once.

For any registry `r` (any number of Eulerian scalar / vector fields, any number of Lagrangian grids with any
number of scalar / vector fields each, abstract element type) whose arrays have the shapes their kinds promise,
and whose dataset paths are pairwise distinct (`PathsNodup`: an explicit, decidable well-formedness predicate;
h5py itself refuses a duplicate path), loading the file written by `save r t` into a FRESH registry `r0` of the
same structure (same names, kinds and shapes; arbitrary contents) returns normally with the stored time and
every array equal (`Arr.Same`: same shape, same element at every valid index) to the saved one.
-/
import SophtVerif.Props.C17
import Mathlib.Data.List.Forall2

set_option linter.unusedVariables false
set_option linter.unusedSectionVars false

namespace Sopht.Props.C17
open Sopht.Model.IO

variable {α ρ τ : Type}

/-! ### lookup in a duplicate-free dataset list -/

theorem find_of_mem (ds : List (String × Arr α)) (hnd : (ds.map (·.1)).Nodup) (p : String) (a : Arr α)
    (h : (p, a) ∈ ds) : ((ds.find? fun d => d.1 == p).map (·.2)) = some a := by
  induction ds with
  | nil => simp at h
  | cons d t ih =>
    simp only [List.map_cons, List.nodup_cons] at hnd
    rcases List.mem_cons.mp h with rfl | ht
    · simp
    · have hne : d.1 ≠ p := by
        intro he
        apply hnd.1
        rw [he]
        exact List.mem_map.mpr ⟨(p, a), ht, rfl⟩
      have : (d.1 == p) = false := by simpa using hne
      rw [List.find?_cons, this]
      exact ih hnd.2 ht

theorem file_find_of_mem (file : File α ρ τ) (hnd : (file.datasets.map (·.1)).Nodup) (p : String) (a : Arr α)
    (h : (p, a) ∈ file.datasets) : file.find? p = some a := find_of_mem file.datasets hnd p a h

/-! ### `mapM` in `Except` -/

theorem mapM_ok {A B ε : Type} (g : A → Except ε B) (l : List A) (l' : List B)
    (h : List.Forall₂ (fun a b => g a = .ok b) l l') : l.mapM g = .ok l' := by
  induction h with
  | nil => rfl
  | cons hab _ ih => simp only [List.mapM_cons, hab, ih]; rfl

/-! ### "same structure" relations -/

def EulField.Like (f0 f : EulField α) : Prop := f0.name = f.name ∧ f0.kind = f.kind ∧ f0.arr.shape = f.arr.shape
def LagField.Like (f0 f : LagField α) : Prop := f0.name = f.name ∧ f0.kind = f.kind ∧ f0.arr.shape = f.arr.shape
def LagGrid.Like (g0 g : LagGrid α) : Prop :=
  g0.name = g.name ∧ g0.grid.shape = g.grid.shape ∧ List.Forall₂ LagField.Like g0.fields g.fields

def EulField.Restored (f' f : EulField α) : Prop := f'.name = f.name ∧ f'.kind = f.kind ∧ f'.arr.Same f.arr
def LagField.Restored (f' f : LagField α) : Prop := f'.name = f.name ∧ f'.kind = f.kind ∧ f'.arr.Same f.arr
def LagGrid.Restored (g' g : LagGrid α) : Prop :=
  g'.name = g.name ∧ g'.grid.Same g.grid ∧ List.Forall₂ LagField.Restored g'.fields g.fields

/-- the kinds promise the shapes (what `add_as_eulerian_fields_for_io` checks) -/
def EulField.WellShaped (dim : ℕ) (grid : List ℕ) (f : EulField α) : Prop :=
  match f.kind with
  | .scalar => f.arr.shape = grid
  | .vector => f.arr.shape = dim :: grid

/-! ### Eulerian fields -/

theorem loadEul_of_saved (dim : ℕ) (grid : List ℕ) (file : File α ρ τ) (hnd : (file.datasets.map (·.1)).Nodup)
    (f f0 : EulField α) (hlike : EulField.Like f0 f) (hws : EulField.WellShaped dim grid f)
    (hmem : ∀ d ∈ saveEul dim f, d ∈ file.datasets) :
    ∃ f', loadEul dim file f0 = .ok f' ∧ EulField.Restored f' f := by
  obtain ⟨hn, hk, hs⟩ := hlike
  unfold loadEul
  rw [hk, hn]
  cases hkind : f.kind with
  | scalar =>
    simp only [EulField.WellShaped, hkind] at hws
    have hfind := file_find_of_mem file hnd (eulPath .scalar f.name) f.arr.addLeading
      (hmem _ (by simp [saveEul, hkind]))
    simp only [hfind]
    have hsh : f0.arr.shape = (f.arr.addLeading).dropLeading.shape := by simp [Arr.addLeading, Arr.dropLeading, hs]
    simp only [assign, hsh, if_true]
    refine ⟨_, rfl, rfl, hkind.symm, ?_⟩
    exact C17_roundtrip_eulerian_scalar f.arr
  | vector =>
    simp only [EulField.WellShaped, hkind] at hws
    have hfind : ∀ c, c < dim → file.find? (eulPath .vector (f.name ++ "_" ++ toString c)) = some ((f.arr.comp c).addLeading) := by
      intro c hc
      apply file_find_of_mem file hnd
      apply hmem
      simp only [saveEul, hkind, List.mem_map, List.mem_range]
      exact ⟨c, hc, rfl⟩
    have hnone : ((List.range dim).find? fun c => (file.find? (eulPath .vector (f.name ++ "_" ++ toString c))).isNone) = none := by
      apply List.find?_eq_none.mpr
      intro c hc
      show ¬ ((file.find? (eulPath .vector (f.name ++ "_" ++ toString c))).isNone = true)
      rw [hfind c (List.mem_range.mp hc)]
      simp
    simp only [hnone]
    split_ifs with hall
    · refine ⟨_, rfl, rfl, hkind.symm, ?_⟩
      constructor
      · simp [Arr.ofComps, hs, hws]
      · intro idx hv
        simp only [Arr.ofComps] at hv ⊢
        cases idx with
        | nil => simp [validIdx] at hv
        | cons c rest =>
          simp only [hs, hws, List.tail_cons, validIdx] at hv
          show (match file.find? (eulPath .vector (f.name ++ "_" ++ toString c)) with
            | some d => d.dropLeading
            | none => f0.arr.comp c).get rest = f.arr.get (c :: rest)
          rw [hfind c hv.1]
          simp [Arr.addLeading, Arr.dropLeading, Arr.comp]
    · exfalso
      apply hall
      apply List.all_eq_true.mpr
      intro c hc
      show decide ((match file.find? (eulPath .vector (f.name ++ "_" ++ toString c)) with
            | some d => d.dropLeading
            | none => f0.arr.comp c).shape = f0.arr.shape.tail) = true
      rw [hfind c (List.mem_range.mp hc)]
      simp [Arr.addLeading, Arr.dropLeading, Arr.comp, hs]

theorem loadEuls_of_saved (dim : ℕ) (grid : List ℕ) (file : File α ρ τ) (hnd : (file.datasets.map (·.1)).Nodup)
    (l0 l : List (EulField α)) (hl : List.Forall₂ EulField.Like l0 l) (hws : ∀ f ∈ l, EulField.WellShaped dim grid f)
    (hmem : ∀ f ∈ l, ∀ d ∈ saveEul dim f, d ∈ file.datasets) :
    ∃ l', l0.mapM (loadEul dim file) = .ok l' ∧ List.Forall₂ EulField.Restored l' l := by
  induction hl with
  | nil => exact ⟨[], rfl, List.Forall₂.nil⟩
  | @cons f0 f t0 t' hl _ ih =>
    obtain ⟨f', hf', hres⟩ := loadEul_of_saved dim grid file hnd f f0 hl
      (hws f (List.mem_cons_self ..)) (hmem f (List.mem_cons_self ..))
    obtain ⟨fs', hfs', hall⟩ := ih (fun x hx => hws x (List.mem_cons_of_mem _ hx)) (fun x hx => hmem x (List.mem_cons_of_mem _ hx))
    exact ⟨f' :: fs', by simp only [List.mapM_cons, hf', hfs']; rfl, List.Forall₂.cons hres hall⟩

/-! ### Lagrangian grids -/

theorem loadLagField_keeps (file : File α ρ τ) (g : String) (f0 f' : LagField α) (h : loadLagField file g f0 = .ok f') :
    f'.kind = f0.kind ∧ f'.name = f0.name := by
  unfold loadLagField at h
  cases hfd : file.find? (lagFieldPath g f0.kind f0.name) with
  | none => rw [hfd] at h; cases h
  | some d =>
    rw [hfd] at h
    simp only at h
    split at h
    · cases h
    · injection h with h; rw [← h]; exact ⟨rfl, rfl⟩

theorem loadLagFields_of_saved (file : File α ρ τ) (hnd : (file.datasets.map (·.1)).Nodup) (gname : String)
    (l0 l : List (LagField α)) (hl : List.Forall₂ LagField.Like l0 l)
    (hm : ∀ f ∈ l, saveLagField gname f ∈ file.datasets) :
    ∃ l', l0.mapM (loadLagField file gname) = .ok l' ∧ List.Forall₂ LagField.Restored l' l := by
  induction hl with
  | nil => exact ⟨[], rfl, List.Forall₂.nil⟩
  | @cons f0 f t0 t hlk _ ih =>
    obtain ⟨hn', hk', hs'⟩ := hlk
    have hfind : file.find? (lagFieldPath gname f.kind f.name) = some (saveLagField gname f).2 := by
      apply file_find_of_mem file hnd
      have := hm f (List.mem_cons_self ..)
      cases hkk : f.kind <;> simpa [saveLagField, hkk] using this
    obtain ⟨f', hf', hsame, hname'⟩ := C17_load_lag_field_of_saved file gname f f0 hn' hk' hs' hfind
    obtain ⟨fs', hfs', hall⟩ := ih (fun x hx => hm x (List.mem_cons_of_mem _ hx))
    have hkeep := loadLagField_keeps file gname f0 f' hf'
    exact ⟨f' :: fs', by simp only [List.mapM_cons, hf', hfs']; rfl,
      List.Forall₂.cons ⟨hname', hkeep.1.trans hk', hsame⟩ hall⟩

theorem loadLagGrid_of_saved (file : File α ρ τ) (hnd : (file.datasets.map (·.1)).Nodup)
    (g g0 : LagGrid α) (hlike : LagGrid.Like g0 g) (hmem : ∀ d ∈ saveLagGrid g, d ∈ file.datasets) :
    ∃ g', loadLagGrid file g0 = .ok g' ∧ LagGrid.Restored g' g := by
  obtain ⟨hn, hgs, hf⟩ := hlike
  unfold loadLagGrid
  rw [hn]
  have hgrid := file_find_of_mem file hnd ("Lagrangian/" ++ g.name ++ "/Grid") g.grid.moveFirstToLast
    (hmem _ (by simp [saveLagGrid]))
  simp only [hgrid]
  have hsh : g0.grid.shape = (g.grid.moveFirstToLast).moveLastToFirst.shape := by
    simp [Arr.moveFirstToLast, Arr.moveLastToFirst, rotR_rotL, hgs]
  simp only [assign, hsh, if_true]
  obtain ⟨fs', hfs', hall⟩ := loadLagFields_of_saved file hnd g.name g0.fields g.fields hf (by
    intro f hfm
    apply hmem
    simp only [saveLagGrid, List.mem_cons, List.mem_map]
    exact Or.inr ⟨f, hfm, rfl⟩)
  simp only [hfs']
  refine ⟨_, rfl, rfl, ?_, hall⟩
  constructor
  · simp [Arr.moveFirstToLast, Arr.moveLastToFirst, rotR_rotL]
  · intro idx _; simp [Arr.moveFirstToLast, Arr.moveLastToFirst, rotR_rotL]

theorem loadLagGrids_of_saved (file : File α ρ τ) (hnd : (file.datasets.map (·.1)).Nodup)
    (l0 l : List (LagGrid α)) (hl : List.Forall₂ LagGrid.Like l0 l)
    (hmem : ∀ g ∈ l, ∀ d ∈ saveLagGrid g, d ∈ file.datasets) :
    ∃ l', l0.mapM (loadLagGrid file) = .ok l' ∧ List.Forall₂ LagGrid.Restored l' l := by
  induction hl with
  | nil => exact ⟨[], rfl, List.Forall₂.nil⟩
  | @cons g0 g t0 t' hlk _ ih =>
    obtain ⟨g', hg', hres⟩ := loadLagGrid_of_saved file hnd g g0 hlk (hmem g (List.mem_cons_self ..))
    obtain ⟨gs', hgs', hall⟩ := ih (fun x hx => hmem x (List.mem_cons_of_mem _ hx))
    exact ⟨g' :: gs', by simp only [List.mapM_cons, hg', hgs']; rfl, List.Forall₂.cons hres hall⟩

/-! ### the registry -/

/-- well-formed registry: Eulerian arrays have the shapes of their kinds, and all dataset paths that `save`
writes are pairwise distinct -/
structure Registry.WellFormed (r : Registry α ρ) (t : τ) : Prop where
  shaped : ∀ f ∈ r.eul, EulField.WellShaped r.dim r.gridShape f
  paths : (((save r t).datasets).map (·.1)).Nodup
  defined : r.eul ≠ [] → r.eulDefined = true

/-- fresh registry of the same structure -/
structure Registry.Like (r0 r : Registry α ρ) : Prop where
  dim : r0.dim = r.dim
  grid : r0.gridShape = r.gridShape
  defined : r0.eulDefined = r.eulDefined
  params : r0.params = r.params
  eul : List.Forall₂ EulField.Like r0.eul r.eul
  lag : List.Forall₂ LagGrid.Like r0.lag r.lag

/-- C17 (whole registry): save, then load into a fresh registry of the same structure, restores every field of
every kind and returns the stored time; `close` is any reflexive comparison (`np.allclose(x, x)`) -/
theorem C17_roundtrip_registry (close : List ρ → List ρ → Bool) (hclose : ∀ l, close l l = true)
    (r r0 : Registry α ρ) (t : τ) (hwf : Registry.WellFormed r t) (hlike : Registry.Like r0 r) :
    ∃ r', load close r0 (save r t) = .ok (r', t) ∧
      List.Forall₂ EulField.Restored r'.eul r.eul ∧ List.Forall₂ LagGrid.Restored r'.lag r.lag := by
  set file := save r t with hfile
  have hnd := hwf.paths
  -- Eulerian part
  have hE : ∃ eul', loadEulPart close r0 file = .ok eul' ∧ List.Forall₂ EulField.Restored eul' r.eul := by
    unfold loadEulPart
    by_cases hemp : r.eul = []
    · have h0 : r0.eul = [] := by
        have := hlike.eul; rw [hemp] at this; exact List.forall₂_nil_right_iff.mp this
      simp only [h0, List.isEmpty_nil, if_true]
      exact ⟨[], rfl, by rw [hemp]; exact List.Forall₂.nil⟩
    · have hdef := hwf.defined hemp
      have hne0 : r0.eul.isEmpty = false := by
        cases h0 : r0.eul with
        | nil =>
          have := hlike.eul; rw [h0] at this
          exact absurd (List.forall₂_nil_left_iff.mp this) hemp
        | cons _ _ => rfl
      simp only [hne0, Bool.false_eq_true, if_false, hlike.defined, hdef, Bool.not_true]
      have hmemE : ∀ f ∈ r.eul, ∀ d ∈ saveEul r.dim f, d ∈ file.datasets := by
        intro f hf d hd
        simp only [hfile, save, hdef, if_true, List.mem_append, List.mem_flatMap]
        exact Or.inl ⟨f, hf, hd⟩
      obtain ⟨eul', he, hres⟩ := loadEuls_of_saved r.dim r.gridShape file hnd r0.eul r.eul hlike.eul hwf.shaped hmemE
      rw [hlike.dim]
      simp only [he]
      have hp : file.params = some r.params := by simp [hfile, save, hdef]
      simp only [hp, hlike.params, hclose, Bool.not_true, Bool.false_eq_true, if_false]
      exact ⟨eul', rfl, hres⟩
  -- Lagrangian part
  have hL : ∃ lag', r0.lag.mapM (loadLagGrid file) = .ok lag' ∧ List.Forall₂ LagGrid.Restored lag' r.lag := by
    apply loadLagGrids_of_saved file hnd r0.lag r.lag hlike.lag
    intro g hg d hd
    simp only [hfile, save, List.mem_append, List.mem_flatMap]
    exact Or.inr ⟨g, hg, hd⟩
  obtain ⟨eul', hEe, hEr⟩ := hE
  obtain ⟨lag', hLe, hLr⟩ := hL
  refine ⟨{ r0 with eul := eul', lag := lag' }, ?_, hEr, hLr⟩
  unfold load
  simp only [hEe, hLe]
  rfl

/-- non-vacuity: a concrete 2D registry (Eulerian scalar + vector, one Lagrangian grid with N = dim = 2 markers
carrying a vector and a scalar field) is well-formed, so the round-trip theorem applies to it -/
def demoRegistry : Registry (List ℕ) ℕ :=
  { dim := 2, gridShape := [2, 3], eulDefined := true, params := ⟨[0, 0], [1, 1], [2, 3]⟩,
    eul := [⟨"w", .scalar, ⟨[2, 3], fun i => i⟩⟩, ⟨"u", .vector, ⟨[2, 2, 3], fun i => i⟩⟩],
    lag := [⟨"body", ⟨[2, 2], fun i => i⟩, [⟨"f", .vector, ⟨[2, 2], fun i => i⟩⟩, ⟨"s", .scalar, ⟨[2], fun i => i⟩⟩]⟩] }

example : Registry.WellFormed demoRegistry (0 : ℕ) where
  shaped := by
    intro f hf
    simp only [demoRegistry, List.mem_cons, List.mem_nil_iff, or_false] at hf
    rcases hf with rfl | rfl <;> simp [EulField.WellShaped, demoRegistry]
  paths := by decide
  defined := fun _ => rfl

/-! ### the convenience class `EulerianFieldIO` -/

/-- C17 (convenience class): the origin `EulerianFieldIO` derives from a position field with lower corner (x, y, z) is
(z, y, x): array-axis order, the order `define_eulerian_grid` documents -/
theorem C17_eulerian_field_io_origin_zyx (x y z dx : ρ) (g : List ρ) :
    (eulerianFieldIOParams [x, y, z] dx g).origin = [z, y, x] ∧ (eulerianFieldIOParams [x, y] dx g).origin = [y, x] ∧
    (eulerianFieldIOParams [x, y, z] dx g).dx = [dx, dx, dx] ∧ (eulerianFieldIOParams [x, y, z] dx g).gridSize = g :=
  ⟨rfl, rfl, rfl, rfl⟩

/-- C17 (convenience class, round trip across classes): a file saved by a registry whose grid parameters were derived
the `EulerianFieldIO` way loads, with every field restored and the stored time returned, into any registry of the same
structure that was given the origin in z-y-x order (`corner.reverse`) through `define_eulerian_grid` -/
theorem C17_eulerian_field_io_roundtrip (close : List ρ → List ρ → Bool) (hclose : ∀ l, close l l = true)
    (corner : List ρ) (dx : ρ) (g : List ρ) (r r0 : Registry α ρ) (t : τ)
    (hr : r.params = eulerianFieldIOParams corner dx g)
    (hr0 : r0.params = ⟨corner.reverse, corner.map fun _ => dx, g⟩)
    (hwf : Registry.WellFormed r t) (hdim : r0.dim = r.dim) (hgrid : r0.gridShape = r.gridShape)
    (hdef : r0.eulDefined = r.eulDefined) (heul : List.Forall₂ EulField.Like r0.eul r.eul)
    (hlag : List.Forall₂ LagGrid.Like r0.lag r.lag) :
    ∃ r', load close r0 (save r t) = .ok (r', t) ∧
      List.Forall₂ EulField.Restored r'.eul r.eul ∧ List.Forall₂ LagGrid.Restored r'.lag r.lag :=
  C17_roundtrip_registry close hclose r r0 t hwf ⟨hdim, hgrid, hdef, by rw [hr, hr0]; rfl, heul, hlag⟩

/-- C17 (convenience class, rejection): a reader that was given the lower corner in the MIRRORED (x-y-z) order refuses
the file whenever the corner is not `allclose` to its own reversal — never a normal return with the grid misplaced -/
theorem C17_eulerian_field_io_mirrored_origin_refused (close : List ρ → List ρ → Bool)
    (corner : List ρ) (dx : ρ) (g : List ρ) (r r0 : Registry α ρ) (t : τ)
    (hr : r.params = eulerianFieldIOParams corner dx g) (hdef : r.eulDefined = true)
    (hr0 : r0.params.origin = corner) (hne : r0.eul.isEmpty = false)
    (hbad : close corner corner.reverse = false) :
    ∀ res, load close r0 (save r t) ≠ .ok res := by
  apply C17_reject_origin close r0 (save r t) r.params hne
  · simp [save, hdef]
  · rw [hr0, hr]; exact hbad

end Sopht.Props.C17
