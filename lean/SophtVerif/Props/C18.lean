/-
C18 — a run resumed from a checkpoint continues as the uninterrupted run would have.
  * no hidden state in scratch buffers: Poisson-solve glue (`C18_poisson_buffer_determined_2d`), the part of
    the 2D step before the solve (`C01_scratch_free_2d`, re-exported), the coupling (C10: the interactor's
    state is `(I, D, t)` only);
  * `C18_resume`: for ANY step map whose public result does not depend on the scratch part of the state,
    stopping after `k` steps, replacing the scratch state arbitrarily (fresh objects), and continuing gives the
    uninterrupted public trajectory — for every `k` and every run length (induction on steps);
  * the restart helper (Model/Restart.lean): picks the largest index, returns the flow time, refuses when there
    is no checkpoint or when flow and body times differ.
-/
import SophtVerif.Model.Restart
import SophtVerif.Props.C01
import SophtVerif.Props.C10

set_option linter.unusedVariables false
set_option linter.unusedSectionVars false
set_option linter.unusedSimpArgs false
set_option linter.unusedTactic false
set_option linter.unreachableTactic false

namespace Sopht.Props.C18
open Sopht Sopht.Model Sopht.Gen

/-! ### generic resume theorem -/

section resume
variable {P S : Type}

/-- run `n` steps of `step` (with per-step inputs `inp i`, e.g. dt and free stream) from a public state `p`
and a scratch state `s` -/
def runSteps {I : Type} (step : I → P × S → P × S) (inp : ℕ → I) : ℕ → ℕ → P × S → P × S
  | _, 0, st => st
  | i, n + 1, st => runSteps step inp (i + 1) n (step (inp i) st)

/-- the public part after `n` steps does not depend on the initial scratch state -/
theorem runSteps_scratch_free {I : Type} (step : I → P × S → P × S) (inp : ℕ → I)
    (hfree : ∀ i p s s', (step i (p, s)).1 = (step i (p, s')).1) (i n : ℕ) (p : P) (s s' : S) :
    (runSteps step inp i n (p, s)).1 = (runSteps step inp i n (p, s')).1 := by
  induction n generalizing i p s s' with
  | zero => rfl
  | succ n ih =>
    simp only [runSteps]
    have h := hfree (inp i) p s s'
    rcases h1 : step (inp i) (p, s) with ⟨p1, s1⟩
    rcases h2 : step (inp i) (p, s') with ⟨p2, s2⟩
    rw [h1, h2] at h
    simp only at h
    subst h
    exact ih (i + 1) p1 s1 s2

theorem runSteps_add {I : Type} (step : I → P × S → P × S) (inp : ℕ → I) (i k m : ℕ) (st : P × S) :
    runSteps step inp i (k + m) st = runSteps step inp (i + k) m (runSteps step inp i k st) := by
  induction k generalizing i st with
  | zero => simp [runSteps]
  | succ k ih =>
    rw [Nat.succ_add]
    simp only [runSteps]
    rw [ih]
    congr 1
    omega

/-- C18 (resume): checkpoint after `k` steps, `restore ∘ save` is the identity on the public state
(C17), the scratch state of the fresh objects is arbitrary (`sFresh`), continue for `m` steps: the public
state equals that of the uninterrupted run of `k + m` steps -/
theorem C18_resume {I : Type} (step : I → P × S → P × S) (inp : ℕ → I)
    (hfree : ∀ i p s s', (step i (p, s)).1 = (step i (p, s')).1)
    (roundtrip : P → P) (hio : ∀ p, roundtrip p = p) (k m : ℕ) (p0 : P) (s0 sFresh : S) :
    (runSteps step inp k m (roundtrip (runSteps step inp 0 k (p0, s0)).1, sFresh)).1
      = (runSteps step inp 0 (k + m) (p0, s0)).1 := by
  rw [runSteps_add, hio, Nat.zero_add]
  rcases h : runSteps step inp 0 k (p0, s0) with ⟨pk, sk⟩
  exact runSteps_scratch_free step inp hfree k m pk sFresh sk

end resume

/-! ### scratch buffers of the modelled programs -/

variable {B K : Type} [DecidableEq B] [Field K] [LinearOrder K] [IsStrictOrderedRing K]

/-- the domain-doubled buffer handed to `rfft` is determined by the right-hand side alone: zero outside the
`ny × nx` corner, the right-hand side inside — whatever the buffer held from earlier solves -/
theorem C18_poisson_buffer_determined_2d (ny nx : ℤ) (hny : 0 ≤ ny) (hnx : 0 ≤ nx) (pb : Poisson2Bufs B) (rhs : B)
    (hne : rhs ≠ pb.dbl) (s : Store2 B K) (i j : ℤ) (hi : 0 ≤ i ∧ i < 2 * ny) (hj : 0 ≤ j ∧ j < 2 * nx) :
    exec2 (poissonPre2D ny nx pb rhs) s pb.dbl i j = if (i < ny ∧ j < nx) then s rhs i j else 0 := by
  obtain ⟨hi0, hi1⟩ := hi
  obtain ⟨hj0, hj1⟩ := hj
  prog_simp [poissonPre2D, setFixedVal2D, elementwiseCopy2D, call_set_fixed_val_stencil_2d,
    call_elementwise_copy_stencil_2d, set_fixed_val_stencil_2d, elementwise_copy_stencil_2d, hne]
  split_ifs <;> first | rfl | (exfalso; omega)

/-- hence two solves started from different buffer histories see the same input -/
theorem C18_poisson_history_free_2d (ny nx : ℤ) (hny : 0 ≤ ny) (hnx : 0 ≤ nx) (pb : Poisson2Bufs B) (rhs : B)
    (hne : rhs ≠ pb.dbl) (s s' : Store2 B K) (hrhs : s rhs = s' rhs) (i j : ℤ) (hi : 0 ≤ i ∧ i < 2 * ny)
    (hj : 0 ≤ j ∧ j < 2 * nx) :
    exec2 (poissonPre2D ny nx pb rhs) s pb.dbl i j = exec2 (poissonPre2D ny nx pb rhs) s' pb.dbl i j := by
  rw [C18_poisson_buffer_determined_2d ny nx hny hnx pb rhs hne s i j hi hj,
    C18_poisson_buffer_determined_2d ny nx hny hnx pb rhs hne s' i j hi hj, hrhs]

/-- the pre-solve part of the 2D step keeps no state in the scratch buffer (re-export of C01) -/
theorem C18_step_scratch_free_2d (T : Transc K) (c : NS2Cfg K) (hw : c.width = 0) (hny : 1 ≤ c.ny) (hnx : 1 ≤ c.nx)
    (b : NS2Bufs B) (hd : C01.Distinct2 b) (s s' : Store2 B K) (hsame : ∀ x, x ≠ b.bs → s x = s' x) :
    let prog := (if c.forcing then updateVorticityFromForcing2D c.ny c.nx b.vort b.force (c.dt / (2 * c.dx * c.rho)) else [])
      ++ advectionTimestep2D c.ny c.nx b.vort b.bs b.vel (c.dt / c.dx)
      ++ diffusionTimestep2D c.ny c.nx b.vort b.bs (c.nu * c.dt / c.dx / c.dx)
    Spec.EqBox c.ny c.nx (exec2 prog s b.vort) (exec2 prog s' b.vort) :=
  C01.C01_scratch_free_2d T c hw hny hnx b hd s s' hsame

/-! ### restart helper -/

section helper
variable {τ : Type} [DecidableEq τ]

/-- refuses when no checkpoint exists -/
theorem C18_restart_no_checkpoint (loadTime : String → Option τ) (bodyTime : τ) :
    restartSimulation [] loadTime bodyTime = .noCheckpoint := rfl

/-- a normal return means: the index used is the LARGEST present, all three files of that index loaded, the
flow time equals the body time, and the returned value is the flow time of that checkpoint -/
theorem C18_restart_ok_iff (indices : List ℕ) (loadTime : String → Option τ) (bodyTime t : τ) :
    restartSimulation indices loadTime bodyTime = .ok t ↔
      ∃ latest, latest ∈ indices ∧ (∀ n ∈ indices, n ≤ latest) ∧
        loadTime ("sopht_" ++ pad4 latest ++ ".h5") = some t ∧
        (loadTime ("rod_" ++ pad4 latest ++ ".h5")).isSome ∧
        (loadTime ("forcing_grid_" ++ pad4 latest ++ ".h5")).isSome ∧ t = bodyTime := by
  unfold restartSimulation
  constructor
  · intro h
    rcases hm : indices.max? with _ | latest
    · rw [hm] at h; cases h
    · rw [hm] at h
      simp only at h
      have hmem := List.max?_mem hm
      have hle : ∀ n ∈ indices, n ≤ latest := fun n hn => (List.max?_le_iff hm).mp (le_refl _) n hn
      refine ⟨latest, hmem, hle, ?_⟩
      rcases h1 : loadTime ("sopht_" ++ pad4 latest ++ ".h5") with _ | t1
      · rw [h1] at h; cases h
      · rw [h1] at h
        rcases h2 : loadTime ("rod_" ++ pad4 latest ++ ".h5") with _ | t2
        · rw [h2] at h; cases h
        · rw [h2] at h
          rcases h3 : loadTime ("forcing_grid_" ++ pad4 latest ++ ".h5") with _ | t3
          · rw [h3] at h; cases h
          · rw [h3] at h
            simp only at h
            split_ifs at h with heq
            · injection h with h
              subst h
              exact ⟨rfl, rfl, rfl, heq⟩
  · rintro ⟨latest, hmem, hle, h1, h2, h3, ht⟩
    have hm : indices.max? = some latest := by
      rw [List.max?_eq_some_iff]
      exact ⟨hmem, hle⟩
    rw [hm]
    simp only [h1]
    rcases hh2 : loadTime ("rod_" ++ pad4 latest ++ ".h5") with _ | t2
    · rw [hh2] at h2; cases h2
    · rcases hh3 : loadTime ("forcing_grid_" ++ pad4 latest ++ ".h5") with _ | t3
      · rw [hh3] at h3; cases h3
      · simp [ht]

/-- refuses (no normal return) when flow and body times disagree -/
theorem C18_restart_time_mismatch (indices : List ℕ) (loadTime : String → Option τ) (bodyTime t : τ)
    (h : restartSimulation indices loadTime bodyTime = .ok t) : t = bodyTime :=
  ((C18_restart_ok_iff indices loadTime bodyTime t).mp h).choose_spec.2.2.2.2.2

/-- the file names use at least four digits, zero padded -/
example : pad4 7 = "0007" ∧ pad4 123 = "0123" ∧ pad4 12345 = "12345" := by decide

/-- non-vacuity: with checkpoints 3 and 12 present the helper loads index 12 -/
example : restartSimulation [3, 12, 7]
    (fun n => if n = "sopht_0012.h5" ∨ n = "rod_0012.h5" ∨ n = "forcing_grid_0012.h5" then some (5 : ℕ) else none) 5 = .ok 5 := by
  decide

end helper

end Sopht.Props.C18
