/-
C18 (3D, no hidden state) — the vorticity the 3D Navier–Stokes step hands to the Poisson solve (forcing on/off,
vorticity filter on/off of either type and any order ≥ 1, boundary-zone width 0) does not depend on what the shared
work array `buffer_vector_field` (the cross-product buffer, the diffusion-flux buffer, the filter flux and work
buffers) held before the step: it is `filter(coreSpec(state))`, an expression in vorticity, velocity and forcing only.
-/
import SophtVerif.Props.C01_3D
import SophtVerif.Props.C19Filter
import SophtVerif.Lemmas.Prog3D

set_option linter.unusedVariables false
set_option linter.unusedSectionVars false

namespace Sopht.Props.C18
open Sopht Sopht.Gen Sopht.Model Sopht.Spec Sopht.Props.C13 Sopht.Props.C01 Sopht.Props.C19

variable {B K : Type} [DecidableEq B] [Field K] [LinearOrder K] [IsStrictOrderedRing K]

/-- the filter stage as an operator on the vector field (identity when the filter is off) -/
def filterStage (c : NS3Cfg K) (w : V3F K) : V3F K :=
  if c.filter then ⟨filterOp c.filterConv c.filterOrder c.nz c.ny c.nx w.x, filterOp c.filterConv c.filterOrder c.nz c.ny c.nx w.y,
    filterOp c.filterConv c.filterOrder c.nz c.ny c.nx w.z⟩ else w

theorem eqB_iff (nz ny nx : ℤ) (f g : F3 K) : EqB nz ny nx f g ↔ EqBox3 nz ny nx f g := Iff.rfl

/-- C01 / C18 (3D pre-solve step incl. the filter): the vorticity handed to the solve is `filterStage(coreSpec(...))` -/
theorem C18_pre_solve_3d_with_filter (T : Transc K) (c : NS3Cfg K) (hw : c.width = 0) (ho : c.filter = true → 1 ≤ c.filterOrder)
    (hnz : 1 ≤ c.nz) (hny : 1 ≤ c.ny) (hnx : 1 ≤ c.nx) (b : NS3Bufs B) (hd : Distinct3 b) (hbxy : b.buf.x ≠ b.buf.y) (s : Store3 B K) :
    EqV c.nz c.ny c.nx (vecOf (exec3 (nsStep3DPre T c b) s) b.vort)
      (filterStage c (coreSpec3 c (vecOf s b.force) (vecOf s b.vel) (vecOf s b.vort))) := by
  have hprog : nsStep3DPre T c b
      = core3 c b ++ (if c.filter then filterVec3D c.filterConv c.filterOrder c.nz c.ny c.nx b.vort b.buf.x b.buf.y else []) := by
    simp [nsStep3DPre, core3, hw, penaliseBoundaryVec3D, penaliseBoundary3D]
  rw [hprog, exec3_append]
  have hcore := core3_spec c hnz hny hnx b hd s
  set s1 := exec3 (core3 c b) s with hs1
  unfold filterStage
  cases hf : c.filter
  · simpa using hcore
  · simp only [if_true]
    obtain ⟨wF, wb, bw, bv, wv⟩ := hd
    obtain ⟨fx, fy, fz, _⟩ := C19_filter_vec_3d c.filterConv c.filterOrder (ho hf) c.nz c.ny c.nx hnz hny hnx b.vort b.buf.x b.buf.y
      wv.axy wv.axz wv.ayz wb.xx wb.yx wb.zx wb.xy wb.yy wb.zy hbxy s1
    refine ⟨?_, ?_, ?_⟩
    · exact fun i j k hb => (fx i j k hb).trans (filterOp_congr _ _ _ _ _ _ _ hcore.1 i j k hb)
    · exact fun i j k hb => (fy i j k hb).trans (filterOp_congr _ _ _ _ _ _ _ hcore.2.1 i j k hb)
    · exact fun i j k hb => (fz i j k hb).trans (filterOp_congr _ _ _ _ _ _ _ hcore.2.2 i j k hb)

/-- C18 (3D, no hidden state): two stores that differ only in the three components of the shared work array give
the same vorticity to the Poisson solve -/
theorem C18_step_scratch_free_3d (T : Transc K) (c : NS3Cfg K) (hw : c.width = 0) (ho : c.filter = true → 1 ≤ c.filterOrder)
    (hnz : 1 ≤ c.nz) (hny : 1 ≤ c.ny) (hnx : 1 ≤ c.nx) (b : NS3Bufs B) (hd : Distinct3 b) (hbxy : b.buf.x ≠ b.buf.y)
    (s s' : Store3 B K) (hsame : ∀ x, x ≠ b.buf.x → x ≠ b.buf.y → x ≠ b.buf.z → s x = s' x)
    (hFb : Distinct33 b.buf b.force) :
    EqV c.nz c.ny c.nx (vecOf (exec3 (nsStep3DPre T c b) s) b.vort) (vecOf (exec3 (nsStep3DPre T c b) s') b.vort) := by
  have h1 := C18_pre_solve_3d_with_filter T c hw ho hnz hny hnx b hd hbxy s
  have h2 := C18_pre_solve_3d_with_filter T c hw ho hnz hny hnx b hd hbxy s'
  obtain ⟨wF, wb, bw, bv, wv⟩ := hd
  have ev : vecOf s b.vort = vecOf s' b.vort := by
    simp only [vecOf, hsame _ wb.xx wb.xy wb.xz, hsame _ wb.yx wb.yy wb.yz, hsame _ wb.zx wb.zy wb.zz]
  have eu : vecOf s b.vel = vecOf s' b.vel := by
    simp only [vecOf, hsame _ bv.xx.symm bv.yx.symm bv.zx.symm, hsame _ bv.xy.symm bv.yy.symm bv.zy.symm, hsame _ bv.xz.symm bv.yz.symm bv.zz.symm]
  have eF : vecOf s b.force = vecOf s' b.force := by
    simp only [vecOf, hsame _ hFb.xx.symm hFb.yx.symm hFb.zx.symm, hsame _ hFb.xy.symm hFb.yy.symm hFb.zy.symm, hsame _ hFb.xz.symm hFb.yz.symm hFb.zz.symm]
  rw [ev, eu, eF] at h1
  exact h1.trans' ⟨fun i j k hb => (h2.1 i j k hb).symm, fun i j k hb => (h2.2.1 i j k hb).symm, fun i j k hb => (h2.2.2 i j k hb).symm⟩

/-! ### 3D Poisson-solve glue -/

/-- the domain-doubled buffer handed to the 3D `rfft` is determined by the right-hand side alone: zero outside the
`nz × ny × nx` corner, the right-hand side inside — whatever the buffer held from earlier solves -/
theorem C18_poisson_buffer_determined_3d (nz ny nx : ℤ) (hnz : 0 ≤ nz) (hny : 0 ≤ ny) (hnx : 0 ≤ nx) (pb : Poisson3Bufs B) (rhs : B)
    (hne : rhs ≠ pb.dbl) (s : Store3 B K) (i j k : ℤ) (hi : 0 ≤ i ∧ i < 2 * nz) (hj : 0 ≤ j ∧ j < 2 * ny) (hk : 0 ≤ k ∧ k < 2 * nx) :
    exec3 (poissonPre3D nz ny nx pb rhs) s pb.dbl i j k = if (i < nz ∧ j < ny ∧ k < nx) then s rhs i j k else 0 := by
  obtain ⟨hi0, hi1⟩ := hi
  obtain ⟨hj0, hj1⟩ := hj
  obtain ⟨hk0, hk1⟩ := hk
  prog_simp3 [poissonPre3D, setFixedVal3D, elementwiseCopy3D, call_set_fixed_val_stencil_3d,
    call_elementwise_copy_stencil_3d, set_fixed_val_stencil_3d, elementwise_copy_stencil_3d, hne]
  split_ifs <;> first | rfl | (exfalso; omega)

theorem C18_poisson_history_free_3d (nz ny nx : ℤ) (hnz : 0 ≤ nz) (hny : 0 ≤ ny) (hnx : 0 ≤ nx) (pb : Poisson3Bufs B) (rhs : B)
    (hne : rhs ≠ pb.dbl) (s s' : Store3 B K) (hrhs : s rhs = s' rhs) (i j k : ℤ) (hi : 0 ≤ i ∧ i < 2 * nz) (hj : 0 ≤ j ∧ j < 2 * ny)
    (hk : 0 ≤ k ∧ k < 2 * nx) :
    exec3 (poissonPre3D nz ny nx pb rhs) s pb.dbl i j k = exec3 (poissonPre3D nz ny nx pb rhs) s' pb.dbl i j k := by
  rw [C18_poisson_buffer_determined_3d nz ny nx hnz hny hnx pb rhs hne s i j k hi hj hk,
    C18_poisson_buffer_determined_3d nz ny nx hnz hny hnx pb rhs hne s' i j k hi hj hk, hrhs]

end Sopht.Props.C18
