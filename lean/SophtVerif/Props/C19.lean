/-
C19 — stabilising operators never amplify and leave admissible states fixed.
Part A: Brinkmann penalisation (generated kernels, Eulerian scalar/fixed-value, 2D/3D; Lagrangian model).
Part B: smooth characteristic function (generated kernel at ℝ).
Part C: boundary-zone damping — see Props/C19Damping.lean.  Part D: Laplacian filters — Props/C19Filter.lean.
-/
import SophtVerif.Gen.Kernels
import SophtVerif.Core.RealTransc
import Mathlib.Tactic.Ring
import Mathlib.Tactic.Linarith
import Mathlib.Tactic.FieldSimp
import Mathlib.Tactic.Positivity
import Mathlib.Analysis.SpecialFunctions.Trigonometric.Bounds

set_option linter.unusedVariables false
set_option linter.unusedSectionVars false

namespace Sopht.Props.C19
open Sopht Sopht.Gen

variable {K : Type} [Field K] [LinearOrder K] [IsStrictOrderedRing K]

/-! ### A. Brinkmann penalisation -/

/-- abstract form shared by every variant: `(u + a·u_b)/(1 + a)` with `a = λχ ≥ 0` -/
def brink (a u ub : K) : K := (u + a * ub) / (1 + a)

theorem brink_convex (a u ub : K) (ha : 0 ≤ a) :
    ∃ θ : K, 0 ≤ θ ∧ θ < 1 ∧ brink a u ub = (1 - θ) * u + θ * ub := by
  refine ⟨a / (1 + a), by positivity, ?_, ?_⟩
  · rw [div_lt_one (by linarith)]; linarith
  · unfold brink
    have : (1 + a) ≠ 0 := by linarith
    field_simp
    ring

theorem brink_zero (u ub : K) : brink 0 u ub = u := by simp [brink]

/-- the distance to the target shrinks by exactly `1/(1+a)`: never amplified, → 0 as `a → ∞` -/
theorem brink_contracts (a u ub : K) (ha : 0 ≤ a) : |brink a u ub - ub| = |u - ub| / (1 + a) := by
  have h1 : (0 : K) < 1 + a := by linarith
  have : brink a u ub - ub = (u - ub) / (1 + a) := by
    unfold brink; field_simp; ring
  rw [this, abs_div, abs_of_pos h1]

theorem brink_between (a u ub : K) (ha : 0 ≤ a) : min u ub ≤ brink a u ub ∧ brink a u ub ≤ max u ub := by
  obtain ⟨θ, h0, h1, he⟩ := brink_convex a u ub ha
  rw [he]
  constructor
  · calc min u ub = (1 - θ) * min u ub + θ * min u ub := by ring
      _ ≤ (1 - θ) * u + θ * ub := by
        have := mul_le_mul_of_nonneg_left (min_le_left u ub) (by linarith : 0 ≤ 1 - θ)
        have := mul_le_mul_of_nonneg_left (min_le_right u ub) h0
        linarith
  · have a1 := mul_le_mul_of_nonneg_left (le_max_left u ub) (by linarith : 0 ≤ 1 - θ)
    have a2 := mul_le_mul_of_nonneg_left (le_max_right u ub) h0
    have e : max u ub = (1 - θ) * max u ub + θ * max u ub := by ring
    rw [e]
    exact add_le_add a1 a2

/-- the generated 2D kernel is `brink (λ χ) u u_b` cell by cell -/
theorem C19_brinkmann_2d_eq (lam : K) (chi u ub : F2 K) (i j : ℤ) (h : 0 ≤ lam * chi i j) :
    brinkmann_penalise_stencil_2d lam chi u ub i j = brink (lam * chi i j) (u i j) (ub i j) := by
  unfold brinkmann_penalise_stencil_2d brink
  have : (1 + lam * chi i j) ≠ 0 := by linarith
  field_simp
  ring

theorem C19_brinkmann_3d_eq (lam : K) (chi u ub : F3 K) (i j k : ℤ) (h : 0 ≤ lam * chi i j k) :
    brinkmann_penalise_stencil_3d lam chi u ub i j k = brink (lam * chi i j k) (u i j k) (ub i j k) := by
  unfold brinkmann_penalise_stencil_3d brink
  have : (1 + lam * chi i j k) ≠ 0 := by linarith
  field_simp
  ring

theorem C19_brinkmann_fixed_2d_eq (lam v : K) (chi u : F2 K) (i j : ℤ) (h : 0 ≤ lam * chi i j) :
    brinkmann_penalise_vs_fixed_val_stencil_2d lam v chi u i j = brink (lam * chi i j) (u i j) v := by
  unfold brinkmann_penalise_vs_fixed_val_stencil_2d brink
  have : (1 + lam * chi i j) ≠ 0 := by linarith
  field_simp
  ring

/-- C19 (Brinkmann, Eulerian 2D): convex combination, identity where the indicator vanishes, contraction
towards the target by `1/(1+λχ)` -/
theorem C19_brinkmann_2d (lam : K) (chi u ub : F2 K) (i j : ℤ) (hl : 0 ≤ lam) (hc : 0 ≤ chi i j) :
    (∃ θ : K, 0 ≤ θ ∧ θ < 1 ∧ brinkmann_penalise_stencil_2d lam chi u ub i j = (1 - θ) * u i j + θ * ub i j) ∧
    (chi i j = 0 → brinkmann_penalise_stencil_2d lam chi u ub i j = u i j) ∧
    |brinkmann_penalise_stencil_2d lam chi u ub i j - ub i j| = |u i j - ub i j| / (1 + lam * chi i j) := by
  have h : 0 ≤ lam * chi i j := mul_nonneg hl hc
  rw [C19_brinkmann_2d_eq lam chi u ub i j h]
  refine ⟨brink_convex _ _ _ h, ?_, brink_contracts _ _ _ h⟩
  intro h0; rw [h0, mul_zero, brink_zero]

theorem C19_brinkmann_3d (lam : K) (chi u ub : F3 K) (i j k : ℤ) (hl : 0 ≤ lam) (hc : 0 ≤ chi i j k) :
    (∃ θ : K, 0 ≤ θ ∧ θ < 1 ∧ brinkmann_penalise_stencil_3d lam chi u ub i j k = (1 - θ) * u i j k + θ * ub i j k) ∧
    (chi i j k = 0 → brinkmann_penalise_stencil_3d lam chi u ub i j k = u i j k) ∧
    |brinkmann_penalise_stencil_3d lam chi u ub i j k - ub i j k| = |u i j k - ub i j k| / (1 + lam * chi i j k) := by
  have h : 0 ≤ lam * chi i j k := mul_nonneg hl hc
  rw [C19_brinkmann_3d_eq lam chi u ub i j k h]
  refine ⟨brink_convex _ _ _ h, ?_, brink_contracts _ _ _ h⟩
  intro h0; rw [h0, mul_zero, brink_zero]

theorem C19_brinkmann_fixed_2d (lam v : K) (chi u : F2 K) (i j : ℤ) (hl : 0 ≤ lam) (hc : 0 ≤ chi i j) :
    (∃ θ : K, 0 ≤ θ ∧ θ < 1 ∧ brinkmann_penalise_vs_fixed_val_stencil_2d lam v chi u i j = (1 - θ) * u i j + θ * v) ∧
    (chi i j = 0 → brinkmann_penalise_vs_fixed_val_stencil_2d lam v chi u i j = u i j) ∧
    |brinkmann_penalise_vs_fixed_val_stencil_2d lam v chi u i j - v| = |u i j - v| / (1 + lam * chi i j) := by
  have h : 0 ≤ lam * chi i j := mul_nonneg hl hc
  rw [C19_brinkmann_fixed_2d_eq lam v chi u i j h]
  refine ⟨brink_convex _ _ _ h, ?_, brink_contracts _ _ _ h⟩
  intro h0; rw [h0, mul_zero, brink_zero]

/-- Lagrangian variant (`BrinkmannBoundaryForcing.brinkmann_penalise_lag_grid_velocity_field`, hand model
tied numerically): `(u_flow + c·dt·u_body)/(1 + c·dt)` per marker and component -/
def lagBrinkmann (c dt uflow ubody : K) : K := (uflow + c * dt * ubody) / (1 + c * dt)

theorem C19_brinkmann_lagrangian (c dt uflow ubody : K) (hc : 0 ≤ c) (hdt : 0 ≤ dt) :
    (∃ θ : K, 0 ≤ θ ∧ θ < 1 ∧ lagBrinkmann c dt uflow ubody = (1 - θ) * uflow + θ * ubody) ∧
    (c * dt = 0 → lagBrinkmann c dt uflow ubody = uflow) ∧
    |lagBrinkmann c dt uflow ubody - ubody| = |uflow - ubody| / (1 + c * dt) := by
  have h : 0 ≤ c * dt := mul_nonneg hc hdt
  have e : lagBrinkmann c dt uflow ubody = brink (c * dt) uflow ubody := rfl
  rw [e]
  refine ⟨brink_convex _ _ _ h, ?_, brink_contracts _ _ _ h⟩
  intro h0; rw [h0, brink_zero]

/-! ### B. smooth characteristic function (sine Heaviside) -/

open Real

/-- the generated kernel at ℝ, as a function of one level-set value -/
noncomputable def H (eps phi : ℝ) : ℝ :=
  char_func_from_level_set_via_sine_heaviside_stencil_2d realTransc eps (fun _ _ => phi) 0 0

theorem H_3d_same (eps phi : ℝ) :
    char_func_from_level_set_via_sine_heaviside_stencil_3d realTransc eps (fun _ _ _ => phi) 0 0 0 = H eps phi := by
  simp only [H, char_func_from_level_set_via_sine_heaviside_stencil_2d,
    char_func_from_level_set_via_sine_heaviside_stencil_3d]

/-- closed form of the blend branch -/
noncomputable def blend (eps phi : ℝ) : ℝ := 1 / 2 * (1 + phi / eps + sin (π * phi / eps) / π)

theorem H_eq (eps phi : ℝ) (he : 0 < eps) :
    H eps phi = if phi < -eps then 0 else if eps < phi then 1 else blend eps phi := by
  simp only [H, char_func_from_level_set_via_sine_heaviside_stencil_2d, realTransc_sin, realTransc_pi]
  have hpi : π ≠ 0 := pi_ne_zero
  by_cases h1 : phi < -eps
  · have : eps < |phi| := by rw [abs_of_neg (by linarith)]; linarith
    have h2 : ¬ eps < phi := by linarith
    simp [h1, this, h2]
  · by_cases h2 : eps < phi
    · have : eps < |phi| := by rw [abs_of_pos (by linarith)]; exact h2
      simp [h1, h2, this]
    · have : ¬ eps < |phi| := by
        rw [not_lt, abs_le]; constructor <;> linarith
      simp only [h1, h2, this, if_false]
      unfold blend
      have e : 1 * π * eps⁻¹ * phi = π * phi / eps := by field_simp
      rw [e]
      field_simp
      ring

theorem blend_mono (eps : ℝ) (he : 0 < eps) (x y : ℝ) (hxy : x ≤ y) : blend eps x ≤ blend eps y := by
  unfold blend
  have hpi : 0 < π := pi_pos
  have hl : |sin (π * y / eps) - sin (π * x / eps)| ≤ |π * y / eps - π * x / eps| :=
    abs_sin_sub_sin_le _ _
  have hd : π * y / eps - π * x / eps = π * (y - x) / eps := by ring
  rw [hd, abs_of_nonneg (by positivity : 0 ≤ π * (y - x) / eps)] at hl
  have hl' := (abs_le.mp hl).1
  have : (sin (π * y / eps) - sin (π * x / eps)) / π ≥ -((y - x) / eps) := by
    rw [ge_iff_le, neg_le, ← neg_div, neg_sub, div_le_iff₀ hpi]
    have : (y - x) / eps * π = π * (y - x) / eps := by ring
    rw [this]; linarith
  have hsub : sin (π * y / eps) / π - sin (π * x / eps) / π = (sin (π * y / eps) - sin (π * x / eps)) / π := by ring
  have hdiv : y / eps - x / eps = (y - x) / eps := by ring
  linarith

theorem blend_at_neg (eps : ℝ) (he : 0 < eps) : blend eps (-eps) = 0 := by
  unfold blend
  have : π * -eps / eps = -π := by field_simp
  rw [this, sin_neg, sin_pi]; field_simp; ring

theorem blend_at_pos (eps : ℝ) (he : 0 < eps) : blend eps eps = 1 := by
  unfold blend
  have : π * eps / eps = π := by field_simp
  rw [this, sin_pi]; field_simp; ring

/-- C19 (characteristic function): range, plateaus, endpoint values, monotonicity, complementarity -/
theorem C19_heaviside (eps : ℝ) (he : 0 < eps) :
    (∀ phi, 0 ≤ H eps phi ∧ H eps phi ≤ 1) ∧
    (∀ phi, phi < -eps → H eps phi = 0) ∧
    (∀ phi, eps < phi → H eps phi = 1) ∧
    H eps (-eps) = 0 ∧ H eps eps = 1 ∧
    (∀ x y, x ≤ y → H eps x ≤ H eps y) ∧
    (∀ phi, H eps phi + H eps (-phi) = 1) := by
  have hb0 : ∀ phi, -eps ≤ phi → phi ≤ eps → 0 ≤ blend eps phi ∧ blend eps phi ≤ 1 := by
    intro phi h1 h2
    constructor
    · rw [← blend_at_neg eps he]; exact blend_mono eps he _ _ h1
    · rw [← blend_at_pos eps he]; exact blend_mono eps he _ _ h2
  have hrange : ∀ phi, 0 ≤ H eps phi ∧ H eps phi ≤ 1 := by
    intro phi
    rw [H_eq eps phi he]
    split_ifs with h1 h2
    · exact ⟨le_rfl, zero_le_one⟩
    · exact ⟨zero_le_one, le_rfl⟩
    · exact hb0 phi (by linarith) (by linarith)
  refine ⟨hrange, ?_, ?_, ?_, ?_, ?_, ?_⟩
  · intro phi h; rw [H_eq eps phi he, if_pos h]
  · intro phi h; rw [H_eq eps phi he, if_neg (by linarith), if_pos h]
  · rw [H_eq eps _ he, if_neg (lt_irrefl _), if_neg (by linarith), blend_at_neg eps he]
  · rw [H_eq eps _ he, if_neg (by linarith), if_neg (lt_irrefl _), blend_at_pos eps he]
  · intro x y hxy
    rw [H_eq eps x he, H_eq eps y he]
    split_ifs with a b c d e f
    all_goals first
      | exact le_rfl
      | exact zero_le_one
      | (exfalso; linarith)
      | exact (hb0 _ (by linarith) (by linarith)).1
      | exact (hb0 _ (by linarith) (by linarith)).2
      | exact blend_mono eps he _ _ hxy
  · intro phi
    rw [H_eq eps phi he, H_eq eps (-phi) he]
    have hodd : blend eps phi + blend eps (-phi) = 1 := by
      unfold blend
      have : π * -phi / eps = -(π * phi / eps) := by ring
      rw [this, sin_neg]; field_simp; ring
    split_ifs with a b c d e f
    all_goals first
      | (exfalso; linarith)
      | exact hodd
      | (norm_num; done)
      | (have : phi = eps := by linarith
         subst this; rw [blend_at_pos eps he])
      | (have : phi = -eps := by linarith
         subst this; simp [blend_at_neg eps he, blend_at_pos eps he])

/-- non-vacuity: the blend is strictly inside (0,1) at the centre -/
example : H 1 0 = 1 / 2 := by
  rw [H_eq 1 0 one_pos]; norm_num [blend]

end Sopht.Props.C19
