/-
C19 (boundary-zone damping) — every generated damping kernel (all widths 1..6, all sides, 2D and 3D), read at ℝ
with `Real.sin` / `Real.pi`: the new value is the old value times a sine, hence never larger in magnitude — for EVERY
coordinate value, spacing and corner argument — and exactly zero where the cell-centre coordinate equals the corner
value the generator read (the outermost ring).  Program level (2D): cells outside the zone and all other buffers are
untouched.  "Bounded by the inner-edge value" then follows since the program first copies the inner-edge value into
the zone (the `bcast` calls of Model/Prog2D.penaliseBoundary2D, tied by the trace/numeric correspondence).
-/
import SophtVerif.Lemmas.Prog2D
import SophtVerif.Lemmas.Prog3D
import SophtVerif.Core.RealTransc
import Mathlib.Analysis.SpecialFunctions.Trigonometric.Basic
import Mathlib.Tactic.Ring
import Mathlib.Tactic.Linarith

set_option linter.unusedVariables false
set_option linter.unusedSectionVars false
set_option linter.unusedSimpArgs false

namespace Sopht.Props.C19
open Sopht Sopht.Gen Sopht.Model

theorem abs_mul_sin_le (a x : ℝ) : |a * Real.sin x| ≤ |a| := by
  rw [abs_mul]
  calc |a| * |Real.sin x| ≤ |a| * 1 := mul_le_mul_of_nonneg_left (Real.abs_sin_le_one x) (abs_nonneg a)
    _ = |a| := mul_one _

/-- 2D damping kernels never amplify and vanish where the coordinate equals the corner value -/
theorem C19_damping_kernels_2d (dx c : ℝ) (f g : F2 ℝ) (i j : ℤ) :
    (|penalise_field_x_front_boundary_stencil_2d_w1 realTransc dx c f g i j| ≤ |f i j| ∧
     |penalise_field_x_front_boundary_stencil_2d_w2 realTransc dx c f g i j| ≤ |f i j| ∧
     |penalise_field_x_front_boundary_stencil_2d_w3 realTransc dx c f g i j| ≤ |f i j| ∧
     |penalise_field_x_front_boundary_stencil_2d_w4 realTransc dx c f g i j| ≤ |f i j| ∧
     |penalise_field_x_front_boundary_stencil_2d_w5 realTransc dx c f g i j| ≤ |f i j| ∧
     |penalise_field_x_front_boundary_stencil_2d_w6 realTransc dx c f g i j| ≤ |f i j|) ∧
    (|penalise_field_x_back_boundary_stencil_2d_w1 realTransc dx c f g i j| ≤ |f i j| ∧
     |penalise_field_x_back_boundary_stencil_2d_w2 realTransc dx c f g i j| ≤ |f i j| ∧
     |penalise_field_x_back_boundary_stencil_2d_w3 realTransc dx c f g i j| ≤ |f i j| ∧
     |penalise_field_x_back_boundary_stencil_2d_w4 realTransc dx c f g i j| ≤ |f i j| ∧
     |penalise_field_x_back_boundary_stencil_2d_w5 realTransc dx c f g i j| ≤ |f i j| ∧
     |penalise_field_x_back_boundary_stencil_2d_w6 realTransc dx c f g i j| ≤ |f i j|) ∧
    (|penalise_field_y_front_boundary_stencil_2d_w1 realTransc dx c f g i j| ≤ |f i j| ∧
     |penalise_field_y_front_boundary_stencil_2d_w2 realTransc dx c f g i j| ≤ |f i j| ∧
     |penalise_field_y_front_boundary_stencil_2d_w3 realTransc dx c f g i j| ≤ |f i j| ∧
     |penalise_field_y_front_boundary_stencil_2d_w4 realTransc dx c f g i j| ≤ |f i j| ∧
     |penalise_field_y_front_boundary_stencil_2d_w5 realTransc dx c f g i j| ≤ |f i j| ∧
     |penalise_field_y_front_boundary_stencil_2d_w6 realTransc dx c f g i j| ≤ |f i j|) ∧
    (|penalise_field_y_back_boundary_stencil_2d_w1 realTransc dx c f g i j| ≤ |f i j| ∧
     |penalise_field_y_back_boundary_stencil_2d_w2 realTransc dx c f g i j| ≤ |f i j| ∧
     |penalise_field_y_back_boundary_stencil_2d_w3 realTransc dx c f g i j| ≤ |f i j| ∧
     |penalise_field_y_back_boundary_stencil_2d_w4 realTransc dx c f g i j| ≤ |f i j| ∧
     |penalise_field_y_back_boundary_stencil_2d_w5 realTransc dx c f g i j| ≤ |f i j| ∧
     |penalise_field_y_back_boundary_stencil_2d_w6 realTransc dx c f g i j| ≤ |f i j|) := by
  refine ⟨⟨?_, ?_, ?_, ?_, ?_, ?_⟩, ⟨?_, ?_, ?_, ?_, ?_, ?_⟩, ⟨?_, ?_, ?_, ?_, ?_, ?_⟩, ⟨?_, ?_, ?_, ?_, ?_, ?_⟩⟩ <;>
    exact abs_mul_sin_le _ _

/-- … and vanish on the outermost ring (coordinate = corner value) -/
theorem C19_damping_kernels_2d_zero (dx c : ℝ) (f g : F2 ℝ) (i j : ℤ) (h : g i j = c) :
    penalise_field_x_front_boundary_stencil_2d_w1 realTransc dx c f g i j = 0 ∧
    penalise_field_x_front_boundary_stencil_2d_w2 realTransc dx c f g i j = 0 ∧
    penalise_field_x_front_boundary_stencil_2d_w3 realTransc dx c f g i j = 0 ∧
    penalise_field_x_front_boundary_stencil_2d_w4 realTransc dx c f g i j = 0 ∧
    penalise_field_x_front_boundary_stencil_2d_w5 realTransc dx c f g i j = 0 ∧
    penalise_field_x_front_boundary_stencil_2d_w6 realTransc dx c f g i j = 0 ∧
    penalise_field_x_back_boundary_stencil_2d_w1 realTransc dx c f g i j = 0 ∧
    penalise_field_x_back_boundary_stencil_2d_w2 realTransc dx c f g i j = 0 ∧
    penalise_field_x_back_boundary_stencil_2d_w3 realTransc dx c f g i j = 0 ∧
    penalise_field_x_back_boundary_stencil_2d_w4 realTransc dx c f g i j = 0 ∧
    penalise_field_x_back_boundary_stencil_2d_w5 realTransc dx c f g i j = 0 ∧
    penalise_field_x_back_boundary_stencil_2d_w6 realTransc dx c f g i j = 0 ∧
    penalise_field_y_front_boundary_stencil_2d_w1 realTransc dx c f g i j = 0 ∧
    penalise_field_y_front_boundary_stencil_2d_w2 realTransc dx c f g i j = 0 ∧
    penalise_field_y_front_boundary_stencil_2d_w3 realTransc dx c f g i j = 0 ∧
    penalise_field_y_front_boundary_stencil_2d_w4 realTransc dx c f g i j = 0 ∧
    penalise_field_y_front_boundary_stencil_2d_w5 realTransc dx c f g i j = 0 ∧
    penalise_field_y_front_boundary_stencil_2d_w6 realTransc dx c f g i j = 0 ∧
    penalise_field_y_back_boundary_stencil_2d_w1 realTransc dx c f g i j = 0 ∧
    penalise_field_y_back_boundary_stencil_2d_w2 realTransc dx c f g i j = 0 ∧
    penalise_field_y_back_boundary_stencil_2d_w3 realTransc dx c f g i j = 0 ∧
    penalise_field_y_back_boundary_stencil_2d_w4 realTransc dx c f g i j = 0 ∧
    penalise_field_y_back_boundary_stencil_2d_w5 realTransc dx c f g i j = 0 ∧
    penalise_field_y_back_boundary_stencil_2d_w6 realTransc dx c f g i j = 0 := by
  refine ⟨?_, ?_, ?_, ?_, ?_, ?_, ?_, ?_, ?_, ?_, ?_, ?_, ?_, ?_, ?_, ?_, ?_, ?_, ?_, ?_, ?_, ?_, ?_, ?_⟩ <;>
    simp [penalise_field_x_front_boundary_stencil_2d_w1, penalise_field_x_front_boundary_stencil_2d_w2,
      penalise_field_x_front_boundary_stencil_2d_w3, penalise_field_x_front_boundary_stencil_2d_w4,
      penalise_field_x_front_boundary_stencil_2d_w5, penalise_field_x_front_boundary_stencil_2d_w6,
      penalise_field_x_back_boundary_stencil_2d_w1, penalise_field_x_back_boundary_stencil_2d_w2,
      penalise_field_x_back_boundary_stencil_2d_w3, penalise_field_x_back_boundary_stencil_2d_w4,
      penalise_field_x_back_boundary_stencil_2d_w5, penalise_field_x_back_boundary_stencil_2d_w6,
      penalise_field_y_front_boundary_stencil_2d_w1, penalise_field_y_front_boundary_stencil_2d_w2,
      penalise_field_y_front_boundary_stencil_2d_w3, penalise_field_y_front_boundary_stencil_2d_w4,
      penalise_field_y_front_boundary_stencil_2d_w5, penalise_field_y_front_boundary_stencil_2d_w6,
      penalise_field_y_back_boundary_stencil_2d_w1, penalise_field_y_back_boundary_stencil_2d_w2,
      penalise_field_y_back_boundary_stencil_2d_w3, penalise_field_y_back_boundary_stencil_2d_w4,
      penalise_field_y_back_boundary_stencil_2d_w5, penalise_field_y_back_boundary_stencil_2d_w6, h]

/-- 3D damping kernels (all axes, sides, widths) never amplify -/
theorem C19_damping_kernels_3d (dx c : ℝ) (f g : F3 ℝ) (i j k : ℤ) :
    |penalise_field_x_front_boundary_stencil_3d_w1 realTransc dx c f g i j k| ≤ |f i j k| ∧
    |penalise_field_x_front_boundary_stencil_3d_w2 realTransc dx c f g i j k| ≤ |f i j k| ∧
    |penalise_field_x_front_boundary_stencil_3d_w3 realTransc dx c f g i j k| ≤ |f i j k| ∧
    |penalise_field_x_front_boundary_stencil_3d_w4 realTransc dx c f g i j k| ≤ |f i j k| ∧
    |penalise_field_x_front_boundary_stencil_3d_w5 realTransc dx c f g i j k| ≤ |f i j k| ∧
    |penalise_field_x_front_boundary_stencil_3d_w6 realTransc dx c f g i j k| ≤ |f i j k| ∧
    |penalise_field_x_back_boundary_stencil_3d_w1 realTransc dx c f g i j k| ≤ |f i j k| ∧
    |penalise_field_x_back_boundary_stencil_3d_w2 realTransc dx c f g i j k| ≤ |f i j k| ∧
    |penalise_field_x_back_boundary_stencil_3d_w3 realTransc dx c f g i j k| ≤ |f i j k| ∧
    |penalise_field_x_back_boundary_stencil_3d_w4 realTransc dx c f g i j k| ≤ |f i j k| ∧
    |penalise_field_x_back_boundary_stencil_3d_w5 realTransc dx c f g i j k| ≤ |f i j k| ∧
    |penalise_field_x_back_boundary_stencil_3d_w6 realTransc dx c f g i j k| ≤ |f i j k| ∧
    |penalise_field_y_front_boundary_stencil_3d_w1 realTransc dx c f g i j k| ≤ |f i j k| ∧
    |penalise_field_y_front_boundary_stencil_3d_w2 realTransc dx c f g i j k| ≤ |f i j k| ∧
    |penalise_field_y_front_boundary_stencil_3d_w3 realTransc dx c f g i j k| ≤ |f i j k| ∧
    |penalise_field_y_front_boundary_stencil_3d_w4 realTransc dx c f g i j k| ≤ |f i j k| ∧
    |penalise_field_y_front_boundary_stencil_3d_w5 realTransc dx c f g i j k| ≤ |f i j k| ∧
    |penalise_field_y_front_boundary_stencil_3d_w6 realTransc dx c f g i j k| ≤ |f i j k| ∧
    |penalise_field_y_back_boundary_stencil_3d_w1 realTransc dx c f g i j k| ≤ |f i j k| ∧
    |penalise_field_y_back_boundary_stencil_3d_w2 realTransc dx c f g i j k| ≤ |f i j k| ∧
    |penalise_field_y_back_boundary_stencil_3d_w3 realTransc dx c f g i j k| ≤ |f i j k| ∧
    |penalise_field_y_back_boundary_stencil_3d_w4 realTransc dx c f g i j k| ≤ |f i j k| ∧
    |penalise_field_y_back_boundary_stencil_3d_w5 realTransc dx c f g i j k| ≤ |f i j k| ∧
    |penalise_field_y_back_boundary_stencil_3d_w6 realTransc dx c f g i j k| ≤ |f i j k| ∧
    |penalise_field_z_front_boundary_stencil_3d_w1 realTransc dx c f g i j k| ≤ |f i j k| ∧
    |penalise_field_z_front_boundary_stencil_3d_w2 realTransc dx c f g i j k| ≤ |f i j k| ∧
    |penalise_field_z_front_boundary_stencil_3d_w3 realTransc dx c f g i j k| ≤ |f i j k| ∧
    |penalise_field_z_front_boundary_stencil_3d_w4 realTransc dx c f g i j k| ≤ |f i j k| ∧
    |penalise_field_z_front_boundary_stencil_3d_w5 realTransc dx c f g i j k| ≤ |f i j k| ∧
    |penalise_field_z_front_boundary_stencil_3d_w6 realTransc dx c f g i j k| ≤ |f i j k| ∧
    |penalise_field_z_back_boundary_stencil_3d_w1 realTransc dx c f g i j k| ≤ |f i j k| ∧
    |penalise_field_z_back_boundary_stencil_3d_w2 realTransc dx c f g i j k| ≤ |f i j k| ∧
    |penalise_field_z_back_boundary_stencil_3d_w3 realTransc dx c f g i j k| ≤ |f i j k| ∧
    |penalise_field_z_back_boundary_stencil_3d_w4 realTransc dx c f g i j k| ≤ |f i j k| ∧
    |penalise_field_z_back_boundary_stencil_3d_w5 realTransc dx c f g i j k| ≤ |f i j k| ∧
    |penalise_field_z_back_boundary_stencil_3d_w6 realTransc dx c f g i j k| ≤ |f i j k| := by
  refine ⟨?_, ?_, ?_, ?_, ?_, ?_, ?_, ?_, ?_, ?_, ?_, ?_, ?_, ?_, ?_, ?_, ?_, ?_, ?_, ?_, ?_, ?_, ?_, ?_, ?_, ?_, ?_, ?_, ?_, ?_, ?_, ?_, ?_, ?_, ?_, ?_⟩ <;> exact abs_mul_sin_le _ _

/-- … and vanish where the coordinate equals the corner value -/
theorem C19_damping_kernels_3d_zero (dx c : ℝ) (f g : F3 ℝ) (i j k : ℤ) (h : g i j k = c) :
    penalise_field_x_front_boundary_stencil_3d_w1 realTransc dx c f g i j k = 0 ∧
    penalise_field_x_front_boundary_stencil_3d_w2 realTransc dx c f g i j k = 0 ∧
    penalise_field_x_front_boundary_stencil_3d_w3 realTransc dx c f g i j k = 0 ∧
    penalise_field_x_front_boundary_stencil_3d_w4 realTransc dx c f g i j k = 0 ∧
    penalise_field_x_front_boundary_stencil_3d_w5 realTransc dx c f g i j k = 0 ∧
    penalise_field_x_front_boundary_stencil_3d_w6 realTransc dx c f g i j k = 0 ∧
    penalise_field_x_back_boundary_stencil_3d_w1 realTransc dx c f g i j k = 0 ∧
    penalise_field_x_back_boundary_stencil_3d_w2 realTransc dx c f g i j k = 0 ∧
    penalise_field_x_back_boundary_stencil_3d_w3 realTransc dx c f g i j k = 0 ∧
    penalise_field_x_back_boundary_stencil_3d_w4 realTransc dx c f g i j k = 0 ∧
    penalise_field_x_back_boundary_stencil_3d_w5 realTransc dx c f g i j k = 0 ∧
    penalise_field_x_back_boundary_stencil_3d_w6 realTransc dx c f g i j k = 0 ∧
    penalise_field_y_front_boundary_stencil_3d_w1 realTransc dx c f g i j k = 0 ∧
    penalise_field_y_front_boundary_stencil_3d_w2 realTransc dx c f g i j k = 0 ∧
    penalise_field_y_front_boundary_stencil_3d_w3 realTransc dx c f g i j k = 0 ∧
    penalise_field_y_front_boundary_stencil_3d_w4 realTransc dx c f g i j k = 0 ∧
    penalise_field_y_front_boundary_stencil_3d_w5 realTransc dx c f g i j k = 0 ∧
    penalise_field_y_front_boundary_stencil_3d_w6 realTransc dx c f g i j k = 0 ∧
    penalise_field_y_back_boundary_stencil_3d_w1 realTransc dx c f g i j k = 0 ∧
    penalise_field_y_back_boundary_stencil_3d_w2 realTransc dx c f g i j k = 0 ∧
    penalise_field_y_back_boundary_stencil_3d_w3 realTransc dx c f g i j k = 0 ∧
    penalise_field_y_back_boundary_stencil_3d_w4 realTransc dx c f g i j k = 0 ∧
    penalise_field_y_back_boundary_stencil_3d_w5 realTransc dx c f g i j k = 0 ∧
    penalise_field_y_back_boundary_stencil_3d_w6 realTransc dx c f g i j k = 0 ∧
    penalise_field_z_front_boundary_stencil_3d_w1 realTransc dx c f g i j k = 0 ∧
    penalise_field_z_front_boundary_stencil_3d_w2 realTransc dx c f g i j k = 0 ∧
    penalise_field_z_front_boundary_stencil_3d_w3 realTransc dx c f g i j k = 0 ∧
    penalise_field_z_front_boundary_stencil_3d_w4 realTransc dx c f g i j k = 0 ∧
    penalise_field_z_front_boundary_stencil_3d_w5 realTransc dx c f g i j k = 0 ∧
    penalise_field_z_front_boundary_stencil_3d_w6 realTransc dx c f g i j k = 0 ∧
    penalise_field_z_back_boundary_stencil_3d_w1 realTransc dx c f g i j k = 0 ∧
    penalise_field_z_back_boundary_stencil_3d_w2 realTransc dx c f g i j k = 0 ∧
    penalise_field_z_back_boundary_stencil_3d_w3 realTransc dx c f g i j k = 0 ∧
    penalise_field_z_back_boundary_stencil_3d_w4 realTransc dx c f g i j k = 0 ∧
    penalise_field_z_back_boundary_stencil_3d_w5 realTransc dx c f g i j k = 0 ∧
    penalise_field_z_back_boundary_stencil_3d_w6 realTransc dx c f g i j k = 0 := by
  refine ⟨?_, ?_, ?_, ?_, ?_, ?_, ?_, ?_, ?_, ?_, ?_, ?_, ?_, ?_, ?_, ?_, ?_, ?_, ?_, ?_, ?_, ?_, ?_, ?_, ?_, ?_, ?_, ?_, ?_, ?_, ?_, ?_, ?_, ?_, ?_, ?_⟩ <;>
    simp [penalise_field_x_front_boundary_stencil_3d_w1, penalise_field_x_front_boundary_stencil_3d_w2, penalise_field_x_front_boundary_stencil_3d_w3, penalise_field_x_front_boundary_stencil_3d_w4, penalise_field_x_front_boundary_stencil_3d_w5, penalise_field_x_front_boundary_stencil_3d_w6, penalise_field_x_back_boundary_stencil_3d_w1, penalise_field_x_back_boundary_stencil_3d_w2, penalise_field_x_back_boundary_stencil_3d_w3, penalise_field_x_back_boundary_stencil_3d_w4, penalise_field_x_back_boundary_stencil_3d_w5, penalise_field_x_back_boundary_stencil_3d_w6, penalise_field_y_front_boundary_stencil_3d_w1, penalise_field_y_front_boundary_stencil_3d_w2, penalise_field_y_front_boundary_stencil_3d_w3, penalise_field_y_front_boundary_stencil_3d_w4, penalise_field_y_front_boundary_stencil_3d_w5, penalise_field_y_front_boundary_stencil_3d_w6, penalise_field_y_back_boundary_stencil_3d_w1, penalise_field_y_back_boundary_stencil_3d_w2, penalise_field_y_back_boundary_stencil_3d_w3, penalise_field_y_back_boundary_stencil_3d_w4, penalise_field_y_back_boundary_stencil_3d_w5, penalise_field_y_back_boundary_stencil_3d_w6, penalise_field_z_front_boundary_stencil_3d_w1, penalise_field_z_front_boundary_stencil_3d_w2, penalise_field_z_front_boundary_stencil_3d_w3, penalise_field_z_front_boundary_stencil_3d_w4, penalise_field_z_front_boundary_stencil_3d_w5, penalise_field_z_front_boundary_stencil_3d_w6, penalise_field_z_back_boundary_stencil_3d_w1, penalise_field_z_back_boundary_stencil_3d_w2, penalise_field_z_back_boundary_stencil_3d_w3, penalise_field_z_back_boundary_stencil_3d_w4, penalise_field_z_back_boundary_stencil_3d_w5, penalise_field_z_back_boundary_stencil_3d_w6, h]

/-! ### program level (2D): nothing outside the zone, no other buffer -/

section Program
variable {B K : Type} [DecidableEq B] [Field K] [LinearOrder K] [IsStrictOrderedRing K]

theorem penaliseKernel_regions (T : Transc K) (w : ℕ) (dx c : K) (f xg : B) (r : Rect2) :
    (penaliseKernelXFront T w dx c f xg r).region = r ∧ (penaliseKernelXBack T w dx c f xg r).region = r ∧
    (penaliseKernelYFront T w dx c f xg r).region = r ∧ (penaliseKernelYBack T w dx c f xg r).region = r := by
  rcases w with _ | _ | _ | _ | _ | _ | w <;> exact ⟨rfl, rfl, rfl, rfl⟩

theorem penaliseKernel_written (T : Transc K) (w : ℕ) (dx c : K) (f xg : B) (r : Rect2) :
    (penaliseKernelXFront T w dx c f xg r).written = [f] ∧ (penaliseKernelXBack T w dx c f xg r).written = [f] ∧
    (penaliseKernelYFront T w dx c f xg r).written = [f] ∧ (penaliseKernelYBack T w dx c f xg r).written = [f] := by
  rcases w with _ | _ | _ | _ | _ | _ | w <;> exact ⟨rfl, rfl, rfl, rfl⟩

/-- C19 (damping, 2D PROGRAM, every width): cells farther than `w` from every side keep their value, and no buffer
other than the field is written -/
theorem C19_damping_outside_zone_2d (T : Transc K) (w : ℕ) (ny nx : ℤ) (dx x0 x1 y0 y1 : K) (f xg yg : B) (s : Store2 B K) :
    (∀ b i j, ¬ (i < w ∨ ny - w ≤ i ∨ j < w ∨ nx - w ≤ j) →
      exec2 (penaliseBoundary2D T w ny nx dx x0 x1 y0 y1 f xg yg) s b i j = s b i j) ∧
    (∀ b, b ≠ f → exec2 (penaliseBoundary2D T w ny nx dx x0 x1 y0 y1 f xg yg) s b = s b) := by
  obtain ⟨r1, r2, _, _⟩ := penaliseKernel_regions T w dx x0 f xg ⟨0, ny, 0, headHi nx w⟩
  refine ⟨?_, ?_⟩
  · intro b i j hout
    apply exec2_outside
    intro c hc
    unfold penaliseBoundary2D at hc
    split_ifs at hc with hw0
    · simp at hc
    · simp only [List.mem_cons, List.mem_nil_iff, or_false] at hc
      rcases hc with rfl | rfl | rfl | rfl | rfl | rfl | rfl | rfl <;>
        simp only [bcast2D, (penaliseKernel_regions T w dx _ f _ _).1, (penaliseKernel_regions T w dx _ f _ _).2.1,
          (penaliseKernel_regions T w dx _ f _ _).2.2.1, (penaliseKernel_regions T w dx _ f _ _).2.2.2,
          Rect2.mem, headHi, tailLo] <;> omega
  · intro b hb
    apply exec2_other
    intro hmem
    simp only [written2, List.mem_flatMap] at hmem
    obtain ⟨c, hc, hbc⟩ := hmem
    unfold penaliseBoundary2D at hc
    split_ifs at hc with hw0
    · simp at hc
    · simp only [List.mem_cons, List.mem_nil_iff, or_false] at hc
      have hw : c.written = [f] := by
        rcases hc with rfl | rfl | rfl | rfl | rfl | rfl | rfl | rfl <;>
          first
            | rfl
            | exact (penaliseKernel_written T w dx _ f _ _).1
            | exact (penaliseKernel_written T w dx _ f _ _).2.1
            | exact (penaliseKernel_written T w dx _ f _ _).2.2.1
            | exact (penaliseKernel_written T w dx _ f _ _).2.2.2
      rw [hw] at hbc
      simp at hbc
      exact hb hbc

end Program

/-! ### program level (3D) -/

section Program3
variable {B K : Type} [DecidableEq B] [Field K] [LinearOrder K] [IsStrictOrderedRing K]

theorem penalise3_regions (T : Transc K) (w : ℕ) (dx c : K) (f g : B) (r : Rect3) :
    (call_penalise_field_x_front_boundary_stencil_3d_w T w dx c f g r).region = r ∧
    (call_penalise_field_x_back_boundary_stencil_3d_w T w dx c f g r).region = r ∧
    (call_penalise_field_y_front_boundary_stencil_3d_w T w dx c f g r).region = r ∧
    (call_penalise_field_y_back_boundary_stencil_3d_w T w dx c f g r).region = r ∧
    (call_penalise_field_z_front_boundary_stencil_3d_w T w dx c f g r).region = r ∧
    (call_penalise_field_z_back_boundary_stencil_3d_w T w dx c f g r).region = r := by
  rcases w with _ | _ | _ | _ | _ | _ | w <;> exact ⟨rfl, rfl, rfl, rfl, rfl, rfl⟩

theorem penalise3_written (T : Transc K) (w : ℕ) (dx c : K) (f g : B) (r : Rect3) :
    (call_penalise_field_x_front_boundary_stencil_3d_w T w dx c f g r).written = [f] ∧
    (call_penalise_field_x_back_boundary_stencil_3d_w T w dx c f g r).written = [f] ∧
    (call_penalise_field_y_front_boundary_stencil_3d_w T w dx c f g r).written = [f] ∧
    (call_penalise_field_y_back_boundary_stencil_3d_w T w dx c f g r).written = [f] ∧
    (call_penalise_field_z_front_boundary_stencil_3d_w T w dx c f g r).written = [f] ∧
    (call_penalise_field_z_back_boundary_stencil_3d_w T w dx c f g r).written = [f] := by
  rcases w with _ | _ | _ | _ | _ | _ | w <;> exact ⟨rfl, rfl, rfl, rfl, rfl, rfl⟩

/-- C19 (damping, 3D PROGRAM, every width): cells farther than `w` from every side keep their value, and no buffer
other than the field is written -/
theorem C19_damping_outside_zone_3d (T : Transc K) (w : ℕ) (nz ny nx : ℤ) (dx : K) (c : Corners3 K) (f xg yg zg : B) (s : Store3 B K) :
    (∀ b i j k, ¬ (i < w ∨ nz - w ≤ i ∨ j < w ∨ ny - w ≤ j ∨ k < w ∨ nx - w ≤ k) →
      exec3 (penaliseBoundary3D T w nz ny nx dx c f xg yg zg) s b i j k = s b i j k) ∧
    (∀ b, b ≠ f → exec3 (penaliseBoundary3D T w nz ny nx dx c f xg yg zg) s b = s b) := by
  refine ⟨?_, ?_⟩
  · intro b i j k hout
    apply exec3_outside
    intro cl hc
    unfold penaliseBoundary3D at hc
    split_ifs at hc with hw0
    · simp at hc
    · simp only [List.mem_cons, List.mem_nil_iff, or_false] at hc
      rcases hc with rfl | rfl | rfl | rfl | rfl | rfl | rfl | rfl | rfl | rfl | rfl | rfl <;>
        simp only [bcast3D, (penalise3_regions T w dx _ f _ _).1, (penalise3_regions T w dx _ f _ _).2.1,
          (penalise3_regions T w dx _ f _ _).2.2.1, (penalise3_regions T w dx _ f _ _).2.2.2.1,
          (penalise3_regions T w dx _ f _ _).2.2.2.2.1, (penalise3_regions T w dx _ f _ _).2.2.2.2.2,
          Rect3.mem, headHi, tailLo] <;> omega
  · intro b hb
    apply exec3_other
    intro hmem
    simp only [written3, List.mem_flatMap] at hmem
    obtain ⟨cl, hc, hbc⟩ := hmem
    unfold penaliseBoundary3D at hc
    split_ifs at hc with hw0
    · simp at hc
    · simp only [List.mem_cons, List.mem_nil_iff, or_false] at hc
      have hw : cl.written = [f] := by
        rcases hc with rfl | rfl | rfl | rfl | rfl | rfl | rfl | rfl | rfl | rfl | rfl | rfl <;>
          first
            | rfl
            | exact (penalise3_written T w dx _ f _ _).1
            | exact (penalise3_written T w dx _ f _ _).2.1
            | exact (penalise3_written T w dx _ f _ _).2.2.1
            | exact (penalise3_written T w dx _ f _ _).2.2.2.1
            | exact (penalise3_written T w dx _ f _ _).2.2.2.2.1
            | exact (penalise3_written T w dx _ f _ _).2.2.2.2.2
      rw [hw] at hbc
      simp at hbc
      exact hb hbc

end Program3

/-! ### program level (2D): the value claim -/

section Value
variable {B : Type} [DecidableEq B]

/-- a call that multiplies `f` by a sine on its region -/
def IsDamp (c : Call2 B ℝ) (f : B) : Prop :=
  ∃ θ : Store2 B ℝ → ℤ → ℤ → ℝ, c.writes = [(f, fun s i j => s f i j * Real.sin (θ s i j))]

theorem kernels_isDamp (w : ℕ) (dx c : ℝ) (f g : B) (r : Rect2) :
    IsDamp (penaliseKernelXFront realTransc w dx c f g r) f ∧ IsDamp (penaliseKernelXBack realTransc w dx c f g r) f ∧
    IsDamp (penaliseKernelYFront realTransc w dx c f g r) f ∧ IsDamp (penaliseKernelYBack realTransc w dx c f g r) f := by
  rcases w with _ | _ | _ | _ | _ | _ | w <;> exact ⟨⟨_, rfl⟩, ⟨_, rfl⟩, ⟨_, rfl⟩, ⟨_, rfl⟩⟩

theorem exec_write1 (c : Call2 B ℝ) (f : B) (W : Store2 B ℝ → F2 ℝ) (h : c.writes = [(f, W)]) (s : Store2 B ℝ) :
    c.exec s f = applyK2 c.region (s f) (W s) ∧ ∀ b, b ≠ f → c.exec s b = s b := by
  constructor
  · simp [Call2.exec, h, Store2.set]
  · intro b hb; simp [Call2.exec, h, Store2.set, hb]

/-- effect of a damping call on the field: never larger in magnitude, unchanged outside its region -/
theorem exec_damp (c : Call2 B ℝ) (f : B) (h : IsDamp c f) (s : Store2 B ℝ) :
    (∀ i j, |c.exec s f i j| ≤ |s f i j|) ∧ (∀ i j, ¬ c.region.mem i j → c.exec s f i j = s f i j) ∧
    (∀ b, b ≠ f → c.exec s b = s b) := by
  obtain ⟨θ, hθ⟩ := h
  obtain ⟨h1, h2⟩ := exec_write1 c f _ hθ s
  refine ⟨?_, ?_, h2⟩
  · intro i j
    rw [h1]; simp only [applyK2]
    split_ifs
    · exact abs_mul_sin_le _ _
    · exact le_rfl
  · intro i j hn
    rw [h1]; simp only [applyK2, if_neg hn]

theorem exec_bcast (name : String) (f : B) (r : Rect2) (src : F2 ℝ → F2 ℝ) (s : Store2 B ℝ) :
    (bcast2D name f r src).exec s f = applyK2 r (s f) (src (s f)) ∧ ∀ b, b ≠ f → (bcast2D name f r src).exec s b = s b :=
  exec_write1 (bcast2D name f r src) f (fun s => src (s f)) rfl s

/-- C19 (damping, 2D PROGRAM, value claim): for every width `w ≥ 1` with non-overlapping zones (`2w ≤ nx, ny`), if the
incoming field is bounded by `M` on the four inner-edge lines of the zone (`j = w−1`, `j = nx−w`, `i = w−1`, `i = ny−w`),
then after the damping program every cell of the zone is bounded by `M` — whatever the coordinate arrays, spacing and
corner arguments are -/
theorem C19_damping_zone_bounded_2d (w : ℕ) (hw : 1 ≤ w) (ny nx : ℤ) (hx : 2 * (w : ℤ) ≤ nx) (hy : 2 * (w : ℤ) ≤ ny)
    (dx x0 x1 y0 y1 : ℝ) (f xg yg : B) (s : Store2 B ℝ) (M : ℝ)
    (hM : ∀ i j, 0 ≤ i → i < ny → 0 ≤ j → j < nx → (j = w - 1 ∨ j = nx - w ∨ i = w - 1 ∨ i = ny - w) → |s f i j| ≤ M)
    (i j : ℤ) (hi : 0 ≤ i ∧ i < ny) (hj : 0 ≤ j ∧ j < nx) (hzone : i < w ∨ ny - w ≤ i ∨ j < w ∨ nx - w ≤ j) :
    |exec2 (penaliseBoundary2D realTransc w ny nx dx x0 x1 y0 y1 f xg yg) s f i j| ≤ M := by
  have hw0 : w ≠ 0 := by omega
  have hW : (1 : ℤ) ≤ (w : ℤ) := by exact_mod_cast hw
  set W : ℤ := (w : ℤ) with hWdef
  have hhx : headHi nx W = W := min_eq_left (by omega)
  have htx : tailLo nx W = nx - W := max_eq_right (by omega)
  have hhy : headHi ny W = W := min_eq_left (by omega)
  have hty : tailLo ny W = ny - W := max_eq_right (by omega)
  unfold penaliseBoundary2D
  simp only [if_neg hw0, exec2_cons, exec2_nil]
  obtain ⟨dXF, dXB, _, _⟩ := kernels_isDamp w dx x0 f xg (⟨0, ny, 0, headHi nx W⟩ : Rect2)
  obtain ⟨_, dXB', _, _⟩ := kernels_isDamp w dx x1 f xg (⟨0, ny, tailLo nx W, nx⟩ : Rect2)
  obtain ⟨_, _, dYF, _⟩ := kernels_isDamp w dx y0 f yg (⟨0, headHi ny W, 0, nx⟩ : Rect2)
  obtain ⟨_, _, _, dYB⟩ := kernels_isDamp w dx y1 f yg (⟨tailLo ny W, ny, 0, nx⟩ : Rect2)
  -- the eight stages
  set t1 := (bcast2D "x_front" f ⟨0, ny, 0, headHi nx W⟩ (fun a i _ => a i (W - 1))).exec s with ht1
  set t2 := (bcast2D "x_back" f ⟨0, ny, tailLo nx W, nx⟩ (fun a i _ => a i (nx - W))).exec t1 with ht2
  set t3 := (penaliseKernelXFront realTransc w dx x0 f xg ⟨0, ny, 0, headHi nx W⟩).exec t2 with ht3
  set t4 := (penaliseKernelXBack realTransc w dx x1 f xg ⟨0, ny, tailLo nx W, nx⟩).exec t3 with ht4
  set t5 := (bcast2D "y_front" f ⟨0, headHi ny W, 0, nx⟩ (fun a _ j => a (W - 1) j)).exec t4 with ht5
  set t6 := (bcast2D "y_back" f ⟨tailLo ny W, ny, 0, nx⟩ (fun a _ j => a (ny - W) j)).exec t5 with ht6
  set t7 := (penaliseKernelYFront realTransc w dx y0 f yg ⟨0, headHi ny W, 0, nx⟩).exec t6 with ht7
  set t8 := (penaliseKernelYBack realTransc w dx y1 f yg ⟨tailLo ny W, ny, 0, nx⟩).exec t7 with ht8
  have e1 := (exec_bcast "x_front" f ⟨0, ny, 0, headHi nx W⟩ (fun a i _ => a i (W - 1)) s).1
  have e2 := (exec_bcast "x_back" f ⟨0, ny, tailLo nx W, nx⟩ (fun a i _ => a i (nx - W)) t1).1
  obtain ⟨b3, o3, _⟩ := exec_damp _ f dXF t2
  obtain ⟨b4, o4, _⟩ := exec_damp _ f dXB' t3
  have e5 := (exec_bcast "y_front" f ⟨0, headHi ny W, 0, nx⟩ (fun a _ j => a (W - 1) j) t4).1
  have e6 := (exec_bcast "y_back" f ⟨tailLo ny W, ny, 0, nx⟩ (fun a _ j => a (ny - W) j) t5).1
  obtain ⟨b7, o7, _⟩ := exec_damp _ f dYF t6
  obtain ⟨b8, o8, _⟩ := exec_damp _ f dYB t7
  rw [← ht1] at e1; rw [← ht2] at e2; rw [← ht3] at b3 o3; rw [← ht4] at b4 o4
  rw [← ht5] at e5; rw [← ht6] at e6; rw [← ht7] at b7 o7; rw [← ht8] at b8 o8
  -- after the two x copies: a value of the incoming field on an inner-edge column, or the incoming value itself
  have h2 : ∀ a b, 0 ≤ a → a < ny → 0 ≤ b → b < nx →
      t2 f a b = if b < W then s f a (W - 1) else if nx - W ≤ b then s f a (nx - W) else s f a b := by
    intro a b ha0 ha1 hb0 hb1
    rw [e2, e1]
    simp only [applyK2, Rect2.mem, hhx, htx]
    split_ifs <;> first | rfl | (exfalso; omega)
  -- g := field after the x part; bounded by M on the x zone and on the two inner-edge rows
  have hg : ∀ a b, 0 ≤ a → a < ny → 0 ≤ b → b < nx → (b < W ∨ nx - W ≤ b ∨ a = W - 1 ∨ a = ny - W) → |t4 f a b| ≤ M := by
    intro a b ha0 ha1 hb0 hb1 hc
    refine (b4 a b).trans ((b3 a b).trans ?_)
    rw [h2 a b ha0 ha1 hb0 hb1]
    split_ifs with c1 c2
    · exact hM a (W - 1) ha0 ha1 (by omega) (by omega) (Or.inl rfl)
    · exact hM a (nx - W) ha0 ha1 (by omega) (by omega) (Or.inr (Or.inl rfl))
    · rcases hc with h | h | h | h
      · exact absurd h c1
      · exact absurd h c2
      · exact hM a b ha0 ha1 hb0 hb1 (Or.inr (Or.inr (Or.inl h)))
      · exact hM a b ha0 ha1 hb0 hb1 (Or.inr (Or.inr (Or.inr h)))
  -- after the two y copies
  have h6 : t6 f i j = if i < W then t4 f (W - 1) j else if ny - W ≤ i then t4 f (ny - W) j else t4 f i j := by
    rw [e6, e5]
    simp only [applyK2, Rect2.mem, hhy, hty]
    split_ifs <;> first | rfl | (exfalso; omega)
  refine (b8 i j).trans ((b7 i j).trans ?_)
  rw [h6]
  split_ifs with c1 c2
  · exact hg (W - 1) j (by omega) (by omega) hj.1 hj.2 (Or.inr (Or.inr (Or.inl rfl)))
  · exact hg (ny - W) j (by omega) (by omega) hj.1 hj.2 (Or.inr (Or.inr (Or.inr rfl)))
  · rcases hzone with h | h | h | h
    · exact absurd h c1
    · exact absurd h c2
    · exact hg i j hi.1 hi.2 hj.1 hj.2 (Or.inl h)
    · exact hg i j hi.1 hi.2 hj.1 hj.2 (Or.inr (Or.inl h))

end Value

/-! ### program level (2D): the outermost ring is driven to zero -/

section RingZero
variable {B : Type} [DecidableEq B]

/-- a damping call whose sine argument is proportional to (coordinate − corner) -/
def IsDampLin (c : Call2 B ℝ) (f g : B) (corner : ℝ) : Prop :=
  ∃ κ : ℝ, c.writes = [(f, fun s i j => s f i j * Real.sin (κ * (s g i j - corner)))]

theorem kernels_isDampLin (w : ℕ) (dx c : ℝ) (f g : B) (r : Rect2) :
    IsDampLin (penaliseKernelXFront realTransc w dx c f g r) f g c ∧ IsDampLin (penaliseKernelXBack realTransc w dx c f g r) f g c ∧
    IsDampLin (penaliseKernelYFront realTransc w dx c f g r) f g c ∧ IsDampLin (penaliseKernelYBack realTransc w dx c f g r) f g c := by
  have front : ∀ q : ℝ, (fun (s : Store2 B ℝ) i j => s f i j * Real.sin (q * Real.pi * dx⁻¹ * (-c + s g i j)))
      = fun s i j => s f i j * Real.sin ((q * Real.pi * dx⁻¹) * (s g i j - c)) := by
    intro q; funext s i j; congr 2; ring
  have back : ∀ q : ℝ, (fun (s : Store2 B ℝ) i j => s f i j * Real.sin (q * Real.pi * dx⁻¹ * (c + -(s g i j))))
      = fun s i j => s f i j * Real.sin ((-(q * Real.pi * dx⁻¹)) * (s g i j - c)) := by
    intro q; funext s i j; congr 2; ring
  have mk : ∀ (q : ℝ) (c1 c2 c3 c4 : Call2 B ℝ),
      c1.writes = [(f, fun s i j => s f i j * Real.sin (q * Real.pi * dx⁻¹ * (-c + s g i j)))] →
      c2.writes = [(f, fun s i j => s f i j * Real.sin (q * Real.pi * dx⁻¹ * (c + -(s g i j))))] →
      c3.writes = [(f, fun s i j => s f i j * Real.sin (q * Real.pi * dx⁻¹ * (-c + s g i j)))] →
      c4.writes = [(f, fun s i j => s f i j * Real.sin (q * Real.pi * dx⁻¹ * (c + -(s g i j))))] →
      IsDampLin c1 f g c ∧ IsDampLin c2 f g c ∧ IsDampLin c3 f g c ∧ IsDampLin c4 f g c := by
    intro q c1 c2 c3 c4 h1 h2 h3 h4
    exact ⟨⟨_, by rw [h1, front q]⟩, ⟨_, by rw [h2, back q]⟩, ⟨_, by rw [h3, front q]⟩, ⟨_, by rw [h4, back q]⟩⟩
  rcases w with _ | _ | _ | _ | _ | _ | w
  · exact mk (1 / 12) _ _ _ _ rfl rfl rfl rfl
  · exact mk (1 / 2) _ _ _ _ rfl rfl rfl rfl
  · exact mk (1 / 4) _ _ _ _ rfl rfl rfl rfl
  · exact mk (1 / 6) _ _ _ _ rfl rfl rfl rfl
  · exact mk (1 / 8) _ _ _ _ rfl rfl rfl rfl
  · exact mk (1 / 10) _ _ _ _ rfl rfl rfl rfl
  · exact mk (1 / 12) _ _ _ _ rfl rfl rfl rfl

theorem exec_damplin (c : Call2 B ℝ) (f g : B) (corner : ℝ) (h : IsDampLin c f g corner) (s : Store2 B ℝ) :
    ∃ κ : ℝ, (∀ i j, c.region.mem i j → c.exec s f i j = s f i j * Real.sin (κ * (s g i j - corner))) := by
  obtain ⟨κ, hκ⟩ := h
  refine ⟨κ, fun i j hm => ?_⟩
  rw [(exec_write1 c f _ hκ s).1]
  simp only [applyK2, if_pos hm]

theorem damp_zero (c : Call2 B ℝ) (f : B) (h : IsDamp c f) (s : Store2 B ℝ) (i j : ℤ) (h0 : s f i j = 0) : c.exec s f i j = 0 := by
  have := (exec_damp c f h s).1 i j
  rw [h0, abs_zero] at this
  exact abs_eq_zero.mp (le_antisymm this (abs_nonneg _))

/-- C19 (damping, 2D PROGRAM, outermost ring): where the coordinate array holds the corner value the generator read —
the outermost column / row — the field is exactly zero after the damping program (any width ≥ 1, non-overlapping zones) -/
theorem C19_damping_ring_zero_2d (w : ℕ) (hw : 1 ≤ w) (ny nx : ℤ) (hx : 2 * (w : ℤ) ≤ nx) (hy : 2 * (w : ℤ) ≤ ny)
    (dx x0 x1 y0 y1 : ℝ) (f xg yg : B) (hfx : xg ≠ f) (hfy : yg ≠ f) (s : Store2 B ℝ) :
    ((∀ a, 0 ≤ a → a < ny → s xg a 0 = x0) → ∀ i, 0 ≤ i → i < ny →
        exec2 (penaliseBoundary2D realTransc w ny nx dx x0 x1 y0 y1 f xg yg) s f i 0 = 0) ∧
    ((∀ a, 0 ≤ a → a < ny → s xg a (nx - 1) = x1) → ∀ i, 0 ≤ i → i < ny →
        exec2 (penaliseBoundary2D realTransc w ny nx dx x0 x1 y0 y1 f xg yg) s f i (nx - 1) = 0) ∧
    ((∀ b, 0 ≤ b → b < nx → s yg 0 b = y0) → ∀ j, 0 ≤ j → j < nx →
        exec2 (penaliseBoundary2D realTransc w ny nx dx x0 x1 y0 y1 f xg yg) s f 0 j = 0) ∧
    ((∀ b, 0 ≤ b → b < nx → s yg (ny - 1) b = y1) → ∀ j, 0 ≤ j → j < nx →
        exec2 (penaliseBoundary2D realTransc w ny nx dx x0 x1 y0 y1 f xg yg) s f (ny - 1) j = 0) := by
  have hw0 : w ≠ 0 := by omega
  have hW : (1 : ℤ) ≤ (w : ℤ) := by exact_mod_cast hw
  set W : ℤ := (w : ℤ) with hWdef
  have hhx : headHi nx W = W := min_eq_left (by omega)
  have htx : tailLo nx W = nx - W := max_eq_right (by omega)
  have hhy : headHi ny W = W := min_eq_left (by omega)
  have hty : tailLo ny W = ny - W := max_eq_right (by omega)
  unfold penaliseBoundary2D
  simp only [if_neg hw0, exec2_cons, exec2_nil]
  obtain ⟨dXF, _, _, _⟩ := kernels_isDamp w dx x0 f xg (⟨0, ny, 0, headHi nx W⟩ : Rect2)
  obtain ⟨_, dXB, _, _⟩ := kernels_isDamp w dx x1 f xg (⟨0, ny, tailLo nx W, nx⟩ : Rect2)
  obtain ⟨_, _, dYF, _⟩ := kernels_isDamp w dx y0 f yg (⟨0, headHi ny W, 0, nx⟩ : Rect2)
  obtain ⟨_, _, _, dYB⟩ := kernels_isDamp w dx y1 f yg (⟨tailLo ny W, ny, 0, nx⟩ : Rect2)
  obtain ⟨lXF, _, _, _⟩ := kernels_isDampLin w dx x0 f xg (⟨0, ny, 0, headHi nx W⟩ : Rect2)
  obtain ⟨_, lXB, _, _⟩ := kernels_isDampLin w dx x1 f xg (⟨0, ny, tailLo nx W, nx⟩ : Rect2)
  obtain ⟨_, _, lYF, _⟩ := kernels_isDampLin w dx y0 f yg (⟨0, headHi ny W, 0, nx⟩ : Rect2)
  obtain ⟨_, _, _, lYB⟩ := kernels_isDampLin w dx y1 f yg (⟨tailLo ny W, ny, 0, nx⟩ : Rect2)
  have rXF := (penaliseKernel_regions realTransc w dx x0 f xg (⟨0, ny, 0, headHi nx W⟩ : Rect2)).1
  have rXB := (penaliseKernel_regions realTransc w dx x1 f xg (⟨0, ny, tailLo nx W, nx⟩ : Rect2)).2.1
  have rYF := (penaliseKernel_regions realTransc w dx y0 f yg (⟨0, headHi ny W, 0, nx⟩ : Rect2)).2.2.1
  have rYB := (penaliseKernel_regions realTransc w dx y1 f yg (⟨tailLo ny W, ny, 0, nx⟩ : Rect2)).2.2.2
  set t1 := (bcast2D "x_front" f ⟨0, ny, 0, headHi nx W⟩ (fun a i _ => a i (W - 1))).exec s with ht1
  set t2 := (bcast2D "x_back" f ⟨0, ny, tailLo nx W, nx⟩ (fun a i _ => a i (nx - W))).exec t1 with ht2
  set t3 := (penaliseKernelXFront realTransc w dx x0 f xg ⟨0, ny, 0, headHi nx W⟩).exec t2 with ht3
  set t4 := (penaliseKernelXBack realTransc w dx x1 f xg ⟨0, ny, tailLo nx W, nx⟩).exec t3 with ht4
  set t5 := (bcast2D "y_front" f ⟨0, headHi ny W, 0, nx⟩ (fun a _ j => a (W - 1) j)).exec t4 with ht5
  set t6 := (bcast2D "y_back" f ⟨tailLo ny W, ny, 0, nx⟩ (fun a _ j => a (ny - W) j)).exec t5 with ht6
  set t7 := (penaliseKernelYFront realTransc w dx y0 f yg ⟨0, headHi ny W, 0, nx⟩).exec t6 with ht7
  set t8 := (penaliseKernelYBack realTransc w dx y1 f yg ⟨tailLo ny W, ny, 0, nx⟩).exec t7 with ht8
  -- frames: the coordinate arrays are never written
  have k1 : ∀ b, b ≠ f → t1 b = s b := (exec_bcast _ f _ _ s).2
  have k2 : ∀ b, b ≠ f → t2 b = s b := fun b hb => ((exec_bcast _ f _ _ t1).2 b hb).trans (k1 b hb)
  have k3 : ∀ b, b ≠ f → t3 b = s b := fun b hb => ((exec_damp _ f dXF t2).2.2 b hb).trans (k2 b hb)
  have k4 : ∀ b, b ≠ f → t4 b = s b := fun b hb => ((exec_damp _ f dXB t3).2.2 b hb).trans (k3 b hb)
  have k5 : ∀ b, b ≠ f → t5 b = s b := fun b hb => ((exec_bcast _ f _ _ t4).2 b hb).trans (k4 b hb)
  have k6 : ∀ b, b ≠ f → t6 b = s b := fun b hb => ((exec_bcast _ f _ _ t5).2 b hb).trans (k5 b hb)
  have k7 : ∀ b, b ≠ f → t7 b = s b := fun b hb => ((exec_damp _ f dYF t6).2.2 b hb).trans (k6 b hb)
  have e5 : t5 f = applyK2 ⟨0, headHi ny W, 0, nx⟩ (t4 f) (fun _ j => t4 f (W - 1) j) := (exec_bcast "y_front" f _ _ t4).1
  have e6 : t6 f = applyK2 ⟨tailLo ny W, ny, 0, nx⟩ (t5 f) (fun _ j => t5 f (ny - W) j) := (exec_bcast "y_back" f _ _ t5).1
  -- a whole column that is zero after the x part stays zero through the y part
  have colKeep : ∀ j, 0 ≤ j → j < nx → (∀ a, 0 ≤ a → a < ny → t4 f a j = 0) → ∀ i, 0 ≤ i → i < ny → t8 f i j = 0 := by
    intro j hj0 hj1 hcol i hi0 hi1
    have h5 : ∀ a, 0 ≤ a → a < ny → t5 f a j = 0 := by
      intro a ha0 ha1
      rw [e5]; simp only [applyK2, Rect2.mem, hhy]
      split_ifs
      · exact hcol (W - 1) (by omega) (by omega)
      · exact hcol a ha0 ha1
    have h6 : t6 f i j = 0 := by
      rw [e6]; simp only [applyK2, Rect2.mem, hty]
      split_ifs
      · exact h5 (ny - W) (by omega) (by omega)
      · exact h5 i hi0 hi1
    exact damp_zero _ f dYB t7 i j (damp_zero _ f dYF t6 i j h6)
  refine ⟨?_, ?_, ?_, ?_⟩
  · intro hxg i hi0 hi1
    apply colKeep 0 (by omega) (by omega) _ i hi0 hi1
    intro a ha0 ha1
    obtain ⟨κ, hκ⟩ := exec_damplin _ f xg x0 lXF t2
    have h3 : t3 f a 0 = 0 := by
      rw [ht3, hκ a 0 (by rw [rXF]; simp only [Rect2.mem, hhx]; omega), k2 xg hfx, hxg a ha0 ha1]
      simp
    exact damp_zero _ f dXB t3 a 0 h3
  · intro hxg i hi0 hi1
    apply colKeep (nx - 1) (by omega) (by omega) _ i hi0 hi1
    intro a ha0 ha1
    obtain ⟨κ, hκ⟩ := exec_damplin _ f xg x1 lXB t3
    rw [ht4, hκ a (nx - 1) (by rw [rXB]; simp only [Rect2.mem, htx]; omega), k3 xg hfx, hxg a ha0 ha1]
    simp
  · intro hyg j hj0 hj1
    obtain ⟨κ, hκ⟩ := exec_damplin _ f yg y0 lYF t6
    have h7 : t7 f 0 j = 0 := by
      rw [ht7, hκ 0 j (by rw [rYF]; simp only [Rect2.mem, hhy]; omega), k6 yg hfy, hyg j hj0 hj1]
      simp
    exact damp_zero _ f dYB t7 0 j h7
  · intro hyg j hj0 hj1
    obtain ⟨κ, hκ⟩ := exec_damplin _ f yg y1 lYB t7
    rw [ht8, hκ (ny - 1) j (by rw [rYB]; simp only [Rect2.mem, hty]; omega), k7 yg hfy, hyg j hj0 hj1]
    simp

end RingZero

/-! ### program level (3D): the value claim -/

section Value3
variable {B : Type} [DecidableEq B]

def IsDamp3 (c : Call3 B ℝ) (f : B) : Prop :=
  ∃ θ : Store3 B ℝ → ℤ → ℤ → ℤ → ℝ, c.writes = [(f, fun s i j k => s f i j k * Real.sin (θ s i j k))]

theorem kernels_isDamp3 (w : ℕ) (dx c : ℝ) (f g : B) (r : Rect3) :
    IsDamp3 (call_penalise_field_x_front_boundary_stencil_3d_w realTransc w dx c f g r) f ∧
    IsDamp3 (call_penalise_field_x_back_boundary_stencil_3d_w realTransc w dx c f g r) f ∧
    IsDamp3 (call_penalise_field_y_front_boundary_stencil_3d_w realTransc w dx c f g r) f ∧
    IsDamp3 (call_penalise_field_y_back_boundary_stencil_3d_w realTransc w dx c f g r) f ∧
    IsDamp3 (call_penalise_field_z_front_boundary_stencil_3d_w realTransc w dx c f g r) f ∧
    IsDamp3 (call_penalise_field_z_back_boundary_stencil_3d_w realTransc w dx c f g r) f := by
  rcases w with _ | _ | _ | _ | _ | _ | w <;> exact ⟨⟨_, rfl⟩, ⟨_, rfl⟩, ⟨_, rfl⟩, ⟨_, rfl⟩, ⟨_, rfl⟩, ⟨_, rfl⟩⟩

theorem exec3_write1 (c : Call3 B ℝ) (f : B) (W : Store3 B ℝ → F3 ℝ) (h : c.writes = [(f, W)]) (s : Store3 B ℝ) :
    c.exec s f = applyK3 c.region (s f) (W s) ∧ ∀ b, b ≠ f → c.exec s b = s b := by
  constructor
  · simp [Call3.exec, h, Store3.set]
  · intro b hb; simp [Call3.exec, h, Store3.set, hb]

theorem exec_damp3 (c : Call3 B ℝ) (f : B) (h : IsDamp3 c f) (s : Store3 B ℝ) :
    (∀ i j k, |c.exec s f i j k| ≤ |s f i j k|) ∧ (∀ b, b ≠ f → c.exec s b = s b) := by
  obtain ⟨θ, hθ⟩ := h
  obtain ⟨h1, h2⟩ := exec3_write1 c f _ hθ s
  refine ⟨?_, h2⟩
  intro i j k
  rw [h1]; simp only [applyK3]
  split_ifs
  · exact abs_mul_sin_le _ _
  · exact le_rfl

theorem exec_bcast3 (name : String) (f : B) (r : Rect3) (src : F3 ℝ → F3 ℝ) (s : Store3 B ℝ) :
    (bcast3D name f r src).exec s f = applyK3 r (s f) (src (s f)) :=
  (exec3_write1 (bcast3D name f r src) f (fun s => src (s f)) rfl s).1

/-- C19 (damping, 3D PROGRAM, value claim): for every width `w ≥ 1` with non-overlapping zones, if the incoming field is
bounded by `M` on the six inner-edge planes of the zone, every cell of the zone is bounded by `M` afterwards — whatever
the coordinate arrays, spacing and corner arguments are -/
theorem C19_damping_zone_bounded_3d (w : ℕ) (hw : 1 ≤ w) (nz ny nx : ℤ) (hx : 2 * (w : ℤ) ≤ nx) (hy : 2 * (w : ℤ) ≤ ny) (hz : 2 * (w : ℤ) ≤ nz)
    (dx : ℝ) (c : Corners3 ℝ) (f xg yg zg : B) (s : Store3 B ℝ) (M : ℝ)
    (hM : ∀ i j k, 0 ≤ i → i < nz → 0 ≤ j → j < ny → 0 ≤ k → k < nx →
      (k = w - 1 ∨ k = nx - w ∨ j = w - 1 ∨ j = ny - w ∨ i = w - 1 ∨ i = nz - w) → |s f i j k| ≤ M)
    (i j k : ℤ) (hi : 0 ≤ i ∧ i < nz) (hj : 0 ≤ j ∧ j < ny) (hk : 0 ≤ k ∧ k < nx)
    (hzone : i < w ∨ nz - w ≤ i ∨ j < w ∨ ny - w ≤ j ∨ k < w ∨ nx - w ≤ k) :
    |exec3 (penaliseBoundary3D realTransc w nz ny nx dx c f xg yg zg) s f i j k| ≤ M := by
  have hw0 : w ≠ 0 := by omega
  have hW : (1 : ℤ) ≤ (w : ℤ) := by exact_mod_cast hw
  set W : ℤ := (w : ℤ) with hWdef
  have hhx : headHi nx W = W := min_eq_left (by omega)
  have htx : tailLo nx W = nx - W := max_eq_right (by omega)
  have hhy : headHi ny W = W := min_eq_left (by omega)
  have hty : tailLo ny W = ny - W := max_eq_right (by omega)
  have hhz : headHi nz W = W := min_eq_left (by omega)
  have htz : tailLo nz W = nz - W := max_eq_right (by omega)
  unfold penaliseBoundary3D
  simp only [if_neg hw0, exec3_cons, exec3_nil]
  obtain ⟨dXF, _, _, _, _, _⟩ := kernels_isDamp3 w dx c.x0 f xg (⟨0, nz, 0, ny, 0, headHi nx W⟩ : Rect3)
  obtain ⟨_, dXB, _, _, _, _⟩ := kernels_isDamp3 w dx c.x1 f xg (⟨0, nz, 0, ny, tailLo nx W, nx⟩ : Rect3)
  obtain ⟨_, _, dYF, _, _, _⟩ := kernels_isDamp3 w dx c.y0 f yg (⟨0, nz, 0, headHi ny W, 0, nx⟩ : Rect3)
  obtain ⟨_, _, _, dYB, _, _⟩ := kernels_isDamp3 w dx c.y1 f yg (⟨0, nz, tailLo ny W, ny, 0, nx⟩ : Rect3)
  obtain ⟨_, _, _, _, dZF, _⟩ := kernels_isDamp3 w dx c.z0 f zg (⟨0, headHi nz W, 0, ny, 0, nx⟩ : Rect3)
  obtain ⟨_, _, _, _, _, dZB⟩ := kernels_isDamp3 w dx c.z1 f zg (⟨tailLo nz W, nz, 0, ny, 0, nx⟩ : Rect3)
  set t1 := (bcast3D "x_front" f ⟨0, nz, 0, ny, 0, headHi nx W⟩ (fun a i j _ => a i j (W - 1))).exec s with ht1
  set t2 := (bcast3D "x_back" f ⟨0, nz, 0, ny, tailLo nx W, nx⟩ (fun a i j _ => a i j (nx - W))).exec t1 with ht2
  set t3 := (call_penalise_field_x_front_boundary_stencil_3d_w realTransc w dx c.x0 f xg ⟨0, nz, 0, ny, 0, headHi nx W⟩).exec t2 with ht3
  set t4 := (call_penalise_field_x_back_boundary_stencil_3d_w realTransc w dx c.x1 f xg ⟨0, nz, 0, ny, tailLo nx W, nx⟩).exec t3 with ht4
  set t5 := (bcast3D "y_front" f ⟨0, nz, 0, headHi ny W, 0, nx⟩ (fun a i _ k => a i (W - 1) k)).exec t4 with ht5
  set t6 := (bcast3D "y_back" f ⟨0, nz, tailLo ny W, ny, 0, nx⟩ (fun a i _ k => a i (ny - W) k)).exec t5 with ht6
  set t7 := (call_penalise_field_y_front_boundary_stencil_3d_w realTransc w dx c.y0 f yg ⟨0, nz, 0, headHi ny W, 0, nx⟩).exec t6 with ht7
  set t8 := (call_penalise_field_y_back_boundary_stencil_3d_w realTransc w dx c.y1 f yg ⟨0, nz, tailLo ny W, ny, 0, nx⟩).exec t7 with ht8
  set t9 := (bcast3D "z_front" f ⟨0, headHi nz W, 0, ny, 0, nx⟩ (fun a _ j k => a (W - 1) j k)).exec t8 with ht9
  set t10 := (bcast3D "z_back" f ⟨tailLo nz W, nz, 0, ny, 0, nx⟩ (fun a _ j k => a (nz - W) j k)).exec t9 with ht10
  set t11 := (call_penalise_field_z_front_boundary_stencil_3d_w realTransc w dx c.z0 f zg ⟨0, headHi nz W, 0, ny, 0, nx⟩).exec t10 with ht11
  set t12 := (call_penalise_field_z_back_boundary_stencil_3d_w realTransc w dx c.z1 f zg ⟨tailLo nz W, nz, 0, ny, 0, nx⟩).exec t11 with ht12
  have e1 := exec_bcast3 "x_front" f ⟨0, nz, 0, ny, 0, headHi nx W⟩ (fun a i j _ => a i j (W - 1)) s
  have e2 := exec_bcast3 "x_back" f ⟨0, nz, 0, ny, tailLo nx W, nx⟩ (fun a i j _ => a i j (nx - W)) t1
  have b3 := (exec_damp3 _ f dXF t2).1
  have b4 := (exec_damp3 _ f dXB t3).1
  have e5 := exec_bcast3 "y_front" f ⟨0, nz, 0, headHi ny W, 0, nx⟩ (fun a i _ k => a i (W - 1) k) t4
  have e6 := exec_bcast3 "y_back" f ⟨0, nz, tailLo ny W, ny, 0, nx⟩ (fun a i _ k => a i (ny - W) k) t5
  have b7 := (exec_damp3 _ f dYF t6).1
  have b8 := (exec_damp3 _ f dYB t7).1
  have e9 := exec_bcast3 "z_front" f ⟨0, headHi nz W, 0, ny, 0, nx⟩ (fun a _ j k => a (W - 1) j k) t8
  have e10 := exec_bcast3 "z_back" f ⟨tailLo nz W, nz, 0, ny, 0, nx⟩ (fun a _ j k => a (nz - W) j k) t9
  have b11 := (exec_damp3 _ f dZF t10).1
  have b12 := (exec_damp3 _ f dZB t11).1
  rw [← ht1] at e1; rw [← ht2] at e2; rw [← ht3] at b3; rw [← ht4] at b4
  rw [← ht5] at e5; rw [← ht6] at e6; rw [← ht7] at b7; rw [← ht8] at b8
  rw [← ht9] at e9; rw [← ht10] at e10; rw [← ht11] at b11; rw [← ht12] at b12
  -- x part
  have h2 : ∀ a b d, 0 ≤ a → a < nz → 0 ≤ b → b < ny → 0 ≤ d → d < nx →
      t2 f a b d = if d < W then s f a b (W - 1) else if nx - W ≤ d then s f a b (nx - W) else s f a b d := by
    intro a b d _ _ _ _ _ _
    rw [e2, e1]
    simp only [applyK3, Rect3.mem, hhx, htx]
    split_ifs <;> first | rfl | (exfalso; omega)
  have hg : ∀ a b d, 0 ≤ a → a < nz → 0 ≤ b → b < ny → 0 ≤ d → d < nx →
      (d < W ∨ nx - W ≤ d ∨ b = W - 1 ∨ b = ny - W ∨ a = W - 1 ∨ a = nz - W) → |t4 f a b d| ≤ M := by
    intro a b d ha0 ha1 hb0 hb1 hd0 hd1 hc
    refine (b4 a b d).trans ((b3 a b d).trans ?_)
    rw [h2 a b d ha0 ha1 hb0 hb1 hd0 hd1]
    split_ifs with c1 c2
    · exact hM a b (W - 1) ha0 ha1 hb0 hb1 (by omega) (by omega) (Or.inl rfl)
    · exact hM a b (nx - W) ha0 ha1 hb0 hb1 (by omega) (by omega) (Or.inr (Or.inl rfl))
    · rcases hc with h | h | h | h | h | h
      · exact absurd h c1
      · exact absurd h c2
      · exact hM a b d ha0 ha1 hb0 hb1 hd0 hd1 (Or.inr (Or.inr (Or.inl h)))
      · exact hM a b d ha0 ha1 hb0 hb1 hd0 hd1 (Or.inr (Or.inr (Or.inr (Or.inl h))))
      · exact hM a b d ha0 ha1 hb0 hb1 hd0 hd1 (Or.inr (Or.inr (Or.inr (Or.inr (Or.inl h)))))
      · exact hM a b d ha0 ha1 hb0 hb1 hd0 hd1 (Or.inr (Or.inr (Or.inr (Or.inr (Or.inr h)))))
  -- y part
  have h6 : ∀ a b d, 0 ≤ a → a < nz → 0 ≤ b → b < ny → 0 ≤ d → d < nx →
      t6 f a b d = if b < W then t4 f a (W - 1) d else if ny - W ≤ b then t4 f a (ny - W) d else t4 f a b d := by
    intro a b d _ _ _ _ _ _
    rw [e6, e5]
    simp only [applyK3, Rect3.mem, hhy, hty]
    split_ifs <;> first | rfl | (exfalso; omega)
  have hh : ∀ a b d, 0 ≤ a → a < nz → 0 ≤ b → b < ny → 0 ≤ d → d < nx →
      (d < W ∨ nx - W ≤ d ∨ b < W ∨ ny - W ≤ b ∨ a = W - 1 ∨ a = nz - W) → |t8 f a b d| ≤ M := by
    intro a b d ha0 ha1 hb0 hb1 hd0 hd1 hc
    refine (b8 a b d).trans ((b7 a b d).trans ?_)
    rw [h6 a b d ha0 ha1 hb0 hb1 hd0 hd1]
    split_ifs with c1 c2
    · exact hg a (W - 1) d ha0 ha1 (by omega) (by omega) hd0 hd1 (Or.inr (Or.inr (Or.inl rfl)))
    · exact hg a (ny - W) d ha0 ha1 (by omega) (by omega) hd0 hd1 (Or.inr (Or.inr (Or.inr (Or.inl rfl))))
    · rcases hc with h | h | h | h | h | h
      · exact hg a b d ha0 ha1 hb0 hb1 hd0 hd1 (Or.inl h)
      · exact hg a b d ha0 ha1 hb0 hb1 hd0 hd1 (Or.inr (Or.inl h))
      · exact absurd h c1
      · exact absurd h c2
      · exact hg a b d ha0 ha1 hb0 hb1 hd0 hd1 (Or.inr (Or.inr (Or.inr (Or.inr (Or.inl h)))))
      · exact hg a b d ha0 ha1 hb0 hb1 hd0 hd1 (Or.inr (Or.inr (Or.inr (Or.inr (Or.inr h)))))
  -- z part
  have h10 : t10 f i j k = if i < W then t8 f (W - 1) j k else if nz - W ≤ i then t8 f (nz - W) j k else t8 f i j k := by
    rw [e10, e9]
    simp only [applyK3, Rect3.mem, hhz, htz]
    split_ifs <;> first | rfl | (exfalso; omega)
  refine (b12 i j k).trans ((b11 i j k).trans ?_)
  rw [h10]
  split_ifs with c1 c2
  · exact hh (W - 1) j k (by omega) (by omega) hj.1 hj.2 hk.1 hk.2 (Or.inr (Or.inr (Or.inr (Or.inr (Or.inl rfl)))))
  · exact hh (nz - W) j k (by omega) (by omega) hj.1 hj.2 hk.1 hk.2 (Or.inr (Or.inr (Or.inr (Or.inr (Or.inr rfl)))))
  · rcases hzone with h | h | h | h | h | h
    · exact absurd h c1
    · exact absurd h c2
    · exact hh i j k hi.1 hi.2 hj.1 hj.2 hk.1 hk.2 (Or.inr (Or.inr (Or.inl h)))
    · exact hh i j k hi.1 hi.2 hj.1 hj.2 hk.1 hk.2 (Or.inr (Or.inr (Or.inr (Or.inl h))))
    · exact hh i j k hi.1 hi.2 hj.1 hj.2 hk.1 hk.2 (Or.inl h)
    · exact hh i j k hi.1 hi.2 hj.1 hj.2 hk.1 hk.2 (Or.inr (Or.inl h))

end Value3

/-! ### program level (3D): the outermost ring is driven to zero -/

section RingZero3
variable {B : Type} [DecidableEq B]

def IsDampLin3 (c : Call3 B ℝ) (f g : B) (corner : ℝ) : Prop :=
  ∃ κ : ℝ, c.writes = [(f, fun s i j k => s f i j k * Real.sin (κ * (s g i j k - corner)))]

theorem kernels_isDampLin3 (w : ℕ) (dx c : ℝ) (f g : B) (r : Rect3) :
    IsDampLin3 (call_penalise_field_x_front_boundary_stencil_3d_w realTransc w dx c f g r) f g c ∧
    IsDampLin3 (call_penalise_field_x_back_boundary_stencil_3d_w realTransc w dx c f g r) f g c ∧
    IsDampLin3 (call_penalise_field_y_front_boundary_stencil_3d_w realTransc w dx c f g r) f g c ∧
    IsDampLin3 (call_penalise_field_y_back_boundary_stencil_3d_w realTransc w dx c f g r) f g c ∧
    IsDampLin3 (call_penalise_field_z_front_boundary_stencil_3d_w realTransc w dx c f g r) f g c ∧
    IsDampLin3 (call_penalise_field_z_back_boundary_stencil_3d_w realTransc w dx c f g r) f g c := by
  have front : ∀ q : ℝ, (fun (s : Store3 B ℝ) i j k => s f i j k * Real.sin (q * Real.pi * dx⁻¹ * (-c + s g i j k)))
      = fun s i j k => s f i j k * Real.sin ((q * Real.pi * dx⁻¹) * (s g i j k - c)) := by
    intro q; funext s i j k; congr 2; ring
  have back : ∀ q : ℝ, (fun (s : Store3 B ℝ) i j k => s f i j k * Real.sin (q * Real.pi * dx⁻¹ * (c + -(s g i j k))))
      = fun s i j k => s f i j k * Real.sin ((-(q * Real.pi * dx⁻¹)) * (s g i j k - c)) := by
    intro q; funext s i j k; congr 2; ring
  have mk : ∀ (q : ℝ) (c1 c2 c3 c4 c5 c6 : Call3 B ℝ),
      c1.writes = [(f, fun s i j k => s f i j k * Real.sin (q * Real.pi * dx⁻¹ * (-c + s g i j k)))] →
      c2.writes = [(f, fun s i j k => s f i j k * Real.sin (q * Real.pi * dx⁻¹ * (c + -(s g i j k))))] →
      c3.writes = [(f, fun s i j k => s f i j k * Real.sin (q * Real.pi * dx⁻¹ * (-c + s g i j k)))] →
      c4.writes = [(f, fun s i j k => s f i j k * Real.sin (q * Real.pi * dx⁻¹ * (c + -(s g i j k))))] →
      c5.writes = [(f, fun s i j k => s f i j k * Real.sin (q * Real.pi * dx⁻¹ * (-c + s g i j k)))] →
      c6.writes = [(f, fun s i j k => s f i j k * Real.sin (q * Real.pi * dx⁻¹ * (c + -(s g i j k))))] →
      IsDampLin3 c1 f g c ∧ IsDampLin3 c2 f g c ∧ IsDampLin3 c3 f g c ∧ IsDampLin3 c4 f g c ∧ IsDampLin3 c5 f g c ∧ IsDampLin3 c6 f g c := by
    intro q c1 c2 c3 c4 c5 c6 h1 h2 h3 h4 h5 h6
    exact ⟨⟨_, by rw [h1, front q]⟩, ⟨_, by rw [h2, back q]⟩, ⟨_, by rw [h3, front q]⟩, ⟨_, by rw [h4, back q]⟩,
      ⟨_, by rw [h5, front q]⟩, ⟨_, by rw [h6, back q]⟩⟩
  rcases w with _ | _ | _ | _ | _ | _ | w
  · exact mk (1 / 12) _ _ _ _ _ _ rfl rfl rfl rfl rfl rfl
  · exact mk (1 / 2) _ _ _ _ _ _ rfl rfl rfl rfl rfl rfl
  · exact mk (1 / 4) _ _ _ _ _ _ rfl rfl rfl rfl rfl rfl
  · exact mk (1 / 6) _ _ _ _ _ _ rfl rfl rfl rfl rfl rfl
  · exact mk (1 / 8) _ _ _ _ _ _ rfl rfl rfl rfl rfl rfl
  · exact mk (1 / 10) _ _ _ _ _ _ rfl rfl rfl rfl rfl rfl
  · exact mk (1 / 12) _ _ _ _ _ _ rfl rfl rfl rfl rfl rfl

theorem exec_damplin3 (c : Call3 B ℝ) (f g : B) (corner : ℝ) (h : IsDampLin3 c f g corner) (s : Store3 B ℝ) :
    ∃ κ : ℝ, (∀ i j k, c.region.mem i j k → c.exec s f i j k = s f i j k * Real.sin (κ * (s g i j k - corner))) := by
  obtain ⟨κ, hκ⟩ := h
  refine ⟨κ, fun i j k hm => ?_⟩
  rw [(exec3_write1 c f _ hκ s).1]
  simp only [applyK3, if_pos hm]

theorem damp_zero3 (c : Call3 B ℝ) (f : B) (h : IsDamp3 c f) (s : Store3 B ℝ) (i j k : ℤ) (h0 : s f i j k = 0) : c.exec s f i j k = 0 := by
  have := (exec_damp3 c f h s).1 i j k
  rw [h0, abs_zero] at this
  exact abs_eq_zero.mp (le_antisymm this (abs_nonneg _))

/-- C19 (damping, 3D PROGRAM, outermost faces): on each of the six faces, where the coordinate array of that axis holds
the corner value the generator read, the field is exactly zero after the whole damping program (x, then y, then z
passes: the later passes only copy zeros or multiply them) — any width ≥ 1 with non-overlapping zones -/
theorem C19_damping_face_zero_3d (w : ℕ) (hw : 1 ≤ w) (nz ny nx : ℤ) (hx : 2 * (w : ℤ) ≤ nx) (hy : 2 * (w : ℤ) ≤ ny) (hz : 2 * (w : ℤ) ≤ nz)
    (dx : ℝ) (c : Corners3 ℝ) (f xg yg zg : B) (hfx : xg ≠ f) (hfy : yg ≠ f) (hfz : zg ≠ f) (s : Store3 B ℝ) :
    ((∀ a b, 0 ≤ a → a < nz → 0 ≤ b → b < ny → s xg a b 0 = c.x0) → ∀ i j, 0 ≤ i → i < nz → 0 ≤ j → j < ny →
        exec3 (penaliseBoundary3D realTransc w nz ny nx dx c f xg yg zg) s f i j 0 = 0) ∧
    ((∀ a b, 0 ≤ a → a < nz → 0 ≤ b → b < ny → s xg a b (nx - 1) = c.x1) → ∀ i j, 0 ≤ i → i < nz → 0 ≤ j → j < ny →
        exec3 (penaliseBoundary3D realTransc w nz ny nx dx c f xg yg zg) s f i j (nx - 1) = 0) ∧
    ((∀ a d, 0 ≤ a → a < nz → 0 ≤ d → d < nx → s yg a 0 d = c.y0) → ∀ i k, 0 ≤ i → i < nz → 0 ≤ k → k < nx →
        exec3 (penaliseBoundary3D realTransc w nz ny nx dx c f xg yg zg) s f i 0 k = 0) ∧
    ((∀ a d, 0 ≤ a → a < nz → 0 ≤ d → d < nx → s yg a (ny - 1) d = c.y1) → ∀ i k, 0 ≤ i → i < nz → 0 ≤ k → k < nx →
        exec3 (penaliseBoundary3D realTransc w nz ny nx dx c f xg yg zg) s f i (ny - 1) k = 0) ∧
    ((∀ b d, 0 ≤ b → b < ny → 0 ≤ d → d < nx → s zg 0 b d = c.z0) → ∀ j k, 0 ≤ j → j < ny → 0 ≤ k → k < nx →
        exec3 (penaliseBoundary3D realTransc w nz ny nx dx c f xg yg zg) s f 0 j k = 0) ∧
    ((∀ b d, 0 ≤ b → b < ny → 0 ≤ d → d < nx → s zg (nz - 1) b d = c.z1) → ∀ j k, 0 ≤ j → j < ny → 0 ≤ k → k < nx →
        exec3 (penaliseBoundary3D realTransc w nz ny nx dx c f xg yg zg) s f (nz - 1) j k = 0) := by
  have hw0 : w ≠ 0 := by omega
  have hW : (1 : ℤ) ≤ (w : ℤ) := by exact_mod_cast hw
  set W : ℤ := (w : ℤ) with hWdef
  have hhx : headHi nx W = W := min_eq_left (by omega)
  have htx : tailLo nx W = nx - W := max_eq_right (by omega)
  have hhy : headHi ny W = W := min_eq_left (by omega)
  have hty : tailLo ny W = ny - W := max_eq_right (by omega)
  have hhz : headHi nz W = W := min_eq_left (by omega)
  have htz : tailLo nz W = nz - W := max_eq_right (by omega)
  unfold penaliseBoundary3D
  simp only [if_neg hw0, exec3_cons, exec3_nil]
  obtain ⟨dXF, _, _, _, _, _⟩ := kernels_isDamp3 w dx c.x0 f xg (⟨0, nz, 0, ny, 0, headHi nx W⟩ : Rect3)
  obtain ⟨_, dXB, _, _, _, _⟩ := kernels_isDamp3 w dx c.x1 f xg (⟨0, nz, 0, ny, tailLo nx W, nx⟩ : Rect3)
  obtain ⟨_, _, dYF, _, _, _⟩ := kernels_isDamp3 w dx c.y0 f yg (⟨0, nz, 0, headHi ny W, 0, nx⟩ : Rect3)
  obtain ⟨_, _, _, dYB, _, _⟩ := kernels_isDamp3 w dx c.y1 f yg (⟨0, nz, tailLo ny W, ny, 0, nx⟩ : Rect3)
  obtain ⟨_, _, _, _, dZF, _⟩ := kernels_isDamp3 w dx c.z0 f zg (⟨0, headHi nz W, 0, ny, 0, nx⟩ : Rect3)
  obtain ⟨_, _, _, _, _, dZB⟩ := kernels_isDamp3 w dx c.z1 f zg (⟨tailLo nz W, nz, 0, ny, 0, nx⟩ : Rect3)
  obtain ⟨lXF, _, _, _, _, _⟩ := kernels_isDampLin3 w dx c.x0 f xg (⟨0, nz, 0, ny, 0, headHi nx W⟩ : Rect3)
  obtain ⟨_, lXB, _, _, _, _⟩ := kernels_isDampLin3 w dx c.x1 f xg (⟨0, nz, 0, ny, tailLo nx W, nx⟩ : Rect3)
  obtain ⟨_, _, lYF, _, _, _⟩ := kernels_isDampLin3 w dx c.y0 f yg (⟨0, nz, 0, headHi ny W, 0, nx⟩ : Rect3)
  obtain ⟨_, _, _, lYB, _, _⟩ := kernels_isDampLin3 w dx c.y1 f yg (⟨0, nz, tailLo ny W, ny, 0, nx⟩ : Rect3)
  obtain ⟨_, _, _, _, lZF, _⟩ := kernels_isDampLin3 w dx c.z0 f zg (⟨0, headHi nz W, 0, ny, 0, nx⟩ : Rect3)
  obtain ⟨_, _, _, _, _, lZB⟩ := kernels_isDampLin3 w dx c.z1 f zg (⟨tailLo nz W, nz, 0, ny, 0, nx⟩ : Rect3)
  have rXF := (penalise3_regions realTransc w dx c.x0 f xg (⟨0, nz, 0, ny, 0, headHi nx W⟩ : Rect3)).1
  have rXB := (penalise3_regions realTransc w dx c.x1 f xg (⟨0, nz, 0, ny, tailLo nx W, nx⟩ : Rect3)).2.1
  have rYF := (penalise3_regions realTransc w dx c.y0 f yg (⟨0, nz, 0, headHi ny W, 0, nx⟩ : Rect3)).2.2.1
  have rYB := (penalise3_regions realTransc w dx c.y1 f yg (⟨0, nz, tailLo ny W, ny, 0, nx⟩ : Rect3)).2.2.2.1
  have rZF := (penalise3_regions realTransc w dx c.z0 f zg (⟨0, headHi nz W, 0, ny, 0, nx⟩ : Rect3)).2.2.2.2.1
  have rZB := (penalise3_regions realTransc w dx c.z1 f zg (⟨tailLo nz W, nz, 0, ny, 0, nx⟩ : Rect3)).2.2.2.2.2
  set t1 := (bcast3D "x_front" f ⟨0, nz, 0, ny, 0, headHi nx W⟩ (fun a i j _ => a i j (W - 1))).exec s with ht1
  set t2 := (bcast3D "x_back" f ⟨0, nz, 0, ny, tailLo nx W, nx⟩ (fun a i j _ => a i j (nx - W))).exec t1 with ht2
  set t3 := (call_penalise_field_x_front_boundary_stencil_3d_w realTransc w dx c.x0 f xg ⟨0, nz, 0, ny, 0, headHi nx W⟩).exec t2 with ht3
  set t4 := (call_penalise_field_x_back_boundary_stencil_3d_w realTransc w dx c.x1 f xg ⟨0, nz, 0, ny, tailLo nx W, nx⟩).exec t3 with ht4
  set t5 := (bcast3D "y_front" f ⟨0, nz, 0, headHi ny W, 0, nx⟩ (fun a i _ k => a i (W - 1) k)).exec t4 with ht5
  set t6 := (bcast3D "y_back" f ⟨0, nz, tailLo ny W, ny, 0, nx⟩ (fun a i _ k => a i (ny - W) k)).exec t5 with ht6
  set t7 := (call_penalise_field_y_front_boundary_stencil_3d_w realTransc w dx c.y0 f yg ⟨0, nz, 0, headHi ny W, 0, nx⟩).exec t6 with ht7
  set t8 := (call_penalise_field_y_back_boundary_stencil_3d_w realTransc w dx c.y1 f yg ⟨0, nz, tailLo ny W, ny, 0, nx⟩).exec t7 with ht8
  set t9 := (bcast3D "z_front" f ⟨0, headHi nz W, 0, ny, 0, nx⟩ (fun a _ j k => a (W - 1) j k)).exec t8 with ht9
  set t10 := (bcast3D "z_back" f ⟨tailLo nz W, nz, 0, ny, 0, nx⟩ (fun a _ j k => a (nz - W) j k)).exec t9 with ht10
  set t11 := (call_penalise_field_z_front_boundary_stencil_3d_w realTransc w dx c.z0 f zg ⟨0, headHi nz W, 0, ny, 0, nx⟩).exec t10 with ht11
  set t12 := (call_penalise_field_z_back_boundary_stencil_3d_w realTransc w dx c.z1 f zg ⟨tailLo nz W, nz, 0, ny, 0, nx⟩).exec t11 with ht12
  -- frames of the coordinate arrays
  have fb : ∀ (name : String) (r : Rect3) (src : F3 ℝ → F3 ℝ) (t : Store3 B ℝ) (b : B), b ≠ f → (bcast3D name f r src).exec t b = t b :=
    fun name r src t b hb => (exec3_write1 (bcast3D name f r src) f (fun s => src (s f)) rfl t).2 b hb
  have k2 : ∀ b, b ≠ f → t2 b = s b := fun b hb => (fb _ _ _ t1 b hb).trans (fb _ _ _ s b hb)
  have k3 : ∀ b, b ≠ f → t3 b = s b := fun b hb => ((exec_damp3 _ f dXF t2).2 b hb).trans (k2 b hb)
  have k4 : ∀ b, b ≠ f → t4 b = s b := fun b hb => ((exec_damp3 _ f dXB t3).2 b hb).trans (k3 b hb)
  have k6 : ∀ b, b ≠ f → t6 b = s b := fun b hb => (fb _ _ _ t5 b hb).trans ((fb _ _ _ t4 b hb).trans (k4 b hb))
  have k7 : ∀ b, b ≠ f → t7 b = s b := fun b hb => ((exec_damp3 _ f dYF t6).2 b hb).trans (k6 b hb)
  have k8 : ∀ b, b ≠ f → t8 b = s b := fun b hb => ((exec_damp3 _ f dYB t7).2 b hb).trans (k7 b hb)
  have k10 : ∀ b, b ≠ f → t10 b = s b := fun b hb => (fb _ _ _ t9 b hb).trans ((fb _ _ _ t8 b hb).trans (k8 b hb))
  have k11 : ∀ b, b ≠ f → t11 b = s b := fun b hb => ((exec_damp3 _ f dZF t10).2 b hb).trans (k10 b hb)
  have e5 := exec_bcast3 "y_front" f ⟨0, nz, 0, headHi ny W, 0, nx⟩ (fun a i _ k => a i (W - 1) k) t4
  have e6 := exec_bcast3 "y_back" f ⟨0, nz, tailLo ny W, ny, 0, nx⟩ (fun a i _ k => a i (ny - W) k) t5
  have e9 := exec_bcast3 "z_front" f ⟨0, headHi nz W, 0, ny, 0, nx⟩ (fun a _ j k => a (W - 1) j k) t8
  have e10 := exec_bcast3 "z_back" f ⟨tailLo nz W, nz, 0, ny, 0, nx⟩ (fun a _ j k => a (nz - W) j k) t9
  rw [← ht5] at e5; rw [← ht6] at e6; rw [← ht9] at e9; rw [← ht10] at e10
  -- a column (all i) that is zero after the y pass stays zero through the z pass
  have zKeep : ∀ j k, (∀ a, 0 ≤ a → a < nz → t8 f a j k = 0) → ∀ i, 0 ≤ i → i < nz → t12 f i j k = 0 := by
    intro j k hcol i hi0 hi1
    have h9 : ∀ a, 0 ≤ a → a < nz → t9 f a j k = 0 := by
      intro a ha0 ha1
      rw [e9]; simp only [applyK3, Rect3.mem, hhz]
      split_ifs
      · exact hcol (W - 1) (by omega) (by omega)
      · exact hcol a ha0 ha1
    have h10 : t10 f i j k = 0 := by
      rw [e10]; simp only [applyK3, Rect3.mem, htz]
      split_ifs
      · exact h9 (nz - W) (by omega) (by omega)
      · exact h9 i hi0 hi1
    exact damp_zero3 _ f dZB t11 i j k (damp_zero3 _ f dZF t10 i j k h10)
  -- a face k = const that is zero after the x pass stays zero through the y pass
  have yKeep : ∀ k, (∀ a b, 0 ≤ a → a < nz → 0 ≤ b → b < ny → t4 f a b k = 0) →
      ∀ a b, 0 ≤ a → a < nz → 0 ≤ b → b < ny → t8 f a b k = 0 := by
    intro k hface a b ha0 ha1 hb0 hb1
    have h5 : ∀ b', 0 ≤ b' → b' < ny → t5 f a b' k = 0 := by
      intro b' hb0' hb1'
      rw [e5]; simp only [applyK3, Rect3.mem, hhy]
      split_ifs
      · exact hface a (W - 1) ha0 ha1 (by omega) (by omega)
      · exact hface a b' ha0 ha1 hb0' hb1'
    have h6 : t6 f a b k = 0 := by
      rw [e6]; simp only [applyK3, Rect3.mem, hty]
      split_ifs
      · exact h5 (ny - W) (by omega) (by omega)
      · exact h5 b hb0 hb1
    exact damp_zero3 _ f dYB t7 a b k (damp_zero3 _ f dYF t6 a b k h6)
  refine ⟨?_, ?_, ?_, ?_, ?_, ?_⟩
  · intro hxg i j hi0 hi1 hj0 hj1
    refine zKeep j 0 (fun a ha0 ha1 => yKeep 0 ?_ a j ha0 ha1 hj0 hj1) i hi0 hi1
    intro a b ha0 ha1 hb0 hb1
    obtain ⟨κ, hκ⟩ := exec_damplin3 _ f xg c.x0 lXF t2
    have h3 : t3 f a b 0 = 0 := by
      rw [ht3, hκ a b 0 (by rw [rXF]; simp only [Rect3.mem, hhx]; omega), k2 xg hfx, hxg a b ha0 ha1 hb0 hb1]
      simp
    exact damp_zero3 _ f dXB t3 a b 0 h3
  · intro hxg i j hi0 hi1 hj0 hj1
    refine zKeep j (nx - 1) (fun a ha0 ha1 => yKeep (nx - 1) ?_ a j ha0 ha1 hj0 hj1) i hi0 hi1
    intro a b ha0 ha1 hb0 hb1
    obtain ⟨κ, hκ⟩ := exec_damplin3 _ f xg c.x1 lXB t3
    rw [ht4, hκ a b (nx - 1) (by rw [rXB]; simp only [Rect3.mem, htx]; omega), k3 xg hfx, hxg a b ha0 ha1 hb0 hb1]
    simp
  · intro hyg i k hi0 hi1 hk0 hk1
    refine zKeep 0 k ?_ i hi0 hi1
    intro a ha0 ha1
    obtain ⟨κ, hκ⟩ := exec_damplin3 _ f yg c.y0 lYF t6
    have h7 : t7 f a 0 k = 0 := by
      rw [ht7, hκ a 0 k (by rw [rYF]; simp only [Rect3.mem, hhy]; omega), k6 yg hfy, hyg a k ha0 ha1 hk0 hk1]
      simp
    exact damp_zero3 _ f dYB t7 a 0 k h7
  · intro hyg i k hi0 hi1 hk0 hk1
    refine zKeep (ny - 1) k ?_ i hi0 hi1
    intro a ha0 ha1
    obtain ⟨κ, hκ⟩ := exec_damplin3 _ f yg c.y1 lYB t7
    rw [ht8, hκ a (ny - 1) k (by rw [rYB]; simp only [Rect3.mem, hty]; omega), k7 yg hfy, hyg a k ha0 ha1 hk0 hk1]
    simp
  · intro hzg j k hj0 hj1 hk0 hk1
    obtain ⟨κ, hκ⟩ := exec_damplin3 _ f zg c.z0 lZF t10
    have h11 : t11 f 0 j k = 0 := by
      rw [ht11, hκ 0 j k (by rw [rZF]; simp only [Rect3.mem, hhz]; omega), k10 zg hfz, hzg j k hj0 hj1 hk0 hk1]
      simp
    exact damp_zero3 _ f dZB t11 0 j k h11
  · intro hzg j k hj0 hj1 hk0 hk1
    obtain ⟨κ, hκ⟩ := exec_damplin3 _ f zg c.z1 lZB t11
    rw [ht12, hκ (nz - 1) j k (by rw [rZB]; simp only [Rect3.mem, htz]; omega), k11 zg hfz, hzg j k hj0 hj1 hk0 hk1]
    simp

end RingZero3

end Sopht.Props.C19
