/-
C19 (boundary-zone damping) — every generated damping kernel (all widths 1..6, all sides, 2D and 3D), read at ℝ
with `Real.sin` / `Real.pi`: the new value is the old value times a sine, hence never larger in magnitude — for EVERY
coordinate value, spacing and corner argument — and exactly zero where the cell-centre coordinate equals the corner
value the generator read (the outermost ring).  Program level (2D): cells outside the zone and all other buffers are
untouched.  "Bounded by the inner-edge value" then follows since the program first copies the inner-edge value into
the zone (the `bcast` calls of Model/Prog2D.penaliseBoundary2D, tied by the trace/numeric correspondence).
-/
import SophtVerif.Lemmas.Prog2D
import SophtVerif.Lemmas.Prog3D
import SophtVerif.Core.RealTransc
import Mathlib.Analysis.SpecialFunctions.Trigonometric.Basic
import Mathlib.Tactic.Ring
import Mathlib.Tactic.Linarith

set_option linter.unusedVariables false
set_option linter.unusedSectionVars false
set_option linter.unusedSimpArgs false

namespace Sopht.Props.C19
open Sopht Sopht.Gen Sopht.Model

theorem abs_mul_sin_le (a x : ℝ) : |a * Real.sin x| ≤ |a| := by
  rw [abs_mul]
  calc |a| * |Real.sin x| ≤ |a| * 1 := mul_le_mul_of_nonneg_left (Real.abs_sin_le_one x) (abs_nonneg a)
    _ = |a| := mul_one _

/-- 2D damping kernels never amplify and vanish where the coordinate equals the corner value -/
theorem C19_damping_kernels_2d (dx c : ℝ) (f g : F2 ℝ) (i j : ℤ) :
    (|penalise_field_x_front_boundary_stencil_2d_w1 realTransc dx c f g i j| ≤ |f i j| ∧
     |penalise_field_x_front_boundary_stencil_2d_w2 realTransc dx c f g i j| ≤ |f i j| ∧
     |penalise_field_x_front_boundary_stencil_2d_w3 realTransc dx c f g i j| ≤ |f i j| ∧
     |penalise_field_x_front_boundary_stencil_2d_w4 realTransc dx c f g i j| ≤ |f i j| ∧
     |penalise_field_x_front_boundary_stencil_2d_w5 realTransc dx c f g i j| ≤ |f i j| ∧
     |penalise_field_x_front_boundary_stencil_2d_w6 realTransc dx c f g i j| ≤ |f i j|) ∧
    (|penalise_field_x_back_boundary_stencil_2d_w1 realTransc dx c f g i j| ≤ |f i j| ∧
     |penalise_field_x_back_boundary_stencil_2d_w2 realTransc dx c f g i j| ≤ |f i j| ∧
     |penalise_field_x_back_boundary_stencil_2d_w3 realTransc dx c f g i j| ≤ |f i j| ∧
     |penalise_field_x_back_boundary_stencil_2d_w4 realTransc dx c f g i j| ≤ |f i j| ∧
     |penalise_field_x_back_boundary_stencil_2d_w5 realTransc dx c f g i j| ≤ |f i j| ∧
     |penalise_field_x_back_boundary_stencil_2d_w6 realTransc dx c f g i j| ≤ |f i j|) ∧
    (|penalise_field_y_front_boundary_stencil_2d_w1 realTransc dx c f g i j| ≤ |f i j| ∧
     |penalise_field_y_front_boundary_stencil_2d_w2 realTransc dx c f g i j| ≤ |f i j| ∧
     |penalise_field_y_front_boundary_stencil_2d_w3 realTransc dx c f g i j| ≤ |f i j| ∧
     |penalise_field_y_front_boundary_stencil_2d_w4 realTransc dx c f g i j| ≤ |f i j| ∧
     |penalise_field_y_front_boundary_stencil_2d_w5 realTransc dx c f g i j| ≤ |f i j| ∧
     |penalise_field_y_front_boundary_stencil_2d_w6 realTransc dx c f g i j| ≤ |f i j|) ∧
    (|penalise_field_y_back_boundary_stencil_2d_w1 realTransc dx c f g i j| ≤ |f i j| ∧
     |penalise_field_y_back_boundary_stencil_2d_w2 realTransc dx c f g i j| ≤ |f i j| ∧
     |penalise_field_y_back_boundary_stencil_2d_w3 realTransc dx c f g i j| ≤ |f i j| ∧
     |penalise_field_y_back_boundary_stencil_2d_w4 realTransc dx c f g i j| ≤ |f i j| ∧
     |penalise_field_y_back_boundary_stencil_2d_w5 realTransc dx c f g i j| ≤ |f i j| ∧
     |penalise_field_y_back_boundary_stencil_2d_w6 realTransc dx c f g i j| ≤ |f i j|) := by
  refine ⟨⟨?_, ?_, ?_, ?_, ?_, ?_⟩, ⟨?_, ?_, ?_, ?_, ?_, ?_⟩, ⟨?_, ?_, ?_, ?_, ?_, ?_⟩, ⟨?_, ?_, ?_, ?_, ?_, ?_⟩⟩ <;>
    exact abs_mul_sin_le _ _

/-- … and vanish on the outermost ring (coordinate = corner value) -/
theorem C19_damping_kernels_2d_zero (dx c : ℝ) (f g : F2 ℝ) (i j : ℤ) (h : g i j = c) :
    penalise_field_x_front_boundary_stencil_2d_w1 realTransc dx c f g i j = 0 ∧
    penalise_field_x_front_boundary_stencil_2d_w2 realTransc dx c f g i j = 0 ∧
    penalise_field_x_front_boundary_stencil_2d_w3 realTransc dx c f g i j = 0 ∧
    penalise_field_x_front_boundary_stencil_2d_w4 realTransc dx c f g i j = 0 ∧
    penalise_field_x_front_boundary_stencil_2d_w5 realTransc dx c f g i j = 0 ∧
    penalise_field_x_front_boundary_stencil_2d_w6 realTransc dx c f g i j = 0 ∧
    penalise_field_x_back_boundary_stencil_2d_w1 realTransc dx c f g i j = 0 ∧
    penalise_field_x_back_boundary_stencil_2d_w2 realTransc dx c f g i j = 0 ∧
    penalise_field_x_back_boundary_stencil_2d_w3 realTransc dx c f g i j = 0 ∧
    penalise_field_x_back_boundary_stencil_2d_w4 realTransc dx c f g i j = 0 ∧
    penalise_field_x_back_boundary_stencil_2d_w5 realTransc dx c f g i j = 0 ∧
    penalise_field_x_back_boundary_stencil_2d_w6 realTransc dx c f g i j = 0 ∧
    penalise_field_y_front_boundary_stencil_2d_w1 realTransc dx c f g i j = 0 ∧
    penalise_field_y_front_boundary_stencil_2d_w2 realTransc dx c f g i j = 0 ∧
    penalise_field_y_front_boundary_stencil_2d_w3 realTransc dx c f g i j = 0 ∧
    penalise_field_y_front_boundary_stencil_2d_w4 realTransc dx c f g i j = 0 ∧
    penalise_field_y_front_boundary_stencil_2d_w5 realTransc dx c f g i j = 0 ∧
    penalise_field_y_front_boundary_stencil_2d_w6 realTransc dx c f g i j = 0 ∧
    penalise_field_y_back_boundary_stencil_2d_w1 realTransc dx c f g i j = 0 ∧
    penalise_field_y_back_boundary_stencil_2d_w2 realTransc dx c f g i j = 0 ∧
    penalise_field_y_back_boundary_stencil_2d_w3 realTransc dx c f g i j = 0 ∧
    penalise_field_y_back_boundary_stencil_2d_w4 realTransc dx c f g i j = 0 ∧
    penalise_field_y_back_boundary_stencil_2d_w5 realTransc dx c f g i j = 0 ∧
    penalise_field_y_back_boundary_stencil_2d_w6 realTransc dx c f g i j = 0 := by
  refine ⟨?_, ?_, ?_, ?_, ?_, ?_, ?_, ?_, ?_, ?_, ?_, ?_, ?_, ?_, ?_, ?_, ?_, ?_, ?_, ?_, ?_, ?_, ?_, ?_⟩ <;>
    simp [penalise_field_x_front_boundary_stencil_2d_w1, penalise_field_x_front_boundary_stencil_2d_w2,
      penalise_field_x_front_boundary_stencil_2d_w3, penalise_field_x_front_boundary_stencil_2d_w4,
      penalise_field_x_front_boundary_stencil_2d_w5, penalise_field_x_front_boundary_stencil_2d_w6,
      penalise_field_x_back_boundary_stencil_2d_w1, penalise_field_x_back_boundary_stencil_2d_w2,
      penalise_field_x_back_boundary_stencil_2d_w3, penalise_field_x_back_boundary_stencil_2d_w4,
      penalise_field_x_back_boundary_stencil_2d_w5, penalise_field_x_back_boundary_stencil_2d_w6,
      penalise_field_y_front_boundary_stencil_2d_w1, penalise_field_y_front_boundary_stencil_2d_w2,
      penalise_field_y_front_boundary_stencil_2d_w3, penalise_field_y_front_boundary_stencil_2d_w4,
      penalise_field_y_front_boundary_stencil_2d_w5, penalise_field_y_front_boundary_stencil_2d_w6,
      penalise_field_y_back_boundary_stencil_2d_w1, penalise_field_y_back_boundary_stencil_2d_w2,
      penalise_field_y_back_boundary_stencil_2d_w3, penalise_field_y_back_boundary_stencil_2d_w4,
      penalise_field_y_back_boundary_stencil_2d_w5, penalise_field_y_back_boundary_stencil_2d_w6, h]

/-- 3D damping kernels (all axes, sides, widths) never amplify -/
theorem C19_damping_kernels_3d (dx c : ℝ) (f g : F3 ℝ) (i j k : ℤ) :
    |penalise_field_x_front_boundary_stencil_3d_w1 realTransc dx c f g i j k| ≤ |f i j k| ∧
    |penalise_field_x_front_boundary_stencil_3d_w2 realTransc dx c f g i j k| ≤ |f i j k| ∧
    |penalise_field_x_front_boundary_stencil_3d_w3 realTransc dx c f g i j k| ≤ |f i j k| ∧
    |penalise_field_x_front_boundary_stencil_3d_w4 realTransc dx c f g i j k| ≤ |f i j k| ∧
    |penalise_field_x_front_boundary_stencil_3d_w5 realTransc dx c f g i j k| ≤ |f i j k| ∧
    |penalise_field_x_front_boundary_stencil_3d_w6 realTransc dx c f g i j k| ≤ |f i j k| ∧
    |penalise_field_x_back_boundary_stencil_3d_w1 realTransc dx c f g i j k| ≤ |f i j k| ∧
    |penalise_field_x_back_boundary_stencil_3d_w2 realTransc dx c f g i j k| ≤ |f i j k| ∧
    |penalise_field_x_back_boundary_stencil_3d_w3 realTransc dx c f g i j k| ≤ |f i j k| ∧
    |penalise_field_x_back_boundary_stencil_3d_w4 realTransc dx c f g i j k| ≤ |f i j k| ∧
    |penalise_field_x_back_boundary_stencil_3d_w5 realTransc dx c f g i j k| ≤ |f i j k| ∧
    |penalise_field_x_back_boundary_stencil_3d_w6 realTransc dx c f g i j k| ≤ |f i j k| ∧
    |penalise_field_y_front_boundary_stencil_3d_w1 realTransc dx c f g i j k| ≤ |f i j k| ∧
    |penalise_field_y_front_boundary_stencil_3d_w2 realTransc dx c f g i j k| ≤ |f i j k| ∧
    |penalise_field_y_front_boundary_stencil_3d_w3 realTransc dx c f g i j k| ≤ |f i j k| ∧
    |penalise_field_y_front_boundary_stencil_3d_w4 realTransc dx c f g i j k| ≤ |f i j k| ∧
    |penalise_field_y_front_boundary_stencil_3d_w5 realTransc dx c f g i j k| ≤ |f i j k| ∧
    |penalise_field_y_front_boundary_stencil_3d_w6 realTransc dx c f g i j k| ≤ |f i j k| ∧
    |penalise_field_y_back_boundary_stencil_3d_w1 realTransc dx c f g i j k| ≤ |f i j k| ∧
    |penalise_field_y_back_boundary_stencil_3d_w2 realTransc dx c f g i j k| ≤ |f i j k| ∧
    |penalise_field_y_back_boundary_stencil_3d_w3 realTransc dx c f g i j k| ≤ |f i j k| ∧
    |penalise_field_y_back_boundary_stencil_3d_w4 realTransc dx c f g i j k| ≤ |f i j k| ∧
    |penalise_field_y_back_boundary_stencil_3d_w5 realTransc dx c f g i j k| ≤ |f i j k| ∧
    |penalise_field_y_back_boundary_stencil_3d_w6 realTransc dx c f g i j k| ≤ |f i j k| ∧
    |penalise_field_z_front_boundary_stencil_3d_w1 realTransc dx c f g i j k| ≤ |f i j k| ∧
    |penalise_field_z_front_boundary_stencil_3d_w2 realTransc dx c f g i j k| ≤ |f i j k| ∧
    |penalise_field_z_front_boundary_stencil_3d_w3 realTransc dx c f g i j k| ≤ |f i j k| ∧
    |penalise_field_z_front_boundary_stencil_3d_w4 realTransc dx c f g i j k| ≤ |f i j k| ∧
    |penalise_field_z_front_boundary_stencil_3d_w5 realTransc dx c f g i j k| ≤ |f i j k| ∧
    |penalise_field_z_front_boundary_stencil_3d_w6 realTransc dx c f g i j k| ≤ |f i j k| ∧
    |penalise_field_z_back_boundary_stencil_3d_w1 realTransc dx c f g i j k| ≤ |f i j k| ∧
    |penalise_field_z_back_boundary_stencil_3d_w2 realTransc dx c f g i j k| ≤ |f i j k| ∧
    |penalise_field_z_back_boundary_stencil_3d_w3 realTransc dx c f g i j k| ≤ |f i j k| ∧
    |penalise_field_z_back_boundary_stencil_3d_w4 realTransc dx c f g i j k| ≤ |f i j k| ∧
    |penalise_field_z_back_boundary_stencil_3d_w5 realTransc dx c f g i j k| ≤ |f i j k| ∧
    |penalise_field_z_back_boundary_stencil_3d_w6 realTransc dx c f g i j k| ≤ |f i j k| := by
  refine ⟨?_, ?_, ?_, ?_, ?_, ?_, ?_, ?_, ?_, ?_, ?_, ?_, ?_, ?_, ?_, ?_, ?_, ?_, ?_, ?_, ?_, ?_, ?_, ?_, ?_, ?_, ?_, ?_, ?_, ?_, ?_, ?_, ?_, ?_, ?_, ?_⟩ <;> exact abs_mul_sin_le _ _

/-- … and vanish where the coordinate equals the corner value -/
theorem C19_damping_kernels_3d_zero (dx c : ℝ) (f g : F3 ℝ) (i j k : ℤ) (h : g i j k = c) :
    penalise_field_x_front_boundary_stencil_3d_w1 realTransc dx c f g i j k = 0 ∧
    penalise_field_x_front_boundary_stencil_3d_w2 realTransc dx c f g i j k = 0 ∧
    penalise_field_x_front_boundary_stencil_3d_w3 realTransc dx c f g i j k = 0 ∧
    penalise_field_x_front_boundary_stencil_3d_w4 realTransc dx c f g i j k = 0 ∧
    penalise_field_x_front_boundary_stencil_3d_w5 realTransc dx c f g i j k = 0 ∧
    penalise_field_x_front_boundary_stencil_3d_w6 realTransc dx c f g i j k = 0 ∧
    penalise_field_x_back_boundary_stencil_3d_w1 realTransc dx c f g i j k = 0 ∧
    penalise_field_x_back_boundary_stencil_3d_w2 realTransc dx c f g i j k = 0 ∧
    penalise_field_x_back_boundary_stencil_3d_w3 realTransc dx c f g i j k = 0 ∧
    penalise_field_x_back_boundary_stencil_3d_w4 realTransc dx c f g i j k = 0 ∧
    penalise_field_x_back_boundary_stencil_3d_w5 realTransc dx c f g i j k = 0 ∧
    penalise_field_x_back_boundary_stencil_3d_w6 realTransc dx c f g i j k = 0 ∧
    penalise_field_y_front_boundary_stencil_3d_w1 realTransc dx c f g i j k = 0 ∧
    penalise_field_y_front_boundary_stencil_3d_w2 realTransc dx c f g i j k = 0 ∧
    penalise_field_y_front_boundary_stencil_3d_w3 realTransc dx c f g i j k = 0 ∧
    penalise_field_y_front_boundary_stencil_3d_w4 realTransc dx c f g i j k = 0 ∧
    penalise_field_y_front_boundary_stencil_3d_w5 realTransc dx c f g i j k = 0 ∧
    penalise_field_y_front_boundary_stencil_3d_w6 realTransc dx c f g i j k = 0 ∧
    penalise_field_y_back_boundary_stencil_3d_w1 realTransc dx c f g i j k = 0 ∧
    penalise_field_y_back_boundary_stencil_3d_w2 realTransc dx c f g i j k = 0 ∧
    penalise_field_y_back_boundary_stencil_3d_w3 realTransc dx c f g i j k = 0 ∧
    penalise_field_y_back_boundary_stencil_3d_w4 realTransc dx c f g i j k = 0 ∧
    penalise_field_y_back_boundary_stencil_3d_w5 realTransc dx c f g i j k = 0 ∧
    penalise_field_y_back_boundary_stencil_3d_w6 realTransc dx c f g i j k = 0 ∧
    penalise_field_z_front_boundary_stencil_3d_w1 realTransc dx c f g i j k = 0 ∧
    penalise_field_z_front_boundary_stencil_3d_w2 realTransc dx c f g i j k = 0 ∧
    penalise_field_z_front_boundary_stencil_3d_w3 realTransc dx c f g i j k = 0 ∧
    penalise_field_z_front_boundary_stencil_3d_w4 realTransc dx c f g i j k = 0 ∧
    penalise_field_z_front_boundary_stencil_3d_w5 realTransc dx c f g i j k = 0 ∧
    penalise_field_z_front_boundary_stencil_3d_w6 realTransc dx c f g i j k = 0 ∧
    penalise_field_z_back_boundary_stencil_3d_w1 realTransc dx c f g i j k = 0 ∧
    penalise_field_z_back_boundary_stencil_3d_w2 realTransc dx c f g i j k = 0 ∧
    penalise_field_z_back_boundary_stencil_3d_w3 realTransc dx c f g i j k = 0 ∧
    penalise_field_z_back_boundary_stencil_3d_w4 realTransc dx c f g i j k = 0 ∧
    penalise_field_z_back_boundary_stencil_3d_w5 realTransc dx c f g i j k = 0 ∧
    penalise_field_z_back_boundary_stencil_3d_w6 realTransc dx c f g i j k = 0 := by
  refine ⟨?_, ?_, ?_, ?_, ?_, ?_, ?_, ?_, ?_, ?_, ?_, ?_, ?_, ?_, ?_, ?_, ?_, ?_, ?_, ?_, ?_, ?_, ?_, ?_, ?_, ?_, ?_, ?_, ?_, ?_, ?_, ?_, ?_, ?_, ?_, ?_⟩ <;>
    simp [penalise_field_x_front_boundary_stencil_3d_w1, penalise_field_x_front_boundary_stencil_3d_w2, penalise_field_x_front_boundary_stencil_3d_w3, penalise_field_x_front_boundary_stencil_3d_w4, penalise_field_x_front_boundary_stencil_3d_w5, penalise_field_x_front_boundary_stencil_3d_w6, penalise_field_x_back_boundary_stencil_3d_w1, penalise_field_x_back_boundary_stencil_3d_w2, penalise_field_x_back_boundary_stencil_3d_w3, penalise_field_x_back_boundary_stencil_3d_w4, penalise_field_x_back_boundary_stencil_3d_w5, penalise_field_x_back_boundary_stencil_3d_w6, penalise_field_y_front_boundary_stencil_3d_w1, penalise_field_y_front_boundary_stencil_3d_w2, penalise_field_y_front_boundary_stencil_3d_w3, penalise_field_y_front_boundary_stencil_3d_w4, penalise_field_y_front_boundary_stencil_3d_w5, penalise_field_y_front_boundary_stencil_3d_w6, penalise_field_y_back_boundary_stencil_3d_w1, penalise_field_y_back_boundary_stencil_3d_w2, penalise_field_y_back_boundary_stencil_3d_w3, penalise_field_y_back_boundary_stencil_3d_w4, penalise_field_y_back_boundary_stencil_3d_w5, penalise_field_y_back_boundary_stencil_3d_w6, penalise_field_z_front_boundary_stencil_3d_w1, penalise_field_z_front_boundary_stencil_3d_w2, penalise_field_z_front_boundary_stencil_3d_w3, penalise_field_z_front_boundary_stencil_3d_w4, penalise_field_z_front_boundary_stencil_3d_w5, penalise_field_z_front_boundary_stencil_3d_w6, penalise_field_z_back_boundary_stencil_3d_w1, penalise_field_z_back_boundary_stencil_3d_w2, penalise_field_z_back_boundary_stencil_3d_w3, penalise_field_z_back_boundary_stencil_3d_w4, penalise_field_z_back_boundary_stencil_3d_w5, penalise_field_z_back_boundary_stencil_3d_w6, h]

/-! ### program level (2D): nothing outside the zone, no other buffer -/

section Program
variable {B K : Type} [DecidableEq B] [Field K] [LinearOrder K] [IsStrictOrderedRing K]

theorem penaliseKernel_regions (T : Transc K) (w : ℕ) (dx c : K) (f xg : B) (r : Rect2) :
    (penaliseKernelXFront T w dx c f xg r).region = r ∧ (penaliseKernelXBack T w dx c f xg r).region = r ∧
    (penaliseKernelYFront T w dx c f xg r).region = r ∧ (penaliseKernelYBack T w dx c f xg r).region = r := by
  rcases w with _ | _ | _ | _ | _ | _ | w <;> exact ⟨rfl, rfl, rfl, rfl⟩

theorem penaliseKernel_written (T : Transc K) (w : ℕ) (dx c : K) (f xg : B) (r : Rect2) :
    (penaliseKernelXFront T w dx c f xg r).written = [f] ∧ (penaliseKernelXBack T w dx c f xg r).written = [f] ∧
    (penaliseKernelYFront T w dx c f xg r).written = [f] ∧ (penaliseKernelYBack T w dx c f xg r).written = [f] := by
  rcases w with _ | _ | _ | _ | _ | _ | w <;> exact ⟨rfl, rfl, rfl, rfl⟩

/-- C19 (damping, 2D PROGRAM, every width): cells farther than `w` from every side keep their value, and no buffer
other than the field is written -/
theorem C19_damping_outside_zone_2d (T : Transc K) (w : ℕ) (ny nx : ℤ) (dx x0 x1 y0 y1 : K) (f xg yg : B) (s : Store2 B K) :
    (∀ b i j, ¬ (i < w ∨ ny - w ≤ i ∨ j < w ∨ nx - w ≤ j) →
      exec2 (penaliseBoundary2D T w ny nx dx x0 x1 y0 y1 f xg yg) s b i j = s b i j) ∧
    (∀ b, b ≠ f → exec2 (penaliseBoundary2D T w ny nx dx x0 x1 y0 y1 f xg yg) s b = s b) := by
  obtain ⟨r1, r2, _, _⟩ := penaliseKernel_regions T w dx x0 f xg ⟨0, ny, 0, headHi nx w⟩
  refine ⟨?_, ?_⟩
  · intro b i j hout
    apply exec2_outside
    intro c hc
    unfold penaliseBoundary2D at hc
    split_ifs at hc with hw0
    · simp at hc
    · simp only [List.mem_cons, List.mem_nil_iff, or_false] at hc
      rcases hc with rfl | rfl | rfl | rfl | rfl | rfl | rfl | rfl <;>
        simp only [bcast2D, (penaliseKernel_regions T w dx _ f _ _).1, (penaliseKernel_regions T w dx _ f _ _).2.1,
          (penaliseKernel_regions T w dx _ f _ _).2.2.1, (penaliseKernel_regions T w dx _ f _ _).2.2.2,
          Rect2.mem, headHi, tailLo] <;> omega
  · intro b hb
    apply exec2_other
    intro hmem
    simp only [written2, List.mem_flatMap] at hmem
    obtain ⟨c, hc, hbc⟩ := hmem
    unfold penaliseBoundary2D at hc
    split_ifs at hc with hw0
    · simp at hc
    · simp only [List.mem_cons, List.mem_nil_iff, or_false] at hc
      have hw : c.written = [f] := by
        rcases hc with rfl | rfl | rfl | rfl | rfl | rfl | rfl | rfl <;>
          first
            | rfl
            | exact (penaliseKernel_written T w dx _ f _ _).1
            | exact (penaliseKernel_written T w dx _ f _ _).2.1
            | exact (penaliseKernel_written T w dx _ f _ _).2.2.1
            | exact (penaliseKernel_written T w dx _ f _ _).2.2.2
      rw [hw] at hbc
      simp at hbc
      exact hb hbc

end Program

/-! ### program level (3D) -/

section Program3
variable {B K : Type} [DecidableEq B] [Field K] [LinearOrder K] [IsStrictOrderedRing K]

theorem penalise3_regions (T : Transc K) (w : ℕ) (dx c : K) (f g : B) (r : Rect3) :
    (call_penalise_field_x_front_boundary_stencil_3d_w T w dx c f g r).region = r ∧
    (call_penalise_field_x_back_boundary_stencil_3d_w T w dx c f g r).region = r ∧
    (call_penalise_field_y_front_boundary_stencil_3d_w T w dx c f g r).region = r ∧
    (call_penalise_field_y_back_boundary_stencil_3d_w T w dx c f g r).region = r ∧
    (call_penalise_field_z_front_boundary_stencil_3d_w T w dx c f g r).region = r ∧
    (call_penalise_field_z_back_boundary_stencil_3d_w T w dx c f g r).region = r := by
  rcases w with _ | _ | _ | _ | _ | _ | w <;> exact ⟨rfl, rfl, rfl, rfl, rfl, rfl⟩

theorem penalise3_written (T : Transc K) (w : ℕ) (dx c : K) (f g : B) (r : Rect3) :
    (call_penalise_field_x_front_boundary_stencil_3d_w T w dx c f g r).written = [f] ∧
    (call_penalise_field_x_back_boundary_stencil_3d_w T w dx c f g r).written = [f] ∧
    (call_penalise_field_y_front_boundary_stencil_3d_w T w dx c f g r).written = [f] ∧
    (call_penalise_field_y_back_boundary_stencil_3d_w T w dx c f g r).written = [f] ∧
    (call_penalise_field_z_front_boundary_stencil_3d_w T w dx c f g r).written = [f] ∧
    (call_penalise_field_z_back_boundary_stencil_3d_w T w dx c f g r).written = [f] := by
  rcases w with _ | _ | _ | _ | _ | _ | w <;> exact ⟨rfl, rfl, rfl, rfl, rfl, rfl⟩

/-- C19 (damping, 3D PROGRAM, every width): cells farther than `w` from every side keep their value, and no buffer
other than the field is written -/
theorem C19_damping_outside_zone_3d (T : Transc K) (w : ℕ) (nz ny nx : ℤ) (dx : K) (c : Corners3 K) (f xg yg zg : B) (s : Store3 B K) :
    (∀ b i j k, ¬ (i < w ∨ nz - w ≤ i ∨ j < w ∨ ny - w ≤ j ∨ k < w ∨ nx - w ≤ k) →
      exec3 (penaliseBoundary3D T w nz ny nx dx c f xg yg zg) s b i j k = s b i j k) ∧
    (∀ b, b ≠ f → exec3 (penaliseBoundary3D T w nz ny nx dx c f xg yg zg) s b = s b) := by
  refine ⟨?_, ?_⟩
  · intro b i j k hout
    apply exec3_outside
    intro cl hc
    unfold penaliseBoundary3D at hc
    split_ifs at hc with hw0
    · simp at hc
    · simp only [List.mem_cons, List.mem_nil_iff, or_false] at hc
      rcases hc with rfl | rfl | rfl | rfl | rfl | rfl | rfl | rfl | rfl | rfl | rfl | rfl <;>
        simp only [bcast3D, (penalise3_regions T w dx _ f _ _).1, (penalise3_regions T w dx _ f _ _).2.1,
          (penalise3_regions T w dx _ f _ _).2.2.1, (penalise3_regions T w dx _ f _ _).2.2.2.1,
          (penalise3_regions T w dx _ f _ _).2.2.2.2.1, (penalise3_regions T w dx _ f _ _).2.2.2.2.2,
          Rect3.mem, headHi, tailLo] <;> omega
  · intro b hb
    apply exec3_other
    intro hmem
    simp only [written3, List.mem_flatMap] at hmem
    obtain ⟨cl, hc, hbc⟩ := hmem
    unfold penaliseBoundary3D at hc
    split_ifs at hc with hw0
    · simp at hc
    · simp only [List.mem_cons, List.mem_nil_iff, or_false] at hc
      have hw : cl.written = [f] := by
        rcases hc with rfl | rfl | rfl | rfl | rfl | rfl | rfl | rfl | rfl | rfl | rfl | rfl <;>
          first
            | rfl
            | exact (penalise3_written T w dx _ f _ _).1
            | exact (penalise3_written T w dx _ f _ _).2.1
            | exact (penalise3_written T w dx _ f _ _).2.2.1
            | exact (penalise3_written T w dx _ f _ _).2.2.2.1
            | exact (penalise3_written T w dx _ f _ _).2.2.2.2.1
            | exact (penalise3_written T w dx _ f _ _).2.2.2.2.2
      rw [hw] at hbc
      simp at hbc
      exact hb hbc

end Program3

end Sopht.Props.C19
