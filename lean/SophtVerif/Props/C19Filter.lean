/-
C19 (Laplacian filters) — kernel level: the generated 1D filter stencils kill constants, reproduce the cell-wise
checkerboard (so `field − flux` annihilates it) and multiply every Fourier mode along their axis by
`(1 − cos θ)/2 ∈ [0, 1]`; hence the multiplicative filter `1 − (g_x g_y g_z)^n` and the convolution filter
`Π_a (1 − g_a^n)` have factors in `[0, 1]` for every order `n`.  Program level (Model/Prog3D.filter*): for every
order the filter PROGRAM's result is independent of what the two work buffers held before (section `Program`).
-/
import SophtVerif.Props.C13_3D
import SophtVerif.Core.RealTransc
import Mathlib.Analysis.SpecialFunctions.Trigonometric.Basic
import Mathlib.Tactic.Ring
import Mathlib.Tactic.Linarith
import Mathlib.Tactic.Positivity

set_option linter.unusedVariables false
set_option linter.unusedSectionVars false
set_option linter.unusedSimpArgs false

namespace Sopht.Props.C19
open Sopht Sopht.Gen Sopht.Model

section kernel
variable {K : Type} [Field K] [LinearOrder K] [IsStrictOrderedRing K]

/-- constants are in the kernel of each 1D filter flux: `field − flux` keeps them fixed -/
theorem C19_filter_kills_constants (c : K) (i j k : ℤ) :
    laplacian_filter_3d_x (fun _ _ _ => c) i j k = 0 ∧ laplacian_filter_3d_y (fun _ _ _ => c) i j k = 0 ∧
    laplacian_filter_3d_z (fun _ _ _ => c) i j k = 0 := by
  refine ⟨?_, ?_, ?_⟩ <;> simp only [laplacian_filter_3d_x, laplacian_filter_3d_y, laplacian_filter_3d_z] <;> ring

/-- a field that alternates in sign along an axis is reproduced by that axis' filter flux (eigenvalue 1), so
`field − flux` annihilates the checkerboard mode -/
theorem C19_filter_checkerboard (f : F3 K) (i j k : ℤ) :
    (f i j (k + 1) = -f i j k → f i j (k - 1) = -f i j k → laplacian_filter_3d_x f i j k = f i j k) ∧
    (f i (j + 1) k = -f i j k → f i (j - 1) k = -f i j k → laplacian_filter_3d_y f i j k = f i j k) ∧
    (f (i + 1) j k = -f i j k → f (i - 1) j k = -f i j k → laplacian_filter_3d_z f i j k = f i j k) := by
  refine ⟨?_, ?_, ?_⟩ <;> intro h1 h2 <;>
    simp only [laplacian_filter_3d_x, laplacian_filter_3d_y, laplacian_filter_3d_z, h1, h2] <;> ring

/-- the per-pass factors combine to a factor in `[0, 1]` for every order (multiplicative and convolution type) -/
theorem C19_filter_factor_range (gx gy gz : K) (hx : 0 ≤ gx ∧ gx ≤ 1) (hy : 0 ≤ gy ∧ gy ≤ 1) (hz : 0 ≤ gz ∧ gz ≤ 1) (n : ℕ) :
    (0 ≤ 1 - (gx * gy * gz) ^ n ∧ 1 - (gx * gy * gz) ^ n ≤ 1) ∧
    (0 ≤ (1 - gx ^ n) * (1 - gy ^ n) * (1 - gz ^ n) ∧ (1 - gx ^ n) * (1 - gy ^ n) * (1 - gz ^ n) ≤ 1) := by
  have hp : ∀ g : K, 0 ≤ g ∧ g ≤ 1 → 0 ≤ g ^ n ∧ g ^ n ≤ 1 := fun g hg => ⟨pow_nonneg hg.1 n, pow_le_one₀ hg.1 hg.2⟩
  have hxyz : 0 ≤ gx * gy * gz ∧ gx * gy * gz ≤ 1 := by
    refine ⟨by have := mul_nonneg (mul_nonneg hx.1 hy.1) hz.1; exact this, ?_⟩
    calc gx * gy * gz ≤ 1 * 1 * 1 := by
          apply mul_le_mul (mul_le_mul hx.2 hy.2 hy.1 (by norm_num)) hz.2 hz.1 (by norm_num)
      _ = 1 := by ring
  obtain ⟨a1, a2⟩ := hp _ hxyz
  obtain ⟨x1, x2⟩ := hp _ hx
  obtain ⟨y1, y2⟩ := hp _ hy
  obtain ⟨z1, z2⟩ := hp _ hz
  refine ⟨⟨by linarith, by linarith⟩, ⟨?_, ?_⟩⟩
  · exact mul_nonneg (mul_nonneg (by linarith) (by linarith)) (by linarith)
  · calc (1 - gx ^ n) * (1 - gy ^ n) * (1 - gz ^ n) ≤ 1 * 1 * 1 := by
          apply mul_le_mul (mul_le_mul (by linarith) (by linarith) (by linarith) (by norm_num)) (by linarith) (by linarith) (by norm_num)
      _ = 1 := by ring

end kernel

/-! ### Fourier modes (over ℝ) -/

/-- a real Fourier mode along x with any amplitude / phase profile in the other directions is an eigenfunction of
the x filter flux with eigenvalue `(1 − cos θ)/2 ∈ [0, 1]` (same for y, z by C14_filter_cyc) -/
theorem C19_filter_fourier_x (a : ℤ → ℤ → ℝ) (θ φ : ℝ) (i j k : ℤ) :
    laplacian_filter_3d_x (fun i j k => a i j * Real.cos (θ * k + φ)) i j k
        = ((1 - Real.cos θ) / 2) * (a i j * Real.cos (θ * k + φ)) ∧
      0 ≤ (1 - Real.cos θ) / 2 ∧ (1 - Real.cos θ) / 2 ≤ 1 := by
  refine ⟨?_, by linarith [Real.cos_le_one θ], by linarith [Real.neg_one_le_cos θ]⟩
  simp only [laplacian_filter_3d_x]
  have e1 : θ * ((k - 1 : ℤ) : ℝ) + φ = (θ * k + φ) - θ := by push_cast; ring
  have e2 : θ * ((k + 1 : ℤ) : ℝ) + φ = (θ * k + φ) + θ := by push_cast; ring
  rw [e1, e2]
  generalize θ * (k : ℝ) + φ = α
  rw [Real.cos_add α θ, Real.cos_sub α θ]
  ring

/-! ### program level: every order, independent of prior buffer contents -/

section Program
variable {B K : Type} [DecidableEq B] [Field K] [LinearOrder K] [IsStrictOrderedRing K]
open Sopht.Props.C13

/-- two fields agree on the `nz × ny × nx` box -/
def EqBox3 (nz ny nx : ℤ) (f g : F3 K) : Prop := ∀ i j k, inBox3 nz ny nx i j k → f i j k = g i j k

theorem EqBox3.refl' (nz ny nx : ℤ) (f : F3 K) : EqBox3 nz ny nx f f := fun _ _ _ _ => rfl
theorem EqBox3.trans' {nz ny nx : ℤ} {f g h : F3 K} (a : EqBox3 nz ny nx f g) (b : EqBox3 nz ny nx g h) : EqBox3 nz ny nx f h :=
  fun i j k hb => (a i j k hb).trans (b i j k hb)
theorem EqBox3.symm' {nz ny nx : ℤ} {f g : F3 K} (a : EqBox3 nz ny nx f g) : EqBox3 nz ny nx g f :=
  fun i j k hb => (a i j k hb).symm

/-- the generated 1D filter stencil of axis `ax` (0 = x, 1 = y, else z) -/
def filt (ax : ℕ) (b : F3 K) : F3 K :=
  match ax with
  | 0 => laplacian_filter_3d_x b
  | 1 => laplacian_filter_3d_y b
  | _ => laplacian_filter_3d_z b

/-- one filter pass as an operator on fields: the stencil on the interior of reach 1, zero on the ring -/
def passOp (nz ny nx : ℤ) (ax : ℕ) (b : F3 K) : F3 K :=
  fun i j k => if inner3 nz ny nx 1 i j k then filt ax b i j k else 0

theorem passOp_congr (nz ny nx : ℤ) (ax : ℕ) (b b' : F3 K) (h : EqBox3 nz ny nx b b') :
    EqBox3 nz ny nx (passOp nz ny nx ax b) (passOp nz ny nx ax b') := by
  intro i j k hb
  simp only [passOp]
  split_ifs with hin
  · simp only [inner3] at hin
    rcases ax with _ | _ | ax <;>
      simp only [filt, laplacian_filter_3d_x, laplacian_filter_3d_y, laplacian_filter_3d_z] <;>
      rw [h i j k (by simp only [inBox3]; omega)]
    · rw [h i j (k - 1) (by simp only [inBox3]; omega), h i j (k + 1) (by simp only [inBox3]; omega)]
    · rw [h i (j - 1) k (by simp only [inBox3]; omega), h i (j + 1) k (by simp only [inBox3]; omega)]
    · rw [h (i - 1) j k (by simp only [inBox3]; omega), h (i + 1) j k (by simp only [inBox3]; omega)]
  · rfl

/-- the flux buffer is zero on the ring of the box -/
def RingZero (nz ny nx : ℤ) (g : F3 K) : Prop := ∀ i j k, inBox3 nz ny nx i j k → ¬ inner3 nz ny nx 1 i j k → g i j k = 0

/-- one filter pass of the PROGRAM: with the flux ring zero, both the flux and the work buffer become `passOp` of the
work buffer on the box, the ring of the flux stays zero, every other buffer is untouched -/
theorem filterPass_spec (nz ny nx : ℤ) (ax : ℕ) (flux buf : B) (hne : flux ≠ buf) (t : Store3 B K)
    (hz : RingZero nz ny nx (t flux)) :
    EqBox3 nz ny nx (exec3 (filterPass nz ny nx ax flux buf) t flux) (passOp nz ny nx ax (t buf)) ∧
    EqBox3 nz ny nx (exec3 (filterPass nz ny nx ax flux buf) t buf) (passOp nz ny nx ax (t buf)) ∧
    RingZero nz ny nx (exec3 (filterPass nz ny nx ax flux buf) t flux) ∧
    (∀ b, b ≠ flux → b ≠ buf → exec3 (filterPass nz ny nx ax flux buf) t b = t b) := by
  have hne' : buf ≠ flux := fun h => hne h.symm
  have hflux : ∀ i j k, inBox3 nz ny nx i j k →
      exec3 (filterPass nz ny nx ax flux buf) t flux i j k = passOp nz ny nx ax (t buf) i j k := by
    intro i j k hb
    have h0 := hz i j k hb
    rcases ax with _ | _ | ax <;>
    · prog_simp3 [filterPass, filterAxis, elementwiseCopy3D, call_laplacian_filter_3d_x, call_laplacian_filter_3d_y,
        call_laplacian_filter_3d_z, call_elementwise_copy_stencil_3d, elementwise_copy_stencil_3d, passOp, filt, inner3, hne, hne']
      simp only [inner3] at h0
      split_ifs at h0 ⊢ <;> first | rfl | exact h0 (by omega) | (exfalso; omega)
  have hbuf : ∀ i j k, inBox3 nz ny nx i j k →
      exec3 (filterPass nz ny nx ax flux buf) t buf i j k = passOp nz ny nx ax (t buf) i j k := by
    intro i j k hb
    have h0 := hz i j k hb
    rcases ax with _ | _ | ax <;>
    · prog_simp3 [filterPass, filterAxis, elementwiseCopy3D, call_laplacian_filter_3d_x, call_laplacian_filter_3d_y,
        call_laplacian_filter_3d_z, call_elementwise_copy_stencil_3d, elementwise_copy_stencil_3d, passOp, filt, inner3, hne, hne']
      simp only [inner3] at h0
      split_ifs at h0 ⊢ <;> first | rfl | exact h0 (by omega) | (exfalso; omega)
  refine ⟨hflux, hbuf, ?_, ?_⟩
  · intro i j k hb hnin
    rw [hflux i j k hb]
    simp only [passOp, if_neg hnin]
  · intro b h1 h2
    apply exec3_other
    rcases ax with _ | _ | ax <;>
      simp [written3, Call3.written, filterPass, filterAxis, elementwiseCopy3D, call_laplacian_filter_3d_x, call_laplacian_filter_3d_y,
        call_laplacian_filter_3d_z, call_elementwise_copy_stencil_3d, h1, h2]

/-- a sequence of filter passes along the listed axes -/
def passes (nz ny nx : ℤ) (axes : List ℕ) (flux buf : B) : List (Call3 B K) :=
  axes.flatMap fun ax => filterPass nz ny nx ax flux buf

/-- … and the operator it realises -/
def opOf (nz ny nx : ℤ) (axes : List ℕ) (b : F3 K) : F3 K := axes.foldl (fun b ax => passOp nz ny nx ax b) b

theorem opOf_congr (nz ny nx : ℤ) (axes : List ℕ) (b b' : F3 K) (h : EqBox3 nz ny nx b b') :
    EqBox3 nz ny nx (opOf nz ny nx axes b) (opOf nz ny nx axes b') := by
  induction axes generalizing b b' with
  | nil => exact h
  | cons ax rest ih => exact ih _ _ (passOp_congr nz ny nx ax b b' h)

theorem passes_spec (nz ny nx : ℤ) (axes : List ℕ) (flux buf : B) (hne : flux ≠ buf) (t : Store3 B K)
    (hz : RingZero nz ny nx (t flux)) :
    EqBox3 nz ny nx (exec3 (passes nz ny nx axes flux buf) t buf) (opOf nz ny nx axes (t buf)) ∧
    (axes ≠ [] → EqBox3 nz ny nx (exec3 (passes nz ny nx axes flux buf) t flux) (opOf nz ny nx axes (t buf))) ∧
    RingZero nz ny nx (exec3 (passes nz ny nx axes flux buf) t flux) ∧
    (∀ b, b ≠ flux → b ≠ buf → exec3 (passes nz ny nx axes flux buf) t b = t b) := by
  induction axes generalizing t with
  | nil => exact ⟨EqBox3.refl' _ _ _ _, fun h => absurd rfl h, hz, fun _ _ _ => rfl⟩
  | cons ax rest ih =>
    have hsplit : (passes nz ny nx (ax :: rest) flux buf : List (Call3 B K)) = filterPass nz ny nx ax flux buf ++ passes nz ny nx rest flux buf := by
      simp [passes]
    obtain ⟨p1, p2, p3, p4⟩ := filterPass_spec nz ny nx ax flux buf hne t hz
    obtain ⟨q1, q2, q3, q4⟩ := ih (exec3 (filterPass nz ny nx ax flux buf) t) p3
    rw [hsplit]
    simp only [exec3_append]
    refine ⟨?_, ?_, q3, ?_⟩
    · exact q1.trans' (opOf_congr nz ny nx rest _ _ p2)
    · intro _
      by_cases hr : rest = []
      · subst hr
        simpa [passes, opOf] using p1
      · exact (q2 hr).trans' (opOf_congr nz ny nx rest _ _ p2)
    · intro b h1 h2
      rw [q4 b h1 h2, p4 b h1 h2]

theorem repeat_passes (nz ny nx : ℤ) (n : ℕ) (axes : List ℕ) (flux buf : B) :
    repeatProg n (passes nz ny nx axes flux buf : List (Call3 B K)) = passes nz ny nx ((List.replicate n axes).flatten) flux buf := by
  induction n with
  | zero => simp [repeatProg, passes]
  | succ n ih =>
    simp only [repeatProg, List.replicate_succ, List.flatten_cons, passes, List.flatMap_append] at ih ⊢
    rw [ih]

/-- the list of axes visited by `order` rounds of (x, y, z) passes -/
def mulAxes (order : ℕ) : List ℕ := (List.replicate order [0, 1, 2]).flatten

theorem mulAxes_ne_nil (order : ℕ) (h : 1 ≤ order) : mulAxes order ≠ [] := by
  cases order with
  | zero => omega
  | succ n => simp [mulAxes, List.replicate_succ]

/-- C19 (multiplicative Laplacian filter, PROGRAM, every order ≥ 1): on the whole grid the result is
`f − (P_z P_y P_x)^order f` with `P_a` the 1D filter stencil on the interior and zero on the ring — an expression
in the incoming field alone: it does not depend on what the flux and work buffers held before -/
theorem C19_filter_multiplicative_3d (order : ℕ) (ho : 1 ≤ order) (nz ny nx : ℤ) (hnz : 1 ≤ nz) (hny : 1 ≤ ny) (hnx : 1 ≤ nx)
    (f flux buf : B) (hff : f ≠ flux) (hfb : f ≠ buf) (hne : flux ≠ buf) (s : Store3 B K) :
    EqBox3 nz ny nx (exec3 (filterMultiplicative3D order nz ny nx f flux buf) s f)
      (fun i j k => s f i j k - opOf nz ny nx (mulAxes order) (s f) i j k) := by
  have hprog : (filterMultiplicative3D order nz ny nx f flux buf : List (Call3 B K))
      = setBoundary3D nz ny nx 1 flux 0 ++ elementwiseCopy3D (full3 nz ny nx) buf f
        ++ passes nz ny nx (mulAxes order) flux buf ++ elementwiseSaxpby3D nz ny nx f f flux 1 (-1) := by
    unfold filterMultiplicative3D
    have : (filterPass nz ny nx 0 flux buf ++ filterPass nz ny nx 1 flux buf ++ filterPass nz ny nx 2 flux buf : List (Call3 B K))
        = passes nz ny nx [0, 1, 2] flux buf := by simp [passes]
    rw [this, repeat_passes]; rfl
  rw [hprog]
  simp only [exec3_append]
  set t0 := exec3 (setBoundary3D nz ny nx 1 flux (0 : K)) s with ht0
  set t1 := exec3 (elementwiseCopy3D (full3 nz ny nx) buf f) t0 with ht1
  set t2 := exec3 (passes nz ny nx (mulAxes order) flux buf) t1 with ht2
  obtain ⟨b0, b0F⟩ := C13_set_boundary_3d nz ny nx 1 le_rfl hnz hny hnx flux (0 : K) s
  obtain ⟨c1, c1F⟩ := C13_elementwise_copy_3d nz ny nx buf f t0
  have hz1 : RingZero nz ny nx (t1 flux) := by
    intro i j k hb hnin
    rw [ht1, c1F flux hne, ht0, b0 i j k hb]
    simp only [onRing3, inner3] at hnin ⊢
    rw [if_pos (by omega)]
  obtain ⟨_, q2, _, q4⟩ := passes_spec nz ny nx (mulAxes order) flux buf hne t1 hz1
  have hbuf1 : EqBox3 nz ny nx (t1 buf) (s f) := by
    intro i j k hb
    rw [ht1, c1 i j k hb, ht0, b0F f hff]
  have hflux2 : EqBox3 nz ny nx (t2 flux) (opOf nz ny nx (mulAxes order) (s f)) :=
    (q2 (mulAxes_ne_nil order ho)).trans' (opOf_congr nz ny nx _ _ _ hbuf1)
  have hf2 : t2 f = s f := by
    rw [ht2, q4 f hff hfb, ht1, c1F f hfb, ht0, b0F f hff]
  intro i j k hb
  rw [(C13_elementwise_saxpby_3d nz ny nx f f flux 1 (-1) t2).1 i j k hb, hf2, hflux2 i j k hb]
  ring

/-- … hence independent of the prior contents of the two work buffers -/
theorem C19_filter_multiplicative_buffer_free (order : ℕ) (ho : 1 ≤ order) (nz ny nx : ℤ) (hnz : 1 ≤ nz) (hny : 1 ≤ ny) (hnx : 1 ≤ nx)
    (f flux buf : B) (hff : f ≠ flux) (hfb : f ≠ buf) (hne : flux ≠ buf) (s s' : Store3 B K) (hsame : s f = s' f) :
    EqBox3 nz ny nx (exec3 (filterMultiplicative3D order nz ny nx f flux buf) s f)
      (exec3 (filterMultiplicative3D order nz ny nx f flux buf) s' f) := by
  have h1 := C19_filter_multiplicative_3d order ho nz ny nx hnz hny hnx f flux buf hff hfb hne s
  have h2 := C19_filter_multiplicative_3d order ho nz ny nx hnz hny hnx f flux buf hff hfb hne s'
  rw [hsame] at h1
  exact h1.trans' h2.symm'

/-- one axis of the convolution-type filter as an operator: `g ↦ g − P_a^order g` -/
def convOp (nz ny nx : ℤ) (order ax : ℕ) (g : F3 K) : F3 K :=
  fun i j k => g i j k - opOf nz ny nx (List.replicate order ax) g i j k

theorem convOp_congr (nz ny nx : ℤ) (order ax : ℕ) (g g' : F3 K) (h : EqBox3 nz ny nx g g') :
    EqBox3 nz ny nx (convOp nz ny nx order ax g) (convOp nz ny nx order ax g') := by
  intro i j k hb
  simp only [convOp]
  rw [h i j k hb, opOf_congr nz ny nx _ g g' h i j k hb]

theorem convAxis_spec (order : ℕ) (ho : 1 ≤ order) (nz ny nx : ℤ) (ax : ℕ) (f flux buf : B)
    (hff : f ≠ flux) (hfb : f ≠ buf) (hne : flux ≠ buf) (t : Store3 B K) (hz : RingZero nz ny nx (t flux)) :
    EqBox3 nz ny nx (exec3 (filterConvolutionAxis order nz ny nx ax f flux buf) t f) (convOp nz ny nx order ax (t f)) ∧
    RingZero nz ny nx (exec3 (filterConvolutionAxis order nz ny nx ax f flux buf) t flux) ∧
    (∀ b, b ≠ f → b ≠ flux → b ≠ buf → exec3 (filterConvolutionAxis order nz ny nx ax f flux buf) t b = t b) := by
  have hprog : (filterConvolutionAxis order nz ny nx ax f flux buf : List (Call3 B K))
      = elementwiseCopy3D (full3 nz ny nx) buf f ++ passes nz ny nx (List.replicate order ax) flux buf
        ++ elementwiseSaxpby3D nz ny nx f f flux 1 (-1) := by
    unfold filterConvolutionAxis
    have : (filterPass nz ny nx ax flux buf : List (Call3 B K)) = passes nz ny nx [ax] flux buf := by simp [passes]
    rw [this, repeat_passes]
    congr 3
    induction order with
    | zero => rfl
    | succ n ih => simp [List.replicate_succ]
  have hnonempty : List.replicate order ax ≠ [] := by
    cases order with
    | zero => omega
    | succ n => simp [List.replicate_succ]
  rw [hprog]
  simp only [exec3_append]
  set t1 := exec3 (elementwiseCopy3D (full3 nz ny nx) buf f) t with ht1
  set t2 := exec3 (passes nz ny nx (List.replicate order ax) flux buf) t1 with ht2
  obtain ⟨c1, c1F⟩ := C13_elementwise_copy_3d nz ny nx buf f t
  have hz1 : RingZero nz ny nx (t1 flux) := by
    intro i j k hb hnin; rw [ht1, c1F flux hne]; exact hz i j k hb hnin
  obtain ⟨_, q2, q3, q4⟩ := passes_spec nz ny nx (List.replicate order ax) flux buf hne t1 hz1
  have hbuf1 : EqBox3 nz ny nx (t1 buf) (t f) := fun i j k hb => by rw [ht1, c1 i j k hb]
  have hflux2 : EqBox3 nz ny nx (t2 flux) (opOf nz ny nx (List.replicate order ax) (t f)) :=
    (q2 hnonempty).trans' (opOf_congr nz ny nx _ _ _ hbuf1)
  have hf2 : t2 f = t f := by rw [ht2, q4 f hff hfb, ht1, c1F f hfb]
  obtain ⟨e1, e1F⟩ := C13_elementwise_saxpby_3d nz ny nx f f flux (1 : K) (-1) t2
  refine ⟨?_, ?_, ?_⟩
  · intro i j k hb
    rw [e1 i j k hb, hf2, hflux2 i j k hb]
    simp only [convOp]; ring
  · intro i j k hb hnin
    rw [e1F flux hff.symm]
    exact q3 i j k hb hnin
  · intro b h1 h2 h3
    rw [e1F b h1, ht2, q4 b h2 h3, ht1, c1F b h3]

/-- C19 (convolution-type Laplacian filter, PROGRAM, every order ≥ 1): on the whole grid the result is
`A_z (A_y (A_x f))` with `A_a g = g − P_a^order g` — an expression in the incoming field alone -/
theorem C19_filter_convolution_3d (order : ℕ) (ho : 1 ≤ order) (nz ny nx : ℤ) (hnz : 1 ≤ nz) (hny : 1 ≤ ny) (hnx : 1 ≤ nx)
    (f flux buf : B) (hff : f ≠ flux) (hfb : f ≠ buf) (hne : flux ≠ buf) (s : Store3 B K) :
    EqBox3 nz ny nx (exec3 (filterConvolution3D order nz ny nx f flux buf) s f)
      (convOp nz ny nx order 2 (convOp nz ny nx order 1 (convOp nz ny nx order 0 (s f)))) := by
  unfold filterConvolution3D
  simp only [exec3_append]
  set t0 := exec3 (setBoundary3D nz ny nx 1 flux (0 : K)) s with ht0
  obtain ⟨b0, b0F⟩ := C13_set_boundary_3d nz ny nx 1 le_rfl hnz hny hnx flux (0 : K) s
  have hz0 : RingZero nz ny nx (t0 flux) := by
    intro i j k hb hnin
    rw [ht0, b0 i j k hb]
    simp only [onRing3, inner3] at hnin ⊢
    rw [if_pos (by omega)]
  have hf0 : t0 f = s f := by rw [ht0, b0F f hff]
  obtain ⟨x1, x2, _⟩ := convAxis_spec order ho nz ny nx 0 f flux buf hff hfb hne t0 hz0
  set tx := exec3 (filterConvolutionAxis order nz ny nx 0 f flux buf) t0 with htx
  obtain ⟨y1, y2, _⟩ := convAxis_spec order ho nz ny nx 1 f flux buf hff hfb hne tx x2
  set ty := exec3 (filterConvolutionAxis order nz ny nx 1 f flux buf) tx with hty
  obtain ⟨z1, _, _⟩ := convAxis_spec order ho nz ny nx 2 f flux buf hff hfb hne ty y2
  rw [hf0] at x1
  exact z1.trans' (convOp_congr nz ny nx order 2 _ _ (y1.trans' (convOp_congr nz ny nx order 1 _ _ x1)))

/-- both filter types, as dispatched by the wrapper: independent of the prior contents of the work buffers -/
theorem C19_filter_buffer_free (conv : Bool) (order : ℕ) (ho : 1 ≤ order) (nz ny nx : ℤ) (hnz : 1 ≤ nz) (hny : 1 ≤ ny) (hnx : 1 ≤ nx)
    (f flux buf : B) (hff : f ≠ flux) (hfb : f ≠ buf) (hne : flux ≠ buf) (s s' : Store3 B K) (hsame : s f = s' f) :
    EqBox3 nz ny nx (exec3 (filter3D conv order nz ny nx f flux buf) s f) (exec3 (filter3D conv order nz ny nx f flux buf) s' f) := by
  cases conv
  · simp only [filter3D, Bool.false_eq_true, if_false]
    exact C19_filter_multiplicative_buffer_free order ho nz ny nx hnz hny hnx f flux buf hff hfb hne s s' hsame
  · simp only [filter3D, if_true]
    have h1 := C19_filter_convolution_3d order ho nz ny nx hnz hny hnx f flux buf hff hfb hne s
    have h2 := C19_filter_convolution_3d order ho nz ny nx hnz hny hnx f flux buf hff hfb hne s'
    rw [hsame] at h1
    exact h1.trans' h2.symm'

/-! ### frame of the filter programs and the vector wrapper -/

theorem filter_multiplicative_frame (order : ℕ) (nz ny nx : ℤ) (hnz : 1 ≤ nz) (hny : 1 ≤ ny) (hnx : 1 ≤ nx)
    (f flux buf : B) (hne : flux ≠ buf) (s : Store3 B K) (b : B) (h1 : b ≠ f) (h2 : b ≠ flux) (h3 : b ≠ buf) :
    exec3 (filterMultiplicative3D order nz ny nx f flux buf) s b = s b := by
  have hprog : (filterMultiplicative3D order nz ny nx f flux buf : List (Call3 B K))
      = setBoundary3D nz ny nx 1 flux 0 ++ elementwiseCopy3D (full3 nz ny nx) buf f
        ++ passes nz ny nx (mulAxes order) flux buf ++ elementwiseSaxpby3D nz ny nx f f flux 1 (-1) := by
    unfold filterMultiplicative3D
    have : (filterPass nz ny nx 0 flux buf ++ filterPass nz ny nx 1 flux buf ++ filterPass nz ny nx 2 flux buf : List (Call3 B K))
        = passes nz ny nx [0, 1, 2] flux buf := by simp [passes]
    rw [this, repeat_passes]; rfl
  rw [hprog]
  simp only [exec3_append]
  rw [(C13_elementwise_saxpby_3d nz ny nx f f flux 1 (-1) _).2 b h1]
  -- passes: frame without the ring-zero hypothesis (no value claim needed)
  have hp : ∀ (axes : List ℕ) (t : Store3 B K), exec3 (passes nz ny nx axes flux buf) t b = t b := by
    intro axes t
    apply exec3_other
    simp only [written3, passes, List.mem_flatMap, not_exists, not_and]
    intro c hc
    obtain ⟨ax, _, hcx⟩ := hc
    rcases ax with _ | _ | ax <;>
      simp [filterPass, filterAxis, elementwiseCopy3D, call_laplacian_filter_3d_x, call_laplacian_filter_3d_y,
        call_laplacian_filter_3d_z, call_elementwise_copy_stencil_3d] at hcx <;>
      rcases hcx with rfl | rfl <;> simp [Call3.written, h2, h3]
  rw [hp, (C13_elementwise_copy_3d nz ny nx buf f _).2 b h3, (C13_set_boundary_3d nz ny nx 1 le_rfl hnz hny hnx flux (0 : K) s).2 b h2]

theorem filter_convolution_frame (order : ℕ) (ho : 1 ≤ order) (nz ny nx : ℤ) (hnz : 1 ≤ nz) (hny : 1 ≤ ny) (hnx : 1 ≤ nx)
    (f flux buf : B) (hff : f ≠ flux) (hfb : f ≠ buf) (hne : flux ≠ buf) (s : Store3 B K) (b : B) (h1 : b ≠ f) (h2 : b ≠ flux) (h3 : b ≠ buf) :
    exec3 (filterConvolution3D order nz ny nx f flux buf) s b = s b := by
  unfold filterConvolution3D
  simp only [exec3_append]
  set t0 := exec3 (setBoundary3D nz ny nx 1 flux (0 : K)) s with ht0
  obtain ⟨b0, b0F⟩ := C13_set_boundary_3d nz ny nx 1 le_rfl hnz hny hnx flux (0 : K) s
  have hz0 : RingZero nz ny nx (t0 flux) := by
    intro i j k hb hnin
    rw [ht0, b0 i j k hb]
    simp only [onRing3, inner3] at hnin ⊢
    rw [if_pos (by omega)]
  obtain ⟨_, x2, x3⟩ := convAxis_spec order ho nz ny nx 0 f flux buf hff hfb hne t0 hz0
  set tx := exec3 (filterConvolutionAxis order nz ny nx 0 f flux buf) t0 with htx
  obtain ⟨_, y2, y3⟩ := convAxis_spec order ho nz ny nx 1 f flux buf hff hfb hne tx x2
  set ty := exec3 (filterConvolutionAxis order nz ny nx 1 f flux buf) tx with hty
  obtain ⟨_, _, z3⟩ := convAxis_spec order ho nz ny nx 2 f flux buf hff hfb hne ty y2
  rw [z3 b h1 h2 h3, y3 b h1 h2 h3, x3 b h1 h2 h3, ht0, b0F b h2]

/-- the filter as an operator on the incoming field (both types) -/
def filterOp (conv : Bool) (order : ℕ) (nz ny nx : ℤ) (g : F3 K) : F3 K :=
  if conv then convOp nz ny nx order 2 (convOp nz ny nx order 1 (convOp nz ny nx order 0 g))
  else fun i j k => g i j k - opOf nz ny nx (mulAxes order) g i j k

theorem filterOp_congr (conv : Bool) (order : ℕ) (nz ny nx : ℤ) (g g' : F3 K) (h : EqBox3 nz ny nx g g') :
    EqBox3 nz ny nx (filterOp conv order nz ny nx g) (filterOp conv order nz ny nx g') := by
  cases conv
  · intro i j k hb
    simp only [filterOp, Bool.false_eq_true, if_false]
    rw [h i j k hb, opOf_congr nz ny nx _ g g' h i j k hb]
  · simp only [filterOp, if_true]
    exact convOp_congr _ _ _ _ _ _ _ (convOp_congr _ _ _ _ _ _ _ (convOp_congr _ _ _ _ _ _ _ h))

/-- the dispatched filter wrapper: value and frame -/
theorem C19_filter_3d (conv : Bool) (order : ℕ) (ho : 1 ≤ order) (nz ny nx : ℤ) (hnz : 1 ≤ nz) (hny : 1 ≤ ny) (hnx : 1 ≤ nx)
    (f flux buf : B) (hff : f ≠ flux) (hfb : f ≠ buf) (hne : flux ≠ buf) (s : Store3 B K) :
    EqBox3 nz ny nx (exec3 (filter3D conv order nz ny nx f flux buf) s f) (filterOp conv order nz ny nx (s f)) ∧
    (∀ b, b ≠ f → b ≠ flux → b ≠ buf → exec3 (filter3D conv order nz ny nx f flux buf) s b = s b) := by
  cases conv
  · simp only [filter3D, filterOp, Bool.false_eq_true, if_false]
    exact ⟨C19_filter_multiplicative_3d order ho nz ny nx hnz hny hnx f flux buf hff hfb hne s,
      fun b h1 h2 h3 => filter_multiplicative_frame order nz ny nx hnz hny hnx f flux buf hne s b h1 h2 h3⟩
  · simp only [filter3D, filterOp, if_true]
    exact ⟨C19_filter_convolution_3d order ho nz ny nx hnz hny hnx f flux buf hff hfb hne s,
      fun b h1 h2 h3 => filter_convolution_frame order ho nz ny nx hnz hny hnx f flux buf hff hfb hne s b h1 h2 h3⟩

/-- C19 (vector filter wrapper as used by the 3D simulator: three components, ONE shared flux buffer and ONE shared
work buffer): every component of the result is the filter operator applied to that component of the incoming field —
independent of the two work buffers and of the other components -/
theorem C19_filter_vec_3d (conv : Bool) (order : ℕ) (ho : 1 ≤ order) (nz ny nx : ℤ) (hnz : 1 ≤ nz) (hny : 1 ≤ ny) (hnx : 1 ≤ nx)
    (f : Vec3 B) (flux buf : B) (hxy : f.x ≠ f.y) (hxz : f.x ≠ f.z) (hyz : f.y ≠ f.z)
    (hxf : f.x ≠ flux) (hyf : f.y ≠ flux) (hzf : f.z ≠ flux) (hxb : f.x ≠ buf) (hyb : f.y ≠ buf) (hzb : f.z ≠ buf)
    (hne : flux ≠ buf) (s : Store3 B K) :
    EqBox3 nz ny nx (exec3 (filterVec3D conv order nz ny nx f flux buf) s f.x) (filterOp conv order nz ny nx (s f.x)) ∧
    EqBox3 nz ny nx (exec3 (filterVec3D conv order nz ny nx f flux buf) s f.y) (filterOp conv order nz ny nx (s f.y)) ∧
    EqBox3 nz ny nx (exec3 (filterVec3D conv order nz ny nx f flux buf) s f.z) (filterOp conv order nz ny nx (s f.z)) ∧
    (∀ b, b ≠ f.x → b ≠ f.y → b ≠ f.z → b ≠ flux → b ≠ buf → exec3 (filterVec3D conv order nz ny nx f flux buf) s b = s b) := by
  unfold filterVec3D
  simp only [exec3_append]
  set s1 := exec3 (filter3D conv order nz ny nx f.x flux buf) s with hs1
  set s2 := exec3 (filter3D conv order nz ny nx f.y flux buf) s1 with hs2
  obtain ⟨vx, fx⟩ := C19_filter_3d conv order ho nz ny nx hnz hny hnx f.x flux buf hxf hxb hne s
  obtain ⟨vy, fy⟩ := C19_filter_3d conv order ho nz ny nx hnz hny hnx f.y flux buf hyf hyb hne s1
  obtain ⟨vz, fz⟩ := C19_filter_3d conv order ho nz ny nx hnz hny hnx f.z flux buf hzf hzb hne s2
  refine ⟨?_, ?_, ?_, ?_⟩
  · intro i j k hb
    rw [fz f.x hxz hxf hxb, hs2, fy f.x hxy hxf hxb]
    exact vx i j k hb
  · intro i j k hb
    rw [fz f.y hyz hyf hyb]
    have := vy i j k hb
    rw [← hs2] at this
    rw [this, hs1, fx f.y hxy.symm hyf hyb]
  · intro i j k hb
    rw [vz i j k hb, hs2, fy f.z hyz.symm hzf hzb, hs1, fx f.z hxz.symm hzf hzb]
  · intro b h1 h2 h3 h4 h5
    rw [fz b h3 h4 h5, hs2, fy b h2 h4 h5, hs1, fx b h1 h4 h5]

end Program

end Sopht.Props.C19
