/-
C20 — time-stepping kernels realise their nominal scheme.
2D Euler-forward kernels (advection, diffusion): `field' = field + flux(field)` with the flux wrapper's own
program, the flux buffer reset first, for the step given.  (3D and SSP-RK3: see below / Props.C20 3D part.)
-/
import SophtVerif.Lemmas.Prog2D
import Mathlib.Tactic.Module

set_option linter.unusedVariables false
set_option linter.unusedSectionVars false
set_option linter.unusedSimpArgs false
set_option linter.unusedTactic false
set_option linter.unreachableTactic false

namespace Sopht.Props.C20
open Sopht Sopht.Gen Sopht.Model

variable {B K : Type} [DecidableEq B] [Field K] [LinearOrder K] [IsStrictOrderedRing K]

/-- the diffusion time step returns `field + flux(field)` where `flux` is what the library's own flux
wrapper (with ghost-zone reset) computes for the prefactor `ν dt/dx²` it is given; independent of the
prior content of the flux buffer -/
theorem C20_euler_diffusion_2d (ny nx : ℤ) (hny : 1 ≤ ny) (hnx : 1 ≤ nx) (f flux : B) (hne : flux ≠ f) (r : K)
    (s : Store2 B K) (i j : ℤ) (hi : 0 ≤ i ∧ i < ny) (hj : 0 ≤ j ∧ j < nx) :
    exec2 (diffusionTimestep2D ny nx f flux r) s f i j
      = s f i j + exec2 (diffusionFlux2D true ny nx flux f r) s flux i j := by
  obtain ⟨hi0, hi1⟩ := hi
  obtain ⟨hj0, hj1⟩ := hj
  have hne' : f ≠ flux := fun h => hne h.symm
  prog_simp [diffusionTimestep2D, diffusionFlux2D, setBoundary2D, boundaryStrips2D, elementwiseSum2D,
    call_diffusion_stencil_2d, call_set_fixed_val_stencil_2d, call_elementwise_sum_stencil_2d,
    diffusion_stencil_2d, set_fixed_val_stencil_2d, elementwise_sum_stencil_2d, hne, hne']
  split_ifs <;> first | rfl | ring1 | (exfalso; omega)

/-- explicit form: interior `f + r·(5-point Laplacian)`, ring unchanged -/
theorem C20_euler_diffusion_2d_explicit (ny nx : ℤ) (hny : 1 ≤ ny) (hnx : 1 ≤ nx) (f flux : B) (hne : flux ≠ f) (r : K)
    (s : Store2 B K) (i j : ℤ) (hi : 0 ≤ i ∧ i < ny) (hj : 0 ≤ j ∧ j < nx) :
    exec2 (diffusionTimestep2D ny nx f flux r) s f i j =
      if (1 ≤ i ∧ i < ny - 1 ∧ 1 ≤ j ∧ j < nx - 1) then
        s f i j + r * (s f (i+1) j + s f (i-1) j + s f i (j+1) + s f i (j-1) - 4 * s f i j)
      else s f i j := by
  obtain ⟨hi0, hi1⟩ := hi
  obtain ⟨hj0, hj1⟩ := hj
  have hne' : f ≠ flux := fun h => hne h.symm
  prog_simp [diffusionTimestep2D, diffusionFlux2D, setBoundary2D, boundaryStrips2D, elementwiseSum2D,
    call_diffusion_stencil_2d, call_set_fixed_val_stencil_2d, call_elementwise_sum_stencil_2d,
    diffusion_stencil_2d, set_fixed_val_stencil_2d, elementwise_sum_stencil_2d, hne, hne']
  split_ifs <;> first | rfl | ring1 | (exfalso; omega)

/-- the advection time step returns `field + flux(field)`: flux buffer zeroed, the library's ENO3 flux
wrapper called with `inv_dx = −dt/dx`, result added -/
theorem C20_euler_advection_2d (ny nx : ℤ) (f flux : B) (vel : Vec2 B) (hne : flux ≠ f) (hvx : vel.x ≠ flux)
    (hvy : vel.y ≠ flux) (c : K) (s : Store2 B K) (i j : ℤ) (hi : 0 ≤ i ∧ i < ny) (hj : 0 ≤ j ∧ j < nx) :
    exec2 (advectionTimestep2D ny nx f flux vel c) s f i j
      = s f i j + exec2 (setFixedVal2D ny nx flux 0 ++ advectionFlux2D ny nx flux f vel (-c)) s flux i j := by
  obtain ⟨hi0, hi1⟩ := hi
  obtain ⟨hj0, hj1⟩ := hj
  have hne' : f ≠ flux := fun h => hne h.symm
  prog_simp [advectionTimestep2D, advectionFlux2D, setFixedVal2D, elementwiseSum2D,
    call_advection_flux_x_front_conservative_eno3_stencil_2d, call_advection_flux_x_back_conservative_eno3_stencil_2d,
    call_advection_flux_y_front_conservative_eno3_stencil_2d, call_advection_flux_y_back_conservative_eno3_stencil_2d,
    call_set_fixed_val_stencil_2d, call_elementwise_sum_stencil_2d,
    set_fixed_val_stencil_2d, elementwise_sum_stencil_2d, hne, hne', hvx, hvy]
  split_ifs <;> first | rfl | (exfalso; omega)

/-- explicit form: on the interior of reach 2 the field changes by the ENO3 flux divergence for `−dt/dx`,
elsewhere it is unchanged; independent of the prior content of the flux buffer -/
theorem C20_euler_advection_2d_explicit (ny nx : ℤ) (f flux : B) (vel : Vec2 B) (hne : flux ≠ f)
    (hvx : vel.x ≠ flux) (hvy : vel.y ≠ flux) (c : K) (s : Store2 B K) (i j : ℤ)
    (hi : 0 ≤ i ∧ i < ny) (hj : 0 ≤ j ∧ j < nx) :
    exec2 (advectionTimestep2D ny nx f flux vel c) s f i j =
      if (2 ≤ i ∧ i < ny - 2 ∧ 2 ≤ j ∧ j < nx - 2) then
        s f i j + enoDiv (-c) (s f) (s vel.x) (s vel.y) i j
      else s f i j := by
  obtain ⟨hi0, hi1⟩ := hi
  obtain ⟨hj0, hj1⟩ := hj
  have hne' : f ≠ flux := fun h => hne h.symm
  prog_simp [advectionTimestep2D, advectionFlux2D, setFixedVal2D, elementwiseSum2D,
    call_advection_flux_x_front_conservative_eno3_stencil_2d, call_advection_flux_x_back_conservative_eno3_stencil_2d,
    call_advection_flux_y_front_conservative_eno3_stencil_2d, call_advection_flux_y_back_conservative_eno3_stencil_2d,
    call_set_fixed_val_stencil_2d, call_elementwise_sum_stencil_2d,
    set_fixed_val_stencil_2d, elementwise_sum_stencil_2d, hne, hne', hvx, hvy, xf_acc, xb_acc, yf_acc, yb_acc, enoDiv]
  split_ifs <;> first | rfl | ring1 | (exfalso; omega) | (simp only [add_zero]; done)

/-! ### SSP-RK3 as a polynomial in the Euler flux operator (abstract; the 3D program is tied below) -/

section rk
variable {V : Type} [AddCommGroup V] [Module ℚ V]

/-- stage structure of the SSP-RK3 kernel with third-stage step fraction `c` -/
def ssprk3 (A : V →ₗ[ℚ] V) (c : ℚ) (u : V) : V :=
  let u1 := u + A u
  let u1' := u1 + A u1
  let u2 := (3/4 : ℚ) • u + (1/4 : ℚ) • u1'
  let u2' := u2 + c • A u2
  (1/3 : ℚ) • u + (2/3 : ℚ) • u2'

/-- with the full step in every stage the scheme is the third-order Taylor polynomial of `exp A` -/
theorem C20_ssprk3_nominal (A : V →ₗ[ℚ] V) (u : V) :
    ssprk3 A 1 u = u + A u + (1/2 : ℚ) • A (A u) + (1/6 : ℚ) • A (A (A u)) := by
  simp only [ssprk3, map_add, map_smul, one_smul, smul_add, smul_smul]
  module

/-- with half the step in the third stage (the defect repaired by the `fix:` commit) it is not -/
theorem C20_ssprk3_half_third_stage (A : V →ₗ[ℚ] V) (u : V) :
    ssprk3 A (1/2) u = u + (2/3 : ℚ) • A u + (1/3 : ℚ) • A (A u) + (1/12 : ℚ) • A (A (A u)) := by
  simp only [ssprk3, map_add, map_smul, one_smul, smul_add, smul_smul]
  module
end rk

end Sopht.Props.C20
