/-
C20 (3D) — the 3D time-stepping programs realise their nominal scheme.
  * Euler-forward diffusion / advection (scalar): `f ← f + flux(f)` with the library's own flux program for the
    step given; the flux buffer is reset first, so the result does not depend on what the caller left in it
    (the seeded change `C20` removes exactly this reset).
  * vortex stretching, Euler forward and SSP-RK3: the PROGRAM of Model/Prog3D (tied to the code by the exact trace:
    kernel ids, regions, bindings, scalar prefactors) has the three-stage Shu–Osher structure
    `u1 = u + p·S(u)`, `u2 = ¾u + ¼(u1 + p·S(u1))`, `u⁺ = ⅓u + ⅔(u2 + c3·S(u2))` cell by cell, where `S` is the
    stretching-flux kernel applied with the ring zeroed; with `c3 = p` this is the nominal SSP-RK3
    (C20_ssprk3_nominal turns it into `I + A + A²/2 + A³/6` for linear `A`).
-/
import SophtVerif.Props.C13_3D

set_option linter.unusedVariables false
set_option linter.unusedSectionVars false
set_option linter.unusedSimpArgs false
set_option linter.unusedTactic false
set_option linter.unreachableTactic false

namespace Sopht.Props.C20
open Sopht Sopht.Gen Sopht.Model Sopht.Props.C13

variable {B K : Type} [DecidableEq B] [Field K] [LinearOrder K] [IsStrictOrderedRing K]

/-- Euler-forward diffusion (3D scalar), explicit: interior `f + r·(7-point Laplacian)`, ring unchanged,
whatever the flux buffer held -/
theorem C20_euler_diffusion_3d (nz ny nx : ℤ) (hnz : 1 ≤ nz) (hny : 1 ≤ ny) (hnx : 1 ≤ nx) (f flux : B) (hne : flux ≠ f) (r : K)
    (s : Store3 B K) (i j k : ℤ) (h : inBox3 nz ny nx i j k) :
    exec3 (diffusionTimestep3D nz ny nx f flux r) s f i j k =
      if inner3 nz ny nx 1 i j k then
        s f i j k + r * (s f (i+1) j k + s f (i-1) j k + s f i (j+1) k + s f i (j-1) k + s f i j (k+1) + s f i j (k-1) - 6 * s f i j k)
      else s f i j k := by
  have hne' : f ≠ flux := fun h => hne h.symm
  have hsplit : diffusionTimestep3D nz ny nx f flux r = diffusionFlux3D true nz ny nx flux f r ++ elementwiseSum3D nz ny nx f f flux := rfl
  rw [hsplit, exec3_append]
  obtain ⟨hflux, hother⟩ := C13_diffusion_flux_3d true nz ny nx hnz hny hnx flux f hne r s
  rw [(C13_elementwise_sum_3d nz ny nx f f flux _).1 i j k h, hflux i j k h, hother f hne']
  simp only [if_true]
  split_ifs <;> ring

/-- Euler-forward advection (3D scalar), explicit: on the interior of reach 2 the field changes by the sum of the six
ENO3 face increments for `−dt/dx`, elsewhere it is unchanged — and the right-hand side does not mention the flux
buffer: the result is independent of what the caller left in it -/
theorem C20_euler_advection_3d_explicit (nz ny nx : ℤ) (f flux : B) (vel : Vec3 B) (hne : flux ≠ f)
    (hvx : vel.x ≠ flux) (hvy : vel.y ≠ flux) (hvz : vel.z ≠ flux) (c : K) (s : Store3 B K)
    (i j k : ℤ) (h : inBox3 nz ny nx i j k) :
    exec3 (advectionTimestep3D nz ny nx f flux vel c) s f i j k =
      if inner3 nz ny nx 2 i j k then
        s f i j k + enoDiv3 (-c) (s f) (s vel.x) (s vel.y) (s vel.z) i j k
      else s f i j k := by
  have hne' : f ≠ flux := fun h => hne h.symm
  prog_simp3 [advectionTimestep3D, advectionFlux3D, setFixedVal3D, elementwiseSum3D,
    call_advection_flux_x_front_conservative_eno3_stencil_3d, call_advection_flux_x_back_conservative_eno3_stencil_3d,
    call_advection_flux_y_front_conservative_eno3_stencil_3d, call_advection_flux_y_back_conservative_eno3_stencil_3d,
    call_advection_flux_z_front_conservative_eno3_stencil_3d, call_advection_flux_z_back_conservative_eno3_stencil_3d,
    call_set_fixed_val_stencil_3d, call_elementwise_sum_stencil_3d,
    set_fixed_val_stencil_3d, elementwise_sum_stencil_3d, hne, hne', hvx, hvy, hvz,
    xf_acc3, xb_acc3, yf_acc3, yb_acc3, zf_acc3, zb_acc3, enoDiv3, inner3]
  split_ifs <;> first | rfl | ring1 | (exfalso; omega) | (simp only [add_zero]; done)

/-- … hence flux-buffer free -/
theorem C20_euler_advection_3d_flux_free (nz ny nx : ℤ) (f flux : B) (vel : Vec3 B) (hne : flux ≠ f)
    (hvx : vel.x ≠ flux) (hvy : vel.y ≠ flux) (hvz : vel.z ≠ flux) (c : K) (s s' : Store3 B K)
    (hsame : ∀ b, b ≠ flux → s b = s' b) (i j k : ℤ) (h : inBox3 nz ny nx i j k) :
    exec3 (advectionTimestep3D nz ny nx f flux vel c) s f i j k = exec3 (advectionTimestep3D nz ny nx f flux vel c) s' f i j k := by
  have hne' : f ≠ flux := fun h => hne h.symm
  rw [C20_euler_advection_3d_explicit nz ny nx f flux vel hne hvx hvy hvz c s i j k h,
    C20_euler_advection_3d_explicit nz ny nx f flux vel hne hvx hvy hvz c s' i j k h,
    hsame f hne', hsame vel.x hvx, hsame vel.y hvy, hsame vel.z hvz]

/-! ### vortex stretching: Euler forward and SSP-RK3 -/

/-- the stretching flux is pointwise in the vorticity: it reads ω at the cell itself only -/
theorem stretchZ_congr (nz ny nx : ℤ) (p : K) (u wx wy wz wx' wy' wz' : F3 K) (i j k : ℤ)
    (hx : wx i j k = wx' i j k) (hy : wy i j k = wy' i j k) (hz : wz i j k = wz' i j k) :
    stretchZ nz ny nx p u wx wy wz i j k = stretchZ nz ny nx p u wx' wy' wz' i j k := by
  simp only [stretchZ, stretch, hx, hy, hz]

/-- the local (cell-wise) stretching operator `ω ↦ q·(∇_h u_c · ω)` (zero on the ring) in terms of three numbers -/
def sig (nz ny nx : ℤ) (q : K) (u : F3 K) (i j k : ℤ) (a b c : K) : K :=
  if inner3 nz ny nx 1 i j k then
    q * ((u i j (k+1) - u i j (k-1)) * a + (u i (j+1) k - u i (j-1) k) * b + (u (i+1) j k - u (i-1) j k) * c)
  else 0

theorem stretchZ_eq_sig (nz ny nx : ℤ) (q : K) (u wx wy wz : F3 K) (i j k : ℤ) :
    stretchZ nz ny nx q u wx wy wz i j k = sig nz ny nx q u i j k (wx i j k) (wy i j k) (wz i j k) := rfl

/-- all buffers of the stretching time step are distinct arrays -/
structure DistinctStretch (w vel flux mid : Vec3 B) : Prop where
  fw : Distinct33 flux w
  fv : Distinct33 flux vel
  fm : Distinct33 flux mid
  mw : Distinct33 mid w
  mv : Distinct33 mid vel
  wv : Distinct33 w vel

/-- Euler forward: `ω ← ω + S_p(u, ω)` cell by cell (ring unchanged since `S` vanishes there) -/
theorem C20_stretching_euler_3d (nz ny nx : ℤ) (hnz : 1 ≤ nz) (hny : 1 ≤ ny) (hnx : 1 ≤ nx) (w vel flux : Vec3 B)
    (hfw : Distinct33 flux w) (hfv : Distinct33 flux vel) (hwv : Distinct33 w vel) (p : K) (s : Store3 B K) (i j k : ℤ) (h : inBox3 nz ny nx i j k) :
    exec3 (stretchingTimestepEuler3D nz ny nx w vel flux p) s w.x i j k
        = s w.x i j k + sig nz ny nx p (s vel.x) i j k (s w.x i j k) (s w.y i j k) (s w.z i j k) ∧
    exec3 (stretchingTimestepEuler3D nz ny nx w vel flux p) s w.y i j k
        = s w.y i j k + sig nz ny nx p (s vel.y) i j k (s w.x i j k) (s w.y i j k) (s w.z i j k) ∧
    exec3 (stretchingTimestepEuler3D nz ny nx w vel flux p) s w.z i j k
        = s w.z i j k + sig nz ny nx p (s vel.z) i j k (s w.x i j k) (s w.y i j k) (s w.z i j k) := by
  have hsplit : stretchingTimestepEuler3D nz ny nx w vel flux p
      = stretchingFlux3D nz ny nx flux w vel p ++ elementwiseSumVec3D nz ny nx w w flux := rfl
  rw [hsplit, exec3_append]
  obtain ⟨hS, hSF⟩ := C13_stretching_flux_3d nz ny nx hnz hny hnx flux w vel hfw hfv p s
  obtain ⟨hA, _⟩ := C13_elementwise_sum_vec_3d nz ny nx w w flux hwv.axy hwv.axz hwv.ayz
    (exec3 (stretchingFlux3D nz ny nx flux w vel p) s)
  obtain ⟨a1, a2, a3⟩ := hA i j k h
  obtain ⟨s1, s2, s3⟩ := hS i j k h
  have wx := hSF w.x hfw.xx.symm hfw.yx.symm hfw.zx.symm
  have wy := hSF w.y hfw.xy.symm hfw.yy.symm hfw.zy.symm
  have wz := hSF w.z hfw.xz.symm hfw.yz.symm hfw.zz.symm
  rw [a1, a2, a3, s1, s2, s3, wx, wy, wz]
  exact ⟨rfl, rfl, rfl⟩

/-- cell-wise Shu–Osher SSP-RK3 with third-stage prefactor `c3`, for the local operator given by three linear forms
`Sx Sy Sz` of the vorticity at the cell (scaled by the stage prefactor inside) -/
def rk3cell (S : K → K → K → K → K × K × K) (p c3 : K) (wx wy wz : K) : K × K × K :=
  let k1 := S p wx wy wz
  let u1 := (wx + k1.1, wy + k1.2.1, wz + k1.2.2)
  let k2 := S p u1.1 u1.2.1 u1.2.2
  let u2 := ((3/4 : K) * wx + (1/4) * (u1.1 + k2.1), (3/4 : K) * wy + (1/4) * (u1.2.1 + k2.2.1), (3/4 : K) * wz + (1/4) * (u1.2.2 + k2.2.2))
  let k3 := S c3 u2.1 u2.2.1 u2.2.2
  ((1/3 : K) * wx + (2/3) * (u2.1 + k3.1), (1/3 : K) * wy + (2/3) * (u2.2.1 + k3.2.1), (1/3 : K) * wz + (2/3) * (u2.2.2 + k3.2.2))

/-- C20 (SSP-RK3, 3D PROGRAM): at every cell of the grid the vortex-stretching SSP-RK3 program computes the
three-stage Shu–Osher combination of the local stretching operator `ω ↦ q·(∇_h u)·ω` (ring: zero), with prefactor `p`
in the first two stages and `c3` in the third — for every store, grid size, velocity field.  With `c3 = p` (what the
code passes since the repair 51cc5fb; the trace correspondence compares this scalar) this is nominal SSP-RK3. -/
theorem C20_ssprk3_program_3d (nz ny nx : ℤ) (hnz : 1 ≤ nz) (hny : 1 ≤ ny) (hnx : 1 ≤ nx) (w vel flux mid : Vec3 B)
    (hd : DistinctStretch w vel flux mid) (p c3 : K) (s : Store3 B K) (i j k : ℤ) (h : inBox3 nz ny nx i j k) :
    let S : K → K → K → K → K × K × K := fun q a b c =>
      (sig nz ny nx q (s vel.x) i j k a b c, sig nz ny nx q (s vel.y) i j k a b c, sig nz ny nx q (s vel.z) i j k a b c)
    (exec3 (stretchingTimestepSSPRK3 nz ny nx w vel flux mid p c3) s w.x i j k,
     exec3 (stretchingTimestepSSPRK3 nz ny nx w vel flux mid p c3) s w.y i j k,
     exec3 (stretchingTimestepSSPRK3 nz ny nx w vel flux mid p c3) s w.z i j k)
      = rk3cell S p c3 (s w.x i j k) (s w.y i j k) (s w.z i j k) := by
  intro S
  obtain ⟨fw, fv, fm, mw, mv, wv⟩ := hd
  -- stage stores
  set s1 := exec3 (stretchingFlux3D nz ny nx flux w vel p) s with hs1
  set s2 := exec3 (elementwiseSumVec3D nz ny nx mid w flux) s1 with hs2
  set s3 := exec3 (stretchingFlux3D nz ny nx flux mid vel p) s2 with hs3
  set s4 := exec3 (elementwiseSumVec3D nz ny nx mid mid flux) s3 with hs4
  set s5 := exec3 (elementwiseSaxpbyVec3D nz ny nx mid w mid (3 / 4) (1 / 4)) s4 with hs5
  set s6 := exec3 (stretchingFlux3D nz ny nx flux mid vel c3) s5 with hs6
  set s7 := exec3 (elementwiseSumVec3D nz ny nx mid mid flux) s6 with hs7
  have hprog : ∀ b, exec3 (stretchingTimestepSSPRK3 nz ny nx w vel flux mid p c3) s b
      = exec3 (elementwiseSaxpbyVec3D nz ny nx w w mid (1 / 3) (2 / 3)) s7 b := by
    intro b; simp only [stretchingTimestepSSPRK3, exec3_append, hs1, hs2, hs3, hs4, hs5, hs6, hs7]
  -- frames: a flux-writing step keeps w, vel, mid; a mid-writing step keeps w, vel, flux
  have fluxStep : ∀ (q : K) (src : Vec3 B) (hsrc : Distinct33 flux src) (t : Store3 B K) (b : B),
      b ≠ flux.x → b ≠ flux.y → b ≠ flux.z → exec3 (stretchingFlux3D nz ny nx flux src vel q) t b = t b :=
    fun q src hsrc t b hx hy hz => (C13_stretching_flux_3d nz ny nx hnz hny hnx flux src vel hsrc fv q t).2 b hx hy hz
  have midSum : ∀ (a : Vec3 B) (t : Store3 B K) (b : B), b ≠ mid.x → b ≠ mid.y → b ≠ mid.z →
      exec3 (elementwiseSumVec3D nz ny nx mid a flux) t b = t b :=
    fun a t b hx hy hz => (C13_elementwise_sum_vec_3d nz ny nx mid a flux mw.axy mw.axz mw.ayz t).2 b hx hy hz
  have midSax : ∀ (t : Store3 B K) (b : B), b ≠ mid.x → b ≠ mid.y → b ≠ mid.z →
      exec3 (elementwiseSaxpbyVec3D nz ny nx mid w mid (3 / 4) (1 / 4)) t b = t b :=
    fun t b hx hy hz => (C13_elementwise_saxpby_vec_3d nz ny nx mid w mid mw.axy mw.axz mw.ayz _ _ t).2 b hx hy hz
  -- `keep b`: buffer b (any of w.*, vel.*) is the same function in s … s7
  have keep : ∀ b, b ≠ flux.x → b ≠ flux.y → b ≠ flux.z → b ≠ mid.x → b ≠ mid.y → b ≠ mid.z →
      s1 b = s b ∧ s2 b = s b ∧ s3 b = s b ∧ s4 b = s b ∧ s5 b = s b ∧ s6 b = s b ∧ s7 b = s b := by
    intro b f1 f2 f3 m1 m2 m3
    have e1 : s1 b = s b := fluxStep p w fw s b f1 f2 f3
    have e2 : s2 b = s b := (midSum w s1 b m1 m2 m3).trans e1
    have e3 : s3 b = s b := (fluxStep p mid fm s2 b f1 f2 f3).trans e2
    have e4 : s4 b = s b := (midSum mid s3 b m1 m2 m3).trans e3
    have e5 : s5 b = s b := (midSax s4 b m1 m2 m3).trans e4
    have e6 : s6 b = s b := (fluxStep c3 mid fm s5 b f1 f2 f3).trans e5
    have e7 : s7 b = s b := (midSum mid s6 b m1 m2 m3).trans e6
    exact ⟨e1, e2, e3, e4, e5, e6, e7⟩
  obtain ⟨kwx1, kwx2, kwx3, kwx4, kwx5, kwx6, kwx7⟩ := keep w.x fw.xx.symm fw.yx.symm fw.zx.symm mw.xx.symm mw.yx.symm mw.zx.symm
  obtain ⟨kwy1, kwy2, kwy3, kwy4, kwy5, kwy6, kwy7⟩ := keep w.y fw.xy.symm fw.yy.symm fw.zy.symm mw.xy.symm mw.yy.symm mw.zy.symm
  obtain ⟨kwz1, kwz2, kwz3, kwz4, kwz5, kwz6, kwz7⟩ := keep w.z fw.xz.symm fw.yz.symm fw.zz.symm mw.xz.symm mw.yz.symm mw.zz.symm
  obtain ⟨kvx1, kvx2, kvx3, kvx4, kvx5, kvx6, kvx7⟩ := keep vel.x fv.xx.symm fv.yx.symm fv.zx.symm mv.xx.symm mv.yx.symm mv.zx.symm
  obtain ⟨kvy1, kvy2, kvy3, kvy4, kvy5, kvy6, kvy7⟩ := keep vel.y fv.xy.symm fv.yy.symm fv.zy.symm mv.xy.symm mv.yy.symm mv.zy.symm
  obtain ⟨kvz1, kvz2, kvz3, kvz4, kvz5, kvz6, kvz7⟩ := keep vel.z fv.xz.symm fv.yz.symm fv.zz.symm mv.xz.symm mv.yz.symm mv.zz.symm
  -- flux kept by mid-writing steps, mid kept by flux-writing steps
  have midKeptByFlux : ∀ (q : K) (src : Vec3 B) (hsrc : Distinct33 flux src) (t : Store3 B K),
      exec3 (stretchingFlux3D nz ny nx flux src vel q) t mid.x = t mid.x ∧
      exec3 (stretchingFlux3D nz ny nx flux src vel q) t mid.y = t mid.y ∧
      exec3 (stretchingFlux3D nz ny nx flux src vel q) t mid.z = t mid.z :=
    fun q src hsrc t => ⟨fluxStep q src hsrc t _ fm.xx.symm fm.yx.symm fm.zx.symm, fluxStep q src hsrc t _ fm.xy.symm fm.yy.symm fm.zy.symm,
      fluxStep q src hsrc t _ fm.xz.symm fm.yz.symm fm.zz.symm⟩
  -- stage 1: flux = S_p(vel, w)
  obtain ⟨f1x, f1y, f1z⟩ := (C13_stretching_flux_3d nz ny nx hnz hny hnx flux w vel fw fv p s).1 i j k h
  simp only [← hs1] at f1x f1y f1z
  -- stage 2: mid = w + flux
  obtain ⟨m2x, m2y, m2z⟩ := (C13_elementwise_sum_vec_3d nz ny nx mid w flux mw.axy mw.axz mw.ayz s1).1 i j k h
  simp only [← hs2, kwx1, kwy1, kwz1, ← hs1, f1x, f1y, f1z] at m2x m2y m2z
  -- stage 3: flux = S_p(vel, mid)
  obtain ⟨f3x, f3y, f3z⟩ := (C13_stretching_flux_3d nz ny nx hnz hny hnx flux mid vel fm fv p s2).1 i j k h
  simp only [← hs3, kvx2, kvy2, kvz2] at f3x f3y f3z
  -- stage 4: mid = mid + flux
  obtain ⟨m4x, m4y, m4z⟩ := (C13_elementwise_sum_vec_3d nz ny nx mid mid flux mw.axy mw.axz mw.ayz s3).1 i j k h
  obtain ⟨k3x, k3y, k3z⟩ := midKeptByFlux p mid fm s2
  simp only [← hs4, ← hs3] at m4x m4y m4z
  simp only [← hs3] at k3x k3y k3z
  simp only [f3x, f3y, f3z, k3x, k3y, k3z] at m4x m4y m4z
  -- stage 5: mid = ¾ w + ¼ mid
  obtain ⟨m5x, m5y, m5z⟩ := (C13_elementwise_saxpby_vec_3d nz ny nx mid w mid mw.axy mw.axz mw.ayz (3 / 4) (1 / 4) s4).1 i j k h
  simp only [← hs5, kwx4, kwy4, kwz4, m4x, m4y, m4z] at m5x m5y m5z
  -- stage 6: flux = S_c3(vel, mid)
  obtain ⟨f6x, f6y, f6z⟩ := (C13_stretching_flux_3d nz ny nx hnz hny hnx flux mid vel fm fv c3 s5).1 i j k h
  simp only [← hs6, kvx5, kvy5, kvz5] at f6x f6y f6z
  -- stage 7: mid = mid + flux
  obtain ⟨m7x, m7y, m7z⟩ := (C13_elementwise_sum_vec_3d nz ny nx mid mid flux mw.axy mw.axz mw.ayz s6).1 i j k h
  obtain ⟨k6x, k6y, k6z⟩ := midKeptByFlux c3 mid fm s5
  simp only [← hs7, ← hs6] at m7x m7y m7z
  simp only [← hs6] at k6x k6y k6z
  simp only [f6x, f6y, f6z, k6x, k6y, k6z] at m7x m7y m7z
  -- stage 8: w = ⅓ w + ⅔ mid
  obtain ⟨w8x, w8y, w8z⟩ := (C13_elementwise_saxpby_vec_3d nz ny nx w w mid wv.axy wv.axz wv.ayz (1 / 3) (2 / 3) s7).1 i j k h
  simp only [kwx7, kwy7, kwz7, m7x, m7y, m7z] at w8x w8y w8z
  rw [hprog, hprog, hprog, w8x, w8y, w8z]
  -- unfold the stage values of mid inside the pointwise flux
  simp only [stretchZ_eq_sig, m5x, m5y, m5z, m2x, m2y, m2z, f1x, f1y, f1z, kwx1, kwy1, kwz1, kwx2, kwy2, kwz2, rk3cell, S]

/-- with `c3 = p` the cell-wise result is the third-order Taylor polynomial `ω + Aω + A²ω/2 + A³ω/6` of the local
linear operator `A = p·(∇_h u)` (zero on the ring) — nominal SSP-RK3 for the frozen velocity -/
theorem C20_ssprk3_cell_nominal (nz ny nx : ℤ) (p : K) (ux uy uz : F3 K) (i j k : ℤ) (wx wy wz : K) :
    let S : K → K → K → K → K × K × K := fun q a b c =>
      (sig nz ny nx q ux i j k a b c, sig nz ny nx q uy i j k a b c, sig nz ny nx q uz i j k a b c)
    let A : K × K × K → K × K × K := fun v => S p v.1 v.2.1 v.2.2
    let ω : K × K × K := (wx, wy, wz)
    rk3cell S p p wx wy wz
      = (ω.1 + (A ω).1 + (1/2) * (A (A ω)).1 + (1/6) * (A (A (A ω))).1,
         ω.2.1 + (A ω).2.1 + (1/2) * (A (A ω)).2.1 + (1/6) * (A (A (A ω))).2.1,
         ω.2.2 + (A ω).2.2 + (1/2) * (A (A ω)).2.2 + (1/6) * (A (A (A ω))).2.2) := by
  intro S A ω
  simp only [rk3cell, S, A, ω, sig]
  split_ifs
  · refine Prod.ext ?_ (Prod.ext ?_ ?_) <;> simp only <;> ring
  · refine Prod.ext ?_ (Prod.ext ?_ ?_) <;> simp only <;> ring

end Sopht.Props.C20
