/-
Non-vacuity: the distinctness hypotheses of the program-level theorems are met by concrete buffer assignments (the
enumerations used for the call-site analysis of C15), so C01_pre_solve_3d, C18_step_scratch_free_3d, C14_pre_solve_*_3d,
C20_ssprk3_program_3d, C01_pre_solve_2d … apply to them.
-/
import SophtVerif.Props.C15_3D
import SophtVerif.Props.C18_3D
import SophtVerif.Props.C14_3D

namespace Sopht.Props
open Sopht Sopht.Model

example : C13.Distinct33 C15.nsBufs3.vort C15.nsBufs3.force := by constructor <;> decide
example : C01.Distinct3 C15.nsBufs3 := by
  constructor <;> (constructor <;> decide)
example : C15.nsBufs3.buf.x ≠ C15.nsBufs3.buf.y := by decide
example : C20.DistinctStretch C15.nsBufs3.vort C15.nsBufs3.vel C15.nsBufs3.buf C15.nsBufs3.psi := by
  constructor <;> (constructor <;> decide)
example : C01.Distinct2 C15.nsBufs := by constructor <;> decide
example : C14.DistinctPost C15.nsBufs := by constructor <;> decide

/-- … and the theorems can be instantiated: the 3D scratch-freedom statement at ℚ for the concrete buffers, filter on -/
example (s s' : Store3 C15.NSBuf3 ℚ) (h : ∀ x, x ≠ C15.nsBufs3.buf.x → x ≠ C15.nsBufs3.buf.y → x ≠ C15.nsBufs3.buf.z → s x = s' x) :
    C01.EqV 9 10 11 (C01.vecOf (exec3 (nsStep3DPre C15.trivT (C15.cfgOf3 true true 6 0) C15.nsBufs3) s) C15.nsBufs3.vort)
      (C01.vecOf (exec3 (nsStep3DPre C15.trivT (C15.cfgOf3 true true 6 0) C15.nsBufs3) s') C15.nsBufs3.vort) :=
  C18.C18_step_scratch_free_3d C15.trivT (C15.cfgOf3 true true 6 0) rfl (fun _ => by decide) (by decide) (by decide) (by decide)
    C15.nsBufs3 (by constructor <;> (constructor <;> decide)) (by decide) s s' h (by constructor <;> decide)

end Sopht.Props
