/-
Spec/Ops2D.lean — the documented 2D operators written as mathematics (from the documentation and the
property statements, NOT from the kernels): centred curl, conservative ENO3 advection, 5-point
diffusion, each acting on the interior of its reach and the identity elsewhere.  Array index (i, j) =
(y, x); x is the last index.
-/
import SophtVerif.Core.Grid

namespace Sopht.Spec

variable {K : Type} [Field K] [LinearOrder K] [IsStrictOrderedRing K]

/-- cell (i,j) is at least `g` cells away from every side of the `ny × nx` box -/
abbrev inner (ny nx g i j : ℤ) : Prop := g ≤ i ∧ i < ny - g ∧ g ≤ j ∧ j < nx - g

/-- two fields agree on the `ny × nx` box -/
def EqBox (ny nx : ℤ) (f g : F2 K) : Prop := ∀ i j, 0 ≤ i → i < ny → 0 ≤ j → j < nx → f i j = g i j

/-- `2h · (∂F_y/∂x − ∂F_x/∂y)` by centred differences -/
def curl2h (Fx Fy : F2 K) : F2 K := fun i j => Fy i (j+1) - Fy i (j-1) - Fx (i+1) j + Fx (i-1) j

/-- `ω ← ω + p·(2h curl F)` on the interior of reach 1 (`p = dt/(2 h ρ)`) -/
def forcingOp (ny nx : ℤ) (p : K) (Fx Fy w : F2 K) : F2 K :=
  fun i j => if inner ny nx 1 i j then w i j + p * curl2h Fx Fy i j else w i j

/-- upwinded third-order ENO flux through the +x face of cell (i,j); `q = w·v` is the nodal flux;
upwind direction from the sign of the face velocity sum `v(j) + v(j+1)` -/
def enoFaceX (w v : F2 K) (i j : ℤ) : K :=
  if 0 < v i j + v i (j+1)
  then (1/3) * (w i (j+1) * v i (j+1)) + (5/6) * (w i j * v i j) - (1/6) * (w i (j-1) * v i (j-1))
  else (1/3) * (w i j * v i j) + (5/6) * (w i (j+1) * v i (j+1)) - (1/6) * (w i (j+2) * v i (j+2))

/-- the same through the +y face -/
def enoFaceY (w v : F2 K) (i j : ℤ) : K :=
  if 0 < v i j + v (i+1) j
  then (1/3) * (w (i+1) j * v (i+1) j) + (5/6) * (w i j * v i j) - (1/6) * (w (i-1) j * v (i-1) j)
  else (1/3) * (w i j * v i j) + (5/6) * (w (i+1) j * v (i+1) j) - (1/6) * (w (i+2) j * v (i+2) j)

/-- conservative flux divergence `(F₊ − F₋)_x + (F₊ − F₋)_y` (times h) -/
def enoDivergence (w vx vy : F2 K) : F2 K :=
  fun i j => (enoFaceX w vx i j - enoFaceX w vx i (j-1)) + (enoFaceY w vy i j - enoFaceY w vy (i-1) j)

/-- `ω ← ω − c·h·div_h(ENO3 flux)` on the interior of reach 2 (`c = dt/h`) -/
def advectOp (ny nx : ℤ) (c : K) (vx vy w : F2 K) : F2 K :=
  fun i j => if inner ny nx 2 i j then w i j - c * enoDivergence w vx vy i j else w i j

/-- `ω ← ω + r·(5-point Laplacian)` on the interior of reach 1 (`r = ν dt/h²`) -/
def diffuseOp (ny nx : ℤ) (r : K) (w : F2 K) : F2 K :=
  fun i j => if inner ny nx 1 i j
    then w i j + r * (w (i+1) j + w (i-1) j + w i (j+1) + w i (j-1) - 4 * w i j) else w i j

/-- velocity from the stream function: `u = (∂ψ/∂y, −∂ψ/∂x)` by centred differences with `p = 1/(2h)`,
zero on the boundary ring, plus the free stream -/
def velocityX (ny nx : ℤ) (p U : K) (psi : F2 K) : F2 K :=
  fun i j => (if inner ny nx 1 i j then p * (psi (i+1) j - psi (i-1) j) else 0) + U
def velocityY (ny nx : ℤ) (p U : K) (psi : F2 K) : F2 K :=
  fun i j => (if inner ny nx 1 i j then p * (psi i (j-1) - psi i (j+1)) else 0) + U

end Sopht.Spec
