/-
Spec/Ops3D.lean — the documented 3D operators written as mathematics (from the documentation and the property
statements, NOT from the kernels).  Array index (i, j, k) = (z, y, x); vector components (x, y, z).
-/
import SophtVerif.Core.Grid

namespace Sopht.Spec

variable {K : Type} [Field K] [LinearOrder K] [IsStrictOrderedRing K]

/-- cell is at least `g` cells away from every side of the `nz × ny × nx` box -/
abbrev innerB (nz ny nx g i j k : ℤ) : Prop := g ≤ i ∧ i < nz - g ∧ g ≤ j ∧ j < ny - g ∧ g ≤ k ∧ k < nx - g

abbrev inB (nz ny nx i j k : ℤ) : Prop := 0 ≤ i ∧ i < nz ∧ 0 ≤ j ∧ j < ny ∧ 0 ≤ k ∧ k < nx

def EqB (nz ny nx : ℤ) (f g : F3 K) : Prop := ∀ i j k, inB nz ny nx i j k → f i j k = g i j k

/-- a vector field -/
structure V3F (K : Type) where
  x : F3 K
  y : F3 K
  z : F3 K

/-- `2h · curl F` by centred differences -/
def curl3h (F : V3F K) : V3F K :=
  ⟨fun i j k => (F.z i (j+1) k - F.z i (j-1) k) - (F.y (i+1) j k - F.y (i-1) j k),
   fun i j k => (F.x (i+1) j k - F.x (i-1) j k) - (F.z i j (k+1) - F.z i j (k-1)),
   fun i j k => (F.y i j (k+1) - F.y i j (k-1)) - (F.x i (j+1) k - F.x i (j-1) k)⟩

/-- cell-wise cross product -/
def cross3 (a b : V3F K) : V3F K :=
  ⟨fun i j k => a.y i j k * b.z i j k - a.z i j k * b.y i j k,
   fun i j k => a.z i j k * b.x i j k - a.x i j k * b.z i j k,
   fun i j k => a.x i j k * b.y i j k - a.y i j k * b.x i j k⟩

/-- `w ← w + p·g` on the interior of reach 1, component-wise -/
def addInner (nz ny nx : ℤ) (p : K) (w g : F3 K) : F3 K :=
  fun i j k => if innerB nz ny nx 1 i j k then w i j k + p * g i j k else w i j k

/-- `ω ← ω + p·(2h curl F)` on the interior (`p = dt/(2 h ρ)`) -/
def forcingOp3 (nz ny nx : ℤ) (p : K) (F w : V3F K) : V3F K :=
  ⟨addInner nz ny nx p w.x (curl3h F).x, addInner nz ny nx p w.y (curl3h F).y, addInner nz ny nx p w.z (curl3h F).z⟩

/-- rotational-form transport (advection + stretching): `ω ← ω + p·(2h curl (u × ω))` on the interior (`p = dt/(2h)`) -/
def rotationalOp3 (nz ny nx : ℤ) (p : K) (u w : V3F K) : V3F K := forcingOp3 nz ny nx p (cross3 u w) w

/-- `f ← f + r·(7-point Laplacian)` on the interior of reach 1 (`r = ν dt/h²`) -/
def diffuse1 (nz ny nx : ℤ) (r : K) (f : F3 K) : F3 K :=
  fun i j k => if innerB nz ny nx 1 i j k
    then f i j k + r * (f (i+1) j k + f (i-1) j k + f i (j+1) k + f i (j-1) k + f i j (k+1) + f i j (k-1) - 6 * f i j k)
    else f i j k

def diffuseOp3 (nz ny nx : ℤ) (r : K) (w : V3F K) : V3F K :=
  ⟨diffuse1 nz ny nx r w.x, diffuse1 nz ny nx r w.y, diffuse1 nz ny nx r w.z⟩

/-- velocity from the vector stream function: `u = (1/2h)·(2h curl ψ)` on the interior, zero on the ring, plus the free stream -/
def velocity3 (nz ny nx : ℤ) (p Ux Uy Uz : K) (psi : V3F K) : V3F K :=
  ⟨fun i j k => (if innerB nz ny nx 1 i j k then p * (curl3h psi).x i j k else 0) + Ux,
   fun i j k => (if innerB nz ny nx 1 i j k then p * (curl3h psi).y i j k else 0) + Uy,
   fun i j k => (if innerB nz ny nx 1 i j k then p * (curl3h psi).z i j k else 0) + Uz⟩

end Sopht.Spec
