"""Run every public kernel generator of /repo over its option space with the shim installed and
collect the distinct symbolic kernels (assignments, slices, thread requests)."""
from __future__ import annotations

import inspect
import itertools
import sys
import os

sys.path.insert(0, os.path.dirname(os.path.abspath(__file__)))
import shim

shim.install()
import numpy as np
import sympy as sp

import sopht.numeric.eulerian_grid_ops as spne

shim.assert_repo_is()

WIDTHS = list(range(0, 7))
FILTER_ORDERS = list(range(0, 5))
THREADS = [False, 1, 4]
REALS = [np.float32, np.float64]


class SymGrid:
    """stand-in for a coordinate array: only corner entries may be read; they are symbols"""

    def __init__(self, axis_name, ndim):
        self.axis_name = axis_name
        self.ndim = ndim
        self.start = sp.Symbol(f"{axis_name}_grid_field_start", real=True)
        self.end = sp.Symbol(f"{axis_name}_grid_field_end", real=True)

    def __getitem__(self, idx):
        if not isinstance(idx, tuple) or len(idx) != self.ndim:
            raise IndexError(f"SymGrid: unexpected index {idx!r}")
        if all(i == 0 for i in idx):
            return self.start
        nz = [i for i in idx if i != 0]
        if nz == [-1]:
            return self.end
        raise IndexError(f"SymGrid: unexpected index {idx!r}")


def option_space(name, sig):
    """list of kwargs dicts for generator `name`; raises on unknown parameters"""
    dim = 2 if name.endswith("_2d") else 3
    axes = []
    for p in sig.parameters:
        if p == "real_t":
            axes.append([("real_t", r) for r in REALS])
        elif p == "num_threads":
            axes.append([("num_threads", t) for t in THREADS])
        elif p == "fixed_grid_size":
            axes.append([("fixed_grid_size", False)])
        elif p == "field_type":
            axes.append([("field_type", "scalar"), ("field_type", "vector")])
        elif p == "reset_ghost_zone":
            axes.append([("reset_ghost_zone", True), ("reset_ghost_zone", False)])
        elif p == "width":
            axes.append([("width", w) for w in WIDTHS])
        elif p == "dx":
            axes.append([("dx", sp.Symbol("dx", positive=True))])
        elif p == "blend_width":
            axes.append([("blend_width", sp.Symbol("blend_width", positive=True))])
        elif p in ("x_grid_field", "y_grid_field", "z_grid_field"):
            axes.append([(p, SymGrid(p[0], dim))])
        elif p == "filter_order":
            axes.append([("filter_order", k) for k in FILTER_ORDERS])
        elif p == "filter_type":
            axes.append([("filter_type", "multiplicative"), ("filter_type", "convolution")])
        elif p == "filter_flux_buffer_boundary_width":
            axes.append([("filter_flux_buffer_boundary_width", 1)])
        elif p in ("filter_flux_buffer", "field_buffer"):
            axes.append([(p, np.zeros((4, 4, 4)))])
        elif p == "midstep_buffer_vector_field":
            axes.append([(p, np.zeros((3, 4, 4, 4)))])
        else:
            raise KeyError(f"capture: generator {name} has unknown parameter {p}")
    return [dict(c) for c in itertools.product(*axes)]


def norm_key(k):
    """identity of a kernel body independent of precision / thread request"""
    return (
        k.name,
        k.ndim,
        tuple((sp.srepr(l), sp.srepr(r)) for l, r in k.assignments),
        repr(k.slice),
    )


def capture_all(quiet=True):
    """returns (kernels: dict key -> record, invocations: list)"""
    kernels = {}
    invocations = []
    errors = []
    gens = [n for n in spne.__all__ if n.startswith("gen_")]
    for name in gens:
        fn = getattr(spne, name)
        sig = inspect.signature(fn)
        for kw in option_space(name, sig):
            n0 = len(shim.REGISTRY)
            try:
                wrapper = fn(**kw)
            except Exception as e:  # noqa: BLE001
                errors.append((name, {k: repr(v) for k, v in kw.items()}, repr(e)))
                continue
            created = shim.REGISTRY[n0:]
            inv = {"gen": name, "options": {k: _opt_repr(v) for k, v in kw.items()}, "kernels": []}
            for k in created:
                key = norm_key(k)
                rec = kernels.setdefault(
                    key,
                    {"kernel": k, "threads_seen": set(), "dtypes_seen": set(), "gens": set(), "widths": set()},
                )
                rec["threads_seen"].add((repr(kw.get("num_threads")), repr(k.threads)))
                rec["dtypes_seen"].add(k.dtype)
                rec["gens"].add(name)
                if "width" in kw:
                    rec["widths"].add(kw["width"])
                inv["kernels"].append(key)
            invocations.append(inv)
    return kernels, invocations, errors


def _opt_repr(v):
    if isinstance(v, type):
        return v.__name__
    if isinstance(v, np.ndarray):
        return f"ndarray{v.shape}"
    if isinstance(v, SymGrid):
        return f"SymGrid({v.axis_name})"
    return repr(v)


if __name__ == "__main__":
    ks, invs, errs = capture_all()
    print(len(ks), "distinct kernels;", len(invs), "generator invocations;", len(errs), "errors")
    for e in errs[:20]:
        print("ERR", e)
    for key, rec in sorted(ks.items(), key=lambda kv: (kv[0][0], kv[0][1], kv[0][3], kv[0][2])):
        k = rec["kernel"]
        print(f"{k.name} nd={k.ndim} g={k.ghost} slice={k.slice} gens={sorted(rec['gens'])} widths={sorted(rec['widths'])}")
        for l, r in k.assignments:
            print("    ", l, "<-", r)
