#!/venv/bin/python
"""Entry point of every registered check.

    /venv/bin/python tools/check.py --property C04 [--tier quick|thorough] [--replay FILE]

Flow (DESIGN §4):
  1. translate /repo's kernel generators to Lean (always re-run on the current working tree)
  2. lake build the property's modules; printer self-check; axiom audit; source grep
  3. the correspondence runs registered for the property (model vs. real implementation)
  4. evidence/<id>.json
  When 1–3 break: run the property's failing-input search on the real implementation and report
  VIOLATION (with the failing input, or `no-failing-input-found`).
Exit codes: 0 held; 1 violation; 2 infrastructure problem (timeout, tool crash).
"""
from __future__ import annotations

import argparse
import fcntl
import hashlib
import importlib
import json
import os
import re
import subprocess
import sys
import time
import traceback

HERE = os.path.dirname(os.path.abspath(__file__))
ROOT = os.path.dirname(HERE)
LEAN = os.path.join(ROOT, "lean")
sys.path.insert(0, HERE)
os.environ.setdefault("NUMBA_CACHE_DIR", os.path.join(ROOT, ".cache", "numba"))
os.environ.setdefault("PYTHONDONTWRITEBYTECODE", "1")

ALLOWED_AXIOMS = {"propext", "Classical.choice", "Quot.sound"}
FORBIDDEN = re.compile(r"\bsorry\b|\badmit\b|^axiom |native_decide|bv_decide|implemented_by|\bunsafe |maxHeartbeats 0")


def sh(cmd, cwd=None, timeout=3600, env=None):
    e = dict(os.environ)
    if env:
        e.update(env)
    p = subprocess.run(cmd, cwd=cwd, shell=isinstance(cmd, str), capture_output=True, text=True, timeout=timeout, env=e)
    out = "\n".join(l for l in (p.stdout + p.stderr).splitlines() if "conda.cli.condarc" not in l)
    return p.returncode, out


class _M:
    def __init__(self, g):
        self.g = g

    def group(self, i):
        return self.g[i - 1]


class Broken:
    """one proof obligation / correspondence that no longer checks"""

    def __init__(self, kind, name, detail):
        self.kind, self.name, self.detail = kind, name, detail

    def as_dict(self):
        return {"kind": self.kind, "name": self.name, "detail": self.detail[:4000]}


def enclosing_decl(path, line):
    try:
        src = open(path).read().splitlines()
    except OSError:
        return None
    for i in range(min(line, len(src)) - 1, -1, -1):
        m = re.match(r"\s*(?:private |protected |noncomputable )*(theorem|lemma|def|example|instance|abbrev)\s+([^\s:({\[]+)?", src[i])
        if m:
            return (m.group(2) or "example") + f" ({os.path.relpath(path, LEAN)}:{i+1})"
    return None


def lean_errors(out):
    errs = []
    for m in re.finditer(r"^(?:error: (\S+\.lean):(\d+):(\d+): (.*)|(\S+\.lean):(\d+):(\d+): error: (.*))$", out, re.M):
        g = m.groups()
        g = g[:4] if g[0] else g[4:]
        m = _M(g)
        path = m.group(1)
        if not os.path.isabs(path):
            path = os.path.join(LEAN, path)
        decl = enclosing_decl(path, int(m.group(2)))
        errs.append((decl or f"{m.group(1)}:{m.group(2)}", m.group(4)))
    return errs


def strip_comments(src):
    src = re.sub(r"/-.*?-/", "", src, flags=re.S)
    return "\n".join(l.split("--")[0] for l in src.splitlines())


def grep_forbidden(files):
    hits = []
    for f in files:
        try:
            body = strip_comments(open(f).read())
        except OSError:
            continue
        for n, l in enumerate(body.splitlines(), 1):
            if FORBIDDEN.search(l):
                hits.append(f"{os.path.relpath(f, LEAN)}:{n}: {l.strip()[:120]}")
    return hits


def theorem_statements(path, names):
    """source text of the statements (up to ':= by' / ':=') of the listed theorems"""
    try:
        src = open(path).read()
    except OSError:
        return {}
    out = {}
    for n in names:
        short = n.split(".")[-1]
        m = re.search(r"theorem\s+" + re.escape(short) + r"\b(.*?):=", src, re.S)
        if m:
            out[short] = " ".join(m.group(1).split())[:700]
    return out


def module_path(mod):
    return os.path.join(LEAN, *mod.split(".")) + ".lean"


def transitive_local_imports(mod, seen=None):
    seen = seen if seen is not None else set()
    if mod in seen:
        return seen
    seen.add(mod)
    try:
        src = open(module_path(mod)).read()
    except OSError:
        return seen
    for m in re.finditer(r"^import (SophtVerif\.\S+)", src, re.M):
        transitive_local_imports(m.group(1), seen)
    return seen


def main():
    ap = argparse.ArgumentParser()
    ap.add_argument("--property", required=True)
    ap.add_argument("--tier", default=os.environ.get("VERIF_TIER", "quick"), choices=["quick", "thorough"])
    ap.add_argument("--replay")
    args = ap.parse_args()
    seed = int(os.environ.get("VERIF_SEED", "0"))
    pid = args.property
    t0 = time.time()

    import props

    if pid not in props.REGISTRY:
        print(f"unknown property {pid}")
        return 2
    spec = props.REGISTRY[pid]

    if args.replay:
        return replay(pid, spec, args.replay)

    os.makedirs(os.path.join(ROOT, ".cache"), exist_ok=True)
    os.makedirs(os.path.join(ROOT, "evidence"), exist_ok=True)
    os.makedirs(os.path.join(ROOT, "replays"), exist_ok=True)
    lock = open(os.path.join(ROOT, ".cache", "lock"), "w")
    fcntl.flock(lock, fcntl.LOCK_EX)

    broken: list[Broken] = []
    info = {"translator": {}, "lean": {}, "correspondence": {}, "oracle": {}}

    # ---- 1. translate -------------------------------------------------------------------
    rc, out = sh([sys.executable, os.path.join(HERE, "translate.py")], cwd=ROOT, env={"VERIF_SEED": str(seed)})
    info["translator"]["output"] = out.splitlines()[-20:]
    if rc != 0:
        broken.append(Broken("translator", "tools/translate.py", out[-3000:]))
    else:
        m = re.search(r"translated (\d+) kernels from (\d+) generator invocations \((\d+) rejected", out)
        if m:
            info["translator"].update(kernels=int(m.group(1)), invocations=int(m.group(2)), rejected=int(m.group(3)))
        info["translator"]["constants"] = [l for l in out.splitlines() if l.startswith("const ")]

    # ---- 2. build + self-check + audit -----------------------------------------------
    mods = spec["modules"]
    theorems = []
    if not broken:
        if args.tier == "thorough":
            for mod in transitive_local_imports("SophtVerif.Props." + pid) if False else []:
                pass
        # the drivers of THIS property's correspondences are interpreted (`lean --run`) against the compiled model / generated
        # modules they import: build those too, so that a driver never runs against a compiled model older than the sources
        driver_deps = set()
        for cname in spec.get("correspondence", []):
            src_py = os.path.join(HERE, *cname.split(":")[0].split(".")) + ".py"
            text = open(src_py).read() if os.path.exists(src_py) else ""
            drivers = set(re.findall(r"Driver/(\w+)\.lean", text)) | set(re.findall(r"run_driver\(\s*\"(\w+)\"", text)) | set(re.findall(r"run_cases\(\s*\"(\w+)\"", text))
            if "per_driver" in text or "driver," in text:
                drivers |= set(re.findall(r"\"(Prog[23]D)\"", text))
            for d in drivers:
                fn = os.path.join(LEAN, "SophtVerif", "Driver", d + ".lean")
                if os.path.exists(fn):
                    for line in open(fn):
                        m = re.match(r"^import (SophtVerif\.\S+)", line)
                        if m:
                            driver_deps.add(m.group(1))
        info["lean"]["driver_modules_built"] = sorted(driver_deps)
        rc, out = sh(["lake", "build"] + mods + sorted(driver_deps - set(mods)), cwd=LEAN, timeout=3000)
        info["lean"]["build_tail"] = [l for l in out.splitlines() if "warning" not in l][-5:]
        if rc != 0:
            errs = lean_errors(out)
            if not errs:
                broken.append(Broken("build", "lake build", out[-3000:]))
            seen = set()
            for decl, msg in errs:
                if decl in seen:
                    continue
                seen.add(decl)
                broken.append(Broken("theorem", decl, msg))
    if not broken:
        # printer self-check, cached on the content of the generated files
        gen_hash = hashlib.sha256()
        for f in sorted(os.listdir(os.path.join(LEAN, "SophtVerif", "Gen"))):
            gen_hash.update(open(os.path.join(LEAN, "SophtVerif", "Gen", f), "rb").read())
        gh = gen_hash.hexdigest()
        stamp = os.path.join(ROOT, ".cache", "selfcheck.ok")
        if not (os.path.exists(stamp) and open(stamp).read().split("\n")[0] == gh) or args.tier == "thorough":
            rc, out = sh(["lake", "env", "lean", "--run", "SophtVerif/Gen/SelfCheck.lean"], cwd=LEAN, timeout=1200)
            m = re.search(r"SELFCHECK rat=(\d+) float=(\d+) bad=(\d+)", out)
            if rc != 0 or not m or int(m.group(3)) != 0:
                broken.append(Broken("translator-selfcheck", "Gen/SelfCheck.lean", out[-3000:]))
            else:
                open(stamp, "w").write(gh + "\n" + m.group(0))
        if os.path.exists(stamp):
            info["translator"]["selfcheck"] = open(stamp).read().split("\n")[-1]
    if not broken:
        for mod in mods:
            ns = spec.get("namespace", "Sopht.Props." + pid)
            rc, out = sh(["lake", "env", "lean", "--run", "Audit.lean", mod, ns], cwd=LEAN, timeout=1200)
            if rc != 0 or "AUDIT-DONE" not in out:
                broken.append(Broken("audit", mod, out[-2000:]))
                continue
            for m in re.finditer(r"^THEOREM (\S+) AXIOMS (.*)$", out, re.M):
                axs = [a for a in m.group(2).split(",") if a]
                theorems.append({"name": m.group(1), "axioms": axs, "module": mod})
                bad = [a for a in axs if a not in ALLOWED_AXIOMS]
                if bad:
                    broken.append(Broken("axioms", m.group(1), f"depends on {bad}"))
        local = set()
        for mod in mods:
            transitive_local_imports(mod, local)
        hits = grep_forbidden([module_path(m) for m in sorted(local)])
        info["lean"]["modules_checked"] = sorted(local)
        if hits:
            broken.append(Broken("forbidden-construct", "grep", "\n".join(hits)))
        required = spec.get("required_theorems", [])
        have = {t["name"].split(".")[-1] for t in theorems}
        missing = [r for r in required if r not in have]
        if missing:
            broken.append(Broken("theorem", "missing: " + ", ".join(missing), "property theorem no longer present in the built module"))
        if args.tier == "thorough" and not broken:
            rc, out = sh(["lake", "env", "leanchecker"] + mods, cwd=LEAN, timeout=3000)
            info["lean"]["leanchecker"] = "ok" if rc == 0 else out[-500:]
            if rc != 0:
                broken.append(Broken("leanchecker", " ".join(mods), out[-2000:]))

    # ---- 3. correspondence ----------------------------------------------------------------
    n_traces = 0
    corr_samples = []
    found = None  # a concrete failing input discovered on the way
    for cname in spec.get("correspondence", []):
        modname, fn = cname.split(":")
        try:
            mod = importlib.import_module(modname)
            res = getattr(mod, fn)(seed=seed, tier=args.tier)
        except Exception:  # noqa: BLE001
            res = {"ok": False, "name": cname, "detail": traceback.format_exc()[-3000:], "cases": 0}
        info["correspondence"][cname] = {k: v for k, v in res.items() if k not in ("samples",)}
        n_traces += int(res.get("cases", 0))
        corr_samples += res.get("samples", [])[:3]
        if not res.get("ok"):
            broken.append(Broken("correspondence", cname, str(res.get("detail", ""))))
            if res.get("failing_input") is not None and found is None:
                found = res["failing_input"]

    # ---- 4. oracle on the real implementation ---------------------------------------------
    oracle_res = None
    if spec.get("oracle") and (broken or spec.get("oracle_always", True)):
        modname, fn = spec["oracle"].split(":")
        try:
            mod = importlib.import_module(modname)
            oracle_res = getattr(mod, fn)(seed=seed, tier=args.tier, aimed=[b.as_dict() for b in broken])
        except Exception:  # noqa: BLE001
            oracle_res = {"ok": None, "error": traceback.format_exc()[-3000:], "cases": 0}
        info["oracle"] = {k: v for k, v in oracle_res.items() if k not in ("failing_input", "samples")}
        if oracle_res.get("ok") is False and found is None:
            found = oracle_res.get("failing_input")
        if oracle_res.get("ok") is None and not broken:
            print("oracle crashed:\n" + oracle_res.get("error", ""))
            return 2

    # ---- 5. verdict ---------------------------------------------------------------------
    known = load_known(pid)
    reproduced_known = None
    violations = 0
    status = 0
    lines = []
    if broken or found is not None:
        rep = {
            "property": pid,
            "kind": "failing-input" if found is not None else "no-failing-input-found",
            "broken": [b.as_dict() for b in broken],
            "failing_input": found,
            "seed": seed,
            "tier": args.tier,
            "searched": info["oracle"],
        }
        match = match_known(known, rep)
        if match is not None and found is not None and not [b for b in broken if not known_covers(match, b)]:
            lines.append(f"KNOWN-FINDING: property={pid} {match['what']} [reproduced this run: {json.dumps({k: found.get(k) for k in ('solver', 'grid', 'threads', 'max_abs_dev') if k in found})}]")
            reproduced_known = match
        else:
            h = hashlib.sha256(json.dumps(rep, sort_keys=True, default=str).encode()).hexdigest()[:10]
            path = os.path.join(ROOT, "replays", f"{pid}-{h}.json")
            json.dump(rep, open(path, "w"), indent=1, default=str)
            tail = "" if found is not None else " no-failing-input-found"
            lines.append(f"VIOLATION property={pid} replay={path}{tail}")
            violations = 1
            status = 1
    # listed findings that were reproduced by the oracle (it reports them separately)
    for kf in (oracle_res or {}).get("known_reproduced", []):
        lines.append(f"KNOWN-FINDING: property={pid} {kf}")
    # every listed (recorded, unrepaired) finding is announced on every run, reproduced or not
    for k in known:
        if k is not reproduced_known:
            lines.append(f"KNOWN-FINDING: property={pid} {k['what']} [not reproduced this run]")

    # ---- 6. evidence ----------------------------------------------------------------------
    stm = {}
    for mod in mods:
        stm.update(theorem_statements(module_path(mod), [t["name"] for t in theorems if t["module"] == mod]))
    obligations = len(theorems) + len(spec.get("correspondence", []))
    discharged = obligations - len({b.name for b in broken if b.kind in ("theorem", "axioms", "correspondence")})
    if broken and not theorems:
        obligations = max(obligations, 1)
        discharged = 0
    samples = [{"theorem": t["name"], "axioms": t["axioms"], "statement": stm.get(t["name"].split(".")[-1], "")} for t in theorems[:6]]
    samples += corr_samples[:4]
    if oracle_res:
        samples += (oracle_res.get("samples") or [])[:3]
    ev = {
        "property_id": pid,
        "tier": args.tier,
        "seed": seed,
        "level": "proof",
        "coverage": {
            "obligations": max(obligations, 1),
            "discharged": max(discharged, 0) if broken else max(obligations, 1),
            "checker_cmd": f"cd lean && lake build {' '.join(mods)} && lake env lean --run Audit.lean <module> <namespace>",
            "trusted_base": spec.get("trusted_base", []) + [
                "Lean 4.33.0 kernel; Mathlib v4.33.0; axioms limited to propext, Classical.choice, Quot.sound (audited this run)",
                "tools/shim.py + tools/capture.py + tools/translate.py (pystencils 2.0 front end, sympy canonicalisation, sympy->Lean printer self-checked by exact rational evaluation this run)",
            ],
            "theorems": [t["name"] for t in theorems],
            "traces_validated_against_impl": n_traces,
            "samples": samples or [{"note": "no sample: build broken", "broken": [b.as_dict() for b in broken][:2]}],
            "translator": {k: v for k, v in info["translator"].items() if k != "output"},
            "correspondence": info["correspondence"],
            "oracle_on_implementation": info["oracle"],
            "broken": [b.as_dict() for b in broken],
        },
        "assumptions": spec.get("assumptions", []),
        "wall_s": round(time.time() - t0, 2),
        "violations": violations,
    }
    json.dump(ev, open(os.path.join(ROOT, "evidence", f"{pid}.json"), "w"), indent=1, default=str)
    for l in lines:
        print(l)
    if status == 0:
        print(f"OK property={pid} tier={args.tier} theorems={len(theorems)} correspondence_cases={n_traces} wall={ev['wall_s']}s")
    return status


def load_known(pid):
    p = os.path.join(ROOT, "known_findings.json")
    if not os.path.exists(p):
        return []
    data = json.load(open(p))
    return [k for k in data.get("findings", []) if k.get("property") == pid and k.get("status") == "known"]


def match_known(known, rep):
    fi = rep.get("failing_input") or {}
    for k in known:
        key = k.get("match", {})
        if key and all(fi.get(a) == b for a, b in key.items()):
            return k
    return None


def known_covers(k, b):
    return b.name in k.get("covers_broken", [])


def replay(pid, spec, path):
    rep = json.load(open(path))
    if not spec.get("oracle"):
        print("no oracle registered for", pid)
        return 2
    modname, fn = spec["oracle"].split(":")
    mod = importlib.import_module(modname)
    if rep.get("failing_input") is None:
        print(f"replay {path}: no concrete input recorded; broken obligations:")
        for b in rep.get("broken", []):
            print("  ", b["kind"], b["name"])
        res = getattr(mod, fn)(seed=rep.get("seed", 0), tier="thorough", aimed=rep.get("broken", []))
    else:
        res = getattr(mod, "replay")(rep["failing_input"])
    if res.get("ok") is False:
        print(f"VIOLATION property={pid} replay={path}")
        return 1
    print("replay: property holds on the recorded input with the current tree")
    return 0


if __name__ == "__main__":
    try:
        sys.exit(main())
    except subprocess.TimeoutExpired as e:
        print("timeout:", e)
        sys.exit(2)
