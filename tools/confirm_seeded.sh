#!/bin/bash
# usage: confirm_seeded.sh <ID> : re-runs, in the sub-agent's scratch worktree /tmp/wt/<ID>, the three facts a seeded
# change must satisfy (demo fails with it, passes without it, pinned tests still pass) and stores the artefacts
# under /verif/seeded/<ID>/.
ID="$1"; WT=${WTROOT:-/tmp/wt}/$ID; OUT=/verif/seeded/${ID}${SUFFIX:-}
mkdir -p "$OUT"
cd "$WT" || exit 2
git diff -- sopht/ > "$OUT/patch.diff"
cp seeded_out/demo.py "$OUT/demo.py"; cp seeded_out/notes.md "$OUT/notes.md" 2>/dev/null
{
echo "== demo with change"; PYTHONPATH=$WT PYTHONDONTWRITEBYTECODE=1 timeout 1800 /venv/bin/python seeded_out/demo.py 2>&1 | grep -v conda.cli | tail -8; echo "exit=${PIPESTATUS[0]}"
echo "== pinned tests with change"; /tmp/sopht_env/run_pinned_tests.sh "$WT" 2>&1 | grep -v conda.cli | tail -5
# (not `git stash`: refs/stash is shared by all worktrees of one repository)
git checkout -q -- sopht/
echo "== demo on clean tree"; PYTHONPATH=$WT PYTHONDONTWRITEBYTECODE=1 timeout 1800 /venv/bin/python seeded_out/demo.py 2>&1 | grep -v conda.cli | tail -4; echo "exit=${PIPESTATUS[0]}"
git apply "$OUT/patch.diff"
} > "$OUT/confirm.txt" 2>&1
echo "confirmed $ID"
