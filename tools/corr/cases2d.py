"""2D cases for the program correspondence: every public 2D generator × option, the 2D Poisson glue
and the 2D Navier–Stokes step (split at the two FFT plan calls)."""
from __future__ import annotations

import itertools

import numpy as np

import impl
import ref as R
from impl import spne
from corr import harness


def _shape(r, lo=5, hi=9):
    ny, nx = int(r.integers(lo, hi)), int(r.integers(lo, hi))
    if ny == nx:
        nx += 1
    return ny, nx


def _with_inner(old, val, g):
    out = np.array(old, copy=True)
    out[R.inner(out, g)] = val
    return out


def _ref_outplane(b, p, reset):
    out = np.array(b["curl"], copy=True)
    if reset:
        out[:, R.ring_mask(out.shape[1:], 1)] = 0
    out[(slice(None),) + R.inner(b["field"], 1)] = p * R.curl2_out(b["field"])
    return out


def _ref_advflux(b, p):
    out = np.array(b["advection_flux"], copy=True)
    out[2:-2, 2:-2] += p * R.eno3_divergence(b["field"], b["velocity"])
    return out


def wrapper_cases(seed, tier, real_t=np.float64):
    cases = []
    nrep = 1 if tier == "quick" else 3
    for rep in range(nrep):
        r = impl.rng(seed, "w2d", rep)

        def A(*shape):
            if r.random() < 0.6:
                return harness.padded(r, shape, real_t)
            return r.normal(size=shape).astype(real_t)

        def add(prog, args, bufs, run, label, numpy_regions=None, ref=None):
            cases.append({"prog": prog, "args": args, "bufs": bufs, "run": run, "label": label, "real_t": real_t,
                          "pads": harness.take_pads(), "numpy_regions": numpy_regions, "ref": ref})

        ny, nx = _shape(r)
        sz = {"ny": ny, "nx": nx}
        # set_fixed_val scalar / vector
        f = A(ny, nx); v = float(r.normal())
        k = spne.gen_set_fixed_val_pyst_kernel_2d(real_t=real_t)
        add("set_fixed_val_2d", {**sz, "fixed_val": real_t(v)}, {"field": f}, lambda k=k, f=f, v=v: k(field=f, fixed_val=v), "set_fixed_val_2d",
            ref=lambda b, v=v: {"field": np.full_like(b["field"], v)})
        vf = A(2, ny, nx); vv = [float(x) for x in r.normal(size=2)]
        k = spne.gen_set_fixed_val_pyst_kernel_2d(real_t=real_t, field_type="vector")
        add("set_fixed_val_vec_2d", {**sz, "vx": real_t(vv[0]), "vy": real_t(vv[1])}, {"vector_field": vf},
            lambda k=k, vf=vf, vv=vv: k(vector_field=vf, fixed_vals=vv), "set_fixed_val_2d[vector]",
            ref=lambda b, vv=vv: {"vector_field": np.zeros_like(b["vector_field"]) + np.array(vv).reshape(2, 1, 1)})
        # boundaries, widths incl. wider than half the grid
        for w in ([1, 3] if tier == "quick" else [1, 2, 3, 4, 6]):
            f = A(ny, nx); v = float(r.normal())
            k = spne.gen_set_fixed_val_at_boundaries_pyst_kernel_2d(real_t=real_t, width=w)
            add("set_boundary_2d", {**sz, "width": w, "fixed_val": real_t(v)}, {"field": f},
                lambda k=k, f=f, v=v: k(field=f, fixed_val=v), f"set_fixed_val_at_boundaries_2d[w={w}]",
            ref=lambda b, w=w, v=v: {"field": np.where(R.ring_mask(b["field"].shape, w), v, b["field"])})
            vf = A(2, ny, nx); vv = [float(x) for x in r.normal(size=2)]
            k = spne.gen_set_fixed_val_at_boundaries_pyst_kernel_2d(real_t=real_t, width=w, field_type="vector")
            add("set_boundary_vec_2d", {**sz, "width": w, "vx": real_t(vv[0]), "vy": real_t(vv[1])}, {"vector_field": vf},
                lambda k=k, vf=vf, vv=vv: k(vector_field=vf, fixed_vals=vv), f"set_fixed_val_at_boundaries_2d[vector,w={w}]",
                ref=lambda b, w=w, vv=vv: {"vector_field": np.where(R.ring_mask(b["vector_field"].shape[1:], w)[None], np.array(vv).reshape(2, 1, 1), b["vector_field"])})
        # elementwise
        a, b, o = A(ny, nx), A(ny, nx), A(ny, nx)
        k = spne.gen_elementwise_sum_pyst_kernel_2d(real_t=real_t)
        add("elementwise_sum_2d", sz, {"sum_field": o, "field_1": a, "field_2": b},
            lambda k=k, a=a, b=b, o=o: k(sum_field=o, field_1=a, field_2=b), "elementwise_sum_2d",
            ref=lambda b: {"sum_field": b["field_1"] + b["field_2"]})
        a, b = A(ny, nx), A(ny, nx)
        add("elementwise_sum_2d", {**sz, "out": "field_1"}, {"field_1": a, "field_2": b},
            lambda k=k, a=a, b=b: k(sum_field=a, field_1=a, field_2=b), "elementwise_sum_2d[in place]",
            ref=lambda b: {"field_1": b["field_1"] + b["field_2"]})
        a, o = A(ny, nx), A(ny, nx)
        k = spne.gen_elementwise_copy_pyst_kernel_2d(real_t=real_t)
        add("elementwise_copy_2d", sz, {"field": o, "rhs_field": a}, lambda k=k, a=a, o=o: k(field=o, rhs_field=a), "elementwise_copy_2d",
            ref=lambda b: {"field": b["rhs_field"].copy()})
        a, b, o = A(ny, nx), A(ny, nx), A(ny, nx); pa, pb = (float(x) for x in r.normal(size=2))
        k = spne.gen_elementwise_saxpby_pyst_kernel_2d(real_t=real_t)
        add("elementwise_saxpby_2d", {**sz, "pa": real_t(pa), "pb": real_t(pb)}, {"sum_field": o, "field_1": a, "field_2": b},
            lambda k=k, a=a, b=b, o=o, pa=pa, pb=pb: k(sum_field=o, field_1=a, field_2=b, field_1_prefac=pa, field_2_prefac=pb),
            "elementwise_saxpby_2d",
            ref=lambda b, pa=pa, pb=pb: {"sum_field": pa * b["field_1"] + pb * b["field_2"]})
        a, o = A(ny, nx), A(ny, nx); v = float(r.normal())
        k = spne.gen_add_fixed_val_pyst_kernel_2d(real_t=real_t)
        add("add_fixed_val_2d", {**sz, "fixed_val": real_t(v)}, {"sum_field": o, "field": a},
            lambda k=k, a=a, o=o, v=v: k(sum_field=o, field=a, fixed_val=v), "add_fixed_val_2d",
            ref=lambda b, v=v: {"sum_field": b["field"] + v})
        va, vo = A(2, ny, nx), A(2, ny, nx); vv = [float(x) for x in r.normal(size=2)]
        k = spne.gen_add_fixed_val_pyst_kernel_2d(real_t=real_t, field_type="vector")
        add("add_fixed_val_vec_2d", {**sz, "vx": real_t(vv[0]), "vy": real_t(vv[1])}, {"sum_field": vo, "vector_field": va},
            lambda k=k, va=va, vo=vo, vv=vv: k(sum_field=vo, vector_field=va, fixed_vals=vv), "add_fixed_val_2d[vector]",
            ref=lambda b, vv=vv: {"sum_field": b["vector_field"] + np.array(vv).reshape(2, 1, 1)})
        # differential wrappers
        for reset in (True, False):
            a, o = A(ny, nx), A(ny, nx); p = float(r.uniform(0.1, 2))
            k = spne.gen_diffusion_flux_pyst_kernel_2d(real_t=real_t, reset_ghost_zone=reset)
            add("diffusion_flux_2d", {**sz, "reset": reset, "prefactor": real_t(p)}, {"diffusion_flux": o, "field": a},
                lambda k=k, a=a, o=o, p=p: k(diffusion_flux=o, field=a, prefactor=p), f"diffusion_flux_2d[reset={reset}]",
            ref=lambda b, p=p, reset=reset: {"diffusion_flux": R.laplacian_flux(b["field"], p, b["diffusion_flux"], reset)})
            a, vo = A(ny, nx), A(2, ny, nx); p = float(r.uniform(0.1, 2))
            k = spne.gen_outplane_field_curl_pyst_kernel_2d(real_t=real_t, reset_ghost_zone=reset)
            add("outplane_curl_2d", {**sz, "reset": reset, "prefactor": real_t(p)}, {"curl": vo, "field": a},
                lambda k=k, a=a, vo=vo, p=p: k(curl=vo, field=a, prefactor=p), f"outplane_field_curl_2d[reset={reset}]",
            ref=lambda b, p=p, reset=reset: {"curl": _ref_outplane(b, p, reset)})
        a, o, vel = A(ny, nx), A(ny, nx), A(2, ny, nx); p = float(r.uniform(0.1, 2))
        if rep % 2 == 1:
            vel = (np.sign(vel) * r.integers(0, 3, size=vel.shape)).astype(real_t)
        k = spne.gen_advection_flux_conservative_eno3_pyst_kernel_2d(real_t=real_t)
        add("advection_flux_2d", {**sz, "inv_dx": real_t(p)}, {"advection_flux": o, "field": a, "velocity": vel},
            lambda k=k, a=a, o=o, vel=vel, p=p: k(advection_flux=o, field=a, velocity=vel, inv_dx=p), "advection_flux_eno3_2d",
            ref=lambda b, p=p: {"advection_flux": _ref_advflux(b, p)})
        va, o = A(2, ny, nx), A(ny, nx); p = float(r.uniform(0.1, 2))
        k = spne.gen_inplane_field_curl_pyst_kernel_2d(real_t=real_t)
        add("inplane_curl_2d", {**sz, "prefactor": real_t(p)}, {"curl": o, "field": va},
            lambda k=k, va=va, o=o, p=p: k(curl=o, field=va, prefactor=p), "inplane_field_curl_2d",
            ref=lambda b, p=p: {"curl": _with_inner(b["curl"], p * R.curl2_in(b["field"]), 1)})
        w, vf = A(ny, nx), A(2, ny, nx); p = float(r.uniform(0.1, 2))
        k = spne.gen_update_vorticity_from_velocity_forcing_pyst_kernel_2d(real_t=real_t)
        add("update_vorticity_from_forcing_2d", {**sz, "prefactor": real_t(p)}, {"vorticity_field": w, "velocity_forcing_field": vf},
            lambda k=k, w=w, vf=vf, p=p: k(vorticity_field=w, velocity_forcing_field=vf, prefactor=p), "update_vorticity_from_velocity_forcing_2d",
            ref=lambda b, p=p: {"vorticity_field": _with_inner(b["vorticity_field"], b["vorticity_field"][1:-1, 1:-1] + p * R.curl2_in(b["velocity_forcing_field"]), 1)})
        w, vp, vu = A(ny, nx), A(2, ny, nx), A(2, ny, nx); p = float(r.uniform(0.1, 2))
        k = spne.gen_update_vorticity_from_penalised_velocity_pyst_kernel_2d(real_t=real_t)
        add("update_vorticity_from_penalised_2d", {**sz, "prefactor": real_t(p)},
            {"vorticity_field": w, "penalised_velocity_field": vp, "velocity_field": vu},
            lambda k=k, w=w, vp=vp, vu=vu, p=p: k(vorticity_field=w, penalised_velocity_field=vp, velocity_field=vu, prefactor=p),
            "update_vorticity_from_penalised_velocity_2d",
            ref=lambda b, p=p: {"vorticity_field": _with_inner(b["vorticity_field"], b["vorticity_field"][1:-1, 1:-1] + p * R.curl2_in(b["penalised_velocity_field"] - b["velocity_field"]), 1)})
        # brinkmann
        o, f, pen = A(ny, nx), A(ny, nx), A(ny, nx); chi = r.uniform(0, 1, size=(ny, nx)).astype(real_t); lam = float(r.uniform(0, 50))
        k = spne.gen_brinkmann_penalise_pyst_kernel_2d(real_t=real_t)
        add("brinkmann_2d", {**sz, "penalty_factor": real_t(lam)}, {"penalised_field": o, "field": f, "penalty_field": pen, "char_field": chi},
            lambda k=k, o=o, f=f, pen=pen, chi=chi, lam=lam: k(penalised_field=o, penalty_factor=lam, char_field=chi, penalty_field=pen, field=f),
            "brinkmann_penalise_2d",
            ref=lambda b, lam=lam: {"penalised_field": (b["field"] + lam * b["char_field"] * b["penalty_field"]) / (1 + lam * b["char_field"])})
        vo, vf, vpen = A(2, ny, nx), A(2, ny, nx), A(2, ny, nx)
        k = spne.gen_brinkmann_penalise_pyst_kernel_2d(real_t=real_t, field_type="vector")
        add("brinkmann_vec_2d", {**sz, "penalty_factor": real_t(lam)},
            {"penalised_vector_field": vo, "vector_field": vf, "penalty_vector_field": vpen, "char_field": chi},
            lambda k=k, vo=vo, vf=vf, vpen=vpen, chi=chi, lam=lam: k(penalised_vector_field=vo, penalty_factor=lam, char_field=chi,
                                                                   penalty_vector_field=vpen, vector_field=vf),
            "brinkmann_penalise_2d[vector]",
            ref=lambda b, lam=lam: {"penalised_vector_field": (b["vector_field"] + lam * b["char_field"] * b["penalty_vector_field"]) / (1 + lam * b["char_field"])})
        o, f = A(ny, nx), A(ny, nx); pv = float(r.normal())
        k = spne.gen_brinkmann_penalise_vs_fixed_val_pyst_kernel_2d(real_t=real_t)
        add("brinkmann_fixed_2d", {**sz, "penalty_factor": real_t(lam), "penalty_val": real_t(pv)},
            {"penalised_field": o, "field": f, "char_field": chi},
            lambda k=k, o=o, f=f, chi=chi, lam=lam, pv=pv: k(penalised_field=o, penalty_factor=lam, char_field=chi, penalty_val=pv, field=f),
            "brinkmann_penalise_vs_fixed_val_2d",
            ref=lambda b, lam=lam, pv=pv: {"penalised_field": (b["field"] + lam * b["char_field"] * pv) / (1 + lam * b["char_field"])})
        vo, vf = A(2, ny, nx), A(2, ny, nx); pvv = [float(x) for x in r.normal(size=2)]
        k = spne.gen_brinkmann_penalise_vs_fixed_val_pyst_kernel_2d(real_t=real_t, field_type="vector")
        add("brinkmann_fixed_vec_2d", {**sz, "penalty_factor": real_t(lam), "vx": real_t(pvv[0]), "vy": real_t(pvv[1])},
            {"penalised_vector_field": vo, "vector_field": vf, "char_field": chi},
            lambda k=k, vo=vo, vf=vf, chi=chi, lam=lam, pvv=pvv: k(penalised_vector_field=vo, penalty_factor=lam, char_field=chi,
                                                                 penalty_val=pvv, vector_field=vf),
            "brinkmann_penalise_vs_fixed_val_2d[vector]",
            ref=lambda b, lam=lam, pvv=pvv: {"penalised_vector_field": (b["vector_field"] + lam * b["char_field"] * np.array(pvv).reshape(2, 1, 1)) / (1 + lam * b["char_field"])})
        # characteristic function (level-set values incl. exactly ±blend width)
        eps = float(r.uniform(0.05, 0.5))
        phi = (r.uniform(-3 * eps, 3 * eps, size=(ny, nx))).astype(real_t)
        phi[0, 0], phi[0, 1], phi[1, 0] = real_t(eps), real_t(-eps), 0.0
        o = A(ny, nx)
        k = spne.gen_char_func_from_level_set_via_sine_heaviside_pyst_kernel_2d(blend_width=eps, real_t=real_t)
        add("char_func_2d", {**sz, "blend_width": eps}, {"char_func_field": o, "level_set_field": phi},
            lambda k=k, o=o, phi=phi: k(char_func_field=o, level_set_field=phi), "char_func_from_level_set_2d",
            ref=lambda b, eps=eps: {"char_func_field": R.heaviside(b["level_set_field"].astype(np.float64), eps)})
        # time-step kernels
        f, fl = A(ny, nx), A(ny, nx); p = float(r.uniform(0.01, 0.3))
        k = spne.gen_diffusion_timestep_euler_forward_pyst_kernel_2d(real_t=real_t)
        add("diffusion_timestep_2d", {**sz, "nu_dt_by_dx2": real_t(p)}, {"field": f, "diffusion_flux": fl},
            lambda k=k, f=f, fl=fl, p=p: k(field=f, diffusion_flux=fl, nu_dt_by_dx2=p), "diffusion_timestep_euler_forward_2d",
            ref=lambda b, p=p: {"field": b["field"] + R.laplacian_flux(b["field"], p, np.zeros_like(b["field"]), True)})
        f, fl, vel = A(ny, nx), A(ny, nx), A(2, ny, nx); p = float(r.uniform(0.01, 0.3))
        k = spne.gen_advection_timestep_euler_forward_conservative_eno3_pyst_kernel_2d(real_t=real_t)
        add("advection_timestep_2d", {**sz, "dt_by_dx": real_t(p)}, {"field": f, "advection_flux": fl, "velocity": vel},
            lambda k=k, f=f, fl=fl, vel=vel, p=p: k(field=f, advection_flux=fl, velocity=vel, dt_by_dx=p),
            "advection_timestep_euler_forward_eno3_2d",
            ref=lambda b, p=p: {"field": _with_inner(b["field"], b["field"][2:-2, 2:-2] - p * R.eno3_divergence(b["field"], b["velocity"]), 2)})
        # boundary-zone damping
        # (width, shape): ordinary grids, and grids narrower than two zone widths along one or both axes (front and back zones overlap)
        damp_cases = [(w, None) for w in ([0, 1, 2] if tier == "quick" else [0, 1, 2, 3, 4, 5, 6])]
        damp_cases += [(3, (4, 9)), (3, (9, 5))] if tier == "quick" else [(3, (4, 9)), (3, (9, 5)), (4, (6, 16)), (4, (12, 4)), (5, (7, 7)), (2, (3, 10))]
        for w, shp in damp_cases:
            ny2, nx2 = shp if shp is not None else _shape(r, 2 * max(w, 2) + 1, 2 * max(w, 2) + 5)
            dx = real_t(1.0 / nx2)
            x = ((np.arange(nx2) + 0.5) * dx).astype(real_t)
            y = ((np.arange(ny2) + 0.5) * dx).astype(real_t)
            yg, xg = np.meshgrid(y, x, indexing="ij")
            xg = np.ascontiguousarray(xg); yg = np.ascontiguousarray(yg)
            f = A(ny2, nx2)
            k = spne.gen_penalise_field_boundary_pyst_kernel_2d(width=w, dx=dx, x_grid_field=xg, y_grid_field=yg, real_t=real_t)
            add("penalise_boundary_2d", {"ny": ny2, "nx": nx2, "width": w, "dx": dx, "x0": xg[0, 0], "x1": xg[0, -1], "y0": yg[0, 0], "y1": yg[-1, 0]},
                {"field": f, "x_grid_field": xg, "y_grid_field": yg}, lambda k=k, f=f: k(field=f), f"penalise_field_boundary_2d[w={w}]", ref=lambda b, w=w: {"field": R.damp(b["field"].astype(np.float64), w, 2)},
                numpy_regions={"field": [(slice(None), slice(0, w)), (slice(None), slice(nx2 - w, nx2)),
                                         (slice(0, w), slice(None)), (slice(ny2 - w, ny2), slice(None))] if w else []})
    return cases


def run_wrappers(seed=0, tier="quick"):
    out = None
    for real_t in ([np.float64] if tier == "quick" else [np.float64, np.float32]):
        cases = wrapper_cases(seed, tier, real_t)
        res = harness.run_cases("Prog2D", cases, 2, real_t)
        res["name"] = "2D wrappers vs Model/Prog2D"
        if out is None:
            out = res
        else:
            out["cases"] += res["cases"]; out["kernel_calls"] += res["kernel_calls"]
            out["worst_rel_err"] = max(out["worst_rel_err"], res["worst_rel_err"])
        if not res["ok"]:
            res["cases"] = out["cases"]
            return res
    out.pop("overlaps", None)
    return out


# --------------------------------------------------------------------------- 2D Navier–Stokes step


def _snap(flat):
    return {n: np.array(a, copy=True) for n, a in flat.items()}


def step_configs(tier):
    widths = [0, 1, 2] if tier == "quick" else [0, 1, 2, 3, 4]
    cfgs = list(itertools.product([False, True], [False, True], widths))
    if tier == "quick":
        cfgs = [c for i, c in enumerate(cfgs) if i % 2 == 0 or c[0]]
    return cfgs


def run_step(seed=0, tier="quick"):
    import shim
    import sopht.simulator as sps

    res = {"ok": True, "cases": 0, "samples": [], "worst_rel_err": 0.0, "kernel_calls": 0,
           "name": "2D Navier-Stokes step vs Model/Prog2D (split at rfft/irfft)", "configs": []}
    precisions = [np.float64, np.float32]
    for real_t in precisions:
        requests, expect, traces, labels = [], [], [], []
        cfgs = list(enumerate(step_configs(tier)))
        if tier == "quick" and real_t == np.float32:
            cfgs = [c for c in cfgs if c[1][0]][1:4]     # single precision in the quick tier: three configurations with forcing
        for ci, (forcing, fs, w) in cfgs:
            r = impl.rng(seed, "step2d", ci)
            lo = max(2 * w + 1, 6)
            ny, nx = int(r.integers(lo, lo + 4)), int(r.integers(lo, lo + 4))
            if nx % 2 == ci % 2:
                nx += 1                 # odd and even cell counts along x alternate (prefactors formed from integer cell counts)
            if ny == nx:
                ny += 1
            sim = sps.UnboundedNavierStokesFlowSimulator2D(
                grid_size=(ny, nx), x_range=float(r.uniform(0.5, 2.0)), kinematic_viscosity=float(r.uniform(1e-3, 1e-1)),
                real_t=real_t, with_forcing=forcing, with_free_stream_flow=fs, flow_density=float(r.uniform(0.5, 2.0)),
                penalty_zone_width=w, time=float(r.uniform(0, 1)))
            sim.vorticity_field[...] = r.normal(size=(ny, nx))
            sim.velocity_field[...] = r.normal(size=(2, ny, nx))
            sim.buffer_scalar_field[...] = r.normal(size=(ny, nx))
            sim.stream_func_field[...] = r.normal(size=(ny, nx))
            if forcing:
                sim.eul_grid_forcing_field[...] = r.normal(size=(2, ny, nx))
                force = sim.eul_grid_forcing_field
            else:
                force = np.zeros((2, ny, nx), dtype=real_t)
            ps = sim._unbounded_poisson_solver
            ps.domain_doubled_buffer[...] = r.normal(size=ps.domain_doubled_buffer.shape)
            ps.convolution_buffer[...] = r.normal(size=ps.convolution_buffer.shape)
            bufs = {"vorticity": sim.vorticity_field, "velocity": sim.velocity_field, "buffer_scalar": sim.buffer_scalar_field,
                    "stream_func": sim.stream_func_field, "forcing": force, "position": sim.position_field,
                    "ps.dbl": ps.domain_doubled_buffer, "ps.f": ps.domain_doubled_fourier_buffer,
                    "ps.g": ps.fourier_greens_function_times_dx_squared, "ps.c": ps.convolution_buffer}
            flat = harness.expand_bufs(bufs, 2)
            snaps = {}
            orig_rfft, orig_irfft = ps.rfft, ps.irfft

            def rfft(*a, _o=orig_rfft, **kw):
                snaps["pre_rfft"] = _snap(flat)
                out = _o(*a, **kw)
                snaps["post_rfft"] = _snap(flat)
                return out

            def irfft(*a, _o=orig_irfft, **kw):
                snaps["pre_irfft"] = _snap(flat)
                out = _o(*a, **kw)
                snaps["post_irfft"] = _snap(flat)
                return out

            ps.rfft, ps.irfft = rfft, irfft
            s0 = _snap(flat)
            dt = float(r.uniform(1e-3, 1e-2))
            U = r.normal(size=2)
            t0 = sim.time
            tr = harness.Tracer(flat, 2)
            shim.TRACERS.append(tr)
            try:
                if fs:
                    sim.time_step(dt=dt, free_stream_velocity=U)
                else:
                    sim.time_step(dt=dt)
            finally:
                shim.TRACERS.remove(tr)
            s5 = _snap(flat)
            for ov in tr.overlaps:
                if not (ov["identical"] and ov["other_read_at_centre_only"]):
                    res.update(ok=False, detail=f"call site passes overlapping memory unsafely: {ov}",
                               failing_input={"oracle": "callsite_alias", **ov})
                    return res
            res["aliasing_calls"] = res.get("aliasing_calls", 0) + len(tr.overlaps)
            label = f"ns2d[{real_t.__name__},forcing={forcing},free_stream={fs},w={w},{ny}x{nx}]"
            if sim.time != t0 + dt:
                res.update(ok=False, detail=f"{label}: simulator time {sim.time!r} != {t0!r} + {dt!r}",
                           failing_input={"oracle": "clock", "config": label, "t0": t0, "dt": dt, "time": sim.time})
                return res
            if forcing and np.any(sim.eul_grid_forcing_field != 0):
                res.update(ok=False, detail=f"{label}: forcing field not zero on return",
                           failing_input={"oracle": "forcing_reset", "config": label})
                return res
            xg, yg = sim.position_field[0], sim.position_field[1]
            args = {"forcing": forcing, "free_stream": fs, "width": w, "ny": ny, "nx": nx, "dt": dt, "dx": sim.dx,
                    "nu": sim.kinematic_viscosity, "rho": sim.flow_density,
                    "ux": real_t(U[0]) if fs else 0, "uy": real_t(U[1]) if fs else 0,
                    "x0": xg[0, 0], "x1": xg[0, -1], "y0": yg[0, 0], "y1": yg[-1, 0]}
            requests += [("ns_step_2d_pre", args, s0, False), ("poisson_mid_2d", args, snaps["post_rfft"], False),
                         ("ns_step_2d_post", args, snaps["post_irfft"], False)]
            expect += [snaps["pre_rfft"], snaps["pre_irfft"], s5]
            traces.append(tr.lines)
            labels.append(label)
            res["configs"].append(label)
        results = harness.run_driver("Prog2D", requests)
        for i, label in enumerate(labels):
            mcalls = results[3 * i][0] + results[3 * i + 1][0] + results[3 * i + 2][0]
            d = harness.compare_trace(traces[i], mcalls, real_t)
            if d is None:
                for j, phase in enumerate(("pre", "mid", "post")):
                    d, worst = harness.compare_bufs(expect[3 * i + j], results[3 * i + j][1], real_t, nops=400)
                    res["worst_rel_err"] = max(res["worst_rel_err"], worst)
                    if d is not None:
                        d = f"phase {phase}: {d}"
                        break
            res["cases"] += 1
            res["kernel_calls"] += len(traces[i])
            if d is not None:
                res.update(ok=False, detail=f"{label}: {d}", failing_case={"label": label})
                return res
            if len(res["samples"]) < 2:
                res["samples"].append({"case": label, "kernel_calls": len(traces[i]),
                                       "trace": [f"{l['kid']} {l['region']} {dict(l['binds'])}" for l in traces[i]][:40]})
    return res
