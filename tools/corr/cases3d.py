"""3D cases for the program correspondence: every public 3D generator × option, the 3D Navier–Stokes step
(all filter / solver / forcing / free-stream / width options) and the passive-transport steps."""
from __future__ import annotations

import itertools

import numpy as np

import impl
import ref as R
from impl import spne
from corr import harness


def _shape(r, lo=5, hi=8):
    s = [int(v) for v in r.integers(lo, hi, size=3)]
    if len(set(s)) < 3:
        s = [s[0], s[0] + 1, s[0] + 2]
    return tuple(s)


def _with_inner(old, val, g, dim=3):
    out = np.array(old, copy=True)
    out[R.inner(out, g, dim)] = val
    return out


def _vec(v):
    return np.array(v).reshape(3, 1, 1, 1)


def _stretch(w, u, p):
    """documented vortex-stretching flux p * (omega . grad_h) u (centred differences, no 1/2h) on the interior, zero elsewhere"""
    w = np.asarray(w, dtype=np.float64); u = np.asarray(u, dtype=np.float64)
    out = np.zeros_like(w)
    I = R.inner(w[0], 1)
    for k in range(3):
        out[k][I] = p * sum(w[j][I] * R.dc(u[k], j) for j in range(3))
    return out


def wrapper_cases(seed, tier, real_t=np.float64):
    cases = []
    nrep = 1 if tier == "quick" else 2
    for rep in range(nrep):
        r = impl.rng(seed, "w3d", rep)

        def A(*shape):
            if r.random() < 0.5:
                return harness.padded(r, shape, real_t)
            return r.normal(size=shape).astype(real_t)

        def add(prog, args, bufs, run, label, numpy_regions=None, ref=None):
            cases.append({"prog": prog, "args": args, "bufs": bufs, "run": run, "label": label, "real_t": real_t,
                          "pads": harness.take_pads(), "numpy_regions": numpy_regions, "ref": ref})

        nz, ny, nx = _shape(r)
        S = (nz, ny, nx)
        sz = {"nz": nz, "ny": ny, "nx": nx}
        f = A(*S); v = float(r.normal())
        k = spne.gen_set_fixed_val_pyst_kernel_3d(real_t=real_t)
        add("set_fixed_val_3d", {**sz, "fixed_val": real_t(v)}, {"field": f}, lambda k=k, f=f, v=v: k(field=f, fixed_val=v), "set_fixed_val_3d",
            ref=lambda b, v=v: {"field": np.full_like(b["field"], v)})
        vf = A(3, *S); vv = [float(x) for x in r.normal(size=3)]
        k = spne.gen_set_fixed_val_pyst_kernel_3d(real_t=real_t, field_type="vector")
        add("set_fixed_val_vec_3d", {**sz, "vx": real_t(vv[0]), "vy": real_t(vv[1]), "vz": real_t(vv[2])}, {"vector_field": vf},
            lambda k=k, vf=vf, vv=vv: k(vector_field=vf, fixed_vals=vv), "set_fixed_val_3d[vector]",
            ref=lambda b, vv=vv: {"vector_field": np.zeros_like(b["vector_field"]) + _vec(vv)})
        for w in ([1, 3] if tier == "quick" else [1, 2, 4]):
            f = A(*S); v = float(r.normal())
            k = spne.gen_set_fixed_val_at_boundaries_pyst_kernel_3d(real_t=real_t, width=w)
            add("set_boundary_3d", {**sz, "width": w, "fixed_val": real_t(v)}, {"field": f}, lambda k=k, f=f, v=v: k(field=f, fixed_val=v),
                f"set_fixed_val_at_boundaries_3d[w={w}]", ref=lambda b, w=w, v=v: {"field": np.where(R.ring_mask(b["field"].shape, w), v, b["field"])})
            vf = A(3, *S); vv = [float(x) for x in r.normal(size=3)]
            k = spne.gen_set_fixed_val_at_boundaries_pyst_kernel_3d(real_t=real_t, width=w, field_type="vector")
            add("set_boundary_vec_3d", {**sz, "width": w, "vx": real_t(vv[0]), "vy": real_t(vv[1]), "vz": real_t(vv[2])}, {"vector_field": vf},
                lambda k=k, vf=vf, vv=vv: k(vector_field=vf, fixed_vals=vv), f"set_fixed_val_at_boundaries_3d[vector,w={w}]",
                ref=lambda b, w=w, vv=vv: {"vector_field": np.where(R.ring_mask(b["vector_field"].shape[1:], w)[None], _vec(vv), b["vector_field"])})
        a, b, o = A(*S), A(*S), A(*S)
        k = spne.gen_elementwise_sum_pyst_kernel_3d(real_t=real_t)
        add("elementwise_sum_3d", sz, {"sum_field": o, "field_1": a, "field_2": b}, lambda k=k, a=a, b=b, o=o: k(sum_field=o, field_1=a, field_2=b), "elementwise_sum_3d",
            ref=lambda b: {"sum_field": b["field_1"] + b["field_2"]})
        va, vb, vo = A(3, *S), A(3, *S), A(3, *S)
        k = spne.gen_elementwise_sum_pyst_kernel_3d(real_t=real_t, field_type="vector")
        add("elementwise_sum_vec_3d", sz, {"sum_field": vo, "field_1": va, "field_2": vb}, lambda k=k, va=va, vb=vb, vo=vo: k(sum_field=vo, field_1=va, field_2=vb),
            "elementwise_sum_3d[vector]", ref=lambda b: {"sum_field": b["field_1"] + b["field_2"]})
        a, o = A(*S), A(*S)
        k = spne.gen_elementwise_copy_pyst_kernel_3d(real_t=real_t)
        add("elementwise_copy_3d", sz, {"field": o, "rhs_field": a}, lambda k=k, a=a, o=o: k(field=o, rhs_field=a), "elementwise_copy_3d",
            ref=lambda b: {"field": b["rhs_field"].copy()})
        a, b, o = A(*S), A(*S), A(*S); pa, pb = (float(x) for x in r.normal(size=2))
        k = spne.gen_elementwise_saxpby_pyst_kernel_3d(real_t=real_t)
        add("elementwise_saxpby_3d", {**sz, "pa": real_t(pa), "pb": real_t(pb)}, {"sum_field": o, "field_1": a, "field_2": b},
            lambda k=k, a=a, b=b, o=o, pa=pa, pb=pb: k(sum_field=o, field_1=a, field_2=b, field_1_prefac=pa, field_2_prefac=pb), "elementwise_saxpby_3d",
            ref=lambda b, pa=pa, pb=pb: {"sum_field": pa * b["field_1"] + pb * b["field_2"]})
        va, vb, vo = A(3, *S), A(3, *S), A(3, *S)
        k = spne.gen_elementwise_saxpby_pyst_kernel_3d(real_t=real_t, field_type="vector")
        add("elementwise_saxpby_vec_3d", {**sz, "pa": real_t(pa), "pb": real_t(pb)}, {"sum_field": vo, "field_1": va, "field_2": vb},
            lambda k=k, va=va, vb=vb, vo=vo, pa=pa, pb=pb: k(sum_field=vo, field_1=va, field_2=vb, field_1_prefac=pa, field_2_prefac=pb),
            "elementwise_saxpby_3d[vector]", ref=lambda b, pa=pa, pb=pb: {"sum_field": pa * b["field_1"] + pb * b["field_2"]})
        va, vo = A(3, *S), A(3, *S); vv = [float(x) for x in r.normal(size=3)]
        k = spne.gen_add_fixed_val_pyst_kernel_3d(real_t=real_t, field_type="vector")
        add("add_fixed_val_vec_3d", {**sz, "vx": real_t(vv[0]), "vy": real_t(vv[1]), "vz": real_t(vv[2])}, {"sum_field": vo, "vector_field": va},
            lambda k=k, va=va, vo=vo, vv=vv: k(sum_field=vo, vector_field=va, fixed_vals=vv), "add_fixed_val_3d[vector]",
            ref=lambda b, vv=vv: {"sum_field": b["vector_field"] + _vec(vv)})
        va, vb, vo = A(3, *S), A(3, *S), A(3, *S)
        k = spne.gen_elementwise_cross_product_pyst_kernel_3d(real_t=real_t)
        add("cross_product_3d", sz, {"result_field": vo, "field_1": va, "field_2": vb}, lambda k=k, va=va, vb=vb, vo=vo: k(result_field=vo, field_1=va, field_2=vb),
            "elementwise_cross_product_3d", ref=lambda b: {"result_field": np.cross(b["field_1"], b["field_2"], axis=0)})
        for reset in (True, False):
            a, o = A(*S), A(*S); p = float(r.uniform(0.1, 2))
            k = spne.gen_diffusion_flux_pyst_kernel_3d(real_t=real_t, reset_ghost_zone=reset)
            add("diffusion_flux_3d", {**sz, "reset": reset, "prefactor": real_t(p)}, {"diffusion_flux": o, "field": a},
                lambda k=k, a=a, o=o, p=p: k(diffusion_flux=o, field=a, prefactor=p), f"diffusion_flux_3d[reset={reset}]",
                ref=lambda b, p=p, reset=reset: {"diffusion_flux": R.laplacian_flux(b["field"], p, b["diffusion_flux"], reset)})
            va, vo = A(3, *S), A(3, *S)
            k = spne.gen_diffusion_flux_pyst_kernel_3d(real_t=real_t, reset_ghost_zone=reset, field_type="vector")
            add("diffusion_flux_vec_3d", {**sz, "reset": reset, "prefactor": real_t(p)}, {"vector_field_diffusion_flux": vo, "vector_field": va},
                lambda k=k, va=va, vo=vo, p=p: k(vector_field_diffusion_flux=vo, vector_field=va, prefactor=p), f"diffusion_flux_3d[vector,reset={reset}]",
                ref=lambda b, p=p, reset=reset: {"vector_field_diffusion_flux": np.array([
                    R.laplacian_flux(b["vector_field"][c_], p, b["vector_field_diffusion_flux"][c_], reset) for c_ in range(3)])})
            va, vo = A(3, *S), A(3, *S); p = float(r.uniform(0.1, 2))
            k = spne.gen_curl_pyst_kernel_3d(real_t=real_t, reset_ghost_zone=reset)

            def ref_curl(b, p=p, reset=reset):
                out = np.array(b["curl"], copy=True)
                if reset:
                    out[:, R.ring_mask(out.shape[1:], 1)] = 0
                out[R.inner(out, 1, 3)] = p * R.curl3(b["field"])
                return {"curl": out}
            add("curl_3d", {**sz, "reset": reset, "prefactor": real_t(p)}, {"curl": vo, "field": va},
                lambda k=k, va=va, vo=vo, p=p: k(curl=vo, field=va, prefactor=p), f"curl_3d[reset={reset}]", ref=ref_curl)
            va, o = A(3, *S), A(*S)
            k = spne.gen_divergence_pyst_kernel_3d(real_t=real_t, reset_ghost_zone=reset)

            def ref_div(b, p=p, reset=reset):
                out = np.array(b["divergence"], copy=True)
                if reset:
                    out[R.ring_mask(out.shape, 1)] = 0
                out[R.inner(out, 1)] = 0.5 * p * R.div3(b["field"])
                return {"divergence": out}
            add("divergence_3d", {**sz, "reset": reset, "inv_dx": real_t(p)}, {"divergence": o, "field": va},
                lambda k=k, va=va, o=o, p=p: k(divergence=o, field=va, inv_dx=p), f"divergence_3d[reset={reset}]", ref=ref_div)
        a, o, vel = A(*S), A(*S), A(3, *S); p = float(r.uniform(0.1, 2))
        if rep % 2 == 1:
            vel[...] = (np.sign(vel) * r.integers(0, 3, size=vel.shape)).astype(real_t)
        k = spne.gen_advection_flux_conservative_eno3_pyst_kernel_3d(real_t=real_t)

        def ref_adv(b, p=p):
            out = np.array(b["advection_flux"], copy=True)
            out[R.inner(out, 2)] += p * R.eno3_divergence(b["field"], b["velocity"])
            return {"advection_flux": out}
        add("advection_flux_3d", {**sz, "inv_dx": real_t(p)}, {"advection_flux": o, "field": a, "velocity": vel},
            lambda k=k, a=a, o=o, vel=vel, p=p: k(advection_flux=o, field=a, velocity=vel, inv_dx=p), "advection_flux_eno3_3d", ref=ref_adv)
        w, vf = A(3, *S), A(3, *S); p = float(r.uniform(0.1, 2))
        k = spne.gen_update_vorticity_from_velocity_forcing_pyst_kernel_3d(real_t=real_t)
        add("update_vorticity_from_forcing_3d", {**sz, "prefactor": real_t(p)}, {"vorticity_field": w, "velocity_forcing_field": vf},
            lambda k=k, w=w, vf=vf, p=p: k(vorticity_field=w, velocity_forcing_field=vf, prefactor=p), "update_vorticity_from_velocity_forcing_3d",
            ref=lambda b, p=p: {"vorticity_field": _with_inner(b["vorticity_field"], b["vorticity_field"][R.inner(b["vorticity_field"], 1, 3)] + p * R.curl3(b["velocity_forcing_field"]), 1)})
        w, vp, vu = A(3, *S), A(3, *S), A(3, *S)
        k = spne.gen_update_vorticity_from_penalised_velocity_pyst_kernel_3d(real_t=real_t)
        add("update_vorticity_from_penalised_3d", {**sz, "prefactor": real_t(p)}, {"vorticity_field": w, "penalised_velocity_field": vp, "velocity_field": vu},
            lambda k=k, w=w, vp=vp, vu=vu, p=p: k(vorticity_field=w, penalised_velocity_field=vp, velocity_field=vu, prefactor=p),
            "update_vorticity_from_penalised_velocity_3d",
            ref=lambda b, p=p: {"vorticity_field": _with_inner(b["vorticity_field"], b["vorticity_field"][R.inner(b["vorticity_field"], 1, 3)] + p * R.curl3(b["penalised_velocity_field"] - b["velocity_field"]), 1)})
        fl, w, vu = A(3, *S), A(3, *S), A(3, *S)
        k = spne.gen_vorticity_stretching_flux_pyst_kernel_3d(real_t=real_t)

        def ref_str(b, p=p):
            out = np.zeros_like(b["vorticity_stretching_flux_field"], dtype=np.float64)
            om, u = b["vorticity_field"], b["velocity_field"]
            I = R.inner(om[0], 1)
            for c in range(3):
                out[c][I] = p * sum(om[a_][I] * R.dc(u[c], a_) for a_ in range(3))
            return {"vorticity_stretching_flux_field": out}
        add("stretching_flux_3d", {**sz, "prefactor": real_t(p)}, {"vorticity_stretching_flux_field": fl, "vorticity_field": w, "velocity_field": vu},
            lambda k=k, fl=fl, w=w, vu=vu, p=p: k(vorticity_stretching_flux_field=fl, vorticity_field=w, velocity_field=vu, prefactor=p),
            "vorticity_stretching_flux_3d", ref=ref_str)
        vo, vf, vpen = A(3, *S), A(3, *S), A(3, *S); chi = r.uniform(0, 1, size=S).astype(real_t); lam = float(r.uniform(0, 50))
        k = spne.gen_brinkmann_penalise_pyst_kernel_3d(real_t=real_t, field_type="vector")
        add("brinkmann_vec_3d", {**sz, "penalty_factor": real_t(lam)}, {"penalised_vector_field": vo, "vector_field": vf, "penalty_vector_field": vpen, "char_field": chi},
            lambda k=k, vo=vo, vf=vf, vpen=vpen, chi=chi, lam=lam: k(penalised_vector_field=vo, penalty_factor=lam, char_field=chi, penalty_vector_field=vpen, vector_field=vf),
            "brinkmann_penalise_3d[vector]",
            ref=lambda b, lam=lam: {"penalised_vector_field": (b["vector_field"] + lam * b["char_field"] * b["penalty_vector_field"]) / (1 + lam * b["char_field"])})
        eps = float(r.uniform(0.05, 0.5)); phi = r.uniform(-3 * eps, 3 * eps, size=S).astype(real_t); o = A(*S)
        phi[0, 0, 0], phi[0, 0, 1] = real_t(eps), real_t(-eps)
        k = spne.gen_char_func_from_level_set_via_sine_heaviside_pyst_kernel_3d(blend_width=eps, real_t=real_t)
        add("char_func_3d", {**sz, "blend_width": eps}, {"char_func_field": o, "level_set_field": phi}, lambda k=k, o=o, phi=phi: k(char_func_field=o, level_set_field=phi),
            "char_func_from_level_set_3d", ref=lambda b, eps=eps: {"char_func_field": R.heaviside(b["level_set_field"].astype(np.float64), eps)})
        # time-step kernels
        f, fl = A(*S), A(*S); p = float(r.uniform(0.01, 0.15))
        k = spne.gen_diffusion_timestep_euler_forward_pyst_kernel_3d(real_t=real_t)
        add("diffusion_timestep_3d", {**sz, "nu_dt_by_dx2": real_t(p)}, {"field": f, "diffusion_flux": fl}, lambda k=k, f=f, fl=fl, p=p: k(field=f, diffusion_flux=fl, nu_dt_by_dx2=p),
            "diffusion_timestep_euler_forward_3d", ref=lambda b, p=p: {"field": b["field"] + R.laplacian_flux(b["field"], p, np.zeros_like(b["field"]), True)})
        vf, fl = A(3, *S), A(*S)
        k = spne.gen_diffusion_timestep_euler_forward_pyst_kernel_3d(real_t=real_t, field_type="vector")
        add("diffusion_timestep_vec_3d", {**sz, "nu_dt_by_dx2": real_t(p)}, {"vector_field": vf, "diffusion_flux": fl},
            lambda k=k, vf=vf, fl=fl, p=p: k(vector_field=vf, diffusion_flux=fl, nu_dt_by_dx2=p), "diffusion_timestep_euler_forward_3d[vector]",
            ref=lambda b, p=p: {"vector_field": np.array([c + R.laplacian_flux(c, p, np.zeros_like(c), True) for c in b["vector_field"]])})
        f, fl, vel = A(*S), A(*S), A(3, *S)
        k = spne.gen_advection_timestep_euler_forward_conservative_eno3_pyst_kernel_3d(real_t=real_t)
        add("advection_timestep_3d", {**sz, "dt_by_dx": real_t(p)}, {"field": f, "advection_flux": fl, "velocity": vel},
            lambda k=k, f=f, fl=fl, vel=vel, p=p: k(field=f, advection_flux=fl, velocity=vel, dt_by_dx=p), "advection_timestep_eno3_3d",
            ref=lambda b, p=p: {"field": _with_inner(b["field"], b["field"][R.inner(b["field"], 2)] - p * R.eno3_divergence(b["field"], b["velocity"]), 2)})
        vf, fl, vel = A(3, *S), A(*S), A(3, *S)
        k = spne.gen_advection_timestep_euler_forward_conservative_eno3_pyst_kernel_3d(real_t=real_t, field_type="vector")
        add("advection_timestep_vec_3d", {**sz, "dt_by_dx": real_t(p)}, {"vector_field": vf, "advection_flux": fl, "velocity": vel},
            lambda k=k, vf=vf, fl=fl, vel=vel, p=p: k(vector_field=vf, advection_flux=fl, velocity=vel, dt_by_dx=p), "advection_timestep_eno3_3d[vector]",
            ref=lambda b, p=p: {"vector_field": np.array([_with_inner(c, c[R.inner(c, 2)] - p * R.eno3_divergence(c, b["velocity"]), 2) for c in b["vector_field"]])})
        w, vu, fl = A(3, *S), A(3, *S), A(3, *S)
        k = spne.gen_vorticity_stretching_timestep_euler_forward_pyst_kernel_3d(real_t=real_t)
        add("stretching_timestep_euler_3d", {**sz, "dt_by_2_dx": real_t(p)}, {"vorticity_field": w, "velocity_field": vu, "vorticity_stretching_flux_field": fl},
            lambda k=k, w=w, vu=vu, fl=fl, p=p: k(vorticity_field=w, velocity_field=vu, vorticity_stretching_flux_field=fl, dt_by_2_dx=p),
            "vorticity_stretching_timestep_euler_forward_3d",
            ref=lambda b, p=p: {"vorticity_field": b["vorticity_field"].astype(np.float64) + _stretch(b["vorticity_field"], b["velocity_field"], p)})
        w, vu, fl, mid = A(3, *S), A(3, *S), A(3, *S), A(3, *S)
        k = spne.gen_vorticity_stretching_timestep_ssprk3_pyst_kernel_3d(real_t=real_t, midstep_buffer_vector_field=mid)
        add("stretching_timestep_ssprk3_3d", {**sz, "dt_by_2_dx": real_t(p)}, {"vorticity_field": w, "velocity_field": vu, "vorticity_stretching_flux_field": fl, "midstep": mid},
            lambda k=k, w=w, vu=vu, fl=fl, p=p: k(vorticity_field=w, velocity_field=vu, vorticity_stretching_flux_field=fl, dt_by_2_dx=p),
            "vorticity_stretching_timestep_ssprk3_3d",
            ref=lambda b, p=p: {"vorticity_field": (lambda w0, A: w0 + A(w0) + A(A(w0)) / 2 + A(A(A(w0))) / 6)(
                b["vorticity_field"].astype(np.float64), lambda x, b=b, p=p: _stretch(x, b["velocity_field"], p))})
        # filters: dirty work buffers, every order and type
        for conv, order in itertools.product((False, True), ([0, 1, 2] if tier == "quick" else [0, 1, 2, 3, 4])):
            S2 = _shape(r, 4, 7)
            f, fb1, fb2 = A(*S2), A(*S2), A(*S2)
            ft = "convolution" if conv else "multiplicative"
            k = spne.gen_laplacian_filter_kernel_3d(filter_order=order, filter_flux_buffer=fb1, field_buffer=fb2, real_t=real_t, filter_type=ft)
            # the work buffers are shared scratch in the simulators: dirty them AFTER the kernel was generated
            fb1[...] = r.normal(size=S2).astype(real_t); fb2[...] = r.normal(size=S2).astype(real_t)
            add("filter_3d", {"nz": S2[0], "ny": S2[1], "nx": S2[2], "conv": conv, "order": order}, {"scalar_field": f, "filter_flux_buffer": fb1, "field_buffer": fb2},
                lambda k=k, f=f: k(scalar_field=f), f"laplacian_filter_3d[{ft},order={order}]",
                ref=(lambda b, order=order, ft=ft: {"scalar_field": R.laplacian_filter(b["scalar_field"].astype(np.float64), order, ft)}) if order > 0 else None)
        S2 = _shape(r, 4, 6)
        vf, fb1, fb2 = A(3, *S2), A(*S2), A(*S2)
        k = spne.gen_laplacian_filter_kernel_3d(filter_order=2, filter_flux_buffer=fb1, field_buffer=fb2, real_t=real_t, field_type="vector", filter_type="convolution")
        fb1[...] = r.normal(size=S2).astype(real_t); fb2[...] = r.normal(size=S2).astype(real_t)
        add("filter_vec_3d", {"nz": S2[0], "ny": S2[1], "nx": S2[2], "conv": True, "order": 2}, {"vector_field": vf, "filter_flux_buffer": fb1, "field_buffer": fb2},
            lambda k=k, vf=vf: k(vector_field=vf), "laplacian_filter_3d[vector,convolution,order=2]",
            ref=lambda b: {"vector_field": np.array([R.laplacian_filter(c_.astype(np.float64), 2, "convolution") for c_ in b["vector_field"]])})
        # boundary-zone damping
        for w_, ftype in ([(0, "scalar"), (1, "scalar"), (2, "vector"), (3, "scalar")] if tier == "quick" else [(w_, t_) for w_ in range(0, 7) for t_ in ("scalar", "vector") if (w_ + (t_ == "vector")) % 2 == 0 or w_ < 3]):
            lo = 2 * max(w_, 2) + 1
            S3 = tuple(int(v) for v in r.integers(lo, lo + 3, size=3))
            if len(set(S3)) < 3:        # non-cubic: the three extents pairwise different
                S3 = tuple(int(v) for v in lo + r.permutation(3))
            if w_ == 3:                 # one axis narrower than two zone widths: front and back zones overlap
                S3 = tuple(int(v) for v in np.array([4, 8, 9])[r.permutation(3)])
            dx = real_t(1.0 / S3[2])
            coords = [((np.arange(n) + 0.5) * dx).astype(real_t) for n in S3]
            zg, yg, xg = (np.ascontiguousarray(m) for m in np.meshgrid(*coords, indexing="ij"))
            k = spne.gen_penalise_field_boundary_pyst_kernel_3d(width=w_, dx=dx, x_grid_field=xg, y_grid_field=yg, z_grid_field=zg, real_t=real_t, field_type=ftype)
            args = {"nz": S3[0], "ny": S3[1], "nx": S3[2], "width": w_, "dx": dx, "x0": xg[0, 0, 0], "x1": xg[0, 0, -1], "y0": yg[0, 0, 0], "y1": yg[0, -1, 0],
                    "z0": zg[0, 0, 0], "z1": zg[-1, 0, 0]}
            regs = [(slice(None), slice(None), slice(0, w_)), (slice(None), slice(None), slice(S3[2] - w_, S3[2])),
                    (slice(None), slice(0, w_), slice(None)), (slice(None), slice(S3[1] - w_, S3[1]), slice(None)),
                    (slice(0, w_), slice(None), slice(None)), (slice(S3[0] - w_, S3[0]), slice(None), slice(None))] if w_ else []
            if ftype == "scalar":
                f = A(*S3)
                add("penalise_boundary_3d", args, {"field": f, "x_grid_field": xg, "y_grid_field": yg, "z_grid_field": zg}, lambda k=k, f=f: k(field=f),
                    f"penalise_field_boundary_3d[w={w_}]", numpy_regions={"field": regs}, ref=lambda b, w_=w_: {"field": R.damp(b["field"].astype(np.float64), w_, 3)})
            else:
                vf = A(3, *S3)
                add("penalise_boundary_vec_3d", args, {"vector_field": vf, "x_grid_field": xg, "y_grid_field": yg, "z_grid_field": zg}, lambda k=k, vf=vf: k(vector_field=vf),
                    f"penalise_field_boundary_3d[vector,w={w_}]", numpy_regions={f"vector_field.{c}": regs for c in "xyz"},
                    ref=lambda b, w_=w_: {"vector_field": R.damp(b["vector_field"].astype(np.float64), w_, 3)})
    return cases


def run_wrappers(seed=0, tier="quick"):
    out = None
    for real_t in ([np.float64] if tier == "quick" else [np.float64, np.float32]):
        cases = wrapper_cases(seed, tier, real_t)
        res = harness.run_cases("Prog3D", cases, 3, real_t)
        res["name"] = "3D wrappers vs Model/Prog3D"
        if out is None:
            out = res
        else:
            out["cases"] += res["cases"]; out["kernel_calls"] += res["kernel_calls"]
            out["worst_rel_err"] = max(out["worst_rel_err"], res["worst_rel_err"])
        if not res["ok"]:
            res["cases"] = out["cases"]
            return res
    out.pop("overlaps", None)
    return out


# --------------------------------------------------------------------------- 3D Navier–Stokes step


def _snap(flat):
    return {n: np.array(a, copy=True) for n, a in flat.items()}


def step_configs(tier, seed):
    filt = [(False, False, 0)] + [(True, conv, o) for conv in (False, True) for o in (0, 1, 2, 3)]
    full = list(itertools.product([False, True], [False, True], filt, ["greens_function_convolution", "fast_diagonalisation"], range(0, 5)))
    if tier != "quick":
        return full  # 2*2*9*2*5 = 360 configurations
    r = impl.rng(seed, "cfg3d")
    idx = r.permutation(len(full))[:10]
    must = [c for c in full if c[2] == (True, True, 2) and c[0] and c[1] and c[4] == 2][:1]
    return must + [full[i] for i in idx]


def run_step(seed=0, tier="quick"):
    res = {"ok": True, "cases": 0, "samples": [], "worst_rel_err": 0.0, "kernel_calls": 0, "aliasing_calls": 0,
           "name": "3D Navier-Stokes step vs Model/Prog3D (split at the Poisson solve)", "configs": 0, "configs_float32": 0}
    cfgs = list(enumerate(step_configs(tier, seed)))
    _run_step_prec(seed, tier, np.float64, cfgs, res)
    if res["ok"]:
        # single precision: a subset (the programs are the same; what differs is every cast the glue makes)
        sub = cfgs[:2] if tier == "quick" else cfgs[::9]
        n0 = res["configs"]
        _run_step_prec(seed, tier, np.float32, sub, res)
        res["configs_float32"] = res["configs"] - n0
    return res


def _run_step_prec(seed, tier, real_t, cfgs, res):
    import warnings

    import shim
    import sopht.simulator as sps

    requests, expect, traces, labels = [], [], [], []
    for ci, (forcing, fs, (filt, conv, order), solver, w) in cfgs:
        r = impl.rng(seed, "step3d", ci, real_t.__name__)
        lo = max(2 * w + 1, 5)
        S = tuple(int(v) for v in r.integers(lo, lo + 3, size=3))
        if len(set(S)) < 3:
            S = (S[0], S[0] + 1, S[0] + 2)
        kw = {}
        if filt:
            kw["filter_setting_dict"] = {"order": order, "type": "convolution" if conv else "multiplicative"}
        with warnings.catch_warnings():
            warnings.simplefilter("ignore")
            sim = sps.UnboundedNavierStokesFlowSimulator3D(
                grid_size=S, x_range=float(r.uniform(0.5, 2.0)), kinematic_viscosity=float(r.uniform(1e-3, 1e-1)), real_t=real_t,
                with_forcing=forcing, with_free_stream_flow=fs, flow_density=float(r.uniform(0.5, 2.0)), filter_vorticity=filt,
                poisson_solver_type=solver, penalty_zone_width=w, time=float(r.uniform(0, 1)), **kw)
        for a in (sim.vorticity_field, sim.velocity_field, sim.buffer_vector_field, sim.stream_func_field):
            a[...] = r.normal(size=a.shape)
        if forcing:
            sim.eul_grid_forcing_field[...] = r.normal(size=(3, *S))
            force = sim.eul_grid_forcing_field
        else:
            force = np.zeros((3, *S), dtype=real_t)
        bufs = {"vorticity": sim.vorticity_field, "velocity": sim.velocity_field, "buffer_vector": sim.buffer_vector_field,
                "stream_func": sim.stream_func_field, "forcing": force, "position": sim.position_field}
        flat = harness.expand_bufs(bufs, 3)
        snaps = {}
        ps = sim._unbounded_poisson_solver
        tr = harness.Tracer(flat, 3)
        orig = ps.vector_field_solve

        def solve(*a, _o=orig, **k):
            snaps["pre"] = _snap(flat)
            snaps["n_pre"] = len(tr.lines)
            with warnings.catch_warnings():
                warnings.simplefilter("ignore")
                out = _o(*a, **k)
            snaps["post"] = _snap(flat)
            snaps["n_post"] = len(tr.lines)
            return out

        ps.vector_field_solve = solve
        s0 = _snap(flat)
        dt = float(r.uniform(1e-3, 1e-2))
        U = r.normal(size=3)
        t0 = sim.time
        shim.TRACERS.append(tr)
        try:
            if fs:
                sim.time_step(dt=dt, free_stream_velocity=U)
            else:
                sim.time_step(dt=dt)
        finally:
            shim.TRACERS.remove(tr)
        s5 = _snap(flat)
        label = f"ns3d[{real_t.__name__},forcing={forcing},free_stream={fs},filter={(filt, 'conv' if conv else 'mult', order)},{solver},w={w},{S}]"
        if sim.time != t0 + dt:
            res.update(ok=False, detail=f"{label}: simulator time {sim.time!r} != {t0!r} + {dt!r}",
                       failing_input={"oracle": "clock", "config": label, "t0": t0, "dt": dt, "time": sim.time})
            return res
        if forcing and np.any(sim.eul_grid_forcing_field != 0):
            res.update(ok=False, detail=f"{label}: forcing field not zero on return", failing_input={"oracle": "forcing_reset", "config": label})
            return res
        for ov in tr.overlaps:
            if not (ov["identical"] and ov["other_read_at_centre_only"]):
                res.update(ok=False, detail=f"{label}: call site passes overlapping memory unsafely: {ov}",
                           failing_input={"oracle": "callsite_alias", "config": label, **ov})
                return res
        res["aliasing_calls"] += len(tr.overlaps)
        xg, yg, zg = sim.position_field[0], sim.position_field[1], sim.position_field[2]
        args = {"forcing": forcing, "free_stream": fs, "filter": filt, "filter_conv": conv, "filter_order": order, "width": w,
                "nz": S[0], "ny": S[1], "nx": S[2], "dt": dt, "dx": sim.dx, "nu": sim.kinematic_viscosity, "rho": sim.flow_density,
                "ux": real_t(U[0]) if fs else 0, "uy": real_t(U[1]) if fs else 0, "uz": real_t(U[2]) if fs else 0,
                "x0": xg[0, 0, 0], "x1": xg[0, 0, -1], "y0": yg[0, 0, 0], "y1": yg[0, -1, 0], "z0": zg[0, 0, 0], "z1": zg[-1, 0, 0]}
        requests += [("ns_step_3d_pre", args, s0, False), ("ns_step_3d_post", args, snaps["post"], False)]
        expect += [snaps["pre"], s5]
        traces.append(tr.lines[:snaps["n_pre"]] + tr.lines[snaps["n_post"]:])
        labels.append(label)
        res["configs"] += 1
    results = harness.run_driver("Prog3D", requests)
    for i, label in enumerate(labels):
        mcalls = results[2 * i][0] + results[2 * i + 1][0]
        d = harness.compare_trace(traces[i], mcalls, real_t)
        if d is None:
            for j, phase in enumerate(("pre", "post")):
                d, worst = harness.compare_bufs(expect[2 * i + j], results[2 * i + j][1], real_t, nops=1000)
                res["worst_rel_err"] = max(res["worst_rel_err"], worst)
                if d is not None:
                    d = f"phase {phase}: {d}"
                    break
        res["cases"] += 1
        res["kernel_calls"] += len(traces[i])
        if d is not None:
            res.update(ok=False, detail=f"{label}: {d}", failing_case={"label": label})
            return res
        if len(res["samples"]) < 2:
            res["samples"].append({"case": label, "kernel_calls": len(traces[i]),
                                   "trace_head": [f"{l['kid']} {l['region']} {dict(l['binds'])}" for l in traces[i]][:12]})
    return res
