"""The grid the simulators set up (`FlowSimulator._init_domain`) vs Model/Domain.lean at ℚ: dx, y_range, z_range and every
cell-centre coordinate of position_field (component order x, y[, z]; component c varies along array axis dim-1-c only), for
all three simulator classes, pairwise different extents, any x_range, both precisions."""
import subprocess
import warnings
from fractions import Fraction

import numpy as np

import impl
from corr import harness


def run(seed=0, tier="quick"):
    import sopht.simulator as sps

    res = {"ok": True, "cases": 0, "samples": [], "name": "Model/Domain vs FlowSimulator._init_domain (dx, extents, position_field)"}
    n = 6 if tier == "quick" else 24
    reqs, ctx = [], []
    for t in range(n):
        r = impl.rng(seed, "domain", t)
        dim = 2 + t % 2
        real_t = [np.float64, np.float32][(t // 2) % 2]
        shape = tuple(int(v) for v in 5 + r.permutation(7)[:dim])          # pairwise different extents
        xr = float(Fraction(int(r.integers(2, 40)), int(r.integers(3, 17))))   # exactly representable ratio is not needed: sent as the float's exact value
        cls = t % 3
        with warnings.catch_warnings():
            warnings.simplefilter("ignore")
            if cls == 0:
                sim = sps.PassiveTransportFlowSimulator(kinematic_viscosity=1e-2, grid_dim=dim, grid_size=shape, x_range=xr, real_t=real_t)
            elif dim == 2:
                sim = sps.UnboundedNavierStokesFlowSimulator2D(grid_size=shape, x_range=xr, kinematic_viscosity=1e-2, real_t=real_t)
            else:
                sim = sps.UnboundedNavierStokesFlowSimulator3D(grid_size=shape, x_range=xr, kinematic_viscosity=1e-2, real_t=real_t)
        for c in range(dim):
            reqs.append(f"{harness.fstr(xr)} {shape[-1]} {shape[dim - 1 - c]}")
        ctx.append((sim, dim, real_t, shape, xr, type(sim).__name__))
    p = subprocess.run(["lake", "env", "lean", "--run", "SophtVerif/Driver/Domain.lean"], cwd=harness.LEAN, input="\n".join(reqs) + "\n",
                       capture_output=True, text=True, timeout=600)
    if p.returncode != 0:
        raise RuntimeError(p.stderr[-1500:])
    outs = [[float(Fraction(x)) for x in line.split()] for line in p.stdout.splitlines() if line and line != "bad-input"]
    if len(outs) != len(reqs):
        raise RuntimeError("domain driver answered a different number of requests")
    k = 0
    for sim, dim, real_t, shape, xr, cname in ctx:
        eps = float(np.finfo(real_t).eps)
        meta = {"class": cname, "dim": dim, "dtype": real_t.__name__, "grid": list(shape), "x_range": xr}
        pos = np.asarray(sim.position_field, dtype=np.float64)
        what = None
        if pos.shape != (dim,) + tuple(shape):
            what = f"position_field has shape {pos.shape}"
        for c in range(dim):
            m = outs[k]; k += 1
            mdx, mrange, centres = m[0], m[1], np.array(m[2:])
            if what:
                continue
            ax = dim - 1 - c
            if abs(float(sim.dx) - mdx) > 4 * eps * mdx:
                what = f"dx = {float(sim.dx)!r}, model {mdx!r}"
            rng_attr = ["x_range", "y_range", "z_range"][c]
            if what is None and abs(float(getattr(sim, rng_attr)) - mrange) > 8 * eps * mrange:
                what = f"{rng_attr} = {float(getattr(sim, rng_attr))!r}, model {mrange!r}"
            if what is None:
                sh = [1] * dim; sh[ax] = shape[ax]
                want = np.broadcast_to(centres.reshape(sh), shape)
                dev = np.abs(pos[c] - want).max()
                if dev > 16 * eps * max(1.0, mrange):
                    i = np.unravel_index(np.argmax(np.abs(pos[c] - want)), shape)
                    what = (f"position_field[{'xyz'[c]}] differs from the cell centres (k + 1/2) dx of its axis: at cell {tuple(int(v) for v in i)} "
                            f"{pos[c][i]!r}, model {want[i]!r}")
        res["cases"] += 1
        if what:
            res.update(ok=False, detail=f"{meta}: {what}", failing_case=meta,
                       failing_input={"oracle": "domain_setup", **meta, "what": what})
            return res
        if len(res["samples"]) < 3:
            res["samples"].append(meta)
    return res
