"""C16: numeric correspondence of Model.stableDtPrefac with the implementation's
compute_stable_timestep (all three simulator classes share compute_advection_diffusion_stable_timestep),
and the oracle evaluating the property's inequalities on the implementation's results."""
import subprocess
import warnings
from fractions import Fraction

import numpy as np

import impl
from corr import harness


def _irrelevant(r, dim, t):
    """constructor options the stable time step must NOT depend on (density, forcing, free stream, damping width, filter):
    drawn at random so that a dependence shows as a disagreement with the model, which has no such parameter"""
    kw = {"flow_density": float([1.0, 1000.0, 0.5, 10 ** r.uniform(-2, 3)][int(r.integers(0, 4))]), "with_forcing": bool(t % 2), "with_free_stream_flow": bool((t // 2) % 2),
          "penalty_zone_width": int(t % 3)}
    if dim == 3 and t % 5 == 0:
        kw["filter_vorticity"] = True
        kw["filter_setting_dict"] = {"order": 2, "type": "multiplicative"}
    return kw


def _cases(seed, tier):
    import sopht.simulator as sps

    n = 9 if tier == "quick" else 40
    out = []
    for t in range(n):
        r = impl.rng(seed, "dt", t)
        real_t = [np.float32, np.float64][t % 2]
        dim = 2 + (t // 2) % 2
        kind = ["zero", "spike", "random", "random"][t % 4]
        nu = [0.0, float(10 ** r.uniform(-4, 0))][0 if t % 7 == 3 else 1]
        cfl = float(r.uniform(0.05, 0.5))
        N = int(r.choice([8, 16, 24])) if dim == 3 else int(r.choice([16, 64, 512]))
        gs = (N,) * dim if t % 3 else ((N, N + 4) if dim == 2 else (N, N + 2, N + 4))
        cls = t % 3
        if cls == 0:
            sim = sps.PassiveTransportFlowSimulator(kinematic_viscosity=nu, grid_dim=dim, grid_size=gs, x_range=float(r.uniform(0.5, 4)), cfl=cfl, real_t=real_t)
        elif dim == 2:
            sim = sps.UnboundedNavierStokesFlowSimulator2D(grid_size=gs, x_range=float(r.uniform(0.5, 4)), kinematic_viscosity=nu, cfl=cfl, real_t=real_t, **_irrelevant(r, 2, t))
        else:
            sim = sps.UnboundedNavierStokesFlowSimulator3D(grid_size=gs, x_range=float(r.uniform(0.5, 4)), kinematic_viscosity=nu, cfl=cfl, real_t=real_t, **_irrelevant(r, 3, t))
        if kind == "spike":
            idx = tuple(int(r.integers(0, s)) for s in sim.velocity_field.shape)
            sim.velocity_field[idx] = float(r.normal()) * 10
        elif kind == "random":
            sim.velocity_field[...] = r.normal(size=sim.velocity_field.shape) * float(10 ** r.uniform(-3, 2))
        prefac = float(r.uniform(0.05, 1.0))
        out.append((sim, real_t, dim, nu, cfl, prefac, kind, type(sim).__name__))
    # edge of the viscosity range: positive viscosities at and below the velocity tolerance 10*eps of the precision,
    # with a quiescent (or nearly quiescent) flow, where the diffusion limit is the binding one
    e = 0
    for real_t in (np.float32, np.float64):
        tol = 10 * float(np.finfo(real_t).eps)
        for mult in ((0.9, 0.25, 0.05) if tier == "quick" else (1.0, 0.9, 0.5, 0.25, 0.1, 0.05, 0.02)):
            r = impl.rng(seed, "dt-edge", e)
            dim = 2 + e % 2
            nu = mult * tol
            cfl = float(r.uniform(0.05, 0.5))
            gs = (16, 20) if dim == 2 else (8, 10, 12)
            if e % 3 != 0 and dim == 2:
                sim = sps.UnboundedNavierStokesFlowSimulator2D(grid_size=gs, x_range=float(r.uniform(0.5, 4)), kinematic_viscosity=nu, cfl=cfl, real_t=real_t,
                                                               flow_density=(1000.0 if e % 2 == 0 else [0.5, 7.0][(e // 2) % 2]))
            else:
                sim = sps.PassiveTransportFlowSimulator(kinematic_viscosity=nu, grid_dim=dim, grid_size=gs, x_range=float(r.uniform(0.5, 4)), cfl=cfl, real_t=real_t)
            kind = ["zero", "tiny"][e % 2]
            if kind == "tiny":
                sim.velocity_field[...] = (r.normal(size=sim.velocity_field.shape) * 1e-3 * tol).astype(real_t)
            out.append((sim, real_t, dim, nu, cfl, float(r.uniform(0.05, 1.0)), kind, type(sim).__name__))
            e += 1
    # diffusion-limited Navier-Stokes simulators (fluid at rest, ordinary viscosity) with a density far from 1
    for e2, (dim, real_t, rho) in enumerate([(2, np.float64, 1000.0), (3, np.float32, 250.0)] + ([(2, np.float32, 0.01), (3, np.float64, 1e4)] if tier != "quick" else [])):
        r = impl.rng(seed, "dt-rho", e2)
        nu, cfl = float(10 ** r.uniform(-3, -1)), float(r.uniform(0.05, 0.5))
        cls = sps.UnboundedNavierStokesFlowSimulator2D if dim == 2 else sps.UnboundedNavierStokesFlowSimulator3D
        sim = cls(grid_size=(16, 20) if dim == 2 else (8, 10, 12), x_range=float(r.uniform(0.5, 4)), kinematic_viscosity=nu, cfl=cfl, real_t=real_t, flow_density=rho)
        out.append((sim, real_t, dim, nu, cfl, float(r.uniform(0.05, 1.0)), "zero", type(sim).__name__))
    return out


def _model(rows):
    text = "\n".join(" ".join(harness.fstr(v) for v in row) for row in rows) + "\n"
    p = subprocess.run(["lake", "env", "lean", "--run", "SophtVerif/Driver/Dt.lean"], cwd=harness.LEAN, input=text,
                       capture_output=True, text=True, timeout=900)
    if p.returncode != 0:
        raise RuntimeError(p.stderr[-1500:])
    return [float(Fraction(l)) for l in p.stdout.split()]


def run(seed=0, tier="quick"):
    cs = _cases(seed, tier)
    rows, impl_dt, meta = [], [], []
    for sim, real_t, dim, nu, cfl, prefac, kind, cname in cs:
        with warnings.catch_warnings():
            warnings.simplefilter("ignore")
            with np.errstate(all="ignore"):
                dt = sim.compute_stable_timestep(dt_prefac=prefac)
        umax = float(np.max(np.sum(np.abs(sim.velocity_field.astype(np.float64)), axis=0)))
        tol = 10 * float(np.finfo(real_t).eps)
        rows.append((cfl, sim.dx, nu, tol, umax, dim, prefac))
        impl_dt.append(float(dt))
        meta.append({"class": cname, "dtype": real_t.__name__, "dim": dim, "nu": nu, "cfl": cfl, "prefac": prefac, "flow_density": float(getattr(sim, "flow_density", 1.0)),
                     "velocity": kind, "grid": list(sim.grid_size), "dt": float(dt), "evaluation": 1})
        # a second evaluation on the same simulator at the same time level after the velocity changed (a body moved, a user set the
        # field): the answer is a function of the CURRENT velocity
        r2 = impl.rng(seed, "dt-second", len(rows))
        sim.velocity_field[...] = (r2.normal(size=sim.velocity_field.shape) * float(10 ** r2.uniform(-1, 2))).astype(real_t)
        with warnings.catch_warnings():
            warnings.simplefilter("ignore")
            with np.errstate(all="ignore"):
                dt2 = sim.compute_stable_timestep(dt_prefac=prefac)
        umax2 = float(np.max(np.sum(np.abs(sim.velocity_field.astype(np.float64)), axis=0)))
        rows.append((cfl, sim.dx, nu, tol, umax2, dim, prefac))
        impl_dt.append(float(dt2))
        meta.append({**meta[-1], "velocity": "random (set after the first evaluation, same time level)", "dt": float(dt2), "evaluation": 2})
    model = _model(rows)
    res = {"ok": True, "cases": len(rows), "samples": meta[:3], "name": "Model.stableDtPrefac vs compute_stable_timestep"}
    for m, a, b in zip(meta, impl_dt, model):
        eps = float(np.finfo(np.float32 if m["dtype"] == "float32" else np.float64).eps)
        if not (np.isfinite(a) and abs(a - b) <= 64 * eps * max(abs(a), abs(b))):
            res.update(ok=False, detail=f"{m}: implementation {a!r}, model {b!r}", failing_case=m)
            return res
    res["branches"] = {"nu=0": sum(1 for m in meta if m["nu"] == 0), "zero_velocity": sum(1 for m in meta if m["velocity"] == "zero"),
                       "0<nu<=10eps": sum(1 for m in meta if 0 < m["nu"] <= 10 * float(np.finfo(np.dtype(m["dtype"])).eps))}
    return res


def oracle(seed=0, tier="quick", aimed=None):
    """the property's inequalities on the implementation's own results + maximum principle of a real diffusion step"""
    import ref as R
    from impl import spne

    cases = 0
    samples = []
    for sim, real_t, dim, nu, cfl, prefac, kind, cname in _cases(seed + 1, tier):
        eps = float(np.finfo(real_t).eps)
        with warnings.catch_warnings():
            warnings.simplefilter("ignore")
            with np.errstate(all="ignore"):
                dt1 = float(sim.compute_stable_timestep(dt_prefac=1.0))
                dtp = float(sim.compute_stable_timestep(dt_prefac=prefac))
        dx = float(sim.dx)
        umax = float(np.max(np.sum(np.abs(sim.velocity_field.astype(np.float64)), axis=0)))
        info = {"class": cname, "dtype": real_t.__name__, "dim": dim, "nu": nu, "cfl": cfl, "velocity": kind, "flow_density": float(getattr(sim, "flow_density", 1.0)),
                "grid": list(sim.grid_size), "dx": dx, "dt": dt1}
        cases += 1
        bad = None
        if not (np.isfinite(dt1) and dt1 > 0):
            bad = "dt not finite and positive"
        elif abs(dtp - prefac * dt1) > 8 * eps * dt1:
            bad = f"not linear in prefactor: {dtp} vs {prefac}*{dt1}"
        elif dt1 * umax / dx > cfl * (1 + 64 * eps):
            bad = f"CFL limit exceeded: dt*umax/dx = {dt1 * umax / dx} > cfl = {cfl}"
        elif nu > 0 and nu * dt1 / dx**2 > 0.9 / (2 * dim) * (1 + 64 * eps):
            bad = f"diffusion limit exceeded: nu*dt/dx^2 = {nu * dt1 / dx**2} > {0.9 / (2 * dim)}"
        if bad:
            return {"ok": False, "cases": cases, "samples": samples, "failing_input": {"oracle": "dt_limits", "what": bad, **info}}
        # history: the velocity is raised at the same time level (a user or a coupling sets it) and the step is asked for again
        r2 = impl.rng(seed, "dt-oracle-second", cases)
        sim.velocity_field[...] = (np.abs(sim.velocity_field) * 40 + r2.uniform(0.5, 2.0, size=sim.velocity_field.shape)).astype(real_t)
        with warnings.catch_warnings():
            warnings.simplefilter("ignore")
            with np.errstate(all="ignore"):
                dt2 = float(sim.compute_stable_timestep(dt_prefac=1.0))
        umax2 = float(np.max(np.sum(np.abs(sim.velocity_field.astype(np.float64)), axis=0)))
        cases += 1
        if not (np.isfinite(dt2) and dt2 > 0) or dt2 * umax2 / dx > cfl * (1 + 64 * eps):
            return {"ok": False, "cases": cases, "samples": samples, "failing_input": {
                "oracle": "dt_limits", "what": f"second evaluation at the same time level after the velocity was raised: CFL limit exceeded: dt*umax/dx = {dt2 * umax2 / dx} > cfl = {cfl} "
                                               f"(first evaluation returned {dt1}, second {dt2})", **info, "history": ["compute_stable_timestep", "velocity_field raised", "compute_stable_timestep"]}}
        if len(samples) < 2:
            samples.append({"oracle": "dt_limits", **info})
    # maximum principle with r at the admissible limit
    for t in range(3 if tier == "quick" else 20):
        r = impl.rng(seed, "maxp", t)
        for dim in (2, 3):
            shape = tuple(int(v) for v in r.integers(5, 9, size=dim))
            f = r.normal(size=shape)
            f0 = f.copy()
            fl = r.normal(size=shape)
            rr = float(r.uniform(0, 1 / (2 * dim)))
            gen = getattr(spne, f"gen_diffusion_timestep_euler_forward_pyst_kernel_{dim}d")
            gen(real_t=np.float64)(field=f, diffusion_flux=fl, nu_dt_by_dx2=rr)
            cases += 1
            I = R.inner(f0, 1)
            nb = [f0[I]] + [R.shift(f0, c, k, 1) for c in range(dim) for k in (-1, 1)]
            lo, hi = np.min(nb, axis=0), np.max(nb, axis=0)
            ring = R.ring_mask(shape, 1)
            if not np.array_equal(f[ring], f0[ring]):
                return {"ok": False, "cases": cases, "samples": samples, "failing_input": {
                    "oracle": "diffusion_ring_unchanged", "dim": dim, "shape": list(shape), "r": rr, "field": impl.tolist(f0)}}
            if np.any(f[I] < lo - 1e-12) or np.any(f[I] > hi + 1e-12):
                return {"ok": False, "cases": cases, "samples": samples, "failing_input": {
                    "oracle": "diffusion_max_principle", "dim": dim, "shape": list(shape), "r": rr, "field": impl.tolist(f0)}}
    return {"ok": True, "cases": cases, "failing_input": None, "samples": samples}


def replay(fi):
    return oracle(seed=fi.get("seed", 0), tier="thorough")
