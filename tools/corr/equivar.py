"""C14: numeric validation, on the implementation's own data, of the two hypotheses the equivariance theorems of
the Poisson solve take about table VALUES:
  (a) the doubled-box Green's table has the even-reflected form g[p, q] = vol·G(min(p, 2ny−p), min(q, 2nx−q))
      (the `gext` of Model/Poisson.lean), and
  (b) isotropy: the table of the axis-permuted grid is the axis-permuted table (`G' a b = G b a`, 3D: all six
      permutations).
Tables are recovered from the solver's Fourier table by an inverse real FFT (numpy), for non-square / non-cubic
odd and even sizes, both precisions.  The fast-diagonalisation solver's 1D operators are compared between axes of
equal length (same operator) and checked to be symmetric under index reversal (mirror)."""
import itertools
import warnings

import numpy as np

import impl
from corr.poisson import _solver


def _table(ps, dim):
    gname = "fourier_greens_function_times_dx_squared" if dim == 2 else "fourier_greens_function_times_dx_cubed"
    ghat = np.asarray(getattr(ps, gname))
    shape = ps.domain_doubled_buffer.shape
    return np.fft.irfftn(ghat.astype(np.complex128), s=shape)


def run(seed=0, tier="quick"):
    res = {"ok": True, "cases": 0, "samples": [], "name": "Green's table: even-reflected form and isotropy under axis permutations; fast-diag 1D operators"}
    r = impl.rng(seed, "equivar")
    n = 2 if tier == "quick" else 6
    for dim in (2, 3):
        for t in range(n):
            lo, hi = (5, 14) if dim == 2 else (4, 9)
            while True:
                shape = tuple(int(v) for v in r.integers(lo, hi, size=dim))
                if len(set(shape)) == dim:
                    break
            real_t = np.float64 if t % 2 == 0 else np.float32
            tol = 1e-12 if real_t is np.float64 else 2e-5
            dx = float(r.uniform(0.02, 0.2))
            base = _table(_solver(dim, shape, real_t, x_range=dx * shape[-1]), dim)
            scale = float(np.max(np.abs(base[np.isfinite(base)])))
            info = {"dim": dim, "grid": list(shape), "dtype": real_t.__name__}
            # (a) even reflection on every axis
            for ax in range(dim):
                idx = (-np.arange(base.shape[ax])) % base.shape[ax]
                refl = np.take(base, idx, axis=ax)
                if not np.max(np.abs(refl - base)) <= tol * scale:
                    res.update(ok=False, detail=f"Green's table not even-reflected along array axis {ax}: {info}",
                               failing_case={"check": "even_reflection", "axis": ax, **info})
                    return res
            # (b) isotropy
            for P in itertools.permutations(range(dim)):
                if P == tuple(range(dim)):
                    continue
                shp = tuple(shape[p] for p in P)
                other = _table(_solver(dim, shp, real_t, x_range=dx * shp[-1]), dim)
                want = np.transpose(base, P)
                dev = float(np.max(np.abs(other - want))) / scale if np.all(np.isfinite(other)) else float("inf")
                res["cases"] += 1
                if not dev <= tol:
                    res.update(ok=False, detail=f"Green's table of the axis-permuted grid {shp} is not the permuted table of {shape} (array axes <- {P}): rel dev {dev:.3e}",
                               failing_case={"check": "isotropy", "permutation": list(P), "max_rel_dev": dev, **info})
                    return res
            if len(res["samples"]) < 3:
                res["samples"].append({**info, "permutations": len(list(itertools.permutations(range(dim)))) - 1})
    # fast diagonalisation: the three 1D operators are the same function of (n, dx) and mirror-symmetric
    import sopht.numeric.eulerian_grid_ops as spne

    def mats(shape):
        with warnings.catch_warnings():
            warnings.simplefilter("ignore")
            ps = spne.FastDiagPoissonSolver3D(grid_size_z=shape[0], grid_size_y=shape[1], grid_size_x=shape[2], dx=0.1, real_t=np.float64)
            m = ps._construct_poisson_matrices()
            ps._apply_boundary_conds_to_poisson_matrices(*m)
        return {"x": np.asarray(m[0]), "y": np.asarray(m[1]), "z": np.asarray(m[2])}

    for t in range(n):
        while True:
            shape = tuple(int(v) for v in r.integers(4, 9, size=3))
            if len(set(shape)) == 3:
                break
        a = mats(shape)                      # (nz, ny, nx)
        b = mats(shape[1:] + shape[:1])      # cyclically relabelled grid: (ny, nx, nz)
        pairs = [("x", "y"), ("y", "z"), ("z", "x")]   # a's axis -> the axis of b with the same length
        for ax, bx in pairs:
            res["cases"] += 1
            m = a[ax]
            if not np.array_equal(m[::-1, ::-1], m):
                res.update(ok=False, detail=f"fast-diag 1D Poisson matrix along {ax} is not symmetric under index reversal (mirror)",
                           failing_case={"check": "fastdiag_mirror", "axis": ax, "grid": list(shape)})
                return res
            if not np.array_equal(m, b[bx]):
                res.update(ok=False, detail=f"fast-diag 1D Poisson matrix along {ax} of grid {shape} differs from the one along {bx} of the relabelled grid",
                           failing_case={"check": "fastdiag_axes", "axis": ax, "grid": list(shape)})
                return res
    return res
