"""C11: (1) contract of the eigen-data the solvers compute (A V = V Λ, W V = I, eigenvalues sorted decreasing,
null mode last and constant) checked numerically; (2) Model.fdSolve2/3 (Lean, at ℚ) fed with the
implementation's own eigen-data vs `solve`; (3) oracle: the Neumann second-difference operator applied to the
real output equals f − mean f, zero mean, real dtype, vector solve = three scalar solves."""
from __future__ import annotations

import subprocess
import warnings
from fractions import Fraction

import numpy as np

import impl
from corr import harness
from impl import spne


def make(dim, shape, dx, real_t):
    with warnings.catch_warnings():
        warnings.simplefilter("ignore")
        if dim == 2:
            return spne.FastDiagPoissonSolver2D(grid_size_y=shape[0], grid_size_x=shape[1], dx=dx, real_t=real_t)
        return spne.FastDiagPoissonSolver3D(grid_size_z=shape[0], grid_size_y=shape[1], grid_size_x=shape[2], dx=dx, real_t=real_t)


def eigen_data(s, dim):
    """per axis (V, W) in array-axis order (z, y, x) and the inverse eigenvalue table"""
    if dim == 2:
        axes = [(s.eig_vecs_y, s.inv_of_eig_vecs_y), (s.tranpose_of_eig_vecs_x.T, s.tranpose_of_inv_of_eig_vecs_x.T)]
    else:
        axes = [(s.eig_vecs_z, s.inv_of_eig_vecs_z), (s.eig_vecs_y, s.inv_of_eig_vecs_y), (s.eig_vecs_x, s.inv_of_eig_vecs_x)]
    return axes, s.inv_eig_val_matrix


def neumann_matrix(n, dx):
    A = 2 * np.eye(n) - np.eye(n, k=1) - np.eye(n, k=-1)
    A[0, 0] = 1; A[-1, -1] = 1
    return A / dx**2


def neumann_apply(u, dx):
    out = np.zeros_like(u, dtype=np.float64)
    for ax in range(u.ndim):
        n = u.shape[ax]
        out += np.moveaxis(np.tensordot(neumann_matrix(n, dx), u.astype(np.float64), axes=(1, ax)), 0, ax)
    return out


def analytic_eigs(n, dx):
    """eigenvalues of the Neumann second-difference matrix, sorted decreasing (null mode last)"""
    return np.sort((2 - 2 * np.cos(np.pi * np.arange(n) / n)) / dx**2)[::-1]


def inverse_table_contract(s, dim, shape, dx, real_t):
    """the table `solve` multiplies with must be 1/(sum of the axis eigenvalues) on every mode but the constant one, and 0
    there and only there: this is the hypothesis `invTable` of the C11 theorems (Props/C11Link: fdSolve_eq_spectral)"""
    lam = [analytic_eigs(n, float(dx)) for n in shape]
    tot = lam[0].reshape((-1,) + (1,) * (dim - 1))
    for a in range(1, dim):
        sh = [1] * dim; sh[a] = shape[a]
        tot = tot + lam[a].reshape(sh)
    inv = np.asarray(s.inv_eig_val_matrix, dtype=np.float64)
    zeros = np.argwhere(inv == 0)
    null = tuple(n - 1 for n in shape)
    if inv.shape != tuple(shape) or not np.all(np.isfinite(inv)):
        return f"inverse eigenvalue table has shape {inv.shape} / non-finite entries"
    if len(zeros) != 1 or tuple(zeros[0]) != null:
        return (f"inverse eigenvalue table is zero at modes {[tuple(int(v) for v in z) for z in zeros[:6]]}"
                f"{' ...' if len(zeros) > 6 else ''} ({len(zeros)} modes); only the constant mode {null} may be removed")
    with np.errstate(divide="ignore"):
        want = 1.0 / tot
    want[null] = 0.0
    # absolute error of a computed eigenvalue is ~ eps * largest eigenvalue; the relative error of 1/(sum) follows
    eps = float(np.finfo(real_t).eps)
    allowed = 64 * max(shape) * eps * tot.max() / np.where(tot > 0, tot, np.inf) + 64 * eps
    allowed[null] = 0
    rel = np.abs(inv - want) / np.where(want > 0, want, 1.0)
    if np.any(rel > allowed):
        k = np.unravel_index(np.argmax(rel - allowed), rel.shape)
        return f"inverse eigenvalue table at mode {tuple(int(v) for v in k)}: {inv[k]!r}, 1/(sum of eigenvalues) = {want[k]!r}"
    return None


LONG = [(2, (8, 64)), (2, (64, 3)), (3, (8, 12, 64)), (3, (64, 4, 5)), (2, (5, 96))]


def run(seed=0, tier="quick"):
    res = {"ok": True, "cases": 0, "samples": [], "name": "Model.fdSolve2/3 with the implementation's eigen-data vs solve; eigen-contract residuals",
           "worst_contract_residual": 0.0}
    cfgs = [(2, (3, 4)), (2, (5, 2)), (3, (2, 3, 4)), (3, (4, 2, 3))]
    if tier != "quick":
        cfgs += [(2, (6, 5)), (2, (2, 2)), (3, (3, 3, 5)), (3, (5, 4, 2))]
    reqs, expect, metas = [], [], []
    # ---- hypothesis of the theorems on the table of inverse eigenvalues, both precisions, short and long axes
    res["inverse_table_cases"] = 0
    for ci, (dim, shape) in enumerate(cfgs + LONG + ([(2, (128, 7)), (3, (20, 80, 6)), (3, (6, 6, 128))] if tier != "quick" else [])):
        r = impl.rng(seed, "fd-table", ci)
        for real_t in (np.float32, np.float64):
            dx = real_t([0.125, float(r.uniform(0.01, 0.5)), 1.0 / 64][ci % 3])
            s = make(dim, shape, dx, real_t)
            bad = inverse_table_contract(s, dim, shape, dx, real_t)
            res["inverse_table_cases"] += 1
            if bad:
                meta = {"dim": dim, "grid": list(shape), "dx": float(dx), "dtype": real_t.__name__}
                res.update(ok=False, detail=f"{meta}: {bad}", failing_case=meta)
                return res
    for ci, (dim, shape) in enumerate(cfgs):
        r = impl.rng(seed, "fd", ci)
        dx = float(r.uniform(0.05, 0.5)) if ci % 2 else [0.125, 0.0625, 0.5][ci % 3]
        real_t = np.float64
        make(dim, shape, np.float32(dx), np.float32)   # a solver of the other precision, same sizes and spacing, exists already
        s = make(dim, shape, dx, real_t)
        axes, inv = eigen_data(s, dim)
        meta = {"dim": dim, "grid": list(shape), "dx": dx}
        # ---- contract
        for (V, W), n in zip(axes, shape):
            A = neumann_matrix(n, dx)
            lam = np.diag(W @ A @ V)
            resid = max(np.abs(A @ V - V * lam).max(), np.abs(W @ V - np.eye(n)).max(), np.abs(V @ W - np.eye(n)).max()) * dx**2
            res["worst_contract_residual"] = max(res["worst_contract_residual"], float(resid))
            null_const = np.abs(V[:, -1] - V[0, -1]).max() / abs(V[0, -1])
            sorted_dec = bool(np.all(np.diff(lam) <= 1e-9 * np.abs(lam).max()))
            if V.dtype != real_t or np.iscomplexobj(V) or resid > 1e-9 or null_const > 1e-9 or not sorted_dec or abs(lam[-1]) * dx**2 > 1e-9:
                res.update(ok=False, detail=f"{meta}: eigen-data contract violated (residual {resid:.2e}, null vector constant to {null_const:.2e}, "
                                            f"sorted decreasing {sorted_dec}, dtype {V.dtype})", failing_case=meta)
                return res
        if not (inv.ravel()[-1] == 0 and np.all(np.isfinite(inv))):
            res.update(ok=False, detail=f"{meta}: inverse eigenvalue table: null mode not zeroed", failing_case=meta)
            return res
        f = r.normal(size=shape)
        u = r.normal(size=shape)                              # output arrays start dirty
        s.solve(solution_field=u, rhs_field=f.copy())
        full = (1,) + tuple(shape) if dim == 2 else tuple(shape)
        L = [f"dims {dim} {full[0]} {full[1]} {full[2]}"]
        for name, (V, W) in zip(["z", "y", "x"][-dim:], axes):
            for tag, M in (("V", V), ("W", W)):
                L.append(f"mat {tag}{name} {M.shape[0]} {M.shape[1]} " + " ".join(harness.fstr(v) for v in np.asarray(M, dtype=np.float64).ravel()))
        L.append("inv " + " ".join(harness.fstr(v) for v in np.asarray(inv, dtype=np.float64).ravel()))
        L.append("f " + " ".join(harness.fstr(v) for v in f.ravel()))
        L.append("run")
        reqs.append("\n".join(L) + "\n"); expect.append(u); metas.append(meta)
    p = subprocess.run(["lake", "env", "lean", "--run", "SophtVerif/Driver/FastDiag.lean"], cwd=harness.LEAN, input="".join(reqs),
                       capture_output=True, text=True, timeout=1200)
    if p.returncode != 0:
        raise RuntimeError(p.stderr[-1500:])
    outs = [l for l in p.stdout.splitlines() if l.startswith("u ")]
    if len(outs) != len(reqs):
        raise RuntimeError("fast-diag driver answered a different number of requests")
    for o, u, meta in zip(outs, expect, metas):
        m = np.array([float(Fraction(x)) for x in o.split(" ")[1:]]).reshape(u.shape)
        err = impl.relerr(u, m)
        if err > 1e-9:
            res.update(ok=False, detail=f"{meta}: solve differs from the model evaluated on the same eigen-data (rel. err {err:.3e})", failing_case=meta)
            return res
        res["cases"] += 1
        if len(res["samples"]) < 2:
            res["samples"].append({**meta, "rel_err_model_vs_impl": err})
    return res


def oracle(seed=0, tier="quick", aimed=None):
    cases = 0
    samples = []
    cfgs = [(2, (8, 8)), (2, (5, 9)), (2, (2, 7)), (3, (8, 8, 8)), (3, (4, 5, 6)), (3, (2, 3, 9)), (2, (16, 16)), (3, (6, 6, 4))]
    cfgs += LONG[:3]
    if tier != "quick":
        cfgs += [(2, (33, 12)), (3, (12, 7, 9)), (3, (16, 16, 16)), (2, (3, 3))] + LONG[3:] + [(2, (128, 7)), (3, (6, 6, 128))]
    for ci, (dim, shape) in enumerate(cfgs):
        r = impl.rng(seed, "c11", ci)
        dx = [1.0 / 16, 0.5, float(r.uniform(0.05, 0.5)), 0.125][ci % 4]
        # both construction orders of the two precisions (a solver of the other precision may exist already)
        order = [np.float32, np.float64] if ci % 2 == 0 else [np.float64, np.float32]
        for real_t in order:
            base_tol = 2e-11 if real_t == np.float64 else 5e-3
            s = make(dim, shape, real_t(dx), real_t)
            info = {"dim": dim, "grid": list(shape), "dx": dx, "dtype": real_t.__name__, "construction_order": [t.__name__ for t in order]}
            for k in range(2 + dim):
                if k < 2:
                    f = r.normal(size=shape).astype(real_t)
                else:
                    # the smoothest non-constant mode along one axis (the right-hand side closest to the null space)
                    ax = k - 2
                    n = shape[ax]
                    sh = [1] * dim; sh[ax] = n
                    f = np.broadcast_to(np.cos(np.pi * (np.arange(n) + 0.5) / n).reshape(sh), shape).astype(real_t)
                info["rhs"] = "random" if k < 2 else f"lowest cosine mode along axis {k - 2}"
                # the solution of the smoothest mode is ~ (n/pi)^2 dx^2 larger than its right-hand side: round-off in the
                # residual scales with eps * n^2 (measured: 1.2e-11 at n = 128 in float64, 5e-4 in float32)
                tol = base_tol if k < 2 else max(base_tol, 40 * float(np.finfo(real_t).eps) * max(shape) ** 2)
                u = r.normal(size=shape).astype(real_t)      # output arrays start dirty
                with warnings.catch_warnings():
                    warnings.simplefilter("ignore")
                    try:
                        s.solve(solution_field=u, rhs_field=f.copy())
                    except Exception as e:  # noqa: BLE001
                        return {"ok": False, "cases": cases, "samples": samples, "failing_input": {"oracle": "c11_solve_raises", **info, "error": repr(e)[:200]}}
                cases += 1
                f64 = f.astype(np.float64)
                resid = neumann_apply(u, float(real_t(dx))) - (f64 - f64.mean())
                scale = max(1.0, float(np.abs(f64).max()))
                what = None
                if u.dtype != real_t or np.iscomplexobj(u):
                    what = f"result dtype {u.dtype}"
                elif not np.all(np.isfinite(u)):
                    what = "non-finite result"
                elif np.abs(resid).max() / scale > tol:
                    what = f"Neumann Laplacian of the result differs from f - mean(f): residual {np.abs(resid).max() / scale:.3e} > {tol:.1e}"
                elif abs(float(u.astype(np.float64).mean())) > tol * dx**2 * scale * 50:
                    what = f"result mean {float(u.mean()):.3e} is not zero"
                if what:
                    return {"ok": False, "cases": cases, "samples": samples, "failing_input": {"oracle": "c11_neumann_problem", "what": what, **info}}
            if dim == 3:
                F = r.normal(size=(3,) + shape).astype(real_t)
                if ci % 2 == 0:
                    F[ci % 3] = 0            # a component with nothing to solve for (planar / axisymmetric set-ups): its solution is 0
                U = r.normal(size=F.shape).astype(real_t)   # the output array is reused from step to step in the simulator: it starts dirty
                with warnings.catch_warnings():
                    warnings.simplefilter("ignore")
                    s.vector_field_solve(solution_vector_field=U, rhs_vector_field=F.copy())
                    for c in range(3):
                        u1 = r.normal(size=shape).astype(real_t)
                        s.solve(solution_field=u1, rhs_field=F[c].copy())
                        cases += 1
                        if not np.array_equal(u1, U[c]):
                            return {"ok": False, "cases": cases, "samples": samples, "failing_input": {"oracle": "c11_vector_solve", **info, "component": c}}
        if len(samples) < 2:
            samples.append({"oracle": "c11", "dim": dim, "grid": list(shape), "dx": dx})
    return {"ok": True, "cases": cases, "failing_input": None, "samples": samples}


def replay(fi):
    return oracle(seed=fi.get("seed", 0), tier="thorough")
