"""C08 / C09: correspondence of Model/ForcingGrids.lean with the forcing-grid classes.

For every grid class (rod: element-centric, edge, surface with/without caps; rigid: 2D cylinder, 3D cylinder,
sphere, plane) on real PyElastica bodies whose state was changed after grid construction, the model is given
the body state (director Q, centre X, velocity V, body-frame angular velocity W per rigid section) and the
grid's OWN body-frame description of each marker (body-fixed coordinates / lab-fixed offset / (radius, ratio,
cos, sin) / (±radius, tangent)) together with random Lagrangian forces, as exact rationals.  The model's
markerPos, markerVel, netForce, bodyCouple, RodElement.nodalContributions and RodElement.centre are evaluated at ℚ
by Driver/ForcingGrids.lean and compared with position_field, velocity_field and the forces / torques written
by transfer_forcing_from_grid_to_body.  The nodal grid has no rigid sections (markers are the nodes); it is
compared directly (positions / velocities = nodes; force = −f per node)."""
import subprocess
import warnings
from fractions import Fraction

import numpy as np

from corr import harness
from oracles import c0809


def _q(v):
    return harness.fstr(float(v))


def _vec(a):
    a = np.asarray(a, dtype=np.float64).ravel()
    out = np.zeros(3)
    out[: a.size] = a
    return " ".join(_q(x) for x in out)


def _section(Q, X, V, W):
    return "section " + " ".join(_q(x) for x in np.asarray(Q).ravel()) + " " + _vec(X) + " " + _vec(V) + " " + _vec(W)


def _emit(kind, name, grid, body, dim, f):
    """returns (lines, layout): layout = list of sections, each (owner, [marker indices])"""
    lines, layout = [], []
    if kind == "rigid":
        Q = body.director_collection[:, :, 0]
        X = body.position_collection[:, 0].copy()
        V = body.velocity_collection[:, 0].copy()
        if dim == 2:
            X[2] = 0.0
            V[2] = 0.0
        lines.append(_section(Q, X, V, body.omega_collection[:, 0]))
        N = grid.num_lag_nodes
        for i in range(N):
            if name == "sphere":
                lines.append("lab " + _vec(grid.global_frame_relative_position_field[:, i]) + " " + _vec(f[:, i]))
            else:
                lines.append("fixed " + _vec(grid.local_frame_relative_position_field[:, i]) + " " + _vec(f[:, i]))
        lines.append("end " + _vec(X) + " " + _vec(X))
        layout.append((0, list(range(N))))
        return lines, layout
    rod = body
    n = rod.n_elems
    ve = c0809.elem_velocity(rod)
    for e in range(n):
        x0, x1 = rod.position_collection[:, e], rod.position_collection[:, e + 1]
        lines.append(_section(rod.director_collection[:, :, e], 0.5 * (x0 + x1), ve[:, e], rod.omega_collection[:, e]))
        if name == "element":
            idx = [e]
            lines.append("lab 0 0 0 " + _vec(f[:, e]))
        elif name == "edge":
            idx = [e, n + e, 2 * n + e]
            lines.append("lab 0 0 0 " + _vec(f[:, e]))
            lines.append(f"edge {_q(rod.radius[e])} " + _vec(rod.tangents[:, e]) + " " + _vec(f[:, n + e]))
            lines.append(f"edge {_q(-rod.radius[e])} " + _vec(rod.tangents[:, e]) + " " + _vec(f[:, 2 * n + e]))
        else:
            idx = list(range(int(grid.start_idx[e]), int(grid.end_idx[e])))
            for i in idx:
                c, s = grid.local_frame_surface_points[0, i], grid.local_frame_surface_points[1, i]
                lines.append(f"surface {_q(rod.radius[e])} {_q(grid.grid_point_radius_ratio[i])} {_q(c)} {_q(s)} " + _vec(f[:, i]))
        lines.append("end " + _vec(x0) + " " + _vec(x1))
        layout.append((e, idx))
    return lines, layout


def _run_model(lines):
    p = subprocess.run(["lake", "env", "lean", "--run", "SophtVerif/Driver/ForcingGrids.lean"], cwd=harness.LEAN,
                       input="\n".join(lines) + "\n", capture_output=True, text=True, timeout=1500)
    if p.returncode != 0:
        raise RuntimeError(p.stderr[-1500:])
    out = [l.split() for l in p.stdout.splitlines() if l[:2] in ("m ", "F ", "T ", "H ", "C ") or l.startswith("bad")]
    return out


def _f(tok):
    return float(Fraction(tok))


def run(seed=0, tier="quick"):
    res = {"ok": True, "cases": 0, "samples": [], "name": "Model.ForcingGrids vs forcing-grid classes (positions, velocities, force / couple transfer)"}
    todo = []
    lines = []
    dist = {}
    with warnings.catch_warnings():
        warnings.simplefilter("ignore")
        for kind, name, grid, body, dim, info, fixed, r in c0809.gen_cases(seed + 17, tier):
            grid.compute_lag_grid_position_field()
            grid.compute_lag_grid_velocity_field()
            N = grid.num_lag_nodes
            f = r.normal(size=(dim, N))
            nn = body.n_elems + 1 if kind == "rod" else 1
            F = r.normal(size=(3, nn))          # dirty outputs: the transfer must overwrite them
            T = r.normal(size=(3, max(nn - 1, 1)))
            if kind == "rod" and name in ("nodal", "element"):
                T[...] = 0.0                    # documented: these grids leave the couples as initialised (zero)
            grid.transfer_forcing_from_grid_to_body(body_flow_forces=F, body_flow_torques=T, lag_grid_forcing_field=f.copy())
            rec = {"kind": kind, "name": name, "dim": dim, "info": {k: str(v) for k, v in info.items()}, "N": int(N),
                   "X": grid.position_field.copy(), "Vm": grid.velocity_field.copy(), "F": F, "T": T, "f": f}
            dist[name] = dist.get(name, 0) + 1
            if kind == "rod" and name == "nodal":
                # no rigid section: markers are the nodes
                ok = (np.array_equal(grid.position_field, body.position_collection[:dim]) and
                      np.array_equal(grid.velocity_field, body.velocity_collection[:dim]) and
                      np.array_equal(F[:dim], -f))
                res["cases"] += 1
                if not ok:
                    res.update(ok=False, detail=f"nodal grid: markers are not the nodes / force is not -f per node ({info})",
                               failing_case={"grid": "nodal", **rec["info"]})
                    return res
                continue
            ls, layout = _emit(kind, name, grid, body, dim, f)
            rec["layout"] = layout
            rec["Q"] = body.director_collection.copy()
            lines += ls
            todo.append(rec)
    out = _run_model(lines)
    pos = 0
    tol = 1e-11
    for rec in todo:
        dim, name = rec["dim"], rec["name"]
        nn = rec["F"].shape[1]
        Fm = np.zeros((3, nn))
        Tm = np.zeros_like(rec["T"])
        for owner, idx in rec["layout"]:
            for i in idx:
                row = out[pos]; pos += 1
                if row[0] != "m":
                    res.update(ok=False, detail=f"model driver protocol error at {row}")
                    return res
                p = np.array([_f(t) for t in row[1:4]]); v = np.array([_f(t) for t in row[4:7]])
                if np.abs(p[:dim] - rec["X"][:, i]).max() > tol * (1 + np.abs(p).max()):
                    res.update(ok=False, detail=f"{name}: marker {i} position: implementation {rec['X'][:, i].tolist()}, model {p[:dim].tolist()}",
                               failing_case={"grid": name, "marker": i, "quantity": "position", **rec["info"]})
                    return res
                if np.abs(v[:dim] - rec["Vm"][:, i]).max() > tol * (1 + np.abs(v).max()):
                    res.update(ok=False, detail=f"{name}: marker {i} velocity: implementation {rec['Vm'][:, i].tolist()}, model {v[:dim].tolist()}",
                               failing_case={"grid": name, "marker": i, "quantity": "velocity", **rec["info"]})
                    return res
            rows = {o[0]: np.array([_f(t) for t in o[1:4]]) for o in out[pos:pos + 4]}
            pos += 4
            if set(rows) != {"F", "T", "H", "C"}:
                res.update(ok=False, detail="model driver protocol error (section summary)")
                return res
            if rec["kind"] == "rigid":
                Fm[:, 0] = rows["F"]; Tm[:, 0] = rows["T"]
            else:
                Fm[:, owner] += rows["H"]; Fm[:, owner + 1] += rows["H"]; Tm[:, owner] = rows["T"]
        Fi, Ti = rec["F"], rec["T"]
        if dim == 2 and rec["kind"] == "rigid":
            # the 2D cylinder writes the in-plane force and the z torque only; the other entries are the caller's
            cmpF = (Fi[:2], Fm[:2]); cmpT = (Ti[2:], Tm[2:])
        elif dim == 2:
            cmpF = (Fi[:2], Fm[:2]); cmpT = (Ti, Tm)
            if Fi[2:].any():
                res.update(ok=False, detail=f"{name}: out-of-plane nodal force not zero", failing_case={"grid": name, **rec["info"]})
                return res
        else:
            cmpF = (Fi, Fm); cmpT = (Ti, Tm)
        scale = 1 + np.abs(rec["f"]).sum()
        for what, (a, b) in (("force", cmpF), ("couple", cmpT)):
            if np.abs(a - b).max() > tol * scale:
                res.update(ok=False, detail=f"{name}: transferred {what}: implementation {a.tolist()}, model {b.tolist()}",
                           failing_case={"grid": name, "quantity": what, **rec["info"]})
                return res
        res["cases"] += 1
        if len(res["samples"]) < 3:
            res["samples"].append({"grid": name, "markers": rec["N"], **rec["info"]})
    res["distribution"] = dist
    return res
