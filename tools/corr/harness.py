"""Program correspondence: real implementation (traced, executed through the shim) vs. the Lean program
models (trace printed and executed at ℚ by Driver/Prog2D.lean / Prog3D.lean).

A *case* is a dict
  prog   : model program name (dispatch key of the Lean driver)
  args   : {key: value} — ints, bools, Fractions/floats (sent exactly)
  bufs   : {buffer name: ndarray}; 2D driver: arrays are (ny,nx); a vector array (2,ny,nx) is given as
           name -> array and expanded to name.x / name.y; complex arrays expand to name.re / name.im
  run    : callable() executing the real code on those arrays (in place)
  label  : free text
Compared: (1) the kernel-call trace, exactly (kernel id, iteration region in buffer coordinates, formal ↦
buffer binding, scalar arguments within a few ulp); (2) every buffer after execution, numerically.
"""
from __future__ import annotations

import os
import subprocess
import sys
from fractions import Fraction

import numpy as np

HERE = os.path.dirname(os.path.abspath(__file__))
TOOLS = os.path.dirname(HERE)
ROOT = os.path.dirname(TOOLS)
LEAN = os.path.join(ROOT, "lean")
sys.path.insert(0, TOOLS)
import shim
import translate

COMP = {2: ["x", "y"], 3: ["x", "y", "z"]}


def frac(v):
    if isinstance(v, Fraction):
        return v
    if isinstance(v, (bool, np.bool_)):
        return Fraction(int(v))
    if isinstance(v, (int, np.integer)):
        return Fraction(int(v))
    return Fraction(float(v))


def fstr(v):
    f = frac(v)
    return str(f.numerator) if f.denominator == 1 else f"{f.numerator}/{f.denominator}"


def expand_bufs(bufs, dim):
    """name -> ndarray (scalar / vector / complex) to flat {name: real dim-D array view}"""
    out = {}
    for n, a in bufs.items():
        if np.iscomplexobj(a):
            out[n + ".re"] = a.real
            out[n + ".im"] = a.imag
        elif a.ndim == dim + 1:
            for c in range(a.shape[0]):
                out[f"{n}.{COMP[dim][c]}"] = a[c]
        elif a.ndim == dim:
            out[n] = a
        else:
            raise ValueError(f"buffer {n} has unexpected rank {a.ndim}")
    return out


class Resolver:
    """identify which registered buffer an array argument is a view of, and where"""

    def __init__(self, flat):
        self.flat = flat
        self.items = []
        for n, b in flat.items():
            addr = b.__array_interface__["data"][0]
            self.items.append((n, b, addr))

    def resolve(self, a):
        """-> (name, origin tuple) for a dim-D real view `a` with the base's strides"""
        addr = a.__array_interface__["data"][0]
        for n, b, baddr in self.items:
            if a.ndim != b.ndim or a.dtype != b.dtype:
                continue
            if tuple(a.strides) != tuple(b.strides):
                continue
            off = addr - baddr
            if off < 0:
                continue
            origin = []
            rem = off
            ok = True
            for st, sh, ash in zip(b.strides, b.shape, a.shape):
                q, rem = divmod(rem, st) if st else (0, rem)
                if q + ash > sh:
                    ok = False
                    break
                origin.append(int(q))
            if ok and rem == 0:
                return n, tuple(origin)
        return None, None


class Tracer:
    def __init__(self, flat, dim):
        self.res = Resolver(flat)
        self.dim = dim
        self.lines = []
        self.kernel_writes = []
        self.overlaps = []

    def __call__(self, k, kwargs):
        dim = self.dim
        name = translate.lean_kernel_name(k)
        formals = sorted(k.fields)
        binds = []
        origin = None
        shape = None
        problems = []
        arrays = []
        for f in formals:
            a = kwargs[f]
            comps = [a] if a.ndim == dim else [a[c] for c in range(a.shape[0])]
            for c in comps:
                bn, org = self.res.resolve(c)
                if bn is None:
                    problems.append(f"unresolved:{f}")
                    bn, org = "?", (0,) * dim
                binds.append((f, bn))
                arrays.append((f, c))
                if origin is None:
                    origin, shape = org, c.shape
                elif org != origin or c.shape != shape:
                    problems.append(f"misaligned:{f}")
        reg = k.region(kwargs[formals[0]].shape)[-dim:]
        if any(hi <= lo for lo, hi in k.region(kwargs[formals[0]].shape)):
            rs = "empty"
        else:
            rs = ",".join(f"{lo + o}:{hi + o}" for (lo, hi), o in zip(reg, origin))
        scal = [(s.name, kwargs[s.name]) for s in k.scalars]
        # aliasing facts for C15: a written array overlapping another bound array
        writes = set(k.writes)
        for f, a in arrays:
            if f in writes:
                for g, b in arrays:
                    if g != f and np.shares_memory(a, b):
                        same = (a.__array_interface__["data"][0] == b.__array_interface__["data"][0]
                                and a.strides == b.strides and a.shape == b.shape)
                        centre_only = k.reads.get(g, set()) <= {(0,) * k.ndim}
                        self.overlaps.append({"kernel": name, "written": f, "other": g, "identical": bool(same),
                                              "other_read_at_centre_only": bool(centre_only)})
        self.lines.append({"kid": name, "region": rs, "binds": binds, "scal": scal, "problems": problems})
        self.kernel_writes.append(set(k.writes))


def run_driver(driver, requests, timeout=1800):
    """requests: list of (prog, args, flat bufs or None, trace_only) -> list of (trace lines, out bufs)"""
    text = []
    for prog, args, flat, trace_only in requests:
        toks = [f"{k}={_argstr(v)}" for k, v in args.items()]
        if trace_only:
            toks.append("trace_only=1")
        text.append("prog " + prog + " " + " ".join(toks))
        for n, a in (flat or {}).items():
            vals = " ".join(fstr(v) for v in np.asarray(a, dtype=np.float64).ravel())
            text.append(f"buf {n} " + " ".join(str(s) for s in a.shape) + " " + vals)
        text.append("run")
    p = subprocess.run(["lake", "env", "lean", "--run", f"SophtVerif/Driver/{driver}.lean"], cwd=LEAN,
                       input="\n".join(text) + "\n", capture_output=True, text=True, timeout=timeout)
    if p.returncode != 0:
        raise RuntimeError("driver failed: " + (p.stdout + p.stderr)[-2000:])
    results = []
    cur_calls, cur_bufs = [], {}
    for line in p.stdout.splitlines():
        if line.startswith("call "):
            parts = [x.strip() for x in line[5:].split("|")]
            binds = [tuple(b.split("=")) for b in parts[2].split(",")] if parts[2] else []
            scal = [tuple(b.split("=")) for b in parts[3].split(",")] if len(parts) > 3 and parts[3] else []
            cur_calls.append({"kid": parts[0], "region": parts[1], "binds": binds, "scal": scal})
        elif line.startswith("buf "):
            t = line.split(" ")
            nd = 2 if driver.endswith("2D") else 3
            shape = tuple(int(x) for x in t[2:2 + nd])
            vals = np.array([float(Fraction(x)) for x in t[2 + nd:]], dtype=np.float64).reshape(shape)
            cur_bufs[t[1]] = vals
        elif line.startswith("done"):
            results.append((cur_calls, cur_bufs))
            cur_calls, cur_bufs = [], {}
        elif line.startswith("error"):
            raise RuntimeError("driver: " + line)
    if len(results) != len(requests):
        raise RuntimeError(f"driver answered {len(results)} of {len(requests)} requests: " + p.stderr[-1000:])
    return results


def _argstr(v):
    if isinstance(v, (bool, np.bool_)):
        return "1" if v else "0"
    if isinstance(v, str):
        return v
    return fstr(v)


BAKED = {"blend_width", "dx", "x_grid_field_start", "x_grid_field_end", "y_grid_field_start", "y_grid_field_end",
         "z_grid_field_start", "z_grid_field_end"}  # generator-time parameters: constants of the runtime kernel


def compare_trace(impl_lines, model_calls, real_t):
    """-> None or description of the first difference"""
    model = [c for c in model_calls if not c["kid"].startswith("numpy:")]
    eps = float(np.finfo(real_t).eps)
    for n, (a, b) in enumerate(zip(impl_lines, model)):
        if a["problems"]:
            return f"call {n} ({a['kid']}): implementation passes arrays the model cannot express: {a['problems']}"
        if a["kid"] != b["kid"]:
            return f"call {n}: implementation calls {a['kid']}, model calls {b['kid']}"
        if a["region"] != b["region"]:
            return f"call {n} ({a['kid']}): implementation region {a['region']}, model region {b['region']}"
        if [tuple(x) for x in a["binds"]] != [tuple(x) for x in b["binds"]]:
            return f"call {n} ({a['kid']}): bindings differ: implementation {a['binds']} model {b['binds']}"
        sa = dict(a["scal"])
        sb = {k_: v_ for k_, v_ in dict(b["scal"]).items() if k_ in sa or k_ not in BAKED}
        if set(sa) != set(sb):
            return f"call {n} ({a['kid']}): scalar names differ {sorted(sa)} vs {sorted(sb)}"
        for k in sa:
            va = float(sa[k])
            vb = float(Fraction(sb[k]))
            if not abs(va - vb) <= 8 * eps * max(abs(va), abs(vb), 1e-300):
                return f"call {n} ({a['kid']}): scalar {k}: implementation {va!r}, model {vb!r}"
    if len(impl_lines) != len(model):
        return f"implementation issues {len(impl_lines)} kernel calls, model {len(model)}"
    return None


def compare_bufs(impl_flat, model_bufs, real_t, nops=50):
    eps = float(np.finfo(real_t).eps)
    worst = 0.0
    for n, a in impl_flat.items():
        if n not in model_bufs:
            return f"model returned no buffer {n}", worst
        m = model_bufs[n]
        a64 = np.asarray(a, dtype=np.float64)
        if a64.shape != m.shape:
            return f"buffer {n}: shapes {a64.shape} vs {m.shape}", worst
        scale = max(1.0, float(np.max(np.abs(m))) if m.size else 1.0)
        with np.errstate(all="ignore"):
            d = np.abs(a64 - m)
        if not np.all(np.isfinite(a64)):
            return f"buffer {n}: implementation produced non-finite values", float("inf")
        err = float(np.max(d)) / scale if d.size else 0.0
        worst = max(worst, err)
        if err > 64 * nops * eps:
            idx = np.unravel_index(int(np.argmax(d)), d.shape)
            return (f"buffer {n} differs at {tuple(int(i) for i in idx)}: implementation {a64[idx]!r}, "
                    f"model {m[idx]!r} (rel. err {err:.3e}, tolerance {64 * nops * eps:.3e})"), worst
    return None, worst


PADS = []  # (big array, index tuple of the view) registered by padded() since the last take_pads()


def padded(r, shape, dtype, sentinel=True):
    """random array of `shape` as a strided (non-contiguous) view into a larger sentinel-filled array"""
    lead = len(shape) - (2 if len(shape) <= 3 and shape[0] in (2, 3) and len(shape) == 3 else len(shape))
    pad_lo = [0 if (len(shape) >= 3 and k == 0 and shape[0] in (2, 3)) else int(r.integers(1, 3)) for k in range(len(shape))]
    pad_hi = [0 if (len(shape) >= 3 and k == 0 and shape[0] in (2, 3)) else int(r.integers(1, 4)) for k in range(len(shape))]
    big = np.full(tuple(n + a + b for n, a, b in zip(shape, pad_lo, pad_hi)), np.nan, dtype=dtype)
    if sentinel:
        # NaN payload pattern: any write (even of a NaN) of a different bit pattern is detectable
        raw = big.view(np.uint64 if dtype == np.float64 else np.uint32)
        raw += np.arange(raw.size, dtype=raw.dtype).reshape(raw.shape) % 1000 + 1
    idx = tuple(slice(a, a + n) for n, a in zip(shape, pad_lo))
    view = big[idx]
    view[...] = r.normal(size=shape).astype(dtype)
    PADS.append((big, idx))
    return view


def take_pads():
    out = list(PADS)
    PADS.clear()
    return out


def _bits(a):
    return np.ascontiguousarray(a).view(np.uint8)


def check_frame(case, flat, before, trace_lines, dim):
    """bit-identity of (1) the padding around strided views, (2) every cell of every buffer that lies
    outside all iteration regions in which the buffer was bound to a written formal (numpy statements of the
    wrapper are declared by the case as `numpy_regions`)"""
    for big, idx, snap in case.get("_pad_snaps", []):
        mask = np.ones(big.shape, dtype=bool)
        mask[idx] = False
        if not np.array_equal(_bits(big[mask]), _bits(snap[mask])):
            return "padding around a strided view was modified"
    written = {n: np.zeros(a.shape, dtype=bool) for n, a in flat.items()}
    for l, k in trace_lines:
        if l["region"] == "empty":
            continue
        reg = tuple(slice(*(int(x) for x in part.split(":"))) for part in l["region"].split(","))
        for formal, bn in l["binds"]:
            if formal in k and bn in written:
                written[bn][reg] = True
    for bn, regs in (case.get("numpy_regions") or {}).items():
        for reg in regs:
            written[bn][reg] = True
    for n, a in flat.items():
        m = ~written[n]
        if not np.array_equal(_bits(np.asarray(a)[m]), _bits(before[n][m])):
            cells = np.argwhere(m & (np.asarray(a).view(np.uint64 if a.dtype == np.float64 else np.uint32)
                                     != before[n].view(np.uint64 if a.dtype == np.float64 else np.uint32)))
            return f"buffer {n} modified outside every written region, e.g. at {cells[0].tolist() if len(cells) else '?'}"
    return None


def run_cases(driver, cases, dim, real_t=np.float64):
    """executes every case on the implementation (traced) and on the model; returns result dict"""
    requests = []
    traces = []
    finals = []
    overlaps = []
    impl_failure = None  # first concrete failing input found on the implementation (reference / frame)
    for c in cases:
        flat = expand_bufs(c["bufs"], dim)
        before = {n: np.array(a, copy=True) for n, a in flat.items()}
        before_named = {n: np.array(a, copy=True) for n, a in c["bufs"].items()}
        c["_pad_snaps"] = [(big, idx, big.copy()) for big, idx in c.get("pads", [])]
        tr = Tracer(flat, dim)
        shim.TRACERS.append(tr)
        raised = None
        try:
            c["run"]()
        except Exception as e:  # noqa: BLE001
            raised = e
        finally:
            shim.TRACERS.remove(tr)
        if raised is not None:
            # the code under test raised on an admissible case: that is a concrete failing input; the other cases are still run
            c["_skipped"] = True
            if impl_failure is None:
                impl_failure = {"ok": False, "cases": len(traces), "samples": [], "worst_rel_err": 0.0, "kernel_calls": 0,
                                "name": "implementation raised on an admissible case",
                                "detail": f"{c['label']}: the implementation raised {type(raised).__name__}: {str(raised)[:300]}",
                                "failing_input": {"oracle": "kernel_raises", "case": c["label"], "error": f"{type(raised).__name__}: {str(raised)[:300]}",
                                                  "args": {k_: _argstr(v_) for k_, v_ in c["args"].items()},
                                                  "inputs": {m: np.asarray(a).tolist() for m, a in before_named.items()}}}
            continue
        traces.append(tr.lines)
        overlaps.append(tr.overlaps)
        finals.append({n: np.array(a, copy=True) for n, a in flat.items()})
        requests.append((c["prog"], c["args"], before, False))
        if c.get("ref") is not None:
            exp = c["ref"](before_named)
            rt = c.get("real_t", real_t)
            eps = float(np.finfo(rt).eps)
            for n, e in exp.items():
                got = np.asarray(c["bufs"][n], dtype=np.float64)
                e = np.asarray(e, dtype=np.float64)
                scale = max(1.0, float(np.max(np.abs(e))) if e.size else 1.0)
                with np.errstate(all="ignore"):
                    d = np.abs(got - e)
                bad = ~(d <= 4096 * eps * scale)
                if np.any(bad) and impl_failure is None:
                    idx = tuple(int(i) for i in np.argwhere(bad)[0])
                    impl_failure = {"ok": False, "cases": len(traces), "samples": [], "worst_rel_err": float(np.nanmax(d) / scale),
                            "kernel_calls": 0, "name": "implementation vs independent reference",
                            "detail": f"{c['label']}: implementation differs from the documented operator in buffer {n} at {idx}: "
                                      f"got {got[idx]!r}, reference {e[idx]!r}",
                            "failing_input": {"oracle": "reference", "case": c["label"], "buffer": n, "cell": list(idx),
                                              "got": float(got[idx]), "reference": float(e[idx]),
                                              "args": {k_: _argstr(v_) for k_, v_ in c["args"].items()},
                                              "inputs": {m: np.asarray(a).tolist() for m, a in before_named.items()}}}
        fr = check_frame(c, flat, before, list(zip(tr.lines, tr.kernel_writes)), dim)
        if fr is not None and impl_failure is None:
            impl_failure = {"ok": False, "cases": len(traces), "samples": [], "worst_rel_err": 0.0, "kernel_calls": 0,
                    "detail": f"{c['label']}: {fr}", "failing_input": {"oracle": "frame", "case": c["label"], "what": fr,
                                                                        "args": {k_: _argstr(v_) for k_, v_ in c["args"].items()}}}
    try:
        results = run_driver(driver, requests)
    except Exception as e:  # noqa: BLE001
        if impl_failure is not None:
            impl_failure["detail"] += f" (model driver unavailable: {str(e)[-300:]})"
            return impl_failure
        raise
    out = {"ok": True, "cases": len(cases), "samples": [], "worst_rel_err": 0.0, "kernel_calls": 0, "overlaps": overlaps}
    for c, tr, fin, (mcalls, mbufs) in zip([c_ for c_ in cases if not c_.get("_skipped")], traces, finals, results):
        out["kernel_calls"] += len(tr)
        d = compare_trace(tr, mcalls, c.get("real_t", real_t))
        if d is None:
            d, worst = compare_bufs(fin, mbufs, c.get("real_t", real_t), nops=max(50, 10 * len(tr)))
            out["worst_rel_err"] = max(out["worst_rel_err"], worst)
        if d is not None:
            out["ok"] = False
            out["detail"] = f"{c['label']}: {d}"
            out["failing_case"] = {"label": c["label"], "prog": c["prog"],
                                   "args": {k: _argstr(v) for k, v in c["args"].items()}}
            if impl_failure is not None:
                out["detail"] += " || " + impl_failure["detail"]
                out["failing_input"] = impl_failure["failing_input"]
            return out
        if len(out["samples"]) < 3:
            pass
        if len(out["samples"]) < 3:
            out["samples"].append({"case": c["label"], "prog": c["prog"],
                                   "args": {k: _argstr(v) for k, v in c["args"].items()},
                                   "trace_head": [f"{l['kid']} {l['region']} {l['binds']}" for l in tr[:3]],
                                   "kernel_calls": len(tr)})
    if impl_failure is not None:
        impl_failure["cases"] = len(cases)
        return impl_failure
    return out
