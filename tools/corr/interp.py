"""C06 / C07: numeric correspondence of Model/Interp.lean with the numba Eulerian–Lagrangian grid
communicators (2D and 3D, cosine and Peskin kernels, both precisions), and the oracles that evaluate the
properties' observable statements directly on the implementation."""
from __future__ import annotations

import itertools
import subprocess
from fractions import Fraction

import numpy as np

import impl
from corr import harness

import sopht.numeric.immersed_boundary_ops as ibo


KINDS = ["random", "centre", "face", "centre+ulp", "centre-ulp", "cluster", "duplicate", "edge_lo", "edge_hi", "centre_one_axis"]


def make_markers(r, dim, shape, dx, shift, n, real_t):
    """marker positions at least two cells inside the domain: random, on cell centres / faces, ± 1–2 ulp,
    clustered in one cell and duplicated"""
    # admissible interior = at least two cells inside the domain [shift - dx/2, shift - dx/2 + ncell*dx]
    lo = shift + 1.5 * dx
    pos = np.zeros((dim, n), dtype=np.float64)
    for a in range(dim):
        ncell = shape[dim - 1 - a]
        hi = shift + (ncell - 2.5) * dx
        pos[a] = r.uniform(lo, hi, size=n)
    kinds = []
    for m in range(n):
        kind = KINDS[m % len(KINDS)]
        kinds.append(kind)
        one = int(r.integers(0, dim)) if m % 2 else 0     # the single axis of a `centre_one_axis` marker (x every other time)
        for a in range(dim):
            ncell = shape[dim - 1 - a]
            c = int(r.integers(2, ncell - 3))
            if kind == "centre" or (kind == "centre_one_axis" and a == one):
                pos[a, m] = c * dx + shift
            elif kind == "face":
                pos[a, m] = (c + 0.5) * dx + shift
            elif kind == "centre+ulp":
                v = real_t(c * dx + shift)
                pos[a, m] = np.nextafter(np.nextafter(v, real_t(np.inf)), real_t(np.inf))
            elif kind == "centre-ulp":
                v = real_t(c * dx + shift)
                pos[a, m] = np.nextafter(v, real_t(-np.inf))
            elif kind == "cluster":
                pos[a, m] = (2 + r.uniform(0, 1)) * dx + shift + dx
            elif kind == "duplicate" and m > 0:
                pos[a, m] = pos[a, m - 1]
            elif kind == "edge_lo":   # just inside the lower admissible bound (two cells from the edge)
                pos[a, m] = shift + (1.5 + r.uniform(0.0, 0.45)) * dx
            elif kind == "edge_hi":
                pos[a, m] = shift + (ncell - 2.5 - r.uniform(0.0, 0.45)) * dx
    return pos.astype(real_t), kinds


class CommunicatorRaised(Exception):
    """a communicator kernel raised on admissible markers (at least two cells inside the grid): carries the failing input"""

    def __init__(self, failing_input):
        super().__init__(failing_input["what"])
        self.failing_input = failing_input


def run_impl(dim, shape, dx, shift, kernel, real_t, pos, u, uvec, F, Fvec, E0, E0vec):
    try:
        return _run_impl_raw(dim, shape, dx, shift, kernel, real_t, pos, u, uvec, F, Fvec, E0, E0vec)
    except Exception as e:  # noqa: BLE001
        import traceback

        tb = traceback.format_exc()
        stage = [l.strip() for l in tb.splitlines() if "_kernel(" in l]
        raise CommunicatorRaised({"oracle": "communicator_raises", "what": f"a communicator kernel raised {type(e).__name__}: {str(e)[:200]} on markers that are "
                                  "at least two cells inside the grid", "stage": stage[-1][:160] if stage else None, "dim": dim, "kernel": kernel,
                                  "dtype": real_t.__name__, "grid": list(shape), "dx": float(dx), "shift": float(shift), "positions": np.asarray(pos).tolist()}) from e


def _run_impl_raw(dim, shape, dx, shift, kernel, real_t, pos, u, uvec, F, Fvec, E0, E0vec):
    """returns dict with idx, weights (window arrays), interp scalar/vector, spread scalar/vector (two calls)"""
    n = pos.shape[1]
    cls = ibo.EulerianLagrangianGridCommunicator2D if dim == 2 else ibo.EulerianLagrangianGridCommunicator3D
    cs = cls(dx=dx, eul_grid_coord_shift=shift, num_lag_nodes=n, interp_kernel_width=2, real_t=real_t,
             n_components=1, interp_kernel_type=kernel)
    cv = cls(dx=dx, eul_grid_coord_shift=shift, num_lag_nodes=n, interp_kernel_width=2, real_t=real_t,
             n_components=dim, interp_kernel_type=kernel)
    sup = np.zeros((dim,) + (4,) * dim + (n,), dtype=real_t)
    idx = np.zeros((dim, n), dtype=int)
    cs.local_eulerian_grid_support_of_lagrangian_grid_kernel(sup, idx, pos)
    dist = sup.copy()
    w = np.zeros((4,) * dim + (n,), dtype=real_t)
    cs.interpolation_weights_kernel(w, sup)
    ins = {"interp_weights": w, "nearest_eul_grid_index_to_lag_grid": idx, "lag_positions": pos, "eul_grid_field": u, "eul_grid_field(vector)": uvec,
           "lag_grid_field": F, "lag_grid_field(vector)": Fvec}
    before = {k_: np.array(v_, copy=True) for k_, v_ in ins.items()}
    modified = []

    def frame(after_call):
        for k_, v_ in ins.items():
            if v_.tobytes() != before[k_].tobytes() and not any(m_[0] == k_ for m_ in modified):
                modified.append((k_, after_call))

    li = np.zeros(n, dtype=real_t)
    cs.eulerian_to_lagrangian_grid_interpolation_kernel(li, u, w, idx); frame("scalar interpolation")
    lv = np.zeros((dim, n), dtype=real_t)
    cv.eulerian_to_lagrangian_grid_interpolation_kernel(lv, uvec, w, idx); frame("vector interpolation")
    E = E0.copy()
    cs.lagrangian_to_eulerian_grid_interpolation_kernel(E, F, w, idx); frame("scalar spreading")
    E1 = E.copy()
    cs.lagrangian_to_eulerian_grid_interpolation_kernel(E, F, w, idx); frame("second scalar spreading")
    Ev = E0vec.copy()
    cv.lagrangian_to_eulerian_grid_interpolation_kernel(Ev, Fvec, w, idx); frame("vector spreading")
    # interpolate once more AFTER the spreads with the same weights (adjointness is a statement about one set of weights)
    li2 = np.zeros(n, dtype=real_t)
    cs.eulerian_to_lagrangian_grid_interpolation_kernel(li2, u, w, idx)
    if li2.tobytes() != li.tobytes() and not modified:
        modified.append(("(interpolation result changed after spreading)", "scalar spreading"))
    return {"idx": idx, "dist": dist, "w": before["interp_weights"], "interp": li, "interp_vec": lv, "spread1": E1, "spread2": E, "spread_vec": Ev,
            "modified_inputs": modified}


def dense_weights(dim, shape, idx, w):
    """scatter the window weights of every marker onto absolute cells: (n, *shape)"""
    n = idx.shape[1]
    out = np.zeros((n,) + tuple(shape), dtype=np.float64)
    for m in range(n):
        if dim == 2:
            ix, iy = idx[0, m], idx[1, m]
            out[m, iy - 1:iy + 3, ix - 1:ix + 3] += w[..., m]
        else:
            ix, iy, iz = idx[0, m], idx[1, m], idx[2, m]
            out[m, iz - 1:iz + 3, iy - 1:iy + 3, ix - 1:ix + 3] += w[..., m]
    return out


def model(dim, shape, dx, shift, kernel, pos, u, E0, F):
    n = pos.shape[1]
    full = (1,) + tuple(shape) if dim == 2 else tuple(shape)
    lines = [f"grid {dim} {full[0]} {full[1]} {full[2]} {harness.fstr(dx)} {harness.fstr(shift)} {kernel}",
             "u " + " ".join(harness.fstr(v) for v in np.asarray(u, dtype=np.float64).ravel()),
             "e0 " + " ".join(harness.fstr(v) for v in np.asarray(E0, dtype=np.float64).ravel())]
    for m in range(n):
        lines.append("marker " + harness.fstr(F[m]) + " " + " ".join(harness.fstr(pos[a, m]) for a in range(dim)))
    lines.append("run")
    return "\n".join(lines) + "\n"


def parse_model(out, nreq, shapes, ns):
    res = []
    cur = {"idx": {}, "wmap": {}}
    for line in out.splitlines():
        t = line.split(" ")
        if t[0] == "idx":
            cur["idx"][int(t[1])] = [int(x) for x in t[2:5]]
        elif t[0] == "wmap":
            cur["wmap"][int(t[1])] = np.array([float(Fraction(x)) for x in t[2:]])
        elif t[0] == "interp":
            cur["interp"] = np.array([float(Fraction(x)) for x in t[1:]])
        elif t[0] == "spread":
            cur["spread"] = np.array([float(Fraction(x)) for x in t[1:]])
        elif t[0] == "done":
            res.append(cur)
            cur = {"idx": {}, "wmap": {}}
    if len(res) != nreq:
        raise RuntimeError(f"interp driver answered {len(res)} of {nreq}")
    return res


def _configs(seed, tier):
    cfgs = []
    k = 0
    for dim in (2, 3):
        for kernel in ("cosine", "peskin"):
            for real_t in (np.float64, np.float32):
                for rep in range(1 if tier == "quick" else 3):
                    cfgs.append((dim, kernel, real_t, k))
                    k += 1
    return cfgs


def _setup(seed, dim, kernel, real_t, k, dyadic=None):
    """dyadic: power-of-two spacing and dyadic grid shift, so that markers on cell centres sit at scaled distances of exactly
    0, 1 and 2 from the cells of their window in floating point (the break points of the piecewise kernels)"""
    r = impl.rng(seed, "interp", k)
    shape = tuple(int(v) for v in r.integers(9, 13, size=dim)) if dim == 2 else tuple(int(v) for v in r.integers(8, 11, size=3))
    if len(set(shape)) < dim:
        shape = tuple(shape[0] + i for i in range(dim))
    dx = real_t(r.uniform(0.05, 0.5))
    shift = real_t(dx / 2) if k % 3 else real_t(r.uniform(0, 0.3))
    if dyadic is None:
        dyadic = (k + seed) % 2 == 1
    if dyadic:
        dx = real_t([0.0625, 0.125, 0.25, 0.03125][(k // 2 + seed) % 4])
        shift = real_t(dx / 2) if k % 3 else real_t(0.1875)
    n = 10 if dim == 3 else 20
    pos, kinds = make_markers(r, dim, shape, float(dx), float(shift), n, real_t)
    u = r.normal(size=shape).astype(real_t)
    uvec = r.normal(size=(dim,) + shape).astype(real_t)
    F = r.normal(size=n).astype(real_t)
    Fvec = r.normal(size=(dim, n)).astype(real_t)
    # markers whose force has exactly zero components (axial loads, force-free markers): every pattern of zero / non-zero components
    for m in range(min(n, 2 ** dim)):
        for c in range(dim):
            if (m >> c) & 1:
                Fvec[c, n - 1 - m] = 0
    F[n - 1] = 0
    E0 = r.normal(size=shape).astype(real_t)
    E0vec = r.normal(size=(dim,) + shape).astype(real_t)
    return r, shape, dx, shift, n, pos, kinds, u, uvec, F, Fvec, E0, E0vec


def run(seed=0, tier="quick"):
    try:
        return _run(seed, tier)
    except CommunicatorRaised as e:
        return {"ok": False, "cases": 0, "samples": [], "name": "Model/Interp vs numba communicators", "detail": str(e), "failing_input": e.failing_input}


def _run(seed=0, tier="quick"):
    reqs, impls, meta = [], [], []
    for dim, kernel, real_t, k in _configs(seed, tier):
        r, shape, dx, shift, n, pos, kinds, u, uvec, F, Fvec, E0, E0vec = _setup(seed, dim, kernel, real_t, k)
        im = run_impl(dim, shape, dx, shift, kernel, real_t, pos, u, uvec, F, Fvec, E0, E0vec)
        if im["modified_inputs"]:
            lab = {"dim": dim, "kernel": kernel, "dtype": real_t.__name__, "grid": list(shape), "markers": n}
            return {"ok": False, "cases": len(reqs), "samples": [], "name": "Model/Interp vs numba communicators",
                    "detail": f"{lab}: a communicator kernel modified its INPUT arrays: {im['modified_inputs']}",
                    "failing_input": {"oracle": "communicator_modifies_input", **lab, "modified": [list(m_) for m_ in im["modified_inputs"]],
                                      "what": "an input array (weights / indices / positions / fields) is not bit-identical after the call"}}
        reqs.append(model(dim, shape, dx, shift, kernel, pos, u, E0, F))
        impls.append(im)
        meta.append({"dim": dim, "kernel": kernel, "dtype": real_t.__name__, "grid": list(shape), "dx": float(dx), "shift": float(shift),
                     "markers": n, "kinds": sorted(set(kinds)), "pos": pos, "u": u, "F": F, "E0": E0, "uvec": uvec, "Fvec": Fvec, "E0vec": E0vec})
    p = subprocess.run(["lake", "env", "lean", "--run", "SophtVerif/Driver/Interp.lean"], cwd=harness.LEAN, input="".join(reqs),
                       capture_output=True, text=True, timeout=1800)
    if p.returncode != 0:
        raise RuntimeError(p.stderr[-2000:])
    mods = parse_model(p.stdout, len(reqs), None, None)
    res = {"ok": True, "cases": 0, "samples": [], "name": "Model/Interp vs numba communicators", "index_off_by_one": 0, "worst": 0.0}
    for im, mo, me in zip(impls, mods, meta):
        eps = float(np.finfo(np.float32 if me["dtype"] == "float32" else np.float64).eps)
        dim, shape = me["dim"], tuple(me["grid"])
        wscale = 1.0 / me["dx"] ** dim
        dw = dense_weights(dim, shape, im["idx"], im["w"])
        for m in range(me["markers"]):
            midx = mo["idx"][m][:dim]
            iidx = [int(im["idx"][a, m]) for a in range(dim)]
            off = max(abs(a - b) for a, b in zip(midx, iidx))
            if off > 1:
                res.update(ok=False, detail=f"{_lab(me)} marker {m}: nearest index {iidx} vs model {midx}",
                           failing_case={**_lab(me), "marker": m, "position": me["pos"][:, m].tolist()})
                return res
            res["index_off_by_one"] += int(off == 1)
            d = np.abs(dw[m].ravel() - mo["wmap"][m])
            res["worst"] = max(res["worst"], float(d.max() / wscale))
            if d.max() > 2e4 * eps * wscale:
                res.update(ok=False, detail=f"{_lab(me)} marker {m} ({me['pos'][:, m].tolist()}): weights differ by {d.max():.3e} (scale {wscale:.3e})",
                           failing_case={**_lab(me), "marker": m, "position": me["pos"][:, m].tolist()})
                return res
        for name, a, b, scale in (("interp", im["interp"], mo["interp"], np.abs(me["u"]).max()),
                                  ("spread", im["spread1"].ravel(), mo["spread"], np.abs(me["E0"]).max() + np.abs(me["F"]).max() * wscale)):
            d = np.abs(np.asarray(a, dtype=np.float64) - b)
            if d.max() > 5e4 * eps * scale:
                res.update(ok=False, detail=f"{_lab(me)}: {name} differs by {d.max():.3e} (scale {scale:.3e})", failing_case=_lab(me))
                return res
        # vector variants: every component uses the SAME window and weights as the (modelled) scalar kernels — evaluated with
        # the model's dense weight maps
        W = np.array([np.asarray(mo["wmap"][m], dtype=np.float64) for m in range(me["markers"])])      # (markers, cells)
        vol = me["dx"] ** dim
        uvec, Fvec, E0vec = me["uvec"], me["Fvec"], me["E0vec"]
        for c in range(dim):
            want_i = vol * (W @ np.asarray(uvec[c], dtype=np.float64).ravel())
            d = np.abs(np.asarray(im["interp_vec"][c], dtype=np.float64) - want_i)
            if d.max() > 5e4 * eps * max(np.abs(uvec).max(), 1e-30):
                res.update(ok=False, detail=f"{_lab(me)}: vector interpolation, component {c}, differs from the model's weights applied to that component by {d.max():.3e}",
                           failing_case={**_lab(me), "variant": "vector_interpolation", "component": c})
                return res
            want_s = np.asarray(E0vec[c], dtype=np.float64).ravel() + np.asarray(Fvec[c], dtype=np.float64) @ W
            d = np.abs(np.asarray(im["spread_vec"][c], dtype=np.float64).ravel() - want_s)
            if d.max() > 5e4 * eps * (np.abs(E0vec).max() + np.abs(Fvec).max() * wscale):
                res.update(ok=False, detail=f"{_lab(me)}: vector spreading, component {c}, differs from the model's weights applied to that component by {d.max():.3e}",
                           failing_case={**_lab(me), "variant": "vector_spreading", "component": c})
                return res
        res["cases"] += 1
        if len(res["samples"]) < 3:
            res["samples"].append({**_lab(me), "marker_kinds": me["kinds"], "first_marker": me["pos"][:, 0].tolist(),
                                   "first_index": [int(x) for x in im["idx"][:, 0]]})
    return res


def _lab(me):
    return {k: me[k] for k in ("dim", "kernel", "dtype", "grid", "dx", "shift", "markers")}


# --------------------------------------------------------------------------- oracles


def _oracle_configs(seed, tier):
    cfgs = _configs(seed, tier)
    if tier == "quick":
        cfgs = [c for i, c in enumerate(cfgs) if i in (1, 2, 4, 7)]  # 2D cos f32, 2D peskin f64, 3D cos f64, 3D peskin f32
    return cfgs


def oracle_c06(seed=0, tier="quick", aimed=None):
    try:
        return _oracle_c06(seed, tier, aimed)
    except CommunicatorRaised as e:
        return {"ok": False, "cases": 0, "samples": [], "failing_input": e.failing_input}


def _oracle_c06(seed=0, tier="quick", aimed=None):
    cases = 0
    samples = []
    for dim, kernel, real_t, k, dyadic in [(*c, dy) for c in _oracle_configs(seed + 7, tier) for dy in ([None, True] if c[1] == "peskin" else [None])]:
        r, shape, dx, shift, n, pos, kinds, u, uvec, F, Fvec, E0, E0vec = _setup(seed + 7, dim, kernel, real_t, k, dyadic=dyadic)
        im = run_impl(dim, shape, dx, shift, kernel, real_t, pos, u, uvec, F, Fvec, E0, E0vec)
        eps = float(np.finfo(real_t).eps)
        tol = 3e3 * eps
        vol = float(dx) ** dim
        w = im["w"].astype(np.float64)
        idx = im["idx"]
        info = {"dim": dim, "kernel": kernel, "dtype": real_t.__name__, "grid": list(shape), "dx": float(dx), "shift": float(shift)}
        # coordinates of window cells and of markers
        for m in range(n):
            cases += 1
            wm = w[..., m]
            X = pos[:, m].astype(np.float64)
            what = None
            if np.any(wm < -tol / vol):
                what = f"negative weight {wm.min() * vol}"
            elif abs(wm.sum() * vol - 1) > tol:
                what = f"weights do not sum to one: sum*dx^d = {wm.sum() * vol}"
            # cell-centre coordinates of the window
            offs = np.arange(-1, 3)
            coords = [(idx[a, m] + offs) * float(dx) + float(shift) for a in range(dim)]  # a = 0 -> x
            if what is None:
                # support: cells farther than 2 dx in any direction carry no weight
                for a in range(dim):
                    far = np.abs(coords[a] - X[a]) > 2 * float(dx) * (1 + 1e-6)
                    ax = dim - 1 - a
                    sl = [slice(None)] * dim
                    sl[ax] = far
                    if np.any(np.abs(wm[tuple(sl)]) * vol > tol):
                        what = f"weight {np.abs(wm[tuple(sl)]).max() * vol} on a cell more than 2 dx away (axis {'xyz'[a]})"
            if what is None and kernel == "peskin":
                for a in range(dim):
                    ax = dim - 1 - a
                    shp = [1] * dim
                    shp[ax] = 4
                    mom = float(np.sum(wm * (coords[a] - X[a]).reshape(shp)) * vol)
                    if abs(mom) > tol * float(dx) * 10:
                        what = f"first moment along {'xyz'[a]} is {mom}"
            if what is None:
                const = float(np.sum(wm * 3.25) * vol)
                if abs(const - 3.25) > tol * 4:
                    what = f"constant field 3.25 interpolated as {const}"
            if what:
                return {"ok": False, "cases": cases, "samples": samples, "failing_input": {
                    "oracle": "c06_weights", "what": what, **info, "marker_position": X.tolist(), "marker_kind": kinds[m],
                    "nearest_index": [int(x) for x in idx[:, m]], "weights": wm.tolist()}}
        # the simulator's own coordinate field is reproduced (Peskin)
        if kernel == "peskin":
            cls = ibo.EulerianLagrangianGridCommunicator2D if dim == 2 else ibo.EulerianLagrangianGridCommunicator3D
            cv = cls(dx=dx, eul_grid_coord_shift=shift, num_lag_nodes=n, interp_kernel_width=2, real_t=real_t, n_components=dim,
                     interp_kernel_type=kernel)
            axes = [(np.arange(s) * float(dx) + float(shift)) for s in shape]
            mesh = np.meshgrid(*axes, indexing="ij")
            posf = np.array(mesh[::-1]).astype(real_t)  # (x, y[, z]) components
            out = np.zeros((dim, n), dtype=real_t)
            cv.eulerian_to_lagrangian_grid_interpolation_kernel(out, posf, im["w"], idx)
            cases += 1
            err = np.abs(out.astype(np.float64) - pos.astype(np.float64)).max()
            if err > 3e3 * eps * (1 + np.abs(pos).max()):
                return {"ok": False, "cases": cases, "samples": samples, "failing_input": {
                    "oracle": "c06_position_field", **info, "max_error": float(err), "positions": pos.tolist()}}
        if len(samples) < 2:
            samples.append({"oracle": "c06_weights", **info, "markers": n, "kinds": sorted(set(kinds))})
    # ---- markers ON the cell centres of a simulator-like grid (x_range / n spacings that are not powers of two), the most natural
    #      marker set there is: the window is symmetric about the marker, so both kernels return the marker's own coordinates when
    #      the coordinate field is interpolated, and the nearest index is the marker's own cell
    for ci, (dim, kernel, real_t) in enumerate(itertools.product((2, 3), ("cosine", "peskin"), (np.float64, np.float32))):
        r = impl.rng(seed, "c06centres", ci)
        nxs = [20, 24, 48, 100, 36] if tier == "quick" else [20, 24, 48, 100, 36, 28, 60, 72]
        for nx in nxs[ci % 2::2] if tier == "quick" else nxs:
            xr = [1.0, 1.3, 0.7][nx % 3]
            dx = real_t(xr / nx)
            shape = (12, 14) if dim == 2 else (9, 10, 11)
            shift = real_t(dx / 2)
            axes = [((np.arange(s_) + 0.5) * dx).astype(real_t) for s_ in shape]           # as FlowSimulator._init_domain builds them
            mesh = np.meshgrid(*axes, indexing="ij")
            posf = np.array(mesh[::-1]).astype(real_t)
            cells = [tuple(int(v) for v in r.integers(2, np.array(shape) - 3)) for _ in range(40)]
            n = len(cells)
            pos = np.array([[posf[(c,) + cell] for cell in cells] for c in range(dim)], dtype=real_t)
            cls = ibo.EulerianLagrangianGridCommunicator2D if dim == 2 else ibo.EulerianLagrangianGridCommunicator3D
            cv = cls(dx=dx, eul_grid_coord_shift=shift, num_lag_nodes=n, interp_kernel_width=2, real_t=real_t, n_components=dim, interp_kernel_type=kernel)
            sup = np.zeros((dim,) + (4,) * dim + (n,), dtype=real_t); idx = np.zeros((dim, n), dtype=int); w = np.zeros((4,) * dim + (n,), dtype=real_t)
            out = np.zeros((dim, n), dtype=real_t)
            try:
                cv.local_eulerian_grid_support_of_lagrangian_grid_kernel(sup, idx, pos)
                cv.interpolation_weights_kernel(w, sup)
                cv.eulerian_to_lagrangian_grid_interpolation_kernel(out, posf, w, idx)
            except Exception as e:  # noqa: BLE001
                raise CommunicatorRaised({"oracle": "communicator_raises", "what": f"a communicator kernel raised {type(e).__name__}: {str(e)[:200]} on markers "
                                          "sitting on cell centres at least two cells inside the grid", "dim": dim, "kernel": kernel, "dtype": real_t.__name__,
                                          "grid": list(shape), "dx": float(dx), "positions": pos.tolist()}) from e
            cases += 1
            err = np.abs(out.astype(np.float64) - pos.astype(np.float64)).max()
            eps = float(np.finfo(real_t).eps)
            info = {"dim": dim, "kernel": kernel, "dtype": real_t.__name__, "grid": list(shape), "dx": float(dx), "x_range": xr, "cells_per_x_range": nx}
            if err > 0.05 * float(dx):
                m_ = int(np.argmax(np.abs(out.astype(np.float64) - pos.astype(np.float64)).max(axis=0)))
                return {"ok": False, "cases": cases, "samples": samples, "failing_input": {
                    "oracle": "c06_markers_on_cell_centres", **info, "max_error_in_dx": float(err / float(dx)),
                    "what": "coordinate field interpolated at a marker that sits on a cell centre does not return the marker position",
                    "marker_position": pos[:, m_].tolist(), "marker_cell_zyx": list(cells[m_]), "nearest_index_xyz": [int(v) for v in idx[:, m_]]}}
    # ---- the coupling as the simulators wire it: a real flow simulator's coordinate field interpolated by a real
    #      interactor's own communicator (its grid shift, its kernel) at the body's markers returns the marker positions
    #      (cosine kernel: to within its first-moment error, far below the half-cell error of a wrong grid shift), and the
    #      interactor's weights times the cell volume sum to one
    import warnings

    import elastica as ea
    import sopht.simulator as sps
    import sopht.simulator.immersed_body as spi

    for dim in (2, 3):
        r = impl.rng(seed, "c06wiring", dim)
        n_ = 32 if dim == 2 else 20
        shape = (n_, n_ + 6) if dim == 2 else (n_, n_ + 2, n_ + 4)
        with warnings.catch_warnings():
            warnings.simplefilter("ignore")
            if dim == 2:
                sim = sps.UnboundedNavierStokesFlowSimulator2D(grid_size=shape, x_range=float(r.uniform(0.8, 2.0)), kinematic_viscosity=1e-2, with_forcing=True, real_t=np.float64)
                c = np.array([0.47 * sim.x_range, 0.52 * sim.y_range, 0.0])
                body = ea.Cylinder(start=np.array([c[0], c[1], -0.05]), direction=np.array([0.0, 0, 1]), normal=np.array([1.0, 0, 0]),
                                   base_length=0.1, base_radius=0.2 * sim.y_range, density=1e3)
                it = spi.RigidBodyFlowInteraction(rigid_body=body, eul_grid_forcing_field=sim.eul_grid_forcing_field, eul_grid_velocity_field=sim.velocity_field,
                                                  virtual_boundary_stiffness_coeff=-1e2, virtual_boundary_damping_coeff=-1.0, dx=sim.dx, grid_dim=2,
                                                  forcing_grid_cls=spi.CircularCylinderForcingGrid, num_forcing_points=30)
            else:
                sim = sps.UnboundedNavierStokesFlowSimulator3D(grid_size=shape, x_range=float(r.uniform(0.8, 2.0)), kinematic_viscosity=1e-2, with_forcing=True, real_t=np.float64)
                c = np.array([0.5 * sim.x_range, 0.48 * sim.y_range, 0.51 * sim.z_range])
                body = ea.Sphere(center=c.copy(), base_radius=0.22 * sim.z_range, density=1e3)
                it = spi.RigidBodyFlowInteraction(rigid_body=body, eul_grid_forcing_field=sim.eul_grid_forcing_field, eul_grid_velocity_field=sim.velocity_field,
                                                  virtual_boundary_stiffness_coeff=-1e2, virtual_boundary_damping_coeff=-1.0, dx=sim.dx, grid_dim=3,
                                                  forcing_grid_cls=spi.SphereForcingGrid, num_forcing_points_along_equator=14)
            it()
        cases += 1
        X = it.forcing_grid.position_field
        out = np.zeros_like(X)
        it.eul_lag_grid_communicator.eulerian_to_lagrangian_grid_interpolation_kernel(
            out, np.ascontiguousarray(sim.position_field), it.interp_weights, it.nearest_eul_grid_index_to_lag_grid)
        dx_ = float(sim.dx)
        err = float(np.abs(out - X).max())
        wsum = it.interp_weights.reshape(-1, X.shape[1]).sum(axis=0) * dx_ ** dim
        info = {"dim": dim, "grid": list(shape), "dx": dx_, "kernel": "interactor default"}
        if err > 0.2 * dx_:
            return {"ok": False, "cases": cases, "samples": samples, "failing_input": {
                "oracle": "c06_simulator_wiring", "what": "the simulator's coordinate field interpolated at the body's markers by the interactor's own "
                "communicator is off by more than 0.2 dx (grid shift / axis convention of the coupling)", **info, "max_error_in_dx": err / dx_}}
        if np.abs(wsum - 1).max() > 1e-10:
            return {"ok": False, "cases": cases, "samples": samples, "failing_input": {
                "oracle": "c06_simulator_wiring", "what": "the interactor's interpolation weights times the cell volume do not sum to one", **info,
                "max_dev": float(np.abs(wsum - 1).max())}}
    return {"ok": True, "cases": cases, "failing_input": None, "samples": samples}


def oracle_c07(seed=0, tier="quick", aimed=None):
    try:
        return _oracle_c07(seed, tier, aimed)
    except CommunicatorRaised as e:
        return {"ok": False, "cases": 0, "samples": [], "failing_input": e.failing_input}


def _oracle_c07(seed=0, tier="quick", aimed=None):
    cases = 0
    samples = []
    for dim, kernel, real_t, k in _oracle_configs(seed + 11, tier):
        r, shape, dx, shift, n, pos, kinds, u, uvec, F, Fvec, E0, E0vec = _setup(seed + 11, dim, kernel, real_t, k)
        zero = np.zeros_like(E0)
        zerov = np.zeros_like(E0vec)
        im = run_impl(dim, shape, dx, shift, kernel, real_t, pos, u, uvec, F, Fvec, zero, zerov)
        im2 = run_impl(dim, shape, dx, shift, kernel, real_t, pos, u, uvec, F, Fvec, E0, E0vec)
        eps = float(np.finfo(real_t).eps)
        vol = float(dx) ** dim
        info = {"dim": dim, "kernel": kernel, "dtype": real_t.__name__, "grid": list(shape), "dx": float(dx), "markers": n,
                "kinds": sorted(set(kinds))}
        if im["modified_inputs"] or im2["modified_inputs"]:
            return {"ok": False, "cases": cases, "samples": samples, "failing_input": {
                "oracle": "c07_communicator_modifies_input", "what": "interpolation / spreading changed one of its input arrays, so the weights "
                "used by the next call are not the weights of the previous one (adjointness and accumulation are statements about ONE set of weights)",
                "modified": [list(m_) for m_ in (im["modified_inputs"] or im2["modified_inputs"])], **info, "positions": pos.tolist()}}
        f64 = lambda a: np.asarray(a, dtype=np.float64)  # noqa: E731
        scale = float(np.abs(f64(F)).sum() * np.abs(f64(u)).max()) + 1e-30
        checks = []
        lhs = float(np.sum(f64(F) * f64(im["interp"])))
        rhs = float(np.sum(f64(im["spread1"]) * f64(u)) * vol)
        checks.append(("adjointness (scalar)", lhs, rhs, scale))
        lhs = float(np.sum(f64(Fvec) * f64(im["interp_vec"])))
        rhs = float(np.sum(f64(im["spread_vec"]) * f64(uvec)) * vol)
        checks.append(("adjointness (vector)", lhs, rhs, float(np.abs(f64(Fvec)).sum() * np.abs(f64(uvec)).max())))
        checks.append(("total force", float(np.sum(f64(F))), float(np.sum(f64(im["spread1"])) * vol), float(np.abs(f64(F)).sum())))
        for c in range(dim):
            checks.append((f"total force (vector comp {c})", float(np.sum(f64(Fvec[c]))), float(np.sum(f64(im["spread_vec"][c])) * vol),
                           float(np.abs(f64(Fvec[c])).sum())))
        # accumulation: second call adds the same amount; non-zero initial field is kept
        d1 = f64(im2["spread1"]) - f64(E0)
        checks.append(("accumulation into a non-zero field", 0.0, float(np.abs(d1 - f64(im["spread1"])).max()), float(np.abs(f64(im["spread1"])).max() + np.abs(f64(E0)).max())))
        checks.append(("second call adds", 0.0, float(np.abs(f64(im["spread2"]) - 2 * f64(im["spread1"])).max()), float(np.abs(f64(im["spread1"])).max())))
        if kernel == "peskin":
            axes = [(np.arange(s) * float(dx) + float(shift)) for s in shape]
            mesh = np.meshgrid(*axes, indexing="ij")
            O = r.normal(size=dim)
            for a in range(dim):
                xc = mesh[dim - 1 - a] - O[a]
                lhs = float(np.sum(f64(F) * (f64(pos[a]) - O[a])))
                rhs = float(np.sum(f64(im["spread1"]) * xc) * vol)
                checks.append((f"first moment along {'xyz'[a]}", lhs, rhs, float(np.abs(f64(F)).sum() * (np.abs(xc).max()))))
        for name, a, b, sc in checks:
            cases += 1
            if abs(a - b) > 2e3 * eps * (sc + 1e-30):
                return {"ok": False, "cases": cases, "samples": samples, "failing_input": {
                    "oracle": "c07", "what": name, "lhs": a, "rhs": b, **info, "positions": pos.tolist(), "F": f64(F).tolist()}}
        if len(samples) < 2:
            samples.append({"oracle": "c07", **info, "checks": [c[0] for c in checks]})
    return {"ok": True, "cases": cases, "failing_input": None, "samples": samples}


def replay(fi):
    if fi.get("oracle", "").startswith("c06"):
        return oracle_c06(seed=fi.get("seed", 0), tier="thorough")
    return oracle_c07(seed=fi.get("seed", 0), tier="thorough")
