"""C17: correspondence of Model/IO.lean with sopht/utils/io.py (real `save`, canonical dump of the HDF5
file, real `load` into fresh arrays, malformed files) and the oracle on the implementation."""
from __future__ import annotations

import os
import shutil
import subprocess
import tempfile
from fractions import Fraction

import h5py
import numpy as np

import impl
from corr import harness

import sopht.utils as spu


def _payload(r, n, real_t):
    """n distinct bit patterns incl. NaN payloads, infinities, signed zeros, denormals"""
    ut = np.uint64 if real_t == np.float64 else np.uint32
    bits = r.integers(0, np.iinfo(ut).max, size=n, dtype=ut, endpoint=True)
    special = np.array([0.0, -0.0, np.inf, -np.inf, np.finfo(real_t).tiny / 4, np.nan], dtype=real_t).view(ut)
    k = min(len(special), n)
    bits[:k] = special[:k]
    if n > 8:  # NaNs with distinct payloads
        nan = np.array([np.nan], dtype=real_t).view(ut)[0]
        bits[6] = nan | ut(1)
        bits[7] = nan | ut(12345)
    return bits.view(real_t)


class Tagger:
    """assign a tag to every array element so the model (parametric in the element type) can be compared bitwise"""

    def __init__(self):
        self.vals = [None]  # tag 0 = 'never written'

    def tag(self, arr):
        flat = np.ascontiguousarray(arr).ravel()
        tags = np.arange(len(self.vals), len(self.vals) + flat.size)
        self.vals += [flat[i:i + 1].tobytes() for i in range(flat.size)]
        return tags.reshape(arr.shape)

    def bytes_of(self, tags):
        return b"".join(self.vals[int(t)] for t in np.asarray(tags).ravel())


VARIANTS = ["plain", "n_eq_dim", "empty_grid", "no_eul", "eulerian_field_io", "mixed_dtype"]


def make_registry(r, dim, real_t, variant):
    """random registry description: dict with eul fields, grids with fields (arrays filled with payload patterns)"""
    grid = tuple(int(v) for v in r.integers(2, 5, size=dim))
    names = ["vorticity", "velocity", "phi", "q_1", "w"]
    eul = []
    neul = int(r.integers(0, 4)) if variant != "no_eul" else 0
    for i in range(neul):
        kind = ["scalar", "vector"][int(r.integers(0, 2))]
        shape = grid if kind == "scalar" else (dim,) + grid
        eul.append((names[i], kind, _payload(r, int(np.prod(shape)), real_t).reshape(shape)))
    grids = []
    ngr = int(r.integers(0, 3)) if variant != "n_eq_dim" else 2
    for gi in range(ngr):
        N = dim if (variant == "n_eq_dim" or r.random() < 0.3) else int(r.integers(1, 8))
        garr = _payload(r, dim * N, real_t).reshape(dim, N)
        fields = []
        nf = int(r.integers(0, 3)) if not (variant == "empty_grid" and gi == 0) else 0
        for fi in range(nf):
            kind = ["scalar", "vector"][int(r.integers(0, 2))]
            if kind == "vector":
                fields.append((f"f{gi}{fi}", "vector", _payload(r, dim * N, real_t).reshape(dim, N)))
            else:
                # scalar fields: (N,) — when N == dim a (N, N)-shaped scalar would be ambiguous with a vector
                fields.append((f"f{gi}{fi}", "scalar", _payload(r, N, real_t).reshape(N)))
        grids.append((f"grid{gi}" if r.random() < 0.7 else None, garr, fields))
    dx = float(r.uniform(0.01, 1.0))
    desc = {"dim": dim, "grid": grid, "eul": eul, "grids": grids, "origin": r.normal(size=dim), "dx": np.full(dim, dx),
            "time": float(r.uniform(0, 10)), "real_t": real_t, "reg_t": real_t}
    if variant == "mixed_dtype":
        # the registry's declared precision differs from the precision of the registered arrays (a single-precision flow
        # simulation coupled to double-precision body arrays, and the converse): what is stored is the array, bit for bit
        desc["reg_t"] = np.float32 if real_t == np.float64 else np.float64
    if variant == "eulerian_field_io":
        # written through the convenience class EulerianFieldIO (position field in x-y-z component order, lower corners that
        # differ between the axes), read back through the base class with the origin given in z-y-x (array-axis) order
        if not eul:
            eul.append(("w", "scalar", _payload(r, int(np.prod(grid)), real_t).reshape(grid)))
        corner_xyz = float(r.uniform(-2, 2)) + r.permutation(np.array([0.0, 0.7, 1.9])[:dim])
        pos = np.zeros((dim,) + grid, dtype=real_t)
        for c in range(dim):          # component c (0 = x) varies along array axis dim-1-c
            ax = dim - 1 - c
            sh = [1] * dim; sh[ax] = grid[ax]
            pos[c] = (corner_xyz[c] + dx * np.arange(grid[ax])).astype(real_t).reshape(sh)
        first = (0,) * dim
        second_x = (0,) * (dim - 1) + (1,)
        desc.update(grids=[], via="EulerianFieldIO", pos=pos, corner_xyz=[float(v) for v in corner_xyz],
                    origin=np.array([pos[(dim - 1 - a,) + first] for a in range(dim)], dtype=np.float64),
                    dx=np.full(dim, np.float64(pos[(0,) + second_x] - pos[(0,) + first])))
    return desc


def build_io(desc, fresh=False):
    if desc.get("via") == "EulerianFieldIO" and not fresh:
        arrays = {("eul", name): arr.copy() for name, kind, arr in desc["eul"]}
        io = spu.EulerianFieldIO(position_field=desc["pos"].copy(), eulerian_fields_dict={name: arrays[("eul", name)] for name, _, _ in desc["eul"]})
        return io, arrays
    io = spu.IO(dim=desc["dim"], real_dtype=desc.get("reg_t", desc["real_t"]))
    arrays = {}
    if desc["eul"] or desc.get("define_eul", True):
        io.define_eulerian_grid(origin=np.array(desc["origin"]), dx=np.array(desc["dx"]), grid_size=np.array(desc["grid"]))
    for name, kind, arr in desc["eul"]:
        a = np.zeros_like(arr) if fresh else arr.copy()
        arrays[("eul", name)] = a
        io.add_as_eulerian_fields_for_io(**{name: a})
    auto = 0
    for gname, garr, fields in desc["grids"]:
        g = np.zeros_like(garr) if fresh else garr.copy()
        fd = {}
        for fname, kind, farr in fields:
            fd[fname] = np.zeros_like(farr) if fresh else farr.copy()
            arrays[("lag", fname)] = fd[fname]
        real_name = gname
        if gname is None:
            real_name = f"Lagrangian_grid_{auto}"
            auto += 1
        arrays[("grid", real_name)] = g
        io.add_as_lagrangian_fields_for_io(lagrangian_grid=g, lagrangian_grid_name=gname, **fd)
    return io, arrays


def model_request(desc, tagger):
    """lines describing the registry with tagged arrays"""
    dim = desc["dim"]
    L = [f"reg {dim} 1 {dim} " + " ".join(str(n) for n in desc["grid"])]
    if desc.get("via"):
        # the model derives the registry parameters the way EulerianFieldIO does (Model.IO.eulerianFieldIOParams) from the
        # lower corner of the position field given in x-y-z order
        first = (0,) * dim
        corner = [desc["pos"][(c,) + first] for c in range(dim)]
        L.append(f"params-from-corner {dim} " + " ".join(harness.fstr(v) for v in corner + [desc["dx"][0]] + list(desc["grid"])))
    else:
        L.append(f"params {dim} " + " ".join(harness.fstr(v) for v in list(desc["origin"]) + list(desc["dx"]) + list(desc["grid"])))
    tags = {}

    def arr(a):
        t = tagger.tag(a)
        return t, f"{a.ndim} " + " ".join(str(s) for s in a.shape) + " " + " ".join(str(int(x)) for x in t.ravel())

    for name, kind, a in desc["eul"]:
        t, txt = arr(a); tags[("eul", name)] = t
        L.append(f"eul {name} {kind} {txt}")
    auto = 0
    for gname, garr, fields in desc["grids"]:
        real_name = gname
        if gname is None:
            real_name = f"Lagrangian_grid_{auto}"; auto += 1
        t, txt = arr(garr); tags[("grid", real_name)] = t
        L.append(f"grid {real_name} {txt}")
        for fname, kind, farr in fields:
            t, txt = arr(farr); tags[("lag", fname)] = t
            L.append(f"lag {real_name} {fname} {kind} {txt}")
    L.append(f"time {harness.fstr(desc['time'])}")
    return L, tags


def dump_h5(path):
    out = {}
    with h5py.File(path, "r") as f:
        def visit(name, obj):
            if isinstance(obj, h5py.Dataset) and not name.endswith("/Connection"):
                out[name] = obj[...]
        f.visititems(visit)
        time = f.attrs["time"]
        params = None
        if "Eulerian" in f and "Parameters" in f["Eulerian"]:
            pa = f["Eulerian"]["Parameters"].attrs
            params = (np.array(pa["origin"]), np.array(pa["dx"]), np.array(pa["grid_size"]))
    return out, float(time), params


def run_driver(text):
    p = subprocess.run(["lake", "env", "lean", "--run", "SophtVerif/Driver/IO.lean"], cwd=harness.LEAN, input=text, capture_output=True,
                       text=True, timeout=1200)
    if p.returncode != 0:
        raise RuntimeError(p.stderr[-1500:])
    blocks, cur = [], []
    for line in p.stdout.splitlines():
        if line == "done":
            blocks.append(cur); cur = []
        elif line.split(" ")[0] in ("time", "params", "ds", "ok", "error", "arr"):
            cur.append(line)
    return blocks


def parse_arr(toks):
    rank = int(toks[0]); shape = tuple(int(x) for x in toks[1:1 + rank])
    return np.array([int(x) for x in toks[1 + rank:]], dtype=np.int64).reshape(shape)


def _malformed_case(kind, i, r, tmp, path, file_ds, desc, variant, mal_reqs, mal_ctx):
    """one (possibly malformed) copy of the implementation's file: real `load` into a fresh base-class registry, and the
    request that makes the model load the same file"""
    bad = os.path.join(tmp, f"bad{i}{kind}.h5")
    shutil.copy(path, bad)
    victim = None
    with h5py.File(bad, "a") as f:
        if kind == "delete_dataset":
            victim = sorted(file_ds)[int(r.integers(0, len(file_ds)))]
            del f[victim]
        elif kind == "origin":
            f["Eulerian"]["Parameters"].attrs["origin"] = np.array(desc["origin"]) + 0.37
        elif kind == "origin_reversed":
            f["Eulerian"]["Parameters"].attrs["origin"] = np.array(desc["origin"])[::-1].copy()
        elif kind == "dx":
            f["Eulerian"]["Parameters"].attrs["dx"] = np.array(desc["dx"]) * 1.5
        elif kind == "grid_size":
            f["Eulerian"]["Parameters"].attrs["grid_size"] = np.array(desc["grid"]) + 1
        elif kind == "param_length":
            f["Eulerian"]["Parameters"].attrs["origin"] = np.zeros(5)
    io3, _ = build_io(desc, fresh=True)
    raised = None
    try:
        io3.load(bad)
    except Exception as e:  # noqa: BLE001
        raised = type(e).__name__
    # model: same registry (fresh), file = real (malformed) file re-tagged
    tg = Tagger()
    L, _ = model_request(desc, tg)
    fds, _, fpar = dump_h5(bad)
    for pth, a in fds.items():
        t = tg.tag(a)
        L.append(f"file-ds {pth} {a.ndim} " + " ".join(str(s) for s in a.shape) + " " + " ".join(str(int(x)) for x in t.ravel()))
    if fpar is None:
        L.append("file-noparams")
    else:
        k = max(len(fpar[0]), len(fpar[1]), len(fpar[2]))
        if len(fpar[0]) != len(fpar[1]) or len(fpar[1]) != len(fpar[2]):
            # lengths differ: send as-is padded — the model's `close` refuses different lengths
            L.append("file-params " + str(len(fpar[1])) + " " + " ".join(harness.fstr(v) for v in [9e9] * len(fpar[1]) + list(fpar[1]) + list(fpar[2])))
        else:
            L.append(f"file-params {k} " + " ".join(harness.fstr(v) for v in list(fpar[0]) + list(fpar[1]) + list(fpar[2])))
    mal_reqs.append("\n".join(L + ["load"]) + "\n")
    mal_ctx.append((kind, victim, raised, variant, tg, fds, desc))


def run(seed=0, tier="quick"):
    n = 12 if tier == "quick" else 48
    tmp = tempfile.mkdtemp(prefix="iocorr", dir=os.path.join(harness.ROOT, ".cache"))
    res = {"ok": True, "cases": 0, "samples": [], "name": "Model/IO vs sopht.utils.IO (save layout, load, malformed files)",
           "malformed": {}, "variants": {}}
    try:
        reqs, ctx = [], []
        for i in range(n):
            r = impl.rng(seed, "io", i)
            dim = 2 + (i // len(VARIANTS) + i % len(VARIANTS)) % 2
            real_t = [np.float64, np.float32][(i // 2) % 2]
            variant = VARIANTS[i % len(VARIANTS)]
            desc = make_registry(r, dim, real_t, variant)
            res["variants"][variant] = res["variants"].get(variant, 0) + 1
            tagger = Tagger()
            io, arrays = build_io(desc)
            before = {k: v.copy() for k, v in arrays.items()}
            path = os.path.join(tmp, f"case{i}.h5")
            io.save(path, time=desc["time"])
            for k in arrays:
                if arrays[k].tobytes() != before[k].tobytes():
                    res.update(ok=False, detail=f"case {i}: save modified source array {k}",
                               failing_input={"oracle": "save_modifies_source", "array": str(k)})
                    return res
            L, tags = model_request(desc, tagger)
            reqs.append("\n".join(L + ["save"]) + "\n")
            # ---- load into fresh arrays (real) + model load of the model's own file
            io2, arrays2 = build_io(desc, fresh=True)
            t_loaded = io2.load(path)
            ctx.append((desc, tagger, tags, path, arrays, arrays2, t_loaded, variant))
        blocks = run_driver("".join(reqs))
        load_reqs = []
        for (desc, tagger, tags, path, arrays, arrays2, t_loaded, variant), block in zip(ctx, blocks):
            file_ds, ftime, fparams = dump_h5(path)
            model_ds = {}
            for line in block:
                t = line.split(" ")
                if t[0] == "ds":
                    model_ds[t[1]] = parse_arr(t[2:])
            label = {"dim": desc["dim"], "dtype": desc["real_t"].__name__, "registry_dtype": desc.get("reg_t", desc["real_t"]).__name__, "variant": variant,
                     "eulerian": [(n_, k_) for n_, k_, _ in desc["eul"]],
                     "grids": [(g_ or "auto", a_.shape[1], [(f_[0], f_[1]) for f_ in fs_]) for g_, a_, fs_ in desc["grids"]]}
            if set(model_ds) != set(file_ds):
                res.update(ok=False, detail=f"{label}: dataset paths differ: only in file {sorted(set(file_ds) - set(model_ds))}, only in model {sorted(set(model_ds) - set(file_ds))}",
                           failing_case=label)
                return res
            for pth, mt in model_ds.items():
                fa = file_ds[pth]
                if fa.shape != mt.shape:
                    res.update(ok=False, detail=f"{label}: dataset {pth} has shape {fa.shape} in the file, {mt.shape} in the model", failing_case=label)
                    return res
                if np.ascontiguousarray(fa).tobytes() != tagger.bytes_of(mt):
                    res.update(ok=False, detail=f"{label}: dataset {pth}: contents differ from the model's layout", failing_case=label)
                    return res
            if ftime != desc["time"] or t_loaded != desc["time"]:
                res.update(ok=False, detail=f"{label}: time stamp {ftime!r}/{t_loaded!r} != {desc['time']!r}", failing_case=label)
                return res
            for k, a2 in arrays2.items():
                if a2.tobytes() != arrays[k].tobytes():
                    res.update(ok=False, detail=f"{label}: {k} not restored bit-exactly by load",
                               failing_input={"oracle": "roundtrip", "array": str(k), **{kk: str(vv) for kk, vv in label.items()}})
                    return res
            res["cases"] += 1
            if len(res["samples"]) < 3:
                res["samples"].append({**{k: str(v) for k, v in label.items()}, "datasets": {p_: list(a_.shape) for p_, a_ in file_ds.items()}})
        # ---- malformed files: implementation and model must both refuse
        mal_reqs, mal_ctx = [], []
        for i, (desc, tagger, tags, path, arrays, arrays2, t_loaded, variant) in enumerate(ctx):
            r = impl.rng(seed, "io-mal", i)
            file_ds, ftime, fparams = dump_h5(path)
            kinds = ["good_file"] if i % 2 == 0 else []
            if file_ds:
                kinds.append("delete_dataset")
            if desc["eul"]:
                kinds += ["origin", "dx", "grid_size", "param_length"]
            if not kinds:
                continue
            chosen = [kinds[0] if kinds[0] == "good_file" else kinds[int(r.integers(0, len(kinds)))]]
            if desc.get("via"):
                # the file of the convenience class must load into the base class (z-y-x origin) and a file whose origin is in
                # the mirrored (x-y-z) order must be refused
                chosen = ["good_file", "origin_reversed"]
            for kind in chosen:
                _malformed_case(kind, i, r, tmp, path, file_ds, desc, variant, mal_reqs, mal_ctx)
        mblocks = run_driver("".join(mal_reqs)) if mal_reqs else []
        for (kind, victim, raised, variant, tg, fds, desc), block in zip(mal_ctx, mblocks):
            model_err = block[0].startswith("error") if block else False
            res["malformed"][kind] = res["malformed"].get(kind, 0) + 1
            if kind == "good_file":
                if raised is not None or model_err:
                    fc = {"kind": kind, "variant": variant, "dim": desc["dim"], "dtype": desc["real_t"].__name__}
                    if desc.get("via"):
                        fc.update(written_by=desc["via"], lower_corner_xyz=desc["corner_xyz"], grid=list(desc["grid"]),
                                  registry_origin_zyx=[float(v) for v in desc["origin"]])
                    res.update(ok=False, detail=f"well-formed file ({variant}): implementation raised {raised}, model: {block[:1]}", failing_case=fc)
                    if raised is not None:
                        res["failing_input"] = {"oracle": "c17_file_of_convenience_class_refused" if desc.get("via") else "wellformed_refused", **fc, "raised": raised}
                    return res
                # the model's loaded arrays carry the tags of the FILE datasets: translate to bytes and compare with the originals
                orig = {}
                for name, k_, a in desc["eul"]:
                    orig[("eul", name)] = a
                auto = 0
                for gname, garr, fields in desc["grids"]:
                    rn = gname
                    if gname is None:
                        rn = f"Lagrangian_grid_{auto}"; auto += 1
                    orig[("grid", rn)] = garr
                    for fname, k_, farr in fields:
                        orig[("lag", f"{rn}/{fname}")] = farr
                for line in block[1:]:
                    t = line.split(" ")
                    got = tg.bytes_of(parse_arr(t[3:]))
                    if got != np.ascontiguousarray(orig[(t[1], t[2])]).tobytes():
                        res.update(ok=False, detail=f"model load of the implementation's file does not restore {t[1]} {t[2]}", failing_case={"kind": kind})
                        return res
                continue
            if raised is None:
                res.update(ok=False, detail=f"malformed file ({kind}, {victim}) was loaded without an error",
                           failing_input={"oracle": "malformed_accepted", "kind": kind, "dataset": victim, "variant": variant})
                return res
            if not model_err:
                res.update(ok=False, detail=f"implementation rejects malformed file ({kind}, {victim}: {raised}) but the model accepts it: {block[:1]}",
                           failing_case={"kind": kind, "dataset": victim})
                return res
        return res
    finally:
        shutil.rmtree(tmp, ignore_errors=True)


def oracle(seed=0, tier="quick", aimed=None):
    """C17's observable statements on the implementation alone (layout rules written here from the property text)"""
    n = 12 if tier == "quick" else 60
    tmp = tempfile.mkdtemp(prefix="iooracle", dir=os.path.join(harness.ROOT, ".cache"))
    cases = 0
    samples = []
    try:
        for i in range(n):
            r = impl.rng(seed + 5, "io-oracle", i)
            dim = 2 + (i // len(VARIANTS) + i % len(VARIANTS)) % 2
            real_t = [np.float64, np.float32][(i // 2) % 2]
            variant = VARIANTS[i % len(VARIANTS)]
            desc = make_registry(r, dim, real_t, variant)
            io, arrays = build_io(desc)
            before = {k: v.copy() for k, v in arrays.items()}
            path = os.path.join(tmp, f"o{i}.h5")
            io.save(path, time=desc["time"])
            ds, ftime, fparams = dump_h5(path)
            info = {"dim": dim, "dtype": real_t.__name__, "registry_dtype": desc["reg_t"].__name__, "variant": variant}
            if desc.get("via"):
                info.update(written_by=desc["via"], lower_corner_xyz=desc["corner_xyz"], grid=list(desc["grid"]))
            cases += 1

            def fail(what, **kw):
                return {"ok": False, "cases": cases, "samples": samples, "failing_input": {"oracle": "c17", "what": what, **info, **kw}}

            for k in arrays:
                if arrays[k].tobytes() != before[k].tobytes():
                    return fail("save modified a source array", array=str(k))
            for name, kind, a in desc["eul"]:
                if kind == "scalar":
                    d = ds.get(f"Eulerian/Scalar/{name}")
                    if d is None or d.shape != (1,) + a.shape or d.tobytes() != a.tobytes():
                        return fail("Eulerian scalar not stored as (1, *grid)", field=name)
                else:
                    for c in range(dim):
                        d = ds.get(f"Eulerian/Vector/{name}_{c}")
                        if d is None or d.shape != (1,) + a.shape[1:] or d.tobytes() != np.ascontiguousarray(a[c]).tobytes():
                            return fail("Eulerian vector component not stored as (1, *grid)", field=name, component=c)
            auto = 0
            for gname, garr, fields in desc["grids"]:
                real_name = gname
                if gname is None:
                    real_name = f"Lagrangian_grid_{auto}"; auto += 1
                N = garr.shape[1]
                d = ds.get(f"Lagrangian/{real_name}/Grid")
                if d is None or d.shape != (N, dim) or d.tobytes() != np.ascontiguousarray(garr.T).tobytes():
                    return fail("Lagrangian grid not stored marker-major (N, dim)", grid=real_name, N=N)
                for fname, kind, farr in fields:
                    if kind == "vector":
                        d = ds.get(f"Lagrangian/{real_name}/Vector/{fname}")
                        if d is None or d.shape != (N, dim) or d.tobytes() != np.ascontiguousarray(farr.T).tobytes():
                            return fail("Lagrangian vector field not stored marker-major (N, dim) under Vector/", grid=real_name, field=fname, N=N,
                                        found=[p for p in ds if p.endswith("/" + fname)])
                    else:
                        d = ds.get(f"Lagrangian/{real_name}/Scalar/{fname}")
                        if d is None or d.tobytes() != farr.tobytes():
                            return fail("Lagrangian scalar field not stored under Scalar/", grid=real_name, field=fname)
            if desc["eul"] and (fparams is None or not np.allclose(fparams[0], desc["origin"]) or not np.allclose(fparams[1], desc["dx"])
                                or list(fparams[2]) != list(desc["grid"])):
                return fail("Eulerian grid parameters in the file are not (origin, dx, grid_size) in z-y-x (array-axis) order",
                            file_params=None if fparams is None else [np.asarray(a).tolist() for a in fparams],
                            expected=[np.asarray(desc["origin"]).tolist(), np.asarray(desc["dx"]).tolist(), list(desc["grid"])])
            io2, arrays2 = build_io(desc, fresh=True)
            try:
                t = io2.load(path)
            except Exception as e:  # noqa: BLE001
                return fail("file written by save is refused by load of an identically described registry", error=repr(e)[:200])
            if t != desc["time"]:
                return fail("time stamp not restored", saved=desc["time"], loaded=float(t))
            for k, a2 in arrays2.items():
                if a2.tobytes() != before[k].tobytes():
                    return fail("array not restored bit-exactly", array=str(k), N=(a2.shape[-1] if k[0] != "eul" else None))
            # rejection
            rev = ["origin_reversed"] if desc["eul"] and not np.allclose(desc["origin"], np.array(desc["origin"])[::-1]) else []
            for kind in (["delete"] if ds else []) + (["origin", "dx", "grid_size"] + rev if desc["eul"] else []):
                bad = os.path.join(tmp, f"ob{i}{kind}.h5")
                shutil.copy(path, bad)
                with h5py.File(bad, "a") as f:
                    if kind == "delete":
                        victim = sorted(ds)[int(r.integers(0, len(ds)))]
                        del f[victim]
                    elif kind == "origin":
                        f["Eulerian"]["Parameters"].attrs["origin"] = np.array(desc["origin"]) - 0.21
                    elif kind == "origin_reversed":
                        f["Eulerian"]["Parameters"].attrs["origin"] = np.array(desc["origin"])[::-1].copy()
                    elif kind == "dx":
                        f["Eulerian"]["Parameters"].attrs["dx"] = np.array(desc["dx"]) * 0.5
                    else:
                        f["Eulerian"]["Parameters"].attrs["grid_size"] = np.array(desc["grid"]) + 2
                io3, _ = build_io(desc, fresh=True)
                try:
                    io3.load(bad)
                    return fail("mismatching file loaded without an error", malformation=kind)
                except Exception:  # noqa: BLE001
                    pass
                cases += 1
            if len(samples) < 2:
                samples.append({"oracle": "c17", **info, "datasets": sorted(ds)})
        # convenience classes
        import elastica as ea
        rod = ea.CosseratRod.straight_rod(5, np.zeros(3), np.array([1.0, 0, 0]), np.array([0, 0, 1.0]), 1.0, 0.05, 1000.0, youngs_modulus=1e6, shear_modulus=4e5)
        rod.position_collection[...] += impl.rng(seed, "rodpos").normal(size=rod.position_collection.shape) * 1e-3   # not representable in float32
        for dim, reg_t in ((2, np.float64), (3, np.float64), (2, np.float32), (3, np.float32)):
            rio = spu.CosseratRodIO(rod, dim=dim, real_dtype=reg_t)
            p = os.path.join(tmp, f"rod{dim}{reg_t.__name__}.h5")
            rio.save(p, time=1.5)
            ds, t, _ = dump_h5(p)
            cases += 1
            g = ds.get("Lagrangian/rod/Grid")
            want = 0.5 * (rod.position_collection[:dim, 1:] + rod.position_collection[:dim, :-1])
            if g is None or g.shape != (5, dim) or np.ascontiguousarray(g).tobytes() != np.ascontiguousarray(want.T).tobytes():
                return {"ok": False, "cases": cases, "samples": samples, "failing_input": {
                    "oracle": "c17_rod_io", "dim": dim, "registry_dtype": reg_t.__name__, "array_dtype": str(want.dtype),
                    "stored_dtype": None if g is None else str(g.dtype), "what": "element positions in the file are not the rod's, bit for bit"}}
        x = np.linspace(0.05, 0.95, 6); y = np.linspace(-0.35, 0.15, 4)
        pos = np.flipud(np.array(np.meshgrid(y, x, indexing="ij")))
        w = np.arange(24.0).reshape(4, 6)
        eio = spu.EulerianFieldIO(position_field=pos, eulerian_fields_dict={"w": w})
        p = os.path.join(tmp, "eul.h5")
        eio.save(p, time=0.5)
        ds, t, pr = dump_h5(p)
        cases += 1
        if ds["Eulerian/Scalar/w"].shape != (1, 4, 6) or not np.allclose(pr[0], [-0.35, 0.05]) or not np.allclose(pr[1], [x[1] - x[0]] * 2) or list(pr[2]) != [4, 6]:
            return {"ok": False, "cases": cases, "samples": samples, "failing_input": {"oracle": "c17_eulerian_field_io", "params": [a.tolist() for a in pr]}}
        return {"ok": True, "cases": cases, "failing_input": None, "samples": samples}
    finally:
        shutil.rmtree(tmp, ignore_errors=True)


def replay(fi):
    return oracle(seed=fi.get("seed", 0), tier="thorough")
