"""Passive-transport simulator steps vs the step programs of the model (Model.passiveStep2D / passiveStep3D /
passiveStepVec3D, the programs the theorems C01_passive_step_*, C04_passive_program_*, C02_consistency_program_3d and the
C20 Euler-forward program theorems are about): exact kernel-call trace (kernel, region, bindings, scalar arguments such as
dt/dx and nu*dt/dx^2 as the simulator forms them) + numeric execution at ℚ on the same buffers.

Non-square / non-cubic grids (the spacing is x_range / nx: any other extent used in a prefactor shows), both precisions in
the thorough tier, dt taken from compute_stable_timestep() (which uses the shared scratch buffer) or drawn at random, two
successive steps on the same simulator, scratch buffer dirtied."""
import warnings

import numpy as np

import impl
from corr import harness


def _snap(flat):
    return {n: np.array(a, copy=True) for n, a in flat.items()}


def _configs(tier):
    cfgs = [(2, "scalar"), (3, "scalar"), (3, "vector")]
    reps = 1 if tier == "quick" else 3
    return [(d, ft, k) for d, ft in cfgs for k in range(reps)]


def run(seed=0, tier="quick"):
    import shim
    import sopht.simulator as sps

    res = {"ok": True, "cases": 0, "samples": [], "worst_rel_err": 0.0, "kernel_calls": 0,
           "name": "passive-transport simulator steps vs Model.passiveStep2D/3D/Vec3D", "configs": []}
    precisions = [np.float64] if tier == "quick" else [np.float64, np.float32]
    for real_t in precisions:
        per_driver = {"Prog2D": ([], [], [], []), "Prog3D": ([], [], [], [])}
        for dim, ft, k in _configs(tier):
            r = impl.rng(seed, "passive", dim, ft, k)
            lo = 7
            shape = tuple(int(v) for v in lo + r.permutation(dim + 2)[:dim])      # pairwise different extents
            with warnings.catch_warnings():
                warnings.simplefilter("ignore")
                sim = sps.PassiveTransportFlowSimulator(kinematic_viscosity=float(r.uniform(1e-3, 5e-2)), grid_dim=dim, grid_size=shape,
                                                        x_range=float(r.uniform(0.5, 2.0)), real_t=real_t, field_type=ft,
                                                        time=float(r.uniform(0, 1)))
            sim.primary_field[...] = r.normal(size=sim.primary_field.shape)
            sim.velocity_field[...] = r.normal(size=sim.velocity_field.shape)
            bufs = {"primary": sim.primary_field, "velocity": sim.velocity_field, "buffer_scalar": sim.buffer_scalar_field}
            flat = harness.expand_bufs(bufs, dim)
            requests, expect, traces, labels = per_driver["Prog2D" if dim == 2 else "Prog3D"]
            for stepno in range(2):
                if (k + stepno) % 2 == 0:
                    with np.errstate(all="ignore"):
                        dt = float(sim.compute_stable_timestep(dt_prefac=float(r.uniform(0.2, 0.9))))     # leaves |u| sums in the scratch buffer
                else:
                    dt = float(r.uniform(1e-3, 1e-2))
                    sim.buffer_scalar_field[...] = r.normal(size=sim.buffer_scalar_field.shape)
                s0 = _snap(flat)
                t0 = sim.time
                tr = harness.Tracer(flat, dim)
                shim.TRACERS.append(tr)
                try:
                    sim.time_step(dt=dt)
                finally:
                    shim.TRACERS.remove(tr)
                s1 = _snap(flat)
                label = f"passive{dim}d[{ft},{real_t.__name__},{'x'.join(str(n) for n in shape)},step {stepno + 1}]"
                for ov in tr.overlaps:
                    if not (ov["identical"] and ov["other_read_at_centre_only"]):
                        res.update(ok=False, detail=f"{label}: call site passes overlapping memory unsafely: {ov}",
                                   failing_input={"oracle": "callsite_alias", "config": label, **ov})
                        return res
                if sim.time != t0 + dt:
                    res.update(ok=False, detail=f"{label}: simulator time {sim.time!r} != {t0!r} + {dt!r}",
                               failing_input={"oracle": "clock", "config": label, "t0": t0, "dt": dt, "time": sim.time})
                    return res
                args = dict(zip(("nz", "ny", "nx")[-dim:], shape))
                args.update(dt=dt, dx=sim.dx, nu=sim.kinematic_viscosity)
                prog = {(2, "scalar"): "passive_step_2d", (3, "scalar"): "passive_step_3d", (3, "vector"): "passive_step_vec_3d"}[(dim, ft)]
                requests.append((prog, args, s0, False))
                expect.append(s1)
                traces.append(tr.lines)
                labels.append(label)
                res["configs"].append(label)
        for driver, (requests, expect, traces, labels) in per_driver.items():
            if not requests:
                continue
            results = harness.run_driver(driver, requests)
            for i, label in enumerate(labels):
                d = harness.compare_trace(traces[i], results[i][0], real_t)
                if d is None:
                    d, worst = harness.compare_bufs(expect[i], results[i][1], real_t, nops=400)
                    res["worst_rel_err"] = max(res["worst_rel_err"], worst)
                res["cases"] += 1
                res["kernel_calls"] += len(traces[i])
                if d is not None:
                    res.update(ok=False, detail=f"{label}: {d}", failing_case={"label": label})
                    return res
                if len(res["samples"]) < 3:
                    res["samples"].append({"case": label, "kernel_calls": len(traces[i]),
                                           "trace": [f"{l['kid']} {l['region']} {dict(l['binds'])} {dict(l.get('scal', {}))}" for l in traces[i]][:8]})
    return res
