"""C03: (1) trace + numeric correspondence of the Poisson-solve glue programs (Model/Prog2D.poisson*,
Model/Prog3D.poisson*) with the real solvers over SEQUENCES of solves on one solver object; (2) numeric
validation of the FFT contract assumed by Model/Poisson.lean (irfft(rfft a · rfft g) = circular convolution);
(3) oracle: solve vs. direct aperiodic convolution with the documented Green's function."""
from __future__ import annotations

import itertools
import warnings

import numpy as np

import impl
import shim
from corr import harness
from impl import spne


def greens(dim, sep, dx):
    """documented free-space Green's function of −Δ at cell separation `sep` (tuple of ints)"""
    r = dx * np.sqrt(sum(int(s) ** 2 for s in sep))
    if dim == 2:
        if r == 0:
            return -(2 * np.log(dx / np.sqrt(np.pi)) - 1) / (4 * np.pi)
        return -np.log(r) / (2 * np.pi)
    if r == 0:
        return 1.0 / (4 * np.pi * dx)
    return 1.0 / (4 * np.pi * r)


def direct_convolution(f, dx):
    dim = f.ndim
    shape = f.shape
    out = np.zeros(shape)
    table = np.zeros(shape)
    for sep in itertools.product(*[range(n) for n in shape]):
        table[sep] = greens(dim, sep, dx)
    idx = list(itertools.product(*[range(n) for n in shape]))
    for t in idx:
        acc = 0.0
        for s in idx:
            acc += table[tuple(abs(a - b) for a, b in zip(t, s))] * f[s]
        out[t] = acc * dx**dim
    return out


def _solver(dim, shape, real_t, x_range=1.0):
    with warnings.catch_warnings():
        warnings.simplefilter("ignore")
        if dim == 2:
            return spne.UnboundedPoissonSolverPYFFTW2D(grid_size_y=shape[0], grid_size_x=shape[1], x_range=x_range, real_t=real_t)
        return spne.UnboundedPoissonSolverPYFFTW3D(grid_size_z=shape[0], grid_size_y=shape[1], grid_size_x=shape[2], x_range=x_range, real_t=real_t)


def _snap(flat):
    return {n: np.array(a, copy=True) for n, a in flat.items()}


def run(seed=0, tier="quick"):
    res = {"ok": True, "cases": 0, "samples": [], "name": "Poisson glue programs vs real solvers (sequences of solves) + FFT contract",
           "kernel_calls": 0, "fft_contract_checks": 0, "worst_fft_contract_err": 0.0}
    # sizes include axes whose doubled length has a large prime factor (17, 19, 23: FFT-length-dependent code paths)
    shapes2 = [(5, 8), (8, 5), (7, 6), (4, 19)] if tier == "quick" else [(5, 8), (8, 5), (7, 6), (9, 9), (4, 11), (11, 4), (4, 19), (23, 3)]
    shapes3 = [(3, 4, 5), (5, 3, 4), (17, 3, 4)] if tier == "quick" else [(3, 4, 5), (5, 3, 4), (4, 4, 6), (6, 5, 3), (17, 3, 4), (3, 19, 3), (3, 4, 23)]
    real_t = np.float64
    for dim, shapes, driver in ((2, shapes2, "Prog2D"), (3, shapes3, "Prog3D")):
        requests, expects, traces, labels = [], [], [], []
        for si, shape in enumerate(shapes):
            r = impl.rng(seed, "poisson", dim, si)
            xr = float(r.uniform(0.5, 2.0))
            _solver(dim, shape, real_t, x_range=xr * float(r.uniform(1.3, 2.5)))   # another solver of this shape, other spacing, exists already
            ps = _solver(dim, shape, real_t, x_range=xr)
            # hypothesis of the C03 theorems on the table: transform of the documented Green's function, evenly reflected
            # on the doubled domain, times the cell volume, for THIS solver's spacing
            dbl = tuple(2 * n for n in shape)
            table = np.zeros(dbl)
            for sep in itertools.product(*[range(n) for n in dbl]):
                table[sep] = greens(dim, tuple(min(a, 2 * n - a) for a, n in zip(sep, shape)), float(ps.dx))
            ghat = np.fft.rfftn(table) * float(ps.dx) ** dim
            gimp = np.asarray(getattr(ps, "fourier_greens_function_times_dx_squared" if dim == 2 else "fourier_greens_function_times_dx_cubed"))
            terr = float(np.max(np.abs(gimp - ghat))) / float(np.max(np.abs(ghat))) if gimp.shape == ghat.shape else np.inf
            res["worst_greens_table_err"] = max(res.get("worst_greens_table_err", 0.0), terr)
            if not terr < 1e-10:
                res.update(ok=False, detail=f"Green's function table of the {dim}D solver on {shape}, x_range {xr}: differs from the transform of the documented "
                                            f"function at its own spacing dx = {float(ps.dx)} (rel. err {terr:.3e})",
                           failing_case={"shape": list(shape), "x_range": xr})
                return res
            # the 2D solver's doubled buffer comes from pyfftw.empty_aligned and is first written by `solve` itself: whatever
            # it holds is admissible; entries that are not finite cannot be sent to the model (ℚ) and are replaced by
            # arbitrary finite values
            bad = ~np.isfinite(ps.domain_doubled_buffer)
            ps.domain_doubled_buffer[bad] = r.normal(size=int(bad.sum()))
            res["uninitialised_nonfinite_entries_replaced"] = res.get("uninitialised_nonfinite_entries_replaced", 0) + int(bad.sum())
            sol = r.normal(size=shape).astype(real_t)
            for k in range(3):   # a history of solves on the same object
                rhs = r.normal(size=shape).astype(real_t) if k < 2 else np.zeros(shape, dtype=real_t)
                if k == 1:
                    rhs[(0,) * dim] = 5.0; rhs[tuple(n - 1 for n in shape)] = -3.0
                gname = "fourier_greens_function_times_dx_squared" if dim == 2 else "fourier_greens_function_times_dx_cubed"
                bufs = {"rhs_field": rhs, "solution_field": sol, "ps.dbl": ps.domain_doubled_buffer, "ps.f": ps.domain_doubled_fourier_buffer,
                        "ps.g": getattr(ps, gname), "ps.c": ps.convolution_buffer}
                flat = harness.expand_bufs(bufs, dim)
                snaps = {}
                orig_rfft, orig_irfft = ps.rfft, ps.irfft

                def rfft(*a, _o=orig_rfft, **kw):
                    snaps["pre_rfft"] = _snap(flat); out = _o(*a, **kw); snaps["post_rfft"] = _snap(flat); return out

                def irfft(*a, _o=orig_irfft, **kw):
                    snaps["pre_irfft"] = _snap(flat); out = _o(*a, **kw); snaps["post_irfft"] = _snap(flat); return out

                ps.rfft, ps.irfft = rfft, irfft
                s0 = _snap(flat)
                tr = harness.Tracer(flat, dim)
                shim.TRACERS.append(tr)
                try:
                    ps.solve(solution_field=sol, rhs_field=rhs)
                finally:
                    shim.TRACERS.remove(tr)
                    ps.rfft, ps.irfft = orig_rfft, orig_irfft
                s5 = _snap(flat)
                # FFT contract on the actual buffers: irfft(rfft(a)·ĝ) == circular convolution of a with irfft(ĝ)
                a = snaps["pre_rfft"]["ps.dbl"]
                ghat = snaps["post_rfft"]["ps.g.re"] + 1j * snaps["post_rfft"]["ps.g.im"]
                g = np.fft.irfftn(ghat, s=a.shape)
                circ = np.zeros_like(a)
                for t in itertools.product(*[range(n) for n in a.shape]):
                    if all(ti < ni for ti, ni in zip(t, shape)):
                        acc = 0.0
                        for s in itertools.product(*[range(n) for n in shape]):
                            acc += a[s] * g[tuple((ti - si) % ni for ti, si, ni in zip(t, s, a.shape))]
                        circ[t] = acc
                corner = tuple(slice(0, n) for n in shape)
                err = float(np.max(np.abs(snaps["post_irfft"]["ps.dbl"][corner] - circ[corner]))) / max(1.0, float(np.max(np.abs(circ))))
                res["fft_contract_checks"] += 1
                res["worst_fft_contract_err"] = max(res["worst_fft_contract_err"], err)
                if err > 1e-10:
                    res.update(ok=False, detail=f"FFT contract violated on {shape} (solve #{k}): rel. err {err:.3e}",
                               failing_case={"shape": list(shape), "solve": k})
                    return res
                sz = dict(zip(("nz", "ny", "nx")[-dim:], shape))
                suffix = f"_{dim}d"
                requests += [("poisson_pre" + suffix, sz, s0, False), ("poisson_mid" + suffix, sz, snaps["post_rfft"], False),
                             ("poisson_post" + suffix, sz, snaps["post_irfft"], False)]
                expects += [snaps["pre_rfft"], snaps["pre_irfft"], s5]
                traces.append(tr.lines)
                labels.append(f"poisson{dim}d{shape} solve#{k}")
        results = harness.run_driver(driver, requests)
        for i, label in enumerate(labels):
            mcalls = results[3 * i][0] + results[3 * i + 1][0] + results[3 * i + 2][0]
            d = harness.compare_trace(traces[i], mcalls, real_t)
            if d is None:
                for j, phase in enumerate(("pre", "mid", "post")):
                    d, worst = harness.compare_bufs(expects[3 * i + j], results[3 * i + j][1], real_t, nops=100)
                    if d is not None:
                        d = f"phase {phase}: {d}"
                        break
            res["cases"] += 1
            res["kernel_calls"] += len(traces[i])
            if d is not None:
                res.update(ok=False, detail=f"{label}: {d}", failing_case={"label": label})
                return res
            if len(res["samples"]) < 2:
                res["samples"].append({"case": label, "trace": [f"{l['kid']} {l['region']} {dict(l['binds'])}" for l in traces[i]]})
    return res


def oracle(seed=0, tier="quick", aimed=None):
    cases = 0
    samples = []
    cfgs = [(2, (5, 8)), (2, (8, 5)), (2, (7, 7)), (3, (3, 4, 5)), (3, (5, 4, 3)), (2, (19, 4)), (3, (4, 17, 3)), (3, (3, 4, 19))]
    if tier != "quick":
        cfgs += [(2, (9, 6)), (2, (6, 9)), (2, (4, 10)), (3, (4, 4, 6)), (3, (6, 3, 4)), (3, (4, 6, 4)), (2, (5, 23)), (3, (23, 3, 3)), (3, (17, 5, 4))]
    for ci, (dim, shape) in enumerate(cfgs):
        for real_t, tol in ((np.float64, 1e-10), (np.float32, 3e-4)):
            r = impl.rng(seed, "c03", ci)
            xr = float(r.uniform(0.5, 2.0))
            if ci % 2 == 0:
                _solver(dim, shape, real_t, x_range=xr * 1.7)   # solvers of one shape and different extents coexist in one process
            ps = _solver(dim, shape, real_t, x_range=xr)
            dx = float(ps.dx)
            info = {"dim": dim, "grid": list(shape), "dtype": real_t.__name__, "x_range": xr}
            hist = []
            for k in range(4):
                kind = ["random", "corner_deltas", "random", "zero"][k]
                f = r.normal(size=shape)
                if kind == "corner_deltas":
                    f = np.zeros(shape); f[(0,) * dim] = 1.0; f[tuple(n - 1 for n in shape)] = -2.0
                if kind == "zero":
                    f = np.zeros(shape)
                hist.append(kind)
                sol = r.normal(size=shape).astype(real_t)
                ps.solve(solution_field=sol, rhs_field=f.astype(real_t))
                ref = direct_convolution(f.astype(real_t).astype(np.float64), dx)
                cases += 1
                err = impl.relerr(sol, ref)
                if err > tol:
                    return {"ok": False, "cases": cases, "samples": samples, "failing_input": {
                        "oracle": "c03_free_space_convolution", **info, "history_of_solves": hist, "rel_err": err,
                        "rhs": f.tolist()}}
            if dim == 3:
                F = r.normal(size=(3,) + shape).astype(real_t)
                if ci % 2 == 1:
                    F[ci % 3] = 0                              # a component with nothing to solve for
                out = r.normal(size=F.shape).astype(real_t)    # output arrays start dirty (the simulator reuses its stream function array)
                ps.vector_field_solve(solution_vector_field=out, rhs_vector_field=F)
                for c in range(3):
                    s1 = r.normal(size=shape).astype(real_t)
                    ps.solve(solution_field=s1, rhs_field=F[c])
                    cases += 1
                    if not np.array_equal(s1, out[c]):
                        return {"ok": False, "cases": cases, "samples": samples, "failing_input": {
                            "oracle": "c03_vector_solve_is_three_scalar_solves", **info, "component": c}}
        if len(samples) < 2:
            samples.append({"oracle": "c03", "dim": dim, "grid": list(shape), "solves": 4})
    return {"ok": True, "cases": cases, "failing_input": None, "samples": samples}


def replay(fi):
    return oracle(seed=fi.get("seed", 0), tier="thorough")
