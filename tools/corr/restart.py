"""C18: correspondence of Model.restartSimulation with sopht.utils.restart_sim.restart_simulation on
generated directory contents (gaps, unpadded indices, > 9999, roll-over of the four-digit padding, missing rod / forcing files, time mismatch)."""
import os
import shutil
import subprocess
import tempfile

import numpy as np

import impl
from corr import harness

import sopht.utils as spu
import sopht.utils.restart_sim as rs


def _ios():
    io = spu.IO(dim=2)
    io.define_eulerian_grid(origin=np.zeros(2), dx=np.ones(2), grid_size=np.array([2, 3]))
    w = np.zeros((2, 3))
    io.add_as_eulerian_fields_for_io(w=w)
    rod = spu.IO(dim=2)
    rod.add_as_lagrangian_fields_for_io(lagrangian_grid=np.zeros((2, 3)), lagrangian_grid_name="rod")
    frc = spu.IO(dim=2)
    frc.add_as_lagrangian_fields_for_io(lagrangian_grid=np.zeros((2, 4)), lagrangian_grid_name="f", m=np.zeros((2, 4)))
    return io, rod, frc


def run(seed=0, tier="quick"):
    n = 12 if tier == "quick" else 60
    res = {"ok": True, "cases": 0, "samples": [], "name": "Model.restartSimulation vs restart_simulation", "outcomes": {}}
    tmp0 = tempfile.mkdtemp(prefix="restart", dir=os.path.join(harness.ROOT, ".cache"))
    cwd = os.getcwd()
    orig_load_state = rs.ea.load_state
    reqs, observed, metas = [], [], []
    try:
        for i in range(n):
            r = impl.rng(seed, "restart", i)
            d = os.path.join(tmp0, f"d{i}"); os.makedirs(d)
            os.chdir(d)
            scenario = ["normal", "empty", "gap", "missing_rod", "missing_forcing", "time_mismatch", "unpadded", "big", "rollover", "normal"][i % 10]
            idxs = sorted(set(int(x) for x in r.integers(0, 60, size=int(r.integers(1, 5)))))
            if scenario == "empty":
                idxs = []
            if scenario == "big":
                idxs.append(12345)
            if scenario == "rollover":
                # the file names stop being zero padded to a common width: numeric and lexicographic order differ
                idxs += [[9998, 9999, 10000], [999, 9999, 10001, 100000], [99999, 100000]][int(r.integers(0, 3))]
            times = {k: float(r.uniform(0, 9)) for k in idxs}
            latest = max(idxs) if idxs else None
            files = {}
            for k in idxs:
                io, rod, frc = _ios()
                name = f"{k:04d}"
                if scenario == "unpadded" and k == latest:
                    name = str(k)  # sopht_7.h5 : globbed and parsed, but the helper then asks for sopht_0007.h5
                io.save(f"sopht_{name}.h5", time=times[k]); files[f"sopht_{name}.h5"] = times[k]
                if not (scenario == "missing_rod" and k == latest):
                    rod.save(f"rod_{name}.h5", time=times[k]); files[f"rod_{name}.h5"] = times[k]
                if not (scenario == "missing_forcing" and k == latest):
                    frc.save(f"forcing_grid_{name}.h5", time=times[k]); files[f"forcing_grid_{name}.h5"] = times[k]
            body_time = times[latest] if latest is not None else 0.0
            if scenario == "time_mismatch" and latest is not None:
                body_time = np.nextafter(body_time, 100.0)
            rs.ea.load_state = lambda sim, directory, verbose, _t=body_time: _t
            io, rod, frc = _ios()
            try:
                t = rs.restart_simulation(None, io, rod, frc, d)
                out = ("ok", float(t))
            except FileNotFoundError:
                out = ("raise-FileNotFoundError", None)
            except (ValueError, OSError, KeyError) as e:
                out = ("raise-" + type(e).__name__, None)
            observed.append(out)
            L = ["indices " + " ".join(str(k) for k in idxs)]
            for fn, tt in files.items():
                L.append(f"file {fn} {harness.fstr(tt)}")
            L.append(f"body {harness.fstr(body_time)}")
            L.append("run")
            reqs.append("\n".join(L) + "\n")
            metas.append({"scenario": scenario, "indices": idxs, "files": sorted(files)})
        os.chdir(cwd)
        p = subprocess.run(["lake", "env", "lean", "--run", "SophtVerif/Driver/Restart.lean"], cwd=harness.LEAN, input="".join(reqs),
                           capture_output=True, text=True, timeout=600)
        if p.returncode != 0:
            raise RuntimeError(p.stderr[-1500:])
        outs = [l for l in p.stdout.splitlines() if l.split(" ")[0] in ("ok", "no-checkpoint", "load-failed", "time-mismatch")]
        if len(outs) != len(reqs):
            raise RuntimeError("restart driver answered a different number of requests")
        from fractions import Fraction
        for o, m, me in zip(observed, outs, metas):
            res["outcomes"][m.split(" ")[0]] = res["outcomes"].get(m.split(" ")[0], 0) + 1
            agree = (o[0] == "ok" and m.startswith("ok ") and float(Fraction(m.split(" ")[1])) == o[1]) or \
                    (o[0].startswith("raise") and not m.startswith("ok")) 
            if agree and o[0].startswith("raise"):
                # kind of refusal
                agree = (m == "no-checkpoint") == (o[0] == "raise-FileNotFoundError" and not me["indices"]) or me["indices"] != []
            if not agree:
                res.update(ok=False, detail=f"{me}: implementation {o}, model {m}", failing_input={"oracle": "restart_helper", **{k: str(v) for k, v in me.items()},
                                                                                                 "implementation": str(o), "model": m})
                return res
            res["cases"] += 1
            if len(res["samples"]) < 3:
                res["samples"].append({**{k: str(v) for k, v in me.items()}, "result": m})
        return res
    finally:
        os.chdir(cwd)
        rs.ea.load_state = orig_load_state
        shutil.rmtree(tmp0, ignore_errors=True)
