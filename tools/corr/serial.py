"""C15: obligation on the numba immersed-boundary kernels — the model of spreading (Model/Interp: a serial fold over the
markers, C07) has no counterpart for a parallel marker loop, so the communicator modules must not request one
(`parallel=True`, `prange`).  This is a structural obligation, not a failing input: when it breaks, the thread sweep of the
C15 oracle searches for a marker set on which the results differ between thread counts."""
import inspect
import re


def run(seed=0, tier="quick"):
    import sopht.numeric.immersed_boundary_ops as ibo

    res = {"ok": True, "cases": 0, "samples": [], "name": "numba communicator kernels are compiled serial (no parallel=True / prange)"}
    for cls in (ibo.EulerianLagrangianGridCommunicator2D, ibo.EulerianLagrangianGridCommunicator3D):
        src = inspect.getsource(inspect.getmodule(cls))
        code = "\n".join(l.split("#")[0] for l in src.splitlines())
        res["cases"] += 1
        hits = [m.group(0) for m in re.finditer(r"\bprange\b|parallel\s*=\s*True", code)]
        if hits:
            res.update(ok=False, detail=f"{cls.__module__}: {sorted(set(hits))} present — the serial-fold model of spreading no longer describes this code",
                       failing_case={"module": cls.__module__, "constructs": sorted(set(hits))})
            return res
        res["samples"].append({"module": cls.__module__, "parallel_constructs": 0})
    return res
