"""C10: op-sequence correspondence of Model/VBF.lean with real ImmersedBodyFlowInteraction objects
(one or two bodies sharing one Eulerian forcing field, reset mode on/off, 2D and 3D), plus the oracle that
evaluates the PI law on the implementation against an independent bookkeeping of the history."""
from __future__ import annotations

import subprocess
from fractions import Fraction

import numpy as np

import impl
from corr import harness

from sopht.simulator.immersed_body import ImmersedBodyFlowInteraction, ImmersedBodyForcingGrid


class ScriptedGrid(ImmersedBodyForcingGrid):
    """forcing grid whose 'body' is a pair of arrays the harness moves around; like the real grids it refreshes
    position_field / velocity_field IN PLACE from the body state"""

    def __init__(self, grid_dim, body_pos, body_vel, spacing):
        super().__init__(grid_dim, body_pos.shape[1])
        self.body_pos, self.body_vel, self.spacing = body_pos, body_vel, spacing
        self.position_field = self.position_field.astype(body_pos.dtype)
        self.velocity_field = self.velocity_field.astype(body_pos.dtype)

    def compute_lag_grid_position_field(self):
        self.position_field[...] = self.body_pos

    def compute_lag_grid_velocity_field(self):
        self.velocity_field[...] = self.body_vel

    def transfer_forcing_from_grid_to_body(self, body_flow_forces, body_flow_torques, lag_grid_forcing_field):
        body_flow_forces[: self.grid_dim] = -np.sum(lag_grid_forcing_field, axis=1).reshape(-1, 1)

    def get_maximum_lagrangian_grid_spacing(self):
        return self.spacing


def ref_weights(pos, dx, shift, dim):
    """independent numpy reference of the cosine delta weights: per marker (cells, weights)"""
    n = pos.shape[1]
    out = []
    for m in range(n):
        idx = [int(np.floor((float(pos[a, m]) - shift) / dx)) for a in range(dim)]
        w1 = []
        for a in range(dim):
            ks = np.arange(-1, 3)
            r = ((idx[a] + ks) * dx + shift - float(pos[a, m])) / dx
            w1.append(0.25 * (1 + np.cos(0.5 * np.pi * r)) / dx)
        cells = []
        if dim == 2:
            for iy, ky in enumerate(range(-1, 3)):
                for ix, kx in enumerate(range(-1, 3)):
                    cells.append(((idx[1] + ky, idx[0] + kx), w1[0][ix] * w1[1][iy]))
        else:
            for iz, kz in enumerate(range(-1, 3)):
                for iy, ky in enumerate(range(-1, 3)):
                    for ix, kx in enumerate(range(-1, 3)):
                        cells.append(((idx[2] + kz, idx[1] + ky, idx[0] + kx), w1[0][ix] * w1[1][iy] * w1[2][iz]))
        out.append(cells)
    return out


def ref_interp(weights, u, dx, dim):
    n = len(weights)
    out = np.zeros((dim, n))
    for m, cells in enumerate(weights):
        for c, w in cells:
            for a in range(dim):
                out[a, m] += w * float(u[(a,) + c]) * dx**dim
    return out


def history(r, nbodies, length):
    ops = []
    for _ in range(length):
        kind = r.choice(["full", "full", "lag", "step", "step", "move", "flow", "nudge"])
        b = int(r.integers(0, nbodies))
        if kind == "step":
            dt = float(r.choice([0.0, -1e-3, 2.5e-3, 1e-3, float(r.uniform(0, 5e-3))]))
            ops.append(("step", b, dt))
        else:
            ops.append((kind, b))
    ops.append(("full", 0))
    return ops


def run_history(seed, case, dim, reset, nbodies, real_t, length):
    r = impl.rng(seed, "vbf", case)
    shape = tuple(int(v) for v in (r.integers(10, 14, size=2) if dim == 2 else r.integers(9, 11, size=3)))
    dx = real_t(r.uniform(0.05, 0.2))
    shift = float(real_t(dx / 2))
    u = r.normal(size=(dim,) + shape).astype(real_t)
    E = r.normal(size=(dim,) + shape).astype(real_t)
    E0 = E.copy()
    bodies = []
    for b in range(nbodies):
        n = int(r.integers(3, 6))
        pos = np.zeros((dim, n), dtype=real_t)
        for a in range(dim):
            pos[a] = r.uniform(2.2 * dx + shift, (shape[dim - 1 - a] - 3.2) * dx + shift, size=n)
        vel = r.normal(size=(dim, n)).astype(real_t)
        k, c, ds = float(r.uniform(1e2, 1e4)), float(r.uniform(0, 10)), float(r.uniform(0.5, 1.5) * dx)
        forces, torques = np.zeros((3, 1)), np.zeros((3, 1))
        it = ImmersedBodyFlowInteraction(
            eul_grid_forcing_field=E, eul_grid_velocity_field=u, body_flow_forces=forces, body_flow_torques=torques,
            forcing_grid_cls=ScriptedGrid, virtual_boundary_stiffness_coeff=k, virtual_boundary_damping_coeff=c, dx=dx, grid_dim=dim,
            real_t=real_t, enable_eul_grid_forcing_reset=reset, start_time=float(r.uniform(0, 1)), body_pos=pos, body_vel=vel, spacing=ds)
        bodies.append({"it": it, "pos": pos, "vel": vel, "k": k * ds ** (dim - 1), "c": c * ds ** (dim - 1), "n": n, "t0": it.time})
    nV = max(b["n"] for b in bodies) * dim
    nW = int(np.prod((dim,) + shape))
    lines = [f"sizes {nV} {nW}"]
    for b, bd in enumerate(bodies):
        lines.append(f"params {b} {harness.fstr(bd['k'])} {harness.fstr(bd['c'])} {1 if reset else 0}")
        lines.append(f"init {b} {harness.fstr(bd['t0'])}")
    lines.append("e0 " + " ".join(harness.fstr(v) for v in E0.ravel()))
    strides = np.array(E.strides) // E.itemsize
    observed = []
    problems = []
    for op in history(r, nbodies, length):
        kind, b = op[0], op[1]
        bd = bodies[b]
        it = bd["it"]
        if kind == "move":
            bd["pos"] += (r.uniform(-0.3, 0.3, size=bd["pos"].shape) * dx).astype(real_t)
            bd["vel"][...] = r.normal(size=bd["vel"].shape)
            continue
        if kind == "nudge":
            # a creeping body: displacements of a few 1e-6 of the coordinate (well above rounding, below any `allclose` default)
            bd["pos"] *= (1 + r.uniform(-4e-6, 4e-6, size=bd["pos"].shape)).astype(real_t)
            continue
        if kind == "flow":
            u[...] = r.normal(size=u.shape)
            continue
        snap_u, snap_pos, snap_vel = u.copy(), bd["pos"].copy(), bd["vel"].copy()
        if kind == "step":
            it.time_step(op[2])
            lines.append(f"op step {b} {harness.fstr(op[2])}")
        else:
            W = ref_weights(bd["pos"], float(dx), shift, dim)
            ui = ref_interp(W, u, float(dx), dim)
            pad = nV - bd["n"] * dim

            def flat(a, n=bd["n"]):
                v = np.zeros(nV)
                v[: n * dim] = np.asarray(a, dtype=np.float64).ravel()  # index comp*n + m
                return " ".join(harness.fstr(x) for x in v)

            if kind == "lag":
                it.compute_flow_forces_and_torques()
                lines.append(f"op lag {b} {flat(ui)} {flat(bd['vel'])}")
            else:
                it()
                tr = []
                for m, cells in enumerate(W):
                    for cidx, w in cells:
                        for a in range(dim):
                            cell = int(np.dot((a,) + cidx, strides))
                            tr.append(f"{cell} {a * bd['n'] + m} {harness.fstr(w)}")
                lines.append(f"op full {b} {flat(ui)} {flat(bd['vel'])} {len(tr)} " + " ".join(tr))
        if not (np.array_equal(u, snap_u) and np.array_equal(bd["pos"], snap_pos) and np.array_equal(bd["vel"], snap_vel)):
            problems.append(f"op {op}: flow velocity field or body state modified by the interactor")
        if it.eul_grid_velocity_field.flags.writeable:
            problems.append("interactor holds a writeable view of the flow velocity")
        n = bd["n"]
        observed.append({"op": op, "b": b, "n": n, "t": float(it.time),
                         "I": it.lag_grid_position_mismatch_field.astype(np.float64).ravel().copy(),
                         "D": it.lag_grid_velocity_mismatch_field.astype(np.float64).ravel().copy(),
                         "F": it.lag_grid_forcing_field.astype(np.float64).ravel().copy(),
                         "E": E.astype(np.float64).ravel().copy()})
    lines.append("run")
    return "\n".join(lines) + "\n", observed, problems, {"dim": dim, "reset": reset, "bodies": nbodies, "dtype": real_t.__name__,
                                                        "grid": list(shape), "ops": len(observed)}


def run(seed=0, tier="quick"):
    cfgs = [(2, False, 2, np.float64), (2, True, 1, np.float64), (3, False, 2, np.float64), (2, False, 1, np.float32), (3, True, 2, np.float64)]
    if tier != "quick":
        cfgs = cfgs * 3 + [(3, False, 1, np.float32)]
    length = 14 if tier == "quick" else 40
    reqs, obs, metas = [], [], []
    res = {"ok": True, "cases": 0, "samples": [], "name": "Model/VBF vs ImmersedBodyFlowInteraction over random histories", "ops": 0}
    for i, (dim, reset, nb, real_t) in enumerate(cfgs):
        text, observed, problems, meta = run_history(seed, i, dim, reset, nb, real_t, length)
        if problems:
            res.update(ok=False, detail=f"{meta}: {problems[0]}", failing_input={"oracle": "readonly", **meta, "what": problems[0]})
            return res
        reqs.append(text); obs.append(observed); metas.append(meta)
    p = subprocess.run(["lake", "env", "lean", "--run", "SophtVerif/Driver/VBF.lean"], cwd=harness.LEAN, input="".join(reqs),
                       capture_output=True, text=True, timeout=1800)
    if p.returncode != 0:
        raise RuntimeError(p.stderr[-2000:])
    blocks, cur = [], []
    for line in p.stdout.splitlines():
        if line.startswith("done"):
            blocks.append(cur); cur = []
        else:
            cur.append(line)
    if len(blocks) != len(reqs):
        raise RuntimeError("VBF driver answered a different number of requests")
    for observed, block, meta in zip(obs, blocks, metas):
        eps = float(np.finfo(np.float32 if meta["dtype"] == "float32" else np.float64).eps)
        for j, o in enumerate(observed):
            body_line, e_line = block[2 * j].split(" "), block[2 * j + 1].split(" ")
            n = o["n"] * meta["dim"]
            tI, tD, tF = body_line.index("I"), body_line.index("D"), body_line.index("F")
            mt = float(Fraction(body_line[3]))
            mI = np.array([float(Fraction(x)) for x in body_line[tI + 1:tD]])[:n]
            mD = np.array([float(Fraction(x)) for x in body_line[tD + 1:tF]])[:n]
            mF = np.array([float(Fraction(x)) for x in body_line[tF + 1:]])[:n]
            mE = np.array([float(Fraction(x)) for x in e_line[1:]])
            for name, a, b in (("t", np.array([o["t"]]), np.array([mt])), ("I", o["I"], mI), ("D", o["D"], mD), ("F", o["F"], mF), ("E", o["E"], mE)):
                scale = max(1.0, float(np.abs(b).max()))
                if not np.all(np.abs(a - b) <= 5e4 * eps * scale):
                    res.update(ok=False, detail=f"{meta} op#{j} {o['op']}: {name} differs: implementation {a[np.argmax(np.abs(a - b))]!r}, model {b[np.argmax(np.abs(a - b))]!r}",
                               failing_case={**meta, "op_index": j, "op": list(map(str, o["op"])), "field": name})
                    return res
            res["ops"] += 1
        res["cases"] += 1
        if len(res["samples"]) < 2:
            res["samples"].append({**meta, "history": [" ".join(map(str, o["op"])) for o in observed]})
    return res


def oracle(seed=0, tier="quick", aimed=None):
    """PI law on the implementation against an independent bookkeeping (numpy) of the same history"""
    cases = 0
    samples = []
    cfgs = [(2, False, 2, np.float64), (2, True, 2, np.float64), (3, False, 1, np.float64)]
    if tier != "quick":
        cfgs = cfgs * 4
    for ci, (dim, reset, nb, real_t) in enumerate(cfgs):
        r = impl.rng(seed + 3, "vbf-oracle", ci)
        shape = tuple(int(v) for v in (r.integers(10, 14, size=2) if dim == 2 else r.integers(9, 11, size=3)))
        dx = real_t(r.uniform(0.05, 0.2)); shift = float(dx / 2)
        u = r.normal(size=(dim,) + shape).astype(real_t)
        E = np.zeros((dim,) + shape, dtype=real_t)
        bodies = []
        for b in range(nb):
            n = int(r.integers(3, 6))
            pos = np.array([r.uniform(2.2 * dx + shift, (shape[dim - 1 - a] - 3.2) * dx + shift, size=n) for a in range(dim)]).astype(real_t)
            vel = r.normal(size=(dim, n)).astype(real_t)
            k, c, ds = float(r.uniform(1e2, 1e4)), float(r.uniform(0, 10)), float(r.uniform(0.5, 1.5) * dx)
            it = ImmersedBodyFlowInteraction(
                eul_grid_forcing_field=E, eul_grid_velocity_field=u, body_flow_forces=np.zeros((3, 1)), body_flow_torques=np.zeros((3, 1)),
                forcing_grid_cls=ScriptedGrid, virtual_boundary_stiffness_coeff=k, virtual_boundary_damping_coeff=c, dx=dx, grid_dim=dim,
                real_t=real_t, enable_eul_grid_forcing_reset=reset, body_pos=pos, body_vel=vel, spacing=ds)
            bodies.append({"it": it, "pos": pos, "vel": vel, "k": k * ds ** (dim - 1), "c": c * ds ** (dim - 1), "I": np.zeros((dim, n)),
                           "D": np.zeros((dim, n)), "t": 0.0})
        Eref = np.zeros_like(E, dtype=np.float64)
        info = {"dim": dim, "reset": reset, "bodies": nb, "grid": list(shape)}
        hist = []
        for op in history(r, nb, 12 if tier == "quick" else 40):
            kind, b = op[0], op[1]
            bd = bodies[b]
            it = bd["it"]
            hist.append(" ".join(map(str, op)))
            if kind == "move":
                bd["pos"] += (r.uniform(-0.3, 0.3, size=bd["pos"].shape) * dx).astype(real_t); bd["vel"][...] = r.normal(size=bd["vel"].shape); continue
            if kind == "nudge":
                bd["pos"] *= (1 + r.uniform(-4e-6, 4e-6, size=bd["pos"].shape)).astype(real_t); continue
            if kind == "flow":
                u[...] = r.normal(size=u.shape); continue
            if kind == "step":
                it.time_step(op[2]); bd["I"] = bd["I"] + op[2] * bd["D"]; bd["t"] += op[2]
            else:
                W = ref_weights(bd["pos"], float(dx), shift, dim)
                bd["D"] = ref_interp(W, u, float(dx), dim) - bd["vel"].astype(np.float64)
                F = bd["k"] * bd["I"] + bd["c"] * bd["D"]
                if kind == "lag":
                    it.compute_flow_forces_and_torques()
                else:
                    it()
                    if reset:
                        Eref[...] = 0
                    for m, cells in enumerate(W):
                        for cidx, w in cells:
                            for a in range(dim):
                                Eref[(a,) + cidx] += w * F[a, m]
                cases += 1
                what = None
                if impl.relerr(it.lag_grid_forcing_field, F) > 1e-9:
                    what = "marker force != k'*I + c'*(interp u - v_body)"
                elif impl.relerr(E, Eref) > 1e-9:
                    what = "Eulerian forcing field != " + ("last spread (reset mode)" if reset else "sum of all spreads")
                if what:
                    return {"ok": False, "cases": cases, "samples": samples, "failing_input": {"oracle": "c10_pi_law", "what": what, **info, "history": hist}}
            if impl.relerr(it.lag_grid_position_mismatch_field, bd["I"]) > 1e-9 or abs(it.time - bd["t"]) > 1e-12:
                return {"ok": False, "cases": cases, "samples": samples, "failing_input": {
                    "oracle": "c10_integral", "what": "integral / clock differs from the Euler-forward sum over the dt values passed", **info, "history": hist}}
        if len(samples) < 2:
            samples.append({"oracle": "c10", **info, "history": hist})
    # real bodies: every evaluation uses the markers of the body's CURRENT state, whichever entry point is used
    from oracles import c0809

    n, bad = c0809.state_only(seed, tier)
    cases += n
    if bad is not None:
        return {"ok": False, "cases": cases, "samples": samples, "failing_input": bad}
    samples.append({"oracle": "c10_markers_of_current_state", "evaluations": n})
    return {"ok": True, "cases": cases, "failing_input": None, "samples": samples}


def replay(fi):
    return oracle(seed=fi.get("seed", 0), tier="thorough")
