"""Access to the real implementation (/repo) with the pystencils back end substituted (shim)."""
import os
import sys

HERE = os.path.dirname(os.path.abspath(__file__))
sys.path.insert(0, HERE)
os.environ.setdefault("NUMBA_CACHE_DIR", os.path.join(os.path.dirname(HERE), ".cache", "numba"))
import logging

import shim

shim.install()
import numpy as np  # noqa: E402

import sopht.numeric.eulerian_grid_ops as spne  # noqa: E402

shim.assert_repo_is()
logging.disable(logging.CRITICAL)


def rng(seed, *salt):
    return np.random.default_rng([int(seed)] + [abs(hash(s)) % (2**31) if isinstance(s, str) else int(s) for s in salt])


def tolist(a):
    return np.asarray(a).tolist()


def relerr(a, b):
    a = np.asarray(a, dtype=np.float64)
    b = np.asarray(b, dtype=np.float64)
    scale = max(1.0, float(np.max(np.abs(a))) if a.size else 1.0, float(np.max(np.abs(b))) if b.size else 1.0)
    if a.shape != b.shape:
        return float("inf")
    with np.errstate(all="ignore"):
        d = np.abs(a - b)
    if not np.all(np.isfinite(d)):
        return float("inf")
    return float(np.max(d)) / scale if d.size else 0.0
