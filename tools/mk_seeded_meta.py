#!/venv/bin/python
"""Writes seeded/<id>/meta.json (which property the change breaks, what it needs to manifest, what was run) from the
hand-written summaries below, the confirmation log and the evaluation results, and prints the DESIGN.md table."""
import json
import os
import re
import sys

ROOT = os.path.dirname(os.path.dirname(os.path.abspath(__file__)))

INFO = {
    "C01": ("2D and 3D simulators generate the velocity-recovery curl with reset_ghost_zone=False: the boundary ring of the velocity is no longer zeroed before the free stream is added",
            "a second step with free stream on the same simulator, or an incoming state with non-zero velocity on the outermost ring (fresh simulators stepping once are unaffected)"),
    "C02": ("2D ENO3 y-back flux, downward branch: last stencil point taken from the x neighbour [0,1] instead of the y neighbour [1,0]",
            "2D only; negative y-velocity (face sum <= 0); all shipped examples use (+,+) free streams"),
    "C03": ("2D unbounded Poisson solve clears only the zero padding of the doubled buffer, with grid_size_x used for the row extent",
            "non-square grid with ny < nx AND at least one earlier non-zero solve on the same solver object"),
    "C04": ("2D y-back ENO3 kernel: upwind test `>` changed to `>=` (the y-front kernel keeps `>`)",
            "a face whose y-velocity sum is exactly zero (e.g. stagnation lines, symmetric flows)"),
    "C05": ("3D ENO3 z-front flux, negative branch: the far stencil point field[k+2] is multiplied by velocity_z[k+1] instead of velocity_z[k+2]",
            "3D, z direction, negative z-velocity that varies along z"),
    "C06": ("nearest Eulerian index clamped from below at interp_kernel_width (2D and 3D communicators)",
            "a marker with a coordinate in [1.5dx, 2.5dx) from the lower edge (the part [2dx, 2.5dx) is admissible)"),
    "C07": ("3D spreading skips markers whose window is `outside the grid`, testing index component (x,y,z) against array extent (z,y,x)",
            "3D, non-cubic grid in x vs z, marker inside the domain with ix+3 > nz (or iz+3 > nx): silently dropped from the spread"),
    "C08": ("rod surface grid computes the element couple from material-frame moment arms cached at construction (radius at construction time)",
            "surface grid with >= 3 points on an element AND element radius changed after grid construction (stretch/taper)"),
    "C09": ("sphere grid uses Q omega instead of Q^T omega for the lab-frame angular velocity",
            "sphere whose director differs from the identity and whose omega is not parallel to its rotation axis"),
    "C10": ("virtual-boundary forcing reuses the interpolation stencil while `the markers have not moved`, comparing against a cached REFERENCE to the position array that is updated in place",
            "history evaluate, move body, evaluate on the same interactor"),
    "C11": ("fast-diagonalisation solver caches spectral decompositions in a class-level dict keyed by (size, dx, bc) without the dtype",
            "a float32 solver constructed before a float64 solver sharing an axis length and a dx that compares equal"),
    "C12": ("3D penalised-velocity vorticity update, y component: velocity_field_x and velocity_field_z unpacked in swapped order",
            "3D penalised-velocity kernel with a background velocity with (d/dz + d/dx)(u_x - u_z) != 0"),
    "C13": ("laplacian filter hoists the flux-buffer ring reset to generation time",
            "something writes to the shared filter flux buffer after the kernel was generated (the 3D simulator's shared work array)"),
    "C14": ("3D Green's function: even reflection of z done about y_range",
            "3D Green's-function solver on a grid with nz != ny"),
    "C15": ("3D simulator passes buffer_scalar_field (a view of buffer_vector_field[0]) as the filter field buffer, aliasing the filter flux buffer",
            "3D simulator with filter_vorticity=True (default False)"),
    "C16": ("stable dt uses |sum_i u_i| instead of sum_i |u_i|",
            "the cell attaining the maximum has velocity components of opposite sign"),
    "C17": ("Lagrangian field load decides scalar/vector by comparing the on-disk shape with the registered shape and transposes only when they differ",
            "Lagrangian vector field on a grid with N == dim markers"),
    "C18": ("2D Poisson solve restores only the zero padding of the doubled buffer, with grid_size_x used for the row extent of the upper-right block",
            "tall grid (ny > nx) AND a previous non-zero solve on the same solver (checkpoint after step k >= 1)"),
    "C19": ("laplacian filter: flux-buffer ring not reset per call",
            "non-zero data in the ring of the flux buffer at call time (shared scratch buffer written after generation)"),
    "C20": ("3D advection: the first flux sweep overwrites instead of accumulating and the per-call reset of the flux buffer is dropped",
            "caller-supplied flux buffer with non-zero values in its outer two layers (buffer reuse)"),
    # ---- round 2 (seeded/<id>b): a second, independent change per property, written after the checks of round 1 existed
    "C01b": ("3D simulator reads the boundary-zone width as `kwargs.get('penalty_zone_width') or 2`: an explicit width 0 (damping off) becomes 2",
             "3D simulator constructed with penalty_zone_width=0"),
    "C03b": ("3D Green's-function table cached in a module-level dict keyed (nz, ny, nx, dtype) without x_range",
             "two 3D unbounded solvers of the same shape and precision with different x_range in one process"),
    "C06b": ("3D Peskin weights: inner piece of the x factor guarded by `<= 1.0` while the outer piece keeps `>= 1.0` (both pieces added at r == 1)",
             "3D, peskin kernel, a marker whose x coordinate sits on a cell centre so that the scaled distance is exactly 1.0 in floating point (power-of-two dx)"),
    "C08b": ("3D rigid-body forcing grids accumulate the torque from local_frame_relative_position_field instead of the lab-frame moment arm",
             "sphere (or any rigid body) forcing grid with a non-uniform force distribution"),
    "C09b": ("rod surface forcing grid computes grid_point_radius once in __init__",
             "element radius changed after construction (stretch, taper), then positions/velocities re-evaluated"),
    "C10b": ("virtual-boundary time_step adds to the integral only if a forcing evaluation happened since the last time_step",
             "two consecutive time_step calls without an evaluation in between"),
    "C11b": ("fast-diagonalisation solvers zero every mode with |eigenvalue| < sqrt(eps) * max instead of the constant mode only",
             "float32 with a long axis (>= ~52 cells in 3D, ~60 in 2D): the smoothest non-constant modes are dropped from the solution"),
    "C13b": ("3D boundary-zone damping: index of the z back edge computed from shape[1] (ny) instead of shape[0] (nz)",
             "3D damping with ny != nz and width >= 2"),
    "C16b": ("stable time step returns the advection limit alone when the viscosity is below 10*eps of the precision",
             "0 < nu < 1.19e-6 in float32 (2.2e-15 in float64) and a quiescent or nearly quiescent flow, where the diffusion limit is the binding one"),
    "C17b": ("EulerianFieldIO takes the grid origin as position_field.reshape(dim, -1).min(axis=1): x-y-z instead of z-y-x order",
             "a position field whose lower corner differs between the axes"),
    "C18b": ("restart helper picks the latest checkpoint by lexicographic sort of the file names",
             "checkpoint indices with different digit counts in one directory (9999 and 10000)"),
    "C19b": ("3D characteristic function: the far-field guard of the smoothed Heaviside reads `abs(phi) >= blend_width`",
             "3D, a cell whose level set equals +blend_width exactly"),
    # ---- round 3 (seeded/<id>c)
    "C02c": ("stable time step: velocity magnitude computed as |sum_i u_i| (sum and abs swapped, `no temporaries` rewrite) in the helper shared by all simulators",
             "flow / free-stream direction with components of opposite sign in an advection-limited run (effective Courant number O(1): convergence lost)"),
    "C04c": ("3D advection: full clear of the flux buffer dropped, first face kernel overwrites, ghost-zone reset of width 1 copied from the diffusion flux (ENO3 reaches 2)",
             "3D passive transport with stale data in the second boundary layer of the shared scratch buffer, e.g. dt = compute_stable_timestep(); time_step(dt)"),
    "C05c": ("3D vorticity update from penalised velocity, y component: x offsets of the two unpenalised velocity_z samples swapped",
             "3D, penalised-velocity update, z-component of the unpenalised velocity varying along x"),
    "C07c": ("2D scalar spreading multiplies the marker's weights in place through a view (`no temporary`): the caller's interp_weights are overwritten by F_i * w_i",
             "2D, n_components=1, the same weights reused after a spreading call (second spread, or spread then interpolate), forces != 1"),
    "C12c": ("3D curl kernel, y component written in accumulate form (`curl_y = curl_y + ...`) while x and z overwrite",
             "output array already holding non-zero y data at interior cells (second and later calls into the same buffer, e.g. simulator step >= 2)"),
    "C14c": ("2D ENO3 y-back flux chooses its upwind branch from the velocity sum of the upper face (v[j]+v[j+1]) instead of its own (v[j]+v[j-1])",
             "2D, y-velocity changing sign along y inside the vorticity support"),
    "C15c": ("3D vector-field interpolation and spreading kernels compiled with numba parallel=True / prange over markers when num_lag_nodes >= 2048",
             "3D vector communicator, >= 2048 markers with overlapping windows, more than one numba thread (data race in the spreading)"),
    "C20c": ("passive-transport simulator forms dt/dx and nu dt/dx^2 from an inverse spacing grid_size[0]/x_range (y or z cell count instead of x)",
             "PassiveTransportFlowSimulator on a non-square / non-cubic grid (grid_size[0] != grid_size[-1])"),
    # ---- round 4 (seeded/<id>d)
    "C01d": ("2D forcing wrapper calls the inner Navier-Stokes step without forwarding free_stream_velocity (falls back to zeros)",
             "2D simulator with with_forcing=True AND with_free_stream_flow=True and a non-zero free stream"),
    "C03d": ("3D unbounded solver sizes its doubled FFT buffers with pyfftw.next_fast_len(2n); the evenly reflected Green's table is copied into the low corner of the padded buffer",
             "3D, an axis length n whose 2n has a prime factor above 13 (n = 17, 19, 23, 29, 31, ...)"),
    "C06d": ("local-support kernel: nearest index from floor((x - shift) * inv_dx), distances from (x - shift) % dx (two roundings that can disagree)",
             "non-dyadic dx and a marker coordinate on a cell centre up to rounding (5-40% of the centres)"),
    "C08d": ("2D cylinder grid stores the lab-frame z torque without the director entry Q[2,2] (`the axis is along z`)",
             "2D cylinder whose axis points along -z (Q[2,2] = -1)"),
    "C09d": ("2D edge rod grid: lab-frame angular velocity replaced by z_hat (d1.z) omega_local[0] (`the rod only spins about its normal`)",
             "edge forcing grid of a planar rod whose normal d1 is not along +-z (in-plane normal: d2 carries the spin), non-zero angular velocity"),
    "C10d": ("compute_interaction_on_lag_grid (body-force path) evaluates the marker velocities BEFORE the marker positions (stale moment arms)",
             "compute_flow_forces_and_torques on a rotating body whose orientation changed since the previous evaluation; rigid-body / edge / surface grids"),
    "C11d": ("3D fast-diagonalisation solver builds one tridiagonal matrix for the longest axis and uses leading blocks (views) for the others; the in-place Neumann corner writes of a shorter axis land inside the longer ones",
             "3D, non-cubic grid"),
    "C13d": ("3D vector diffusion-flux wrapper resets the boundary ring of all components unconditionally (ignoring reset_ghost_zone)",
             "field_type='vector', reset_ghost_zone=False, output array with non-zero ring"),
    "C16d": ("Navier-Stokes simulators pass kinematic_viscosity / flow_density to the stable-time-step helper",
             "Navier-Stokes simulator with flow_density > 1 in a diffusion-limited regime"),
    "C17d": ("every floating-point create_dataset in save passes dtype=self.real_dtype: arrays wider than the registry's declared precision are rounded on disk",
             "float32 registry (IO or CosseratRodIO) holding float64 arrays"),
    "C18d": ("virtual-boundary forcing rebuilds its interpolation stencil only when np.allclose(positions, positions at last build) fails",
             "slowly moving body (marker displacement < 1e-8 + 1e-5 |x| per evaluation), checkpoint taken while the live stencil is stale"),
    "C19d": ("3D Laplacian filter: z stencil written with the opposite sign of the x and y stencils",
             "odd filter order (1, 3), field varying along z"),
    # ---- round 5 (seeded/<id>e)
    "C02e": ("domain set-up, 3D: the z cell centres of position_field are built from y_range (copy-paste in a de-duplicating helper); z_range, dx and all kernels untouched",
             "3D simulator with nz != ny, analytic fields written on the simulator's own position_field"),
    "C04e": ("3D simulator builds the vorticity filter with filter_flux_buffer=buffer_scalar_field and field_buffer=buffer_vector_field[0] (the same memory)",
             "3D Navier-Stokes step with filter_vorticity=True (any filter setting)"),
    "C05e": ("domain set-up, 3D: z_range = y_range * nz / nx instead of x_range * nz / nx",
             "3D simulator with ny != nx"),
    "C07e": ("2D vector spreading rewritten as a fancy-indexed `flat[idx] += F * w` over all markers (repeated indices: only the last contribution survives)",
             "2D, n_components=2, at least two markers with the same nearest cell (clustered / duplicated markers, Lagrangian spacing below dx)"),
    "C12e": ("3D divergence kernel: the z term takes its central difference along x",
             "vector field whose z component varies differently along x and z"),
    "C14e": ("3D fast-diagonalisation vector_field_solve reads the right-hand side of the z component from the y component",
             "3D simulator with poisson_solver_type='fast_diagonalisation', vorticity whose y and z components differ"),
    "C15e": ("3D vector advection time step passes each component as its own flux buffer (`the flux kernels accumulate anyway`): output = neighbour-read input",
             "field_type='vector' 3D ENO3 advection (PassiveTransportFlowSimulator 3D vector), non-uniform field, non-zero velocity"),
    "C20e": ("SSP-RK3 stretching kernel: after merging two aliases the third-stage flux is evaluated on the step's input vorticity",
             "SSP-RK3 stretching with a velocity whose stretching operator is not nilpotent and a step large enough for the A^2 term"),
    # ---- round 6 (seeded/<id>f)
    "C01f": ("3D forced step: body force added to u x omega before ONE curl (`curl is linear`), instead of updating the vorticity from the forcing first",
             "3D, with_forcing, non-zero forcing field with non-zero discrete curl and a non-zero velocity (the lost term is O(dt^2))"),
    "C03f": ("2D Green's-function table built from per-axis reflected separation vectors, both reflected about 2*x_range",
             "2D solver on a non-square grid (wide: wrong values; tall: inf in the table)"),
    "C06f": ("3D vector interpolation de-duplicated into a loop; the hoisted z start index is taken from the y cell index",
             "3D, n_components=3 interpolation, a marker whose y and z cell indices differ, a field varying along z"),
    "C08f": ("element-centric rod grid: the zero-fill of body_flow_forces dropped, left shares assigned, right shares subtracted: the last node is never reset",
             "element-centric grid, second and later evaluations into the same persistent array"),
    "C09f": ("element-centric rod grid: element-centre velocity as a plain (end-corrected) average of the node velocities instead of the mass-weighted one",
             "rod with non-uniform nodal masses (taper, non-uniform element lengths) and node velocities varying along the rod"),
    "C10f": ("VirtualBoundaryForcing.__init__: keyword parameters enable_eul_grid_forcing_reset and num_threads listed in the opposite order, while ImmersedBodyFlowInteraction forwards them positionally",
             "RigidBody/CosseratRod/ImmersedBodyFlowInteraction with exactly one of the two options set and a non-zero shared Eulerian forcing field"),
    "C11f": ("3D vector_field_solve loops over the components and skips a component whose right-hand side is identically zero, leaving the output component untouched",
             "a zero right-hand-side component and an output array that is not zero on entry (reused from step to step)"),
    "C13f": ("2D boundary-zone damping regrouped `one side at a time` (front fill, front ramp, back fill, back ramp)",
             "a grid narrower than two zone widths along an axis (2*width > n+1): the back fill reads a column the front ramp has already scaled"),
    "C16f": ("2D Navier-Stokes compute_stable_timestep memoises its result per time level",
             "two evaluations on one simulator at the same sim.time with the velocity (or viscosity / cfl) changed in between"),
    "C17f": ("IO.load guards the Lagrangian section with `if self.lagrangian_fields` instead of `if self.lagrangian_grids`",
             "a registry with Lagrangian grids but no Lagrangian field on any grid"),
    "C18f": ("restart helper compares flow and body time with np.isclose (default tolerances)",
             "late in a long run (t > dt / 1e-5): a flow checkpoint one step away from the body state is accepted"),
    "C19f": ("3D boundary-zone damping: the z `domain end` coordinate read from y_grid_field",
             "3D grid with ny != nz, width >= 1 (z-back slab)"),
    # ---- round 7 (seeded/<id>g)
    "C02g": ("2D free-stream update rewritten as a loop over axes that skips an axis when free_stream_velocity[axis] > 0.0 is false",
             "2D Navier-Stokes simulator with free stream having a strictly negative component"),
    "C04g": ("3D ENO3 z-front kernel, downwind branch: third term multiplies field[k+2] by velocity_z[k+1]",
             "3D advection, negative z velocity varying along z"),
    "C05g": ("2D simulator forms the velocity-recovery prefactor once as real_t(grid_size_x // 2 / x_range)",
             "2D Navier-Stokes simulator with an odd number of cells along x"),
    "C07g": ("3D vector spreading skips `force-free` markers, testing components [0], [1], [1] (never [2])",
             "3D, n_components=3, a marker with exactly zero x and y force and non-zero z force"),
    "C12g": ("2D out-of-plane curl, ghost-zone reset variant: the zeroed ring width becomes 2",
             "reset_ghost_zone=True (the simulator's velocity recovery), cells two away from the boundary"),
    "C14g": ("3D multiplicative filter swaps field and flux buffers after every 1D sweep and always reads one of them at the end",
             "filter_vorticity with type multiplicative and an ODD order (3*order sweeps), a relabelling that moves z"),
    "C15g": ("the velocity maximum of the stable time step computed by a numba parallel reduction over num_threads chunks of size n // num_threads (remainder never visited)",
             "cell count not a multiple of num_threads and the velocity maximum in the last cells of the flattened array"),
    "C20g": ("3D vector diffusion time step builds its flux kernel without the ghost-zone reset",
             "field_type='vector', flux buffer with non-zero outer layer on entry (the 3D simulator's shared work array)"),
}


def main():
    rows = []
    for sid in sorted(INFO):
        d = os.path.join(ROOT, "seeded", sid)
        what, needs = INFO[sid]
        files = sorted(set(re.findall(r"^\+\+\+ b/(\S+)", open(os.path.join(d, "patch.diff")).read(), flags=re.M)))
        conf = open(os.path.join(d, "confirm.txt")).read() if os.path.exists(os.path.join(d, "confirm.txt")) else ""
        pinned = re.findall(r"pinned tests passing: (\d+)/(\d+)", conf)
        ev = {}
        for evn in ("eval_quick.json", "patch.eval_quick.json"):
            if os.path.exists(os.path.join(d, evn)):
                ev.update(json.load(open(os.path.join(d, evn))))
        meta = {
            "breaks_property": sid[:3],
            "round": 7 if sid.endswith("g") else 6 if sid.endswith("f") else 5 if sid.endswith("e") else 4 if sid.endswith("d") else 3 if sid.endswith("c") else 2 if sid.endswith("b") else 1,
            "change": what,
            "files": files,
            "needs_to_manifest": needs,
            "produced_by": "fresh sub-agent given only the property text and its own scratch git worktree under /tmp",
            "what_was_run": {
                "by_the_agent": "demo.py (see notes.md: output with and without the change, pinned tests)",
                "confirmation_by_me": "tools/confirm_seeded.sh: demo.py with the change in a scratch worktree (fails), the pinned 414 tests with the change (pass), demo.py on the clean tree (passes); log in confirm.txt",
                "pinned_tests_with_change": f"{pinned[-1][0]}/{pinned[-1][1]}" if pinned else "see confirm.txt",
                "checks": "tools/seeded_eval.py: git -C /repo apply patch.diff; tools/check.py --property <P> --tier quick; git -C /repo checkout -- .",
            },
            "detected_by": {p: {"exit": r.get("exit"), "failing_input": (not r.get("no_failing_input_found", False)) if r.get("exit") == 1 else None,
                                "broken_obligations": r.get("broken", []), "oracle": r.get("failing_input_oracle"),
                                "what": r.get("failing_input_what")} for p, r in ev.items()},
        }
        json.dump(meta, open(os.path.join(d, "meta.json"), "w"), indent=1)
        cells = []
        for p in sorted(ev):
            r = ev[p]
            if r.get("exit") == 1:
                kind = "replay" if not r.get("no_failing_input_found") else "no-failing-input-found"
                br = ", ".join(b.split(" (")[0] for b in r.get("broken", [])[:2]) or "-"
                cells.append(f"**{p}** ✓ ({kind}; broken: {br}; search: {r.get('failing_input_oracle') or '-'})")
            else:
                cells.append(f"{p} ✗ (exit {r.get('exit')})")
        rows.append(f"| {sid} | {what} | {needs} | {'<br>'.join(cells)} |")
    print("| change for | what it changes | needs to manifest | checks run → result |")
    print("|---|---|---|---|")
    print("\n".join(rows))


if __name__ == "__main__":
    sys.exit(main())
