#!/venv/bin/python
"""Writes MANIFEST.json from tools/props.py (single source for what is claimed)."""
import json
import os
import sys

HERE = os.path.dirname(os.path.abspath(__file__))
ROOT = os.path.dirname(HERE)
sys.path.insert(0, HERE)
import props

ALL = [f"C{n:02d}" for n in range(1, 21)]


def main():
    checks = []
    for pid in ALL:
        if pid not in props.REGISTRY:
            continue
        s = props.REGISTRY[pid]
        checks.append({
            "property_id": pid,
            "quick_cmd": f"/venv/bin/python tools/check.py --property {pid} --tier quick",
            "thorough_cmd": f"/venv/bin/python tools/check.py --property {pid} --tier thorough",
            "evidence_file": f"evidence/{pid}.json",
            "replay_cmd_template": f"/venv/bin/python tools/check.py --property {pid} --replay {{path}}",
            "engine": "lean-proof",
            "level_claimed": {
                "category": "proof",
                "text": s["level_text"],
                "design_ref": s.get("design_ref", f"DESIGN.md §6 {pid}"),
            },
            "level_note": s["level_note"],
            "technique": s.get("technique", "Lean 4 theorems over a model regenerated from / tied to the code"),
        })
    na = [{"property_id": pid, "reason": props.NOT_CLAIMED.get(pid, "machinery for this property not built yet")}
          for pid in ALL if pid not in props.REGISTRY]
    man = {
        "version": 1,
        "setup_cmd": "/venv/bin/python tools/translate.py && cd lean && lake build",
        "hooks": {
            "guard": "SOPHT_VERIF",
            "enable": "no source hooks are needed: the pystencils back end is substituted from outside the repository by tools/shim.py (ps.kernel / ps.create_kernel / ps.CreateKernelConfig replaced in the harness process); SOPHT_VERIF is reserved",
            "baseline_off_cmd": "cd /repo && /venv/bin/python -m pytest -ra -q -p no:cacheprovider --timeout=900 --continue-on-collection-errors",
            "source_commits": props.SOURCE_COMMITS,
            "add_only": True,
        },
        "engines": [{
            "name": "lean-proof",
            "path": "lean/",
            "serves_properties": [c["property_id"] for c in checks],
            "kind_free_text": "Lean 4 (Mathlib) theorems about (a) kernel definitions regenerated from /repo's generators by tools/translate.py on every run and (b) hand-written models tied to the implementation by correspondence runs; oracles on the real implementation only search for failing inputs",
        }],
        "checks": checks,
        "not_applicable": na,
        "notes": "Design, trusted base, findings and seeded-change results: DESIGN.md. known_findings.json lists recorded/fixed defects.",
    }
    json.dump(man, open(os.path.join(ROOT, "MANIFEST.json"), "w"), indent=1)
    print(f"MANIFEST.json: {len(checks)} checks, {len(na)} not claimed")


if __name__ == "__main__":
    main()
