"""C01 oracle: the simulators' time_step against the independent reference step (tools/ref.py) on random
states — non-zero velocity on the boundary ring, several consecutive steps, every option class — with the
simulator's own Poisson solver as the (parametric) solve of the specification."""
import itertools
import warnings

import numpy as np

import impl
import ref as R


def _mk(r, dim, real_t, forcing, fs, filt, solver, w):
    import sopht.simulator as sps

    lo = max(2 * w + 1, 6)
    shape = tuple(int(v) for v in r.integers(lo, lo + 4, size=dim))
    if len(set(shape)) < dim:
        shape = tuple(shape[0] + i for i in range(dim))
    common = dict(grid_size=shape, x_range=float(r.uniform(0.5, 2)), kinematic_viscosity=float(r.uniform(1e-3, 5e-2)), real_t=real_t,
                  with_forcing=forcing, with_free_stream_flow=fs, flow_density=float(r.uniform(0.5, 2)), penalty_zone_width=w,
                  time=float(r.uniform(0, 2)))
    with warnings.catch_warnings():
        warnings.simplefilter("ignore")
        if dim == 2:
            sim = sps.UnboundedNavierStokesFlowSimulator2D(**common)
        else:
            kw = {}
            if filt is not None:
                kw = dict(filter_vorticity=True, filter_setting_dict={"order": filt[0], "type": filt[1]})
            sim = sps.UnboundedNavierStokesFlowSimulator3D(poisson_solver_type=solver, **common, **kw)
    return sim, shape


def run(seed=0, tier="quick", aimed=None):
    cases = 0
    samples = []
    cfgs = []
    for dim in (2, 3):
        filts = [None] if dim == 2 else [None, (1, "multiplicative"), (2, "convolution"), (3, "multiplicative")]
        solvers = ["-"] if dim == 2 else ["greens_function_convolution", "fast_diagonalisation"]
        for forcing, fs, filt, solver, w in itertools.product([False, True], [False, True], filts, solvers, range(0, 5)):
            cfgs.append((dim, forcing, fs, filt, solver, w))
    r0 = impl.rng(seed, "c01cfg")
    if tier == "quick":
        pick = list(r0.permutation(len(cfgs))[:8])
        cfgs = [cfgs[i] for i in pick] + [(2, True, True, None, "-", 2), (3, True, True, (2, "multiplicative"), "greens_function_convolution", 1)]
    for ci, (dim, forcing, fs, filt, solver, w) in enumerate(cfgs):
        for real_t, tol in ((np.float64, 1e-9),) + (((np.float32, 2e-3),) if ci % 3 == 0 else ()):
            r = impl.rng(seed, "c01", ci)
            sim, shape = _mk(r, dim, real_t, forcing, fs, filt, solver, w)
            sim.vorticity_field[...] = r.normal(size=sim.vorticity_field.shape)
            sim.velocity_field[...] = r.normal(size=sim.velocity_field.shape)   # incl. the boundary ring
            for b in ("buffer_scalar_field", "stream_func_field"):
                getattr(sim, b)[...] = r.normal(size=getattr(sim, b).shape)
            if dim == 3:
                sim.buffer_vector_field[...] = r.normal(size=sim.buffer_vector_field.shape)
            ps = sim._unbounded_poisson_solver

            def solve(rhs, sim=sim, ps=ps, dim=dim, real_t=real_t):
                rhs = np.ascontiguousarray(rhs.astype(real_t))
                out = np.zeros_like(rhs)
                with warnings.catch_warnings():
                    warnings.simplefilter("ignore")
                    if dim == 2:
                        ps.solve(solution_field=out, rhs_field=rhs)
                    else:
                        ps.vector_field_solve(solution_vector_field=out, rhs_vector_field=rhs)
                return out.astype(np.float64)

            label = f"{dim}D forcing={forcing} free_stream={fs} filter={filt} solver={solver} width={w} grid={shape} {real_t.__name__}"
            state = {"vorticity": sim.vorticity_field.copy(), "velocity": sim.velocity_field.copy(),
                     "forcing": sim.eul_grid_forcing_field.copy() if forcing else None}
            for stepno in range(3):
                dt = float(r.uniform(1e-3, 5e-3))
                U = r.normal(size=dim) if fs else None
                if forcing:
                    sim.eul_grid_forcing_field[...] = r.normal(size=sim.eul_grid_forcing_field.shape)
                    state["forcing"] = sim.eul_grid_forcing_field.copy()
                t0 = sim.time
                cfg = {"dim": dim, "dt": dt, "dx": float(sim.dx), "nu": sim.kinematic_viscosity, "rho": sim.flow_density, "width": w,
                       "free_stream": U, "filter": filt}
                # the reference continues from the SIMULATOR's state (single-step comparison, repeated along a trajectory)
                state["vorticity"] = sim.vorticity_field.copy(); state["velocity"] = sim.velocity_field.copy()
                exp = R.ns_step_reference(state, cfg, solve)
                with warnings.catch_warnings():
                    warnings.simplefilter("ignore")
                    if fs:
                        sim.time_step(dt=dt, free_stream_velocity=U)
                    else:
                        sim.time_step(dt=dt)
                cases += 1
                what = None
                if sim.time != t0 + dt:
                    what = f"time {sim.time!r} != {t0!r} + {dt!r}"
                elif forcing and np.any(sim.eul_grid_forcing_field != 0):
                    what = "body-forcing field not identically zero on return"
                elif impl.relerr(sim.vorticity_field, exp["vorticity"]) > tol:
                    what = f"vorticity differs from the documented operator sequence (rel. err {impl.relerr(sim.vorticity_field, exp['vorticity']):.3e})"
                elif impl.relerr(sim.velocity_field, exp["velocity"]) > tol:
                    what = f"velocity != curl(stream function) + free stream (rel. err {impl.relerr(sim.velocity_field, exp['velocity']):.3e})"
                if what:
                    return {"ok": False, "cases": cases, "samples": samples, "failing_input": {
                        "oracle": "c01_reference_step", "what": what, "config": label, "step": stepno + 1, "dt": dt,
                        "free_stream": None if U is None else U.tolist()}}
            if len(samples) < 3:
                samples.append({"oracle": "c01_reference_step", "config": label, "steps": 3})
    # passive transport
    fi, c = passive_reference_steps(seed, "c01passive", "c01_passive_reference_step")
    cases += c
    if fi is not None:
        return {"ok": False, "cases": cases, "samples": samples, "failing_input": fi}
    return {"ok": True, "cases": cases, "failing_input": None, "samples": samples}


def passive_reference_steps(seed, tag, oracle_name, reps=1):
    """passive-transport simulator (2D scalar, 3D scalar, 3D vector; pairwise different grid extents; dt drawn or taken from
    compute_stable_timestep, which leaves data in the shared scratch buffer) against the numpy reference step
    field + dt * (-u.grad_ENO3 + nu Lap_h)(field) with dx = x_range / nx"""
    import sopht.simulator as sps

    cases = 0
    for rep in range(reps):
        for dim, ft in ((2, "scalar"), (3, "scalar"), (3, "vector")):
            r = impl.rng(seed, tag, dim, ft, rep)
            shape = tuple(int(v) for v in 6 + r.permutation(dim + 2)[:dim])
            xr = float(r.uniform(0.5, 2.0))
            sim = sps.PassiveTransportFlowSimulator(kinematic_viscosity=float(r.uniform(1e-3, 5e-2)), grid_dim=dim, grid_size=shape,
                                                    x_range=xr, real_t=np.float64, field_type=ft, time=0.25)
            sim.primary_field[...] = r.normal(size=sim.primary_field.shape)
            sim.velocity_field[...] = r.normal(size=sim.velocity_field.shape)
            sim.buffer_scalar_field[...] = r.normal(size=shape)
            dx = xr / shape[-1]
            for stepno in range(3):
                if stepno == 1:
                    with np.errstate(all="ignore"):
                        dt = float(sim.compute_stable_timestep(dt_prefac=0.5))
                else:
                    dt = float(r.uniform(1e-3, 5e-3))
                exp = R.passive_step_reference(sim.primary_field, sim.velocity_field, dt, dx, sim.kinematic_viscosity)
                t0 = sim.time
                sim.time_step(dt=dt)
                cases += 1
                if sim.time != t0 + dt or impl.relerr(sim.primary_field, exp) > 1e-10:
                    return {"oracle": oracle_name, "dim": dim, "field_type": ft, "grid": list(shape), "x_range": xr, "step": stepno + 1, "dt": dt,
                            "dt_from_compute_stable_timestep": stepno == 1, "rel_err": impl.relerr(sim.primary_field, exp),
                            "what": "simulator step differs from field + dt*flux(field) with dx = x_range/nx"}, cases
    return None, cases


def replay(fi):
    return run(seed=fi.get("seed", 0), tier="thorough")
